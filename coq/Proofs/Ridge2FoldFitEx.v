(* A concrete fit over an arbitrary real closed field, for the non-vacuity example of the
   data-level theorems of Properties/C10.v:  X = (1, 0)^T (two samples, one feature),
   y = (1, 1)^T, cv = None with shuffle = False (the model's own KFold(2) split: fold 1 = [1],
   fold 2 = [0]), relative grid [0, 1/2], cut-off method, neg. squared error as scorer,
   rcond = 0.  Fold 1 is the zero matrix: its singular value 0 is cut.  ssreflect style. *)
From mathcomp Require Import all_ssreflect all_algebra.
From Verif Require Import MExp MExpMx Ridge2Fold Ridge2FoldMx MxFrobP Ridge2FoldP.
From Verif Require Import Ridge2FoldFit Ridge2FoldFitMx Ridge2FoldFitP.
Set Implicit Arguments.
Unset Strict Implicit.
Unset Printing Implicit Defensive.
Import Order.TTheory GRing.Theory Num.Theory.
Local Open Scope ring_scope.

Section FitEx.
  Variable F : rcfType.

  Definition fx_X : 'M[F]_(2, 1) := \matrix_(i, j) (if i == ord0 then 1 else 0).
  Definition fx_a : r2f_data F :=
    @Data F 2 1 1 1 fx_X (const_mx 1) 1%:M (CvKFold 2) 1 1 1.

  Lemma fx_f1 : a_f1 fx_a = [:: 1%N]. Proof. by []. Qed.
  Lemma fx_f2 : a_f2 fx_a = [:: 0%N]. Proof. by []. Qed.

  Definition fx_q : r2f_oracles fx_a :=
    @Oracles F fx_a 1%:M (const_mx 0) 1%:M   1%:M (const_mx 1) 1%:M   fx_X (const_mx 1) 1%:M.
  Definition fx_w : r2f_params F (a_t fx_a) :=
    @Params F 1 (fun m yt yp => - fn2 (yt - yp)) [:: 0; 2%:R^-1] 1 1 0.

  Lemma fx_X1 : X_fold1 fx_a = 0.
  Proof.
    apply/matrixP => i j; rewrite (@take_rowsE F 2 1 (a_f1 fx_a) fx_X i (lift ord0 ord0) j) ?mxE //.
    by rewrite (ord1 i).
  Qed.

  Lemma fx_X2 : X_fold2 fx_a = 1%:M.
  Proof.
    apply/matrixP => i j; rewrite (@take_rowsE F 2 1 (a_f2 fx_a) fx_X i ord0 j) ?mxE //.
      by rewrite !ord1.
    by rewrite (ord1 i).
  Qed.

  Lemma fx_svd1 : is_svd (X_fold1 fx_a) (q_U1 fx_q) (q_S1 fx_q) (q_V1 fx_q).
  Proof.
    rewrite fx_X1; split; rewrite /= ?trmx1 ?mulmx1 //.
    - by rewrite trmx_const diag_const_mx mul1mx -scalemx1 scale0r.
    - by move=> i j _; rewrite !mxE.
    - by move=> i; rewrite mxE.
  Qed.

  Lemma fx_svd2 : is_svd (X_fold2 fx_a) (q_U2 fx_q) (q_S2 fx_q) (q_V2 fx_q).
  Proof.
    rewrite fx_X2; split; rewrite /= ?trmx1 ?mulmx1 //.
    - by rewrite trmx_const diag_const_mx mul1mx.
    - by move=> i j _; rewrite !mxE.
    - by move=> i; rewrite mxE ler01.
  Qed.

  Lemma fx_svd : is_svd (a_X fx_a) (q_U fx_q) (q_S fx_q) (q_V fx_q).
  Proof.
    split; rewrite /= ?trmx1 ?mulmx1 //.
    - apply/matrixP => i j; rewrite !mxE !ord1 big_ord_recl big_ord_recl big_ord0 !mxE /=.
      by rewrite mulr1 mulr0 !addr0.
    - by rewrite trmx_const diag_const_mx mulmx1.
    - by move=> i j _; rewrite !mxE.
    - by move=> i; rewrite mxE ler01.
  Qed.

  Lemma fx_hyps : data_hyps fx_q fx_w.
  Proof. by split; [exact: fx_svd1 | exact: fx_svd2 | exact: fx_svd | | ]. Qed.

  Lemma fx_guard : fit_guard (rops F) (p_method fx_w) (p_atype fx_w) (p_alphas fx_w) = None.
  Proof.
    rewrite fit_guard_spec /= lexx ltr01 /= invr_ge0 ler0n /=.
    by rewrite invf_lt1 ?ltr0n // ltr1n.
  Qed.

  Lemma fx_fit : exists r, fit_mx fx_q fx_w = inr r.
  Proof. by rewrite /fit_mx fx_guard; eexists. Qed.

  Lemma fx_cut : exists i, q_S1 fx_q i ord0 <= p_rcond fx_w.
  Proof. by exists ord0; rewrite mxE. Qed.
End FitEx.
