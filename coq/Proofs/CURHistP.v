(* C07, layer A, histories: theorems about the wrappers of Model/CURHistMx.v over an arbitrary real
   closed field.  ssreflect style; builds on Proofs/CURLoopP.v. *)
From mathcomp Require Import all_ssreflect all_algebra.
From Verif Require Import MExp MExpMx MxBox MxBoxP PCovR CURLoop CURLoopMx CURLoopP CURHistMx.
Set Implicit Arguments.
Unset Strict Implicit.
Unset Printing Implicit Defensive.
Import Order.TTheory GRing.Theory Num.Theory.
Local Open Scope ring_scope.

(* ==== the warm-start loop catches up ========================================================== *)
Section WarmLoop.
  Variable F : rcfType.
  Variables (r c : nat) (X : 'M[F]_(r, c)) (tol : F).
  Hypothesis tpos : 0 < tol.

  Lemma pivot_norm_ge0 (A : 'M[F]_(r, c)) j : 0 <= pivot_norm_mx A j.
  Proof. by rewrite norm_formula sqrtr_ge0. Qed.

  Lemma pivots_ok_cat (A : 'M[F]_(r, c)) s1 s2 :
    pivots_ok tol A (s1 ++ s2) -> pivots_ok tol A s1 /\ pivots_ok tol (orth_fold_mx tol A s1) s2.
  Proof.
    elim: s1 A => [|j s IH] A //=.
    by case=> Hn /IH [H1 H2]; split.
  Qed.

  (* the guard is quiet on every item of a list: the loop changes nothing *)
  Lemma warm_fold_quiet (Xc : 'M[F]_(r, c)) (s : seq 'I_c) :
    (forall j, j \in s -> ~~ guard_mx tol X Xc j) -> warm_fold_mx tol X Xc s = Xc.
  Proof.
    elim: s => [|j s IH] //= H.
    rewrite /warm_fold_mx /= /warm_step_mx (negbTE (H j (mem_head _ _))).
    by apply: IH => i js; apply: H; rewrite inE js orbT.
  Qed.

  (* the guard fires on every item of a list, at its turn: the loop is the plain fold *)
  Lemma warm_fold_live (Xc : 'M[F]_(r, c)) (s : seq 'I_c) :
    stale_live tol X Xc s -> warm_fold_mx tol X Xc s = orth_fold_mx tol Xc s.
  Proof.
    elim: s Xc => [|j s IH] Xc //= [Hg Hs].
    by rewrite /warm_fold_mx /orth_fold_mx /= /warm_step_mx Hg; apply: IH.
  Qed.

  (* C07_warm_catches_up: s1 = the items already projected out (selected while recompute_every
     != 0, pivots normalised), s2 = the items selected afterwards while recompute_every = 0 (still
     in the residual).  The loop of _continue_greedy_search over selected_idx_ = s1 ++ s2 leaves
     the s1 part alone (their residual columns are exactly zero, the guard is quiet) and projects
     the s2 items out one after the other: the result is the fold over ALL selections. *)
  Theorem warm_catches_up (s1 s2 : seq 'I_c) :
    pivots_ok tol X s1 ->
    stale_live tol X (orth_fold_mx tol X s1) s2 ->
    warm_fold_mx tol X (orth_fold_mx tol X s1) (s1 ++ s2) = orth_fold_mx tol X (s1 ++ s2).
  Proof.
    move=> Hp Hl.
    rewrite /warm_fold_mx foldl_cat -/(warm_fold_mx tol X _ s1) warm_fold_quiet.
      by rewrite -/(warm_fold_mx tol X _ s2) (warm_fold_live Hl) /orth_fold_mx foldl_cat.
    move=> j js; exact: (warm_guard_quiet tpos Hp js (pivot_norm_ge0 X j)).
  Qed.

  (* with the hypotheses of C07_residual_is_projection on the whole selection the caught-up
     residual is the projection residual *)
  Corollary warm_catches_up_projection (s1 s2 : seq 'I_c) :
    pivots_ok tol X (s1 ++ s2) ->
    stale_live tol X (orth_fold_mx tol X s1) s2 ->
    let Xc := warm_fold_mx tol X (orth_fold_mx tol X s1) (s1 ++ s2) in
    [/\ forall j, j \in s1 ++ s2 -> Xc^T *m col j X = 0,
        exists B : 'M[F]_c, X - Xc = X *m B /\ forall i, i \notin s1 ++ s2 -> row i B = 0
      & forall j, j \in s1 ++ s2 -> col j Xc = 0].
  Proof.
    move=> Hp Hl Xc.
    have [Hp1 _] := pivots_ok_cat Hp.
    rewrite /Xc (warm_catches_up Hp1 Hl).
    exact: (residual_is_projection tpos Hp).
  Qed.

  (* a second warm start right after changes nothing (every selected item is projected out) *)
  Corollary warm_idempotent (s : seq 'I_c) :
    pivots_ok tol X s ->
    warm_fold_mx tol X (orth_fold_mx tol X s) s = orth_fold_mx tol X s.
  Proof.
    move=> Hp; have := @warm_catches_up s [::] Hp I.
    by rewrite cats0.
  Qed.
End WarmLoop.

(* ==== Y_feature_orthogonalizer over an arbitrary sequence of events =========================== *)
Section YEvents.
  Variable F : rcfType.
  Variables n m p : nat.
  Variables (X : 'M[F]_(n, m)) (sel : seq nat) (y0 : 'M[F]_(n, p)).
  Local Notation buf := (buf_mx X sel).
  Local Notation lsq := (lsq X sel y0).

  Lemma buf_shrink_gen t t' K : (t <= t')%N -> buf t K = buf t' K *m Dsel F t K.
  Proof.
    move=> tt'; apply/matrixP => i j; rewrite [RHS]mxE.
    rewrite (eq_bigr (fun a : 'I_K =>
       ((if (a < t')%N then xcol X i (nth 0%N sel a) else 0) * (a < t)%N%:R)
       * ((a : nat) == j)%:R)); last first.
      by move=> a _; rewrite !mxE andbC -mulnb natrM mulrA.
    rewrite sum_pick [LHS]mxE valK.
    case: ltnP => jt; last by rewrite mulr0.
    by rewrite (leq_trans jt tt') mulr1.
  Qed.

  (* one call with the buffer at fill level t' >= t and width K >= t' *)
  Lemma lsq_step_gen t t' K (V : 'M[F]_K) z :
    (t <= t')%N -> (t' <= K)%N ->
    let Xs := buf t' K in
    Xs^T *m Xs *m V *m (Xs^T *m Xs) = Xs^T *m Xs -> V^T = V ->
    (exists b : 'M[F]_(t, p), y0 - z = buf t t *m b) ->
    lsq t' (z - Xs *m V *m Xs^T *m z).
  Proof.
    move=> tt' tK Xs H1 H2 [b Hb]; split.
    - have := ginv_normal H1 H2 z; rewrite -!mulmxA => N.
      by rewrite (buf_resize X sel t' tK) -/Xs trmx_mul -!mulmxA N mulmx0.
    - have E1 : buf t t = buf t' t' *m (Dsel F t t' *m Esel F t' t).
        by rewrite mulmxA -(buf_shrink_gen _ tt') -buf_resize.
      have E2 : Xs = buf t' t' *m Esel F t' K by rewrite -buf_resize.
      exists (Dsel F t t' *m Esel F t' t *m b + Esel F t' K *m (V *m Xs^T *m z)).
      have -> : y0 - (z - Xs *m V *m Xs^T *m z) = buf t t *m b + Xs *m (V *m Xs^T *m z).
        by rewrite opprB addrA [y0 + _]addrC -addrA Hb addrC !mulmxA.
      by rewrite {1}E1 {1}E2 mulmxDr !mulmxA.
  Qed.

  Definition event_ok (t0 : nat) (ev : nat * hintV F) : Prop :=
    let: (t, existT K V) := ev in
    [/\ (t0 <= t)%N, (t <= K)%N,
        eval_mx (yfeat_env_mx y0 (buf t K) V) (yf_h1 n K) = 0
      & eval_mx (yfeat_env_mx y0 (buf t K) V) (yf_h2 K) = 0].
  Fixpoint events_ok (t0 : nat) (evs : seq (nat * hintV F)) : Prop :=
    match evs with
    | [::] => True
    | ev :: evs' => event_ok t0 ev /\ events_ok ev.1 evs'
    end.

  Theorem y_events_fold evs : forall t z,
    (exists b : 'M[F]_(t, p), y0 - z = buf t t *m b) ->
    events_ok t evs ->
    let z' := yfeat_events_mx X sel evs z in
    if evs is [::] then z' = z else lsq (last t (map fst evs)) z'.
  Proof.
    elim: evs => [|[t' [K V]] evs IH] t z Hz; first by [].
    case=> [[tt' tK h1 h2] Hevs].
    move: h1 h2; rewrite yf_h1_formula yf_h2_formula.
    move/eqP; rewrite subr_eq0 => /eqP h1 /eqP; rewrite subr_eq0 => /eqP h2.
    have L := lsq_step_gen tt' tK h1 h2 Hz.
    have := IH t' _ (proj2 L) Hevs.
    rewrite /= yfeat_env_y yfeat_env_Xs yfeat_env_V.
    by case: evs {IH Hevs} => [|h hs] /=; [move=> _|apply].
  Qed.

  (* C07_y_feature_events *)
  Theorem y_feature_events (evs : seq (nat * hintV F)) :
    events_ok 0 evs -> evs != [::] ->
    let T := last 0%N (map fst evs) in
    let z := yfeat_events_mx X sel evs y0 in
    lsq T z /\
    forall V' : 'M[F]_T,
      (buf T T)^T *m buf T T *m V' *m ((buf T T)^T *m buf T T) = (buf T T)^T *m buf T T ->
      V'^T = V' -> z = y0 - buf T T *m V' *m (buf T T)^T *m y0.
  Proof.
    move=> Hevs Hne T z.
    have L : lsq T z.
      have H0 : exists b : 'M[F]_(0, p), y0 - y0 = buf 0 0 *m b by exists 0; rewrite subrr mulmx0.
      have := y_events_fold H0 Hevs; rewrite /z /T.
      by case: (evs) Hne => [|h hs'].
    split=> // V' H1 H2.
    have Q := lsq_formula y0 H1 H2.
    exact: (lsq_unique L Q).
  Qed.
End YEvents.
