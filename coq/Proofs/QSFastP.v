(* The evaluation-friendly Gabriel graph / Gabriel fit equal the model's (Model/QSFast.v). *)
From Verif Require Import ListX ListXP QuickShift QuickShiftP QSFast.
Close Scope Z_scope.
Open Scope nat_scope.

Lemma existsb_map_in {A B} (f : B -> bool) (g : A -> B) l :
  existsb f (map g l) = existsb (fun x => f (g x)) l.
Proof. induction l as [|a l IH]; [reflexivity|]. cbn. rewrite IH. reflexivity. Qed.

Lemma existsb2_nth {A B} (f : A -> B -> bool) (da : A) (db : B) : forall r1 r2 n,
  length r1 = n -> length r2 = n ->
  existsb (fun k => f (nth k r1 da) (nth k r2 db)) (seq 0 n) = existsb2 f r1 r2.
Proof.
  induction r1 as [|a r1 IH]; intros [|b r2] n H1 H2; cbn in H1, H2; subst n; try discriminate; [reflexivity|].
  cbn [seq existsb existsb2 nth]. f_equal.
  rewrite <- seq_shift, existsb_map_in. cbn [nth]. apply IH; [reflexivity|]. now injection H2.
Qed.

Lemma gab_cond_fast_eq n D i j : sq_mat n D -> i < n -> j < n ->
  gab_cond_fast D i j = gab_cond D n i j.
Proof.
  intros HD Hi Hj. unfold gab_cond_fast, gab_cond, dget. symmetry.
  apply (existsb2_nth (fun a b => ext_lt (ext_add a b) (nth j (nth i D []) None)) None None);
    apply (sq_mat_row n D); assumption.
Qed.

Lemma gab_inner_fast_eq n D i G : sq_mat n D -> i < n -> gab_inner_fast D n i G = gab_inner D n i G.
Proof.
  intros HD Hi. unfold gab_inner_fast, gab_inner. apply fold_left_ext_in.
  intros G' j Hj. apply in_seq in Hj. rewrite (gab_cond_fast_eq n D i j HD Hi) by lia. reflexivity.
Qed.

Theorem gabriel_fast_eq n D : sq_mat n D -> gabriel_fast D = gabriel D.
Proof.
  intros HD. unfold gabriel_fast, gabriel. rewrite (proj1 HD). apply fold_left_ext_in.
  intros G i Hi. apply in_seq in Hi. apply gab_inner_fast_eq; [exact HD|lia].
Qed.

Theorem fit_gab_fast_eq n D w shell : sq_mat n D -> fit_gab_fast D w shell = fit_gab D w shell.
Proof.
  intros HD. unfold fit_gab_fast. cbv zeta. rewrite (gabriel_fast_eq n D HD). reflexivity.
Qed.
