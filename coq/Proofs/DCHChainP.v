(* One hull dimension: the monotone chain of Model/DCH.v computes exactly the lower-hull
   vertices.  Points are (x, y) pairs over Z, input sorted by strictly increasing x.
   Stdlib style. *)
From Coq Require Import Sorting.Sorted.
From Verif Require Import ListX DCH.

Definition xgt (a b : pt) : Prop := fst b < fst a.

(* ---- orientation lemmas -------------------------------------------------------------- *)
Lemma cross_cyc a b c : cross a b c = cross b c a.
Proof. unfold cross. ring. Qed.
Lemma cross_swap a b c : cross a c b = - cross a b c.
Proof. unfold cross. ring. Qed.
Lemma cross_same_r a b : cross a b b = 0.
Proof. unfold cross. ring. Qed.
Lemma cross_same_l a b : cross a b a = 0.
Proof. unfold cross. ring. Qed.

Lemma LA a b c e : fst a < fst b -> fst b < fst c -> fst c < fst e ->
  0 < cross a b c -> 0 < cross b c e -> 0 < cross a b e.
Proof.
  destruct a as [ax ay], b as [bx by_], c as [cx cy], e as [ex ey]; unfold cross; cbn [fst snd].
  intros. nia.
Qed.

Lemma LA' e a l h : fst e < fst a -> fst a < fst l -> fst l < fst h ->
  0 < cross a l e -> 0 < cross a l h -> 0 < cross l h e.
Proof.
  destruct e as [ex ey], a as [ax ay], l as [lx ly], h as [hx hy]; unfold cross; cbn [fst snd].
  intros. nia.
Qed.

Lemma LB u v q h r : fst u < fst q -> fst q < fst v -> fst h < fst r ->
  0 <= cross u v q -> 0 <= cross h r u -> 0 <= cross h r v -> 0 <= cross h r q.
Proof.
  destruct u as [ux uy], v as [vx vy], q as [qx qy], h as [hx hy], r as [rx ry];
    unfold cross; cbn [fst snd]. intros.
  assert (E : (vx - ux) * ((rx - hx) * (qy - hy) - (ry - hy) * (qx - hx)) =
     (rx - hx) * ((vx - ux) * (qy - uy) - (vy - uy) * (qx - ux))
     + (vx - qx) * ((rx - hx) * (uy - hy) - (ry - hy) * (ux - hx))
     + (qx - ux) * ((rx - hx) * (vy - hy) - (ry - hy) * (vx - hx))) by ring.
  nia.
Qed.

Lemma L1 s2 s1 q p : fst s2 < fst q -> fst q < fst s1 -> fst s1 < fst p ->
  0 <= cross s2 s1 q -> cross s2 s1 p <= 0 -> 0 <= cross s2 p q.
Proof.
  destruct s2 as [ax ay], s1 as [bx by_], q as [qx qy], p as [px py]; unfold cross; cbn [fst snd].
  intros. nia.
Qed.

Lemma L2 s2 s1 q p : fst s2 < fst s1 -> fst s1 < fst q -> fst q < fst p ->
  0 <= cross s1 p q -> cross s2 s1 p <= 0 -> 0 <= cross s2 p q.
Proof.
  destruct s2 as [ax ay], s1 as [bx by_], q as [qx qy], p as [px py]; unfold cross; cbn [fst snd].
  intros. nia.
Qed.

Lemma L5 l h r a b : fst l < fst h -> fst h < fst r -> fst a < fst h -> fst h < fst b ->
  0 <= cross l h a -> 0 <= cross h r b -> 0 < cross l h r -> cross a b h < 0.
Proof.
  destruct l as [lx ly], h as [hx hy], r as [rx ry], a as [ax ay], b as [bx by_];
    unfold cross; cbn [fst snd]. intros Hl Hr Ha Hb C1 C2 C3.
  set (c1 := (hx - lx) * (ay - ly) - (hy - ly) * (ax - lx)) in *.
  set (c2 := (rx - hx) * (by_ - hy) - (ry - hy) * (bx - hx)) in *.
  set (c3 := (hx - lx) * (ry - ly) - (hy - ly) * (rx - lx)) in *.
  assert (E : (hx - lx) * (rx - hx) * ((bx - ax) * (hy - ay) - (by_ - ay) * (hx - ax)) =
     - ((hx - lx) * (hx - ax) * c2) - ((rx - hx) * (bx - hx) * c1) - (hx - ax) * (bx - hx) * c3)
    by (unfold c1, c2, c3; ring).
  assert (0 <= (hx - lx) * (hx - ax) * c2) by (apply Z.mul_nonneg_nonneg; [apply Z.mul_nonneg_nonneg|]; lia).
  assert (0 <= (rx - hx) * (bx - hx) * c1) by (apply Z.mul_nonneg_nonneg; [apply Z.mul_nonneg_nonneg|]; lia).
  assert (0 < (hx - ax) * (bx - hx) * c3) by (apply Z.mul_pos_pos; [apply Z.mul_pos_pos|]; lia).
  assert (0 < (hx - lx) * (rx - hx)) by (apply Z.mul_pos_pos; lia).
  nia.
Qed.

(* ---- sorted lists ---------------------------------------------------------------------- *)
Lemma SS_app_inv {A} (R : A -> A -> Prop) l1 l2 :
  StronglySorted R (l1 ++ l2) ->
  StronglySorted R l1 /\ StronglySorted R l2 /\ forall a b, In a l1 -> In b l2 -> R a b.
Proof.
  induction l1 as [|x l1 IH]; cbn; intros H.
  - split; [constructor|]. split; [assumption|]. intros a b [].
  - inversion H as [|? ? Hs Hf]; subst. destruct (IH Hs) as (S1 & S2 & Hab).
    rewrite Forall_app in Hf. destruct Hf as [F1 F2]. split; [now constructor|].
    split; [assumption|]. intros a b [<-|Ha] Hb; [|auto].
    rewrite Forall_forall in F2. auto.
Qed.

Lemma SS_app {A} (R : A -> A -> Prop) l1 l2 :
  StronglySorted R l1 -> StronglySorted R l2 -> (forall a b, In a l1 -> In b l2 -> R a b) ->
  StronglySorted R (l1 ++ l2).
Proof.
  induction l1 as [|x l1 IH]; cbn; intros S1 S2 Hab; [assumption|].
  inversion S1 as [|? ? Hs Hf]; subst. constructor.
  - apply IH; auto.
  - apply Forall_app. split; [assumption|]. apply Forall_forall. intros b Hb. apply Hab; auto.
Qed.

Lemma SS_rev {A} (R : A -> A -> Prop) l :
  StronglySorted R l -> StronglySorted (fun a b => R b a) (rev l).
Proof.
  induction l as [|x l IH]; cbn; intros H; [constructor|].
  inversion H as [|? ? Hs Hf]; subst. apply SS_app; [auto|repeat constructor|].
  intros a b Ha [<-|[]]. apply in_rev in Ha. rewrite Forall_forall in Hf. auto.
Qed.

(* ---- the stack invariant ------------------------------------------------------------------ *)
(* [st] lists the chain last point first (decreasing x) *)
Fixpoint rconvex (st : list pt) : Prop :=
  match st with
  | c :: ((b :: a :: _) as t) => 0 < cross a b c /\ rconvex t
  | _ => True
  end.

Definition covered_pair (s s' q : pt) : Prop :=
  fst s < fst q /\ fst q < fst s' /\ 0 <= cross s s' q.
Definition covered (st : list pt) (q : pt) : Prop :=
  exists pre s' s post, st = pre ++ s' :: s :: post /\ covered_pair s s' q.

Lemma rconvex_tail x t : rconvex (x :: t) -> rconvex t.
Proof. destruct t as [|b [|a t']]; cbn; tauto. Qed.

Lemma rconvex_app X Y : rconvex (X ++ Y) -> rconvex Y.
Proof. induction X as [|x X IH]; cbn [app]; intros H; [assumption|]. apply IH. eapply rconvex_tail; eassumption. Qed.

Lemma rconvex_at st X c b a Y : rconvex st -> st = X ++ c :: b :: a :: Y -> 0 < cross a b c.
Proof. intros H ->. apply rconvex_app in H. cbn in H. tauto. Qed.

Definition loop_inv (st : list pt) (p q : pt) : Prop :=
  In q st \/ covered st q \/ exists t rest, st = t :: rest /\ covered_pair t p q.

Lemma pop_spec p : forall st,
  StronglySorted xgt st -> rconvex st -> (forall s, In s st -> fst s < fst p) ->
  (exists pre, st = pre ++ pop st p) /\ rconvex (p :: pop st p) /\
  (forall q, loop_inv st p q -> loop_inv (pop st p) p q).
Proof.
  induction st as [|s1 t IH]; intros Hs Hc Hp.
  { cbn. split; [exists []; reflexivity|]. split; [exact I|]. auto. }
  destruct t as [|s2 rest].
  - cbn. split; [exists []; reflexivity|]. split; [exact I|]. auto.
  - cbn [pop]. destruct (cross s2 s1 p <=? 0) eqn:E.
    + apply Z.leb_le in E.
      assert (Hs' : StronglySorted xgt (s2 :: rest)) by (inversion Hs; assumption).
      assert (H21 : fst s2 < fst s1).
      { inversion Hs as [|? ? _ Hf]; subst. rewrite Forall_forall in Hf. apply Hf. now left. }
      assert (H1p : fst s1 < fst p) by (apply Hp; now left).
      destruct (IH Hs' (rconvex_tail _ _ Hc)) as ((pre & Epre) & Hcv & Hinv).
      { intros s Hin. apply Hp. now right. }
      split; [exists (s1 :: pre); cbn [app]; f_equal; exact Epre|]. split; [exact Hcv|].
      intros q Hq. apply Hinv. clear Hinv IH.
      destruct Hq as [[<-|Hq]|[Hq|Hq]].
      * right. right. exists s2, rest. split; [reflexivity|]. unfold covered_pair.
        rewrite cross_swap. lia.
      * now left.
      * destruct Hq as (pr & s' & s & post & Est & Hcp).
        destruct pr as [|x pr]; cbn in Est.
        -- injection Est as <- <- <-. right. right. exists s2, rest. split; [reflexivity|].
           destruct Hcp as (A1 & A2 & A3). unfold covered_pair. repeat split; try lia.
           apply (L1 s2 s1 q p); lia.
        -- injection Est as <- Est. right. left. exists pr, s', s, post. now split.
      * destruct Hq as (t & rs & Et & (A1 & A2 & A3)). injection Et as <- <-.
        right. right. exists s2, rest. split; [reflexivity|]. unfold covered_pair.
        repeat split; try lia. apply (L2 s2 s1 q p); lia.
    + apply Z.leb_gt in E. split; [exists []; reflexivity|]. split; [|auto].
      cbn. split; [lia|]. exact Hc.
Qed.

Definition inv (st done : list pt) : Prop :=
  StronglySorted xgt st /\ rconvex st /\ (forall s, In s st -> In s done) /\
  (forall q, In q done -> In q st \/ covered st q).

Lemma push_inv st done p :
  inv st done -> (forall s, In s done -> fst s < fst p) -> inv (push st p) (done ++ [p]).
Proof.
  intros (Hs & Hc & Hsub & Hcov) Hp. unfold push.
  destruct (pop_spec p st Hs Hc) as ((pre & Epre) & Hcv & Hinv); [auto|].
  set (st' := pop st p) in *.
  assert (Hin' : forall s, In s st' -> In s st).
  { intros s H. rewrite Epre. apply in_or_app. now right. }
  split; [|split; [exact Hcv|split]].
  - constructor.
    + rewrite Epre in Hs. apply SS_app_inv in Hs. tauto.
    + apply Forall_forall. intros s H. unfold xgt. auto.
  - intros s [<-|H]; apply in_or_app; [right; now left|left; auto].
  - intros q Hq. apply in_app_or in Hq as [Hq|[<-|[]]]; [|left; now left].
    assert (L : loop_inv st p q) by (destruct (Hcov q Hq); [now left|right; now left]).
    destruct (Hinv q L) as [H|[H|H]].
    + left. now right.
    + right. destruct H as (pr & s' & s & post & E & Hcp).
      exists (p :: pr), s', s, post. split; [cbn; now rewrite E|assumption].
    + right. destruct H as (t & rs & E & Hcp). exists [], p, t, rs. split; [cbn; now rewrite E|assumption].
Qed.

Lemma fold_inv : forall rest done st,
  inv st done -> StronglySorted xlt (done ++ rest) ->
  inv (fold_left push rest st) (done ++ rest).
Proof.
  induction rest as [|p rest IH]; intros done st Hi Hs; cbn.
  - now rewrite app_nil_r.
  - replace (done ++ p :: rest) with ((done ++ [p]) ++ rest) in * by (rewrite <- app_assoc; reflexivity).
    apply IH; [|assumption]. apply push_inv; [assumption|].
    intros s Hin. apply SS_app_inv in Hs as (S1 & _ & _). apply SS_app_inv in S1 as (_ & _ & H).
    apply (H s p Hin). now left.
Qed.

Lemma inv_nil : inv [] [].
Proof. split; [constructor|]. split; [exact I|]. split; intros ? []. Qed.

(* ---- global consequences of the invariant ------------------------------------------------- *)
Section Global.
  Variable st : list pt.
  Hypothesis Hs : StronglySorted xgt st.
  Hypothesis Hc : rconvex st.

  Lemma split_right A h B z :
    st = A ++ h :: B -> In z st -> fst h <= fst z -> In z A \/ z = h.
  Proof.
    intros E Hz Hle. rewrite E in Hz, Hs. apply in_app_or in Hz as [Hz|[<-|Hz]]; auto.
    apply SS_app_inv in Hs as (_ & S2 & _). inversion S2 as [|? ? _ Hf]; subst.
    rewrite Forall_forall in Hf. specialize (Hf z Hz). unfold xgt in Hf. lia.
  Qed.

  Lemma split_left A h B z :
    st = A ++ h :: B -> In z st -> fst z <= fst h -> In z B \/ z = h.
  Proof.
    intros E Hz Hle. rewrite E in Hz, Hs. apply in_app_or in Hz as [Hz|[<-|Hz]]; auto.
    apply SS_app_inv in Hs as (_ & _ & H). specialize (H z h Hz (or_introl eq_refl)).
    unfold xgt in H. lia.
  Qed.

  (* every chain point right of h lies on or above the line through h and its successor r *)
  Lemma right_above : forall R r h Y,
    st = R ++ r :: h :: Y -> Forall (fun z => 0 < cross h r z) R.
  Proof.
    induction R as [|z0 R' IH] using rev_ind; intros r h Y E; [constructor|].
    apply Forall_app. split.
    - assert (E' : st = R' ++ z0 :: r :: h :: Y) by (rewrite E, <- app_assoc; reflexivity).
      pose proof (IH z0 r (h :: Y) E') as F. apply Forall_forall. intros z Hz.
      rewrite Forall_forall in F. specialize (F z Hz).
      pose proof (rconvex_at st R' z0 r h Y Hc E') as C0.
      rewrite E' in Hs. apply SS_app_inv in Hs as (_ & S2 & Hab).
      assert (fst z0 < fst z) by (apply (Hab z z0 Hz); now left).
      inversion S2 as [|? ? S3 F3]; subst. rewrite Forall_forall in F3.
      assert (fst r < fst z0) by (apply F3; now left).
      inversion S3 as [|? ? _ F4]; subst. rewrite Forall_forall in F4.
      assert (fst h < fst r) by (apply F4; now left).
      apply (LA h r z0 z); assumption.
    - constructor; [|constructor].
      apply (rconvex_at st R' z0 r h Y Hc). rewrite E, <- app_assoc. reflexivity.
  Qed.

  (* every chain point left of h lies on or above the line through its predecessor l and h *)
  Lemma left_above : forall L X h l,
    st = X ++ h :: l :: L -> Forall (fun z => 0 < cross l h z) L.
  Proof.
    induction L as [|e L' IH]; intros X h l E; [constructor|].
    pose proof (rconvex_at st X h l e L' Hc E) as C0.
    constructor; [now rewrite <- cross_cyc|].
    assert (E' : st = (X ++ [h]) ++ l :: e :: L') by (rewrite E, <- app_assoc; reflexivity).
    pose proof (IH (X ++ [h]) l e E') as F. apply Forall_forall. intros z Hz.
    rewrite Forall_forall in F. specialize (F z Hz).
    rewrite E in Hs. apply SS_app_inv in Hs as (_ & S2 & _).
    inversion S2 as [|? ? S3 F3]; subst. rewrite Forall_forall in F3.
    assert (fst l < fst h) by (apply F3; now left).
    inversion S3 as [|? ? S4 F4]; subst. rewrite Forall_forall in F4.
    assert (fst e < fst l) by (apply F4; now left).
    inversion S4 as [|? ? _ F5]; subst. rewrite Forall_forall in F5.
    assert (fst z < fst e) by (apply F5; assumption).
    apply (LA' z e l h); assumption.
  Qed.

  Lemma chain_right_ge R r h Y z :
    st = R ++ r :: h :: Y -> In z st -> fst h <= fst z -> 0 <= cross h r z.
  Proof.
    intros E Hz Hle.
    assert (E' : st = (R ++ [r]) ++ h :: Y) by (rewrite E, <- app_assoc; reflexivity).
    destruct (split_right _ _ _ z E' Hz Hle) as [H| ->]; [|rewrite cross_same_l; lia].
    apply in_app_or in H as [H|[<-|[]]]; [|rewrite cross_same_r; lia].
    pose proof (right_above R r h Y E) as F. rewrite Forall_forall in F. specialize (F z H). lia.
  Qed.

  Lemma chain_left_ge X h l L z :
    st = X ++ h :: l :: L -> In z st -> fst z <= fst h -> 0 <= cross l h z.
  Proof.
    intros E Hz Hle.
    destruct (split_left _ _ _ z E Hz Hle) as [H| ->]; [|rewrite cross_same_r; lia].
    destruct H as [<-|H]; [rewrite cross_same_l; lia|].
    pose proof (left_above L X h l E) as F. rewrite Forall_forall in F. specialize (F z H). lia.
  Qed.

  (* a gap between adjacent chain points contains no chain point *)
  Lemma sorted_gap pre s' s post z :
    st = pre ++ s' :: s :: post -> In z st -> fst s' <= fst z \/ fst z <= fst s.
  Proof.
    intros E Hz. rewrite E in Hz, Hs. apply in_app_or in Hz as [Hz|[<-|[<-|Hz]]]; try lia.
    - left. apply SS_app_inv in Hs as (_ & _ & H). specialize (H z s' Hz (or_introl eq_refl)).
      unfold xgt in H. lia.
    - right. apply SS_app_inv in Hs as (_ & S2 & _). inversion S2 as [|? ? S3 _]; subst.
      inversion S3 as [|? ? _ F]; subst. rewrite Forall_forall in F. specialize (F z Hz).
      unfold xgt in F. lia.
  Qed.

  Variable pts : list pt.
  Hypothesis Hcov : forall q, In q pts -> In q st \/ covered st q.

  (* every input point right of the chain vertex h is on or above the line h -> r *)
  Lemma all_right_ge R r h Y p :
    st = R ++ r :: h :: Y -> In p pts -> fst h < fst p -> 0 <= cross h r p.
  Proof.
    intros E Hp Hlt. destruct (Hcov p Hp) as [H|H].
    - apply (chain_right_ge R r h Y p E H). lia.
    - destruct H as (pre & s' & s & post & E2 & (A1 & A2 & A3)).
      assert (Hh : In h st) by (rewrite E; apply in_or_app; right; right; now left).
      assert (Hs' : In s' st) by (rewrite E2; apply in_or_app; right; now left).
      assert (Hss : In s st) by (rewrite E2; apply in_or_app; right; right; now left).
      destruct (sorted_gap pre s' s post h E2 Hh) as [G|G]; [lia|].
      assert (fst h < fst r).
      { rewrite E in Hs. apply SS_app_inv in Hs as (_ & S2 & _). inversion S2 as [|? ? _ F]; subst.
        rewrite Forall_forall in F. apply F. now left. }
      apply (LB s s' p h r); try assumption.
      + apply (chain_right_ge R r h Y s E Hss G).
      + apply (chain_right_ge R r h Y s' E Hs'). lia.
  Qed.

  Lemma all_left_ge X h l L p :
    st = X ++ h :: l :: L -> In p pts -> fst p < fst h -> 0 <= cross l h p.
  Proof.
    intros E Hp Hlt. destruct (Hcov p Hp) as [H|H].
    - apply (chain_left_ge X h l L p E H). lia.
    - destruct H as (pre & s' & s & post & E2 & (A1 & A2 & A3)).
      assert (Hh : In h st) by (rewrite E; apply in_or_app; right; now left).
      assert (Hs' : In s' st) by (rewrite E2; apply in_or_app; right; now left).
      assert (Hss : In s st) by (rewrite E2; apply in_or_app; right; right; now left).
      destruct (sorted_gap pre s' s post h E2 Hh) as [G|G]; [|lia].
      assert (fst l < fst h).
      { rewrite E in Hs. apply SS_app_inv in Hs as (_ & S2 & _). inversion S2 as [|? ? _ F]; subst.
        rewrite Forall_forall in F. apply F. now left. }
      apply (LB s s' p l h); try assumption.
      + apply (chain_left_ge X h l L s E Hss). lia.
      + apply (chain_left_ge X h l L s' E Hs' G).
  Qed.

  (* a chain vertex lies strictly below every segment between two input points that straddle it *)
  Lemma chain_vertex_lower h a b :
    In h st -> In a pts -> In b pts -> fst a < fst h -> fst h < fst b -> cross a b h < 0.
  Proof.
    intros Hh Ha Hb Hah Hhb.
    (* some chain point is right of h and some is left of h *)
    assert (Hzb : exists z, In z st /\ fst h < fst z).
    { destruct (Hcov b Hb) as [H|(pre & s' & s & post & E2 & (A1 & A2 & A3))]; [eauto|].
      exists s'. split; [rewrite E2; apply in_or_app; right; now left|lia]. }
    assert (Hza : exists z, In z st /\ fst z < fst h).
    { destruct (Hcov a Ha) as [H|(pre & s' & s & post & E2 & (A1 & A2 & A3))]; [eauto|].
      exists s. split; [rewrite E2; apply in_or_app; right; right; now left|lia]. }
    destruct (in_split h st Hh) as (R0 & L0 & E).
    destruct Hzb as (zb & Hzb & Hb'). destruct Hza as (za & Hza & Ha').
    assert (HR : R0 <> []).
    { intros ->. cbn in E. destruct (split_right [] h L0 zb E Hzb) as [[]| ->]; lia. }
    assert (HL : L0 <> []).
    { intros ->. destruct (split_left R0 h [] za E Hza) as [[]| ->]; lia. }
    destruct (exists_last HR) as (R & r & ->). destruct L0 as [|l L]; [congruence|].
    assert (E1 : st = R ++ r :: h :: l :: L) by (rewrite E, <- app_assoc; reflexivity).
    assert (E2 : st = (R ++ [r]) ++ h :: l :: L) by exact E.
    pose proof (all_right_ge R r h (l :: L) b E1 Hb Hhb) as C2.
    pose proof (all_left_ge (R ++ [r]) h l L a E2 Ha Hah) as C1.
    pose proof (rconvex_at st R r h l L Hc E1) as C3.
    rewrite E1 in Hs. apply SS_app_inv in Hs as (_ & S2 & _).
    inversion S2 as [|? ? S3 F3]; subst. rewrite Forall_forall in F3.
    assert (fst h < fst r) by (apply F3; now left).
    inversion S3 as [|? ? _ F4]; subst. rewrite Forall_forall in F4.
    assert (fst l < fst h) by (apply F4; now left).
    apply (L5 l h r a b); assumption.
  Qed.
End Global.

(* ---- the theorem ------------------------------------------------------------------------------ *)
Lemma not_lower_1d_b_spec pts q : not_lower_1d_b pts q = true <-> not_lower_1d pts q.
Proof.
  unfold not_lower_1d_b, not_lower_1d. rewrite existsb_exists. split.
  - intros (a & Ha & H). apply existsb_exists in H as (b & Hb & H).
    apply andb_true_iff in H as [H H3]. apply andb_true_iff in H as [H1 H2].
    apply Z.ltb_lt in H1, H2. apply Z.leb_le in H3. exists a, b. tauto.
  - intros (a & b & Ha & Hb & H1 & H2 & H3). exists a. split; [assumption|].
    apply existsb_exists. exists b. split; [assumption|].
    rewrite !andb_true_iff, !Z.ltb_lt, Z.leb_le. tauto.
Qed.

Theorem chain_spec pts :
  StronglySorted xlt pts ->
  StronglySorted xlt (chain pts) /\
  (forall q, In q (chain pts) -> In q pts) /\
  (forall q, In q pts -> ~ In q (chain pts) -> not_lower_1d pts q) /\
  (forall h, In h (chain pts) -> ~ not_lower_1d pts h).
Proof.
  intros Hs. unfold chain.
  destruct (fold_inv pts [] [] inv_nil Hs) as (S & C & Hsub & Hcov). cbn [app] in *.
  set (st := fold_left push pts []) in *.
  split; [|split; [|split]].
  - apply SS_rev in S. exact S.
  - intros q Hq. apply in_rev in Hq. auto.
  - intros q Hq Hn. destruct (Hcov q Hq) as [H|H]; [exfalso; apply Hn; now apply in_rev in H|].
    destruct H as (pre & s' & s & post & E & (A1 & A2 & A3)).
    exists s, s'. repeat split; try assumption; apply Hsub; rewrite E; apply in_or_app; right;
      [right; now left|now left].
  - intros h Hh (a & b & Ha & Hb & H1 & H2 & H3). apply in_rev in Hh.
    pose proof (chain_vertex_lower st S C pts Hcov h a b Hh Ha Hb H1 H2). lia.
Qed.

(* two strictly x-sorted lists with the same elements are equal *)
Lemma sorted_ext : forall l1 l2 : list pt,
  StronglySorted xlt l1 -> StronglySorted xlt l2 -> (forall q, In q l1 <-> In q l2) -> l1 = l2.
Proof.
  induction l1 as [|a1 t1 IH]; intros [|a2 t2] S1 S2 H.
  - reflexivity.
  - exfalso. apply (H a2). now left.
  - exfalso. apply (H a1). now left.
  - inversion S1 as [|? ? S1' F1]; inversion S2 as [|? ? S2' F2]; subst.
    rewrite Forall_forall in F1, F2.
    assert (a1 = a2).
    { destruct (proj1 (H a1) (or_introl eq_refl)) as [E|H1]; [congruence|].
      destruct (proj2 (H a2) (or_introl eq_refl)) as [E|H2]; [congruence|].
      specialize (F1 _ H2). specialize (F2 _ H1). unfold xlt in *. lia. }
    subst a2. f_equal. apply IH; try assumption. intros q. split; intros Hq.
    + destruct (proj1 (H q) (or_intror Hq)) as [<-|]; [|assumption].
      specialize (F1 _ Hq). unfold xlt in F1. lia.
    + destruct (proj2 (H q) (or_intror Hq)) as [<-|]; [|assumption].
      specialize (F2 _ Hq). unfold xlt in F2. lia.
Qed.

Lemma SS_filter {A} (R : A -> A -> Prop) f l : StronglySorted R l -> StronglySorted R (filter f l).
Proof.
  induction l as [|x l IH]; cbn; intros H; [constructor|]. inversion H as [|? ? Hs Hf]; subst.
  destruct (f x); [|auto]. constructor; [auto|]. apply Forall_forall. intros y Hy.
  apply filter_In in Hy as [Hy _]. rewrite Forall_forall in Hf. auto.
Qed.

Lemma sorted_x_spec pts : sorted_x pts = true -> StronglySorted xlt pts.
Proof.
  (* adjacent comparisons suffice since < on Z is transitive *)
  induction pts as [|a t IH]; intros H; [constructor|].
  destruct t as [|b t']; [repeat constructor|].
  cbn [sorted_x] in H. apply andb_true_iff in H as [H1 H2]. apply Z.ltb_lt in H1.
  specialize (IH H2). constructor; [assumption|].
  inversion IH as [|? ? _ F]; subst. constructor; [exact H1|].
  eapply Forall_impl; [|exact F]. intros c Hc. unfold xlt in *. lia.
Qed.

(* the chain is exactly the brute-force set of lower vertices, in the same order *)
Theorem chain_is_lower_hull pts :
  sorted_x pts = true -> chain pts = filter (lower_1d_b pts) pts.
Proof.
  intros Hsx. pose proof (sorted_x_spec pts Hsx) as Hs.
  destruct (chain_spec pts Hs) as (S & Hsub & Hnot & Hlow).
  apply sorted_ext; [assumption|now apply SS_filter|].
  intros q. rewrite filter_In. unfold lower_1d_b. rewrite negb_true_iff. split.
  - intros Hq. split; [auto|]. destruct (not_lower_1d_b pts q) eqn:E; [|reflexivity].
    exfalso. apply (Hlow q Hq). now apply not_lower_1d_b_spec.
  - intros [Hq E].
    destruct (In_dec (fun a b : pt => ltac:(decide equality; apply Z.eq_dec)) q (chain pts)) as [|Hn];
      [assumption|].
    exfalso. specialize (Hnot q Hq Hn). apply not_lower_1d_b_spec in Hnot. congruence.
Qed.
