(* List bookkeeping of Model/Recon.v (stdlib style): row selection X[idx], the zero-padding
   matrix, the neighbour-selection matrix. *)
From Coq Require Import List Arith Bool Lia.
From Verif Require Import Recon.
Import ListNotations.

Lemma nth_map_seq : forall B (f : nat -> B) d n i, i < n -> nth i (map f (seq 0 n)) d = f i.
Proof.
  intros B f d n i Hi. rewrite (nth_indep _ d (f 0)) by (rewrite map_length, seq_length; exact Hi).
  rewrite (map_nth f). now rewrite seq_nth.
Qed.

Lemma nth_map_list : forall A B (f : A -> B) d d' l i, i < length l -> nth i (map f l) d = f (nth i l d').
Proof.
  intros A B f d d' l i Hi. rewrite (nth_indep _ d (f d')) by (rewrite map_length; exact Hi).
  apply map_nth.
Qed.

(* X[idx]: one row per index, in the order of idx (duplicates and overlaps allowed) *)
Theorem select_rows_spec : forall A (idx : list nat) (X : list (list A)),
  length (select_rows idx X) = length idx /\
  forall t, t < length idx -> nth t (select_rows idx X) [] = nth (nth t idx 0) X [].
Proof.
  intros A idx X. unfold select_rows. split; [apply map_length|].
  intros t Ht. now rewrite (nth_map_list _ _ _ _ 0).
Qed.

(* the padding matrix: E[i][j] = (i == j), p rows, r columns *)
Theorem embed_rows_spec : forall p r i j, i < p -> j < r ->
  nth j (nth i (embed_rows p r) []) false = Nat.eqb i j.
Proof.
  intros p r i j Hi Hj. unfold embed_rows. rewrite nth_map_seq by exact Hi.
  now rewrite nth_map_seq by exact Hj.
Qed.

(* the selection matrix of a neighbour list: Sel[t][j] = (idx[t] == j) *)
Theorem sel_rows_spec : forall n idx t j, t < length idx -> j < n ->
  nth j (nth t (sel_rows n idx) []) false = Nat.eqb (nth t idx 0) j.
Proof.
  intros n idx t j Ht Hj. unfold sel_rows. rewrite (nth_map_list _ _ _ _ 0) by exact Ht.
  now rewrite nth_map_seq by exact Hj.
Qed.
