(* C14, nestedness: with the full solver the oracle answer for k components is the
   truncation (U[:, :k], S[:k], Vt[:k]) of the answer for k+1, and then every projector for
   k is the corresponding truncation of the projector for k+1; consequently the training
   losses cannot increase with k.  (ssreflect / mathcomp style) *)
From mathcomp Require Import all_ssreflect all_algebra.
From Verif Require Import MExp MExpMx PCovR PCovRP PCovRProg KyFan C14Thm C04Thm.
Set Implicit Arguments.
Unset Strict Implicit.
Unset Printing Implicit Defensive.
Import Order.TTheory GRing.Theory Num.Theory.
Local Open Scope ring_scope.

Section Blocks.
  Variable F : rcfType.
  Variables (k : nat) (S' : 'cV[F]_(k + 1)).
  Let S : 'cV[F]_k := usubmx S'.

  Lemma dmap_block f :
    dmap f S' = block_mx (dmap f S) 0 0 (dmap f (dsubmx S')).
  Proof.
    by rewrite /dmap -{1}(vsubmxK S') map_col_mx tr_col_mx diag_mx_row.
  Qed.

  Lemma lsub_mul_dmap r (A : 'M[F]_(r, k + 1)) f :
    lsubmx (A *m dmap f S') = lsubmx A *m dmap f S.
  Proof.
    by rewrite -{1}(hsubmxK A) dmap_block mul_row_block !mulmx0 addr0 add0r row_mxKl.
  Qed.

  Lemma usub_dmap_mul r (A : 'M[F]_(k + 1, r)) f :
    usubmx (dmap f S' *m A) = dmap f S *m usubmx A.
  Proof.
    by rewrite -{1}(vsubmxK A) dmap_block mul_block_col !mul0mx addr0 add0r col_mxKu.
  Qed.
End Blocks.

Section Nested.
  Variable F : rcfType.
  Variables (n m p k : nat) (env : env_mx F).

  (* _decompose_full: the k-component answer is the truncation of the (k+1)-component one *)
  Definition nested_oracle : Prop :=
    [/\ e_Vs n k env = lsubmx (e_Vs n (k + 1) env),
        e_Vf m k env = lsubmx (e_Vf m (k + 1) env)
      & e_S k env = usubmx (e_S (k + 1) env)].

  Hypothesis hn : nested_oracle.

  Theorem nested_pxt sp :
    eval_mx env (pxt_prog n m p k sp) = lsubmx (eval_mx env (pxt_prog n m p (k + 1) sp)).
  Proof.
    case: hn => hvs hvf hs; rewrite !pxt_formula; case: sp; rewrite /pxt_of.
    - by rewrite /s_pxt /s_T hvs hs -mulmx_lsub lsub_mul_dmap.
    - by rewrite /f_pxt hvf hs lsub_mul_dmap -mulmx_lsub.
  Qed.

  Theorem nested_ptx sp :
    eval_mx env (ptx_prog n m k sp) = usubmx (eval_mx env (ptx_prog n m (k + 1) sp)).
  Proof.
    case: hn => hvs hvf hs; rewrite !ptx_formula; case: sp; rewrite /ptx_of.
    - rewrite /s_ptx /s_T hvs hs !trmx_mul !dmap_tr -mul_usub_mx usub_dmap_mul.
      by rewrite trmx_lsub.
    - by rewrite /f_ptx hvf hs -mul_usub_mx usub_dmap_mul trmx_lsub.
  Qed.

  Theorem nested_pty sp :
    eval_mx env (pty_prog n m p k sp) = usubmx (eval_mx env (pty_prog n m p (k + 1) sp)).
  Proof.
    case: hn => hvs hvf hs; rewrite !pty_formula; case: sp; rewrite /pty_of.
    - rewrite /s_pty /s_T hvs hs !trmx_mul !dmap_tr -mul_usub_mx usub_dmap_mul.
      by rewrite trmx_lsub.
    - by rewrite /f_pty hvf hs -3!mul_usub_mx usub_dmap_mul trmx_lsub.
  Qed.
End Nested.

Theorem nested_all (F : rcfType) (n m p k : nat) (env : env_mx F) (sp : bool) :
  nested_oracle n m k env ->
  [/\ eval_mx env (pxt_prog n m p k sp) = lsubmx (eval_mx env (pxt_prog n m p (k + 1) sp)),
      eval_mx env (ptx_prog n m k sp) = usubmx (eval_mx env (ptx_prog n m (k + 1) sp))
    & eval_mx env (pty_prog n m p k sp) = usubmx (eval_mx env (pty_prog n m p (k + 1) sp))].
Proof.
  by move=> hn; split; [exact: nested_pxt | exact: nested_ptx | exact: nested_pty].
Qed.

(* ---- one more orthonormal direction never increases a projection loss ------------------- *)
Section MoreComponents.
  Variable F : rcfType.
  Variables (n k : nat) (Q' : 'M[F]_(n, k + 1)).
  Hypothesis hQ' : Q'^T *m Q' = 1%:M.
  Let Q : 'M[F]_(n, k) := lsubmx Q'.
  Let v : 'M[F]_(n, 1) := rsubmx Q'.

  Lemma gram_blocks :
    Q'^T *m Q' = block_mx (Q^T *m Q) (Q^T *m v) (v^T *m Q) (v^T *m v).
  Proof. by rewrite -{1 2}(hsubmxK Q') tr_row_mx mul_col_row. Qed.

  Lemma lsub_orth : Q^T *m Q = 1%:M.
  Proof.
    have := gram_blocks; rewrite hQ' scalar_mx_block => /eq_block_mx [h _ _ _].
    by rewrite -h.
  Qed.

  Lemma proj_loss_more c (A : 'M[F]_(n, c)) : proj_loss Q' A <= proj_loss Q A.
  Proof.
    rewrite (resid_trace _ hQ') (resid_trace _ lsub_orth) ler_sub // .
    set M := A *m A^T.
    have -> : Q'^T *m M *m Q'
              = block_mx (Q^T *m M *m Q) (Q^T *m M *m v) (v^T *m M *m Q) (v^T *m M *m v).
      by rewrite -{1 2}(hsubmxK Q') tr_row_mx -mulmxA mul_mx_row mul_col_row !mulmxA.
    rewrite mxtrace_block ler_addl /M !mulmxA -(mulmxA _ A^T v).
    have -> : v^T *m A = (A^T *m v)^T by rewrite trmx_mul trmxK.
    exact: mxtrace_gram_ge0.
  Qed.
End MoreComponents.

Section LossesInK.
  Variable F : rcfType.
  Variables (n m p k : nat) (env : env_mx F).
  Hypothesis hc : centred n m env.
  Hypothesis hn : nested_oracle n m k env.
  Hypothesis ho : fit_oracle n m p (k + 1) env true.
  Hypothesis hret : forall i, e_tol env < e_S (k + 1) env i 0.

  Lemma fit_oracle_trunc : fit_oracle n m p k env true.
  Proof.
    case: ho => t0 hw [v1 v2]; case: hn => hvs _ hs; split=> //; split.
    - by rewrite hvs; exact: lsub_orth v1.
    - rewrite hvs mulmx_lsub v2 hs !dmap_id.
      by rewrite lsub_mul_dmap.
  Qed.

  Lemma retained_trunc : forall i, e_tol env < e_S k env i 0.
  Proof.
    case: hn => _ _ hs i; rewrite hs.
    have := hret (lshift 1 i).
    by rewrite -{1}(vsubmxK (e_S (k + 1) env)) col_mxEu.
  Qed.

  (* training losses: |X - inverse_transform(T)|^2 and |Y - predict(T = T)|^2, T = transform(X) *)
  Definition train_loss_x (j : nat) : F :=
    fro2 (e_X n m env
          - eval_mx env (inverse_prog n m j true (transform_prog n m p j true (eX n m)))).
  Definition train_loss_y (j : nat) : F :=
    fro2 (e_Y n p env
          - eval_mx env (predict_t_prog n m p j true (transform_prog n m p j true (eX n m)))).

  Theorem losses_monotone_in_k :
    train_loss_x (k + 1) <= train_loss_x k /\ train_loss_y (k + 1) <= train_loss_y k.
  Proof.
    have [x1 y1] := own_subspace hc ho hret.
    have [x0 y0] := own_subspace hc fit_oracle_trunc retained_trunc.
    rewrite /train_loss_x /train_loss_y x1 y1 x0 y0.
    have -> : e_Vs n k env = lsubmx (e_Vs n (k + 1) env) by case: hn.
    have v1 : (e_Vs n (k + 1) env)^T *m e_Vs n (k + 1) env = 1%:M by case: ho => _ _ [].
    split; exact: (proj_loss_more v1).
  Qed.
End LossesInK.
