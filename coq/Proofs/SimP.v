(* Two scorers that expose equal scores in related states drive the greedy loop to the
   same selections (used for Voronoi FPS vs plain FPS, and for history independence). *)
From Verif Require Import ListX Greedy ListXP GreedyP.

Section Sim.
  Variables S1 S2 : Type.
  Variable score1 : S1 -> list Z.
  Variable score2 : S2 -> list Z.
  Variable upd1 : S1 -> nat -> S1.
  Variable upd2 : S2 -> nat -> S2.
  Variable cand : list (list Z).
  Variable ycand : option (list (list Z)).
  Let n := length cand.
  Variable R : S1 -> S2 -> list nat -> Prop.
  Hypothesis R_score : forall s1 s2 sl, R s1 s2 sl -> score1 s1 = score2 s2.
  Hypothesis R_len : forall s1 s2 sl, R s1 s2 sl -> length (score1 s1) = n.
  Hypothesis R_upd : forall s1 s2 sl i,
      R s1 s2 sl -> (i < n)%nat -> R (upd1 s1 i) (upd2 s2 i) (sl ++ [i]).

  Definition gsim (g1 : gst S1) (g2 : gst S2) : Prop :=
    sel g1 = sel g2 /\ xsel g1 = xsel g2 /\ ysel g1 = ysel g2 /\ first g1 = first g2 /\
    R (sst g1) (sst g2) (sel g1).

  Lemma post_sim g1 g2 i :
    gsim g1 g2 -> (i < n)%nat ->
    gsim (post S1 upd1 cand ycand g1 i) (post S2 upd2 cand ycand g2 i).
  Proof.
    intros (A & B & Cc & D & E) Hi. unfold gsim, post; cbn.
    rewrite A, B, Cc, D. repeat split; auto. rewrite <- A. now apply R_upd.
  Qed.

  Lemma best_new_sim t g1 g2 :
    gsim g1 g2 ->
    fst (best_new S1 score1 t g1) = fst (best_new S2 score2 t g2) /\
    gsim (snd (best_new S1 score1 t g1)) (snd (best_new S2 score2 t g2)) /\
    (forall i, fst (best_new S1 score1 t g1) = Some i -> (i < n)%nat).
  Proof.
    intros (A & B & Cc & D & E). unfold best_new.
    rewrite <- (R_score _ _ _ E), <- A, <- D.
    destruct (amax (mask (sel g1) (score1 (sst g1)))) as [[i v]|] eqn:Ea.
    - apply amax_mask_spec in Ea as (Hi & _). rewrite (R_len _ _ _ E) in Hi.
      destruct (has_thr t).
      + destruct (below t _ v); cbn; (split; [reflexivity|]); (split; [|try discriminate]).
        * unfold gsim; cbn. auto.
        * unfold gsim; cbn. auto.
        * intros i0 H; injection H as <-; exact Hi.
      + cbn. split; [reflexivity|]. split; [unfold gsim; auto|].
        intros i0 H; injection H as <-; exact Hi.
    - cbn. split; [reflexivity|]. split; [unfold gsim; auto|discriminate].
  Qed.

  Theorem run_sim t k g1 g2 :
    gsim g1 g2 ->
    gsim (fst (run S1 score1 upd1 cand ycand t k g1)) (fst (run S2 score2 upd2 cand ycand t k g2)) /\
    snd (run S1 score1 upd1 cand ycand t k g1) = snd (run S2 score2 upd2 cand ycand t k g2).
  Proof.
    revert g1 g2; induction k as [|k IH]; intros g1 g2 H; cbn; [auto|].
    destruct (best_new_sim t g1 g2 H) as (A & B & Cc).
    destruct (best_new S1 score1 t g1) as [o1 g1'].
    destruct (best_new S2 score2 t g2) as [o2 g2']. cbn in A, B, Cc. subst o2.
    destruct o1 as [i|]; [|cbn; auto].
    apply IH. apply post_sim; [exact B|]. now apply Cc.
  Qed.
End Sim.
