(* Index bookkeeping of check_global/local_reconstruction_measures_input (stdlib style):
   Model/ReconExt.v [complement], [resolve_idx], [eff_k], the guards. *)
From Coq Require Import List Arith Bool Lia Sorted.
From Verif Require Import Recon ReconExt.
Import ListNotations.

Lemma memb_In : forall i l, memb i l = true <-> In i l.
Proof.
  intros i l. unfold memb. rewrite existsb_exists. split.
  - intros [x [Hx He]]. apply Nat.eqb_eq in He. now subst x.
  - intros Hi. exists i. split; [exact Hi | apply Nat.eqb_refl].
Qed.

(* np.setdiff1d(np.arange(n), idx) contains exactly the positions below n that idx omits ... *)
Lemma complement_In : forall n idx i, In i (complement n idx) <-> (i < n /\ ~ In i idx).
Proof.
  intros n idx i. unfold complement. rewrite filter_In, in_seq, negb_true_iff.
  rewrite <- memb_In. split.
  - intros [[_ Hi] Hm]. split; [cbn in Hi; exact Hi | now rewrite Hm].
  - intros [Hi Hm]. split; [cbn; lia | now destruct (memb i idx)].
Qed.

Lemma seq_ssorted : forall n a, StronglySorted lt (seq a n).
Proof.
  induction n as [|n IH]; intros a; cbn [seq]; constructor.
  - apply IH.
  - apply Forall_forall. intros x Hx. apply in_seq in Hx. lia.
Qed.

Lemma filter_ssorted : forall (f : nat -> bool) l,
  StronglySorted lt l -> StronglySorted lt (filter f l).
Proof.
  intros f l H. induction H as [|a l Hs IH Hf]; cbn [filter]; [constructor|].
  destruct (f a); [|exact IH]. constructor; [exact IH|].
  apply Forall_forall. intros x Hx. apply filter_In in Hx. destruct Hx as [Hx _].
  rewrite Forall_forall in Hf. now apply Hf.
Qed.

(* ... in increasing order, hence without repetition *)
Lemma complement_sorted : forall n idx, StronglySorted lt (complement n idx).
Proof. intros n idx. unfold complement. apply filter_ssorted, seq_ssorted. Qed.

Lemma complement_NoDup : forall n idx, NoDup (complement n idx).
Proof. intros n idx. unfold complement. apply NoDup_filter, seq_NoDup. Qed.

Lemma complement_length : forall n idx, length (complement n idx) <= n.
Proof.
  intros n idx. unfold complement. rewrite <- (seq_length n 0) at 2.
  generalize (seq 0 n). intros l. induction l as [|a l IH]; cbn [filter length]; [lia|].
  destruct (negb (memb a idx)); cbn [length]; lia.
Qed.

(* the index resolution of check_global_reconstruction_measures_input, all four branches *)
Theorem resolve_idx_spec : forall n train test dflt,
  let res := resolve_idx n train test dflt in
  match train, test with
  | Some tr, Some te => res = (tr, te)
  | None, None => res = dflt
  | Some tr, None =>
      fst res = tr /\ StronglySorted lt (snd res) /\
      (forall i, In i (snd res) <-> (i < n /\ ~ In i tr))
  | None, Some te =>
      snd res = te /\ StronglySorted lt (fst res) /\
      (forall i, In i (fst res) <-> (i < n /\ ~ In i te))
  end.
Proof.
  intros n [tr|] [te|] dflt; cbn; try reflexivity.
  - split; [reflexivity|]. split; [apply complement_sorted | apply complement_In].
  - split; [reflexivity|]. split; [apply complement_sorted | apply complement_In].
Qed.

(* with one index set given the two sets are disjoint and cover range(n) *)
Theorem resolve_idx_partition : forall n idx i,
  i < n -> (In i idx \/ In i (complement n idx)) /\ ~ (In i idx /\ In i (complement n idx)).
Proof.
  intros n idx i Hi. split.
  - destruct (in_dec Nat.eq_dec i idx) as [H|H]; [now left | right; now apply complement_In].
  - intros [H1 H2]. apply complement_In in H2. now destruct H2.
Qed.

(* the guards: a call is accepted iff the sample counts agree (and n_local_points <= len(X));
   the number of neighbours actually used never exceeds the number of training rows *)
Theorem guards_spec : forall nX nY k ntrain,
  (global_guard nX nY = true <-> nX = nY) /\
  (local_guard nX nY k = true <-> (k <= nX /\ nX = nY)) /\
  eff_k k ntrain <= ntrain /\ (k <= ntrain -> eff_k k ntrain = k) /\
  (ntrain <= k -> eff_k k ntrain = ntrain).
Proof.
  intros nX nY k ntrain. unfold global_guard, local_guard, eff_k.
  rewrite andb_true_iff, Nat.eqb_eq, Nat.leb_le. repeat split; try tauto; lia.
Qed.
