(* The specification of "lower vertex" does not depend on WHERE in the sample list a sample
   stands: moving one sample from an arbitrary index to the end (rotation) preserves
   below_combo.  Hence the add-above theorems hold for a sample inserted at any index.
   Stdlib style, over Z. *)
From Verif Require Import ListX ListXP DCH DCHSpecP DCHExt.

(* index of the j-th sample of  P1 ++ q :: P2  inside  (P1 ++ P2) ++ [q] *)
Definition rot_idx (n1 n2 j : nat) : nat :=
  if Nat.ltb j n1 then j else if Nat.eqb j n1 then (n1 + n2)%nat else (j - 1)%nat.

Lemma nth_rot {A} (l1 l2 : list A) x d j :
  (j < length l1 + S (length l2))%nat ->
  nth j (l1 ++ x :: l2) d = nth (rot_idx (length l1) (length l2) j) ((l1 ++ l2) ++ [x]) d.
Proof.
  intros Hj. unfold rot_idx.
  destruct (Nat.ltb j (length l1)) eqn:L.
  - apply Nat.ltb_lt in L. rewrite app_nth1 by assumption.
    rewrite app_nth1 by (rewrite app_length; lia). now rewrite app_nth1 by assumption.
  - apply Nat.ltb_ge in L. destruct (Nat.eqb j (length l1)) eqn:E.
    + apply Nat.eqb_eq in E. subst j. rewrite nth_middle.
      rewrite app_nth2 by (rewrite app_length; lia). rewrite app_length.
      replace (length l1 + length l2 - (length l1 + length l2))%nat with 0%nat by lia. reflexivity.
    + apply Nat.eqb_neq in E. rewrite app_nth2 by assumption.
      replace (j - length l1)%nat with (S (j - 1 - length l1)) by lia. cbn [nth].
      rewrite app_nth1 by (rewrite app_length; lia). rewrite app_nth2 by lia.
      f_equal; lia.
Qed.

Lemma nn_Forall (l : list Z) : (forall j, 0 <= nth j l 0) <-> Forall (fun a => 0 <= a) l.
Proof.
  split.
  - intros H. apply Forall_forall. intros a Ha. destruct (In_nth _ _ 0 Ha) as (j & _ & <-). apply H.
  - intros H j. destruct (Nat.lt_ge_cases j (length l)) as [L|L].
    + rewrite Forall_forall in H. apply H. now apply nth_In.
    + rewrite nth_overflow by assumption. lia.
Qed.

Lemma split_mid {A} (l : list A) n1 n2 :
  length l = (n1 + S n2)%nat ->
  exists l1 x l2, l = l1 ++ x :: l2 /\ length l1 = n1 /\ length l2 = n2.
Proof.
  intros H. pose proof (firstn_skipn n1 l) as E.
  destruct (skipn n1 l) as [|x l2] eqn:Sk.
  - exfalso. assert (L : length (skipn n1 l) = 0%nat) by now rewrite Sk. rewrite skipn_length in L. lia.
  - exists (firstn n1 l), x, l2. split; [now symmetry|].
    assert (L1 : length (firstn n1 l) = n1) by (rewrite firstn_length; lia). split; [exact L1|].
    assert (L : length (skipn n1 l) = S (length l2)) by now rewrite Sk. rewrite skipn_length in L. lia.
Qed.

Lemma split_end {A} (l : list A) n1 n2 :
  length l = (n1 + n2 + 1)%nat ->
  exists l1 l2 x, l = (l1 ++ l2) ++ [x] /\ length l1 = n1 /\ length l2 = n2.
Proof.
  intros H. destruct (exists_last (l := l)) as (l' & x & ->); [intros ->; cbn in H; lia|].
  rewrite app_length in H. cbn in H.
  exists (firstn n1 l'), (skipn n1 l'), x. rewrite firstn_skipn. split; [reflexivity|].
  rewrite firstn_length, skipn_length. lia.
Qed.

Lemma col_cons p P c : col (p :: P) c = nth c p 0 :: col P c.
Proof. reflexivity. Qed.

Section Rotate.
  Variable d : nat.
  Variables P1 P2 : list (list Z).
  Variable q : list Z.

  (* the two weighted sums agree, column by column *)
  Lemma dot_rot w1 wq w2 c :
    length w1 = length P1 -> length w2 = length P2 ->
    dot (w1 ++ wq :: w2) (col (P1 ++ q :: P2) c) = dot ((w1 ++ w2) ++ [wq]) (col ((P1 ++ P2) ++ [q]) c).
  Proof.
    intros L1 L2.
    rewrite (col_app P1 (q :: P2)), dot_app by (now rewrite col_length).
    rewrite col_cons, dot_cons.
    rewrite (col_app (P1 ++ P2) [q]), dot_app by (rewrite col_length, !app_length; lia).
    rewrite (col_app P1 P2), dot_app by (now rewrite col_length).
    unfold dot at 5. cbn. lia.
  Qed.

  Lemma zsum_rot w1 wq w2 : zsum (w1 ++ wq :: w2) = zsum ((w1 ++ w2) ++ [wq]).
  Proof.
    rewrite !zsum_app. unfold zsum at 2 5. cbn. fold (zsum w2). lia.
  Qed.

  Lemma Forall_rot (R : Z -> Prop) w1 wq w2 :
    Forall R (w1 ++ wq :: w2) <-> Forall R ((w1 ++ w2) ++ [wq]).
  Proof.
    rewrite !Forall_app. split.
    - intros [H1 H2]. inversion H2; subst. repeat split; auto.
    - intros [[H1 H2] H3]. inversion H3; subst. split; auto.
  Qed.

  Theorem below_combo_rotate j :
    (j < length P1 + S (length P2))%nat ->
    (below_combo d (P1 ++ q :: P2) j <->
     below_combo d ((P1 ++ P2) ++ [q]) (rot_idx (length P1) (length P2) j)).
  Proof.
    intros Hj.
    assert (Ept : nth j (P1 ++ q :: P2) [] = nth (rot_idx (length P1) (length P2) j) ((P1 ++ P2) ++ [q]) [])
      by now apply nth_rot.
    split.
    - intros (w & W & HW & Hl & Hn & Hz & Hs & Hx & Hy).
      rewrite app_length in Hl. cbn [length] in Hl.
      destruct (split_mid w _ _ Hl) as (w1 & wq & w2 & -> & L1 & L2).
      exists ((w1 ++ w2) ++ [wq]), W. split; [exact HW|].
      split; [rewrite !app_length; cbn; lia|].
      split; [apply (proj2 (nn_Forall _)), (proj1 (Forall_rot _ w1 wq w2)), (proj1 (nn_Forall _)); exact Hn|].
      split; [rewrite <- L1, <- L2, <- nth_rot by (rewrite L1, L2; exact Hj); exact Hz|].
      split; [rewrite <- zsum_rot; exact Hs|].
      rewrite <- Ept. split.
      + intros c Hc. rewrite <- dot_rot by assumption. now apply Hx.
      + rewrite <- dot_rot by assumption. exact Hy.
    - intros (w & W & HW & Hl & Hn & Hz & Hs & Hx & Hy).
      assert (Hl' : length w = (length P1 + length P2 + 1)%nat) by (rewrite Hl, !app_length; cbn; lia).
      destruct (split_end w _ _ Hl') as (w1 & w2 & wq & -> & L1 & L2).
      exists (w1 ++ wq :: w2), W. split; [exact HW|].
      split; [rewrite !app_length; cbn; lia|].
      split; [apply (proj2 (nn_Forall _)), (proj2 (Forall_rot _ w1 wq w2)), (proj1 (nn_Forall _)); exact Hn|].
      split; [rewrite <- L1, <- L2, <- nth_rot in Hz by (rewrite L1, L2; exact Hj); exact Hz|].
      split; [rewrite zsum_rot; exact Hs|].
      rewrite Ept. split.
      + intros c Hc. rewrite dot_rot by assumption. now apply Hx.
      + rewrite dot_rot by assumption. exact Hy.
  Qed.

  (* a sample inserted ANYWHERE strictly above the hull of the others is not a lower vertex ... *)
  Theorem inserted_point_not_lower :
    strictly_above d (P1 ++ P2) q -> below_combo d (P1 ++ q :: P2) (length P1).
  Proof.
    intros Ha. apply below_combo_rotate; [lia|].
    unfold rot_idx. rewrite Nat.ltb_irrefl, Nat.eqb_refl.
    replace (length P1 + length P2)%nat with (length (P1 ++ P2)) by apply app_length.
    now apply added_point_not_lower.
  Qed.

  (* ... and does not change which of the other samples are lower vertices *)
  Theorem insert_above_invariant i :
    (i < length (P1 ++ P2))%nat -> strictly_above d (P1 ++ P2) q ->
    (below_combo d (P1 ++ q :: P2) (shift_idx (length P1) i) <-> below_combo d (P1 ++ P2) i).
  Proof.
    intros Hi Ha. rewrite app_length in Hi.
    rewrite below_combo_rotate by (unfold shift_idx; destruct (Nat.ltb i (length P1)); lia).
    assert (E : rot_idx (length P1) (length P2) (shift_idx (length P1) i) = i).
    { unfold rot_idx, shift_idx. destruct (Nat.ltb i (length P1)) eqn:L.
      - now rewrite L.
      - apply Nat.ltb_ge in L.
        replace (Nat.ltb (S i) (length P1)) with false by (symmetry; apply Nat.ltb_ge; lia).
        replace (Nat.eqb (S i) (length P1)) with false by (symmetry; apply Nat.eqb_neq; lia). lia. }
    rewrite E. apply add_above_invariant; [rewrite app_length; lia|exact Ha].
  Qed.
End Rotate.
