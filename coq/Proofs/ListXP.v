(* Lemmas about Base/ListX.v: arg-max specification, masks, vector algebra over Z. *)
From Verif Require Import ListX.

(* ---- ExtZ order --------------------------------------------------------------- *)
Definition ext_le (a b : ExtZ) : Prop :=
  match a, b with
  | _, None => True
  | None, Some _ => False
  | Some x, Some y => x <= y
  end.

Lemma ext_le_refl a : ext_le a a.
Proof. destruct a; cbn; lia. Qed.

Lemma ext_le_trans a b c : ext_le a b -> ext_le b c -> ext_le a c.
Proof. destruct a, b, c; cbn; try lia; tauto. Qed.

Lemma ext_min_le_l a b : ext_le (ext_min a b) a.
Proof. destruct a; cbn; lia. Qed.

Lemma ext_min_le_r a b : ext_le (ext_min a b) (Some b).
Proof. destruct a; cbn; lia. Qed.

Lemma ext_min_mono a a' b : ext_le a a' -> ext_le (ext_min a b) (ext_min a' b).
Proof. destruct a, a'; cbn; lia. Qed.

(* ---- zsum / dot ---------------------------------------------------------------- *)
Lemma dot_nil_l v : dot [] v = 0. Proof. reflexivity. Qed.
Lemma dot_cons a u b v : dot (a :: u) (b :: v) = a * b + dot u v.
Proof. reflexivity. Qed.

Lemma dot_comm u v : dot u v = dot v u.
Proof.
  revert v; induction u as [|a u IH]; intros [|b v]; try reflexivity.
  rewrite !dot_cons, IH. lia.
Qed.

Lemma sqn_nonneg u : 0 <= sqn u.
Proof.
  unfold sqn. induction u as [|a u IH]; [unfold dot; cbn; lia|].
  rewrite dot_cons. pose proof (Z.square_nonneg a). lia.
Qed.

Lemma sqdist_nonneg u v : 0 <= sqdist u v.
Proof. apply sqn_nonneg. Qed.

Lemma sqdist_cons a u b v : sqdist (a :: u) (b :: v) = (a - b) * (a - b) + sqdist u v.
Proof. reflexivity. Qed.

(* the identity behind `norms_ + norms_[l] - 2 * X[l] @ X.T` *)
Lemma sqdist_expand u v :
  length u = length v -> sqn u + sqn v - 2 * dot v u = sqdist u v.
Proof.
  revert v; induction u as [|a u IH]; intros [|b v] H; try discriminate; [reflexivity|].
  injection H as H. specialize (IH v H).
  unfold sqn in *. rewrite sqdist_cons, !dot_cons. lia.
Qed.

Lemma sqdist_self u : sqdist u u = 0.
Proof. induction u as [|a u IH]; [reflexivity|]. rewrite sqdist_cons, IH. lia. Qed.

Lemma sqdist_sym u v : sqdist u v = sqdist v u.
Proof.
  revert v; induction u as [|a u IH]; intros [|b v]; try reflexivity.
  rewrite !sqdist_cons, IH. lia.
Qed.

Lemma nth_map_lt {A B} (f : A -> B) l i d d' :
  (i < length l)%nat -> nth i (map f l) d = f (nth i l d').
Proof.
  intros H. rewrite nth_indep with (d' := f d') by now rewrite map_length. apply map_nth.
Qed.

(* ---- memb ---------------------------------------------------------------------- *)
Lemma memb_In i l : memb i l = true <-> In i l.
Proof.
  unfold memb. rewrite existsb_exists. split.
  - intros [x [Hx He]]. apply Nat.eqb_eq in He. now subst.
  - intros H. exists i. split; [assumption|apply Nat.eqb_refl].
Qed.

Lemma memb_false i l : memb i l = false <-> ~ In i l.
Proof. rewrite <- memb_In. destruct (memb i l); split; congruence. Qed.

Lemma fresh_index n l : (length l < n)%nat -> exists j, (j < n)%nat /\ ~ In j l.
Proof.
  intros Hl.
  destruct (forallb (fun j => memb j l) (seq 0 n)) eqn:E.
  - exfalso. rewrite forallb_forall in E.
    assert (Hinc : incl (seq 0 n) l) by (intros j Hj; apply memb_In, E, Hj).
    pose proof (NoDup_incl_length (seq_NoDup n 0) Hinc) as Hc. rewrite seq_length in Hc. lia.
  - assert (Hex : exists j, In j (seq 0 n) /\ memb j l = false).
    { clear Hl. induction (seq 0 n) as [|a q IH]; cbn in E; [discriminate|].
      destruct (memb a l) eqn:M; cbn in E.
      - destruct (IH E) as (j & Hj & Hm). exists j; cbn; auto.
      - exists a; cbn; auto. }
    destruct Hex as (j & Hj & Hm). exists j. rewrite in_seq in Hj.
    split; [lia|apply memb_false; exact Hm].
Qed.

(* ---- mask ---------------------------------------------------------------------- *)
Lemma mask_from_length i sel sc : length (mask_from i sel sc) = length sc.
Proof. revert i; induction sc as [|s t IH]; intros i; cbn; auto. Qed.

Lemma mask_from_nth i sel sc k :
  (k < length sc)%nat ->
  nth k (mask_from i sel sc) None =
  if memb (i + k) sel then None else Some (nth k sc 0).
Proof.
  revert i k; induction sc as [|s t IH]; intros i k Hk; cbn in Hk; [lia|].
  destruct k as [|k]; cbn [mask_from nth].
  - now rewrite Nat.add_0_r.
  - rewrite IH by lia. now replace (S i + k)%nat with (i + S k)%nat by lia.
Qed.

(* ---- amax specification --------------------------------------------------------- *)
Lemma amax_none l : amax l = None -> forall j, nth j l None = None.
Proof.
  induction l as [|y t IH]; intros Et [|j]; cbn; auto.
  - cbn in Et. destruct (amax t) as [[? ?]|], y; try discriminate; try reflexivity.
    destruct (z <=? z0); discriminate.
  - apply IH. cbn in Et. destruct (amax t) as [[? ?]|]; [|reflexivity].
    destruct y; [destruct (z <=? z0)|]; discriminate.
Qed.

Lemma amax_spec l i v :
  amax l = Some (i, v) ->
  (i < length l)%nat /\ nth i l None = Some v /\
  (forall j w, nth j l None = Some w -> w <= v) /\
  (forall j w, (j < i)%nat -> nth j l None = Some w -> w < v).
Proof.
  revert i v; induction l as [|x t IH]; intros i v H; cbn in H; [discriminate|].
  destruct (amax t) as [[j w]|] eqn:Et.
  - specialize (IH j w eq_refl) as (Hj & Hn & Hmax & Hfirst).
    destruct x as [xv|].
    + destruct (w <=? xv) eqn:Hc; injection H as <- <-.
      * apply Z.leb_le in Hc. split; [cbn; lia|]. split; [reflexivity|]. split.
        -- intros [|j'] w' Hw; cbn in Hw; [injection Hw as <-; lia|].
           specialize (Hmax _ _ Hw). lia.
        -- intros j' w' Hlt; lia.
      * apply Z.leb_gt in Hc. split; [cbn; lia|]. split; [exact Hn|]. split.
        -- intros [|j'] w' Hw; cbn in Hw; [injection Hw as <-; lia|]. eauto.
        -- intros [|j'] w' Hlt Hw; cbn in Hw; [injection Hw as <-; lia|].
           apply (Hfirst j'); [lia|assumption].
    + injection H as <- <-. split; [cbn; lia|]. split; [exact Hn|]. split.
      * intros [|j'] w' Hw; cbn in Hw; [discriminate|]. eauto.
      * intros [|j'] w' Hlt Hw; cbn in Hw; [discriminate|].
        apply (Hfirst j'); [lia|assumption].
  - destruct x as [xv|]; [|discriminate]. injection H as <- <-.
    pose proof (amax_none _ Et) as Hnone.
    split; [cbn; lia|]. split; [reflexivity|]. split.
    + intros [|j'] w' Hw; cbn in Hw; [injection Hw as <-; lia|].
      rewrite Hnone in Hw; discriminate.
    + intros j' w' Hlt; lia.
Qed.

(* arg-max over the masked scores: an unselected first maximiser *)
Lemma amax_mask_spec sel sc i v :
  amax (mask sel sc) = Some (i, v) ->
  (i < length sc)%nat /\ ~ In i sel /\ nth i sc 0 = v /\
  (forall j, (j < length sc)%nat -> ~ In j sel -> nth j sc 0 <= v) /\
  (forall j, (j < i)%nat -> ~ In j sel -> nth j sc 0 < v).
Proof.
  intros H. apply amax_spec in H as (Hi & Hn & Hmax & Hfirst).
  unfold mask in *. rewrite mask_from_length in Hi.
  rewrite mask_from_nth in Hn by assumption. cbn in Hn.
  destruct (memb i sel) eqn:Hm; [discriminate|]. injection Hn as Hn.
  apply memb_false in Hm. repeat split; try assumption.
  - intros j Hj Hs. apply (Hmax j). rewrite mask_from_nth by assumption. cbn.
    apply memb_false in Hs. now rewrite Hs.
  - intros j Hj Hs. apply (Hfirst j); [assumption|].
    rewrite mask_from_nth by lia. cbn. apply memb_false in Hs. now rewrite Hs.
Qed.

Lemma amax_mask_some sel sc j :
  (j < length sc)%nat -> ~ In j sel -> amax (mask sel sc) <> None.
Proof.
  intros Hj Hs H. apply amax_none with (j := j) in H.
  unfold mask in H. rewrite mask_from_nth in H by assumption. cbn in H.
  apply memb_false in Hs. rewrite Hs in H. discriminate.
Qed.

(* ---- upd_nth --------------------------------------------------------------------- *)
Lemma nth_upd_nth_eq {A} i (x d : A) l : (i < length l)%nat -> nth i (upd_nth i x l) d = x.
Proof. revert i; induction l as [|a l IH]; intros [|i] H; cbn in *; try lia; auto. apply IH; lia. Qed.

Lemma nth_upd_nth_neq {A} i j (x d : A) l : i <> j -> nth j (upd_nth i x l) d = nth j l d.
Proof.
  revert i j; induction l as [|a l IH]; intros [|i] [|j] H; cbn; try reflexivity; try congruence.
  apply IH; congruence.
Qed.

(* ---- sort_nat: sorted permutation -------------------------------------------------- *)
From Coq Require Import Sorting.Permutation Sorting.Sorted.

Lemma ins_perm x l : Permutation (x :: l) (ins x l).
Proof.
  induction l as [|y t IH]; cbn; [reflexivity|].
  destruct (Nat.leb x y); [reflexivity|].
  rewrite perm_swap. now constructor.
Qed.

Lemma sort_nat_perm l : Permutation l (sort_nat l).
Proof.
  induction l as [|x t IH]; cbn; [constructor|].
  rewrite <- ins_perm. now constructor.
Qed.

Lemma ins_sorted x l : Sorted le l -> Sorted le (ins x l).
Proof.
  induction l as [|y t IH]; cbn; intros H; [repeat constructor|].
  destruct (Nat.leb x y) eqn:E.
  - apply Nat.leb_le in E. constructor; [assumption|constructor; assumption].
  - apply Nat.leb_gt in E. inversion H as [|? ? Ht Hh]; subst.
    constructor; [auto|].
    destruct t as [|z t]; cbn; [constructor; lia|].
    destruct (Nat.leb x z); constructor; inversion Hh; subst; lia.
Qed.

Lemma sort_nat_sorted l : Sorted le (sort_nat l).
Proof. induction l as [|x t IH]; cbn; [constructor|]. now apply ins_sorted. Qed.
