(* C07, layer A: theorems about the programs of Model/CURLoop.v interpreted over an arbitrary
   real closed field (Model/CURLoopMx.v).  ssreflect style. *)
From mathcomp Require Import all_ssreflect all_algebra.
From Verif Require Import MExp MExpMx MxBox MxBoxP PCovR CURLoop CURLoopMx.
Set Implicit Arguments.
Unset Strict Implicit.
Unset Printing Implicit Defensive.
Import Order.TTheory GRing.Theory Num.Theory.
Local Open Scope ring_scope.

Section Basics.
  Variable F : rcfType.

  Lemma mulTmx_eq0 m n (A : 'M[F]_(m, n)) : A^T *m A = 0 -> A = 0.
  Proof.
    move=> H; apply/matrixP => i j; rewrite [RHS]mxE.
    have /eqP := congr1 (fun M : 'M[F]_n => M j j) H; rewrite !mxE.
    rewrite psumr_eq0 => [|k _]; last by rewrite !mxE -expr2 sqr_ge0.
    move/allP/(_ i (mem_index_enum _)); rewrite /= !mxE -expr2 sqrf_eq0.
    by move/eqP.
  Qed.

  Lemma mx11_eq (A : 'M[F]_1) : A = (A ord0 ord0)%:M.
  Proof. by apply/matrixP => i j; rewrite !mxE !ord1 eqxx mulr1n. Qed.

  Lemma sq11_ge0 m (v : 'cV[F]_m) : 0 <= (v^T *m v) ord0 ord0.
  Proof. by rewrite mxE; apply: sumr_ge0 => i _; rewrite !mxE -expr2 sqr_ge0. Qed.

  (* a product vanishes when, index by index, a column of the left or a row of the right factor does *)
  Lemma mulmx_cols0 m n p (M : 'M[F]_(m, n)) (B : 'M[F]_(n, p)) :
    (forall i, col i M = 0 \/ row i B = 0) -> M *m B = 0.
  Proof.
    move=> H; apply/matrixP => k l; rewrite !mxE; apply: big1 => i _.
    case: (H i) => [/colP/(_ k)|/rowP/(_ l)]; rewrite !mxE => ->; by rewrite ?mul0r ?mulr0.
  Qed.
  Lemma col_mulmx m n p (A : 'M[F]_(m, n)) (B : 'M[F]_(n, p)) j : col j (A *m B) = A *m col j B.
  Proof. by rewrite !colE mulmxA. Qed.
End Basics.

(* ==== X_orthogonalizer: the residual is the projection residual ============================ *)
Section Deflate.
  Variable F : rcfType.
  Variables (r c : nat) (X : 'M[F]_(r, c)).

  (* the two conditions that characterise Xc = (I - Pi_D) X, D = set of selected columns *)
  Definition orth_to (D : pred 'I_c) (Xc : 'M[F]_(r, c)) : Prop :=
    forall j, D j -> Xc^T *m col j X = 0.
  Definition in_span (D : pred 'I_c) (Xc : 'M[F]_(r, c)) : Prop :=
    exists B : 'M[F]_c, X - Xc = X *m B /\ forall i, ~~ D i -> row i B = 0.

  Definition deflate (Xc : 'M[F]_(r, c)) (u : 'cV[F]_r) : 'M[F]_(r, c) := Xc - u *m (u^T *m Xc).

  Lemma orth_span_kill D Xc (B : 'M[F]_c) :
    orth_to D Xc -> (forall i, ~~ D i -> row i B = 0) -> Xc^T *m X *m B = 0.
  Proof.
    move=> Ho HB; apply: mulmx_cols0 => i.
    case Di: (D i); [left|right; by apply: HB; rewrite Di].
    by rewrite col_mulmx; apply: Ho.
  Qed.

  Lemma step_inv (D : pred 'I_c) Xc (j : 'I_c) (a : F) :
    let u := a *: col j Xc in
    u^T *m u = 1%:M -> orth_to D Xc -> in_span D Xc ->
    orth_to [pred i | (i == j) || D i] (deflate Xc u) /\
    in_span [pred i | (i == j) || D i] (deflate Xc u).
  Proof.
    move=> u Hu Ho [B [HB HB0]].
    set R := u^T *m Xc; set Xc' := deflate Xc u.
    have Xc'T : Xc'^T = Xc^T - R^T *m u^T.
      by rewrite /Xc' /deflate linearB /= trmx_mul.
    have RT : R^T = Xc^T *m u by rewrite /R trmx_mul trmxK.
    have a0 : a != 0.
      apply/eqP => a0; move: Hu; rewrite /u a0 scale0r trmx0 mul0mx => /matrixP/(_ ord0 ord0).
      by rewrite !mxE eqxx => /eqP; rewrite eq_sym oner_eq0.
    (* u is orthogonal to every column already projected out *)
    have f1 j' : D j' -> u^T *m col j' X = 0.
      move=> Dj'; rewrite /u linearZ /= -scalemxAl colE trmx_mul -mulmxA.
      by rewrite (Ho _ Dj') mulmx0 scaler0.
    have f2 j' : D j' -> Xc'^T *m col j' X = 0.
      by move=> Dj'; rewrite Xc'T mulmxBl -mulmxA (f1 _ Dj') mulmx0 (Ho _ Dj') subr0.
    have f3 : Xc'^T *m u = 0.
      by rewrite Xc'T mulmxBl -mulmxA Hu mulmx1 RT subrr.
    have Ho' : orth_to D Xc' by move=> j' Dj'; exact: f2.
    have f4 : Xc'^T *m X *m B = 0 by exact: (orth_span_kill Ho' HB0).
    have Xdec : X = Xc + X *m B by rewrite -HB addrC subrK.
    have f5 : col j X = col j Xc + X *m col j B by rewrite {1}Xdec linearD /= col_mulmx.
    split.
    - move=> j' /orP [/eqP ->|]; last exact: f2.
      rewrite f5 mulmxDr mulmxA -col_mulmx f4 col0 addr0.
      apply/eqP; rewrite -(inj_eq (scalerI a0)) scaler0 scalemxAr; apply/eqP.
      exact: f3.
    - pose w : 'cV[F]_c := a *: (delta_mx j ord0 - col j B).
      have uw : u = X *m w.
        rewrite /w -scalemxAr mulmxBr -colE /u; congr (_ *: _).
        by rewrite f5 addrK.
      exists (B + w *m R); split.
        by rewrite mulmxDr mulmxA -uw -HB /Xc' /deflate opprD opprK addrA.
      move=> i /=; rewrite negb_or => /andP [ij Di].
      rewrite linearD /= (HB0 _ Di) add0r row_mul.
      have -> : row i w = 0; last by rewrite mul0mx.
      apply/rowP => k; rewrite !mxE (negbTE ij) /= sub0r.
      by have /rowP/(_ j) := HB0 _ Di; rewrite !mxE => ->; rewrite oppr0 mulr0.
  Qed.

  (* consequence of the two conditions: the selected columns of the residual vanish *)
  Lemma resid_col0 (D : pred 'I_c) Xc j : orth_to D Xc -> in_span D Xc -> D j -> col j Xc = 0.
  Proof.
    move=> Ho [B [HB HB0]] Dj; apply: mulTmx_eq0.
    have Xdec : X = Xc + X *m B by rewrite -HB addrC subrK.
    have Hv : col j Xc = col j X - X *m col j B.
      by rewrite {1}Xdec linearD /= col_mulmx addrK.
    have HvT : (col j Xc)^T = (delta_mx j ord0)^T *m Xc^T by rewrite colE trmx_mul.
    rewrite HvT Hv mulmxBr -!mulmxA (Ho _ Dj) mulmx0 sub0r.
    by rewrite [Xc^T *m _]mulmxA -col_mulmx (orth_span_kill Ho HB0) col0 mulmx0 oppr0.
  Qed.
End Deflate.

(* ---- the programs of one orthogonalisation step ------------------------------------------- *)
Section OrthProg.
  Variable F : rcfType.
  Variables r c : nat.
  Implicit Types (X : 'M[F]_(r, c)) (j : 'I_c).

  Lemma orth_env_X X j : orth_env_mx X j r c uX = X.
  Proof. by rewrite /orth_env_mx eqxx inj_mxE. Qed.
  Lemma orth_env_E X j : orth_env_mx X j c 1%N uE = delta_mx j ord0.
  Proof. by rewrite /orth_env_mx /= inj_mxE. Qed.

  Lemma col_formula X j : eval_mx (orth_env_mx X j) (col_prog r c) = col j X.
  Proof. by rewrite /= orth_env_X orth_env_E -colE. Qed.

  (* squared norm of the pivot column *)
  Definition sqn X j : F := ((col j X)^T *m col j X) ord0 ord0.

  Lemma sqn_ge0 X j : 0 <= sqn X j.
  Proof. exact: sq11_ge0. Qed.

  Lemma norm_formula X j : pivot_norm_mx X j = Num.sqrt (sqn X j).
  Proof.
    rewrite /pivot_norm_mx /norm_prog /sq_prog.
    have := col_formula X j; move: (col_prog r c) => e He.
    by rewrite /= mxE /= He.
  Qed.

  Lemma raw_formula X j :
    eval_mx (orth_env_mx X j) (orth_raw_prog r c) = deflate X (col j X).
  Proof.
    rewrite /orth_raw_prog /sub_outer /deflate.
    have := col_formula X j; move: (col_prog r c) => e He.
    by rewrite /= He orth_env_X.
  Qed.

  Lemma normed_formula X j :
    eval_mx (orth_env_mx X j) (orth_norm_prog r c)
    = deflate X ((Num.sqrt (sqn X j))^-1 *: col j X).
  Proof.
    rewrite /orth_norm_prog /sub_outer /deflate /ucol_prog.
    have := norm_formula X j; rewrite /pivot_norm_mx.
    have := col_formula X j; move: (norm_prog r c) (col_prog r c) => en e He Hn.
    by rewrite /= !mxE /= Hn He orth_env_X.
  Qed.

  Lemma unit_pivot X j :
    0 < Num.sqrt (sqn X j) ->
    let u := (Num.sqrt (sqn X j))^-1 *: col j X in u^T *m u = 1%:M.
  Proof.
    move=> npos u; rewrite /u linearZ /= linearZ /= -scalemxAl scalerA.
    rewrite [_^T *m _]mx11_eq -/(sqn X j) scale_scalar_mx; congr (_%:M).
    have n0 : Num.sqrt (sqn X j) != 0 by rewrite lt0r_neq0.
    rewrite -{3}[sqn X j]sqr_sqrtr ?sqn_ge0 // expr2 mulrACA mulVf // mulr1.
    by [].
  Qed.

  (* a step whose pivot norm is at least tol > 0 is the deflation by the unit pivot direction *)
  Lemma step_formula (tol : F) X j :
    0 < tol -> tol <= pivot_norm_mx X j ->
    orth_step_mx tol X j = deflate X ((Num.sqrt (sqn X j))^-1 *: col j X)
    /\ 0 < Num.sqrt (sqn X j).
  Proof.
    move=> tpos Hn; rewrite /orth_step_mx normed_formula ltNge Hn /=; split=> //.
    by rewrite -norm_formula (lt_le_trans tpos).
  Qed.
End OrthProg.

Section Projection.
  Variable F : rcfType.
  Variables (r c : nat) (X : 'M[F]_(r, c)).

  Lemma orth_to_ext (D D' : pred 'I_c) Xc : D =1 D' -> orth_to X D Xc -> orth_to X D' Xc.
  Proof. by move=> E H j Dj; apply: H; rewrite E. Qed.

  Lemma in_span_ext (D D' : pred 'I_c) Xc : D =1 D' -> in_span X D Xc -> in_span X D' Xc.
  Proof.
    move=> E [B [HB HB0]]; exists B; split=> // i Di; apply: HB0; by rewrite E.
  Qed.

  Lemma fold_inv (tol : F) (sel : seq 'I_c) : 0 < tol ->
    forall (D : pred 'I_c) Xc,
      orth_to X D Xc -> in_span X D Xc -> pivots_ok tol Xc sel ->
      orth_to X [pred i | (i \in sel) || D i] (orth_fold_mx tol Xc sel) /\
      in_span X [pred i | (i \in sel) || D i] (orth_fold_mx tol Xc sel).
  Proof.
    move=> tpos; elim: sel => [|j s IH] D Xc Ho Hs /=.
      by move=> _; split; [apply: orth_to_ext Ho|apply: in_span_ext Hs].
    case=> Hn Hp.
    have [-> npos] := step_formula tpos Hn.
    have [Ho' Hs'] := step_inv (unit_pivot npos) Ho Hs.
    rewrite /orth_fold_mx /= in IH *.
    have [] := IH _ _ Ho' Hs'.
      by move: Hp; have [-> _] := step_formula tpos Hn.
    move=> A B; split; [apply: orth_to_ext A|apply: in_span_ext B] => i /=;
      by rewrite inE orbA [(i \in s) || _]orbC.
  Qed.

  (* C07_residual_is_projection *)
  Theorem residual_is_projection (tol : F) (sel : seq 'I_c) :
    0 < tol -> pivots_ok tol X sel ->
    let Xc := orth_fold_mx tol X sel in
    [/\ forall j, j \in sel -> Xc^T *m col j X = 0,
        exists B : 'M[F]_c, X - Xc = X *m B /\ forall i, i \notin sel -> row i B = 0
      & forall j, j \in sel -> col j Xc = 0].
  Proof.
    move=> tpos Hp Xc.
    have Ho0 : orth_to X pred0 X by [].
    have Hs0 : in_span X pred0 X by exists 0; rewrite subrr mulmx0; split=> // i _; rewrite row0.
    have [Ho Hs] := fold_inv tpos Ho0 Hs0 Hp.
    have Ho1 : orth_to X (mem sel) Xc by apply: orth_to_ext Ho => i /=; rewrite orbF.
    have Hs1 : in_span X (mem sel) Xc by apply: in_span_ext Hs => i /=; rewrite orbF.
    split; [exact: Ho1|exact: Hs1|move=> j js; exact: (resid_col0 Ho1 Hs1)].
  Qed.

  (* the warm-start guard `norm(X_current_[:, j]) > tolerance * (anything >= 0)` is quiet *)
  Theorem warm_guard_quiet (tol : F) (sel : seq 'I_c) j (a : F) :
    0 < tol -> pivots_ok tol X sel -> j \in sel -> 0 <= a ->
    ~~ (tol * a < pivot_norm_mx (orth_fold_mx tol X sel) j).
  Proof.
    move=> tpos Hp js a0.
    have [_ _ /(_ j js) H] := residual_is_projection tpos Hp.
    by rewrite norm_formula /sqn H trmx0 mul0mx mxE sqrtr0 -leNgt mulr_ge0 // ltW.
  Qed.
End Projection.

Section ProjectionUnique.
  Variable F : rcfType.
  Variables (r c : nat) (X : 'M[F]_(r, c)).

  (* the two conditions determine the residual: it is (I - Pi_D) X *)
  Lemma residual_unique (D : pred 'I_c) (Xc Xc' : 'M[F]_(r, c)) :
    orth_to X D Xc -> in_span X D Xc -> orth_to X D Xc' -> in_span X D Xc' -> Xc = Xc'.
  Proof.
    move=> Ho [B [HB HB0]] Ho' [B' [HB' HB0']].
    apply/eqP; rewrite -subr_eq0; apply/eqP; apply: mulTmx_eq0.
    have E : Xc - Xc' = X *m (B' - B).
      by rewrite mulmxBr -HB -HB' opprB [RHS]addrC addrA subrK.
    have Z i : ~~ D i -> row i (B' - B) = 0.
      by move=> Di; rewrite linearB /= (HB0 _ Di) (HB0' _ Di) subrr.
    rewrite {2}E linearB /= mulmxBl !mulmxA.
    by rewrite (orth_span_kill Ho Z) (orth_span_kill Ho' Z) subrr.
  Qed.
End ProjectionUnique.

(* ==== least squares with a symmetric generalised inverse ==================================== *)
Section GInverse.
  Variable F : rcfType.
  Variables (n K : nat) (Xs : 'M[F]_(n, K)) (V : 'M[F]_K).
  Let G := Xs^T *m Xs.
  Hypothesis H1 : G *m V *m G = G.
  Hypothesis H2 : V^T = V.

  Lemma ginv_XVG : Xs *m V *m G = Xs.
  Proof.
    apply/eqP; rewrite -subr_eq0; apply/eqP; apply: mulTmx_eq0.
    have -> : Xs *m V *m G - Xs = Xs *m (V *m G - 1%:M) by rewrite mulmxBr mulmx1 mulmxA.
    rewrite trmx_mul -mulmxA [Xs^T *m _]mulmxA -/G mulmxBr mulmx1 !mulmxA.
    by rewrite -[G *m V *m _ *m _]mulmxA -/G H1 subrr mulmx0.
  Qed.

  Lemma ginv_GVXt : G *m V *m Xs^T = Xs^T.
  Proof.
    have := congr1 trmx ginv_XVG; rewrite !trmx_mul H2 mulmxA.
    by rewrite trmxK.
  Qed.

  (* normal equations of the residual z - Xs V Xs^T z *)
  Lemma ginv_normal p (z : 'M[F]_(n, p)) : Xs^T *m (z - Xs *m V *m Xs^T *m z) = 0.
  Proof. by rewrite mulmxBr !mulmxA -/G ginv_GVXt subrr. Qed.
End GInverse.

(* ==== Y_feature_orthogonalizer folded over the selections ===================================== *)
Section YFeature.
  Variable F : rcfType.
  Variables n m p : nat.
  Variables (X : 'M[F]_(n, m)) (sel : seq nat) (y0 : 'M[F]_(n, p)).

  Local Notation buf := (buf_mx X sel).

  Lemma yfeat_env_y K (y : 'M[F]_(n, p)) (Xs : 'M[F]_(n, K)) (V : 'M[F]_K) :
    yfeat_env_mx y Xs V n p uY = y.
  Proof. by rewrite /yfeat_env_mx eqxx inj_mxE. Qed.
  Lemma yfeat_env_Xs K (y : 'M[F]_(n, p)) (Xs : 'M[F]_(n, K)) (V : 'M[F]_K) :
    yfeat_env_mx y Xs V n K uXs = Xs.
  Proof. by rewrite /yfeat_env_mx /= inj_mxE. Qed.
  Lemma yfeat_env_V K (y : 'M[F]_(n, p)) (Xs : 'M[F]_(n, K)) (V : 'M[F]_K) :
    yfeat_env_mx y Xs V K K uV = V.
  Proof. by rewrite /yfeat_env_mx /= inj_mxE. Qed.

  Lemma yfeat_formula K (y : 'M[F]_(n, p)) (Xs : 'M[F]_(n, K)) (V : 'M[F]_K) :
    eval_mx (yfeat_env_mx y Xs V) (yfeat_prog n p K) = y - Xs *m V *m Xs^T *m y.
  Proof. by rewrite /= yfeat_env_y yfeat_env_Xs yfeat_env_V. Qed.
  Lemma yf_h1_formula K (y : 'M[F]_(n, p)) (Xs : 'M[F]_(n, K)) (V : 'M[F]_K) :
    eval_mx (yfeat_env_mx y Xs V) (yf_h1 n K) = Xs^T *m Xs *m V *m (Xs^T *m Xs) - Xs^T *m Xs.
  Proof. by rewrite /= yfeat_env_Xs yfeat_env_V. Qed.
  Lemma yf_h2_formula K (y : 'M[F]_(n, p)) (Xs : 'M[F]_(n, K)) (V : 'M[F]_K) :
    eval_mx (yfeat_env_mx y Xs V) (yf_h2 K) = V^T - V.
  Proof. by rewrite /= yfeat_env_V. Qed.

  (* ---- buffers of different widths / fill levels ---------------------------------------- *)
  Definition Esel (K' K : nat) : 'M[F]_(K', K) := \matrix_(a, b) ((a : nat) == b)%:R.
  Definition Dsel (t K : nat) : 'M[F]_K := \matrix_(a, b) (((a : nat) == b) && (a < t)%N)%:R.

  Lemma sum_pick K (f : 'I_K -> F) (j : nat) :
    \sum_(a < K) f a * ((a : nat) == j)%:R = if insub j is Some j' then f j' else 0.
  Proof.
    case: insubP => [j' _ jj'|].
    - rewrite (bigD1 j') //= jj' eqxx mulr1 big1 ?addr0 // => a.
      by rewrite -val_eqE /= jj' => /negbTE ->; rewrite mulr0.
    - rewrite -leqNgt => Kj; apply: big1 => a _.
      have /negbTE -> : (a : nat) != j by rewrite ltn_eqF // (leq_trans (ltn_ord a)).
      by rewrite mulr0.
  Qed.

  Lemma buf_resize t K K' : (t <= K')%N -> buf t K = buf t K' *m Esel K' K.
  Proof.
    move=> tK; apply/matrixP => i j; rewrite [RHS]mxE.
    rewrite (eq_bigr (fun a : 'I_K' =>
       (if (a < t)%N then xcol X i (nth 0%N sel a) else 0) * ((a : nat) == j)%:R)); last first.
      by move=> a _; rewrite !mxE.
    rewrite sum_pick [LHS]mxE.
    case: insubP => [j' _ -> //|]; rewrite -leqNgt => K'j.
    by rewrite ltnNge (leq_trans tK K'j).
  Qed.

  Lemma buf_shrink t K : buf t K = buf t.+1 K *m Dsel t K.
  Proof.
    apply/matrixP => i j; rewrite [RHS]mxE.
    rewrite (eq_bigr (fun a : 'I_K =>
       ((if (a < t.+1)%N then xcol X i (nth 0%N sel a) else 0) * (a < t)%N%:R)
       * ((a : nat) == j)%:R)); last first.
      by move=> a _; rewrite !mxE andbC -mulnb natrM mulrA.
    rewrite sum_pick [LHS]mxE valK.
    case: ltnP => jt; last by rewrite mulr0.
    by rewrite (ltn_trans jt (ltnSn t)) mulr1.
  Qed.

  (* z is the least-squares residual of y0 on the first t selected columns *)
  Definition lsq (t : nat) (z : 'M[F]_(n, p)) : Prop :=
    (buf t t)^T *m z = 0 /\ exists b : 'M[F]_(t, p), y0 - z = buf t t *m b.

  Lemma lsq0 : lsq 0 y0.
  Proof.
    split; first exact: flatmx0.
    by exists 0; rewrite subrr mulmx0.
  Qed.

  Lemma lsq_unique t z z' : lsq t z -> lsq t z' -> z = z'.
  Proof.
    move=> [Hz [b Hb]] [Hz' [b' Hb']].
    apply/eqP; rewrite -subr_eq0; apply/eqP; apply: mulTmx_eq0.
    have E : z - z' = buf t t *m (b' - b).
      by rewrite mulmxBr -Hb -Hb' opprB [RHS]addrC addrA subrK.
    by rewrite {1}E trmx_mul -mulmxA mulmxBr Hz Hz' subrr mulmx0.
  Qed.

  Lemma lsq_step t K (V : 'M[F]_K) z :
    (t < K)%N ->
    let Xs := buf t.+1 K in
    Xs^T *m Xs *m V *m (Xs^T *m Xs) = Xs^T *m Xs -> V^T = V ->
    (exists b : 'M[F]_(t, p), y0 - z = buf t t *m b) ->
    lsq t.+1 (z - Xs *m V *m Xs^T *m z).
  Proof.
    move=> tK Xs H1 H2 [b Hb]; split.
    - have := ginv_normal H1 H2 z; rewrite -!mulmxA => N.
      by rewrite (buf_resize t.+1 tK) -/Xs trmx_mul -!mulmxA N mulmx0.
    - have E1 : buf t t = buf t.+1 t.+1 *m (Dsel t t.+1 *m Esel t.+1 t).
        by rewrite mulmxA -buf_shrink -buf_resize.
      have E2 : Xs = buf t.+1 t.+1 *m Esel t.+1 K by rewrite -buf_resize.
      exists (Dsel t t.+1 *m Esel t.+1 t *m b + Esel t.+1 K *m (V *m Xs^T *m z)).
      have -> : y0 - (z - Xs *m V *m Xs^T *m z) = buf t t *m b + Xs *m (V *m Xs^T *m z).
        by rewrite opprB addrA [y0 + _]addrC -addrA Hb addrC !mulmxA.
      by rewrite {1}E1 {1}E2 mulmxDr !mulmxA.
  Qed.

  (* ---- the fold ---------------------------------------------------------------------------- *)
  Definition hint_ok (t : nat) (h : hintV F) : Prop :=
    let: existT K V := h in
    [/\ (t < K)%N,
        eval_mx (yfeat_env_mx y0 (buf t.+1 K) V) (yf_h1 n K) = 0
      & eval_mx (yfeat_env_mx y0 (buf t.+1 K) V) (yf_h2 K) = 0].
  Fixpoint hints_ok (t : nat) (hs : seq (hintV F)) : Prop :=
    match hs with
    | [::] => True
    | h :: hs' => hint_ok t h /\ hints_ok t.+1 hs'
    end.

  Theorem y_feature_fold hs : forall t z,
    (exists b : 'M[F]_(t, p), y0 - z = buf t t *m b) ->
    hints_ok t hs ->
    let z' := yfeat_fold_mx X sel t hs z in
    if hs is [::] then z' = z else lsq (t + size hs) z'.
  Proof.
    elim: hs => [|[K V] hs IH] t z Hz; first by [].
    case=> [[tK h1 h2] Hhs].
    move: h1 h2; rewrite yf_h1_formula yf_h2_formula.
    move/eqP; rewrite subr_eq0 => /eqP h1 /eqP; rewrite subr_eq0 => /eqP h2.
    have L := lsq_step tK h1 h2 Hz.
    have := IH t.+1 _ (proj2 L) Hhs.
    rewrite /= yfeat_env_y yfeat_env_Xs yfeat_env_V addSnnS.
    case: hs {IH Hhs} => [|h hs] /=; first by move=> _; rewrite addn1.
    by apply.
  Qed.
End YFeature.

Section YFeatureThm.
  Variable F : rcfType.
  Variables n m p : nat.
  Variables (X : 'M[F]_(n, m)) (sel : seq nat) (y0 : 'M[F]_(n, p)).
  Local Notation buf := (buf_mx X sel).

  Lemma lsq_formula t (V' : 'M[F]_t) :
    let Xt := buf t t in
    Xt^T *m Xt *m V' *m (Xt^T *m Xt) = Xt^T *m Xt -> V'^T = V' ->
    lsq X sel y0 t (y0 - Xt *m V' *m Xt^T *m y0).
  Proof.
    move=> Xt H1 H2; split; first exact: (ginv_normal H1 H2).
    by exists (V' *m Xt^T *m y0); rewrite opprB addrC subrK !mulmxA.
  Qed.

  (* C07_y_feature: whatever the buffer widths K_s >= s and the (symmetric, generalised) inverses
     handed back by pinv, the folded result is THE least-squares residual of y on the selected
     columns; in particular it equals y - Xs (Xs^T Xs)^+ Xs^T y for the unpadded block Xs. *)
  Theorem y_feature (hs : seq (hintV F)) :
    hints_ok X sel y0 0 hs ->
    let T := size hs in
    let z := yfeat_fold_mx X sel 0 hs y0 in
    lsq X sel y0 T z /\
    forall V' : 'M[F]_T,
      (buf T T)^T *m buf T T *m V' *m ((buf T T)^T *m buf T T) = (buf T T)^T *m buf T T ->
      V'^T = V' -> z = y0 - buf T T *m V' *m (buf T T)^T *m y0.
  Proof.
    move=> Hhs T z.
    have L : lsq X sel y0 T z.
      have H0 : exists b : 'M[F]_(0, p), y0 - y0 = buf 0 0 *m b by exists 0; rewrite subrr mulmx0.
      have := y_feature_fold H0 Hhs; rewrite /z /T.
      by case: (hs) => [|h hs'] /=; [move=> _; exact: lsq0|rewrite add0n].
    split=> // V' H1 H2; exact: (lsq_unique L (lsq_formula H1 H2)).
  Qed.
End YFeatureThm.

(* ==== Y_sample_orthogonalizer ================================================================= *)
Section YSample.
  Variable F : rcfType.
  Variables n m p t : nat.
  Variables (X : 'M[F]_(n, m)) (y : 'M[F]_(n, p)).
  Variables (Xr : 'M[F]_(t, m)) (Yr : 'M[F]_(t, p)).

  Section Env.
    Variables (W : 'M[F]_(m, p)) (Z : 'M[F]_(t, p)).
    Let env := ysamp_env_mx X y W Xr Yr Z.
    Lemma ysamp_env_X : env n m uX = X. Proof. by rewrite /env /ysamp_env_mx eqxx inj_mxE. Qed.
    Lemma ysamp_env_y : env n p uY = y. Proof. by rewrite /env /ysamp_env_mx /= inj_mxE. Qed.
    Lemma ysamp_env_W : env m p uW = W. Proof. by rewrite /env /ysamp_env_mx /= inj_mxE. Qed.
    Lemma ysamp_env_Xr : env t m uXr = Xr. Proof. by rewrite /env /ysamp_env_mx /= inj_mxE. Qed.
    Lemma ysamp_env_Yr : env t p uYr = Yr. Proof. by rewrite /env /ysamp_env_mx /= inj_mxE. Qed.
    Lemma ysamp_env_Z : env t p uZ = Z. Proof. by rewrite /env /ysamp_env_mx /= inj_mxE. Qed.

    Lemma ysamp_formula : eval_mx env (ysamp_prog n m p) = y - X *m W.
    Proof. by rewrite /= ysamp_env_X ysamp_env_y ysamp_env_W. Qed.
    Lemma ys_h1_formula : eval_mx env (ys_h1 m p t) = Xr^T *m (Xr *m W) - Xr^T *m Yr.
    Proof. by rewrite /= ysamp_env_Xr ysamp_env_Yr ysamp_env_W. Qed.
    Lemma ys_h2_formula : eval_mx env (ys_h2 m p t) = W - Xr^T *m Z.
    Proof. by rewrite /= ysamp_env_Xr ysamp_env_Z ysamp_env_W. Qed.
  End Env.

  (* the oracle's hypotheses: least squares on the selected samples, minimum norm *)
  Definition lstsq_ok (W : 'M[F]_(m, p)) (Z : 'M[F]_(t, p)) : Prop :=
    eval_mx (ysamp_env_mx X y W Xr Yr Z) (ys_h1 m p t) = 0 /\
    eval_mx (ysamp_env_mx X y W Xr Yr Z) (ys_h2 m p t) = 0.

  Lemma lstsq_okP W Z : lstsq_ok W Z <-> Xr^T *m (Xr *m W) = Xr^T *m Yr /\ W = Xr^T *m Z.
  Proof.
    rewrite /lstsq_ok ys_h1_formula ys_h2_formula.
    by split=> [[/eqP + /eqP]|[-> {1}->]]; rewrite ?subrr // !subr_eq0 => /eqP -> /eqP.
  Qed.

  (* the hypotheses determine W: y_current_ is a function of (X, y, selected samples) only *)
  Lemma lstsq_unique W Z W' Z' : lstsq_ok W Z -> lstsq_ok W' Z' -> W = W'.
  Proof.
    move=> /lstsq_okP [N1 M1] /lstsq_okP [N2 M2].
    apply/eqP; rewrite -subr_eq0; apply/eqP; apply: mulTmx_eq0.
    have R0 : Xr *m (W - W') = 0.
      apply: mulTmx_eq0; rewrite trmx_mul -mulmxA [Xr^T *m _]mulmxA.
      by rewrite -[Xr^T *m Xr *m _]mulmxA !mulmxBr N1 N2 subrr.
    by rewrite {1}M1 {1}M2 -mulmxBr trmx_mul trmxK -mulmxA R0 mulmx0.
  Qed.

  (* C07_y_sample *)
  Theorem y_sample W Z :
    lstsq_ok W Z ->
    let ycur := eval_mx (ysamp_env_mx X y W Xr Yr Z) (ysamp_prog n m p) in
    [/\ ycur = y - X *m W,
        Xr^T *m (Yr - Xr *m W) = 0
      & Xr *m Xr^T \in unitmx -> Yr - Xr *m W = 0].
  Proof.
    move=> /lstsq_okP [N1 M1] ycur; split; first exact: ysamp_formula.
    - by rewrite mulmxBr N1 subrr.
    - move=> U; have : Xr *m Xr^T *m (Yr - Xr *m W) = 0.
        by rewrite -mulmxA mulmxBr N1 subrr mulmx0.
      by move/(congr1 (mulmx (invmx (Xr *m Xr^T)))); rewrite mulKmx // mulmx0.
  Qed.
End YSample.

(* rows of the residual at the selected samples: (y - X W)[sel] = y[sel] - X[sel] W *)
Section Rows.
  Variable F : rcfType.
  Lemma rows_mx_resid n m p (X : 'M[F]_(n, m)) (y : 'M[F]_(n, p)) (W : 'M[F]_(m, p)) sel t :
    rows_mx (y - X *m W) sel t = rows_mx y sel t - rows_mx X sel t *m W.
  Proof.
    apply/matrixP => i j; rewrite !mxE.
    rewrite (eq_bigr (fun l => xrow X (nth 0%N sel i) l * W l j)); last first.
      by move=> l _; rewrite mxE.
    rewrite /xrow; case: insub => [q'|]; first by rewrite !mxE.
    by rewrite big1 ?subr0 // => l _; rewrite mul0r.
  Qed.
End Rows.

(* ==== importance score ========================================================================= *)
Section Pi.
  Variable F : rcfType.
  Variable N : nat.
  Implicit Types (V : 'M[F]_N) (d : 'cV[F]_N).

  Lemma pi_env_V V d : pi_env_mx V d N N uVV = V.
  Proof. by rewrite /pi_env_mx eqxx inj_mxE. Qed.
  Lemma pi_env_d V d : pi_env_mx V d N 1%N uD = d.
  Proof. by rewrite /pi_env_mx /= inj_mxE. Qed.

  (* the leverage score as the code computes it: (U ** 2) summed over the selected columns *)
  Lemma pi_formula V d :
    eval_mx (pi_env_mx V d) (pi_prog N) = \col_i \sum_j V i j ^+ 2 * d j ord0.
  Proof.
    rewrite /= pi_env_V pi_env_d; apply/matrixP => i j; rewrite !mxE ord1.
    by apply: eq_bigr => l _; rewrite !mxE expr2.
  Qed.

  Lemma pi_diag V d i :
    eval_mx (pi_env_mx V d) (pi_prog N) i ord0 = (V *m diag_mx d^T *m V^T) i i.
  Proof.
    rewrite pi_formula !mxE; apply: eq_bigr => l _.
    by rewrite mul_mx_diag !mxE expr2 mulrAC.
  Qed.

  (* C07_pi_basis_independent: pi depends on the eigenvector matrix only through V D V^T, which for
     the 0/1 vector d_k is the orthogonal projector V_k V_k^T on the leading k-dimensional
     eigenspace (lemma [topk_projector]) *)
  Theorem pi_basis_independent V V' d :
    V *m diag_mx d^T *m V^T = V' *m diag_mx d^T *m V'^T ->
    eval_mx (pi_env_mx V d) (pi_prog N) = eval_mx (pi_env_mx V' d) (pi_prog N).
  Proof.
    by move=> H; apply/matrixP => i j; rewrite ord1 !pi_diag H.
  Qed.

  Lemma topk_projector V k :
    let Vk : 'M[F]_(N, k) := V *m Esel F N k in
    V *m diag_mx (dk_mx F N k)^T *m V^T = Vk *m Vk^T.
  Proof.
    move=> Vk; rewrite /Vk trmx_mul !mulmxA -[V *m Esel F N k *m _]mulmxA; congr (_ *m _ *m _).
    apply/matrixP => a b; rewrite !mxE.
    rewrite (eq_bigr (fun c : 'I_k => ((b : nat) == c)%:R * ((c : nat) == a)%:R)); last first.
      by move=> c _; rewrite !mxE mulrC [(a : nat) == c]eq_sym.
    rewrite sum_pick; case: insubP => [a' ak ->|]; rewrite ?ak.
    - by rewrite -val_eqE /= [(b : nat) == a]eq_sym; case: eqP => //= _; rewrite ?mulr1n ?mulr0n.
    - by rewrite -leqNgt leqNgt => /negbTE ->; rewrite mul0rn.
  Qed.

  (* pi_j = (V_k V_k^T)_jj *)
  Corollary pi_topk V k i :
    eval_mx (pi_env_mx V (dk_mx F N k)) (pi_prog N) i ord0
    = ((V *m Esel F N k) *m (V *m Esel F N k)^T) i i.
  Proof. by rewrite pi_diag topk_projector. Qed.
End Pi.

(* ==== the matrices whose leading eigenvectors are used ======================================= *)
Section ScoreMat.
  Variable F : rcfType.
  Variables n m p : nat.

  (* singular vectors are eigenvectors of the Gram / covariance matrix: if X = U diag(s) V^T with
     orthonormal columns in U and V then (X X^T) U = U diag(s)^2 and (X^T X) V = V diag(s)^2 *)
  Lemma svd_gram k (X : 'M[F]_(n, m)) (U : 'M[F]_(n, k)) (V : 'M[F]_(m, k)) (s : 'rV[F]_k) :
    X = U *m diag_mx s *m V^T -> U^T *m U = 1%:M -> V^T *m V = 1%:M ->
    (X *m X^T) *m U = U *m (diag_mx s *m diag_mx s) /\
    (X^T *m X) *m V = V *m (diag_mx s *m diag_mx s).
  Proof.
    move=> -> HU HV; rewrite !trmx_mul trmxK tr_diag_mx; split.
    - rewrite -!mulmxA [V^T *m (V *m _)]mulmxA HV mul1mx.
      by rewrite [U^T *m U]HU mulmx1.
    - rewrite -!mulmxA [U^T *m (U *m _)]mulmxA HU mul1mx.
      by rewrite [V^T *m V]HV mulmx1.
  Qed.

  Variable env : env_mx F.
  Local Notation X := (env n m vX).

  Lemma gram_formula : eval_mx env (gram_prog n m) = X *m X^T.
  Proof. by []. Qed.

  Lemma sc_oma_eval1 : (eval_mx env sc_oma) ord0 ord0 = 1 - env 1%N 1%N va ord0 ord0.
  Proof. by rewrite /= !mxE /= mulr1n. Qed.

  (* C07_mixing_one: with mixing = 1 PCov-CUR decomposes the same matrices as CUR *)
  Theorem mixing_one :
    env 1%N 1%N va ord0 ord0 = 1 ->
    eval_mx env (kern_prog n m p) = eval_mx env (gram_prog n m) /\
    eval_mx env (cov_prog n m p) = eval_mx env (xtx_prog n m).
  Proof.
    move=> a1; split.
    - rewrite /kern_prog; set A := MMul _ _; set B := MMul _ _.
      have -> : eval_mx env (MAdd A B) = eval_mx env A + eval_mx env B by [].
      rewrite /A /B.
      have -> : eval_mx env (MMul (MScale sc_oma (eYh n p)) (MTr (eYh n p)))
                = ((eval_mx env sc_oma) ord0 ord0 *: env n p vYh) *m (env n p vYh)^T by [].
      have -> : eval_mx env (MMul (MScale sc_a (eX n m)) (MTr (eX n m)))
                = (env 1%N 1%N va ord0 ord0 *: X) *m X^T by [].
      by rewrite sc_oma_eval1 a1 subrr scale0r mul0mx add0r scale1r.
    - rewrite /cov_prog; set A := MMul _ _.
      have -> : eval_mx env (MAdd (MScale sc_oma A) (MScale sc_a (xtx_prog n m)))
                = (eval_mx env sc_oma) ord0 ord0 *: eval_mx env A
                  + env 1%N 1%N va ord0 ord0 *: eval_mx env (xtx_prog n m) by [].
      by rewrite sc_oma_eval1 a1 subrr scale0r add0r scale1r.
  Qed.
End ScoreMat.

(* ==== duality: sample CUR on X is feature CUR on X^T ========================================= *)
Section Duality.
  Variable F : rcfType.
  Variables n m : nat.

  (* environments that hold X resp. X^T as variable vX *)
  Definition envX (X : 'M[F]_(n, m)) : env_mx F := fun a b x => if x == vX then inj_mx a b X else 0.
  Definition envXt (X : 'M[F]_(n, m)) : env_mx F := fun a b x => if x == vX then inj_mx a b X^T else 0.

  Theorem duality (tol : F) (X : 'M[F]_(n, m)) (sel : seq 'I_n) :
    (* the residuals are transposes of each other *)
    resid_samp_mx tol X sel = (resid_feat_mx tol X^T sel)^T /\
    (* and the matrix decomposed by sample CUR on any X is the one feature CUR decomposes on X^T *)
    (forall Y : 'M[F]_(n, m),
       eval_mx (envX Y) (gram_prog n m) = eval_mx (envXt Y) (xtx_prog m n)).
  Proof.
    split=> // Y.
    by rewrite /= /envX /envXt /= !inj_mxE trmxK.
  Qed.
End Duality.

Section Restate.
  Variable F : rcfType.

  Lemma step_formula_full (r c : nat) (X : 'M[F]_(r, c)) (tol : F) (j : 'I_c) :
    0 < tol -> tol <= pivot_norm_mx X j ->
    let nu := Num.sqrt (((col j X)^T *m col j X) ord0 ord0) in
    let u := nu^-1 *: col j X in
    [/\ pivot_norm_mx X j = nu, u^T *m u = 1%:M
      & orth_step_mx tol X j = X - u *m (u^T *m X)].
  Proof.
    move=> tpos Hn nu u.
    have [E npos] := step_formula tpos Hn.
    split; [exact: norm_formula|exact: unit_pivot|exact: E].
  Qed.

  Lemma pi_projector_diagonal (N : nat) (V : 'M[F]_N) (k : nat) (i : 'I_N) :
    let Vk : 'M[F]_(N, k) := V *m Esel F N k in
    eval_mx (pi_env_mx V (dk_mx F N k)) (pi_prog N) i ord0 = (Vk *m Vk^T) i i /\
    V *m diag_mx (dk_mx F N k)^T *m V^T = Vk *m Vk^T.
  Proof. move=> Vk; split; [exact: pi_topk|exact: topk_projector]. Qed.
End Restate.

(* ==== the leading spectral projector does not depend on the eigenbasis ======================= *)
Section ConjProjector.
  Variable F : rcfType.
  Lemma conj_projector N (V V' Q D : 'M[F]_N) :
    V' = V *m Q -> Q *m D = D *m Q -> Q *m Q^T = 1%:M ->
    V *m D *m V^T = V' *m D *m V'^T.
  Proof.
    move=> -> C QQ; rewrite trmx_mul !mulmxA -[V *m Q *m D]mulmxA C !mulmxA.
    by rewrite -[_ *m Q *m Q^T]mulmxA QQ mulmx1.
  Qed.
End ConjProjector.

Section SpectralProjector.
  Variable F : rcfType.
  Variable N : nat.
  Variables (M V V' : 'M[F]_N) (lam : 'cV[F]_N) (k : nat).
  Hypothesis Msym : M^T = M.
  Hypothesis VO : V^T *m V = 1%:M.
  Hypothesis VO' : V'^T *m V' = 1%:M.
  Hypothesis VE : M *m V = V *m diag_mx lam^T.
  Hypothesis VE' : M *m V' = V' *m diag_mx lam^T.
  (* eigenvalues decreasing, with a gap between position k-1 and position k *)
  Hypothesis gap : forall i j : 'I_N, (i < k)%N -> (k <= j)%N -> lam j ord0 < lam i ord0.

  Let Q := V^T *m V'.
  Let D : 'M[F]_N := diag_mx (dk_mx F N k)^T.

  Lemma sp_commute : diag_mx lam^T *m Q = Q *m diag_mx lam^T.
  Proof.
    rewrite /Q mulmxA -[diag_mx _ *m V^T]trmxK trmx_mul trmxK tr_diag_mx -VE.
    by rewrite trmx_mul Msym -!mulmxA VE'.
  Qed.

  Lemma sp_block (i j : 'I_N) : ((i < k)%N != (j < k)%N) -> Q i j = 0.
  Proof.
    move=> Hij.
    have /matrixP/(_ i j) := sp_commute; rewrite mul_diag_mx mul_mx_diag [LHS]mxE [RHS]mxE.
    rewrite !(mxE _ (fun _ _ => lam _ _)) => E.
    have {E} E : (lam i ord0 - lam j ord0) * Q i j = 0 by rewrite mulrBl E mulrC subrr.
    move/eqP: E; rewrite mulf_eq0 => /orP [|/eqP //]; rewrite subr_eq0 => /eqP E.
    case: (ltnP i k) Hij => ik; case: (ltnP j k) => jk //= _.
    - by have := gap ik jk; rewrite E ltxx.
    - by have := gap jk ik; rewrite E ltxx.
  Qed.

  Lemma sp_QD : Q *m D = D *m Q.
  Proof.
    apply/matrixP => i j; rewrite mul_mx_diag mul_diag_mx [LHS]mxE [RHS]mxE.
    have dE (a : 'I_N) : (dk_mx F N k)^T ord0 a = if (a < k)%N then 1 else 0 by rewrite !mxE.
    rewrite !dE.
    case: (boolP ((i < k)%N == (j < k)%N)) => [/eqP ->|Hij]; first by rewrite mulrC.
    by rewrite (sp_block Hij) mulr0 mul0r.
  Qed.

  (* V D_k V^T = V' D_k V'^T *)
  Theorem spectral_projector_unique :
    V *m D *m V^T = V' *m D *m V'^T.
  Proof.
    have VV : V *m V^T = 1%:M by apply: mulmx1C.
    have VV' : V' *m V'^T = 1%:M by apply: mulmx1C.
    have E : V' = V *m Q by rewrite /Q mulmxA VV mul1mx.
    have QQ : Q *m Q^T = 1%:M.
      by rewrite /Q trmx_mul trmxK -mulmxA [V' *m _]mulmxA VV' mul1mx.
    exact: (conj_projector E sp_QD QQ).
  Qed.

  (* hence the importance score is the same for both decompositions *)
  Corollary pi_oracle_independent :
    eval_mx (pi_env_mx V (dk_mx F N k)) (pi_prog N)
    = eval_mx (pi_env_mx V' (dk_mx F N k)) (pi_prog N).
  Proof. exact: pi_basis_independent spectral_projector_unique. Qed.
End SpectralProjector.
