(* Lemmas about Model/MxBox.v: reading a stored matrix at its own shape returns it. *)
From mathcomp Require Import all_ssreflect all_algebra.
From Verif Require Import MExp MExpMx MxBox.
Set Implicit Arguments.
Unset Strict Implicit.
Unset Printing Implicit Defensive.
Import GRing.Theory.
Local Open Scope ring_scope.

Section BoxP.
  Variable F : rcfType.

  Lemma inj_mxE (a b : nat) (A : 'M[F]_(a, b)) : inj_mx a b A = A.
  Proof.
    rewrite /inj_mx; case: eqP => // e1; case: eqP => // e2.
    by rewrite (eq_axiomK e1) (eq_axiomK e2) castmx_id.
  Qed.

  Lemma unbox_box (a b : nat) (A : 'M[F]_(a, b)) : unbox a b (box A) = A.
  Proof. by rewrite /unbox /= inj_mxE. Qed.
End BoxP.
