(* The programs of Model/PCovR.v, interpreted by [eval_mx] over an arbitrary real closed
   field, equal the abstract matrices of Proofs/PCovRP.v (formula lemmas), and the
   theorems about the abstract matrices are transported to the programs. *)
From mathcomp Require Import all_ssreflect all_algebra.
From Verif Require Import MExp MExpMx PCovR PCovRP.
Set Implicit Arguments.
Unset Strict Implicit.
Unset Printing Implicit Defensive.
Import Order.TTheory GRing.Theory Num.Theory.
Local Open Scope ring_scope.

Section Z2F.
  Variable F : rcfType.
  Lemma Z2F_of_nat (n : nat) : Z2F F (BinInt.Z.of_nat n) = n%:R.
  Proof.
    case: n => [|n] //=.
    by rewrite Pnat.SuccNat2Pos.id_succ.
  Qed.
  Lemma Z2F_of_nat_pred (n : nat) : Z2F F (BinInt.Z.sub (BinInt.Z.of_nat n) (BinNums.Zpos BinNums.xH)) = n%:R - 1.
  Proof.
    case: n => [|n]; first by rewrite /= sub0r.
    rewrite Znat.Nat2Z.inj_succ BinInt.Z.sub_1_r BinInt.Z.pred_succ Z2F_of_nat.
    by rewrite -addn1 natrD addrK.
  Qed.
End Z2F.

Section Prog.
  Variable F : rcfType.
  Variables (n m p k : nat) (env : env_mx F).

  (* the environment, by the variable numbers of Model/PCovR.v *)
  Definition e_X : 'M[F]_(n, m) := env n m vX.
  Definition e_Y : 'M[F]_(n, p) := env n p vY.
  Definition e_Yh : 'M[F]_(n, p) := env n p vYh.
  Definition e_W : 'M[F]_(m, p) := env m p vW.
  Definition e_a : F := env 1%N 1%N va ord0 ord0.
  Definition e_tol : F := env 1%N 1%N vtol ord0 ord0.
  Definition e_UC : 'M[F]_m := env m m vUC.
  Definition e_vC : 'cV[F]_m := env m 1%N vvC.
  Definition e_Vs : 'M[F]_(n, k) := env n k vV.
  Definition e_Vf : 'M[F]_(m, k) := env m k vV.
  Definition e_S : 'cV[F]_k := env k 1%N vS.
  Definition e_Csq : 'M[F]_m := env m m vCsq.
  Definition e_Q : 'M[F]_(n, k) := env n k vQ.

  Local Notation X := e_X. Local Notation Y := e_Y. Local Notation Yh := e_Yh.
  Local Notation W := e_W. Local Notation a := e_a. Local Notation tol := e_tol.
  Local Notation UC := e_UC. Local Notation vC := e_vC. Local Notation Vs := e_Vs.
  Local Notation Vf := e_Vf. Local Notation S := e_S. Local Notation Csq := e_Csq.

  (* one-step unfolding of the interpreter *)
  Lemma eval_mul r c d (x : mexp r c) (y : mexp c d) :
    eval_mx env (MMul x y) = eval_mx env x *m eval_mx env y.
  Proof. by []. Qed.
  Lemma eval_add r c (x y : mexp r c) : eval_mx env (MAdd x y) = eval_mx env x + eval_mx env y.
  Proof. by []. Qed.
  Lemma eval_sub r c (x y : mexp r c) : eval_mx env (MSub x y) = eval_mx env x - eval_mx env y.
  Proof. by []. Qed.
  Lemma eval_scale r c (s : mexp 1 1) (x : mexp r c) :
    eval_mx env (MScale s x) = (eval_mx env s) ord0 ord0 *: eval_mx env x.
  Proof. by []. Qed.
  Lemma eval_tr r c (x : mexp r c) : eval_mx env (MTr x) = (eval_mx env x)^T.
  Proof. by []. Qed.
  Lemma eval_trace r (x : mexp r r) : eval_mx env (MTrace x) = (\tr (eval_mx env x))%:M.
  Proof. by []. Qed.

  Lemma sc_a_eval : (eval_mx env sc_a) ord0 ord0 = a.
  Proof. by []. Qed.

  Lemma sc_oma_eval : (eval_mx env sc_oma) ord0 ord0 = 1 - a.
  Proof. by rewrite /= !mxE /= mulr1n. Qed.

  Lemma sc_recip_eval (c : mexp 1 1) :
    (eval_mx env (sc_recip c)) ord0 ord0 = ((eval_mx env c) ord0 ord0)^-1.
  Proof. by rewrite /= !mxE. Qed.

  Lemma const_nat_eval (j : nat) :
    (eval_mx env (MConst (BinInt.Z.of_nat j))) ord0 ord0 = j%:R.
  Proof. by rewrite /= !mxE /= mulr1n Z2F_of_nat. Qed.

  (* ---- sample space ---------------------------------------------------------------- *)
  Lemma kern_formula : eval_mx env (kern_prog n m p) = s_Kt X Yh a.
  Proof. by rewrite /kern_prog /= sc_oma_eval. Qed.

  Lemma sisqrt_formula : eval_mx env (sisqrt_prog k) = dmap (g_isq tol) S.
  Proof. by []. Qed.

  Lemma ssqrt_formula : eval_mx env (ssqrt_prog k) = dmap (g_sq tol) S.
  Proof. by []. Qed.

  Lemma pmat_formula : eval_mx env (pmat_prog n m p) = s_P X Yh W a.
  Proof. by rewrite /pmat_prog /= sc_oma_eval. Qed.

  Lemma pxt_s_formula : eval_mx env (pxt_s n m p k) = s_pxt X Yh W a tol Vs S.
  Proof. by rewrite /pxt_s eval_mul pmat_formula. Qed.

  Lemma ptx_s_formula : eval_mx env (ptx_s n m k) = s_ptx X tol Vs S.
  Proof. by []. Qed.

  Lemma pty_s_formula : eval_mx env (pty_s n p k) = s_pty Y tol Vs S.
  Proof. by []. Qed.

  (* ---- feature space --------------------------------------------------------------- *)
  Lemma cisqrt_formula : eval_mx env (cisqrt_prog m) = f_A tol UC vC.
  Proof. by rewrite /f_A fcE. Qed.

  Lemma xtx_formula : eval_mx env (xtx_prog n m) = X^T *m X.
  Proof. by []. Qed.

  Lemma cy_formula : eval_mx env (cy_prog n m p) = f_CY X Yh tol UC vC.
  Proof. by rewrite /cy_prog eval_mul cisqrt_formula. Qed.

  Lemma cov_formula : eval_mx env (cov_prog n m p) = f_Ct X Yh a tol UC vC.
  Proof.
    by rewrite /cov_prog eval_add !eval_scale eval_mul eval_tr cy_formula sc_oma_eval.
  Qed.

  Lemma pxt_f_formula : eval_mx env (pxt_f m k) = f_pxt tol UC vC Vf S.
  Proof. by rewrite /pxt_f 2!eval_mul cisqrt_formula. Qed.

  Lemma ptx_f_formula : eval_mx env (ptx_f m k) = f_ptx tol Vf S Csq.
  Proof. by []. Qed.

  Lemma pty_f_formula : eval_mx env (pty_f n m p k) = f_pty X Y tol UC vC Vf S.
  Proof. by rewrite /pty_f 3!eval_mul cisqrt_formula. Qed.

  (* ---- space dispatch and the fitted estimator --------------------------------------- *)
  Definition pxt_of (sp : bool) : 'M[F]_(m, k) :=
    if sp then s_pxt X Yh W a tol Vs S else f_pxt tol UC vC Vf S.
  Definition ptx_of (sp : bool) : 'M[F]_(k, m) :=
    if sp then s_ptx X tol Vs S else f_ptx tol Vf S Csq.
  Definition pty_of (sp : bool) : 'M[F]_(k, p) :=
    if sp then s_pty Y tol Vs S else f_pty X Y tol UC vC Vf S.

  Lemma pxt_formula sp : eval_mx env (pxt_prog n m p k sp) = pxt_of sp.
  Proof. by case: sp; rewrite /pxt_prog ?pxt_s_formula ?pxt_f_formula. Qed.
  Lemma ptx_formula sp : eval_mx env (ptx_prog n m k sp) = ptx_of sp.
  Proof. by case: sp. Qed.
  Lemma pty_formula sp : eval_mx env (pty_prog n m p k sp) = pty_of sp.
  Proof. by case: sp; rewrite /pty_prog ?pty_s_formula ?pty_f_formula. Qed.

  Lemma pxy_formula sp : eval_mx env (pxy_prog n m p k sp) = pxt_of sp *m pty_of sp.
  Proof. by rewrite /pxy_prog eval_mul pxt_formula pty_formula. Qed.

  (* mean_ = np.mean(X, axis=0) *)
  Definition e_mean : 'rV[F]_m := n%:R^-1 *: (const_mx 1 *m X).

  Lemma mean_formula : eval_mx env (mean_prog n m) = e_mean.
  Proof. by rewrite /mean_prog eval_scale sc_recip_eval const_nat_eval. Qed.

  Section NewData.
    Variables (q : nat) (sp : bool).

    Lemma transform_formula (Z : mexp q m) :
      eval_mx env (transform_prog n m p k sp Z)
      = eval_mx env Z *m pxt_of sp - const_mx 1 *m (e_mean *m pxt_of sp).
    Proof.
      by rewrite /transform_prog eval_sub 3!eval_mul pxt_formula mean_formula.
    Qed.

    Lemma inverse_formula (T : mexp q k) :
      eval_mx env (inverse_prog n m k sp T) = eval_mx env T *m ptx_of sp.
    Proof. by rewrite /inverse_prog eval_mul ptx_formula. Qed.

    Lemma predict_x_formula (Z : mexp q m) :
      eval_mx env (predict_x_prog n m p k sp Z) = eval_mx env Z *m (pxt_of sp *m pty_of sp).
    Proof. by rewrite /predict_x_prog eval_mul pxy_formula. Qed.

    Lemma predict_t_formula (T : mexp q k) :
      eval_mx env (predict_t_prog n m p k sp T) = eval_mx env T *m pty_of sp.
    Proof. by rewrite /predict_t_prog eval_mul pty_formula. Qed.
  End NewData.

  (* ---- oracle post-conditions (hypotheses of the theorems; residuals at run time) ----- *)
  (* the regressor's contract *)
  Definition regressor_contract : Prop := Yh = X *m W.
  (* training data centred: column sums vanish *)
  Definition centred : Prop := (const_mx 1 : 'rV[F]_n) *m X = 0.
  (* eigh(X^T X): orthonormal eigenvectors; what rcond discards is exactly zero *)
  Definition eigh_oracle : Prop :=
    [/\ UC^T *m UC = 1%:M,
        eval_mx env (xtx_prog n m) *m UC = UC *m diag_mx vC^T
      & forall i, vC i 0 <= tol -> vC i 0 = 0].
  (* lstsq(C^-1/2, I): the Moore-Penrose inverse *)
  Definition lstsq_oracle : Prop := penrose (eval_mx env (cisqrt_prog m)) Csq.
  (* svd of the modified matrix, truncated to k components *)
  Definition svd_oracle_sample : Prop :=
    Vs^T *m Vs = 1%:M /\ eval_mx env (kern_prog n m p) *m Vs = Vs *m diag_mx S^T.
  Definition svd_oracle_feature : Prop :=
    Vf^T *m Vf = 1%:M /\ eval_mx env (cov_prog n m p) *m Vf = Vf *m diag_mx S^T.

  (* all oracle hypotheses of a fit in the given space *)
  Definition fit_oracle (sp : bool) : Prop :=
    if sp then [/\ 0 <= tol, regressor_contract & svd_oracle_sample]
    else [/\ 0 <= tol, eigh_oracle, lstsq_oracle & svd_oracle_feature].

  (* mask of the retained components: 1 if S_i > tol else 0, as a diagonal matrix *)
  Definition retained_mask : 'M[F]_k := dmap (g_mk tol) S.

  Lemma sqnorm_formula r c (A : mexp r c) :
    (eval_mx env (sqnorm A)) ord0 ord0 = \tr ((eval_mx env A)^T *m eval_mx env A).
  Proof. by rewrite /sqnorm eval_trace eval_mul eval_tr mxE eqxx mulr1n. Qed.
End Prog.
