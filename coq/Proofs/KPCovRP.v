(* C05 — proofs about the KernelPCovR programs of Model/KPCovR.v, interpreted over an arbitrary
   real closed field by MExpMx.eval_mx.  ssreflect / mathcomp style. *)
From mathcomp Require Import all_ssreflect all_algebra.
From Verif Require Import MExp MExpMx KPCovR.
Set Implicit Arguments.
Unset Strict Implicit.
Unset Printing Implicit Defensive.
Import Order.TTheory GRing.Theory Num.Theory.
Local Open Scope ring_scope.

(* ---- generic facts about the interpreter ------------------------------------------------------ *)
Section Generic.
  Variable F : rcfType.
  Implicit Types env : env_mx F.

  Lemma eval_mx_ext env1 env2 m n (e : mexp m n) :
    (forall a b x, env1 a b x = env2 a b x) -> eval_mx env1 e = eval_mx env2 e.
  Proof.
    move=> H; elim: e => //=.
    - by move=> a b e1 -> e2 ->.
    - by move=> a b e1 -> e2 ->.
    - by move=> a b c e1 -> e2 ->.
    - by move=> a b e1 -> e2 ->.
    - by move=> a b e1 ->.
    - by move=> a e1 ->.
    - by move=> a e1 ->.
    - by move=> a b f e1 -> e2 ->.
    - by move=> a b e1 -> e2 ->.
    - by move=> a e1 ->.
  Qed.

  (* semantic substitution: running a program whose variables were replaced by expressions is
     running the program in the environment that holds the values of those expressions *)
  Lemma msubst_mx env (s : subst_t) m n (e : mexp m n) :
    eval_mx env (msubst s e) = eval_mx (fun a b x => eval_mx env (s a b x)) e.
  Proof.
    elim: e => //=.
    - by move=> a b e1 -> e2 ->.
    - by move=> a b e1 -> e2 ->.
    - by move=> a b c e1 -> e2 ->.
    - by move=> a b e1 -> e2 ->.
    - by move=> a b e1 ->.
    - by move=> a e1 ->.
    - by move=> a e1 ->.
    - by move=> a b f e1 -> e2 ->.
    - by move=> a b e1 -> e2 ->.
    - by move=> a e1 ->.
  Qed.

  Lemma sub1_same x m0 n0 (e0 : mexp m0 n0) rest : sub1 x m0 n0 e0 rest m0 n0 x = e0.
  Proof.
    rewrite /sub1; case: (PeanoNat.Nat.eq_dec m0 m0) => [em|]; last by [].
    case: (PeanoNat.Nat.eq_dec n0 n0) => [en|]; last by [].
    rewrite PeanoNat.Nat.eqb_refl.
    have -> : em = erefl by apply: Eqdep_dec.UIP_dec; apply: PeanoNat.Nat.eq_dec.
    by have -> : en = erefl by apply: Eqdep_dec.UIP_dec; apply: PeanoNat.Nat.eq_dec.
  Qed.

  Lemma sub1_other_var x m0 n0 (e0 : mexp m0 n0) rest a b y :
    PeanoNat.Nat.eqb x y = false -> sub1 x m0 n0 e0 rest a b y = rest a b y.
  Proof.
    by rewrite /sub1 => ->; case: (PeanoNat.Nat.eq_dec m0 a) => // ?; case: (PeanoNat.Nat.eq_dec n0 b).
  Qed.

  Lemma sub1_other_shape x m0 n0 (e0 : mexp m0 n0) rest a b y :
    ~ (m0 = a /\ n0 = b) -> sub1 x m0 n0 e0 rest a b y = rest a b y.
  Proof.
    rewrite /sub1 => H; case: (PeanoNat.Nat.eq_dec m0 a) => // ea.
    by case: (PeanoNat.Nat.eq_dec n0 b) => // eb; case: H.
  Qed.

  Lemma Z2F_nat (n : nat) : Z2F F (BinInt.Z.of_nat n) = n%:R.
  Proof.
    case: n => [|n] //=.
    by rewrite Pnat.SuccNat2Pos.id_succ.
  Qed.
End Generic.

(* ---- Moore-Penrose inverses ------------------------------------------------------------------- *)
Section Penrose.
  Variable F : rcfType.

  Definition penrose m n (A : 'M[F]_(m, n)) (X : 'M[F]_(n, m)) : Prop :=
    [/\ A *m X *m A = A, X *m A *m X = X, (A *m X)^T = A *m X & (X *m A)^T = X *m A].

  Lemma penrose_uniq m n (A : 'M[F]_(m, n)) X Y : penrose A X -> penrose A Y -> X = Y.
  Proof.
    move=> [x1 x2 x3 x4] [y1 y2 y3 y4].
    have e1 : X *m A = Y *m A.
      transitivity ((Y *m A *m (X *m A))^T).
        by rewrite trmx_mul x4 y4 -mulmxA [A *m (Y *m A)]mulmxA y1.
      by rewrite -mulmxA [A *m (X *m A)]mulmxA x1 y4.
    have e2 : A *m X = A *m Y.
      transitivity ((A *m X *m (A *m Y))^T).
        by rewrite trmx_mul y3 x3 mulmxA y1.
      by rewrite mulmxA x1 y3.
    by rewrite -x2 e1 -mulmxA e2 mulmxA y2.
  Qed.

  Lemma penrose_sym n (A G : 'M[F]_n) : A^T = A -> penrose A G -> G^T = G.
  Proof.
    move=> sA [g1 g2 g3 g4]; apply: (@penrose_uniq _ _ A) => //; split.
    - by rewrite -{1 2}sA -!trmx_mul mulmxA g1.
    - by rewrite -{1}sA -!trmx_mul mulmxA g2.
    - by rewrite trmx_mul trmxK sA -g4 trmx_mul sA.
    - by rewrite trmx_mul trmxK sA -g3 trmx_mul sA.
  Qed.
End Penrose.

(* ---- the fit programs ------------------------------------------------------------------------- *)
Section FitFormulas.
  Variable F : rcfType.
  Variables (n p k : nat) (env : env_mx F).
  Let K : 'M[F]_n := env n n vK.
  Let Yh : 'M[F]_(n, p) := env n p vYh.
  Let W : 'M[F]_(n, p) := env n p vW.
  Let a : F := (env 1%N 1%N va) ord0 ord0.
  Let V : 'M[F]_(n, k) := env n k vV.
  Let S : 'cV[F]_k := env k 1%N vS.
  Let tol : F := (env 1%N 1%N vtol) ord0 ord0.
  Let Y : 'M[F]_(n, p) := env n p vY.
  Let PT : 'M[F]_(k, n) := env k n vPT.

  (* 1/sqrt with the code's guard:  sqrt (s > tol ? 1/s : 0) *)
  Definition isq (t s : F) : F := Num.sqrt (if t < s then s^-1 else 0).
  Definition Dmx : 'M[F]_k := diag_mx (\row_i isq tol (S i ord0)).

  Lemma ktilde_formula :
    eval_mx env (ktilde_prog n p) = (1 - a) *: (Yh *m Yh^T) + a *: K.
  Proof. by rewrite /= !mxE /= mulr1n. Qed.

  Lemma P_formula :
    eval_mx env (P_prog n p) = a *: 1%:M + (1 - a) *: (W *m Yh^T).
  Proof. by rewrite /= !mxE /= mulr1n. Qed.

  Lemma isqrtS_formula : eval_mx env (isqrtS_prog k) = Dmx.
  Proof.
    apply/matrixP => i j; rewrite /= !mxE /isq.
    by rewrite /sfun_mx; case: (i == j); rewrite ?mulr1n ?mulr0n ?sqrtr0.
  Qed.

  Lemma pkt_formula :
    eval_mx env (pkt_prog n p k) = (a *: 1%:M + (1 - a) *: (W *m Yh^T)) *m V *m Dmx.
  Proof.
    have -> : eval_mx env (pkt_prog n p k)
              = eval_mx env (P_prog n p) *m V *m eval_mx env (isqrtS_prog k) by [].
    by rewrite P_formula isqrtS_formula.
  Qed.

  Lemma T_formula :
    eval_mx env (T_prog n p k) = K *m ((a *: 1%:M + (1 - a) *: (W *m Yh^T)) *m V *m Dmx).
  Proof.
    have -> : eval_mx env (T_prog n p k) = K *m eval_mx env (pkt_prog n p k) by [].
    by rewrite pkt_formula.
  Qed.

  (* K P = K~ on the regressor path (Yhat = K W) *)
  Lemma KP_ktilde : Yh = K *m W ->
    K *m (a *: 1%:M + (1 - a) *: (W *m Yh^T)) = (1 - a) *: (Yh *m Yh^T) + a *: K.
  Proof.
    move=> hY; rewrite mulmxDr -!scalemxAr mulmx1 mulmxA -hY addrC.
    by [].
  Qed.

  Definition sqrtS : 'M[F]_k := diag_mx (\row_i Num.sqrt (S i ord0)).

  Lemma S_D_sqrt : 0 <= tol -> (forall i, tol < S i ord0) -> diag_mx S^T *m Dmx = sqrtS.
  Proof.
    move=> t0 hS; rewrite /Dmx /sqrtS mul_diag_mx; apply/matrixP => i j; rewrite !mxE /isq hS.
    case: (i == j); rewrite ?mulr0n ?mulr0 // !mulr1n.
    have s0 : 0 < S i ord0 by apply: le_lt_trans (hS i).
    rewrite sqrtrV ?ltW // -{1}(sqr_sqrtr (ltW s0)) expr2 -mulrA divff ?mulr1 //.
    by rewrite gt_eqF // sqrtr_gt0.
  Qed.

  (* the latent coordinates of the training set are the eigenvectors scaled by sqrt(eigenvalue) *)
  Lemma T_eigen :
    Yh = K *m W ->
    eval_mx env (ktilde_prog n p) *m V = V *m diag_mx S^T ->
    0 <= tol -> (forall i, tol < S i ord0) ->
    eval_mx env (T_prog n p k) = V *m sqrtS.
  Proof.
    move=> hY hE t0 hS; rewrite T_formula !mulmxA KP_ktilde // -ktilde_formula hE.
    by rewrite -mulmxA S_D_sqrt.
  Qed.

  (* mixing = 1: no hypothesis on the regression is needed *)
  Lemma T_eigen_a1 :
    a = 1 -> K *m V = V *m diag_mx S^T ->
    0 <= tol -> (forall i, tol < S i ord0) ->
    eval_mx env (T_prog n p k) = V *m sqrtS.
  Proof.
    move=> a1 hE t0 hS; rewrite T_formula a1 subrr scale0r addr0 scale1r mul1mx mulmxA hE.
    by rewrite -mulmxA S_D_sqrt.
  Qed.
End FitFormulas.

(* ---- pseudo-inverse of T, new data, linear kernel ---------------------------------------------- *)
Section NewDataFormulas.
  Variable F : rcfType.
  Variables (n p k v d : nat) (env : env_mx F).
  Let K : 'M[F]_n := env n n vK.
  Let Yh : 'M[F]_(n, p) := env n p vYh.
  Let W : 'M[F]_(n, p) := env n p vW.
  Let a : F := (env 1%N 1%N va) ord0 ord0.
  Let V : 'M[F]_(n, k) := env n k vV.
  Let S : 'cV[F]_k := env k 1%N vS.
  Let tol : F := (env 1%N 1%N vtol) ord0 ord0.
  Let Y : 'M[F]_(n, p) := env n p vY.
  Let PT : 'M[F]_(k, n) := env k n vPT.
  Let Kt : 'M[F]_(v, n) := env v n vKt.
  Let X : 'M[F]_(n, d) := env n d vX.
  Let Xt : 'M[F]_(v, d) := env v d vXt.
  Let Wx : 'M[F]_(d, p) := env d p vWx.

  Definition isqrtS : 'M[F]_k := diag_mx (\row_i (Num.sqrt (S i ord0))^-1).

  Lemma sqrtS_isqrtS : (forall i, 0 < S i ord0) -> sqrtS k env *m isqrtS = 1%:M.
  Proof.
    move=> hS; rewrite /sqrtS /isqrtS mul_diag_mx; apply/matrixP => i j; rewrite !mxE.
    case: (i == j); rewrite ?mulr0n ?mulr0 // !mulr1n divff //.
    by rewrite gt_eqF // sqrtr_gt0.
  Qed.

  Lemma isqrtS_sqrtS : (forall i, 0 < S i ord0) -> isqrtS *m sqrtS k env = 1%:M.
  Proof.
    move=> hS; rewrite /sqrtS /isqrtS mul_diag_mx; apply/matrixP => i j; rewrite !mxE.
    case: (i == j); rewrite ?mulr0n ?mulr0 // !mulr1n mulVf //.
    by rewrite gt_eqF // sqrtr_gt0.
  Qed.

  (* with the guard passed, the code's sqrt(1/s) is 1/sqrt(s) *)
  Lemma Dmx_isqrtS : 0 <= tol -> (forall i, tol < S i ord0) -> Dmx k env = isqrtS.
  Proof.
    move=> t0 hS; rewrite /Dmx /isqrtS; congr diag_mx; apply/rowP => i; rewrite !mxE /isq hS.
    by rewrite sqrtrV // ltW //; apply: le_lt_trans (hS i).
  Qed.

  (* the pseudo-inverse of V sqrt(S) for orthonormal V and positive S *)
  Lemma penrose_VS : V^T *m V = 1%:M -> (forall i, 0 < S i ord0) ->
    penrose (V *m sqrtS k env) (isqrtS *m V^T).
  Proof.
    move=> hV hS.
    have e1 : isqrtS *m V^T *m (V *m sqrtS k env) = 1%:M.
      by rewrite -mulmxA [V^T *m _]mulmxA hV mul1mx isqrtS_sqrtS.
    have e2 : V *m sqrtS k env *m (isqrtS *m V^T) = V *m V^T.
      by rewrite -mulmxA [sqrtS k env *m _]mulmxA sqrtS_isqrtS // mul1mx.
    split.
    - by rewrite -mulmxA e1 mulmx1.
    - by rewrite e1 mul1mx.
    - by rewrite e2 trmx_mul trmxK.
    - by rewrite e1 trmx1.
  Qed.

  (* pt__ is determined by its Penrose equations *)
  Lemma PT_value :
    Yh = K *m W ->
    eval_mx env (ktilde_prog n p) *m V = V *m diag_mx S^T ->
    V^T *m V = 1%:M -> 0 <= tol -> (forall i, tol < S i ord0) ->
    penrose (eval_mx env (T_prog n p k)) PT ->
    PT = isqrtS *m V^T.
  Proof.
    move=> hY hE hV t0 hS; rewrite T_eigen // => hP.
    apply: penrose_uniq hP _; apply: penrose_VS => // i.
    exact: le_lt_trans (hS i).
  Qed.

  Lemma transform_formula :
    eval_mx env (transform_prog n p k v)
    = Kt *m ((a *: 1%:M + (1 - a) *: (W *m Yh^T)) *m V *m Dmx k env).
  Proof.
    have -> : eval_mx env (transform_prog n p k v) = Kt *m eval_mx env (pkt_prog n p k) by [].
    by rewrite pkt_formula.
  Qed.

  Lemma predict_formula :
    eval_mx env (predict_prog n p k v)
    = Kt *m ((a *: 1%:M + (1 - a) *: (W *m Yh^T)) *m V *m Dmx k env *m (PT *m Y)).
  Proof.
    have -> : eval_mx env (predict_prog n p k v)
              = Kt *m (eval_mx env (pkt_prog n p k) *m (PT *m Y)) by [].
    by rewrite pkt_formula.
  Qed.

  (* mixing = 1: new samples are projected as in kernel PCA, K_VN V S^{-1/2} *)
  Lemma transform_a1 :
    a = 1 -> 0 <= tol -> (forall i, tol < S i ord0) ->
    eval_mx env (transform_prog n p k v) = Kt *m V *m isqrtS.
  Proof.
    move=> a1 t0 hS; rewrite transform_formula a1 subrr scale0r addr0 scale1r mul1mx.
    by rewrite Dmx_isqrtS // mulmxA.
  Qed.

  (* ---- sample-space PCovR programs ---- *)
  Definition Emx : 'M[F]_k :=
    diag_mx (\row_i (if tol < S i ord0 then (Num.sqrt (S i ord0))^-1 else 0)).

  Lemma Dmx_Emx : Dmx k env = Emx.
  Proof.
    rewrite /Dmx /Emx; congr diag_mx; apply/rowP => i; rewrite !mxE /isq.
    case: (tol < S i ord0); last by rewrite sqrtr0.
    case: (lerP 0 (S i ord0)) => h; first by rewrite sqrtrV.
    by rewrite !ler0_sqrtr ?invr0 // ?invr_le0 ltW.
  Qed.

  Lemma pc_T_formula : eval_mx env (pc_T n k) = V *m Emx.
  Proof.
    have -> : eval_mx env (pc_T n k) = V *m eval_mx env (MDiag (MMap Fisqrt_gt tl (MVar (m:=k) (n:=1) vS))) by [].
    congr (_ *m _); apply/matrixP => i j; rewrite /= !mxE /sfun_mx.
    by [].
  Qed.

  Lemma pc_P_formula :
    eval_mx env (pc_P n d p) = a *: X^T + (1 - a) *: (Wx *m Yh^T).
  Proof. by rewrite /= !mxE /= mulr1n. Qed.

  Lemma pc_ktilde_formula :
    eval_mx env (pc_ktilde n d p) = (1 - a) *: (Yh *m Yh^T) + a *: (X *m X^T).
  Proof. by rewrite /= !mxE /= mulr1n. Qed.

  Lemma pc_transform_formula :
    eval_mx env (@pc_transform n d p k v) = Xt *m ((a *: X^T + (1 - a) *: (Wx *m Yh^T)) *m (V *m Emx)).
  Proof.
    have -> : eval_mx env (@pc_transform n d p k v)
              = Xt *m (eval_mx env (pc_P n d p) *m eval_mx env (pc_T n k)) by [].
    by rewrite pc_P_formula pc_T_formula.
  Qed.

  Lemma pc_predict_formula :
    eval_mx env (@pc_predict n d p k v)
    = Xt *m ((a *: X^T + (1 - a) *: (Wx *m Yh^T)) *m (V *m Emx) *m ((V *m Emx)^T *m Y)).
  Proof.
    have -> : eval_mx env (@pc_predict n d p k v)
              = Xt *m (eval_mx env (pc_P n d p) *m eval_mx env (pc_T n k)
                       *m ((eval_mx env (pc_T n k))^T *m Y)) by [].
    by rewrite pc_P_formula pc_T_formula.
  Qed.

  (* linear kernel: K = X X^T, K_VN = X' X^T, primal weights = X^T (dual weights) *)
  Hypothesis hK : K = X *m X^T.
  Hypothesis hKt : Kt = Xt *m X^T.
  Hypothesis hWx : Wx = X^T *m W.

  Lemma linear_ktilde : eval_mx env (ktilde_prog n p) = eval_mx env (pc_ktilde n d p).
  Proof. by rewrite ktilde_formula pc_ktilde_formula -/K hK. Qed.

  Lemma linear_P : Kt *m (a *: 1%:M + (1 - a) *: (W *m Yh^T))
                   = Xt *m (a *: X^T + (1 - a) *: (Wx *m Yh^T)).
  Proof.
    rewrite hKt hWx -mulmxA; congr (_ *m _).
    by rewrite !mulmxDr -!scalemxAr mulmx1 mulmxA.
  Qed.

  (* same projection of every new sample, for the same oracle answer (V,S): no hypothesis on
     the oracle is needed *)
  Lemma linear_transform :
    eval_mx env (transform_prog n p k v) = eval_mx env (@pc_transform n d p k v).
  Proof.
    by rewrite transform_formula pc_transform_formula Dmx_Emx !mulmxA linear_P.
  Qed.

  (* same predictions: pt__ = pinv(T) is S^{-1/2} V^T, which is sample-space PCovR's T^T *)
  Lemma linear_predict :
    Yh = K *m W ->
    eval_mx env (ktilde_prog n p) *m V = V *m diag_mx S^T ->
    V^T *m V = 1%:M -> 0 <= tol -> (forall i, tol < S i ord0) ->
    penrose (eval_mx env (T_prog n p k)) PT ->
    eval_mx env (predict_prog n p k v) = eval_mx env (@pc_predict n d p k v).
  Proof.
    move=> hY hE hV t0 hS hP.
    rewrite predict_formula pc_predict_formula (PT_value hY hE hV t0 hS hP).
    rewrite -Dmx_Emx (Dmx_isqrtS t0 hS) !mulmxA linear_P.
    rewrite trmx_mul /isqrtS tr_diag_mx.
    by rewrite !mulmxA.
  Qed.
End NewDataFormulas.

(* ---- score ------------------------------------------------------------------------------------- *)
Section ScoreFormulas.
  Variable F : rcfType.
  Variables (n p k : nat) (env : env_mx F).
  Let K : 'M[F]_n := env n n vK.
  Let G : 'M[F]_k := env k k vG.
  Let tn : 'M[F]_(n, k) := eval_mx env (tn_prog n p k).

  Lemma proj_trace (t : 'M[F]_(n, k)) (G0 : 'M[F]_k) (K0 : 'M[F]_n) :
    penrose (t^T *m t) G0 ->
    let w := t *m G0 *m t^T in
    \tr (K0 - 2%:R *: (K0 *m w) + w^T *m K0 *m w) = \tr (K0 - K0 *m w).
  Proof.
    move=> hG w.
    have sG : G0^T = G0 by apply: penrose_sym hG; rewrite trmx_mul trmxK.
    have sw : w^T = w by rewrite /w !trmx_mul trmxK sG mulmxA.
    have iw : w *m w = w.
      case: hG => _ g2 _ _.
      have -> : w *m w = t *m (G0 *m (t^T *m t) *m G0) *m t^T by rewrite /w !mulmxA.
      by rewrite g2.
    rewrite sw !mxtraceD !linearN /= mxtraceZ -[w *m K0 *m w]mulmxA [\tr (w *m (K0 *m w))]mxtrace_mulC -[K0 *m w *m w]mulmxA iw.
    rewrite -addrA; congr (_ + _).
    by rewrite mulr_natl mulr2n opprD addrNK.
  Qed.

  Lemma two_val : (eval_mx env c2) ord0 ord0 = 2%:R :> F.
  Proof. by rewrite /= !mxE /= mulr1n Pnat.Pos2Nat.inj_xO. Qed.

  Lemma score_train :
    env n n vKt = K -> env n n vKvv = K ->
    penrose (tn^T *m tn) G ->
    eval_mx env (score_prog n p k n) = eval_mx env (score_train_prog n p k).
  Proof.
    move=> hKt hKvv hG.
    have ew : eval_mx env (w_prog n p k n) = tn *m G *m tn^T.
      by rewrite /tn /w_prog /tn_prog /transform_prog /= hKt.
    have ewt : eval_mx env (w_train n p k) = tn *m G *m tn^T by [].
    have el : eval_mx env (lkrr_prog n p k n) = eval_mx env (lkrr_train n p k).
      by rewrite /lkrr_prog /lkrr_train /predict_prog /= hKt.
    have -> : eval_mx env (score_prog n p k n)
      = map_mx (sfun_mx Fneg ((eval_mx env c1) ord0 ord0))
          (0 + (\tr (env n n vKvv - (eval_mx env c2) ord0 ord0 *: (env n n vKt *m eval_mx env (w_prog n p k n))
                     + (eval_mx env (w_prog n p k n))^T *m K *m eval_mx env (w_prog n p k n)))%:M
               *m map_mx (sfun_mx Frecip ((eval_mx env c1) ord0 ord0)) (\tr (env n n vKvv))%:M
             + eval_mx env (lkrr_prog n p k n)) by [].
    have -> : eval_mx env (score_train_prog n p k)
      = map_mx (sfun_mx Fneg ((eval_mx env c1) ord0 ord0))
          (0 + (\tr (K - K *m eval_mx env (w_train n p k)))%:M
               *m map_mx (sfun_mx Frecip ((eval_mx env c1) ord0 ord0)) (\tr K)%:M
             + eval_mx env (lkrr_train n p k)) by [].
    by rewrite el ew ewt hKt hKvv two_val proj_trace.
  Qed.
End ScoreFormulas.

(* ---- shapes ------------------------------------------------------------------------------------ *)
Section Shapes.
  (* a typed expression always passes the shape checker, with its own type *)
  Lemma rshape_erase m n (e : mexp m n) : rshape (erase e) = Some (m, n).
  Proof.
    elim: e => //=.
    - by move=> a b e1 -> e2 ->; rewrite /same /shape_eqb /= !PeanoNat.Nat.eqb_refl.
    - by move=> a b e1 -> e2 ->; rewrite /same /shape_eqb /= !PeanoNat.Nat.eqb_refl.
    - by move=> a b c e1 -> e2 ->; rewrite PeanoNat.Nat.eqb_refl.
    - by move=> a b e1 -> e2 ->.
    - by move=> a b e1 ->.
    - by move=> a e1 ->.
    - by move=> a e1 ->; rewrite PeanoNat.Nat.eqb_refl.
    - by move=> a b f e1 -> e2 ->.
    - by move=> a b e1 -> e2 ->; rewrite /same /shape_eqb /= !PeanoNat.Nat.eqb_refl.
    - by move=> a e1 ->; rewrite PeanoNat.Nat.eqb_refl.
  Qed.

  Variables n p k v : nat.

  (* the documented formula is the typed program *)
  Lemma raw_score_doc_typed : raw_score_doc n p k v = erase (score_prog n p k v).
  Proof. by []. Qed.

  Lemma score_doc_shapes : rshape (raw_score_doc n p k v) = Some (1%N, 1%N).
  Proof. by rewrite raw_score_doc_typed rshape_erase. Qed.

  (* the formula of the code before the repair: the product w^T K_VV w is ill-formed unless
     n_V = n_N *)
  Definition raw_score_gen (w lk B : rexp) : rexp :=
    RMap Fneg (RConst (BinNums.Zpos BinNums.xH))
      (RAdd (RAdd (RZero 1%N 1%N)
               (RMul (RTrace (RAdd (RSub (rKvv v) (RScale (RConst (BinNums.Zpos (BinNums.xO BinNums.xH))) (RMul (rKt n v) w)))
                                   (RMul (RMul (RTr w) B) w)))
                     (RMap Frecip (RConst (BinNums.Zpos BinNums.xH)) (RTrace (rKvv v)))))
            lk).

  Lemma raw_score_gen_code w lk :
    rshape w = Some (n, v) -> rshape lk = Some (1%N, 1%N) ->
    rshape (raw_score_gen w lk (rKvv v)) = if PeanoNat.Nat.eqb n v then Some (1%N, 1%N) else None.
  Proof.
    move=> hw hl; rewrite /raw_score_gen /rKvv /rKt /= hw hl /= !PeanoNat.Nat.eqb_refl /=.
    rewrite /same /shape_eqb /= !PeanoNat.Nat.eqb_refl /=.
    case E: (PeanoNat.Nat.eqb n v) => //=.
    by rewrite PeanoNat.Nat.eqb_sym E /=; do 4?[rewrite !PeanoNat.Nat.eqb_refl /=].
  Qed.

  Lemma score_code_before_fix_shapes :
    rshape (raw_score_code_before_fix n p k v) = if PeanoNat.Nat.eqb n v then Some (1%N, 1%N) else None.
  Proof.
    have -> : raw_score_code_before_fix n p k v
              = raw_score_gen (rw n p k v) (erase (lkrr_prog n p k v)) (rKvv v) by [].
    by apply: raw_score_gen_code; rewrite rshape_erase.
  Qed.
End Shapes.

(* ---- centring (KernelNormalizer) ----------------------------------------------------------------- *)
Ltac sidec := unfold vK, vKt, vKvv in *; intuition (try discriminate; try congruence).
Section Center.
  Variable F : rcfType.
  Variable n : nat.
  Let nn : F := n%:R.

  (* KernelNormalizer fitted on Kr (with_center, with_trace, no sample weights), in matrix form *)
  Definition kn_rows (Kr : 'M[F]_n) : 'rV[F]_n := nn^-1 *: (const_mx 1 *m Kr).
  Definition kn_all (Kr : 'M[F]_n) : F := nn^-1 * (kn_rows Kr *m (const_mx 1 : 'cV[F]_n)) ord0 ord0.
  Definition kn_rmeans m (M : 'M[F]_(m, n)) : 'cV[F]_m := nn^-1 *: (M *m const_mx 1).
  Definition kn_cen (Kr : 'M[F]_n) m (M : 'M[F]_(m, n)) : 'M[F]_(m, n) :=
    M - const_mx 1 *m kn_rows Kr - kn_rmeans M *m const_mx 1 + kn_all Kr *: const_mx 1.
  Definition kn_scale (Kr : 'M[F]_n) : F := nn^-1 * \tr (kn_cen Kr Kr).
  (* KernelNormalizer.transform *)
  Definition knorm_mx (Kr : 'M[F]_n) m (M : 'M[F]_(m, n)) : 'M[F]_(m, n) :=
    (kn_scale Kr)^-1 *: kn_cen Kr M.
  (* the V x V block, centred on the training means on both sides *)
  Definition knorm_vv_mx (Kr : 'M[F]_n) v (Kvn : 'M[F]_(v, n)) (Kvv : 'M[F]_v) : 'M[F]_v :=
    (kn_scale Kr)^-1 *: (Kvv - kn_rmeans Kvn *m const_mx 1 - const_mx 1 *m (kn_rmeans Kvn)^T
                         + kn_all Kr *: const_mx 1).

  Variable env : env_mx F.

  Lemma invn_val : (eval_mx env (invn n)) ord0 ord0 = nn^-1.
  Proof. by rewrite /= !mxE /= mulr1n Z2F_nat. Qed.

  Lemma kfit_rows_formula (Kr : mexp n n) :
    eval_mx env (kfit_rows n Kr) = kn_rows (eval_mx env Kr).
  Proof.
    have -> : eval_mx env (kfit_rows n Kr)
              = (eval_mx env (invn n)) ord0 ord0 *: (const_mx 1 *m eval_mx env Kr) by [].
    by rewrite invn_val.
  Qed.

  Lemma kfit_all_formula (Kr : mexp n n) :
    (eval_mx env (kfit_all n Kr)) ord0 ord0 = kn_all (eval_mx env Kr).
  Proof.
    have -> : eval_mx env (kfit_all n Kr)
              = (eval_mx env (invn n)) ord0 ord0 *: (eval_mx env (kfit_rows n Kr) *m const_mx 1) by [].
    by rewrite invn_val kfit_rows_formula mxE.
  Qed.

  Lemma rowmeans_formula m (M : mexp m n) :
    eval_mx env (rowmeans n M) = kn_rmeans (eval_mx env M).
  Proof.
    have -> : eval_mx env (rowmeans n M)
              = (eval_mx env (invn n)) ord0 ord0 *: (eval_mx env M *m const_mx 1) by [].
    by rewrite invn_val.
  Qed.

  Lemma cen_formula (Kr : mexp n n) m (M : mexp m n) :
    eval_mx env (cen n Kr M) = kn_cen (eval_mx env Kr) (eval_mx env M).
  Proof.
    have -> : eval_mx env (cen n Kr M)
              = eval_mx env M - const_mx 1 *m eval_mx env (kfit_rows n Kr)
                - eval_mx env (rowmeans n M) *m const_mx 1
                + (eval_mx env (kfit_all n Kr)) ord0 ord0 *: const_mx 1 by [].
    by rewrite kfit_rows_formula rowmeans_formula kfit_all_formula.
  Qed.

  Lemma kscale_formula (Kr : mexp n n) :
    (eval_mx env (kscale n Kr)) ord0 ord0 = kn_scale (eval_mx env Kr).
  Proof.
    have -> : eval_mx env (kscale n Kr)
              = (eval_mx env (invn n)) ord0 ord0 *: (\tr (eval_mx env (cen n Kr Kr)))%:M by [].
    by rewrite invn_val cen_formula !mxE eqxx mulr1n.
  Qed.

  Lemma knorm_formula (Kr : mexp n n) m (M : mexp m n) :
    eval_mx env (knorm n Kr M) = knorm_mx (eval_mx env Kr) (eval_mx env M).
  Proof.
    have -> : eval_mx env (knorm n Kr M)
              = (map_mx (sfun_mx Frecip ((eval_mx env c1) ord0 ord0)) (eval_mx env (kscale n Kr))) ord0 ord0
                *: eval_mx env (cen n Kr M) by [].
    by rewrite cen_formula mxE /sfun_mx kscale_formula.
  Qed.

  Lemma knorm_vv_formula (Kr : mexp n n) v (Kvn : mexp v n) (Kvv : mexp v v) :
    eval_mx env (knorm_vv n Kr Kvn Kvv)
    = knorm_vv_mx (eval_mx env Kr) (eval_mx env Kvn) (eval_mx env Kvv).
  Proof.
    have -> : eval_mx env (knorm_vv n Kr Kvn Kvv)
              = (map_mx (sfun_mx Frecip ((eval_mx env c1) ord0 ord0)) (eval_mx env (kscale n Kr))) ord0 ord0
                *: (eval_mx env Kvv - eval_mx env (rowmeans n Kvn) *m const_mx 1
                    - const_mx 1 *m (eval_mx env (rowmeans n Kvn))^T
                    + (eval_mx env (kfit_all n Kr)) ord0 ord0 *: const_mx 1) by [].
    by rewrite rowmeans_formula kfit_all_formula mxE /sfun_mx kscale_formula.
  Qed.

  (* center=True is the same program run on the explicitly normalised blocks *)
  Lemma center_is_normalizer v (env' : env_mx F) a b (e : mexp a b) :
    env' n n vK = knorm_mx (env n n vK) (env n n vK) ->
    env' v n vKt = knorm_mx (env n n vK) (env v n vKt) ->
    env' v v vKvv = knorm_vv_mx (env n n vK) (env v n vKt) (env v v vKvv) ->
    (forall r c x, ~ (r = n /\ c = n /\ x = vK) -> ~ (r = v /\ c = n /\ x = vKt) ->
                   ~ (r = v /\ c = v /\ x = vKvv) -> env' r c x = env r c x) ->
    eval_mx env (msubst (s_center n v) e) = eval_mx env' e.
  Proof.
    move=> h1 h2 h3 h4; rewrite msubst_mx; apply: eval_mx_ext => r c x.
    rewrite /s_center.
    case: (PeanoNat.Nat.eq_dec x vK) => [->|nK].
      case: (PeanoNat.Nat.eq_dec r n) => [->|nr]; last first.
        rewrite sub1_other_shape; last by sidec.
        rewrite sub1_other_var // sub1_other_var // h4 //; by sidec.
      case: (PeanoNat.Nat.eq_dec c n) => [->|nc]; last first.
        rewrite sub1_other_shape; last by sidec.
        rewrite sub1_other_var // sub1_other_var // h4 //; by sidec.
      by rewrite sub1_same knorm_formula h1.
    rewrite sub1_other_var; last by apply/PeanoNat.Nat.eqb_neq => e0; apply: nK.
    case: (PeanoNat.Nat.eq_dec x vKt) => [->|nKt].
      case: (PeanoNat.Nat.eq_dec r v) => [->|nr]; last first.
        rewrite sub1_other_shape; last by sidec.
        rewrite sub1_other_var // h4 //; by sidec.
      case: (PeanoNat.Nat.eq_dec c n) => [->|nc]; last first.
        rewrite sub1_other_shape; last by sidec.
        rewrite sub1_other_var // h4 //; by sidec.
      by rewrite sub1_same knorm_formula h2.
    rewrite sub1_other_var; last by apply/PeanoNat.Nat.eqb_neq => e0; apply: nKt.
    case: (PeanoNat.Nat.eq_dec x vKvv) => [->|nKvv].
      case: (PeanoNat.Nat.eq_dec r v) => [->|nr]; last first.
        rewrite sub1_other_shape; last by sidec.
        rewrite h4 //; by sidec.
      case: (PeanoNat.Nat.eq_dec c v) => [->|nc]; last first.
        rewrite sub1_other_shape; last by sidec.
        rewrite h4 //; by sidec.
      by rewrite sub1_same knorm_vv_formula h3.
    rewrite sub1_other_var; last by apply/PeanoNat.Nat.eqb_neq => e0; apply: nKvv.
    by rewrite h4 //; sidec.
  Qed.
End Center.

(* ---- what the normalised blocks mean in feature space --------------------------------------------- *)
Section FeatureSpace.
  Variable F : rcfType.
  Variables (n d : nat).
  Variable (Phi : 'M[F]_(n, d)).
  Let nn : F := n%:R.
  Let mu : 'rV[F]_d := nn^-1 *: (const_mx 1 *m Phi).
  Let K := Phi *m Phi^T.

  Lemma fs_rmeans m (A : 'M[F]_(m, d)) : A *m mu^T = kn_rmeans (A *m Phi^T).
  Proof. by rewrite /mu /kn_rmeans linearZ /= trmx_mul trmx_const -scalemxAr !mulmxA. Qed.

  Lemma fs_rows : mu *m Phi^T = kn_rows K.
  Proof. by rewrite /mu /kn_rows -scalemxAl -mulmxA. Qed.

  Lemma fs_all : mu *m mu^T = (kn_all K)%:M.
  Proof.
    rewrite [LHS]mx11_scalar; congr (_%:M).
    rewrite /kn_all -fs_rows {2}/mu linearZ /= trmx_mul trmx_const -scalemxAr mxE.
    by rewrite !mulmxA.
  Qed.

  Lemma fs_block a b (A : 'M[F]_(a, d)) (B : 'M[F]_(b, d)) :
    (A - const_mx 1 *m mu) *m (B - const_mx 1 *m mu)^T
    = A *m B^T - const_mx 1 *m (mu *m B^T) - (A *m mu^T) *m const_mx 1
      + kn_all K *: const_mx 1.
  Proof.
    rewrite [(_ - _)^T]linearB /= trmx_mul trmx_const mulmxBr !mulmxBl.
    rewrite opprB addrA -!mulmxA [mu *m (mu^T *m _)]mulmxA fs_all.
    rewrite mul_scalar_mx -scalemxAr [A *m (_ *m _)]mulmxA addrAC; congr (_ + _ *: _).
    by apply/matrixP => i j; rewrite !mxE big_ord1 !mxE mul1r.
  Qed.

  (* the normalised blocks are the Gram blocks of the centred, scaled features *)
  Lemma fs_cen m (A : 'M[F]_(m, d)) :
    kn_cen K (A *m Phi^T) = (A - const_mx 1 *m mu) *m (Phi - const_mx 1 *m mu)^T.
  Proof. by rewrite fs_block fs_rows fs_rmeans /kn_cen. Qed.

  Lemma fs_vv v (PhiV : 'M[F]_(v, d)) :
    PhiV *m PhiV^T - kn_rmeans (PhiV *m Phi^T) *m const_mx 1
      - const_mx 1 *m (kn_rmeans (PhiV *m Phi^T))^T + kn_all K *: const_mx 1
    = (PhiV - const_mx 1 *m mu) *m (PhiV - const_mx 1 *m mu)^T.
  Proof.
    rewrite fs_block -fs_rmeans trmx_mul trmxK.
    by congr (_ + _); rewrite addrAC.
  Qed.
End FeatureSpace.

(* ---- mixing = 1 on a centred, scaled kernel: kernel PCA up to the normaliser's scale ------------- *)
Section KPCAScale.
  Variable F : rcfType.
  Variables (n p k : nat) (env : env_mx F).
  Let K : 'M[F]_n := env n n vK.
  Let a : F := (env 1%N 1%N va) ord0 ord0.
  Let V : 'M[F]_(n, k) := env n k vV.
  Let S : 'cV[F]_k := env k 1%N vS.
  Let tol : F := (env 1%N 1%N vtol) ord0 ord0.

  Lemma kpca_scaled (Kc : 'M[F]_n) (lam : 'cV[F]_k) (s : F) :
    0 < s -> K = s^-1 *: Kc -> Kc *m V = V *m diag_mx lam^T -> S = s^-1 *: lam ->
    a = 1 -> 0 <= tol -> (forall i, tol < S i ord0) ->
    eval_mx env (T_prog n p k) = (Num.sqrt s)^-1 *: (V *m diag_mx (\row_i Num.sqrt (lam i ord0))).
  Proof.
    move=> s0 hK hE hS a1 t0 hpos.
    have hE' : K *m V = V *m diag_mx S^T.
      by rewrite hK -scalemxAl hE hS linearZ /= linearZ /= -scalemxAr.
    rewrite (@T_eigen_a1 F n p k env a1 hE' t0 hpos) /sqrtS scalemxAr -linearZ /=; congr (_ *m diag_mx _).
    apply/rowP => i; rewrite !mxE -/S hS !mxE sqrtrM ?invr_ge0 ?ltW // sqrtrV // ltW //.
  Qed.
End KPCAScale.

(* ---- statements in their final form (used verbatim by Properties/C05.v) ----------------------- *)
Section Final.
  Variable F : rcfType.

  Lemma linear_is_pcovr (n d p k v : nat) (env : env_mx F) :
    let K := env n n vK in let Kt := env v n vKt in let X := env n d vX in
    let Xt := env v d vXt in let W := env n p vW in let Wx := env d p vWx in
    let Yh := env n p vYh in let V := env n k vV in let S := env k 1%N vS in
    let tol := (env 1%N 1%N vtol) ord0 ord0 in let PT := env k n vPT in
    (* linear kernel; primal weights = X^T (dual weights) *)
    K = X *m X^T -> Kt = Xt *m X^T -> Wx = X^T *m W ->
    (* same modified Gram matrix, hence the same oracle answers (V,S) are admissible; and every
       new sample gets the same latent coordinates, with no assumption on the oracle *)
    [/\ eval_mx env (ktilde_prog n p) = eval_mx env (pc_ktilde n d p),
        eval_mx env (transform_prog n p k v) = eval_mx env (@pc_transform n d p k v),
        eval_mx env (tt_prog n p k v)
        = eval_mx env (@pc_transform n d p k v) *m (eval_mx env (@pc_transform n d p k v))^T
      & (* predictions, under the oracle post-conditions *)
        Yh = K *m W ->
        eval_mx env (ktilde_prog n p) *m V = V *m diag_mx S^T -> V^T *m V = 1%:M ->
        0 <= tol -> (forall i, tol < S i ord0) ->
        penrose (eval_mx env (T_prog n p k)) PT ->
        eval_mx env (predict_prog n p k v) = eval_mx env (@pc_predict n d p k v)].
  Proof.
    move=> K Kt X Xt W Wx Yh V S tol PT hK hKt hWx; split.
    - exact: linear_ktilde.
    - exact: linear_transform.
    - have -> : eval_mx env (tt_prog n p k v)
        = eval_mx env (transform_prog n p k v) *m (eval_mx env (transform_prog n p k v))^T by [].
      by rewrite (@linear_transform F n p k v d env hKt hWx).
    - by move=> hY hE hV t0 hS hP; apply: linear_predict.
  Qed.

  Lemma kpca_limit (n p k v : nat) (env : env_mx F) :
    let K := env n n vK in let Kt := env v n vKt in let V := env n k vV in
    let S := env k 1%N vS in let tol := (env 1%N 1%N vtol) ord0 ord0 in
    (env 1%N 1%N va) ord0 ord0 = 1 ->
    K *m V = V *m diag_mx S^T -> 0 <= tol -> (forall i, tol < S i ord0) ->
    eval_mx env (T_prog n p k) = V *m diag_mx (\row_i Num.sqrt (S i ord0)) /\
    eval_mx env (transform_prog n p k v) = Kt *m V *m diag_mx (\row_i (Num.sqrt (S i ord0))^-1).
  Proof.
    move=> K Kt V S tol a1 hE t0 hS; split; first exact: T_eigen_a1.
    exact: transform_a1.
  Qed.

  Lemma center_blocks_feature_space (n d v : nat) (Phi : 'M[F]_(n, d)) (PhiV : 'M[F]_(v, d)) :
    let mu : 'rV[F]_d := n%:R^-1 *: (const_mx 1 *m Phi) in
    let C := Phi - const_mx 1 *m mu in let CV := PhiV - const_mx 1 *m mu in
    let K := Phi *m Phi^T in let s := kn_scale K in
    [/\ knorm_mx K K = s^-1 *: (C *m C^T),
        knorm_mx K (PhiV *m Phi^T) = s^-1 *: (CV *m C^T)
      & knorm_vv_mx K (PhiV *m Phi^T) (PhiV *m PhiV^T) = s^-1 *: (CV *m CV^T)].
  Proof.
    move=> mu C CV K s; split.
    - by rewrite /knorm_mx fs_cen.
    - by rewrite /knorm_mx fs_cen.
    - by rewrite /knorm_vv_mx fs_vv.
  Qed.

  Lemma score_shapes (n p k v : nat) :
    raw_score_doc n p k v = erase (score_prog n p k v) /\
    rshape (raw_score_doc n p k v) = Some (1%N, 1%N).
  Proof. by split; [exact: raw_score_doc_typed | exact: score_doc_shapes]. Qed.

  (* an identity-matrix instance of every hypothesis used above, for every size *)
  Definition env_id : env_mx F := fun m n x =>
    if x == vS then const_mx 1 else if x == vtol then 0 else if x == va then const_mx 2%:R^-1
    else pid_mx (minn m n).

  Lemma env_id_sq n x : x != vS -> x != vtol -> x != va -> env_id n n x = 1%:M.
  Proof.
    by rewrite /env_id => /negbTE-> /negbTE-> /negbTE->; rewrite minnn pid_mx_1.
  Qed.
End Final.

Section NonVacuous.
  Variable F : rcfType.
  Variable n : nat.
  Local Notation env := (env_id F).

  Lemma env_id_a : (env 1%N 1%N va) ord0 ord0 = 2%:R^-1.
  Proof. by rewrite /env_id /= mxE. Qed.
  Lemma env_id_tol : (env 1%N 1%N vtol) ord0 ord0 = 0.
  Proof. by rewrite /env_id /= mxE. Qed.
  Lemma env_id_S i : (env n 1%N vS) i ord0 = 1.
  Proof. by rewrite /env_id /= mxE. Qed.
  Lemma env_id_Smx : env n 1%N vS = const_mx 1.
  Proof. by []. Qed.

  Lemma env_id_ktilde : eval_mx env (ktilde_prog n n) = 1%:M.
  Proof.
    rewrite ktilde_formula env_id_a !env_id_sq // trmx1 mulmx1 -scalerDl subrK scale1r.
    by [].
  Qed.

  Lemma env_id_T : eval_mx env (T_prog n n n) = 1%:M.
  Proof.
    rewrite T_eigen ?env_id_tol ?env_id_ktilde ?env_id_sq ?mulmx1 ?mul1mx //.
    - rewrite /sqrtS (_ : \row_i _ = const_mx 1) ?diag_const_mx //.
      by apply/rowP => i; rewrite !mxE sqrtr1.
    - by rewrite env_id_Smx trmx_const diag_const_mx.
    - by move=> i; rewrite env_id_S ltr01.
  Qed.

  (* every hypothesis of linear_is_pcovr, kpca-free part, and of score_train holds for the
     identity instance (n = d = p = k = v) with mixing 1/2 and tol = 0 *)
  Lemma env_id_hyps :
    env n n vK = env n n vX *m (env n n vX)^T /\
    env n n vKt = env n n vXt *m (env n n vX)^T /\
    env n n vWx = (env n n vX)^T *m env n n vW /\
    env n n vYh = env n n vK *m env n n vW /\
    eval_mx env (ktilde_prog n n) *m env n n vV = env n n vV *m diag_mx (env n 1%N vS)^T /\
    (env n n vV)^T *m env n n vV = 1%:M /\
    0 <= (env 1%N 1%N vtol) ord0 ord0 /\
    (forall i, (env 1%N 1%N vtol) ord0 ord0 < (env n 1%N vS) i ord0) /\
    penrose (eval_mx env (T_prog n n n)) (env n n vPT) /\
    env n n vKt = env n n vK /\ env n n vKvv = env n n vK /\
    penrose ((eval_mx env (tn_prog n n n))^T *m eval_mx env (tn_prog n n n)) (env n n vG) /\
    (env 1%N 1%N va) ord0 ord0 = 2%:R^-1.
  Proof.
    have etn : eval_mx env (tn_prog n n n) = 1%:M by rewrite -env_id_T.
    do !split; rewrite ?etn ?env_id_T ?env_id_ktilde ?env_id_tol ?env_id_a ?env_id_sq //;
      rewrite ?trmx1 ?mulmx1 ?mul1mx ?trmx1 //.
    - by rewrite env_id_Smx trmx_const diag_const_mx.
    - by move=> i; rewrite env_id_S ltr01.
  Qed.
End NonVacuous.
