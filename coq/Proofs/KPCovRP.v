(* C05 — proofs about the KernelPCovR programs of Model/KPCovR.v, interpreted over an arbitrary
   real closed field by MExpMx.eval_mx.  ssreflect / mathcomp style. *)
From mathcomp Require Import all_ssreflect all_algebra.
From Verif Require Import MExp MExpMx KPCovR.
Set Implicit Arguments.
Unset Strict Implicit.
Unset Printing Implicit Defensive.
Import Order.TTheory GRing.Theory Num.Theory.
Local Open Scope ring_scope.

(* ---- generic facts about the interpreter ------------------------------------------------------ *)
Section Generic.
  Variable F : rcfType.
  Implicit Types env : env_mx F.

  Lemma eval_mx_ext env1 env2 m n (e : mexp m n) :
    (forall a b x, env1 a b x = env2 a b x) -> eval_mx env1 e = eval_mx env2 e.
  Proof.
    move=> H; elim: e => //=.
    - by move=> a b e1 -> e2 ->.
    - by move=> a b e1 -> e2 ->.
    - by move=> a b c e1 -> e2 ->.
    - by move=> a b e1 -> e2 ->.
    - by move=> a b e1 ->.
    - by move=> a e1 ->.
    - by move=> a e1 ->.
    - by move=> a b f e1 -> e2 ->.
    - by move=> a b e1 -> e2 ->.
    - by move=> a e1 ->.
  Qed.

  (* semantic substitution: running a program whose variables were replaced by expressions is
     running the program in the environment that holds the values of those expressions *)
  Lemma msubst_mx env (s : subst_t) m n (e : mexp m n) :
    eval_mx env (msubst s e) = eval_mx (fun a b x => eval_mx env (s a b x)) e.
  Proof.
    elim: e => //=.
    - by move=> a b e1 -> e2 ->.
    - by move=> a b e1 -> e2 ->.
    - by move=> a b c e1 -> e2 ->.
    - by move=> a b e1 -> e2 ->.
    - by move=> a b e1 ->.
    - by move=> a e1 ->.
    - by move=> a e1 ->.
    - by move=> a b f e1 -> e2 ->.
    - by move=> a b e1 -> e2 ->.
    - by move=> a e1 ->.
  Qed.

  Lemma sub1_same x m0 n0 (e0 : mexp m0 n0) rest : sub1 x m0 n0 e0 rest m0 n0 x = e0.
  Proof.
    rewrite /sub1; case: (PeanoNat.Nat.eq_dec m0 m0) => [em|]; last by [].
    case: (PeanoNat.Nat.eq_dec n0 n0) => [en|]; last by [].
    rewrite PeanoNat.Nat.eqb_refl.
    have -> : em = erefl by apply: Eqdep_dec.UIP_dec; apply: PeanoNat.Nat.eq_dec.
    by have -> : en = erefl by apply: Eqdep_dec.UIP_dec; apply: PeanoNat.Nat.eq_dec.
  Qed.

  Lemma sub1_other_var x m0 n0 (e0 : mexp m0 n0) rest a b y :
    PeanoNat.Nat.eqb x y = false -> sub1 x m0 n0 e0 rest a b y = rest a b y.
  Proof.
    by rewrite /sub1 => ->; case: (PeanoNat.Nat.eq_dec m0 a) => // ?; case: (PeanoNat.Nat.eq_dec n0 b).
  Qed.

  Lemma sub1_other_shape x m0 n0 (e0 : mexp m0 n0) rest a b y :
    ~ (m0 = a /\ n0 = b) -> sub1 x m0 n0 e0 rest a b y = rest a b y.
  Proof.
    rewrite /sub1 => H; case: (PeanoNat.Nat.eq_dec m0 a) => // ea.
    by case: (PeanoNat.Nat.eq_dec n0 b) => // eb; case: H.
  Qed.

  Lemma Z2F_nat (n : nat) : Z2F F (BinInt.Z.of_nat n) = n%:R.
  Proof.
    case: n => [|n] //=.
    by rewrite Pnat.SuccNat2Pos.id_succ.
  Qed.
End Generic.

(* ---- Moore-Penrose inverses ------------------------------------------------------------------- *)
Section Penrose.
  Variable F : rcfType.

  Definition penrose m n (A : 'M[F]_(m, n)) (X : 'M[F]_(n, m)) : Prop :=
    [/\ A *m X *m A = A, X *m A *m X = X, (A *m X)^T = A *m X & (X *m A)^T = X *m A].

  Lemma penrose_uniq m n (A : 'M[F]_(m, n)) X Y : penrose A X -> penrose A Y -> X = Y.
  Proof.
    move=> [x1 x2 x3 x4] [y1 y2 y3 y4].
    have e1 : X *m A = Y *m A.
      transitivity ((Y *m A *m (X *m A))^T).
        by rewrite trmx_mul x4 y4 -mulmxA [A *m (Y *m A)]mulmxA y1.
      by rewrite -mulmxA [A *m (X *m A)]mulmxA x1 y4.
    have e2 : A *m X = A *m Y.
      transitivity ((A *m X *m (A *m Y))^T).
        by rewrite trmx_mul y3 x3 mulmxA y1.
      by rewrite mulmxA x1 y3.
    by rewrite -x2 e1 -mulmxA e2 mulmxA y2.
  Qed.

  Lemma penrose_sym n (A G : 'M[F]_n) : A^T = A -> penrose A G -> G^T = G.
  Proof.
    move=> sA [g1 g2 g3 g4]; apply: (@penrose_uniq _ _ A) => //; split.
    - by rewrite -{1 2}sA -!trmx_mul mulmxA g1.
    - by rewrite -{1}sA -!trmx_mul mulmxA g2.
    - by rewrite trmx_mul trmxK sA -g4 trmx_mul sA.
    - by rewrite trmx_mul trmxK sA -g3 trmx_mul sA.
  Qed.
End Penrose.

(* ---- the fit programs ------------------------------------------------------------------------- *)
Section FitFormulas.
  Variable F : rcfType.
  Variables (n p k : nat) (env : env_mx F).
  Let K : 'M[F]_n := env n n vK.
  Let Yh : 'M[F]_(n, p) := env n p vYh.
  Let W : 'M[F]_(n, p) := env n p vW.
  Let a : F := (env 1%N 1%N va) ord0 ord0.
  Let V : 'M[F]_(n, k) := env n k vV.
  Let S : 'cV[F]_k := env k 1%N vS.
  Let tol : F := (env 1%N 1%N vtol) ord0 ord0.
  Let Y : 'M[F]_(n, p) := env n p vY.
  Let PT : 'M[F]_(k, n) := env k n vPT.

  (* 1/sqrt with the code's guard:  sqrt (s > tol ? 1/s : 0) *)
  Definition isq (t s : F) : F := Num.sqrt (if t < s then s^-1 else 0).
  Definition Dmx : 'M[F]_k := diag_mx (\row_i isq tol (S i ord0)).

  Lemma ktilde_formula :
    eval_mx env (ktilde_prog n p) = (1 - a) *: (Yh *m Yh^T) + a *: K.
  Proof. by rewrite /= !mxE /= mulr1n. Qed.

  Lemma P_formula :
    eval_mx env (P_prog n p) = a *: 1%:M + (1 - a) *: (W *m Yh^T).
  Proof. by rewrite /= !mxE /= mulr1n. Qed.

  Lemma isqrtS_formula : eval_mx env (isqrtS_prog k) = Dmx.
  Proof.
    apply/matrixP => i j; rewrite /= !mxE /isq.
    by rewrite /sfun_mx; case: (i == j); rewrite ?mulr1n ?mulr0n ?sqrtr0.
  Qed.

  Lemma pkt_formula :
    eval_mx env (pkt_prog n p k) = (a *: 1%:M + (1 - a) *: (W *m Yh^T)) *m V *m Dmx.
  Proof.
    have -> : eval_mx env (pkt_prog n p k)
              = eval_mx env (P_prog n p) *m V *m eval_mx env (isqrtS_prog k) by [].
    by rewrite P_formula isqrtS_formula.
  Qed.

  Lemma T_formula :
    eval_mx env (T_prog n p k) = K *m ((a *: 1%:M + (1 - a) *: (W *m Yh^T)) *m V *m Dmx).
  Proof.
    have -> : eval_mx env (T_prog n p k) = K *m eval_mx env (pkt_prog n p k) by [].
    by rewrite pkt_formula.
  Qed.

  (* K P = K~ on the regressor path (Yhat = K W) *)
  Lemma KP_ktilde : Yh = K *m W ->
    K *m (a *: 1%:M + (1 - a) *: (W *m Yh^T)) = (1 - a) *: (Yh *m Yh^T) + a *: K.
  Proof.
    move=> hY; rewrite mulmxDr -!scalemxAr mulmx1 mulmxA -hY addrC.
    by [].
  Qed.

  Definition sqrtS : 'M[F]_k := diag_mx (\row_i Num.sqrt (S i ord0)).

  Lemma S_D_sqrt : 0 <= tol -> (forall i, tol < S i ord0) -> diag_mx S^T *m Dmx = sqrtS.
  Proof.
    move=> t0 hS; rewrite /Dmx /sqrtS mul_diag_mx; apply/matrixP => i j; rewrite !mxE /isq hS.
    case: (i == j); rewrite ?mulr0n ?mulr0 // !mulr1n.
    have s0 : 0 < S i ord0 by apply: le_lt_trans (hS i).
    rewrite sqrtrV ?ltW // -{1}(sqr_sqrtr (ltW s0)) expr2 -mulrA divff ?mulr1 //.
    by rewrite gt_eqF // sqrtr_gt0.
  Qed.

  (* the latent coordinates of the training set are the eigenvectors scaled by sqrt(eigenvalue) *)
  Lemma T_eigen :
    Yh = K *m W ->
    eval_mx env (ktilde_prog n p) *m V = V *m diag_mx S^T ->
    0 <= tol -> (forall i, tol < S i ord0) ->
    eval_mx env (T_prog n p k) = V *m sqrtS.
  Proof.
    move=> hY hE t0 hS; rewrite T_formula !mulmxA KP_ktilde // -ktilde_formula hE.
    by rewrite -mulmxA S_D_sqrt.
  Qed.

  (* mixing = 1: no hypothesis on the regression is needed *)
  Lemma T_eigen_a1 :
    a = 1 -> K *m V = V *m diag_mx S^T ->
    0 <= tol -> (forall i, tol < S i ord0) ->
    eval_mx env (T_prog n p k) = V *m sqrtS.
  Proof.
    move=> a1 hE t0 hS; rewrite T_formula a1 subrr scale0r addr0 scale1r mul1mx mulmxA hE.
    by rewrite -mulmxA S_D_sqrt.
  Qed.
End FitFormulas.

(* ---- pseudo-inverse of T, new data, linear kernel ---------------------------------------------- *)
Section NewDataFormulas.
  Variable F : rcfType.
  Variables (n p k v d : nat) (env : env_mx F).
  Let K : 'M[F]_n := env n n vK.
  Let Yh : 'M[F]_(n, p) := env n p vYh.
  Let W : 'M[F]_(n, p) := env n p vW.
  Let a : F := (env 1%N 1%N va) ord0 ord0.
  Let V : 'M[F]_(n, k) := env n k vV.
  Let S : 'cV[F]_k := env k 1%N vS.
  Let tol : F := (env 1%N 1%N vtol) ord0 ord0.
  Let Y : 'M[F]_(n, p) := env n p vY.
  Let PT : 'M[F]_(k, n) := env k n vPT.
  Let Kt : 'M[F]_(v, n) := env v n vKt.
  Let X : 'M[F]_(n, d) := env n d vX.
  Let Xt : 'M[F]_(v, d) := env v d vXt.
  Let Wx : 'M[F]_(d, p) := env d p vWx.

  Definition isqrtS : 'M[F]_k := diag_mx (\row_i (Num.sqrt (S i ord0))^-1).

  Lemma sqrtS_isqrtS : (forall i, 0 < S i ord0) -> sqrtS env k *m isqrtS = 1%:M.
  Proof.
    move=> hS; rewrite /sqrtS /isqrtS mul_diag_mx; apply/matrixP => i j; rewrite !mxE.
    case: (i == j); rewrite ?mulr0n ?mulr0 // !mulr1n divff //.
    by rewrite gt_eqF // sqrtr_gt0.
  Qed.

  Lemma isqrtS_sqrtS : (forall i, 0 < S i ord0) -> isqrtS *m sqrtS env k = 1%:M.
  Proof.
    move=> hS; rewrite /sqrtS /isqrtS mul_diag_mx; apply/matrixP => i j; rewrite !mxE.
    case: (i == j); rewrite ?mulr0n ?mulr0 // !mulr1n mulVf //.
    by rewrite gt_eqF // sqrtr_gt0.
  Qed.

  (* with the guard passed, the code's sqrt(1/s) is 1/sqrt(s) *)
  Lemma Dmx_isqrtS : 0 <= tol -> (forall i, tol < S i ord0) -> Dmx env k = isqrtS.
  Proof.
    move=> t0 hS; rewrite /Dmx /isqrtS; congr diag_mx; apply/rowP => i; rewrite !mxE /isq hS.
    by rewrite sqrtrV // ltW //; apply: le_lt_trans (hS i).
  Qed.

  (* the pseudo-inverse of V sqrt(S) for orthonormal V and positive S *)
  Lemma penrose_VS : V^T *m V = 1%:M -> (forall i, 0 < S i ord0) ->
    penrose (V *m sqrtS env k) (isqrtS *m V^T).
  Proof.
    move=> hV hS.
    have e1 : isqrtS *m V^T *m (V *m sqrtS env k) = 1%:M.
      by rewrite -mulmxA [V^T *m _]mulmxA hV mul1mx isqrtS_sqrtS.
    have e2 : V *m sqrtS env k *m (isqrtS *m V^T) = V *m V^T.
      by rewrite -mulmxA [sqrtS env k *m _]mulmxA sqrtS_isqrtS // mul1mx.
    split.
    - by rewrite -mulmxA e1 mulmx1.
    - by rewrite e1 mul1mx.
    - by rewrite e2 trmx_mul trmxK.
    - by rewrite e1 trmx1.
  Qed.

  (* pt__ is determined by its Penrose equations *)
  Lemma PT_value :
    Yh = K *m W ->
    eval_mx env (ktilde_prog n p) *m V = V *m diag_mx S^T ->
    V^T *m V = 1%:M -> 0 <= tol -> (forall i, tol < S i ord0) ->
    penrose (eval_mx env (T_prog n p k)) PT ->
    PT = isqrtS *m V^T.
  Proof.
    move=> hY hE hV t0 hS; rewrite T_eigen // => hP.
    apply: penrose_uniq hP _; apply: penrose_VS => // i.
    exact: le_lt_trans (hS i).
  Qed.

  Lemma transform_formula :
    eval_mx env (transform_prog n p k v)
    = Kt *m ((a *: 1%:M + (1 - a) *: (W *m Yh^T)) *m V *m Dmx env k).
  Proof.
    have -> : eval_mx env (transform_prog n p k v) = Kt *m eval_mx env (pkt_prog n p k) by [].
    by rewrite pkt_formula.
  Qed.

  Lemma predict_formula :
    eval_mx env (predict_prog n p k v)
    = Kt *m ((a *: 1%:M + (1 - a) *: (W *m Yh^T)) *m V *m Dmx env k *m (PT *m Y)).
  Proof.
    have -> : eval_mx env (predict_prog n p k v)
              = Kt *m (eval_mx env (pkt_prog n p k) *m (PT *m Y)) by [].
    by rewrite pkt_formula.
  Qed.

  (* mixing = 1: new samples are projected as in kernel PCA, K_VN V S^{-1/2} *)
  Lemma transform_a1 :
    a = 1 -> 0 <= tol -> (forall i, tol < S i ord0) ->
    eval_mx env (transform_prog n p k v) = Kt *m V *m isqrtS.
  Proof.
    move=> a1 t0 hS; rewrite transform_formula a1 subrr scale0r addr0 scale1r mul1mx.
    by rewrite Dmx_isqrtS // mulmxA.
  Qed.

  (* ---- sample-space PCovR programs ---- *)
  Definition Emx : 'M[F]_k :=
    diag_mx (\row_i (if tol < S i ord0 then (Num.sqrt (S i ord0))^-1 else 0)).

  Lemma Dmx_Emx : Dmx env k = Emx.
  Proof.
    rewrite /Dmx /Emx; congr diag_mx; apply/rowP => i; rewrite !mxE /isq.
    case: (tol < S i ord0); last by rewrite sqrtr0.
    case: (lerP 0 (S i ord0)) => h; first by rewrite sqrtrV.
    by rewrite !ler0_sqrtr ?invr0 // ?invr_le0 ltW.
  Qed.

  Lemma pc_T_formula : eval_mx env (pc_T n k) = V *m Emx.
  Proof.
    have -> : eval_mx env (pc_T n k) = V *m eval_mx env (MDiag (MMap Fisqrt_gt tl (MVar (m:=k) (n:=1) vS))) by [].
    congr (_ *m _); apply/matrixP => i j; rewrite /= !mxE /sfun_mx.
    by [].
  Qed.

  Lemma pc_P_formula :
    eval_mx env (pc_P n d p) = a *: X^T + (1 - a) *: (Wx *m Yh^T).
  Proof. by rewrite /= !mxE /= mulr1n. Qed.

  Lemma pc_ktilde_formula :
    eval_mx env (pc_ktilde n d p) = (1 - a) *: (Yh *m Yh^T) + a *: (X *m X^T).
  Proof. by rewrite /= !mxE /= mulr1n. Qed.

  Lemma pc_transform_formula :
    eval_mx env (@pc_transform n d p k v) = Xt *m ((a *: X^T + (1 - a) *: (Wx *m Yh^T)) *m (V *m Emx)).
  Proof.
    have -> : eval_mx env (@pc_transform n d p k v)
              = Xt *m (eval_mx env (pc_P n d p) *m eval_mx env (pc_T n k)) by [].
    by rewrite pc_P_formula pc_T_formula.
  Qed.

  Lemma pc_predict_formula :
    eval_mx env (@pc_predict n d p k v)
    = Xt *m ((a *: X^T + (1 - a) *: (Wx *m Yh^T)) *m (V *m Emx) *m ((V *m Emx)^T *m Y)).
  Proof.
    have -> : eval_mx env (@pc_predict n d p k v)
              = Xt *m (eval_mx env (pc_P n d p) *m eval_mx env (pc_T n k)
                       *m ((eval_mx env (pc_T n k))^T *m Y)) by [].
    by rewrite pc_P_formula pc_T_formula.
  Qed.

  (* linear kernel: K = X X^T, K_VN = X' X^T, primal weights = X^T (dual weights) *)
  Hypothesis hK : K = X *m X^T.
  Hypothesis hKt : Kt = Xt *m X^T.
  Hypothesis hWx : Wx = X^T *m W.

  Lemma linear_ktilde : eval_mx env (ktilde_prog n p) = eval_mx env (pc_ktilde n d p).
  Proof. by rewrite ktilde_formula pc_ktilde_formula hK. Qed.

  Lemma linear_P : Kt *m (a *: 1%:M + (1 - a) *: (W *m Yh^T))
                   = Xt *m (a *: X^T + (1 - a) *: (Wx *m Yh^T)).
  Proof.
    rewrite hKt hWx -mulmxA; congr (_ *m _).
    by rewrite !mulmxDr -!scalemxAr mulmx1 mulmxA.
  Qed.

  (* same projection of every new sample, for the same oracle answer (V,S): no hypothesis on
     the oracle is needed *)
  Lemma linear_transform :
    eval_mx env (transform_prog n p k v) = eval_mx env (@pc_transform n d p k v).
  Proof.
    rewrite transform_formula pc_transform_formula Dmx_Emx !mulmxA linear_P.
    by rewrite !mulmxA.
  Qed.

  (* same predictions: pt__ = pinv(T) is S^{-1/2} V^T, which is sample-space PCovR's T^T *)
  Lemma linear_predict :
    Yh = K *m W ->
    eval_mx env (ktilde_prog n p) *m V = V *m diag_mx S^T ->
    V^T *m V = 1%:M -> 0 <= tol -> (forall i, tol < S i ord0) ->
    penrose (eval_mx env (T_prog n p k)) PT ->
    eval_mx env (predict_prog n p k v) = eval_mx env (@pc_predict n d p k v).
  Proof.
    move=> hY hE hV t0 hS hP.
    rewrite predict_formula pc_predict_formula (PT_value hY hE hV t0 hS hP).
    rewrite -Dmx_Emx (Dmx_isqrtS t0 hS) !mulmxA linear_P.
    rewrite trmx_mul /isqrtS tr_diag_mx.
    by rewrite !mulmxA.
  Qed.
End NewDataFormulas.
