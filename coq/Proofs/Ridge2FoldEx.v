(* A concrete instance of the Ridge2FoldCV model over an arbitrary real closed field:
   X = diag(2, 1) (both folds and the full data), U = V = I, s = (2, 1), y = (1, 1)^T,
   rcond = 1, alphas = [0], Tikhonov.  The second singular value is <= rcond, so the rank cut
   is active.  Used for the non-vacuity example of Properties/C10.v and as the witness of
   Findings/F06_ridge2fold_rank.v.  ssreflect style. *)
From mathcomp Require Import all_ssreflect all_algebra.
From Verif Require Import MExp MExpMx Ridge2Fold Ridge2FoldMx MxFrobP Ridge2FoldP.
Set Implicit Arguments.
Unset Strict Implicit.
Unset Printing Implicit Defensive.
Import Order.TTheory GRing.Theory Num.Theory.
Local Open Scope ring_scope.

Section Ex.
  Variable F : rcfType.

  Definition ex_s : 'cV[F]_2 := \col_i (if i == ord0 then 2%:R else 1).
  Definition ex_env : env_mx F := fun m n x =>
    if x \in [:: vU1; vV1; vU2; vV2; vU; vV] then inj_mx (1%:M : 'M[F]_2) m n
    else if x \in [:: vS1; vS2; vS] then inj_mx ex_s m n
    else if x \in [:: vX1; vX2; vX] then inj_mx (diag_mx ex_s^T) m n
    else if x \in [:: vy1; vy2; vy] then inj_mx (const_mx 1 : 'cV[F]_2) m n
    else 0.
  Definition ex_d : r2f_dims := Dims 2 2 2 2 1 2 2 2 2.
  Definition ex_c : r2f_cfg F (d_t ex_d) :=
    Cfg ex_env (fun _ _ _ => 0) [:: 0] false false 1.

  Lemma ex_svd xX xU xS xV :
    xX \in [:: vX1; vX2; vX] -> xU \in [:: vU1; vU2; vU] -> xS \in [:: vS1; vS2; vS] ->
    xV \in [:: vV1; vV2; vV] -> svd_hyp ex_env 2 2 2 xX xU xS xV.
  Proof.
    rewrite !inE => /or3P[] /eqP-> /or3P[] /eqP-> /or3P[] /eqP-> /or3P[] /eqP->;
    (split; rewrite /= /ex_env /= ?inj_mxE;
     [ by rewrite trmx1 mulmx1 subrr | by rewrite trmx1 mulmx1 subrr
     | by rewrite mul1mx trmx1 mulmx1 subrr
     | move=> i j; rewrite !mxE; case: (i == ord0) / eqP => [->|Hi];
       [ by case: (j == ord0) => //; rewrite ler1n
       | case: (j == ord0) / eqP => [->|//]; rewrite leqn0 => /eqP Hi0; case: Hi; exact: val_inj ]
     | by move=> i; rewrite mxE; case: (i == ord0); rewrite ?ler0n ?ler01 ]).
  Qed.

  Lemma ex_hyps : r2f_hyps ex_c.
  Proof.
    split; rewrite /=; try exact: ex_svd; rewrite ?ler01 //.
    by split=> //=; rewrite lexx.
  Qed.

  (* the second direction is cut (s = 1 <= rcond = 1), the first is kept (s = 2 > 1) *)
  Lemma ex_cut : c_env ex_c 2%N 1%N vS ord_max ord0 <= c_rcond ex_c.
  Proof. by rewrite /= /ex_env /= inj_mxE mxE. Qed.

  Lemma ex_kept : c_rcond ex_c < c_env ex_c 2%N 1%N vS ord0 ord0.
  Proof. by rewrite /= /ex_env /= inj_mxE mxE eqxx ltr1n. Qed.
End Ex.
