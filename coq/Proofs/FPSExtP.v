(* C02 extension (round 3), proofs: distance induced by a matrix (both axes), feature-direction
   PCov-FPS on the modified covariance written as a Gram matrix, chains of warm-started fits. *)
From Verif Require Import ListX Greedy FPS ListXP GreedyP FPSP FPSInst C02Thm FPSExt.

(* ---- any square matrix, both axes -------------------------------------------------------- *)
Section MatDist.
  Variable D : list (list Z).
  Variable n : nat.
  Hypothesis Hsq : sqmat n D.

  Lemma sq_row_len i : (i < n)%nat -> length (nth i D []) = n.
  Proof.
    destruct Hsq as [Hl Hr]. intros Hi. rewrite Forall_forall in Hr. apply Hr, nth_In. lia.
  Qed.

  Lemma diagm_nth j : (j < n)%nat -> nth j (diagm D) 0 = mentry D j j.
  Proof.
    intros Hj. unfold diagm. destruct Hsq as [Hl _]. rewrite Hl.
    rewrite (nth_map_lt _ (seq 0 n) j 0 O) by (rewrite seq_length; exact Hj).
    now rewrite seq_nth.
  Qed.

  Lemma diagm_as_map : diagm D = map (fun j => mentry D j j) (seq 0 n).
  Proof. unfold diagm, mentry. destruct Hsq as [Hl _]. now rewrite Hl. Qed.

  Lemma cross_as_map axis1 l : (l < n)%nat ->
    pcov_cross axis1 D l = map (fun j => if axis1 then mentry D j l else mentry D l j) (seq 0 n).
  Proof.
    intros Hl. destruct axis1; unfold pcov_cross.
    - unfold col. destruct Hsq as [HL _]. rewrite <- HL.
      rewrite (map_seq_nth (fun r => nth l r 0) D []). reflexivity.
    - rewrite <- (map_id (nth l D [])) at 1.
      rewrite (map_seq_nth (fun x => x) (nth l D []) 0), sq_row_len by exact Hl. reflexivity.
  Qed.

  (* new_dist of _PCovFPS._update_hausdorff is the vector of distances induced by D *)
  Lemma mat_newdist axis1 l : (l < n)%nat ->
    newdist (diagm D) (pcov_cross axis1 D) l = map (fun j => mdist axis1 D j l) (seq 0 n).
  Proof.
    intros Hl. unfold newdist. rewrite (diagm_nth l Hl), cross_as_map by exact Hl.
    rewrite diagm_as_map, map2_map_l, map2_map_r, map2_same. reflexivity.
  Qed.
End MatDist.

Section MatThm.
  Variables (axis1 : bool) (D cs : list (list Z)) (ycand : option (list (list Z))).
  Hypothesis Hsq : sqmat (length cs) D.
  Variables (i0 : nat) (t : thr) (niter : nat) (g' : fps_g) (st : bool).
  Hypothesis Hi0 : (i0 < length cs)%nat.
  Hypothesis Hfit : pcov_fit axis1 D cs ycand i0 t niter = (g', st).

  Let Hnd1 : NoDup [i0]. Proof. constructor; [intros []|constructor]. Qed.
  Let Hr1 : Forall (fun i => (i < length cs)%nat) [i0]. Proof. constructor; [exact Hi0|constructor]. Qed.

  Lemma mat_as_run :
    run dst dscore (dupd (diagm D) (pcov_cross axis1 D)) cs ycand t
        (niter - length (sel (pcov_init axis1 D cs ycand i0)))
        (fold_left (post dst (dupd (diagm D) (pcov_cross axis1 D)) cs ycand) [i0] (g0 cs)) = (g', st).
  Proof. exact Hfit. Qed.

  Lemma mat_table_true :
    haus (sst g') = map (fun j => tabmin (mdist axis1 D) j (sel g')) (seq 0 (length cs)).
  Proof.
    eapply table_true; [| | |exact mat_as_run]; eauto.
    intros l Hl. eapply mat_newdist; eauto.
  Qed.

  Lemma mat_select_distance_true k :
    (k < length (sel g'))%nat ->
    nth k (select_distance g') None
    = tabmin (mdist axis1 D) (nth k (sel g') O) (firstn k (sel g')).
  Proof.
    eapply select_distance_true; [| | |exact mat_as_run]; eauto.
    intros l Hl. eapply mat_newdist; eauto.
  Qed.

  Lemma mat_initial : firstn 1 (sel g') = [i0].
  Proof.
    refine (initial_selections cs ycand _ _ (mdist axis1 D) _ [i0] Hnd1 Hr1 t _ g' st mat_as_run).
    intros l Hl. eapply mat_newdist; eauto.
  Qed.
End MatThm.

(* ---- feature direction: the modified covariance as a Gram matrix --------------------------
   4 C~ = a X^T X + (4 - a) C_Y C_Y^T  with  C_Y = (X^T X)^(-1/2) X^T Y  is [kernel4 a F CY] for
   F = the columns of X (one vector per feature) and CY the rows of C_Y (one per feature).
   _PCovFPS reads COLUMNS of it (np.take(.., axis=1)). *)
Section FeatInst.
  Variable F CY : list (list Z).
  Variable dx dy : nat.
  Variable a : Z.
  Hypothesis Ha : 0 <= a <= 4.
  Hypothesis HdimF : Forall (fun c => length c = dx) F.
  Hypothesis HdimC : Forall (fun c => length c = dy) CY.
  Hypothesis HlenC : length CY = length F.
  Let n := length F.
  Let D := kernel4 a F CY.

  Lemma kentry_sym i j : kentry a F CY i j = kentry a F CY j i.
  Proof. unfold kentry. now rewrite (dot_comm (nth i F [])), (dot_comm (nth i CY [])). Qed.

  Lemma kernel4_sq : sqmat n D.
  Proof.
    unfold sqmat, D, kernel4. fold n. split; [now rewrite map_length, seq_length|].
    apply Forall_forall. intros r Hr. apply in_map_iff in Hr as (l & <- & _).
    now rewrite map_length, seq_length.
  Qed.

  Lemma kernel4_entry i j : (i < n)%nat -> (j < n)%nat -> mentry D i j = kentry a F CY i j.
  Proof.
    intros Hi Hj. unfold mentry. unfold D. rewrite (D_row F CY a i Hi). fold n.
    rewrite (nth_map_lt _ (seq 0 n) j 0 O) by (rewrite seq_length; exact Hj).
    now rewrite seq_nth.
  Qed.

  Theorem feat_newdist axis1 l :
    (l < n)%nat ->
    newdist (diagm D) (pcov_cross axis1 D) l = map (fun j => pcov_dist F CY a j l) (seq 0 n).
  Proof.
    intros Hl. rewrite (mat_newdist D n kernel4_sq axis1 l Hl).
    apply map_ext_in. intros j Hj. apply in_seq in Hj. unfold mdist.
    rewrite !kernel4_entry by lia.
    rewrite <- (kentry_dist F CY dx dy a HdimF HdimC HlenC j l) by lia.
    destruct axis1; [rewrite (kentry_sym j l)|]; reflexivity.
  Qed.
End FeatInst.

Section FeatThm.
  Variables (axis1 : bool) (F CY : list (list Z)) (dx dy : nat) (a : Z) (ycand : option (list (list Z))).
  Hypothesis Ha : 0 <= a <= 4.
  Hypothesis HdF : dims dx F.
  Hypothesis HdC : dims dy CY.
  Hypothesis HlenC : length CY = length F.
  Variables (i0 : nat) (t : thr) (niter : nat) (g' : fps_g) (st : bool).
  Hypothesis Hi0 : (i0 < length F)%nat.
  Hypothesis Hfit : pcov_fit axis1 (kernel4 a F CY) F ycand i0 t niter = (g', st).
  Notation pd := (pcov_dist F CY a).
  Notation Dm := (kernel4 a F CY).

  Let Hnd1 : NoDup [i0]. Proof. constructor; [intros []|constructor]. Qed.
  Let Hr1 : in_range (length F) [i0]. Proof. constructor; [exact Hi0|constructor]. Qed.

  Lemma feat_as_run :
    run dst dscore (dupd (diagm Dm) (pcov_cross axis1 Dm)) F ycand t
        (niter - length (sel (pcov_init axis1 Dm F ycand i0)))
        (fold_left (post dst (dupd (diagm Dm) (pcov_cross axis1 Dm)) F ycand) [i0] (g0 F)) = (g', st).
  Proof. exact Hfit. Qed.

  Lemma feat_table_true :
    haus (sst g') = map (fun j => tabmin pd j (sel g')) (seq 0 (length F)).
  Proof.
    eapply table_true; [| | |exact feat_as_run]; eauto.
    intros l Hl. eapply feat_newdist; eauto.
  Qed.

  Lemma feat_select_distance_true k :
    (k < length (sel g'))%nat ->
    nth k (select_distance g') None = tabmin pd (nth k (sel g') O) (firstn k (sel g')).
  Proof.
    eapply select_distance_true; [| | |exact feat_as_run]; eauto.
    intros l Hl. eapply feat_newdist; eauto.
  Qed.

  Lemma feat_steps_farthest :
    exists new, sel g' = [i0] ++ new /\ farthest_seq F pd [i0] new.
  Proof.
    refine (fit_steps_farthest F ycand _ _ pd _ _ _ [i0] t _ g' st Hnd1 Hr1 _ feat_as_run).
    - intros l Hl. exact (feat_newdist F CY dx dy a HdF HdC HlenC axis1 l Hl).
    - intros j l. eapply pcov_dist_nonneg; eassumption.
    - intros i. eapply pcov_dist_self; eassumption.
    - discriminate.
  Qed.
End FeatThm.

(* ---- chains: cold fit, then warm-started continuations ------------------------------------ *)
Section ChainP.
  Variable cs : list (list Z).
  Variable ycand : option (list (list Z)).
  Variable nm : list Z.
  Variable cross : nat -> list Z.
  Variable dist : nat -> nat -> Z.
  Hypothesis Hnew : forall l, (l < length cs)%nat ->
                              newdist nm cross l = map (fun j => dist j l) (seq 0 (length cs)).
  Hypothesis dist_nonneg : forall j l, 0 <= dist j l.
  Hypothesis dist_self : forall i, dist i i = 0.

  Notation runk := (run dst dscore (dupd nm cross) cs ycand).
  Notation GI := (GInv dst cs ycand (FP cs)).
  Notation TI := (TabInv cs dist).

  Lemma farthest_seq_app s u v :
    farthest_seq cs dist s u -> farthest_seq cs dist (s ++ u) v -> farthest_seq cs dist s (u ++ v).
  Proof.
    revert s; induction u as [|i u IH]; intros s Hu Hv; cbn in *.
    - now rewrite app_nil_r in Hv.
    - destruct Hu as [Hi Hu]. split; [exact Hi|]. apply IH; [exact Hu|].
      now rewrite <- app_assoc.
  Qed.

  (* the state invariant carried along a chain *)
  Definition ChainInv (inits : list nat) (g : fps_g) : Prop :=
    GI g /\ TI g /\ exists new, sel g = inits ++ new /\ farthest_seq cs dist inits new.

  Lemma run_chain_inv inits t k g g' st :
    inits <> [] -> ChainInv inits g -> runk t k g = (g', st) -> ChainInv inits g'.
  Proof.
    intros Hne (HG & HT & new & Hs & Hf) Hrun.
    assert (HG' : GI g') by (eapply (run_inv dst dscore _ cs ycand (FP cs) (FP_len cs) (FP_upd cs nm cross dist Hnew)); eauto).
    assert (HT' : TI g').
    { refine (run_ind dst dscore _ cs ycand (FP cs) (FP_len cs) (FP_upd cs nm cross dist Hnew) TI t k g g' st _ _ HG HT Hrun).
      - intros x y Hx Hsel _ _ Hss. eapply TabInv_same; eauto.
      - intros x i Hx HTx (Hi & Hni & _). eapply TabInv_post; eauto. }
    destruct (run_best_seq dst dscore _ cs ycand (FP cs) (FP_len cs) (FP_upd cs nm cross dist Hnew) t k g g' st HG Hrun)
      as (new2 & Hs2 & Hbs).
    split; [exact HG'|]. split; [exact HT'|].
    exists (new ++ new2). split; [rewrite Hs2, Hs; now rewrite app_assoc|].
    apply farthest_seq_app; [exact Hf|]. rewrite <- Hs.
    eapply best_seq_farthest; eauto.
    rewrite Hs. intros E. apply app_eq_nil in E as [E _]. exact (Hne E).
  Qed.

  Lemma chain_inv (runf : thr -> nat -> fps_g -> fps_g * bool) inits :
    inits <> [] ->
    (forall t k g, exists k', runf t k g = runk t k' g) ->
    forall stages g, ChainInv inits g -> ChainInv inits (chain runf g stages).
  Proof.
    intros Hne Hrunf stages; induction stages as [|[t k] rest IH]; intros g Hg; cbn; [exact Hg|].
    apply IH. destruct (Hrunf t k g) as (k' & E). rewrite E.
    destruct (runk t k' g) as [g1 st] eqn:Er. cbn. eapply run_chain_inv; eauto.
  Qed.

  Lemma init_chain_inv inits :
    NoDup inits -> Forall (fun i => (i < length cs)%nat) inits ->
    ChainInv inits (fold_left (post dst (dupd nm cross) cs ycand) inits (g0 cs)).
  Proof.
    intros Hnd Hr. destruct (gi_inv cs ycand nm cross dist Hnew inits Hnd Hr) as (A & B & C).
    split; [exact A|]. split; [exact B|]. exists []. rewrite app_nil_r. split; [exact C|exact I].
  Qed.

  Lemma ChainInv_facts inits g :
    ChainInv inits g ->
    haus (sst g) = map (fun j => tabmin dist j (sel g)) (seq 0 (length cs)) /\
    (forall k, (k < length (sel g))%nat ->
       nth k (select_distance g) None = tabmin dist (nth k (sel g) O) (firstn k (sel g))) /\
    NoDup (sel g) /\
    exists new, sel g = inits ++ new /\ farthest_seq cs dist inits new.
  Proof.
    intros (HG & [Ht Hsd] & Hex). split; [exact Ht|]. split.
    - intros k Hk. unfold select_distance.
      rewrite (nth_map_lt (fun i => nth i (hsel (sst g)) None) (sel g) k None O Hk). apply Hsd, Hk.
    - split; [apply HG|exact Hex].
  Qed.
End ChainP.

Section ChainThm.
  Variables (cs : list (list Z)) (d : nat) (ycand : option (list (list Z))).
  Hypothesis Hd : dims d cs.
  Variables (inits : list nat) (stages : list (thr * nat)).
  Hypothesis Hnd : NoDup inits.
  Hypothesis Hr : in_range (length cs) inits.
  Hypothesis Hne : inits <> [].

  Theorem fps_chain_true :
    let g := fps_chain cs ycand inits stages in
    haus (sst g) = map (fun j => tabmin (fps_dist cs) j (sel g)) (seq 0 (length cs)) /\
    (forall k, (k < length (sel g))%nat ->
       nth k (select_distance g) None = tabmin (fps_dist cs) (nth k (sel g) O) (firstn k (sel g))) /\
    NoDup (sel g) /\
    exists new, sel g = inits ++ new /\ farthest_seq cs (fps_dist cs) inits new.
  Proof.
    cbv zeta. eapply (ChainInv_facts cs ycand). unfold fps_chain.
    eapply (chain_inv cs ycand (fps_norms cs) (fps_cross cs) (fps_dist cs)); eauto using fps_newdist.
    - intros j l. apply fps_dist_nonneg.
    - intros i. apply fps_dist_self.
    - intros t k g. eexists. reflexivity.
    - apply init_chain_inv; eauto using fps_newdist.
  Qed.
End ChainThm.

Section PCovChainThm.
  Variables (axis1 : bool) (F CY : list (list Z)) (dx dy : nat) (a : Z) (ycand : option (list (list Z))).
  Hypothesis Ha : 0 <= a <= 4.
  Hypothesis HdF : dims dx F.
  Hypothesis HdC : dims dy CY.
  Hypothesis HlenC : length CY = length F.
  Variables (i0 : nat) (stages : list (thr * nat)).
  Hypothesis Hi0 : (i0 < length F)%nat.
  Notation pd := (pcov_dist F CY a).

  Theorem pcov_chain_true :
    let g := pcov_chain axis1 (kernel4 a F CY) F ycand i0 stages in
    haus (sst g) = map (fun j => tabmin pd j (sel g)) (seq 0 (length F)) /\
    (forall k, (k < length (sel g))%nat ->
       nth k (select_distance g) None = tabmin pd (nth k (sel g) O) (firstn k (sel g))) /\
    NoDup (sel g) /\
    exists new, sel g = [i0] ++ new /\ farthest_seq F pd [i0] new.
  Proof.
    cbv zeta. eapply (ChainInv_facts F ycand). unfold pcov_chain.
    eapply (chain_inv F ycand (diagm (kernel4 a F CY)) (pcov_cross axis1 (kernel4 a F CY)) pd).
    - intros l Hl. exact (feat_newdist F CY dx dy a HdF HdC HlenC axis1 l Hl).
    - intros j l. eapply pcov_dist_nonneg; eassumption.
    - intros i. eapply pcov_dist_self; eassumption.
    - discriminate.
    - intros t k g. eexists. reflexivity.
    - apply (init_chain_inv F ycand (diagm (kernel4 a F CY)) (pcov_cross axis1 (kernel4 a F CY)) pd).
      + intros l Hl. exact (feat_newdist F CY dx dy a HdF HdC HlenC axis1 l Hl).
      + constructor; [intros []|constructor].
      + constructor; [exact Hi0|constructor].
  Qed.
End PCovChainThm.
