(* C05 — proofs about the KernelPCovR object state machine of Model/KPCovRState.v.
   Stdlib style.  Every statement holds for EVERY interpretation of the machine's primitive
   operations (kernel evaluation, KernelNormalizer, regression, _fit, loss, product). *)
From Coq Require Import List Bool.
From Verif Require Import KPCovRState.
Import ListNotations.

Section MachineP.
  Variables mat kid num rg cen : Type.
  Variable getk : kid -> mat -> mat -> mat.
  Variable kn_fit : mat -> cen.
  Variable kn_tr : cen -> mat -> mat.
  Variable kn_vv : cen -> mat -> mat -> mat.
  Variable regress : rg -> mat -> mat -> mat.
  Variable lstsq : num -> mat -> mat -> mat.
  Variable fit_core : num -> mat -> mat -> mat -> mat * mat.
  Variable loss : num -> mat -> mat -> mat -> mat -> mat -> mat -> mat.
  Variable mmul : mat -> mat -> mat.

  Notation cargs := (cargs kid num rg).
  Notation state := (state mat kid num rg cen).
  Notation fit := (@fit mat kid num rg cen getk kn_fit kn_tr regress lstsq fit_core mmul).
  Notation transform := (@transform mat kid num rg cen getk kn_tr mmul).
  Notation predict := (@predict mat kid num rg cen getk kn_tr mmul).
  Notation score := (@score mat kid num rg cen getk kn_tr kn_vv loss).
  Notation inverse_transform := (@inverse_transform mat kid num rg cen mmul).
  Notation run := (@run mat kid num rg cen getk kn_fit kn_tr regress lstsq fit_core mmul).
  Notation same_obs := (@same_obs mat kid num rg cen getk kn_tr kn_vv loss mmul).
  Notation init := (@init mat kid num rg cen).
  Notation set_params := (@set_params mat kid num rg cen).
  Notation transform_hasattr := (@transform_hasattr mat kid num rg cen getk kn_tr mmul).
  Notation SetParams := (@SetParams mat kid num rg).
  Notation Fit := (@Fit mat kid num rg).

  (* ---- the guard: with center=False none of the three methods reads centerer_ ------------- *)
  Definition with_centerer (st : state) (c : option cen) : state :=
    mk_state (prm st) (X_fit st) c (pkt st) (pky st) (pty st) (ptk st) (ptx st) (regr_W st).

  Lemma center_guard (st : state) (c : option cen) :
    p_center (prm st) = false ->
    (forall Xn, transform (with_centerer st c) Xn = transform st Xn) /\
    (forall Xn, predict (with_centerer st c) Xn = predict st Xn) /\
    (forall Xn Yn, score (with_centerer st c) Xn Yn = score st Xn Yn).
  Proof.
    intros Hc; repeat split; intros;
      unfold KPCovRState.transform, KPCovRState.predict, KPCovRState.score, new_kernel, with_centerer;
      cbn; rewrite Hc; reflexivity.
  Qed.

  (* ... and neither do they read ptx_ or regressor_ *)
  Definition with_leftovers (st : state) (c : option cen) (x w : option mat) : state :=
    mk_state (prm st) (X_fit st) c (pkt st) (pky st) (pty st) (ptk st) x w.

  (* ---- fit overwrites everything the observables read ----------------------------------- *)
  Lemma fit_forgets (s1 s2 : state) (X Y : mat) (W : option mat) :
    prm s1 = prm s2 -> same_obs (fit s1 X Y W) (fit s2 X Y W).
  Proof.
    intros Hp.
    unfold same_obs, KPCovRState.transform, KPCovRState.predict, KPCovRState.score, new_kernel,
      KPCovRState.fit; cbn.
    rewrite <- Hp.
    destruct (p_center (prm s1)) eqn:Hc; destruct (p_regr (prm s1)) eqn:Hr; cbn;
      repeat split; reflexivity.
  Qed.

  Lemma same_obs_refl (s : state) : same_obs s s.
  Proof. unfold same_obs; repeat split; reflexivity. Qed.

  (* refit = fresh fit: whatever happened to the object before (any list of set_params / fit
     events, starting from any constructor arguments), after set_params(p); fit(X, Y, W) it is
     indistinguishable from a new object constructed with p and fitted once *)
  Theorem refit_is_fresh_fit (p0 p : cargs) (h : list (event mat kid num rg)) (X Y : mat) (W : option mat) :
    same_obs (run (init p0) (h ++ [SetParams p; Fit X Y W])) (fit (init p) X Y W).
  Proof.
    unfold KPCovRState.run. rewrite fold_left_app. cbn [fold_left step].
    apply fit_forgets. reflexivity.
  Qed.

  (* the same for a fit that is not preceded by set_params: the constructor arguments in force *)
  Theorem refit_same_args (st : state) (X Y : mat) (W : option mat) :
    same_obs (fit st X Y W) (fit (init (prm st)) X Y W).
  Proof. apply fit_forgets. reflexivity. Qed.

  (* ---- the statement is not vacuous: the leftover attribute really is there ------------- *)
  Definition center_off (p : cargs) : cargs :=
    mk_cargs false (p_kernel p) (p_num p) (p_regr p) (p_inv p).

  Lemma stale_centerer_present (p : cargs) (X1 Y1 X2 Y2 : mat) (W1 W2 : option mat) :
    p_center p = true ->
    centerer (run (init p) [Fit X1 Y1 W1; SetParams (center_off p); Fit X2 Y2 W2])
    = Some (kn_fit (getk (p_kernel p) X1 X1)) /\
    centerer (fit (init (center_off p)) X2 Y2 W2) = None.
  Proof. intros Hc; cbn; rewrite Hc; split; reflexivity. Qed.

  (* keying the centring on hasattr(self, "centerer_") breaks it: after that history transform
     returns the kernel centred with the normaliser of the FIRST data set *)
  Lemma hasattr_guard_differs (p : cargs) (X1 Y1 X2 Y2 : mat) (W1 W2 : option mat) (Xn : mat) :
    p_center p = true ->
    let st := run (init p) [Fit X1 Y1 W1; SetParams (center_off p); Fit X2 Y2 W2] in
    let c1 := kn_fit (getk (p_kernel p) X1 X1) in
    exists P,
      pkt st = Some P /\
      transform st Xn = Val (mmul (getk (p_kernel p) Xn X2) P) /\
      transform_hasattr st Xn = Val (mmul (kn_tr c1 (getk (p_kernel p) Xn X2)) P).
  Proof.
    intros Hc; cbn.
    unfold KPCovRState.transform, KPCovRState.transform_hasattr, new_kernel, new_kernel_hasattr; cbn.
    rewrite Hc; cbn.
    eexists; repeat split; reflexivity.
  Qed.

  (* inverse_transform is NOT covered: ptx_ of an earlier fit survives a refit with
     fit_inverse_transform=False (outside the property; recorded as an observation) *)
  Definition inv_off (p : cargs) : cargs :=
    mk_cargs (p_center p) (p_kernel p) (p_num p) (p_regr p) false.
  Lemma stale_ptx_observable (p : cargs) (X1 Y1 X2 Y2 : mat) (W1 W2 : option mat) (T : mat) :
    p_inv p = true ->
    (exists P, inverse_transform (run (init p) [Fit X1 Y1 W1; SetParams (inv_off p); Fit X2 Y2 W2]) T
               = Val (mmul T (mmul P X1))) /\
    inverse_transform (fit (init (inv_off p)) X2 Y2 W2) T = AttrError.
  Proof.
    intros Hi; cbn. unfold KPCovRState.inverse_transform; cbn. rewrite Hi; cbn.
    split; [eexists; reflexivity | reflexivity].
  Qed.

  (* ---- unfitted object, and center switched on without a refit --------------------------- *)
  Lemma unfitted_raises (p : cargs) (Xn Yn : mat) :
    transform (init p) Xn = NotFitted /\ predict (init p) Xn = NotFitted /\ score (init p) Xn Yn = NotFitted.
  Proof. repeat split; reflexivity. Qed.

  Definition center_on (p : cargs) : cargs :=
    mk_cargs true (p_kernel p) (p_num p) (p_regr p) (p_inv p).
  Lemma center_on_without_refit (p : cargs) (X Y : mat) (W : option mat) (Xn Yn : mat) :
    p_center p = false ->
    let st := set_params (fit (init p) X Y W) (center_on p) in
    transform st Xn = AttrError /\ predict st Xn = AttrError /\ score st Xn Yn = AttrError.
  Proof.
    intros Hc; cbn.
    unfold KPCovRState.transform, KPCovRState.predict, KPCovRState.score, new_kernel; cbn.
    rewrite Hc; cbn. repeat split; reflexivity.
  Qed.

  Lemma stale_centerer_summary (p : cargs) (X1 Y1 X2 Y2 : mat) (W1 W2 : option mat) (Xn : mat) :
    p_center p = true ->
    let st := run (init p) [Fit X1 Y1 W1; SetParams (center_off p); Fit X2 Y2 W2] in
    let c1 := kn_fit (getk (p_kernel p) X1 X1) in
    centerer st = Some c1 /\ centerer (fit (init (center_off p)) X2 Y2 W2) = None /\
    exists P, pkt st = Some P /\
      transform st Xn = Val (mmul (getk (p_kernel p) Xn X2) P) /\
      transform_hasattr st Xn = Val (mmul (kn_tr c1 (getk (p_kernel p) Xn X2)) P).
  Proof.
    intros Hc.
    destruct (stale_centerer_present p X1 Y1 X2 Y2 W1 W2 Hc) as [H1 H2].
    split; [exact H1 | split; [exact H2 |]].
    exact (hasattr_guard_differs p X1 Y1 X2 Y2 W1 W2 Xn Hc).
  Qed.

  Lemma raises_summary (p : cargs) (X Y : mat) (W : option mat) (Xn Yn : mat) :
    (transform (init p) Xn = NotFitted /\ predict (init p) Xn = NotFitted /\ score (init p) Xn Yn = NotFitted) /\
    (p_center p = false ->
     let st := set_params (fit (init p) X Y W) (center_on p) in
     transform st Xn = AttrError /\ predict st Xn = AttrError /\ score st Xn Yn = AttrError).
  Proof.
    split.
    - exact (unfitted_raises p Xn Yn).
    - exact (center_on_without_refit p X Y W Xn Yn).
  Qed.

  (* ---- named kernel = the same kernel precomputed ---------------------------------------
     [kpre] is the identifier of kernel="precomputed": _get_kernel returns its first argument.
     An object with a named kernel fitted on X and an object with kernel="precomputed" (all other
     constructor arguments equal) fitted on K = k(X, X) have the same fitted attributes; transform
     and predict of the first on Xn are those of the second on k(Xn, X); score on the training
     set coincides. *)
  Variable kpre : kid.
  Hypothesis getk_pre : forall A B, getk kpre A B = A.

  Definition as_precomputed (p : cargs) : cargs :=
    mk_cargs (p_center p) kpre (p_num p) (p_regr p) (p_inv p).

  Theorem named_is_precomputed (p : cargs) (X Y : mat) (W : option mat) :
    let K := getk (p_kernel p) X X in
    let s1 := fit (init p) X Y W in
    let s2 := fit (init (as_precomputed p)) K Y W in
    pkt s1 = pkt s2 /\ pky s1 = pky s2 /\ pty s1 = pty s2 /\ ptk s1 = ptk s2 /\
    centerer s1 = centerer s2 /\ regr_W s1 = regr_W s2 /\
    (forall Xn, transform s1 Xn = transform s2 (getk (p_kernel p) Xn X)) /\
    (forall Xn, predict s1 Xn = predict s2 (getk (p_kernel p) Xn X)) /\
    (forall Yn, score s1 X Yn = score s2 K Yn).
  Proof.
    cbn.
    unfold KPCovRState.transform, KPCovRState.predict, KPCovRState.score, new_kernel, KPCovRState.fit; cbn.
    rewrite !getk_pre.
    destruct (p_center p); destruct (p_regr p); cbn; repeat split; intros; rewrite ?getk_pre; reflexivity.
  Qed.

  (* ---- center=True = explicit KernelNormalizer -------------------------------------------
     An object with center=True fitted on X equals an object with center=False and
     kernel="precomputed" fitted on c.transform(K), c = KernelNormalizer().fit(K); new samples
     are passed as c.transform(k(Xn, X)). *)
  Definition as_normalized (p : cargs) : cargs :=
    mk_cargs false kpre (p_num p) (p_regr p) (p_inv p).

  Theorem center_is_explicit_normalizer (p : cargs) (X Y : mat) (W : option mat) :
    p_center p = true ->
    let K := getk (p_kernel p) X X in
    let c := kn_fit K in
    let s1 := fit (init p) X Y W in
    let s3 := fit (init (as_normalized p)) (kn_tr c K) Y W in
    pkt s1 = pkt s3 /\ pky s1 = pky s3 /\ pty s1 = pty s3 /\ ptk s1 = ptk s3 /\
    (forall Xn, transform s1 Xn = transform s3 (kn_tr c (getk (p_kernel p) Xn X))) /\
    (forall Xn, predict s1 Xn = predict s3 (kn_tr c (getk (p_kernel p) Xn X))).
  Proof.
    intros Hc; cbn.
    unfold KPCovRState.transform, KPCovRState.predict, new_kernel, KPCovRState.fit; cbn.
    rewrite Hc, !getk_pre; cbn.
    destruct (p_regr p); cbn; repeat split; intros; rewrite ?getk_pre; reflexivity.
  Qed.
End MachineP.

(* ---- a concrete machine (numbers for matrices) showing that the hypotheses are satisfiable and
        that the stale attribute changes the hasattr variant's answer ------------------------- *)
Section Tiny.
  Let mat := nat. Let kid := bool. Let num := unit. Let rg := unit. Let cen := nat.
  Definition t_getk (k : kid) (A B : mat) : mat := if k then A else A * B + 1.
  Definition t_fit (K : mat) : cen := K.
  Definition t_tr (c : cen) (M : mat) : mat := M + c.
  Definition t_vv (c : cen) (A B : mat) : mat := A + B + c.
  Definition t_regress (_ : rg) (K Y : mat) : mat := K + Y.
  Definition t_lstsq (_ : num) (K Y : mat) : mat := K + 2 * Y.
  Definition t_core (_ : num) (K Yh W : mat) : mat * mat := (K + Yh, W + 1).
  Definition t_loss (_ : num) (a b c d e f : mat) : mat := a + b + c + d + e + f.
  Definition t_p : cargs kid num rg := mk_cargs true false tt (RegFit tt) false.

  Lemma tiny_pre : forall A B, t_getk true A B = A.
  Proof. reflexivity. Qed.

  Definition t_run := @run nat bool unit unit nat t_getk t_fit t_tr t_regress t_lstsq t_core Nat.mul.
  Definition t_fit1 := @fit nat bool unit unit nat t_getk t_fit t_tr t_regress t_lstsq t_core Nat.mul.
  Definition t_transform := @transform nat bool unit unit nat t_getk t_tr Nat.mul.
  Definition t_transform_hasattr := @transform_hasattr nat bool unit unit nat t_getk t_tr Nat.mul.
  Definition t_init := @init nat bool unit unit nat.

  Lemma tiny_hasattr_differs :
    let st := t_run (t_init t_p)
                  [@KPCovRState.Fit nat bool unit unit 2 3 None;
                   @KPCovRState.SetParams nat bool unit unit (@center_off _ _ _ t_p);
                   @KPCovRState.Fit nat bool unit unit 4 5 None] in
    t_transform st 7 <> t_transform_hasattr st 7 /\
    t_transform st 7 = t_transform (t_fit1 (t_init (@center_off _ _ _ t_p)) 4 5 None) 7.
  Proof. vm_compute. split; [discriminate | reflexivity]. Qed.
End Tiny.
