(* C02 statements instantiated for fps_fit / pcov_fit (proof side). *)
From Verif Require Import ListX Greedy FPS ListXP GreedyP FPSP FPSInst.

Definition dims (d : nat) (cs : list (list Z)) := Forall (fun c => length c = d) cs.
Definition in_range (n : nat) (l : list nat) := Forall (fun i => (i < n)%nat) l.

Section FPSThm.
  Variables (cs : list (list Z)) (d : nat) (ycand : option (list (list Z))).
  Hypothesis Hd : dims d cs.
  Variables (inits : list nat) (t : thr) (niter : nat) (g' : fps_g) (st : bool).
  Hypothesis Hnd : NoDup inits.
  Hypothesis Hr : in_range (length cs) inits.
  Hypothesis Hfit : fps_fit cs ycand inits t niter = (g', st).
  Notation n := (length cs).

  Lemma fps_table_true :
    haus (sst g') = map (fun j => tabmin (fps_dist cs) j (sel g')) (seq 0 n).
  Proof. eapply table_true; eauto using fps_newdist. Qed.

  Lemma fps_select_distance_true k :
    (k < length (sel g'))%nat ->
    nth k (select_distance g') None = tabmin (fps_dist cs) (nth k (sel g') O) (firstn k (sel g')).
  Proof. eapply select_distance_true; eauto using fps_newdist. Qed.

  Lemma fps_initial : firstn (length inits) (sel g') = inits.
  Proof. eapply initial_selections; eauto using fps_newdist. Qed.

  Lemma fps_steps_farthest :
    inits <> [] -> exists new, sel g' = inits ++ new /\ farthest_seq cs (fps_dist cs) inits new.
  Proof.
    intros Hne. eapply fit_steps_farthest; eauto using fps_newdist, fps_dist_nonneg, fps_dist_self.
  Qed.

  Lemma fps_distinct_in_range : NoDup (sel g') /\ in_range n (sel g').
  Proof.
    assert (H : GInv dst cs ycand (FP cs) g') by (eapply fit_GI; eauto using fps_newdist).
    destruct H as (A & B & _). auto.
  Qed.
End FPSThm.

Section PCovThm.
  Variables (X Y : list (list Z)) (dx dy : nat) (a : Z) (ycand : option (list (list Z))).
  Hypothesis Ha : 0 <= a <= 4.
  Hypothesis HdX : dims dx X.
  Hypothesis HdY : dims dy Y.
  Hypothesis HlenY : length Y = length X.
  Variables (i0 : nat) (t : thr) (niter : nat) (g' : fps_g) (st : bool).
  Hypothesis Hi0 : (i0 < length X)%nat.
  Hypothesis Hfit : pcov_fit false (kernel4 a X Y) X ycand i0 t niter = (g', st).
  Notation n := (length X).
  Notation pd := (pcov_dist X Y a).

  Lemma pcov_as_run :
    run dst dscore (dupd (diagm (kernel4 a X Y)) (pcov_cross false (kernel4 a X Y))) X ycand t
        (niter - length (sel (pcov_init false (kernel4 a X Y) X ycand i0)))
        (fold_left (post dst (dupd (diagm (kernel4 a X Y)) (pcov_cross false (kernel4 a X Y))) X ycand)
                   [i0] (g0 X)) = (g', st).
  Proof. exact Hfit. Qed.

  Let Hnd1 : NoDup [i0]. Proof. constructor; [intros []|constructor]. Qed.
  Let Hr1 : in_range n [i0]. Proof. constructor; [exact Hi0|constructor]. Qed.

  Lemma pcov_table_true :
    haus (sst g') = map (fun j => tabmin pd j (sel g')) (seq 0 n).
  Proof.
    eapply table_true; [| | |exact pcov_as_run]; eauto.
    intros l Hl. eapply pcov_newdist; eauto.
  Qed.

  Lemma pcov_select_distance_true k :
    (k < length (sel g'))%nat ->
    nth k (select_distance g') None = tabmin pd (nth k (sel g') O) (firstn k (sel g')).
  Proof.
    eapply select_distance_true; [| | |exact pcov_as_run]; eauto.
    intros l Hl. eapply pcov_newdist; eauto.
  Qed.

  Lemma pcov_steps_farthest :
    exists new, sel g' = [i0] ++ new /\ farthest_seq X pd [i0] new.
  Proof.
    refine (fit_steps_farthest X ycand _ _ pd _ _ _ [i0] t _ g' st Hnd1 Hr1 _ pcov_as_run).
    - intros l Hl. exact (pcov_newdist X Y dx dy a HdX HdY HlenY l Hl).
    - intros j l. eapply pcov_dist_nonneg; eassumption.
    - intros i. eapply pcov_dist_self; eassumption.
    - discriminate.
  Qed.
End PCovThm.
