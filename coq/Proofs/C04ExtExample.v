(* Non-vacuity of the hypotheses of the round-3 C04 theorems (Proofs/C04ExtP.v): the 2 x 1
   example of Proofs/PCovRExample.v fitted by the sample-space route for one mixing and by the
   feature-space route for a larger one.                                                     *)
From mathcomp Require Import all_ssreflect all_algebra.
From mathcomp Require Import ring.
From Verif Require Import MExp MExpMx PCovR PCovRC04 PCovRP PCovRProg KyFan C14Thm C04Thm
  PCovRExample C04ExtP.
Set Implicit Arguments.
Unset Strict Implicit.
Unset Printing Implicit Defensive.
Import Order.TTheory GRing.Theory Num.Theory.
Local Open Scope ring_scope.

Section Ex.
  Variable F : rcfType.

  Lemma ex_contract (mix : F) : regressor_contract 2 1 1 (ex_env mix).
  Proof. by have [_ hw _] := ex_sample mix. Qed.

  Lemma ex_full_fit_sp (mix : F) (sp : bool) :
    full_fit_sp 1 1 (isT : (1 <= 2)%N) sp (ex_env mix) (ex_U F) (ex_L F).
  Proof.
    have [h1 h2 h3 h4] := ex_full mix; split=> //; split=> //.
    - by case: sp; [exact: ex_sample | exact: ex_feature].
    - exact: ex_contract.
    - exact: ex_centred.
    - exact: ex_retained.
  Qed.

  (* the feature-space route spans the same line as the sample-space route in the example *)
  Lemma ex_own_Q (mix : F) : own_Q 2 1 1 (ex_env mix) false = e_Vs 2 1 (ex_env mix).
  Proof.
    rewrite /own_Q /f_U /f_A fcE /e_Vs /e_Vf /e_X /e_UC /e_vC /e_tol.
    apply/matrixP=> i j; rewrite !(mxE, big_ord_recl, big_ord0) /ex_entry /= /pm1 /=.
    rewrite ?(ord1 j) ?eqxx ?mulr1n.
    rewrite ?isq2.
    by case: i => [[|[|i]] hi] //=; ring.
  Qed.

  Lemma ex_c04_ext :
    exists (ea eb : env_mx F) (U : 'M[F]_2) (L : 'cV[F]_2),
      [/\ [/\ e_X 2 1 ea = e_X 2 1 eb, e_Y 2 1 ea = e_Y 2 1 eb & e_Yh 2 1 ea = e_Yh 2 1 eb],
          [/\ 0 <= e_a ea, e_a ea < e_a eb & e_a eb <= 1],
          full_fit_sp 1 1 (isT : (1 <= 2)%N) true ea U L,
          full_fit_sp 1 1 (isT : (1 <= 2)%N) false eb U L
        & (e_X 2 1 ea)^T *m (e_Y 2 1 ea - e_Yh 2 1 ea) = 0].
  Proof.
    exists (ex_env (3%:R^-1)), (ex_env (2%:R / 3%:R)), (ex_U F), (ex_L F).
    split; [split | split | exact: ex_full_fit_sp | exact: ex_full_fit_sp | exact: ex_ls].
    - by apply/matrixP=> i j; rewrite /e_X !mxE.
    - by apply/matrixP=> i j; rewrite /e_Y !mxE.
    - by apply/matrixP=> i j; rewrite /e_Yh !mxE.
    - by rewrite ex_mixing invr_ge0 ler0n.
    - rewrite !ex_mixing -[X in X < _]mul1r ltr_pmul2r ?invr_gt0 ?ltr0n //.
      by rewrite ltr1n.
    - by rewrite ex_mixing ler_pdivr_mulr ?ltr0n // mul1r ler_nat.
  Qed.

  (* the regression limit by the feature-space route *)
  Lemma ex_c04_reglimit_feature :
    exists e0 : env_mx F,
      [/\ e_a e0 = 0, fit_oracle 2 1 1 1 e0 false /\ regressor_contract 2 1 1 e0, centred 2 1 e0,
          (e_X 2 1 e0)^T *m (e_Y 2 1 e0 - e_Yh 2 1 e0) = 0
        & eval_mx e0 (kern_prog 2 1 1)
          = own_Q 2 1 1 e0 false *m dmap (fun x => g_mk (e_tol e0) x * x) (e_S 1 e0)
            *m (own_Q 2 1 1 e0 false)^T].
  Proof.
    exists (ex_env 0); split.
    - exact: ex_mixing.
    - by split; [exact: ex_feature | exact: ex_contract].
    - exact: ex_centred.
    - exact: ex_ls.
    - by rewrite ex_own_Q; exact: ex_capture.
  Qed.
End Ex.
