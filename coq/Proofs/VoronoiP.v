(* C06: the Voronoi bookkeeping computes exactly plain FPS's distance table, for every
   branch schedule (every full_fraction, every outcome of the timing calibration). *)
From Verif Require Import ListX Greedy FPS Voronoi ListXP GreedyP FPSP FPSInst GeomP.

(* ---- list helpers ------------------------------------------------------------------------ *)
Lemma nth_map2 {A B C} (f : A -> B -> C) l m i da db dc :
  (i < length l)%nat -> (i < length m)%nat ->
  nth i (map2 f l m) dc = f (nth i l da) (nth i m db).
Proof.
  revert m i; induction l as [|a l IH]; intros [|b m] [|i] H1 H2; cbn in *; try lia; auto.
  apply IH; lia.
Qed.

Lemma zip3_length {A B C D} (f : A -> B -> C -> D) a b c :
  length a = length b -> length b = length c -> length (zip3 f a b c) = length a.
Proof.
  revert b c; induction a as [|x a IH]; intros [|y b] [|z c] H1 H2; cbn in *; try lia.
  f_equal. apply IH; lia.
Qed.

Lemma nth_zip3 {A B C D} (f : A -> B -> C -> D) a b c i da db dc dd :
  (i < length a)%nat -> (i < length b)%nat -> (i < length c)%nat ->
  nth i (zip3 f a b c) dd = f (nth i a da) (nth i b db) (nth i c dc).
Proof.
  revert b c i; induction a as [|x a IH]; intros [|y b] [|z c] [|i] H1 H2 H3; cbn in *; try lia; auto.
  apply IH; lia.
Qed.

Lemma count_true_zero m : count_true m = O -> forall j, nth j m false = false.
Proof.
  unfold count_true. induction m as [|b m IH]; intros H [|j]; cbn; auto.
  - destruct b; [discriminate|reflexivity].
  - apply IH. destruct b; [discriminate|exact H].
Qed.

Lemma count_true_all n0 : (0 < n0)%nat -> count_true (repeat true n0) <> O.
Proof. destruct n0; [lia|]. cbn. discriminate. Qed.

Section VorP.
  Variable cs : list (list Z).
  Variable d : nat.
  Hypothesis Hdim : Forall (fun c => length c = d) cs.
  Variable br : nat -> nat -> bool.
  Let n := length cs.
  Notation dist := (fps_dist cs).
  Notation cnd i := (nth i cs []).
  Notation tab := (tabmin dist).

  Lemma d2_dist j l : (j < n)%nat -> (l < n)%nat -> d2 cs j l = dist j l.
  Proof.
    intros Hj Hl. unfold d2, fps_norms, fps_dist.
    change 0 with (sqn []). rewrite !map_nth.
    apply sqdist_expand. rewrite !(cnd_len cs d Hdim) by assumption. reflexivity.
  Qed.

  Lemma dist_sym j l : dist j l = dist l j.
  Proof. apply sqdist_sym. Qed.

  (* pruning: a candidate whose cell centre S is far from the new point L keeps its distance *)
  Lemma prune_dist j S L :
    (j < n)%nat -> (S < n)%nat -> (L < n)%nat ->
    4 * dist j S <= dist S L -> dist j S <= dist j L.
  Proof.
    intros Hj HS HL H. unfold fps_dist in *.
    apply (prune_sound (cnd S) (cnd L) (cnd j)).
    - rewrite !(cnd_len cs d Hdim) by assumption. reflexivity.
    - rewrite !(cnd_len cs d Hdim) by assumption. reflexivity.
    - rewrite (sqdist_sym (cnd L) (cnd S)). exact H.
  Qed.

  Definition VInv (s : vst) (sl : list nat) : Prop :=
    v_sel s = sl /\ Forall (fun i => (i < n)%nat) sl /\
    length (v_haus s) = n /\ length (v_hsel s) = n /\ length (v_vloc s) = n /\
    v_haus s = map (fun j => tab j sl) (seq 0 n) /\
    (sl <> [] -> forall j, (j < n)%nat ->
       (nth j (v_vloc s) O < length sl)%nat /\
       nth j (v_haus s) None = Some (dist j (nth (nth j (v_vloc s) O) sl O))).

  Lemma haus_nth s sl j : VInv s sl -> (j < n)%nat -> nth j (v_haus s) None = tab j sl.
  Proof.
    intros (_ & _ & _ & _ & _ & Ht & _) Hj. rewrite Ht.
    rewrite (nth_map_lt (fun j => tab j sl) (seq 0 n) j None O) by (rewrite seq_length; exact Hj).
    now rewrite seq_nth.
  Qed.

  (* value of the activity mask at candidate j *)
  Lemma active_nth s sl i j :
    VInv s sl -> (j < n)%nat ->
    nth j (active cs s i) false =
    match sl with
    | [] => true
    | _ => match nth j (v_haus s) None with
           | None => true
           | Some hz => d2 cs (nth (nth j (v_vloc s) O) sl O) i <? 4 * hz
           end
    end.
  Proof.
    intros HV Hj. pose proof HV as (Hs & _ & Hl1 & _ & Hl3 & _ & Hc).
    unfold active. rewrite Hs. destruct sl as [|a sl'].
    - rewrite (nth_map_lt (fun _ => true) (v_haus s) j false None) by (rewrite Hl1; exact Hj). reflexivity.
    - rewrite (nth_map2 _ (v_vloc s) (v_haus s) j O None false) by lia.
      destruct (nth j (v_haus s) None) as [hz|] eqn:Eh; [|reflexivity].
      destruct (Hc ltac:(discriminate) j Hj) as [Hv _].
      unfold dSL4. rewrite Hs.
      rewrite (nth_map_lt (fun k => d2 cs k i) (a :: sl') (nth j (v_vloc s) O) 0 O Hv). reflexivity.
  Qed.

  (* the table after the update is FPS's table, whatever branch is taken *)
  Definition new_tab (sl : list nat) (i : nat) : list ExtZ :=
    map (fun j => ext_min (tab j sl) (dist j i)) (seq 0 n).

  (* inactive candidates cannot lower their distance *)
  Lemma inactive_keeps s sl i j hz :
    VInv s sl -> sl <> [] -> (i < n)%nat -> (j < n)%nat ->
    nth j (active cs s i) false = false -> nth j (v_haus s) None = Some hz ->
    hz <= dist j i.
  Proof.
    intros HV Hne Hi Hj Ha Hh. pose proof HV as (_ & Hr & _ & _ & _ & _ & Hc).
    rewrite (active_nth s sl i j HV Hj) in Ha. destruct sl as [|a sl']; [congruence|].
    rewrite Hh in Ha. apply Z.ltb_ge in Ha.
    destruct (Hc Hne j Hj) as [Hv Hd]. rewrite Hh in Hd. injection Hd as Hd.
    set (S := nth (nth j (v_vloc s) O) (a :: sl') O) in *.
    assert (HS : (S < n)%nat).
    { rewrite Forall_forall in Hr. apply Hr. apply nth_In. exact Hv. }
    rewrite (d2_dist S i HS Hi) in Ha. subst hz.
    apply prune_dist; assumption.
  Qed.

  Lemma tab_nonneg sl j z : tab j sl = Some z -> 0 <= z.
  Proof.
    intros H. destruct sl as [|a sl']; [discriminate|].
    destruct (tabmin_some cs dist (fps_dist_nonneg cs) j (a :: sl')) as (z' & Hz & Hz0); [discriminate|].
    rewrite H in Hz. now injection Hz as ->.
  Qed.

  (* entry j of new_dist_ in either branch *)
  Lemma vnew_nth s sl i j full :
    VInv s sl -> (i < n)%nat -> (j < n)%nat ->
    nth j (vnew cs s i (active cs s i) full) None =
    if full then Some (d2 cs j i)
    else if Nat.eqb j i then Some 0
         else if nth j (active cs s i) false then Some (d2 cs j i) else nth j (v_haus s) None.
  Proof.
    intros HV Hi Hj. pose proof HV as (_ & _ & Hl1 & _ & Hl3 & _).
    assert (Hla : length (active cs s i) = n).
    { unfold active. destruct (v_sel s); [now rewrite map_length|].
      rewrite map2_length, Hl1, Hl3. apply Nat.min_id. }
    unfold vnew. fold n. destruct full; cbv iota.
    - rewrite (nth_map_lt (fun j => Some (d2 cs j i)) (seq 0 n) j None O) by (rewrite seq_length; exact Hj).
      now rewrite seq_nth.
    - destruct (Nat.eqb j i) eqn:E.
      + apply Nat.eqb_eq in E. subst j. apply nth_upd_nth_eq.
        rewrite zip3_length; rewrite ?seq_length; congruence.
      + apply Nat.eqb_neq in E. rewrite nth_upd_nth_neq by congruence.
        rewrite (nth_zip3 _ (seq 0 n) (active cs s i) (v_haus s) j O false None None)
          by (rewrite ?seq_length; congruence).
        now rewrite seq_nth.
  Qed.

  (* pointwise: min(haus_j, new_j) is the true updated minimum, and whether j moved cell *)
  Lemma step_point s sl i j full :
    VInv s sl -> (i < n)%nat -> (j < n)%nat ->
    let h := nth j (v_haus s) None in
    let nw := nth j (vnew cs s i (active cs s i) full) None in
    ext_min2 h nw = ext_min (tab j sl) (dist j i) /\
    (ext_lt nw h = true -> nw = Some (dist j i)) /\
    (ext_lt nw h = false -> ext_min2 h nw = h).
  Proof.
    intros HV Hi Hj h nw. subst h nw.
    rewrite (vnew_nth s sl i j full HV Hi Hj). rewrite (haus_nth s sl j HV Hj).
    rewrite (d2_dist j i Hj Hi).
    assert (Hcase : forall x, ext_min2 (tab j sl) (Some x) = ext_min (tab j sl) x /\
                              (ext_lt (Some x) (tab j sl) = true -> Some x = Some x) /\
                              (ext_lt (Some x) (tab j sl) = false -> ext_min2 (tab j sl) (Some x) = tab j sl)).
    { intros x. unfold ext_min2, ext_lt, ext_min. destruct (tab j sl) as [hz|]; cbn.
      - destruct (x <? hz) eqn:E; [apply Z.ltb_lt in E|apply Z.ltb_ge in E];
          (split; [f_equal; lia|split; [reflexivity|intros; congruence || reflexivity]]).
      - split; [reflexivity|split; [reflexivity|discriminate]]. }
    destruct full; [apply Hcase|].
    destruct (Nat.eqb j i) eqn:E.
    - apply Nat.eqb_eq in E. subst j. rewrite !(fps_dist_self cs i).
      destruct (Hcase 0) as (A & B & Cc). split; [exact A|]. split; [reflexivity|exact Cc].
    - destruct (nth j (active cs s i) false) eqn:Ea; [apply Hcase|].
      (* inactive: new_j = haus_j, and the true distance to i is not smaller *)
      rewrite <- (haus_nth s sl j HV Hj).
      destruct (nth j (v_haus s) None) as [hz|] eqn:Eh.
      + assert (Hne : sl <> []).
        { intros ->. rewrite (active_nth s [] i j HV Hj) in Ea. discriminate. }
        pose proof (inactive_keeps s sl i j hz HV Hne Hi Hj Ea Eh) as Hle.
        unfold ext_min2, ext_lt, ext_min. rewrite Z.ltb_irrefl. cbn.
        split; [f_equal; lia|]. split; [discriminate|reflexivity].
      + rewrite (active_nth s sl i j HV Hj) in Ea. destruct sl; [discriminate|].
        rewrite Eh in Ea. discriminate.
  Qed.

  Lemma vinv_lengths s sl i :
    VInv s sl -> (i < n)%nat ->
    length (active cs s i) = n /\
    forall full, length (vnew cs s i (active cs s i) full) = n.
  Proof.
    intros (_ & _ & Hl1 & _ & Hl3 & _) Hi.
    assert (Hla : length (active cs s i) = n).
    { unfold active. destruct (v_sel s); [now rewrite map_length|].
      rewrite map2_length, Hl1, Hl3. apply Nat.min_id. }
    split; [exact Hla|]. intros full. unfold vnew. fold n. destruct full; cbv iota.
    - now rewrite map_length, seq_length.
    - rewrite upd_nth_length, zip3_length; rewrite ?seq_length; congruence.
  Qed.

  (* ---- the step theorem ------------------------------------------------------------------ *)
  Theorem vupd_inv s sl i :
    VInv s sl -> (i < n)%nat ->
    VInv (vupd cs br s i) (sl ++ [i]) /\
    v_haus (vupd cs br s i) = new_tab sl i /\
    v_hsel (vupd cs br s i) = upd_nth i (nth i (v_haus s) None) (v_hsel s).
  Proof.
    intros HV Hi. pose proof HV as (Hs & Hr & Hl1 & Hl2 & Hl3 & Ht & Hc).
    destruct (vinv_lengths s sl i HV Hi) as [Hla Hln].
    assert (Hnsel : length (v_sel s) = length sl) by now rewrite Hs.
    (* the new table, in both the "no active point" and the general case *)
    assert (Hhaus : v_haus (vupd cs br s i) = new_tab sl i).
    { unfold vupd. destruct (Nat.eqb (count_true (active cs s i)) 0) eqn:Ec; cbn [v_haus].
      - apply Nat.eqb_eq in Ec. pose proof (count_true_zero _ Ec) as Hz.
        unfold new_tab. rewrite Ht. apply map_ext_in. intros j Hj. apply in_seq in Hj.
        assert (Hjn : (j < n)%nat) by lia.
        assert (Hne : sl <> []).
        { intros ->. specialize (Hz j). rewrite (active_nth s [] i j HV Hjn) in Hz. discriminate. }
        destruct (tab j sl) as [hz|] eqn:Eh.
        + assert (Eh' : nth j (v_haus s) None = Some hz) by (rewrite (haus_nth s sl j HV Hjn); exact Eh).
          pose proof (inactive_keeps s sl i j hz HV Hne Hi Hjn (Hz j) Eh') as Hle.
          cbn. f_equal. lia.
        + exfalso. specialize (Hz j). rewrite (active_nth s sl i j HV Hjn) in Hz.
          destruct sl; [congruence|]. rewrite (haus_nth s _ j HV Hjn), Eh in Hz. discriminate.
      - set (full := br (length (v_sel s)) (count_true (active cs s i))).
        apply nth_ext with (d := None) (d' := None).
        + rewrite map2_length, Hl1, (Hln full), Nat.min_id. unfold new_tab.
          now rewrite map_length, seq_length.
        + intros j Hj. rewrite map2_length, Hl1, (Hln full), Nat.min_id in Hj.
          rewrite (nth_map2 _ (v_haus s) _ j None None None) by (rewrite ?Hl1, ?(Hln full); exact Hj).
          destruct (step_point s sl i j full HV Hi Hj) as (A & _). cbv zeta in A. rewrite A.
          unfold new_tab.
          rewrite (nth_map_lt (fun j => ext_min (tab j sl) (dist j i)) (seq 0 n) j None O)
            by (rewrite seq_length; exact Hj).
          now rewrite seq_nth. }
    split; [|split; [exact Hhaus|]].
    2:{ unfold vupd. destruct (Nat.eqb _ 0); reflexivity. }
    (* invariant for the new state *)
    unfold VInv. rewrite Hhaus.
    assert (Hsel' : v_sel (vupd cs br s i) = sl ++ [i]).
    { unfold vupd. destruct (Nat.eqb _ 0); cbn; now rewrite Hs. }
    split; [exact Hsel'|]. split; [apply Forall_app; split; [exact Hr|repeat constructor; exact Hi]|].
    split; [unfold new_tab; now rewrite map_length, seq_length|].
    split; [unfold vupd; destruct (Nat.eqb _ 0); cbn; now rewrite upd_nth_length|].
    assert (Hvl : length (v_vloc (vupd cs br s i)) = n).
    { unfold vupd. destruct (Nat.eqb _ 0); cbn; rewrite upd_nth_length; [exact Hl3|].
      rewrite map2_length, map2_length, (Hln _), Hl1, Hl3, !Nat.min_id. reflexivity. }
    split; [exact Hvl|]. split.
    { unfold new_tab. apply map_ext. intros j. now rewrite tabmin_app. }
    intros _ j Hj. rewrite app_length. cbn [length].
    assert (Hnew_j : nth j (new_tab sl i) None = ext_min (tab j sl) (dist j i)).
    { unfold new_tab.
      rewrite (nth_map_lt (fun j => ext_min (tab j sl) (dist j i)) (seq 0 n) j None O)
        by (rewrite seq_length; exact Hj).
      now rewrite seq_nth. }
    rewrite Hnew_j.
    destruct (Nat.eq_dec j i) as [->|Hji].
    - (* the selected point itself: cell nsel, distance 0 *)
      assert (Hv : nth i (v_vloc (vupd cs br s i)) O = length sl).
      { unfold vupd. destruct (Nat.eqb _ 0); cbn [v_vloc]; rewrite nth_upd_nth_eq; try congruence.
        rewrite map2_length, map2_length, (Hln _), Hl1, Hl3, !Nat.min_id. exact Hi. }
      rewrite Hv. split; [lia|]. rewrite nth_middle.
      rewrite !(fps_dist_self cs i).
      destruct (tab i sl) as [hz|] eqn:Eh; cbn; [|reflexivity].
      pose proof (tab_nonneg sl i hz Eh). f_equal. lia.
    - unfold vupd.
      destruct (Nat.eqb (count_true (active cs s i)) 0) eqn:Ec; cbn [v_vloc].
      + (* nothing active: cells unchanged *)
        rewrite nth_upd_nth_neq by congruence.
        apply Nat.eqb_eq in Ec. pose proof (count_true_zero _ Ec) as Hz.
        assert (Hne : sl <> []).
        { intros ->. specialize (Hz j). rewrite (active_nth s [] i j HV Hj) in Hz. discriminate. }
        destruct (Hc Hne j Hj) as [Hv Hd]. split; [lia|].
        rewrite app_nth1 by exact Hv.
        rewrite (haus_nth s sl j HV Hj) in Hd. rewrite Hd. cbn.
        assert (Eh' : nth j (v_haus s) None = Some (dist j (nth (nth j (v_vloc s) O) sl O)))
          by (rewrite (haus_nth s sl j HV Hj); exact Hd).
        pose proof (inactive_keeps s sl i j _ HV Hne Hi Hj (Hz j) Eh') as Hle.
        f_equal. lia.
      + set (full := br (length (v_sel s)) (count_true (active cs s i))).
        rewrite nth_upd_nth_neq by congruence.
        rewrite (nth_map2 _ _ (v_vloc s) j false O O).
        2:{ rewrite map2_length, (Hln full), Hl1, Nat.min_id. exact Hj. }
        2:{ rewrite Hl3. exact Hj. }
        rewrite (nth_map2 _ _ (v_haus s) j None None false) by (rewrite ?(Hln full), ?Hl1; exact Hj).
        destruct (step_point s sl i j full HV Hi Hj) as (A & B & Cc). cbv zeta in A, B, Cc.
        destruct (ext_lt (nth j (vnew cs s i (active cs s i) full) None) (nth j (v_haus s) None)) eqn:El.
        * (* moved to the new cell *)
          rewrite Hnsel. split; [lia|]. rewrite nth_middle.
          rewrite <- A. unfold ext_min2. rewrite El. exact (B eq_refl).
        * (* stays in its cell *)
          specialize (Cc eq_refl). rewrite Cc in A.
          assert (Hne : sl <> []).
          { intros ->. rewrite (haus_nth s [] j HV Hj) in El. cbn in El.
            destruct (nth j (vnew cs s i (active cs s i) full) None) eqn:En; cbn in El; [discriminate|].
            rewrite (vnew_nth s [] i j full HV Hi Hj) in En.
            rewrite (active_nth s [] i j HV Hj) in En.
            destruct full; [discriminate|]. destruct (Nat.eqb j i); discriminate. }
          destruct (Hc Hne j Hj) as [Hv Hd]. split; [lia|].
          rewrite app_nth1 by exact Hv. rewrite <- A. exact Hd.
  Qed.
End VorP.
