(* Proofs about the session model (Model/QSSession.v): no call of the estimator writes the
   caller's cut-off arrays, an estimator's parameters are fixed by its construction, and a fit
   after ANY history is the fresh fit of Model/QuickShift.v. *)
From Verif Require Import ListX ListXP QuickShift QuickShiftP QSSession.
Close Scope Z_scope.
Open Scope nat_scope.

Lemma qstep_cuts cd S o : s_cuts (fst (qstep cd S o)) = s_cuts S.
Proof.
  destruct o as [e c s2 sh|e d|e sh|d w|e]; cbn [qstep].
  - destruct (construct _ _ _ _); reflexivity.
  - destruct (dim_mismatch _ _); [reflexivity|]. destruct (est_fit _ _); reflexivity.
  - reflexivity.
  - reflexivity.
  - reflexivity.
Qed.

Lemma qstep_len cd S o : length (s_est (fst (qstep cd S o))) = length (s_est S).
Proof.
  destruct o as [e c s2 sh|e d|e sh|d w|e]; cbn [qstep].
  - destruct (construct _ _ _ _); cbn; [apply upd_nth_length|reflexivity].
  - destruct (dim_mismatch _ _); [reflexivity|]. destruct (est_fit _ _); cbn; [apply upd_nth_length|reflexivity].
  - cbn. apply upd_nth_length.
  - reflexivity.
  - reflexivity.
Qed.

Lemma qrun_cons cd S o ops :
  fst (qrun cd S (o :: ops)) = fst (qrun cd (fst (qstep cd S o)) ops).
Proof.
  cbn [qrun]. destruct (qstep cd S o) as [S1 b]. cbn [fst]. destruct (qrun cd S1 ops). reflexivity.
Qed.

Lemma qrun_app cd a : forall S b,
  fst (qrun cd S (a ++ b)) = fst (qrun cd (fst (qrun cd S a)) b).
Proof.
  induction a as [|o a IH]; intros S b; [reflexivity|].
  rewrite <- app_comm_cons, !qrun_cons. apply IH.
Qed.

Lemma qrun_cuts cd ops : forall S, s_cuts (fst (qrun cd S ops)) = s_cuts S.
Proof.
  induction ops as [|o ops IH]; intros S; [reflexivity|].
  rewrite qrun_cons, IH. apply qstep_cuts.
Qed.

Lemma qrun_len cd ops : forall S, length (s_est (fst (qrun cd S ops))) = length (s_est S).
Proof.
  induction ops as [|o ops IH]; intros S; [reflexivity|].
  rewrite qrun_cons, IH. apply qstep_len.
Qed.

(* the caller's data are changed by the caller's own writes only *)
Definition caller_step (D : list qdata) (o : qop) : list qdata :=
  match o with
  | SetW d w => let q := nth d D no_data in upd_nth d (mkData (q_dim q) (q_D q) w) D
  | _ => D
  end.

Lemma qstep_data cd S o : s_data (fst (qstep cd S o)) = caller_step (s_data S) o.
Proof.
  destruct o as [e c s2 sh|e d|e sh|d w|e]; cbn [qstep caller_step].
  - destruct (construct _ _ _ _); reflexivity.
  - destruct (dim_mismatch _ _); [reflexivity|]. destruct (est_fit _ _); reflexivity.
  - reflexivity.
  - reflexivity.
  - reflexivity.
Qed.

Lemma qrun_data cd ops : forall S, s_data (fst (qrun cd S ops)) = fold_left caller_step ops (s_data S).
Proof.
  induction ops as [|o ops IH]; intros S; [reflexivity|].
  rewrite qrun_cons, IH, qstep_data. reflexivity.
Qed.

(* [reconf e o]: o re-binds est[e] or sets one of its parameters *)
Definition reconf (e : nat) (o : qop) : bool :=
  match o with
  | New e' _ _ _ => Nat.eqb e' e
  | SetShell e' _ => Nat.eqb e' e
  | _ => false
  end.

Lemma get_set_eq S e x : e < length (s_est S) -> get_est (set_est S e x) e = x.
Proof. intros H. unfold get_est, set_est. cbn. apply nth_upd_nth_eq. exact H. Qed.
Lemma get_set_neq S e e' x : e' <> e -> get_est (set_est S e' x) e = get_est S e.
Proof. intros H. unfold get_est, set_est. cbn. apply nth_upd_nth_neq. exact H. Qed.

Lemma get_set_params S e e' x :
  e_cut x = e_cut (get_est S e') -> e_shell x = e_shell (get_est S e') ->
  e_cut (get_est (set_est S e' x) e) = e_cut (get_est S e) /\
  e_shell (get_est (set_est S e' x) e) = e_shell (get_est S e).
Proof.
  intros H1 H2. destruct (Nat.eq_dec e' e) as [->|Hn].
  - destruct (Nat.lt_ge_cases e (length (s_est S))) as [L|L].
    + rewrite get_set_eq by exact L. split; assumption.
    + unfold get_est, set_est. cbn.
      rewrite !(nth_overflow _ no_est) by (rewrite ?upd_nth_length; exact L). split; reflexivity.
  - rewrite get_set_neq by exact Hn. split; reflexivity.
Qed.

Lemma qstep_keep cd S o e : reconf e o = false ->
  e_cut (get_est (fst (qstep cd S o)) e) = e_cut (get_est S e) /\
  e_shell (get_est (fst (qstep cd S o)) e) = e_shell (get_est S e).
Proof.
  destruct o as [e' c s2 sh|e' d|e' sh|d w|e']; cbn [qstep reconf]; intros Hr.
  - apply Nat.eqb_neq in Hr. destruct (construct _ _ _ _); cbn [fst]; [|split; reflexivity].
    rewrite get_set_neq by exact Hr. split; reflexivity.
  - destruct (dim_mismatch _ _); [split; reflexivity|].
    destruct (est_fit _ _); cbn [fst]; [|split; reflexivity].
    apply get_set_params; reflexivity.
  - apply Nat.eqb_neq in Hr. cbn [fst]. rewrite get_set_neq by exact Hr. split; reflexivity.
  - split; reflexivity.
  - split; reflexivity.
Qed.

Lemma qrun_keep cd e ops : forall S, forallb (fun o => negb (reconf e o)) ops = true ->
  e_cut (get_est (fst (qrun cd S ops)) e) = e_cut (get_est S e) /\
  e_shell (get_est (fst (qrun cd S ops)) e) = e_shell (get_est S e).
Proof.
  induction ops as [|o ops IH]; intros S H; [split; reflexivity|].
  cbn [forallb] in H. apply andb_prop in H. destruct H as [Ho Hr].
  apply negb_true_iff in Ho. rewrite qrun_cons.
  destruct (IH (fst (qstep cd S o)) Hr) as [A B]. destruct (qstep_keep cd S o e Ho) as [A' B'].
  split; congruence.
Qed.

(* the observation of a fit in state S *)
Definition fit_obs (r : option (list (option nat))) : qobs :=
  match r with Some R => ObsFit R (centres R) | None => ObsErr end.

Lemma qstep_fit_obs cd S e d : dim_mismatch cd (q_dim (get_data S d)) = false ->
  snd (qstep cd S (Fit e d)) = fit_obs (est_fit (get_est S e) (get_data S d)).
Proof. intros H. cbn [qstep]. rewrite H. destruct (est_fit _ _); reflexivity. Qed.

(* the parameters of est[e] after  pre ; New e ... ; mid  (mid without re-configuration of e) *)
Lemma params_after cd S0 pre mid e c s2 sh x :
  e < length (s_est S0) ->
  forallb (fun o => negb (reconf e o)) mid = true ->
  construct (s_cuts S0) c s2 sh = Some x ->
  let S := fst (qrun cd S0 (pre ++ New e c s2 sh :: mid)) in
  e_cut (get_est S e) = e_cut x /\ e_shell (get_est S e) = e_shell x.
Proof.
  intros He Hmid Hx. cbv zeta. rewrite qrun_app, qrun_cons.
  set (S1 := fst (qrun cd S0 pre)).
  destruct (qrun_keep cd e mid (fst (qstep cd S1 (New e c s2 sh))) Hmid) as [A B].
  rewrite A, B. cbn [qstep]. unfold S1. rewrite qrun_cuts, Hx. cbn [fst].
  rewrite get_set_eq by (rewrite qrun_len; exact He). split; reflexivity.
Qed.

(* ---- the theorems ------------------------------------------------------------------------ *)
Theorem session_cuts_unchanged cd S ops : s_cuts (fst (qrun cd S ops)) = s_cuts S.
Proof. apply qrun_cuts. Qed.

Theorem session_data_caller_only cd S ops :
  s_data (fst (qrun cd S ops)) = fold_left caller_step ops (s_data S).
Proof. apply qrun_data. Qed.

Theorem session_fit_fresh_cut cd S0 pre mid e c s2 sh d :
  e < length (s_est S0) ->
  forallb (fun o => negb (reconf e o)) mid = true ->
  let S := fst (qrun cd S0 (pre ++ New e (Some c) s2 sh :: mid)) in
  let q := get_data S d in
  dim_mismatch cd (q_dim q) = false ->
  snd (qstep cd S (Fit e d)) =
  fit_obs (quickshift (q_D q) (q_w q) (Cut (nth c (s_cuts S0) []) s2)).
Proof.
  intros He Hmid S q Hdim. unfold q. rewrite (qstep_fit_obs cd S e d Hdim).
  destruct (params_after cd S0 pre mid e (Some c) s2 sh
              (mkEst (Some (eff_cut (nth c (s_cuts S0) []) s2)) sh None) He Hmid) as [A B].
  { cbn. destruct sh; reflexivity. }
  fold S in A, B. unfold est_fit. rewrite A. reflexivity.
Qed.

Theorem session_fit_fresh_gab cd S0 pre mid e s2 sh d :
  e < length (s_est S0) ->
  forallb (fun o => negb (reconf e o)) mid = true ->
  let S := fst (qrun cd S0 (pre ++ New e None s2 (Some sh) :: mid)) in
  let q := get_data S d in
  dim_mismatch cd (q_dim q) = false ->
  snd (qstep cd S (Fit e d)) = fit_obs (quickshift (q_D q) (q_w q) (Gab sh)).
Proof.
  intros He Hmid S q Hdim. unfold q. rewrite (qstep_fit_obs cd S e d Hdim).
  destruct (params_after cd S0 pre mid e None s2 (Some sh) (mkEst None (Some sh) None) He Hmid) as [A B].
  { reflexivity. }
  fold S in A, B. unfold est_fit. rewrite A, B. reflexivity.
Qed.

(* gabriel_shell is read at fit time: after est[e].gabriel_shell = sh' the fit is that of shell sh' *)
Theorem session_fit_fresh_setshell cd S0 pre mid e sh' d :
  e < length (s_est S0) ->
  forallb (fun o => negb (reconf e o)) mid = true ->
  let S1 := fst (qrun cd S0 pre) in
  e_cut (get_est S1 e) = None ->
  let S := fst (qrun cd S0 (pre ++ SetShell e sh' :: mid)) in
  let q := get_data S d in
  dim_mismatch cd (q_dim q) = false ->
  snd (qstep cd S (Fit e d)) = fit_obs (quickshift (q_D q) (q_w q) (Gab sh')).
Proof.
  intros He Hmid S1 Hc S q Hdim. unfold q. rewrite (qstep_fit_obs cd S e d Hdim).
  unfold S. rewrite qrun_app, qrun_cons. fold S1.
  destruct (qrun_keep cd e mid (fst (qstep cd S1 (SetShell e sh'))) Hmid) as [A B].
  unfold est_fit. rewrite A, B. cbn [qstep fst].
  rewrite get_set_eq by (unfold S1; rewrite qrun_len; exact He). cbn. rewrite Hc. reflexivity.
Qed.

(* rejected calls leave the whole state as it was *)
Theorem session_rejections cd S e s2 d :
  qstep cd S (New e None s2 None) = (S, ObsErr) /\
  (dim_mismatch cd (q_dim (get_data S d)) = true -> qstep cd S (Fit e d) = (S, ObsErr)).
Proof. split; [reflexivity|]. intros H. cbn [qstep]. rewrite H. reflexivity. Qed.

(* labels_ is the result of the LAST successful fit *)
Theorem session_read_after_fit cd S e d R c :
  e < length (s_est S) ->
  qstep cd S (Fit e d) = (fst (qstep cd S (Fit e d)), ObsFit R c) ->
  snd (qstep cd (fst (qstep cd S (Fit e d))) (Read e)) = ObsRead (Some R).
Proof.
  intros He. cbn [qstep]. destruct (dim_mismatch _ _); [discriminate|].
  destruct (est_fit _ _) as [R'|]; [|discriminate]. cbn [fst snd]. intros E.
  injection E as <- _. rewrite get_set_eq by exact He. reflexivity.
Qed.
