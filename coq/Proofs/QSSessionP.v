(* Proofs about the session model (Model/QSSession.v): no call of the estimator writes the
   caller's arrays; the hyper-parameters in force at any moment are determined by the
   configuration calls (constructor, set_params) addressed to that estimator alone, last write
   wins; fit reads every one of them when it runs, so a fit after ANY history is the fresh fit of
   Model/QuickShift.v for the parameters in force. *)
From Verif Require Import ListX ListXP QuickShift QuickShiftP QSSession.
Close Scope Z_scope.
Open Scope nat_scope.

Ltac qstep_cases o :=
  destruct o as [e c s2 sh cell|e d|e sh|e cell|e c|e s2|d w|e]; cbn [qstep];
  [destruct (construct _ _ _ _ _)
  |destruct (fit_guard _ _ _); [|destruct (est_fit _ _)]
  | | | | | | ].

Lemma qstep_cuts S o : s_cuts (fst (qstep S o)) = s_cuts S.
Proof. qstep_cases o; reflexivity. Qed.
Lemma qstep_cells S o : s_cells (fst (qstep S o)) = s_cells S.
Proof. qstep_cases o; reflexivity. Qed.
Lemma qstep_len S o : length (s_est (fst (qstep S o))) = length (s_est S).
Proof. qstep_cases o; cbn; rewrite ?upd_nth_length; reflexivity. Qed.

Lemma qrun_cons S o ops : fst (qrun S (o :: ops)) = fst (qrun (fst (qstep S o)) ops).
Proof. cbn [qrun]. destruct (qstep S o) as [S1 b]. cbn [fst]. destruct (qrun S1 ops). reflexivity. Qed.

Lemma qrun_app a : forall S b, fst (qrun S (a ++ b)) = fst (qrun (fst (qrun S a)) b).
Proof.
  induction a as [|o a IH]; intros S b; [reflexivity|].
  rewrite <- app_comm_cons, !qrun_cons. apply IH.
Qed.

Lemma qrun_cuts ops : forall S, s_cuts (fst (qrun S ops)) = s_cuts S.
Proof. induction ops as [|o ops IH]; intros S; [reflexivity|]. rewrite qrun_cons, IH. apply qstep_cuts. Qed.
Lemma qrun_cells ops : forall S, s_cells (fst (qrun S ops)) = s_cells S.
Proof. induction ops as [|o ops IH]; intros S; [reflexivity|]. rewrite qrun_cons, IH. apply qstep_cells. Qed.
Lemma qrun_len ops : forall S, length (s_est (fst (qrun S ops))) = length (s_est S).
Proof. induction ops as [|o ops IH]; intros S; [reflexivity|]. rewrite qrun_cons, IH. apply qstep_len. Qed.

(* the caller's data are changed by the caller's own writes only *)
Definition caller_step (D : list qdata) (o : qop) : list qdata :=
  match o with
  | SetW d w => let q := nth d D no_data in upd_nth d (mkData (q_dim q) (q_D q) w) D
  | _ => D
  end.

Lemma qstep_data S o : s_data (fst (qstep S o)) = caller_step (s_data S) o.
Proof. qstep_cases o; reflexivity. Qed.

Lemma qrun_data ops : forall S, s_data (fst (qrun S ops)) = fold_left caller_step ops (s_data S).
Proof.
  induction ops as [|o ops IH]; intros S; [reflexivity|].
  rewrite qrun_cons, IH, qstep_data. reflexivity.
Qed.

(* [reconf e o]: o (re)binds est[e] or sets one of the parameters fit reads.  set_params(scale=..)
   is NOT among them: the attribute is not read after __init__ *)
Definition reconf (e : nat) (o : qop) : bool :=
  match o with
  | New e' _ _ _ _ => Nat.eqb e' e
  | SetShell e' _ => Nat.eqb e' e
  | SetCell e' _ => Nat.eqb e' e
  | SetCut e' _ => Nat.eqb e' e
  | _ => false
  end.

(* the parameters fit reads *)
Definition pars (x : qest) := (e_cut x, e_shell x, e_cell x, e_cell0 x).

Lemma pars_inv x y : pars x = pars y ->
  e_cut x = e_cut y /\ e_shell x = e_shell y /\ e_cell x = e_cell y /\ e_cell0 x = e_cell0 y.
Proof. unfold pars. intros H. injection H as A B C D. repeat split; assumption. Qed.

Lemma get_set_eq S e x : e < length (s_est S) -> get_est (set_est S e x) e = x.
Proof. intros H. unfold get_est, set_est. cbn. apply nth_upd_nth_eq. exact H. Qed.
Lemma get_set_neq S e e' x : e' <> e -> get_est (set_est S e' x) e = get_est S e.
Proof. intros H. unfold get_est, set_est. cbn. apply nth_upd_nth_neq. exact H. Qed.

Lemma cfg_step_pars cuts x x' o : pars x = pars x' -> pars (cfg_step cuts x o) = pars (cfg_step cuts x' o).
Proof.
  intros H. destruct (pars_inv x x' H) as (A & B & C & D).
  destruct o as [e c s2 sh cell|e d|e sh|e cell|e c|e s2|d w|e]; cbn [cfg_step]; try exact H.
  - destruct (construct _ _ _ _ _); [reflexivity|exact H].
  - unfold pars. cbn. congruence.
  - unfold pars. cbn. congruence.
  - unfold pars. cbn. congruence.
Qed.

Lemma fold_cfg_pars cuts l : forall x x', pars x = pars x' ->
  pars (fold_left (cfg_step cuts) l x) = pars (fold_left (cfg_step cuts) l x').
Proof.
  induction l as [|o l IH]; intros x x' H; [exact H|]. cbn [fold_left]. apply IH. apply cfg_step_pars. exact H.
Qed.

(* one step: est[e]'s parameters change only through a configuration call addressed to it *)
Lemma qstep_est S o e : e < length (s_est S) ->
  pars (get_est (fst (qstep S o)) e) =
  pars (if reconf e o then cfg_step (s_cuts S) (get_est S e) o else get_est S e).
Proof.
  intros He.
  destruct o as [e' c s2 sh cell|e' d|e' sh|e' cell|e' c|e' s2|d w|e']; cbn [qstep reconf].
  - cbn [cfg_step]. destruct (construct _ _ _ _ _) as [y|]; cbn [fst].
    + destruct (Nat.eqb_spec e' e) as [->|Hn]; [rewrite get_set_eq by exact He|rewrite get_set_neq by exact Hn]; reflexivity.
    + destruct (e' =? e); reflexivity.
  - destruct (fit_guard _ _ _); [reflexivity|]. destruct (est_fit _ _); [|reflexivity]. cbn [fst].
    destruct (Nat.eq_dec e' e) as [->|Hn]; [rewrite get_set_eq by exact He|rewrite get_set_neq by exact Hn]; reflexivity.
  - cbn [fst]. destruct (Nat.eqb_spec e' e) as [->|Hn]; [rewrite get_set_eq by exact He|rewrite get_set_neq by exact Hn]; reflexivity.
  - cbn [fst]. destruct (Nat.eqb_spec e' e) as [->|Hn]; [rewrite get_set_eq by exact He|rewrite get_set_neq by exact Hn]; reflexivity.
  - cbn [fst]. destruct (Nat.eqb_spec e' e) as [->|Hn]; [rewrite get_set_eq by exact He|rewrite get_set_neq by exact Hn]; reflexivity.
  - cbn [fst cfg_step]. destruct (Nat.eq_dec e' e) as [->|Hn]; [rewrite get_set_eq by exact He|rewrite get_set_neq by exact Hn]; reflexivity.
  - reflexivity.
  - reflexivity.
Qed.

(* the parameters in force after a history = the configuration calls addressed to est[e], in order *)
Theorem session_params_projection e ops : forall S, e < length (s_est S) ->
  pars (get_est (fst (qrun S ops)) e) =
  pars (fold_left (cfg_step (s_cuts S)) (filter (reconf e) ops) (get_est S e)).
Proof.
  induction ops as [|o ops IH]; intros S He; [reflexivity|].
  rewrite qrun_cons. rewrite IH by (rewrite qstep_len; exact He). rewrite qstep_cuts.
  cbn [filter]. pose proof (qstep_est S o e He) as H1.
  destruct (reconf e o); cbn [fold_left]; apply fold_cfg_pars; exact H1.
Qed.

Lemma filter_none e mid : forallb (fun o => negb (reconf e o)) mid = true -> filter (reconf e) mid = [].
Proof.
  induction mid as [|o mid IH]; intros H; [reflexivity|]. cbn [forallb] in H.
  apply andb_prop in H. destruct H as [Ho Hr]. apply negb_true_iff in Ho. cbn [filter]. rewrite Ho. apply IH. exact Hr.
Qed.

(* ... in particular: the last configuration call, whatever came before and whatever
   non-configuring calls came after *)
Lemma pars_last S0 pre o mid e :
  e < length (s_est S0) -> reconf e o = true ->
  forallb (fun o => negb (reconf e o)) mid = true ->
  pars (get_est (fst (qrun S0 (pre ++ o :: mid))) e) =
  pars (cfg_step (s_cuts S0) (get_est (fst (qrun S0 pre)) e) o).
Proof.
  intros He Ho Hmid. rewrite qrun_app, qrun_cons. set (S1 := fst (qrun S0 pre)).
  assert (He1 : e < length (s_est S1)) by (unfold S1; rewrite qrun_len; exact He).
  rewrite session_params_projection by (rewrite qstep_len; exact He1).
  rewrite (filter_none e mid Hmid). cbn [fold_left].
  rewrite (qstep_est S1 o e He1), Ho. unfold S1. rewrite qrun_cuts. reflexivity.
Qed.

(* the observation of a fit *)
Definition fit_obs (r : option (list (option nat))) : qobs :=
  match r with Some R => ObsFit R (centres R) | None => ObsErr end.

Lemma qstep_fit_obs S e d : fit_guard (s_cells S) (get_est S e) (get_data S d) = false ->
  snd (qstep S (Fit e d)) = fit_obs (est_fit (get_est S e) (get_data S d)).
Proof. intros H. cbn [qstep]. rewrite H. destruct (est_fit _ _); reflexivity. Qed.

Lemma est_fit_pars x y q : pars x = pars y -> est_fit x q = est_fit y q.
Proof. intros H. destruct (pars_inv x y H) as (A & B & C & _). unfold est_fit. rewrite A, B, C. reflexivity. Qed.
Lemma fit_guard_pars cells x y q : pars x = pars y -> fit_guard cells x q = fit_guard cells y q.
Proof. intros H. destruct (pars_inv x y H) as (_ & _ & C & D). unfold fit_guard. rewrite C, D. reflexivity. Qed.

(* ---- the theorems ------------------------------------------------------------------------ *)
Theorem session_cuts_unchanged S ops : s_cuts (fst (qrun S ops)) = s_cuts S.
Proof. apply qrun_cuts. Qed.

Theorem session_data_caller_only S ops :
  s_data (fst (qrun S ops)) = fold_left caller_step ops (s_data S).
Proof. apply qrun_data. Qed.

(* fit reads EVERY hyper-parameter when it runs *)
Theorem session_fit_params_in_force S0 ops e d :
  e < length (s_est S0) ->
  let S := fst (qrun S0 ops) in
  let x := fold_left (cfg_step (s_cuts S0)) (filter (reconf e) ops) (get_est S0 e) in
  let q := get_data S d in
  fit_guard (s_cells S0) x q = false ->
  snd (qstep S (Fit e d)) = fit_obs (fit_of_params (e_cut x) (e_shell x) (dsel q (e_cell x)) (q_w q)).
Proof.
  intros He S x q Hg.
  pose proof (session_params_projection e ops S0 He) as HP. fold S in HP. fold x in HP.
  rewrite qstep_fit_obs.
  - fold q. rewrite (est_fit_pars _ x q HP). reflexivity.
  - unfold S at 1. rewrite qrun_cells. fold S. fold q. rewrite (fit_guard_pars _ _ x q HP). exact Hg.
Qed.

Section Last.
  Variable S0 : qstate.
  Variables pre mid : list qop.
  Variable e d : nat.
  Hypothesis He : e < length (s_est S0).
  Hypothesis Hmid : forallb (fun o => negb (reconf e o)) mid = true.

  Lemma fit_after_last o y :
    reconf e o = true ->
    pars (cfg_step (s_cuts S0) (get_est (fst (qrun S0 pre)) e) o) = pars y ->
    let S := fst (qrun S0 (pre ++ o :: mid)) in
    let q := get_data S d in
    fit_guard (s_cells S0) y q = false ->
    snd (qstep S (Fit e d)) = fit_obs (est_fit y q).
  Proof.
    intros Ho Hy S q Hg.
    pose proof (pars_last S0 pre o mid e He Ho Hmid) as HP. fold S in HP. rewrite Hy in HP.
    rewrite qstep_fit_obs.
    - fold q. apply f_equal. apply est_fit_pars. exact HP.
    - unfold S at 1. rewrite qrun_cells. fold S. fold q. rewrite (fit_guard_pars _ _ y q HP). exact Hg.
  Qed.
End Last.

Lemma guard_same cells cell x q : e_cell x = cell -> e_cell0 x = cell ->
  fit_guard cells x q = cell_mismatch cells cell (q_dim q).
Proof. intros A B. unfold fit_guard. rewrite A, B. apply orb_diag. Qed.

Theorem session_fit_fresh_cut S0 pre mid e c s2 sh cell d :
  e < length (s_est S0) ->
  forallb (fun o => negb (reconf e o)) mid = true ->
  let S := fst (qrun S0 (pre ++ New e (Some c) s2 sh cell :: mid)) in
  let q := get_data S d in
  cell_mismatch (s_cells S0) cell (q_dim q) = false ->
  snd (qstep S (Fit e d)) =
  fit_obs (quickshift (dsel q cell) (q_w q) (Cut (nth c (s_cuts S0) []) s2)).
Proof.
  intros He Hmid S q Hdim.
  set (y := mkEst (Some (eff_cut (nth c (s_cuts S0) []) s2)) sh cell cell None).
  apply (fit_after_last S0 pre mid e d He Hmid (New e (Some c) s2 sh cell) y).
  - cbn. apply Nat.eqb_refl.
  - cbn. destruct sh; reflexivity.
  - rewrite (guard_same _ cell y) by reflexivity. exact Hdim.
Qed.

Theorem session_fit_fresh_gab S0 pre mid e s2 sh cell d :
  e < length (s_est S0) ->
  forallb (fun o => negb (reconf e o)) mid = true ->
  let S := fst (qrun S0 (pre ++ New e None s2 (Some sh) cell :: mid)) in
  let q := get_data S d in
  cell_mismatch (s_cells S0) cell (q_dim q) = false ->
  snd (qstep S (Fit e d)) = fit_obs (quickshift (dsel q cell) (q_w q) (Gab sh)).
Proof.
  intros He Hmid S q Hdim.
  set (y := mkEst None (Some sh) cell cell None).
  apply (fit_after_last S0 pre mid e d He Hmid (New e None s2 (Some sh) cell) y).
  - cbn. apply Nat.eqb_refl.
  - reflexivity.
  - rewrite (guard_same _ cell y) by reflexivity. exact Hdim.
Qed.

(* set_params: each of the three parameters fit reads is read when fit runs.
   [x1] = est[e] just before the set_params call *)
Theorem session_fit_after_setshell S0 pre mid e sh' d :
  e < length (s_est S0) ->
  forallb (fun o => negb (reconf e o)) mid = true ->
  let x1 := get_est (fst (qrun S0 pre)) e in
  e_cut x1 = None ->
  let S := fst (qrun S0 (pre ++ SetShell e sh' :: mid)) in
  let q := get_data S d in
  fit_guard (s_cells S0) x1 q = false ->
  snd (qstep S (Fit e d)) = fit_obs (quickshift (dsel q (e_cell x1)) (q_w q) (Gab sh')).
Proof.
  intros He Hmid x1 Hc S q Hg.
  set (y := mkEst None (Some sh') (e_cell x1) (e_cell0 x1) None).
  etransitivity; [apply (fit_after_last S0 pre mid e d He Hmid (SetShell e sh') y)|reflexivity].
  - cbn. apply Nat.eqb_refl.
  - fold x1. unfold pars. cbn. rewrite Hc. reflexivity.
  - exact Hg.
Qed.

Theorem session_fit_after_setcell S0 pre mid e cell' d :
  e < length (s_est S0) ->
  forallb (fun o => negb (reconf e o)) mid = true ->
  let x1 := get_est (fst (qrun S0 pre)) e in
  let S := fst (qrun S0 (pre ++ SetCell e cell' :: mid)) in
  let q := get_data S d in
  cell_mismatch (s_cells S0) (e_cell0 x1) (q_dim q) = false ->
  cell_mismatch (s_cells S0) cell' (q_dim q) = false ->
  snd (qstep S (Fit e d)) = fit_obs (fit_of_params (e_cut x1) (e_shell x1) (dsel q cell') (q_w q)).
Proof.
  intros He Hmid x1 S q Hg0 Hg1.
  set (y := mkEst (e_cut x1) (e_shell x1) cell' (e_cell0 x1) None).
  etransitivity; [apply (fit_after_last S0 pre mid e d He Hmid (SetCell e cell') y)|reflexivity].
  - cbn. apply Nat.eqb_refl.
  - reflexivity.
  - unfold fit_guard. cbn [e_cell e_cell0 y]. unfold y. cbn [e_cell e_cell0]. fold S. fold q. rewrite Hg0, Hg1. reflexivity.
Qed.

(* dist_cutoff_sq given to set_params is used as given: the scale is NOT applied to it *)
Theorem session_fit_after_setcut S0 pre mid e c d :
  e < length (s_est S0) ->
  forallb (fun o => negb (reconf e o)) mid = true ->
  let x1 := get_est (fst (qrun S0 pre)) e in
  let S := fst (qrun S0 (pre ++ SetCut e (Some c) :: mid)) in
  let q := get_data S d in
  fit_guard (s_cells S0) x1 q = false ->
  snd (qstep S (Fit e d)) = fit_obs (quickshift (dsel q (e_cell x1)) (q_w q) (Cut (nth c (s_cuts S0) []) 2)).
Proof.
  intros He Hmid x1 S q Hg.
  set (y := mkEst (Some (eff_cut (nth c (s_cuts S0) []) 2)) (e_shell x1) (e_cell x1) (e_cell0 x1) None).
  etransitivity; [apply (fit_after_last S0 pre mid e d He Hmid (SetCut e (Some c)) y)|reflexivity].
  - cbn. apply Nat.eqb_refl.
  - reflexivity.
  - exact Hg.
Qed.

(* rejected calls leave the whole state as it was *)
Theorem session_rejections S e s2 cell d :
  qstep S (New e None s2 None cell) = (S, ObsErr) /\
  (fit_guard (s_cells S) (get_est S e) (get_data S d) = true -> qstep S (Fit e d) = (S, ObsErr)).
Proof. split; [reflexivity|]. intros H. cbn [qstep]. rewrite H. reflexivity. Qed.

(* labels_ is the result of the LAST successful fit *)
Theorem session_read_after_fit S e d R c :
  e < length (s_est S) ->
  qstep S (Fit e d) = (fst (qstep S (Fit e d)), ObsFit R c) ->
  snd (qstep (fst (qstep S (Fit e d))) (Read e)) = ObsRead (Some R).
Proof.
  intros He. cbn [qstep]. destruct (fit_guard _ _ _); [discriminate|].
  destruct (est_fit _ _) as [R'|]; [|discriminate]. cbn [fst snd]. intros E.
  injection E as <- _. rewrite get_set_eq by exact He. reflexivity.
Qed.
