(* C04, extension round 3: the optimality / limit / monotonicity theorems for BOTH routes of
   PCovR.fit and in terms of the losses a user observes (inverse_transform, predict), with
   masked (non-retained) components allowed where the statement survives them.
   ssreflect / mathcomp style.                                                              *)
From mathcomp Require Import all_ssreflect all_algebra.
From Verif Require Import MExp MExpMx PCovR PCovRC04 PCovRP PCovRProg KyFan C14Thm C04Thm.
Set Implicit Arguments.
Unset Strict Implicit.
Unset Printing Implicit Defensive.
Import Order.TTheory GRing.Theory Num.Theory.
Local Open Scope ring_scope.

Section FroOrth.
  Variable F : rcfType.
  Lemma fro_add_orth r c (A R : 'M[F]_(r, c)) : A^T *m R = 0 -> fro (A + R) = fro A + fro R.
  Proof.
    move=> h.
    have h' : R^T *m A = 0 by rewrite -[LHS]trmxK trmx_mul trmxK h trmx0.
    by rewrite /fro [(A + R)^T]raddfD /= mulmxDl !mulmxDr h h' addr0 add0r raddfD.
  Qed.
End FroOrth.

(* ------------------------------------------------------------------ abstract part
   Q : an n x k matrix of eigenvectors of K~ = s_Kt X Yh a for the eigenvalues S, orthonormal
   on the retained components.  Both routes of fit produce such a Q (Section Routes).       *)
Section Abs.
  Variable F : rcfType.
  Variables (n m p k : nat).
  Variables (X : 'M[F]_(n, m)) (Y Yh : 'M[F]_(n, p)) (W : 'M[F]_(m, p)) (a tol : F).
  Variables (Q : 'M[F]_(n, k)) (S : 'cV[F]_k).

  Definition masked (f : F -> F) : Prop := forall i, f (S i 0) = g_mk tol (S i 0) * f (S i 0).

  Hypothesis tol_ge0 : 0 <= tol.
  Hypothesis HE : s_Kt X Yh a *m Q = Q *m diag_mx S^T.
  Hypothesis HO : forall f, masked f -> Q^T *m Q *m dmap f S = dmap f S.

  Let M := dmap (g_mk tol) S.
  Let P := Q *m M *m Q^T.

  Lemma abs_orth : (forall i, tol < S i 0) -> Q^T *m Q = 1%:M.
  Proof.
    move=> hret; have := @HO (fun=> 1).
    rewrite dmap_1 mulmx1; apply.
    by move=> i; rewrite /g_mk hret mulr1.
  Qed.

  Lemma abs_Psym : P^T = P.
  Proof. by rewrite /P !trmx_mul trmxK dmap_tr mulmxA. Qed.

  Lemma abs_QtK : Q^T *m s_Kt X Yh a = diag_mx S^T *m Q^T.
  Proof. by rewrite -[LHS]trmxK trmx_mul s_Kt_sym trmxK HE trmx_mul tr_diag_mx. Qed.

  (* the realised projector through K~ *)
  Lemma abs_P_K : P = Q *m dmap (g_inv tol) S *m Q^T *m s_Kt X Yh a.
  Proof.
    rewrite -(mulmxA _ Q^T) abs_QtK !mulmxA -(mulmxA Q) dmap_id dmap_mul /P /M.
    by congr (_ *m _ *m _); apply: dmap_ext => i; rewrite g_inv_x.
  Qed.

  Hypothesis HW : Yh = X *m W.
  Hypothesis Hls : X^T *m (Y - Yh) = 0.                (* normal equations *)

  Lemma abs_YhtR : Yh^T *m (Y - Yh) = 0.
  Proof. by rewrite {1}HW trmx_mul -mulmxA Hls mulmx0. Qed.

  Lemma abs_KR : s_Kt X Yh a *m (Y - Yh) = 0.
  Proof.
    by rewrite s_Kt_alt mulmxDl -!scalemxAl -!mulmxA Hls abs_YhtR !mulmx0 !scaler0 addr0.
  Qed.

  (* the realised projector annihilates the least-squares residual *)
  Lemma abs_PR : P *m (Y - Yh) = 0.
  Proof. by rewrite abs_P_K -mulmxA abs_KR mulmx0. Qed.

  Lemma abs_QtR : (forall i, tol < S i 0) -> Q^T *m (Y - Yh) = 0.
  Proof.
    move=> hret.
    have h : diag_mx S^T *m (Q^T *m (Y - Yh)) = 0.
      by rewrite mulmxA -abs_QtK -mulmxA abs_KR mulmx0.
    apply/matrixP=> i j; move/matrixP/(_ i j): h.
    rewrite mul_diag_mx !mxE => /eqP; rewrite mulf_eq0 => /orP[/eqP s0|/eqP //].
    by have := hret i; rewrite s0 ltNge tol_ge0.
  Qed.

  (* Pythagoras: the loss of the targets = loss of the regressed targets + |Y - Yh|^2 *)
  Lemma abs_pyth : (forall i, tol < S i 0) ->
    proj_loss Q Y = proj_loss Q Yh + fro (Y - Yh).
  Proof.
    move=> hret; rewrite /proj_loss.
    set A := Yh - Q *m (Q^T *m Yh); set R := Y - Yh.
    have hQY : Q^T *m Y = Q^T *m Yh.
      by rewrite -(subrK Yh Y) mulmxDr abs_QtR // add0r.
    have -> : Y - Q *m (Q^T *m Y) = A + R.
      by rewrite hQY /A /R addrAC [Yh + _]addrC subrK.
    have hAR : A^T *m R = 0.
      rewrite /A [(_ - _)^T]raddfB /= mulmxBl abs_YhtR !trmx_mul trmxK -!mulmxA.
      by rewrite abs_QtR // !mulmx0 subrr.
    exact: fro_add_orth.
  Qed.

  (* mixing = 0, the retained eigenpairs reproduce K~: the realised projector fixes Yh *)
  Lemma abs_reglimit : a = 0 ->
    s_Kt X Yh a = Q *m dmap (fun x => g_mk tol x * x) S *m Q^T -> P *m Y = Yh.
  Proof.
    move=> a0 hfull.
    have hK : s_Kt X Yh a = Yh *m Yh^T.
      by rewrite s_Kt_alt a0 subr0 scale0r scale1r add0r.
    have PK : P *m s_Kt X Yh a = s_Kt X Yh a.
      rewrite {1}hfull /P !mulmxA -(mulmxA (Q *m M) Q^T Q) -(mulmxA (Q *m M) _ (dmap _ S)).
      rewrite HO; last by move=> i; rewrite mulrA g_mk_mk.
      rewrite /M -(mulmxA Q) dmap_mul hfull; congr (_ *m _ *m _); apply: dmap_ext => i.
      by rewrite mulrA g_mk_mk.
    have KP : s_Kt X Yh a *m P = s_Kt X Yh a.
      by rewrite -[LHS]trmxK trmx_mul abs_Psym s_Kt_sym PK s_Kt_sym.
    have PYh : P *m Yh = Yh.
      apply/eqP; rewrite -subr_eq0; apply/eqP; apply: gram_eq0r.
      have -> : (P *m Yh - Yh) *m (P *m Yh - Yh)^T
                = P *m s_Kt X Yh a *m P - P *m s_Kt X Yh a - s_Kt X Yh a *m P + s_Kt X Yh a.
        rewrite hK [(P *m Yh - Yh)^T]raddfB /= trmx_mul abs_Psym mulmxBl !mulmxBr !mulmxA.
        by rewrite opprD opprK addrA.
      by rewrite PK KP subrr sub0r addNr.
    by rewrite -(subrK Yh Y) mulmxDr abs_PR PYh add0r.
  Qed.
End Abs.

(* ------------------------------------------------------------------ the two routes *)
Section Routes.
  Variable F : rcfType.
  Variables (n m p k : nat) (env : env_mx F).

  Local Notation tol := (e_tol env).
  Local Notation a := (e_a env).
  Local Notation S := (e_S k env).
  Local Notation X := (e_X n m env).
  Local Notation Y := (e_Y n p env).
  Local Notation Yh := (e_Yh n p env).
  Local Notation W := (e_W m p env).
  Local Notation UC := (e_UC m env).
  Local Notation vC := (e_vC m env).
  Local Notation Csq := (e_Csq m env).
  Local Notation Vs := (e_Vs n k env).
  Local Notation Vf := (e_Vf m k env).
  Local Notation Kt := (eval_mx env (kern_prog n m p)).
  Local Notation pxt := (pxt_of n m p k env).
  Local Notation ptx := (ptx_of n m k env).
  Local Notation pty := (pty_of n m p k env).
  Local Notation M := (retained_mask k env).

  Lemma resid_formula :
    (eval_mx env (resid_ls_prog n p)) ord0 ord0 = fro (Y - Yh).
  Proof. by rewrite /resid_ls_prog sqnorm_formula. Qed.

  (* PCovR's own subspace of sample space *)
  Definition own_Q (sp : bool) : 'M[F]_(n, k) := if sp then Vs else f_U X tol UC vC Vf.

  Lemma ownq_formula sp : eval_mx env (ownq_prog n m k sp) = own_Q sp.
  Proof. by case: sp => //; rewrite /ownq_prog /ownq_f 2!eval_mul cisqrt_formula. Qed.

  Lemma own_facts sp : fit_oracle n m p k env sp -> regressor_contract n m p env ->
    [/\ 0 <= tol,
        s_Kt X Yh a *m own_Q sp = own_Q sp *m diag_mx S^T,
        forall f, masked tol S f -> (own_Q sp)^T *m own_Q sp *m dmap f S = dmap f S,
        X *m pxt sp *m ptx sp = own_Q sp *m M *m (own_Q sp)^T *m X
      & X *m pxt sp *m pty sp = own_Q sp *m M *m (own_Q sp)^T *m Y].
  Proof.
    case: sp => /=.
    - move=> [t0 hw [v1 v2]] _; rewrite kern_formula in v2; split=> //.
      + by move=> f _; rewrite v1 mul1mx.
      + exact: (s_reconstruct t0 hw v2).
      + exact: (s_predict Y t0 hw v2).
    - move=> [t0 [u1 u2 u3] hp [v1 v2]] hw.
      rewrite xtx_formula in u2; rewrite cov_formula in v2.
      rewrite /lstsq_oracle cisqrt_formula in hp; split=> //.
      + exact: (f_U_eig t0 u1 u2 u3 hw v2).
      + by move=> f hf; exact: (f_UtU t0 u1 u2 u3 v1 v2 hf).
      + exact: (f_reconstruct Vf S t0 u1 u2 hp).
      + exact: (f_predict X Y UC vC Vf S t0).
  Qed.

  Section OneFit.
    Variable sp : bool.
    Hypothesis Hfit : fit_oracle n m p k env sp.
    Hypothesis Hreg : regressor_contract n m p env.
    Local Notation Q := (own_Q sp).

    (* an orthonormal family of eigenvectors of K~ for the eigenvalues the oracle returned *)
    Theorem own_basis : (forall i, tol < S i 0) ->
      Q^T *m Q = 1%:M /\ Kt *m Q = Q *m diag_mx S^T.
    Proof.
      move=> hret; have [t0 hE hO _ _] := own_facts Hfit Hreg; rewrite kern_formula; split=> //.
      exact: (abs_orth hO hret).
    Qed.

    (* what the fitted estimator does on its training data: the orthogonal projection onto the
       retained columns of Q - masked components allowed *)
    Theorem own_subspace_both : centred n m env ->
      let T := transform_prog n m p k sp (eX n m) in
      eval_mx env (inverse_prog n m k sp T) = Q *m M *m Q^T *m X
      /\ eval_mx env (predict_t_prog n m p k sp T) = Q *m M *m Q^T *m Y.
    Proof.
      move=> hc T; have [_ _ _ hr hp] := own_facts Hfit Hreg.
      by rewrite /T inverse_formula predict_t_formula transform_centred.
    Qed.

    (* optimality, whichever route fit took *)
    Theorem optimal_both (U : 'M[F]_n) (L : 'cV[F]_n) (kn : (k <= n)%N) (Qc : mexp n k) :
      (forall i, tol < S i 0) ->
      U^T *m U = 1%:M -> Kt *m U = U *m diag_mx L^T ->
      (forall i j : 'I_n, (i <= j)%N -> L j 0 <= L i 0) ->
      (forall i : 'I_k, S i 0 = L (widen_ord kn i) 0) ->
      (eval_mx env Qc)^T *m eval_mx env Qc = 1%:M ->
      (eval_mx env (loss_prog n m p k (ownq_prog n m k sp))) ord0 ord0
      <= (eval_mx env (loss_prog n m p k Qc)) ord0 ord0.
    Proof.
      move=> hret u1 u2 hs htop hQ; rewrite !loss_formula ownq_formula.
      have [v1 v2] := own_basis hret; rewrite kern_formula in u2 v2.
      apply: (mixed_loss_optimal u1 u2 hs v1 v2 _ hQ).
      by rewrite (big_ord_narrow kn) /=; apply: eq_bigr => i _; exact: htop.
    Qed.

    (* the observed training losses are the projection losses of Q *)
    Theorem observed_losses : centred n m env -> (forall i, tol < S i 0) ->
      (eval_mx env (obs_lossx_prog n m p k sp)) ord0 ord0 = proj_loss Q X
      /\ (eval_mx env (obs_lossy_prog n m p k sp)) ord0 ord0 = proj_loss Q Y.
    Proof.
      move=> hc hret; have [hx hy] := own_subspace_both hc.
      rewrite /obs_lossx_prog /obs_lossy_prog !sqnorm_formula !eval_sub hx hy.
      by rewrite (mask_eq1 hret) mulmx1 -!mulmxA.
    Qed.

    (* the same with masked components: the observed losses are the losses of the RETAINED
       columns of Q (ownq_ret) - no hypothesis on the eigenvalues *)
    Lemma ownq_ret_formula : eval_mx env (ownq_ret n m k sp) = Q *m M.
    Proof.
      have [t0 _ _ _ _] := own_facts Hfit Hreg.
      rewrite /ownq_ret /retmask_prog 2!eval_mul ownq_formula ssqrt_formula sisqrt_formula.
      rewrite dmap_mul /retained_mask; congr (_ *m _); apply: dmap_ext => i.
      exact: (g_sq_isq t0).
    Qed.

    Lemma mask_idem : M *m M = M.
    Proof. by rewrite /retained_mask dmap_mul; apply: dmap_ext => i; exact: g_mk_mk. Qed.

    Theorem observed_losses_masked : centred n m env ->
      (eval_mx env (obs_lossx_prog n m p k sp)) ord0 ord0
        = (eval_mx env (lossx_prog n m k (ownq_ret n m k sp))) ord0 ord0
      /\ (eval_mx env (obs_lossy_prog n m p k sp)) ord0 ord0
        = proj_loss (Q *m M) Y.
    Proof.
      move=> hc; have [hx hy] := own_subspace_both hc.
      rewrite lossx_formula ownq_ret_formula.
      rewrite /obs_lossx_prog /obs_lossy_prog !sqnorm_formula !eval_sub hx hy /proj_loss /fro.
      have tm : M^T = M by rewrite /retained_mask dmap_tr.
      have e c (A : 'M[F]_(n, c)) : Q *m M *m ((Q *m M)^T *m A) = Q *m M *m Q^T *m A.
        by rewrite trmx_mul tm !mulmxA -(mulmxA Q M M) mask_idem.
      by rewrite !e.
    Qed.

    (* exact least squares: the observed regression loss is the loss of the regressed targets
       plus the constant |Y - Yh|^2 *)
    Theorem observed_regression_loss : centred n m env -> (forall i, tol < S i 0) ->
      X^T *m (Y - Yh) = 0 ->
      (eval_mx env (obs_lossy_prog n m p k sp)) ord0 ord0
      = (eval_mx env (lossy_prog n p k (ownq_prog n m k sp))) ord0 ord0
        + (eval_mx env (resid_ls_prog n p)) ord0 ord0.
    Proof.
      move=> hc hret hls; have [_ ->] := observed_losses hc hret.
      have [t0 hE hO _ _] := own_facts Hfit Hreg.
      rewrite lossy_formula ownq_formula /resid_ls_prog sqnorm_formula eval_sub.
      exact: (abs_pyth t0 hE Hreg hls hret).
    Qed.

    (* mixing = 0, exact least squares, the retained eigenpairs reproduce K~ (k >= rank Yh):
       the predictions are the regression's - either route, masked components allowed *)
    Theorem regression_limit_both : centred n m env -> a = 0 ->
      X^T *m (Y - Yh) = 0 ->
      Kt = Q *m dmap (fun x => g_mk tol x * x) S *m Q^T ->
      eval_mx env (predict_x_prog n m p k sp (eX n m)) = Yh
      /\ eval_mx env (predict_t_prog n m p k sp (transform_prog n m p k sp (eX n m))) = Yh.
    Proof.
      move=> hc a0 hls hfull; rewrite kern_formula in hfull.
      have [t0 hE hO _ hp] := own_facts Hfit Hreg.
      have h := abs_reglimit t0 hE hO Hreg hls a0 hfull.
      rewrite predict_t_formula transform_centred // predict_x_formula mulmxA hp.
      by split; exact: h.
    Qed.
  End OneFit.
End Routes.

(* ------------------------------------------------------------------ monotonicity, observed *)
Section MonotoneObserved.
  Variable F : rcfType.
  Variables (n m p k : nat) (ea eb : env_mx F) (spa spb : bool).
  Variables (Ua Ub : 'M[F]_n) (La Lb : 'cV[F]_n) (kn : (k <= n)%N).

  (* a fit by either route, every component retained, with the full decreasing
     eigen-decomposition of K~ whose top k eigenvalues the oracle returned *)
  Definition full_fit_sp (sp : bool) (e : env_mx F) (U : 'M[F]_n) (L : 'cV[F]_n) : Prop :=
    [/\ fit_oracle n m p k e sp /\ regressor_contract n m p e,
        centred n m e /\ (forall i, e_tol e < e_S k e i 0),
        U^T *m U = 1%:M /\ eval_mx e (kern_prog n m p) *m U = U *m diag_mx L^T,
        forall i j : 'I_n, (i <= j)%N -> L j 0 <= L i 0
      & forall i : 'I_k, e_S k e i 0 = L (widen_ord kn i) 0].

  Lemma full_fit_sp_optimal sp e U L (Q : 'M[F]_(n, k)) : full_fit_sp sp e U L ->
    Q^T *m Q = 1%:M ->
    mixed_loss (e_X n m e) (e_Yh n p e) (e_a e) (own_Q n m k e sp)
    <= mixed_loss (e_X n m e) (e_Yh n p e) (e_a e) Q.
  Proof.
    move=> [[hf hr] [hc hret] [u1 u2] hs htop] hQ.
    have [v1 v2] := own_basis hf hr hret; rewrite kern_formula in u2 v2.
    apply: (mixed_loss_optimal u1 u2 hs v1 v2 _ hQ).
    by rewrite (big_ord_narrow kn) /=; apply: eq_bigr => i _; exact: htop.
  Qed.

  Hypothesis sameX : e_X n m ea = e_X n m eb.
  Hypothesis sameY : e_Y n p ea = e_Y n p eb.
  Hypothesis sameYh : e_Yh n p ea = e_Yh n p eb.
  Hypothesis a0 : 0 <= e_a ea.
  Hypothesis ab : e_a ea < e_a eb.
  Hypothesis b1 : e_a eb <= 1.
  Hypothesis fa : full_fit_sp spa ea Ua La.
  Hypothesis fb : full_fit_sp spb eb Ub Lb.

  Lemma monotone_Q :
    proj_loss (own_Q n m k eb spb) (e_X n m ea) <= proj_loss (own_Q n m k ea spa) (e_X n m ea)
    /\ proj_loss (own_Q n m k ea spa) (e_Yh n p ea) <= proj_loss (own_Q n m k eb spb) (e_Yh n p ea).
  Proof.
    have va : (own_Q n m k ea spa)^T *m own_Q n m k ea spa = 1%:M.
      by case: fa => [[hf hr] [_ hret] _ _ _]; have [] := own_basis hf hr hret.
    have vb : (own_Q n m k eb spb)^T *m own_Q n m k eb spb = 1%:M.
      by case: fb => [[hf hr] [_ hret] _ _ _]; have [] := own_basis hf hr hret.
    apply: (mixing_monotone a0 ab b1 va vb).
    - by move=> Q hQ; exact: full_fit_sp_optimal fa hQ.
    - by move=> Q hQ; rewrite sameX sameYh; exact: full_fit_sp_optimal fb hQ.
  Qed.

  (* the reconstruction loss a user measures, |X - inverse_transform(transform(X))|^2, does not
     increase with the mixing - whichever route either fit took *)
  Theorem monotone_observed_x :
    (eval_mx eb (obs_lossx_prog n m p k spb)) ord0 ord0
    <= (eval_mx ea (obs_lossx_prog n m p k spa)) ord0 ord0.
  Proof.
    case: (fa) => [[hfa hra] [hca hreta] _ _ _]; case: (fb) => [[hfb hrb] [hcb hretb] _ _ _].
    have [-> _] := observed_losses hfa hra hca hreta.
    have [-> _] := observed_losses hfb hrb hcb hretb.
    by rewrite -sameX; case: monotone_Q.
  Qed.

  (* exact least squares: the regression loss a user measures, |Y - predict(T=transform(X))|^2,
     does not decrease with the mixing *)
  Theorem monotone_observed_y :
    (e_X n m ea)^T *m (e_Y n p ea - e_Yh n p ea) = 0 ->
    (eval_mx ea (obs_lossy_prog n m p k spa)) ord0 ord0
    <= (eval_mx eb (obs_lossy_prog n m p k spb)) ord0 ord0.
  Proof.
    move=> hls.
    case: (fa) => [[hfa hra] [hca hreta] _ _ _]; case: (fb) => [[hfb hrb] [hcb hretb] _ _ _].
    have hlsb : (e_X n m eb)^T *m (e_Y n p eb - e_Yh n p eb) = 0.
      by rewrite -sameX -sameY -sameYh.
    rewrite (observed_regression_loss hfa hra hca hreta hls).
    rewrite (observed_regression_loss hfb hrb hcb hretb hlsb).
    rewrite (@resid_formula _ n p ea) (@resid_formula _ n p eb) -sameY -sameYh ler_add2r.
    rewrite (lossy_formula p ea) (lossy_formula p eb) 2!ownq_formula -sameYh.
    by case: monotone_Q.
  Qed.
End MonotoneObserved.
