(* C17 — theorems about the numerical model Model/SparseKDEA.v interpreted over an arbitrary real
   closed field with uninterpreted exp / log / round (ssreflect style). *)
From mathcomp Require Import all_ssreflect all_algebra.
From Verif Require Import MExp MExpMx SparseKDEA.
Set Implicit Arguments.
Unset Strict Implicit.
Unset Printing Implicit Defensive.
Import Order.TTheory GRing.Theory Num.Theory.
Local Open Scope ring_scope.

Section Mixture.
  Variable F : rcfType.
  (* exp, log, np.round: abstract.  The four laws below are all that is used about exp and log;
     they hold for the real exponential and logarithm. *)
  Variables (fexp flog frnd : F -> F).
  Hypothesis exp_add : forall a b, fexp (a + b) = fexp a * fexp b.
  Hypothesis exp_gt0 : forall a, 0 < fexp a.
  Hypothesis exp_log : forall a, 0 < a -> fexp (flog a) = a.
  Hypothesis log_exp : forall a, flog (fexp a) = a.

  (* the same record of operations the float run uses, over F *)
  Definition rops : numops :=
    @mk_numops F (Z2F F) +%R (fun a b => a - b) *%R (fun a b => a / b) Num.sqrt
              fexp flog frnd (fun a b => a < b) (fun a b => a == b).

  Lemma exp0 : fexp 0 = 1.
  Proof.
    have H : fexp 0 * fexp 0 = fexp 0 * 1 by rewrite -exp_add addr0 mulr1.
    exact: (mulfI (lt0r_neq0 (exp_gt0 0)) H).
  Qed.

  Lemma expN y : fexp (- y) = (fexp y)^-1.
  Proof.
    have Hy := lt0r_neq0 (exp_gt0 y).
    by rewrite -[LHS]mulr1 -(divff Hy) mulrA -exp_add addNr exp0 mul1r.
  Qed.

  Lemma log_div a b : 0 < a -> 0 < b -> flog (a / b) = flog a - flog b.
  Proof.
    move=> Ha Hb.
    by rewrite -[in LHS](exp_log Ha) -[in LHS](exp_log Hb) -expN -exp_add log_exp.
  Qed.

  (* ---- sums --------------------------------------------------------------------------- *)
  Lemma fold_left_add (l : seq F) a : List.fold_left +%R l a = a + \sum_(x <- l) x.
  Proof.
    elim: l a => [|x l IH] a /=; first by rewrite big_nil addr0.
    by rewrite IH big_cons addrA.
  Qed.

  Lemma nsumE (l : seq F) : nsum rops l = \sum_(x <- l) x.
  Proof. by rewrite /nsum fold_left_add /= add0r. Qed.

  Lemma big_Lmap (A : Type) (f : A -> F) (l : seq A) :
    \sum_(x <- List.map f l) x = \sum_(a <- l) f a.
  Proof. by elim: l => [|a l IH] /=; rewrite ?big_nil // !big_cons IH. Qed.

  (* ---- values in the log domain: None = -inf ----------------------------------------------- *)
  Definition eexp (o : option F) : F := if o is Some v then fexp v else 0.

  Lemma eexp_ge0 o : 0 <= eexp o.
  Proof. by case: o => [v|] //=; apply: ltW. Qed.

  Lemma sum_somes (l : seq (option F)) : \sum_(o <- l) eexp o = \sum_(v <- somes l) fexp v.
  Proof.
    elim: l => [|[v|] l IH] /=; rewrite ?big_nil // !big_cons /= IH //.
    by rewrite add0r.
  Qed.

  (* scipy's logsumexp computes the log of the sum of the exponentials *)
  Lemma eexp_lse (l : seq (option F)) : eexp (lse rops l) = \sum_(o <- l) eexp o.
  Proof.
    rewrite sum_somes /lse. case: (somes l) => [|a r]; first by rewrite big_nil.
    set m := List.fold_left _ r a.
    rewrite [eexp _]/= exp_add nsumE big_cons big_Lmap.
    have Hpos : 0 < fexp (a - m) + \sum_(z <- r) fexp (z - m).
      apply: ltr_paddr; last exact: exp_gt0.
      by apply: sumr_ge0 => z _; apply: ltW.
    rewrite (exp_log Hpos) mulrDl mulr_suml -exp_add subrK big_cons. congr (_ + _).
    by apply: eq_bigr => z _; rewrite -exp_add subrK.
  Qed.

  Lemma eexp_lnk (nkj md wt : F) :
    0 <= wt -> eexp (lnk rops nkj md wt) = wt * fexp (neghalf rops * (nkj + md)).
  Proof.
    rewrite /lnk /xlog /= => Hw. case: ifP => [/eqP ->|/negbT Hn] /=; first by rewrite mul0r.
    have Hpos : 0 < wt by rewrite lt_neqAle eq_sym Hn Hw.
    by rewrite exp_add (exp_log Hpos) mulrC.
  Qed.

  (* ---- the fitted state --------------------------------------------------------------------- *)
  Variable cell : option (seq F).
  Variables G D : seq (seq F).
  Variables w W : seq F.
  Variable mem : seq (seq nat).
  Variable Hinv : seq (seq (seq F)).
  Variable nk : seq F.
  Variable dim : BinNums.Z.
  Hypothesis w_ge0 : forall i, 0 <= List.nth i w 0.
  Hypothesis W_ge0 : forall j, 0 <= List.nth j W 0.

  Let d2 (j : nat) (y x : seq F) : F := nmaha rops cell (List.nth j Hinv [::]) y x.
  (* Gaussian of grid point j's bandwidth, evaluated on the displacement y - x *)
  Definition gauss (j : nat) (y x : seq F) : F :=
    fexp (neghalf rops * (List.nth j nk 0 + d2 j y x)).
  Definition far (x : seq F) (j : nat) : bool := kdecut2 rops dim < d2 j x (List.nth j G [::]).
  Definition near_members (x : seq F) (j : nat) : seq nat :=
    List.filter (fun i => row_neq rops (List.nth i D [::]) x) (List.nth j mem [::]).
  (* contribution of Voronoi cell j to the (unnormalised) mixture at x *)
  Definition contrib (x : seq F) (j : nat) : F :=
    if far x j then List.nth j W 0 * gauss j x (List.nth j G [::])
    else \sum_(i <- near_members x j) List.nth i w 0 * gauss j (List.nth i D [::]) x.
  (* the documented mixture density at x *)
  Definition mixture (x : seq F) : F :=
    (\sum_(j <- List.seq 0 (List.length G)) contrib x j) / (\sum_(v <- W) v).

  Lemma contrib_ge0 x j : 0 <= contrib x j.
  Proof.
    rewrite /contrib. case: ifP => _.
    - by apply: mulr_ge0; [exact: W_ge0 | apply: ltW; exact: exp_gt0].
    - by apply: sumr_ge0 => i _; apply: mulr_ge0; [exact: w_ge0 | apply: ltW; exact: exp_gt0].
  Qed.

  Lemma near_sum x j (l : seq nat) :
    \sum_(o <- List.map (fun i => lnk rops (List.nth j nk 0) (d2 j (List.nth i D [::]) x)
                                      (List.nth i w 0)) l) eexp o
    = \sum_(i <- l) List.nth i w 0 * gauss j (List.nth i D [::]) x.
  Proof.
    elim: l => [|k l IH] /=; first by rewrite !big_nil.
    by rewrite !big_cons IH (eexp_lnk _ _ (w_ge0 k)).
  Qed.

  Lemma kde_step_eexp x prob j :
    eexp (kde_step rops cell G D w W mem Hinv nk dim x prob j) = eexp prob + contrib x j.
  Proof.
    rewrite /kde_step /contrib /far /d2 -[nltb rops _ _]/(_ < _).
    case: ifP => _.
    - by rewrite eexp_lse !big_cons big_nil addr0 (eexp_lnk _ _ (W_ge0 j)).
    - rewrite /near_members. case E: (List.filter _ _) => [|i nb].
        by rewrite big_nil addr0.
      rewrite eexp_lse [LHS]big_cons. congr (_ + _).
      exact: (near_sum x j (i :: nb)).
  Qed.

  Lemma kde_fold_eexp x js prob :
    eexp (List.fold_left (kde_step rops cell G D w W mem Hinv nk dim x) js prob)
    = eexp prob + \sum_(j <- js) contrib x j.
  Proof.
    elim: js prob => [|j js IH] prob /=; first by rewrite big_nil addr0.
    by rewrite IH kde_step_eexp big_cons addrA.
  Qed.

  (* score_samples(x) = log of the documented mixture at x (-inf when the mixture vanishes) *)
  Lemma mixture_formula x :
    0 < \sum_(v <- W) v ->
    score_point rops cell G D w W mem Hinv nk dim x =
    if mixture x == 0 then None else Some (flog (mixture x)).
  Proof.
    move=> HW. rewrite /score_point /mixture.
    set S := \sum_(j <- _) contrib x j.
    have := kde_fold_eexp x (List.seq 0 (List.length G)) None.
    rewrite -/S /= add0r.
    case: (List.fold_left _ _ _) => [p|] /= HS.
    - have Sgt0 : 0 < S by rewrite -HS; exact: exp_gt0.
      have Mgt0 : 0 < S / \sum_(v <- W) v by apply: divr_gt0.
      rewrite (negbTE (lt0r_neq0 Mgt0)) nsumE log_div // -HS log_exp //.
    - by rewrite -HS mul0r eqxx.
  Qed.

  (* score = sum of score_samples (-inf as soon as one of them is) *)
  Lemma score_sum (Q : seq (seq F)) :
    let l := score_samples rops cell G D w W mem Hinv nk dim Q in
    score rops cell G D w W mem Hinv nk dim Q =
    if List.forallb (fun o => if o is Some _ then true else false) l
    then Some (\sum_(v <- somes l) v) else None.
  Proof. by rewrite /score /=; case: ifP => // _; rewrite nsumE. Qed.
End Mixture.

(* ================================================================================== *)
(* Bandwidths: the mexp programs cov_prog / oas_prog interpreted over 'M[F]                *)
(* ================================================================================== *)
Section Bandwidth.
  Variable F : rcfType.
  Implicit Types (x : F).

  Lemma Z2F_nat (n : nat) : Z2F F (BinInt.Z.of_nat n) = n%:R.
  Proof.
    case: n => [|n] //=. by rewrite Pnat.SuccNat2Pos.id_succ.
  Qed.

  Lemma mx11_mul (A B : 'M[F]_1) : (A *m B) ord0 ord0 = A ord0 ord0 * B ord0 ord0.
  Proof. by rewrite mxE big_ord_recl big_ord0 addr0. Qed.

  (* ---- x x^T > 0 ------------------------------------------------------------------------- *)
  Lemma rv_sq_ge0 (n : nat) (x : 'rV[F]_n) : 0 <= (x *m x^T) ord0 ord0.
  Proof. by rewrite mxE; apply: sumr_ge0 => j _; rewrite mxE -expr2 sqr_ge0. Qed.

  Lemma rv_sq_gt0 (n : nat) (x : 'rV[F]_n) : x != 0 -> 0 < (x *m x^T) ord0 ord0.
  Proof.
    move=> Hx. rewrite lt_neqAle rv_sq_ge0 andbT eq_sym.
    apply: contra Hx => /eqP H0. apply/eqP/rowP => j. rewrite mxE.
    move: H0. rewrite mxE => H0.
    have Hge : forall i : 'I_n, true -> 0 <= x ord0 i * x^T i ord0.
      by move=> i _; rewrite mxE -expr2 sqr_ge0.
    have /(_ j isT) := psumr_eq0P Hge H0.
    by rewrite mxE -expr2 => /eqP; rewrite sqrf_eq0 => /eqP.
  Qed.

  (* ---- shrinkage towards a multiple of the identity is positive definite -------------------- *)
  Definition psd (n : nat) (A : 'M[F]_n) : Prop := forall x : 'rV[F]_n, 0 <= (x *m A *m x^T) ord0 ord0.
  Definition pd (n : nat) (A : 'M[F]_n) : Prop :=
    forall x : 'rV[F]_n, x != 0 -> 0 < (x *m A *m x^T) ord0 ord0.

  Lemma shrink_spd (n : nat) (cov : 'M[F]_n) (psi c s : F) :
    cov^T = cov -> psd cov -> 0 <= psi -> psi < 1 -> 0 < c -> 0 < s ->
    let h := s *: (psi *: cov + ((1 - psi) * c) *: 1%:M) in
    h^T = h /\ pd h.
  Proof.
    move=> Hsym Hpsd Hp0 Hp1 Hc Hs /=. split.
      by rewrite linearZ /= linearD /= !linearZ /= Hsym trmx1.
    move=> x Hx.
    rewrite -scalemxAr -scalemxAl [X in 0 < X]mxE. apply: mulr_gt0 => //.
    rewrite mulmxDr mulmxDl [X in 0 < X]mxE -!scalemxAr -!scalemxAl mulmx1.
    rewrite [X in 0 < X + _]mxE [X in 0 < _ + X]mxE.
    apply: ltr_paddl; first by apply: mulr_ge0 => //; exact: Hpsd.
    apply: mulr_gt0; last exact: rv_sq_gt0.
    by apply: mulr_gt0 => //; rewrite subr_gt0.
  Qed.

  (* ---- values of 1x1 programs ----------------------------------------------------------------- *)
  Section Scalar.
    Variable env : env_mx F.
    Definition sv (e : mexp 1 1) : F := (eval_mx env e) ord0 ord0.
    Lemma sv_mul (a b : mexp 1 1) : sv (MMul a b) = sv a * sv b.
    Proof. by rewrite /sv /= mx11_mul. Qed.
    Lemma sv_add (a b : mexp 1 1) : sv (MAdd a b) = sv a + sv b.
    Proof. by rewrite /sv /= mxE. Qed.
    Lemma sv_sub (a b : mexp 1 1) : sv (MSub a b) = sv a - sv b.
    Proof. by rewrite /sv /= !mxE. Qed.
    Lemma sv_const z : sv (MConst z) = Z2F F z.
    Proof. by rewrite /sv /= mxE mulr1n. Qed.
    Lemma sv_map f (t a : mexp 1 1) : sv (MMap f t a) = sfun_mx f (sv t) (sv a).
    Proof. by rewrite /sv /= mxE. Qed.
    Lemma sv_trace (n : nat) (A : mexp n n) : sv (MTrace A) = \tr (eval_mx env A).
    Proof. by rewrite /sv /= mxE mulr1n. Qed.
    Definition svE := (sv_mul, sv_add, sv_sub, sv_const, sv_map, sv_trace).
    Lemma ev_scale (m n : nat) (c : mexp 1 1) (A : mexp m n) :
      eval_mx env (MScale c A) = sv c *: eval_mx env A.
    Proof. by []. Qed.
    Lemma ev_add (m n : nat) (A B : mexp m n) :
      eval_mx env (MAdd A B) = eval_mx env A + eval_mx env B.
    Proof. by []. Qed.
  End Scalar.

  (* ---- oas_prog ----------------------------------------------------------------------------- *)
  Section Oas.
    Variables (D : nat) (env : env_mx F).
    Let cov : 'M[F]_D := env D D 0%N.
    Let nl : F := (env 1%N 1%N 1%N) ord0 ord0.
    Let s : F := (env 1%N 1%N 2%N) ord0 ord0.
    Let tr : F := \tr cov.
    Let t2 : F := \sum_i cov i i * cov i i.
    Let a : F := 1 - 2%:R / D%:R.
    Let num : F := a * t2 + tr * tr.
    Let den : F := (nl + a) * t2 - tr * tr / D%:R.
    (* 1 - phi, phi = min(1, num/den) if den > 0 else 1 *)
    Definition oas_psi : F :=
      let q := (den - num) * (if 0 < den then den^-1 else 0) in if 0 < q then q else 0.

    Lemma oas_psiE : sv env (op_psi D) = oas_psi.
    Proof.
      rewrite /oas_psi /op_psi /op_den /op_num /op_a /op_t2 /op_tr /m_recip !svE /=.
      rewrite !Z2F_nat /sv /= -/nl -/cov -/tr.
      have -> : \tr (\matrix_(i, j) (cov i j * cov i j)) = t2.
        by apply: eq_bigr => i _; rewrite mxE.
      by rewrite -/a -/num -/den.
    Qed.

    Lemma oas_prog_formula :
      eval_mx env (oas_prog D) =
      s *: (oas_psi *: cov + ((1 - oas_psi) * (tr / D%:R)) *: 1%:M).
    Proof.
      rewrite /oas_prog !ev_scale ev_add !ev_scale oas_psiE /=.
      congr (_ *: (_ + _ *: _)).
      rewrite /op_coef 2!sv_mul sv_sub oas_psiE sv_const /m_recip sv_map sv_trace !sv_const /=.
      by rewrite Z2F_nat -mulrA.
    Qed.

    Lemma t2_ge0 : 0 <= t2.
    Proof. by apply: sumr_ge0 => i _; rewrite -expr2 sqr_ge0. Qed.

    (* with at least two dimensions and a positive trace the repaired shrinkage weight phi lies in
       (0, 1], whatever the local population nl is *)
    Lemma oas_psi_range : (2 <= D)%N -> 0 < tr -> 0 <= oas_psi < 1.
    Proof.
      move=> HD Htr. rewrite /oas_psi.
      have HDr : (0 : F) < D%:R by rewrite ltr0n; apply: leq_trans HD.
      have Ha : 0 <= a.
        rewrite /a subr_ge0 ler_pdivr_mulr // mul1r ler_nat. exact: HD.
      have Hnum : 0 < num.
        rewrite /num. apply: ltr_paddl; first by apply: mulr_ge0 => //; exact: t2_ge0.
        by apply: mulr_gt0.
      case Hden: (0 < den); last by rewrite mulr0 ltxx lexx ltr01.
      set q := (den - num) * den^-1.
      have Hq : q < 1.
        rewrite /q mulrBl divff ?gt_eqF // ltr_subl_addr ltr_addl. by apply: divr_gt0.
      by case: ifP => [Hq0|_]; rewrite ?lexx ?ltr01 ?Hq ?(ltW Hq0).
    Qed.

    (* C17_bandwidth_spd, dimension >= 2 *)
    Lemma bandwidth_spd :
      (2 <= D)%N -> cov^T = cov -> psd cov -> 0 < tr -> 0 < s ->
      (eval_mx env (oas_prog D))^T = eval_mx env (oas_prog D) /\ pd (eval_mx env (oas_prog D)).
    Proof.
      move=> HD Hsym Hpsd Htr Hs. rewrite oas_prog_formula.
      have /andP [Hp0 Hp1] := oas_psi_range HD Htr.
      apply: shrink_spd => //. apply: divr_gt0 => //. by rewrite ltr0n; apply: leq_trans HD.
    Qed.
  End Oas.

  (* dimension 1: h = s * cov whatever phi is *)
  Lemma bandwidth_spd_1 (env : env_mx F) :
    let cov : 'M[F]_1 := env 1%N 1%N 0%N in
    let s : F := (env 1%N 1%N 2%N) ord0 ord0 in
    0 < cov ord0 ord0 -> 0 < s ->
    (eval_mx env (oas_prog 1))^T = eval_mx env (oas_prog 1) /\ pd (eval_mx env (oas_prog 1)).
  Proof.
    move=> cov s Hc Hs. rewrite oas_prog_formula -/cov -/s.
    set psi := oas_psi 1 env.
    have Hcov : cov = (cov ord0 ord0) *: 1%:M by rewrite scalemx1; exact: mx11_scalar.
    have Htr : \tr cov = cov ord0 ord0 by rewrite /mxtrace big_ord_recl big_ord0 addr0.
    have -> : psi *: cov + ((1 - psi) * (\tr cov / 1%:R)) *: 1%:M = (cov ord0 ord0) *: 1%:M.
      rewrite Htr divr1 {1}Hcov scalerA -scalerDl. congr (_ *: _).
      by rewrite -mulrDl addrC subrK mul1r.
    split; first by rewrite scalerA scalemx1 tr_scalar_mx.
    move=> x Hx. rewrite -!scalemxAr -!scalemxAl mulmx1 [X in 0 < X]mxE.
    apply: mulr_gt0 => //. rewrite [X in 0 < X]mxE.
    by apply: mulr_gt0 => //; exact: rv_sq_gt0.
  Qed.

  (* a weighted Gram matrix is symmetric positive semi-definite *)
  Lemma gram_psd (n D : nat) (P : 'cV[F]_n) (Xc : 'M[F]_(n, D)) (cinv : F) :
    (forall i, 0 <= P i ord0) -> 0 <= cinv ->
    psd (cinv *: ((diag_mx P^T *m Xc)^T *m Xc)).
  Proof.
    move=> HP Hc x. rewrite -scalemxAr -scalemxAl mxE.
    apply: mulr_ge0 => //.
    rewrite trmx_mul tr_diag_mx !mulmxA.
    have -> : x *m Xc^T = (Xc *m x^T)^T by rewrite trmx_mul trmxK.
    set y := Xc *m x^T. rewrite -[_ *m Xc *m x^T]mulmxA -/y mul_mx_diag mxE.
    apply: sumr_ge0 => j _. rewrite !mxE mulrAC -expr2.
    by apply: mulr_ge0; [rewrite sqr_ge0 | exact: HP].
  Qed.

  (* ---- cov_prog ------------------------------------------------------------------------------- *)
  Section Cov.
    Variables (n D : nat) (env : env_mx F).
    Let P : 'cV[F]_n := eval_mx env (cp_p n).
    Let Xc : 'M[F]_(n, D) := eval_mx env (cp_xxm n D).
    Let c : F := (eval_mx env (cp_c n)) ord0 ord0.

    (* the free-space covariance is  (1 - sum p^2)^-1 Xc^T diag(p) Xc *)
    Lemma cov_prog_formula :
      eval_mx env (cov_prog n D) = c^-1 *: ((diag_mx P^T *m Xc)^T *m Xc).
    Proof. rewrite /cov_prog ev_scale /m_recip sv_map. reflexivity. Qed.

    Lemma cov_prog_sym : (eval_mx env (cov_prog n D))^T = eval_mx env (cov_prog n D).
    Proof.
      by rewrite cov_prog_formula linearZ /= !trmx_mul !trmxK tr_diag_mx mulmxA.
    Qed.

    Lemma cov_prog_psd :
      (forall i, 0 <= P i ord0) -> 0 < c -> psd (eval_mx env (cov_prog n D)).
    Proof.
      move=> HP Hc. rewrite cov_prog_formula. apply: gram_psd => //. by rewrite invr_ge0 ltW.
    Qed.

    (* the normalised weights: p = w / totw *)
    Lemma cov_prog_pE i :
      P i ord0 = ((\sum_k (env n 1%N 1%N) k ord0)^-1) * (env n 1%N 1%N) i ord0.
    Proof.
      rewrite /P /= !mxE /=. congr (_^-1 * _).
      by apply: eq_bigr => k _; rewrite !mxE mul1r.
    Qed.

    Lemma cov_prog_cE : c = 1 - \sum_i P i ord0 * P i ord0.
    Proof.
      rewrite /c -/(sv env (cp_c n)) /cp_c sv_sub sv_const /= /sv.
      have -> : eval_mx env (MMul (MTr (cp_p n)) (cp_p n)) = P^T *m P by [].
      rewrite mxE. congr (_ - _). by apply: eq_bigr => i _; rewrite mxE.
    Qed.
  End Cov.

  (* "the localisation reaches at least one other grid point": if two of the normalised local
     weights are positive then 1 - sum p^2 > 0 *)
  Lemma reach_pos (n : nat) (p : 'I_n -> F) (i0 j0 : 'I_n) :
    (forall i, 0 <= p i) -> \sum_i p i = 1 -> i0 != j0 -> 0 < p i0 -> 0 < p j0 ->
    0 < 1 - \sum_i p i * p i.
  Proof.
    move=> Hp Hs Hij Hi Hj. rewrite subr_gt0 -[X in _ < X]Hs.
    have Hle1 i : p i <= 1.
      by rewrite -Hs (bigD1 i) //= ler_addl; apply: sumr_ge0.
    have Hi1 : p i0 < 1.
      rewrite -Hs (bigD1 i0) //= ltr_addl (bigD1 j0) 1?eq_sym //=.
      by apply: ltr_paddr => //; apply: sumr_ge0.
    rewrite (bigD1 i0) //= [X in _ < X](bigD1 i0) //=.
    apply: ltr_le_add.
      by rewrite -{3}[p i0]mulr1 ltr_pmul2l.
    apply: ler_sum => i _. by rewrite -{3}[p i]mulr1 ler_wpmul2l.
  Qed.
  (* free space, from the raw local weights: non-negative local weights of which two are positive
     ("the localisation reaches at least one other grid point"), a positive trace (the reached
     grid points do not all coincide), at least two dimensions: the bandwidth is symmetric positive
     definite, whatever the local population and the effective dimension are *)
  Lemma bandwidth_spd_free (n D : nat) (envC envO : env_mx F) (i0 j0 : 'I_n) :
    let w : 'cV[F]_n := envC n 1%N 1%N in
    (forall i, 0 <= w i ord0) -> i0 != j0 -> 0 < w i0 ord0 -> 0 < w j0 ord0 ->
    envO D D 0%N = eval_mx envC (cov_prog n D) ->
    (2 <= D)%N -> 0 < \tr (envO D D 0%N) -> 0 < (envO 1%N 1%N 2%N) ord0 ord0 ->
    (eval_mx envO (oas_prog D))^T = eval_mx envO (oas_prog D) /\ pd (eval_mx envO (oas_prog D)).
  Proof.
    move=> w Hw Hij Hi Hj Hcov HD Htr Hs.
    have Htot : 0 < \sum_k w k ord0.
      rewrite (bigD1 i0) //=. apply: ltr_paddr => //. by apply: sumr_ge0.
    have Hp0 i : 0 <= eval_mx envC (cp_p n) i ord0.
      by rewrite cov_prog_pE; apply: mulr_ge0 => //; rewrite invr_ge0 ltW.
    have Hc : 0 < eval_mx envC (cp_c n) ord0 ord0.
      rewrite cov_prog_cE.
      apply: (@reach_pos n (fun i => eval_mx envC (cp_p n) i ord0) i0 j0) => //.
      - under eq_bigr => i _ do rewrite cov_prog_pE.
        by rewrite -mulr_sumr mulVf // gt_eqF.
      - by rewrite cov_prog_pE; apply: mulr_gt0 => //; rewrite invr_gt0.
      - by rewrite cov_prog_pE; apply: mulr_gt0 => //; rewrite invr_gt0.
    apply: bandwidth_spd => //.
    - by rewrite Hcov cov_prog_sym.
    - by rewrite Hcov; apply: cov_prog_psd.
  Qed.
  Lemma covariance_psd (n D : nat) (env : env_mx F) :
    (eval_mx env (cov_prog n D))^T = eval_mx env (cov_prog n D) /\
    ((forall i : 'I_n, 0 <= eval_mx env (cp_p n) i ord0) ->
     0 < eval_mx env (cp_c n) ord0 ord0 -> psd (eval_mx env (cov_prog n D))).
  Proof. split; [exact: cov_prog_sym | exact: cov_prog_psd]. Qed.

  Lemma bandwidth_spd_full (D : nat) (env : env_mx F) :
    (2 <= D)%N ->
    (env D D 0%N)^T = env D D 0%N -> psd (env D D 0%N) -> 0 < \tr (env D D 0%N) ->
    0 < (env 1%N 1%N 2%N) ord0 ord0 ->
    0 <= oas_psi D env < 1 /\
    eval_mx env (oas_prog D) =
      (env 1%N 1%N 2%N) ord0 ord0 *:
        (oas_psi D env *: env D D 0%N
         + ((1 - oas_psi D env) * (\tr (env D D 0%N) / D%:R)) *: 1%:M) /\
    (eval_mx env (oas_prog D))^T = eval_mx env (oas_prog D) /\ pd (eval_mx env (oas_prog D)).
  Proof.
    move=> HD Hs Hp Ht Hpos; split; [exact: oas_psi_range | split; [exact: oas_prog_formula|]].
    exact: bandwidth_spd.
  Qed.

  Lemma nonvacuous_bandwidth :
    exists env : env_mx F,
      (env 2%N 2%N 0%N)^T = env 2%N 2%N 0%N /\ psd (env 2%N 2%N 0%N) /\ 0 < \tr (env 2%N 2%N 0%N) /\
      0 < (env 1%N 1%N 2%N) ord0 ord0.
  Proof.
    exists (fun (m n k : nat) => if k is 0%N then \matrix_(i, j) (((i : nat) == (j : nat))%:R) else const_mx 1).
    have E : (\matrix_(i < 2, j < 2) (((i : nat) == (j : nat))%:R : F)) = 1%:M.
      by apply/matrixP => i j; rewrite !mxE.
    rewrite E; split; first by rewrite trmx1.
    split; first by move=> x; rewrite mulmx1; exact: rv_sq_ge0.
    by rewrite mxtrace1 mxE ltr0n ltr01.
  Qed.
End Bandwidth.
