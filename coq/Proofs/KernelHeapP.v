(* C12 (extension) — the object holds values, not references (Model/KernelHeap.v). *)
From Coq Require Import List Bool Arith.
From Verif Require Import KernelObj KernelHeap.
Import ListNotations.

Section KnHeapP.
  Variable T : Type.
  Variables nrows ncols : T -> nat.
  Variable norm_w : T -> T.
  Variable fit_num : bool -> bool -> T -> option T -> T * T * T.
  Variable tr_num : bool -> option T -> T -> T -> T -> T -> T.
  Variable cen_num : bool -> option T -> T -> T -> T -> T.

  Notation kstep := (kn_step T nrows ncols norm_w fit_num tr_num).
  Notation krun := (kn_run T nrows ncols norm_w fit_num tr_num).
  Notation hstep := (kh_step T nrows ncols norm_w fit_num tr_num cen_num).
  Notation hrun := (kh_run T nrows ncols norm_w fit_num tr_num cen_num).
  Notation hresolve := (kh_resolve T nrows ncols norm_w fit_num tr_num cen_num).

  (* one step of the heap machine is the value-level step on the values read at call time *)
  Lemma kh_step_view o h op k :
    kh_view T h op = Some k ->
    let '(o1, _, r) := hstep o h op in (o1, r) = (fst (kstep o k), Some (snd (kstep o k))).
  Proof.
    destruct op; cbn [kh_view]; intros E; inversion E; subst; cbn [kh_step kh_view];
      try (destruct (kstep o _) as [o1 r]; reflexivity).
    - destruct (kstep o (OTransform (h aK))) as [o1 r].
      destruct r; try reflexivity. destruct (o_attrs T o); reflexivity.
    - destruct (kstep o (OFitTransform (h aK) (hrd T h aw))) as [o1 r].
      destruct r; try reflexivity. destruct (o_attrs T o1); reflexivity.
  Qed.

  Lemma kh_step_write o h a v : hstep o h (HWrite a v) = (o, hupd T h a v, None).
  Proof. reflexivity. Qed.

  (* the whole history: object and results are those of the value-level machine on the
     resolved calls *)
  Lemma kh_run_resolved ops : forall o h,
    let '(o2, _, rs) := hrun o h ops in (o2, rs) = krun o (hresolve o h ops).
  Proof.
    induction ops as [|op ops IH]; intros o h; [reflexivity|].
    cbn [kh_run kh_resolve].
    destruct (kh_view T h op) as [k|] eqn:V.
    - pose proof (kh_step_view o h op k V) as S.
      destruct (hstep o h op) as [[o1 h1] r]. inversion S; subst.
      specialize (IH (fst (kstep o k)) h1).
      destruct (hrun (fst (kstep o k)) h1 ops) as [[o2 h2] rs].
      cbn [kn_run]. destruct (kstep o k) as [o1' r1]; cbn [fst snd] in *.
      destruct (krun o1' (hresolve o1' h1 ops)) as [o3 rs3]. inversion IH; subst. reflexivity.
    - destruct op; try discriminate V. cbn [kh_step].
      specialize (IH o (hupd T h a v)).
      destruct (hrun o (hupd T h a v) ops) as [[o2 h2] rs]. exact IH.
  Qed.

  (* two heaps that agree everywhere except at address a *)
  Definition agree_off (a : nat) (h1 h2 : heap T) : Prop := forall b, b <> a -> h1 b = h2 b.

  Lemma agree_hupd a h1 h2 b v :
    agree_off a h1 h2 -> agree_off a (hupd T h1 b v) (hupd T h2 b v).
  Proof.
    intros A c Hc; unfold hupd. destruct (Nat.eqb c b); [reflexivity | exact (A c Hc)].
  Qed.

  Lemma agree_hrd a h1 h2 aw :
    agree_off a h1 h2 -> (forall x, aw = Some x -> x <> a) -> hrd T h1 aw = hrd T h2 aw.
  Proof.
    intros A N; destruct aw as [x|]; [|reflexivity]. cbn. rewrite (A x (N x eq_refl)). reflexivity.
  Qed.

  Lemma kh_step_agree a o h1 h2 op :
    agree_off a h1 h2 -> ~ In a (kh_reads T op) ->
    let '(o1, g1, r1) := hstep o h1 op in
    let '(o2, g2, r2) := hstep o h2 op in
    o1 = o2 /\ r1 = r2 /\ agree_off a g1 g2.
  Proof.
    intros A N. destruct op; cbn [kh_reads In] in N.
    - cbn [kh_step]. repeat split. apply agree_hupd; exact A.
    - cbn [kh_step kh_view]. destruct (kstep o _); auto.
    - assert (E1 : h1 aK = h2 aK) by (apply A; intros E; apply N; left; exact E).
      assert (E2 : hrd T h1 aw = hrd T h2 aw).
      { apply (agree_hrd a); [exact A|]. intros x Hx E; subst; apply N; right; left; reflexivity. }
      cbn [kh_step kh_view]. rewrite E1, E2. destruct (kstep o _); auto.
    - assert (E1 : h1 aK = h2 aK) by (apply A; intros E; apply N; left; exact E).
      cbn [kh_step kh_view]. rewrite E1. destruct (kstep o _); auto.
    - assert (E1 : h1 aK = h2 aK) by (apply A; intros E; apply N; left; exact E).
      cbn [kh_step]. rewrite E1. destruct (kstep o _) as [o1 r].
      destruct r; auto. destruct (o_attrs T o); auto.
      repeat split. apply agree_hupd; exact A.
    - assert (E1 : h1 aK = h2 aK) by (apply A; intros E; apply N; left; exact E).
      assert (E2 : hrd T h1 aw = hrd T h2 aw).
      { apply (agree_hrd a); [exact A|]. intros x Hx E; subst; apply N; right; left; reflexivity. }
      cbn [kh_step kh_view]. rewrite E1, E2. destruct (kstep o _); auto.
    - assert (E1 : h1 aK = h2 aK) by (apply A; intros E; apply N; left; exact E).
      assert (E2 : hrd T h1 aw = hrd T h2 aw).
      { apply (agree_hrd a); [exact A|]. intros x Hx E; subst; apply N; right; left; reflexivity. }
      cbn [kh_step]. rewrite E1, E2. destruct (kstep o _) as [o1 r].
      destruct r; auto. destruct (o_attrs T o1); auto.
      repeat split. apply agree_hupd; exact A.
  Qed.

  Lemma kh_run_agree a ops : forall o h1 h2,
    agree_off a h1 h2 -> (forall op, In op ops -> ~ In a (kh_reads T op)) ->
    let '(o1, _, rs1) := hrun o h1 ops in
    let '(o2, _, rs2) := hrun o h2 ops in
    o1 = o2 /\ rs1 = rs2.
  Proof.
    induction ops as [|op ops IH]; intros o h1 h2 A N; [cbn; auto|].
    cbn [kh_run].
    pose proof (kh_step_agree a o h1 h2 op A (N op (or_introl eq_refl))) as S.
    destruct (hstep o h1 op) as [[o1 g1] r1]. destruct (hstep o h2 op) as [[o2 g2] r2].
    destruct S as [Eo [Er Ag]]; subst.
    specialize (IH o2 g1 g2 Ag (fun op' H => N op' (or_intror H))).
    destruct (hrun o2 g1 ops) as [[o3 g3] rs3]. destruct (hrun o2 g2 ops) as [[o4 g4] rs4].
    destruct IH; subst; auto.
  Qed.

  (* FIT COPIES: once a call has returned, the caller may overwrite ANY of its arrays — the ones
     it passed to fit included — without changing the object or the result of any later call
     that is not itself handed the overwritten array *)
  Lemma kh_write_irrelevant (pre tail : list (kh_op T)) o h a v :
    (forall op, In op tail -> ~ In a (kh_reads T op)) ->
    let '(o1, _, rs1) := hrun o h (pre ++ HWrite a v :: tail) in
    let '(o2, _, rs2) := hrun o h (pre ++ tail) in
    o1 = o2 /\ rs1 = rs2.
  Proof.
    revert o h; induction pre as [|op pre IH]; intros o h N.
    - cbn [app kh_run kh_step].
      assert (A : agree_off a (hupd T h a v) h).
      { intros b Hb; unfold hupd. destruct (Nat.eqb_spec b a); [contradiction|reflexivity]. }
      pose proof (kh_run_agree a tail o (hupd T h a v) h A N) as R.
      destruct (hrun o (hupd T h a v) tail) as [[o1 g1] rs1]. exact R.
    - cbn [app kh_run]. destruct (hstep o h op) as [[o1 h1] r].
      specialize (IH o1 h1 N).
      destruct (hrun o1 h1 (pre ++ HWrite a v :: tail)) as [[o2 g2] rs2].
      destruct (hrun o1 h1 (pre ++ tail)) as [[o3 g3] rs3].
      destruct IH; subst; auto.
  Qed.
  (* fit_transform(K, w, copy=False) = fit(K, w) followed by transform(K, copy=False): same object,
     same returned value — the fit-then-transform of the values the array held when the call was
     made —, and the same contents of the caller's array afterwards *)
  Lemma kh_fit_transform_inplace o h aK aw :
    kn_w_ok T nrows (h aK) (hrd T h aw) = true ->
    let '(o2, h2, rs) := hrun o h [HFit aK aw; HTransformIP aK] in
    hrun o h [HFitTransformIP aK aw] = (o2, h2, [last rs RDone]).
  Proof.
    intros Hw. cbn [kh_run kh_step kh_view kn_step].
    unfold kn_do_fit at 1 2. rewrite Hw.
    destruct (fit_num _ _ (h aK) _) as [[r a] s]. cbn [o_attrs o_center].
    match goal with |- context [kn_do_transform ?x1 ?x2 ?x3 ?x4 ?x5 ?x6] =>
      destruct (kn_do_transform x1 x2 x3 x4 x5 x6) as [o3 r3] eqn:E end.
    assert (E3 : o3 = fst (kn_do_transform T nrows ncols tr_num
                   (KnObj (o_center T o) (o_trace T o) (Some (ncols (h aK)))
                          (Some (KnAttrs (match hrd T h aw with Some w0 => Some (norm_w w0) | None => None end) r a s)))
                   (h aK))) by (rewrite E; reflexivity).
    destruct r3; cbn; try reflexivity.
    (* the object after transform is the object after fit: its attributes are the fitted ones *)
    unfold kn_do_transform in E3. cbn [o_attrs o_nfeat] in E3.
    match type of E3 with context [if ?b then _ else _] => destruct b end; cbn in E3; subst o3; reflexivity.
  Qed.
End KnHeapP.
