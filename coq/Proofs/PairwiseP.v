(* Proofs about Model/Pairwise.v (periodic and Mahalanobis pairwise distances over Q).
   Stdlib style; arithmetic by lra/nra over Q (Lqa), no axioms. *)
From Coq Require Import Lqa.
From Verif Require Import Pairwise.
Open Scope Q_scope.

Lemma inject_Z_minus a b : inject_Z (a - b) == inject_Z a - inject_Z b.
Proof. unfold Z.sub. rewrite inject_Z_plus, inject_Z_opp. reflexivity. Qed.

Definition near (q : Q) (z : Z) : Prop := - (1#2) <= q - inject_Z z <= 1#2.
Definition tie (q : Q) (z : Z) : Prop := q - inject_Z z == 1#2 \/ q - inject_Z z == - (1#2).

Lemma rhe_near q : near q (rhe q).
Proof.
  unfold near, rhe.
  pose proof (Qfloor_le (q + (1#2))) as Hl. pose proof (Qlt_floor (q + (1#2))) as Hu.
  remember (Qfloor (q + (1#2))) as f eqn:Ef.
  rewrite inject_Z_plus in Hu. change (inject_Z 1) with 1 in Hu.
  destruct (Qeq_bool (inject_Z f) (q + (1#2)) && Z.odd f) eqn:E.
  - apply andb_prop in E. destruct E as [E _]. apply Qeq_bool_eq in E.
    rewrite inject_Z_minus. change (inject_Z 1) with 1. lra.
  - lra.
Qed.

Lemma rhe_tie_even q : tie q (rhe q) -> Z.even (rhe q) = true.
Proof.
  unfold tie, rhe.
  pose proof (Qfloor_le (q + (1#2))) as Hl. pose proof (Qlt_floor (q + (1#2))) as Hu.
  remember (Qfloor (q + (1#2))) as f eqn:Ef.
  rewrite inject_Z_plus in Hu. change (inject_Z 1) with 1 in Hu.
  destruct (Qeq_bool (inject_Z f) (q + (1#2)) && Z.odd f) eqn:E.
  - apply andb_prop in E. destruct E as [_ E]. intros _.
    rewrite Z.even_sub. rewrite <- Z.negb_odd, E. reflexivity.
  - intros [H|H]; [exfalso; lra|].
    assert (E1 : Qeq_bool (inject_Z f) (q + (1#2)) = true) by (apply Qeq_eq_bool; lra).
    rewrite E1 in E. cbn in E. rewrite <- Z.negb_odd, E. reflexivity.
Qed.

(* two integers within 1/2 of the same rational differ by at most one *)
Lemma near_diff q z1 z2 : near q z1 -> near q z2 -> (z1 = z2 \/ z1 = z2 + 1 \/ z2 = z1 + 1)%Z.
Proof.
  unfold near. intros H1 H2.
  assert (A : inject_Z z1 < inject_Z (z2 + 2)) by (rewrite inject_Z_plus; change (inject_Z 2) with 2; lra).
  assert (B : inject_Z z2 < inject_Z (z1 + 2)) by (rewrite inject_Z_plus; change (inject_Z 2) with 2; lra).
  rewrite <- Zlt_Qlt in A, B. lia.
Qed.

Lemma near_sq_eq q z1 z2 : near q z1 -> near q z2 ->
  qsq (q - inject_Z z1) == qsq (q - inject_Z z2).
Proof.
  intros H1 H2. destruct (near_diff q z1 z2 H1 H2) as [E|[E|E]]; subst.
  - reflexivity.
  - unfold near, qsq in *. rewrite inject_Z_plus in *. change (inject_Z 1) with 1 in *.
    assert (q - inject_Z z2 == 1#2) by lra. nra.
  - unfold near, qsq in *. rewrite inject_Z_plus in *. change (inject_Z 1) with 1 in *.
    assert (q - inject_Z z1 == 1#2) by lra. nra.
Qed.

(* a near integer is a nearest integer *)
Lemma near_min q z z' : near q z -> qsq (q - inject_Z z) <= qsq (q - inject_Z z').
Proof.
  unfold near, qsq. intros H.
  destruct (Z.lt_trichotomy z' z) as [L|[L|L]].
  - assert (A : inject_Z (z' + 1) <= inject_Z z) by (rewrite <- Zle_Qle; lia).
    rewrite inject_Z_plus in A. change (inject_Z 1) with 1 in A. nra.
  - subst. lra.
  - assert (A : inject_Z (z + 1) <= inject_Z z') by (rewrite <- Zle_Qle; lia).
    rewrite inject_Z_plus in A. change (inject_Z 1) with 1 in A. nra.
Qed.

Lemma rhe_unique q z : near q z -> (tie q z -> Z.even z = true) -> z = rhe q.
Proof.
  intros Hn Ht. pose proof (rhe_near q) as Rn. pose proof (rhe_tie_even q) as Rt.
  destruct (near_diff q z (rhe q) Hn Rn) as [E|[E|E]]; [exact E| |]; exfalso.
  - unfold near, tie in *. rewrite E in *. rewrite inject_Z_plus in *. change (inject_Z 1) with 1 in *.
    assert (Z.even (rhe q + 1) = true) by (apply Ht; right; lra).
    assert (Z.even (rhe q) = true) by (apply Rt; left; lra).
    rewrite Z.even_add in *. rewrite H0 in H. discriminate.
  - unfold near, tie in *. rewrite E in *. rewrite inject_Z_plus in *. change (inject_Z 1) with 1 in *.
    assert (Z.even (z + 1) = true) by (apply Rt; right; lra).
    assert (Z.even z = true) by (apply Ht; left; lra).
    rewrite Z.even_add in *. rewrite H0 in H. discriminate.
Qed.

Lemma rhe_comp q q' : q == q' -> rhe q = rhe q'.
Proof.
  intros E. apply rhe_unique.
  - pose proof (rhe_near q) as H. unfold near in *. lra.
  - intros T. apply rhe_tie_even. unfold tie in *. lra.
Qed.

Lemma rhe_opp q : rhe (- q) = (- rhe q)%Z.
Proof.
  symmetry. apply rhe_unique.
  - pose proof (rhe_near q) as H. unfold near in *. rewrite inject_Z_opp. lra.
  - intros T. rewrite Z.even_opp. apply rhe_tie_even. unfold tie in *. rewrite inject_Z_opp in T. lra.
Qed.

Lemma rhe_shift_near q m : near q (rhe (q + inject_Z m) - m).
Proof.
  pose proof (rhe_near (q + inject_Z m)) as H. unfold near in *. rewrite inject_Z_minus. lra.
Qed.

(* ---------------------------------------------------------------- wrap *)
Global Instance qsq_comp : Proper (Qeq ==> Qeq) qsq.
Proof. intros a b E. unfold qsq. rewrite E. reflexivity. Qed.

Lemma wrap_as_resid c x : 0 < c -> wrap c x == c * (x / c - inject_Z (rhe (x / c))).
Proof. intros Hc. unfold wrap. field. lra. Qed.

Lemma wrap_comp c x x' : x == x' -> wrap c x == wrap c x'.
Proof.
  intros E. unfold wrap. rewrite (rhe_comp (x / c) (x' / c)) by (rewrite E; reflexivity).
  rewrite E. reflexivity.
Qed.

Lemma wrap_bound c x : 0 < c -> - c <= 2 * wrap c x <= c.
Proof.
  intros Hc. rewrite (wrap_as_resid c x Hc).
  pose proof (rhe_near (x / c)) as H. unfold near in H.
  set (r := x / c - inject_Z (rhe (x / c))) in *. nra.
Qed.

Lemma wrap_sq_bound c x : 0 < c -> 4 * qsq (wrap c x) <= qsq c.
Proof. intros Hc. pose proof (wrap_bound c x Hc) as H. unfold qsq. nra. Qed.

(* the wrapped value is a smallest representative of x modulo c *)
Lemma wrap_sq_min c x z : 0 < c -> qsq (wrap c x) <= qsq (x - inject_Z z * c).
Proof.
  intros Hc. rewrite (wrap_as_resid c x Hc).
  assert (E : x - inject_Z z * c == c * (x / c - inject_Z z)) by (field; lra).
  pose proof (near_min (x / c) (rhe (x / c)) z (rhe_near _)) as H.
  unfold qsq in *. rewrite E.
  set (r := x / c - inject_Z (rhe (x / c))) in *. set (r' := x / c - inject_Z z) in *.
  assert (0 <= c * c) by nra.
  assert (c * r * (c * r) == (c * c) * (r * r)) as -> by ring.
  assert (c * r' * (c * r') == (c * c) * (r' * r')) as -> by ring. nra.
Qed.

Lemma wrap_sq_le_free c x : 0 < c -> qsq (wrap c x) <= qsq x.
Proof.
  intros Hc. pose proof (wrap_sq_min c x 0 Hc) as H.
  assert (E : x - inject_Z 0 * c == x) by (change (inject_Z 0) with 0; ring).
  unfold qsq in *. rewrite E in H. exact H.
Qed.

Lemma wrap_sq_image c x m : 0 < c -> qsq (wrap c (x + inject_Z m * c)) == qsq (wrap c x).
Proof.
  intros Hc. rewrite !wrap_as_resid by exact Hc.
  assert (E : (x + inject_Z m * c) / c == x / c + inject_Z m) by (field; lra).
  rewrite (rhe_comp _ _ E).
  pose proof (near_sq_eq (x / c) _ _ (rhe_shift_near (x / c) m) (rhe_near (x / c))) as H.
  rewrite inject_Z_minus in H. unfold qsq in *.
  set (z1 := inject_Z (rhe (x / c + inject_Z m))) in *. set (z2 := inject_Z (rhe (x / c))) in *.
  rewrite E.
  assert (c * (x / c + inject_Z m - z1) * (c * (x / c + inject_Z m - z1))
          == c * c * ((x / c - (z1 - inject_Z m)) * (x / c - (z1 - inject_Z m)))) as -> by ring.
  rewrite H. ring.
Qed.

Lemma wrap_opp c x : wrap c (- x) == - wrap c x.
Proof.
  unfold wrap. assert (E : - x / c == - (x / c)) by (unfold Qdiv; ring).
  rewrite (rhe_comp _ _ E), rhe_opp, inject_Z_opp. ring.
Qed.

Lemma wrap_image_zero c m : 0 < c -> wrap c (inject_Z m * c) == 0.
Proof.
  intros Hc. unfold wrap.
  assert (E : inject_Z m * c / c == inject_Z m) by (field; lra).
  assert (R : rhe (inject_Z m) = m).
  { symmetry. apply rhe_unique; unfold near, tie.
    - lra.
    - intros [T|T]; exfalso; lra. }
  rewrite (rhe_comp _ _ E), R. ring.
Qed.

(* one-dimensional torus triangle inequality, in squares *)
Lemma wrap_sq_tri c s t : 0 < c -> qsq (wrap c (s + t)) <= qsq (wrap c s + wrap c t).
Proof.
  intros Hc. pose proof (wrap_sq_min c (s + t) (rhe (s / c) + rhe (t / c)) Hc) as H.
  assert (E : s + t - inject_Z (rhe (s / c) + rhe (t / c)) * c == wrap c s + wrap c t)
    by (unfold wrap; rewrite inject_Z_plus; ring).
  unfold qsq in *. rewrite E in H. exact H.
Qed.

(* wrap is zero exactly on the multiples of the cell length *)
Lemma wrap_zero_inv c x : wrap c x == 0 -> x == inject_Z (rhe (x / c)) * c.
Proof. unfold wrap. intros H. lra. Qed.

(* ---------------------------------------------------------------- sums over lists *)
Lemma qsqn_nonneg v : 0 <= qsqn v.
Proof.
  induction v as [|a v IH]; [change (qsqn []) with 0; lra|].
  change (qsqn (a :: v)) with (qsq a + qsqn v). unfold qsq. nra.
Qed.

Lemma qdot_self v : qdot v v = qsqn v.
Proof. unfold qdot, qsqn. rewrite map2_same. reflexivity. Qed.

Lemma list_ind3 (P : list Q -> list Q -> list Q -> Prop) :
  P [] [] [] ->
  (forall c a b cell x y, P cell x y -> P (c :: cell) (a :: x) (b :: y)) ->
  forall cell x y, length x = length cell -> length y = length cell -> P cell x y.
Proof.
  intros H0 HS. induction cell as [|c cell IH]; intros [|a x] [|b y] Hx Hy; try discriminate.
  - exact H0.
  - apply HS. apply IH; cbn in *; congruence.
Qed.

Lemma pd2_cons c cell a x b y :
  pd2 (c :: cell) (a :: x) (b :: y) = qsq (wrap c (a - b)) + pd2 cell x y.
Proof. reflexivity. Qed.
Lemma fd2_cons a x b y : fd2 (a :: x) (b :: y) = qsq (a - b) + fd2 x y.
Proof. reflexivity. Qed.

Lemma pd2_nonneg cell x y : 0 <= pd2 cell x y.
Proof. apply qsqn_nonneg. Qed.

Lemma pd2_sym cell x y : pd2 cell x y == pd2 cell y x.
Proof.
  revert x y. induction cell as [|c cell IH]; intros [|a x] [|b y]; try reflexivity.
  rewrite !pd2_cons, IH.
  assert (E : b - a == - (a - b)) by ring.
  rewrite (wrap_comp c _ _ E), wrap_opp. unfold qsq. ring.
Qed.

Lemma wvec_length cell x y :
  length x = length cell -> length y = length cell -> length (wvec cell x y) = length cell.
Proof.
  intros Hx Hy. unfold wvec, vdiff. rewrite !map2_length, Hx, Hy, !Nat.min_id. reflexivity.
Qed.

Lemma pd2_half_diagonal cell x y : cell_pos cell -> 4 * pd2 cell x y <= qsqn cell.
Proof.
  revert x y. induction cell as [|c cell IH]; intros x y Hc.
  - change (pd2 [] x y) with 0. change (qsqn []) with 0. lra.
  - inversion Hc as [|c' cell' Hc0 Hc1]; subst.
    pose proof (qsqn_nonneg (c :: cell)) as N.
    destruct x as [|a x]; [change (pd2 (c :: cell) [] y) with 0; lra|].
    destruct y as [|b y]; [change (pd2 (c :: cell) (a :: x) []) with 0; lra|].
    rewrite pd2_cons. specialize (IH x y Hc1). pose proof (wrap_sq_bound c (a - b) Hc0) as H.
    change (qsqn (c :: cell)) with (qsq c + qsqn cell). lra.
Qed.

Lemma pd2_le_free cell x y : cell_pos cell ->
  length x = length cell -> length y = length cell -> pd2 cell x y <= fd2 x y.
Proof.
  intros Hc Hx Hy. revert Hc. pattern cell, x, y. apply list_ind3; try assumption.
  - intros _. change (pd2 [] [] []) with 0. change (fd2 [] []) with 0. lra.
  - intros c a b cell' x' y' IH Hc. inversion Hc as [|c' l Hc0 Hc1]; subst.
    rewrite pd2_cons, fd2_cons. specialize (IH Hc1).
    pose proof (wrap_sq_le_free c (a - b) Hc0). lra.
Qed.

Lemma pd2_image cell m m' x y : cell_pos cell ->
  length m = length cell -> length m' = length cell ->
  length x = length cell -> length y = length cell ->
  pd2 cell (vshift cell m x) (vshift cell m' y) == pd2 cell x y.
Proof.
  revert m m' x y. induction cell as [|c cell IH];
    intros [|k m] [|k' m'] [|a x] [|b y] Hc Hm Hm' Hx Hy; try discriminate; try reflexivity.
  inversion Hc as [|c' l Hc0 Hc1]; subst. cbn [vshift]. rewrite !pd2_cons.
  rewrite (IH m m' x y Hc1) by (cbn in *; congruence).
  assert (E : a + inject_Z k * c - (b + inject_Z k' * c) == (a - b) + inject_Z (k - k') * c)
    by (rewrite inject_Z_minus; ring).
  rewrite (wrap_comp c _ _ E), wrap_sq_image by exact Hc0. reflexivity.
Qed.

Lemma pd2_self cell x : cell_pos cell -> pd2 cell x x == 0.
Proof.
  revert x. induction cell as [|c cell IH]; intros [|a x] Hc; try reflexivity.
  inversion Hc as [|c' l Hc0 Hc1]; subst. rewrite pd2_cons, IH by exact Hc1.
  assert (E : a - a == inject_Z 0 * c) by (change (inject_Z 0) with 0; ring).
  rewrite (wrap_comp c _ _ E), wrap_image_zero by exact Hc0. unfold qsq. ring.
Qed.

Lemma vshift_length cell m x :
  length m = length cell -> length x = length cell -> length (vshift cell m x) = length cell.
Proof.
  revert m x. induction cell as [|c cell IH]; intros [|k m] [|a x] Hm Hx; try discriminate; try reflexivity.
  cbn. f_equal. apply IH; cbn in *; congruence.
Qed.

Lemma pd2_zero_on_images cell m x : cell_pos cell ->
  length m = length cell -> length x = length cell -> pd2 cell x (vshift cell m x) == 0.
Proof.
  revert m x. induction cell as [|c cell IH]; intros [|k m] [|a x] Hc Hm Hx; try discriminate; try reflexivity.
  inversion Hc as [|c' l Hc0 Hc1]; subst. cbn [vshift]. rewrite pd2_cons.
  rewrite (IH m x Hc1) by (cbn in *; congruence).
  assert (E : a - (a + inject_Z k * c) == inject_Z (- k) * c) by (rewrite inject_Z_opp; ring).
  rewrite (wrap_comp c _ _ E), wrap_image_zero by exact Hc0. unfold qsq. ring.
Qed.

(* converse: distance zero only between periodic images *)
Lemma qsq_zero a : qsq a == 0 -> a == 0.
Proof. unfold qsq. intros H. nra. Qed.

Lemma pd2_zero_only_images cell x y : cell_pos cell ->
  length x = length cell -> length y = length cell -> pd2 cell x y == 0 ->
  exists m, length m = length cell /\ Forall2 Qeq y (vshift cell m x).
Proof.
  intros Hc Hx Hy. revert Hc. pattern cell, x, y. apply list_ind3; try assumption.
  - intros _ _. exists []. split; [reflexivity|constructor].
  - intros c a b cell' x' y' IH Hc H0. inversion Hc as [|c' l Hc0 Hc1]; subst.
    rewrite pd2_cons in H0.
    pose proof (pd2_nonneg cell' x' y') as N.
    assert (N2 : 0 <= qsq (wrap c (a - b))) by (unfold qsq; nra).
    assert (Z1 : qsq (wrap c (a - b)) == 0) by lra.
    assert (Z2 : pd2 cell' x' y' == 0) by lra.
    destruct (IH Hc1 Z2) as [m [Lm Fm]].
    apply qsq_zero, wrap_zero_inv in Z1.
    exists ((- rhe ((a - b) / c))%Z :: m). split; [cbn; congruence|].
    cbn [vshift]. constructor; [|exact Fm]. rewrite inject_Z_opp. lra.
Qed.

(* ---------------------------------------------------------------- Cauchy-Schwarz, Minkowski *)
Lemma qdot_cons a u b v : qdot (a :: u) (b :: v) = a * b + qdot u v.
Proof. reflexivity. Qed.
Lemma qsqn_cons a v : qsqn (a :: v) = qsq a + qsqn v.
Proof. reflexivity. Qed.

Lemma sq_nn t : 0 <= t * t.
Proof. nra. Qed.

Lemma cs_step a b S U V :
  0 <= U -> 0 <= V -> S * S <= U * V ->
  (a * b + S) * (a * b + S) <= (a * a + U) * (b * b + V).
Proof.
  intros HU HV HS.
  set (x := a * a * V + b * b * U). set (y := 2 * (a * b * S)).
  assert (Hx : 0 <= x) by (unfold x; nra).
  assert (Hxy : y * y <= x * x).
  { assert (x * x - y * y ==
            (a * a * V - b * b * U) * (a * a * V - b * b * U) + 4 * ((a * b) * (a * b)) * (U * V - S * S))
      as E by (unfold x, y; ring).
    pose proof (sq_nn (a * b)). pose proof (sq_nn (a * a * V - b * b * U)).
    assert (0 <= ((a * b) * (a * b)) * (U * V - S * S)) by (apply Qmult_le_0_compat; lra).
    lra. }
  assert (Hy : y <= x) by nra.
  unfold x, y in Hy. nra.
Qed.

Lemma qdot_cs u v : qsq (qdot u v) <= qsqn u * qsqn v.
Proof.
  revert v. induction u as [|a u IH]; intros [|b v].
  - change (qdot [] []) with 0. change (qsqn []) with 0. unfold qsq. lra.
  - change (qdot [] (b :: v)) with 0. change (qsqn []) with 0. unfold qsq. lra.
  - change (qdot (a :: u) []) with 0. change (qsqn []) with 0. unfold qsq. lra.
  - rewrite qdot_cons, !qsqn_cons. specialize (IH v).
    pose proof (qsqn_nonneg u). pose proof (qsqn_nonneg v).
    unfold qsq in *. apply cs_step; assumption.
Qed.

Inductive Tri3 : list Q -> list Q -> list Q -> Prop :=
| Tri3_nil : Tri3 [] [] []
| Tri3_cons a b c la lb lc :
    qsq a <= qsq (b + c) -> Tri3 la lb lc -> Tri3 (a :: la) (b :: lb) (c :: lc).

Lemma tri3_sum la lb lc : Tri3 la lb lc -> qsqn la <= qsqn lb + qsqn lc + 2 * qdot lb lc.
Proof.
  induction 1 as [|a b c la lb lc H _ IH].
  - change (qsqn []) with 0. change (qdot [] []) with 0. lra.
  - rewrite qdot_cons, !qsqn_cons. unfold qsq in *. lra.
Qed.

(* square-root-free Minkowski:  sqrt A <= sqrt B + sqrt C *)
Lemma minkowski la lb lc : Tri3 la lb lc ->
  qsqn la <= qsqn lb + qsqn lc \/
  qsq (qsqn la - qsqn lb - qsqn lc) <= 4 * qsqn lb * qsqn lc.
Proof.
  intros T. pose proof (tri3_sum _ _ _ T) as H. pose proof (qdot_cs lb lc) as CS.
  set (A := qsqn la) in *. set (B := qsqn lb) in *. set (C := qsqn lc) in *.
  set (S := qdot lb lc) in *. unfold qsq in *.
  destruct (Qlt_le_dec (B + C) A) as [L|L]; [right|left; exact L].
  assert (0 < A - B - C) by lra. assert (A - B - C <= 2 * S) by lra. nra.
Qed.

Lemma wvec_tri3 cell x y z : cell_pos cell ->
  length x = length cell -> length y = length cell -> length z = length cell ->
  Tri3 (wvec cell x z) (wvec cell x y) (wvec cell y z).
Proof.
  revert x y z. induction cell as [|c cell IH];
    intros [|a x] [|b y] [|d z] Hc Hx Hy Hz; try discriminate.
  - constructor.
  - inversion Hc as [|c' l Hc0 Hc1]; subst.
    change (Tri3 (wrap c (a - d) :: wvec cell x z) (wrap c (a - b) :: wvec cell x y)
                 (wrap c (b - d) :: wvec cell y z)).
    constructor; [|apply IH; [exact Hc1|now injection Hx|now injection Hy|now injection Hz]].
    assert (E : a - d == (a - b) + (b - d)) by ring.
    rewrite (wrap_comp c _ _ E). apply wrap_sq_tri. exact Hc0.
Qed.

Lemma pd2_triangle cell x y z : cell_pos cell ->
  length x = length cell -> length y = length cell -> length z = length cell ->
  pd2 cell x z <= pd2 cell x y + pd2 cell y z \/
  qsq (pd2 cell x z - pd2 cell x y - pd2 cell y z) <= 4 * pd2 cell x y * pd2 cell y z.
Proof. intros Hc Hx Hy Hz. apply minkowski, wvec_tri3; assumption. Qed.

(* ---------------------------------------------------------------- Mahalanobis *)
Definition veq (u v : list Q) : Prop := Forall2 Qeq u v.

Lemma veq_refl u : veq u u.
Proof. induction u; constructor; [reflexivity|assumption]. Qed.

Lemma qdot_veq_r u v v' : veq v v' -> qdot u v == qdot u v'.
Proof.
  intros H. revert u. induction H as [|b b' v v' E _ IH]; intros [|a u]; try reflexivity.
  rewrite !qdot_cons, E, IH. reflexivity.
Qed.

Lemma qdot_comm u v : qdot u v == qdot v u.
Proof.
  revert v. induction u as [|a u IH]; intros [|b v]; try reflexivity.
  rewrite !qdot_cons, IH. ring.
Qed.

Lemma qdot_repeat0_l n v : qdot (repeat 0 n) v == 0.
Proof.
  revert v. induction n as [|n IH]; intros [|b v]; try reflexivity.
  change (repeat 0 (S n)) with (0 :: repeat 0 n). rewrite qdot_cons, IH. ring.
Qed.

Lemma mvec_cons0 M a v : veq (mvec (map (cons 0) M) (a :: v)) (mvec M v).
Proof.
  induction M as [|row M IH]; [constructor|].
  change (veq ((0 * a + qdot row v) :: mvec (map (cons 0) M) (a :: v)) (qdot row v :: mvec M v)).
  constructor; [ring|exact IH].
Qed.

Lemma veq_trans u v w : veq u v -> veq v w -> veq u w.
Proof.
  intros H. revert w. induction H as [|a b u v E _ IH]; intros w H2; inversion H2; subst; constructor.
  - etransitivity; eassumption.
  - apply IH. assumption.
Qed.

Lemma mvec_ident n v : length v = n -> veq (mvec (ident n) v) v.
Proof.
  revert v. induction n as [|n IH]; intros [|a v] Hv; try discriminate; [constructor|].
  change (ident (S n)) with ((1 :: repeat 0 n) :: map (cons 0) (ident n)).
  change (veq ((1 * a + qdot (repeat 0 n) v) :: mvec (map (cons 0) (ident n)) (a :: v)) (a :: v)).
  constructor.
  - rewrite qdot_repeat0_l. ring.
  - eapply veq_trans; [apply mvec_cons0|]. apply IH. now injection Hv.
Qed.

Lemma qform_ident n v : length v = n -> qform (ident n) v == qsqn v.
Proof.
  intros Hv. unfold qform. rewrite (qdot_veq_r v _ _ (mvec_ident n v Hv)), qdot_self. reflexivity.
Qed.

Lemma mahal_identity_periodic cell x y :
  length x = length cell -> length y = length cell ->
  mahal2 (ident (length cell)) (Some cell) x y == pd2 cell x y.
Proof. intros Hx Hy. unfold mahal2, pd2, dvec. apply qform_ident, wvec_length; assumption. Qed.

Lemma vdiff_length x y : length y = length x -> length (vdiff x y) = length x.
Proof. intros H. unfold vdiff. rewrite map2_length, H, Nat.min_id. reflexivity. Qed.

Lemma mahal_identity_free x y :
  length y = length x -> mahal2 (ident (length x)) None x y == fd2 x y.
Proof. intros Hy. unfold mahal2, fd2, dvec. apply qform_ident, vdiff_length; assumption. Qed.

(* ---- whitening: v^T (L L^T) v = |L^T v|^2 *)
Lemma qdot_scale_r a u p : qdot u (map (Qmult a) p) == a * qdot u p.
Proof.
  revert p. induction u as [|b u IH]; intros [|c p].
  - change (qdot [] _) with 0. ring.
  - change (qdot [] _) with 0. ring.
  - change (map (Qmult a) []) with (@nil Q). change (qdot (b :: u) []) with 0. ring.
  - change (map (Qmult a) (c :: p)) with (a * c :: map (Qmult a) p). rewrite !qdot_cons, IH. ring.
Qed.

Lemma qdot_plus_r u p q : length p = length q ->
  qdot u (map2 Qplus p q) == qdot u p + qdot u q.
Proof.
  revert p q. induction u as [|b u IH]; intros [|c p] [|d q] H; try discriminate.
  - change (qdot [] _) with 0. ring.
  - change (qdot [] _) with 0. ring.
  - change (map2 Qplus [] []) with (@nil Q). change (qdot (b :: u) []) with 0. ring.
  - change (map2 Qplus (c :: p) (d :: q)) with (c + d :: map2 Qplus p q).
    rewrite !qdot_cons, IH by (now injection H). ring.
Qed.

Definition rows_len (r : nat) (L : list (list Q)) : Prop := Forall (fun row => length row = r) L.

Lemma tmvec_length r L v : rows_len r L -> length (tmvec r L v) = r.
Proof.
  intros HL. revert v. induction HL as [|row L Hr _ IH]; intros v.
  - cbn. apply repeat_length.
  - destruct v as [|a v]; [cbn; apply repeat_length|].
    cbn [tmvec]. rewrite map2_length, map_length, IH, Hr, Nat.min_id. reflexivity.
Qed.

Lemma qdot_repeat0_r u n : qdot u (repeat 0 n) == 0.
Proof. rewrite qdot_comm. apply qdot_repeat0_l. Qed.

(* <u, L^T v> = sum_j <u, L_j> v_j *)
Lemma qdot_tmvec r L v u : rows_len r L -> length v = length L ->
  qdot (map (fun rj => qdot u rj) L) v == qdot u (tmvec r L v).
Proof.
  intros HL. revert v. induction HL as [|row L Hr HL IH]; intros [|a v] Hv; try discriminate.
  - change (qdot (map _ []) []) with 0. cbn [tmvec]. rewrite qdot_repeat0_r. reflexivity.
  - change (map (fun rj => qdot u rj) (row :: L)) with (qdot u row :: map (fun rj => qdot u rj) L).
    cbn [tmvec]. rewrite qdot_cons, IH by (now injection Hv).
    rewrite qdot_plus_r by (rewrite map_length, tmvec_length by exact HL; exact Hr).
    rewrite qdot_scale_r. ring.
Qed.

Lemma mvec_gram r L v : rows_len r L -> length v = length L ->
  veq (mvec (gram L) v) (mvec L (tmvec r L v)).
Proof.
  intros HL Hv. unfold mvec, gram. rewrite map_map.
  assert (G : forall M, veq (map (fun ri => qdot (map (fun rj => qdot ri rj) L) v) M)
                            (map (fun ri => qdot ri (tmvec r L v)) M)).
  { induction M as [|ri M IHM]; [constructor|]. constructor; [|exact IHM].
    apply qdot_tmvec; assumption. }
  apply G.
Qed.

Lemma qdot_mvec_tmvec r L v w : rows_len r L -> length v = length L ->
  qdot v (mvec L w) == qdot (tmvec r L v) w.
Proof.
  intros HL. revert v. induction HL as [|row L Hr HL IH]; intros [|a v] Hv; try discriminate.
  - change (qdot [] _) with 0. cbn [tmvec]. rewrite qdot_repeat0_l. reflexivity.
  - change (mvec (row :: L) w) with (qdot row w :: mvec L w). cbn [tmvec].
    rewrite qdot_cons, IH by (now injection Hv).
    rewrite (qdot_comm (map2 Qplus _ _) w).
    rewrite qdot_plus_r by (rewrite map_length, tmvec_length by exact HL; exact Hr).
    rewrite qdot_scale_r, (qdot_comm w row), (qdot_comm w (tmvec r L v)). ring.
Qed.

Lemma qform_gram r L v : rows_len r L -> length v = length L ->
  qform (gram L) v == qsqn (tmvec r L v).
Proof.
  intros HL Hv. unfold qform.
  rewrite (qdot_veq_r v _ _ (mvec_gram r L v HL Hv)).
  rewrite (qdot_mvec_tmvec r L v _ HL Hv), qdot_self. reflexivity.
Qed.

Lemma qform_gram_nonneg r L v : rows_len r L -> length v = length L -> 0 <= qform (gram L) v.
Proof. intros HL Hv. rewrite (qform_gram r L v HL Hv). apply qsqn_nonneg. Qed.

(* ---- the stack of precisions is processed matrix by matrix *)
Lemma mahal_stack_independent X Y Ps cell R :
  pairwise_mahal X Y (Cov3 Ps) cell = Some R ->
  length R = length Ps /\
  forall k, (k < length Ps)%nat ->
    pairwise_mahal X Y (Cov2 (nth k Ps [])) cell = Some [nth k R []].
Proof.
  unfold pairwise_mahal. destruct (check_dimension X cell); [|discriminate].
  destruct (check_pairwise X (Some Y)) as [Y'|]; [|discriminate].
  cbn [cov_stack]. destruct (forallb (square (width X)) Ps) eqn:F; [|discriminate].
  intros E. injection E as <-. split; [apply map_length|].
  intros k Hk. cbn [forallb].
  rewrite forallb_forall in F. rewrite (F (nth k Ps [])) by (apply nth_In; exact Hk).
  cbn [andb map]. do 2 f_equal.
  set (G := fun P => map (fun x => map (fun y => mahal2 P cell x y) Y') X).
  rewrite (nth_indep (map G Ps) [] (G [])) by (rewrite map_length; exact Hk).
  rewrite map_nth. reflexivity.
Qed.

Lemma dim_mismatch_rejected X Y Y' cov cell :
  length cell <> width X ->
  periodic_pairwise X Y (Some cell) = None /\ pairwise_mahal X Y' cov (Some cell) = None.
Proof.
  intros H. unfold periodic_pairwise, pairwise_mahal, check_dimension.
  assert (E : Nat.eqb (width X) (length cell) = false) by (apply Nat.eqb_neq; congruence).
  rewrite E. split; reflexivity.
Qed.

(* entries of the returned matrices *)
Lemma periodic_pairwise_entry X Y cell M :
  periodic_pairwise X (Some Y) cell = Some M ->
  length M = length X /\
  forall i j, (i < length X)%nat -> (j < length Y)%nat ->
    nth j (nth i M []) 0 = dist2 cell (nth i X []) (nth j Y []).
Proof.
  unfold periodic_pairwise. destruct (check_dimension X cell); [|discriminate].
  unfold check_pairwise. destruct (_ && _); [|discriminate].
  intros E. injection E as <-. split; [apply map_length|].
  intros i j Hi Hj.
  set (G := fun x => map (fun y => dist2 cell x y) Y).
  rewrite (nth_indep (map G X) [] (G [])) by (rewrite map_length; exact Hi).
  rewrite map_nth. unfold G.
  set (H := fun y => dist2 cell (nth i X []) y).
  rewrite (nth_indep (map H Y) 0 (H [])) by (rewrite map_length; exact Hj).
  rewrite map_nth. reflexivity.
Qed.

(* ---------------------------------------------------------------- minimum image *)
Lemma pd2_image_l cell m x y : cell_pos cell ->
  length m = length cell -> length x = length cell -> length y = length cell ->
  pd2 cell (vshift cell m x) y == pd2 cell x y.
Proof.
  revert m x y. induction cell as [|c cell IH];
    intros [|k m] [|a x] [|b y] Hc Hm Hx Hy; try discriminate; try reflexivity.
  inversion Hc as [|c' l Hc0 Hc1]; subst. cbn [vshift]. rewrite !pd2_cons.
  rewrite (IH m x y Hc1) by (cbn in *; congruence).
  assert (E : a + inject_Z k * c - b == (a - b) + inject_Z k * c) by ring.
  rewrite (wrap_comp c _ _ E), wrap_sq_image by exact Hc0. reflexivity.
Qed.

Lemma pd2_le_any_image cell m x y : cell_pos cell ->
  length m = length cell -> length x = length cell -> length y = length cell ->
  pd2 cell x y <= fd2 (vshift cell m x) y.
Proof.
  intros Hc Hm Hx Hy. rewrite <- (pd2_image_l cell m x y Hc Hm Hx Hy).
  apply pd2_le_free; [exact Hc| |exact Hy]. apply vshift_length; assumption.
Qed.

Lemma pd2_attained cell x y : cell_pos cell ->
  length x = length cell -> length y = length cell ->
  exists m, length m = length cell /\ pd2 cell x y == fd2 (vshift cell m x) y.
Proof.
  intros Hc Hx Hy. revert Hc. pattern cell, x, y. apply list_ind3; try assumption.
  - intros _. exists []. split; reflexivity.
  - intros c a b cell' x' y' IH Hc. inversion Hc as [|c' l Hc0 Hc1]; subst.
    destruct (IH Hc1) as [m [Lm Em]].
    exists ((- rhe ((a - b) / c))%Z :: m). split; [cbn; congruence|].
    cbn [vshift]. rewrite pd2_cons, fd2_cons, Em.
    assert (E : a + inject_Z (- rhe ((a - b) / c)) * c - b == wrap c (a - b))
      by (unfold wrap; rewrite inject_Z_opp; ring).
    rewrite E. reflexivity.
Qed.
