(* A concrete environment, over any real closed field, that meets every hypothesis of the
   PCovR theorems non-trivially: two centred samples x = (1, -1) of one feature, y = x,
   exact regression W = 1, mixing 1/2, tol = 0, one component.
     K~ = X X^T = [[1,-1],[-1,1]],  top eigenpair  (1,-1)/sqrt 2, 2      (sample space)
     X^T X = 2,  C^-1/2 = 1/sqrt 2,  C^1/2 = sqrt 2,  C~ = 2              (feature space) *)
From mathcomp Require Import all_ssreflect all_algebra.
From mathcomp Require Import ring.
From Verif Require Import MExp MExpMx PCovR PCovRP PCovRProg KyFan C14Thm C04Thm PCovRNested.
Set Implicit Arguments.
Unset Strict Implicit.
Unset Printing Implicit Defensive.
Import Order.TTheory GRing.Theory Num.Theory.
Local Open Scope ring_scope.

Section Example.
  Variable F : rcfType.
  Variable mix : F.          (* the mixing parameter of the example *)

  Definition pm1 (i : nat) : F := if i == 0%N then 1 else -1.
  Definition r2 : F := Num.sqrt 2.

  Definition ex_entry (r : nat) (v : nat) (i : nat) : F :=
    if v == vX then pm1 i else if v == vY then pm1 i else if v == vYh then pm1 i
    else if v == vW then 1 else if v == va then mix else if v == vtol then 0
    else if v == vUC then 1 else if v == vvC then 2
    else if v == vV then (if r == 2%N then r2^-1 * pm1 i else 1)
    else if v == vS then 2 else if v == vCsq then r2 else 0.

  Definition ex_env : env_mx F := fun r c v => \matrix_(i < r, j < c) ex_entry r v i.

  Lemma r2_sq : r2 * r2 = 2.
  Proof. by rewrite -expr2 sqr_sqrtr // ler0n. Qed.
  Lemma r2_neq0 : r2 != 0.
  Proof. by rewrite gt_eqF // sqrtr_gt0 ltr0n. Qed.
  Lemma two_neq0 : (2 : F) != 0.
  Proof. by rewrite pnatr_eq0. Qed.

  Lemma r2i_sq : r2^-1 * r2^-1 = 2^-1.
  Proof. by rewrite -invfM r2_sq. Qed.

  Lemma ex_centred : centred 2 1 ex_env.
  Proof.
    rewrite /centred /e_X; apply/matrixP=> i j.
    by rewrite !mxE !big_ord_recl big_ord0 !mxE /ex_entry /= /pm1 /= !mul1r addr0 subrr.
  Qed.

  Lemma ex_sample : fit_oracle 2 1 1 1 ex_env true.
  Proof.
    split; rewrite /e_tol /regressor_contract /svd_oracle_sample ?kern_formula /s_Kt
      /e_Vs /e_S /e_X /e_Yh /e_W /e_a.
    - by rewrite !mxE.
    - apply/matrixP=> i j; rewrite !(mxE, big_ord_recl, big_ord0) /ex_entry /=.
      by rewrite mulr1 addr0.
    - split; apply/matrixP=> i j; rewrite !(mxE, big_ord_recl, big_ord0) /ex_entry /=.
      + rewrite /pm1 /= (ord1 i) (ord1 j) eqxx mulr1n.
        have -> : forall t : F, t * 1 * (t * 1) + (t * -1 * (t * -1) + 0) = 2 * (t * t).
          by move=> t; ring.
        by rewrite r2i_sq mulfV // two_neq0.
      + rewrite (ord1 j) eqxx mulr1n /pm1 /=.
        case: i => [[|[|i]] hi] //=; field; exact: r2_neq0.
  Qed.

  Lemma isq2 : g_isq (0 : F) 2 = r2^-1.
  Proof. by rewrite /g_isq ltr0n. Qed.

  Ltac crunch :=
    let i := fresh "i" in let j := fresh "j" in
    apply/matrixP=> i j; rewrite !(mxE, big_ord_recl, big_ord0) /ex_entry /= /pm1 /=
      ?(ord1 i) ?(ord1 j) ?eqxx ?mulr1n ?isq2.

  Lemma ex_feature : fit_oracle 2 1 1 1 ex_env false.
  Proof.
    split; rewrite /e_tol /eigh_oracle /lstsq_oracle /svd_oracle_feature ?cov_formula
      ?cisqrt_formula ?xtx_formula /f_Ct /f_CY /f_A ?fcE
      /e_Vf /e_S /e_X /e_Yh /e_W /e_a /e_UC /e_vC /e_Csq /e_tol.
    - by rewrite !mxE.
    - split.
      + by crunch; field.
      + by crunch; field.
      + by move=> i; rewrite !mxE /ex_entry /= lern0.
    - split; crunch; field; exact: r2_neq0.
    - split; crunch; first by field.
      have -> : forall t : F, t != 0 ->
          ((1 - mix) * ((((1 / t + 0) * 1 + 0) * (1 * 1 + (-1 * -1 + 0)) + 0) *
             (((1 / t + 0) * 1 + 0) * (1 * 1 + (-1 * -1 + 0)) + 0) + 0) +
           mix * (1 * 1 + (-1 * -1 + 0))) * 1 + 0 = (1 - mix) * (4 * (t^-1 * t^-1)) + mix * 2.
        by move=> t t0; field.
      - by rewrite r2i_sq; field.
      - exact: r2_neq0.
  Qed.

  Lemma ex_retained : forall i, e_tol ex_env < e_S 1 ex_env i 0.
  Proof. by move=> i; rewrite /e_tol /e_S !mxE /ex_entry /= ltr0n. Qed.

  Lemma ex_mixing : e_a ex_env = mix.
  Proof. by rewrite /e_a !mxE /ex_entry. Qed.

  Lemma ex_X_neq0 : e_X 2 1 ex_env != 0.
  Proof.
    apply/eqP => /matrixP /(_ ord0 ord0); rewrite /e_X !mxE /ex_entry /= /pm1 /=.
    by move/eqP; rewrite oner_eq0.
  Qed.

  (* the rest of the spectrum of K~ (C03 route independence) *)
  Definition ex_Uc : 'M[F]_(2, 1) := \matrix_(i, j) r2^-1.
  Definition ex_Sc : 'cV[F]_1 := 0.

  Lemma ex_rest :
    [/\ eval_mx ex_env (kern_prog 2 1 1) *m ex_Uc = ex_Uc *m diag_mx ex_Sc^T,
        e_Vs 2 1 ex_env *m (e_Vs 2 1 ex_env)^T + ex_Uc *m ex_Uc^T = 1%:M
      & forall i j, ex_Sc i 0 != e_S 1 ex_env j 0].
  Proof.
    split; rewrite ?kern_formula /s_Kt /e_Vs /e_S /e_X /e_Yh /e_a /ex_Uc /ex_Sc.
    - crunch; case: i => [[|[|i]] hi] //=; field; exact: r2_neq0.
    - apply/matrixP=> i j; rewrite !(mxE, big_ord_recl, big_ord0) /ex_entry /= /pm1 /=.
      have h : forall s : F, s * 1 * (s * 1) + 0 + (s * s + 0) = 2 * (s * s) by move=> s; ring.
      have h' : forall s : F, s * 1 * (s * -1) + 0 + (s * s + 0) = 0 by move=> s; ring.
      have h'' : forall s : F, s * -1 * (s * 1) + 0 + (s * s + 0) = 0 by move=> s; ring.
      have h3 : forall s : F, s * -1 * (s * -1) + 0 + (s * s + 0) = 2 * (s * s) by move=> s; ring.
      case: i => [[|[|i]] hi] //=; case: j => [[|[|j]] hj] //=;
        by rewrite ?h ?h' ?h'' ?h3 ?r2i_sq ?mulfV ?two_neq0.
    - by move=> i j; rewrite !mxE /ex_entry /= eq_sym two_neq0.
  Qed.

  (* the full decreasing eigen-decomposition of K~ (C04 optimality) *)
  Definition ex_U : 'M[F]_2 := \matrix_(i, j) (r2^-1 * (if (j : nat) == 0%N then pm1 i else 1)).
  Definition ex_L : 'cV[F]_2 := \col_i (if (i : nat) == 0%N then 2 else 0).

  Lemma ex_full :
    [/\ ex_U^T *m ex_U = 1%:M,
        eval_mx ex_env (kern_prog 2 1 1) *m ex_U = ex_U *m diag_mx ex_L^T,
        forall i j : 'I_2, (i <= j)%N -> ex_L j 0 <= ex_L i 0
      & forall i : 'I_1, e_S 1 ex_env i 0 = ex_L (widen_ord (isT : (1 <= 2)%N) i) 0].
  Proof.
    split; rewrite ?kern_formula /s_Kt /e_S /e_X /e_Yh /e_a /ex_U /ex_L.
    - apply/matrixP=> i j; rewrite !(mxE, big_ord_recl, big_ord0) /= /pm1 /=.
      have h : forall s : F, s * 1 * (s * 1) + (s * -1 * (s * -1) + 0) = 2 * (s * s) by move=> s; ring.
      have h' : forall s : F, s * 1 * (s * 1) + (s * -1 * (s * 1) + 0) = 0 by move=> s; ring.
      have h'' : forall s : F, s * 1 * (s * 1) + (s * 1 * (s * -1) + 0) = 0 by move=> s; ring.
      have h3 : forall s : F, s * 1 * (s * 1) + (s * 1 * (s * 1) + 0) = 2 * (s * s) by move=> s; ring.
      case: i => [[|[|i]] hi] //=; case: j => [[|[|j]] hj] //=;
        by rewrite ?h ?h' ?h'' ?h3 ?r2i_sq ?mulfV ?two_neq0.
    - apply/matrixP=> i j; rewrite !(mxE, big_ord_recl, big_ord0) /ex_entry /= /pm1 /=.
      case: i => [[|[|i]] hi] //=; case: j => [[|[|j]] hj] //=; field; exact: r2_neq0.
    - move=> i j; rewrite !mxE.
      by case: i => [[|[|i]] hi] //=; case: j => [[|[|j]] hj] //=; rewrite ?lexx ?ler0n.
    - by move=> i; rewrite !mxE /ex_entry /= (ord1 i).
  Qed.

  (* an orthonormal competitor *)
  Definition ex_Q : 'M[F]_(2, 1) := \matrix_(i, j) (if (i : nat) == 0%N then 1 else 0).
  Lemma ex_Q_orth : ex_Q^T *m ex_Q = 1%:M.
  Proof.
    apply/matrixP=> i j; rewrite !(mxE, big_ord_recl, big_ord0) /= (ord1 i) (ord1 j) eqxx.
    by rewrite mulr1 mulr0 !addr0.
  Qed.

  (* exact least squares, and the single retained eigenpair reproduces K~ (C04 limits) *)
  Lemma ex_ls : (e_X 2 1 ex_env)^T *m (e_Y 2 1 ex_env - e_Yh 2 1 ex_env) = 0.
  Proof.
    have -> : e_Y 2 1 ex_env = e_Yh 2 1 ex_env.
      by apply/matrixP=> i j; rewrite /e_Y /e_Yh !mxE.
    by rewrite subrr mulmx0.
  Qed.

  Lemma mk2 : g_mk (0 : F) 2 = 1.
  Proof. by rewrite /g_mk ltr0n. Qed.

  Lemma ex_capture :
    eval_mx ex_env (kern_prog 2 1 1)
    = e_Vs 2 1 ex_env *m dmap (fun x => g_mk (e_tol ex_env) x * x) (e_S 1 ex_env)
      *m (e_Vs 2 1 ex_env)^T.
  Proof.
    rewrite kern_formula /s_Kt /e_Vs /e_S /e_X /e_Yh /e_a /e_tol.
    apply/matrixP=> i j; rewrite !(mxE, big_ord_recl, big_ord0) /ex_entry /= /pm1 /= mk2.
    case: i => [[|[|i]] hi] //=; case: j => [[|[|j]] hj] //=;
      by rewrite mulr1n -[LHS]mulr1 -[X in _ * X = _](mulfV two_neq0) -r2i_sq; ring.
  Qed.

  Lemma ex_nonvacuous :
    [/\ centred 2 1 ex_env, fit_oracle 2 1 1 1 ex_env true, fit_oracle 2 1 1 1 ex_env false
      & [/\ forall i, e_tol ex_env < e_S 1 ex_env i 0, e_a ex_env = mix
          & e_X 2 1 ex_env != 0]].
  Proof.
    split; [exact: ex_centred | exact: ex_sample | exact: ex_feature | ].
    by split; [exact: ex_retained | exact: ex_mixing | exact: ex_X_neq0].
  Qed.

  Lemma ex_c03 : exists (env : env_mx F) (Uc : 'M[F]_(2, 1)) (Sc : 'cV[F]_1),
    [/\ [/\ centred 2 1 env, fit_oracle 2 1 1 1 env true, fit_oracle 2 1 1 1 env false
          & [/\ forall i, e_tol env < e_S 1 env i 0, e_a env = mix & e_X 2 1 env != 0]],
        eval_mx env (kern_prog 2 1 1) *m Uc = Uc *m diag_mx Sc^T,
        e_Vs 2 1 env *m (e_Vs 2 1 env)^T + Uc *m Uc^T = 1%:M
      & forall i j, Sc i 0 != e_S 1 env j 0].
  Proof.
    exists ex_env, ex_Uc, ex_Sc.
    by have [h1 h2 h3] := ex_rest; split=> //; exact: ex_nonvacuous.
  Qed.

  (* C04: the optimality hypotheses (full decreasing eigen-decomposition whose top k the
     oracle returned) hold for the example, together with an orthonormal competitor *)
  Lemma ex_full_fit :
    full_fit 1 1 (isT : (1 <= 2)%N) ex_env ex_U ex_L.
  Proof.
    have [h1 h2 h3 h4] := ex_full; split=> //.
    by have [_ hs _ _] := ex_nonvacuous.
  Qed.
End Example.

Section Example2.
  Variable F : rcfType.

  (* nestedness hypotheses for k = 0 -> k + 1 = 1 (the truncation of one component to none) *)
  Lemma ex_nested (mix : F) :
    [/\ nested_oracle 2 1 0 (ex_env mix), fit_oracle 2 1 1 (0 + 1) (ex_env mix) true,
        centred 2 1 (ex_env mix) & forall i, e_tol (ex_env mix) < e_S (0 + 1) (ex_env mix) i 0].
  Proof.
    have [c s f [r _ _]] := ex_nonvacuous mix; split=> //.
    by split; apply/matrixP=> i j; [case: j | case: j | case: i].
  Qed.

  (* two fits of the same data with mixings 1/3 < 2/3, the limits 1 and 0 *)
  Lemma ex_c04 :
    exists (ea eb : env_mx F) (U : 'M[F]_2) (La Lb : 'cV[F]_2) (Q : 'M[F]_(2, 1)),
      [/\ [/\ e_X 2 1 ea = e_X 2 1 eb, e_Yh 2 1 ea = e_Yh 2 1 eb & centred 2 1 ea],
          [/\ 0 <= e_a ea, e_a ea < e_a eb & e_a eb <= 1],
          full_fit 1 1 (isT : (1 <= 2)%N) ea U La, full_fit 1 1 (isT : (1 <= 2)%N) eb U Lb
        & Q^T *m Q = 1%:M].
  Proof.
    exists (ex_env (3%:R^-1)), (ex_env (2%:R / 3%:R)), (ex_U F), (ex_L F), (ex_L F), (ex_Q F).
    split; [split | split | exact: ex_full_fit | exact: ex_full_fit | exact: ex_Q_orth].
    - by apply/matrixP=> i j; rewrite /e_X !mxE.
    - by apply/matrixP=> i j; rewrite /e_Yh !mxE.
    - exact: ex_centred.
    - by rewrite ex_mixing invr_ge0 ler0n.
    - rewrite !ex_mixing -[X in X < _]mul1r ltr_pmul2r ?invr_gt0 ?ltr0n //.
      by rewrite ltr1n.
    - by rewrite ex_mixing ler_pdivr_mulr ?ltr0n // mul1r ler_nat.
  Qed.

  Lemma ex_c04_limits :
    exists (e1 e0 : env_mx F),
      [/\ e_a e1 = 1, fit_oracle 2 1 1 1 e1 true, fit_oracle 2 1 1 1 e1 false
        & [/\ e_a e0 = 0, fit_oracle 2 1 1 1 e0 true, centred 2 1 e0,
              (e_X 2 1 e0)^T *m (e_Y 2 1 e0 - e_Yh 2 1 e0) = 0
            & eval_mx e0 (kern_prog 2 1 1)
              = e_Vs 2 1 e0 *m dmap (fun x => g_mk (e_tol e0) x * x) (e_S 1 e0) *m (e_Vs 2 1 e0)^T]].
  Proof.
    exists (ex_env 1), (ex_env 0).
    have [c1 s1 f1 _] := ex_nonvacuous (1 : F).
    have [c0 s0 f0 _] := ex_nonvacuous (0 : F).
    split=> //; first exact: ex_mixing.
    split=> //; [exact: ex_mixing | exact: ex_ls | exact: ex_capture].
  Qed.
End Example2.
