(* C03: PCovR's latent space does not depend on the computational route - theorems about
   the programs of Model/PCovR.v (interpreted over an arbitrary real closed field). *)
From mathcomp Require Import all_ssreflect all_algebra.
From Verif Require Import MExp MExpMx PCovR PCovRP PCovRProg C14Thm.
Set Implicit Arguments.
Unset Strict Implicit.
Unset Printing Implicit Defensive.
Import Order.TTheory GRing.Theory Num.Theory.
Local Open Scope ring_scope.

Section C03.
  Variable F : rcfType.
  Variables (n m p k : nat) (env : env_mx F).

  Local Notation tol := (e_tol env).
  Local Notation a := (e_a env).
  Local Notation S := (e_S k env).
  Local Notation X := (e_X n m env).
  Local Notation Y := (e_Y n p env).
  Local Notation Yh := (e_Yh n p env).
  Local Notation W := (e_W m p env).
  Local Notation UC := (e_UC m env).
  Local Notation vC := (e_vC m env).
  Local Notation Vs := (e_Vs n k env).
  Local Notation Vf := (e_Vf m k env).
  Local Notation Kt := (eval_mx env (kern_prog n m p)).
  Local Notation Ct := (eval_mx env (cov_prog n m p)).
  Local Notation A := (eval_mx env (cisqrt_prog m)).
  Local Notation pxt := (pxt_of n m p k env).
  Local Notation ptx := (ptx_of n m k env).
  Local Notation pty := (pty_of n m p k env).

  (* ---- the two modified matrices are the documented ones ----------------------------- *)
  Theorem kernel_formula : Kt = a *: (X *m X^T) + (1 - a) *: (Yh *m Yh^T).
  Proof. by rewrite kern_formula s_Kt_alt. Qed.

  Theorem kernel_sym : Kt^T = Kt.
  Proof. by rewrite kern_formula s_Kt_sym. Qed.

  Theorem covariance_formula :
    Ct = a *: (X^T *m X) + (1 - a) *: (A *m X^T *m Yh *m Yh^T *m X *m A).
  Proof. by rewrite cov_formula cisqrt_formula f_Ct_alt. Qed.

  Theorem covariance_sym : Ct^T = Ct.
  Proof. by rewrite cov_formula f_Ct_sym. Qed.

  (* C^-1/2 of the code is a symmetric inverse square root of X^T X on the row space of X *)
  Theorem isqrt_spec : 0 <= tol -> eigh_oracle n m env ->
    [/\ A^T = A, X *m (A *m A *m (X^T *m X)) = X
      & let Pi := A *m (X^T *m X) *m A in [/\ Pi^T = Pi, Pi *m Pi = Pi & Pi *m A = A]].
  Proof.
    move=> t0 [u1 u2 u3]; rewrite xtx_formula in u2; rewrite cisqrt_formula.
    split; first exact: fc_tr.
    - by rewrite A_A_XtX // X_Pi.
    - rewrite /= A_XtX_A //; split; first exact: fc_tr.
      + by rewrite /f_Pi fc_mul //; apply: fc_ext => i; exact: g_mk_mk.
      + exact: Pi_A.
  Qed.

  (* ---- same non-zero spectrum, explicitly related eigenvectors ------------------------- *)
  Section Spectrum.
    Hypothesis t0 : 0 <= tol.
    Hypothesis hw : regressor_contract n m p env.
    Hypothesis he : eigh_oracle n m env.

    Lemma intertwine_prog : Kt *m (X *m A) = X *m A *m Ct.
    Proof.
      case: he => u1 u2 u3; rewrite xtx_formula in u2.
      rewrite kern_formula cov_formula cisqrt_formula.
      exact: (@intertwine _ _ _ _ X Yh W a tol UC vC t0 u1 u2 u3 hw).
    Qed.

    Lemma intertwine_prog_tr : A *m X^T *m Kt = Ct *m (A *m X^T).
    Proof.
      have := intertwine_prog; rewrite cisqrt_formula => h.
      apply: trmx_inj; rewrite trmx_mul [in RHS]trmx_mul kernel_sym covariance_sym.
      by rewrite trmx_mul [(f_A _ _ _)^T]fc_tr trmxK h.
    Qed.

    Theorem same_spectrum_CK (lam : F) (v : 'cV[F]_m) :
      Ct *m v = lam *: v ->
      Kt *m (X *m A *m v) = lam *: (X *m A *m v)
      /\ (lam != 0 -> (X *m A *m v)^T *m (X *m A *m v) = v^T *m v).
    Proof.
      move=> hv; split.
        by rewrite mulmxA intertwine_prog -mulmxA hv -scalemxAr.
      move=> l0; case: he => u1 u2 u3; rewrite xtx_formula in u2.
      have hPi : f_Pi tol UC vC *m v = v.
        have : f_Pi tol UC vC *m (lam *: v) = lam *: v.
          by rewrite -hv mulmxA cov_formula Pi_Ct.
        by rewrite -scalemxAr => /(scalerI l0).
      rewrite cisqrt_formula !trmx_mul [(f_A _ _ _)^T]fc_tr -!mulmxA.
      rewrite (mulmxA X^T) (mulmxA (f_A _ _ _)) (mulmxA (f_A _ _ _ *m _)).
      by rewrite A_XtX_A // hPi.
    Qed.

    Theorem same_spectrum_KC (lam : F) (u : 'cV[F]_n) :
      Kt *m u = lam *: u ->
      Ct *m (A *m X^T *m u) = lam *: (A *m X^T *m u)
      /\ (lam != 0 -> (A *m X^T *m u)^T *m (A *m X^T *m u) = u^T *m u).
    Proof.
      move=> hu; split.
        by rewrite mulmxA -intertwine_prog_tr -mulmxA hu -scalemxAr.
      move=> l0; case: he => u1 u2 u3; rewrite xtx_formula in u2.
      rewrite cisqrt_formula; set B := f_A tol UC vC.
      (* X A A X^T fixes the range of K~ *)
      have hK : X *m B *m B *m X^T *m Kt = Kt.
        rewrite kernel_formula mulmxDr -!scalemxAr; congr (_ *: _ + _ *: _).
        - rewrite mulmxA -(mulmxA _ X^T X) -(mulmxA X) -(mulmxA X) /B.
          by rewrite A_A_XtX // X_Pi.
        - by rewrite mulmxA /B (X_A_A_XtYh (W:=W)).
      have hfix : X *m B *m B *m X^T *m u = u.
        have : X *m B *m B *m X^T *m (lam *: u) = lam *: u by rewrite -hu mulmxA hK.
        by rewrite -scalemxAr => /(scalerI l0).
      move: hfix; rewrite -!mulmxA => hfix.
      by rewrite !trmx_mul [B^T]fc_tr trmxK -!mulmxA hfix.
    Qed.
  End Spectrum.

  (* ---- the latent coordinates of the two routes ---------------------------------------- *)
  Theorem sample_scores : centred n m env -> fit_oracle n m p k env true ->
    eval_mx env (transform_prog n m p k true (eX n m)) = Vs *m dmap (g_sq tol) S.
  Proof.
    move=> hc [t0 hw [v1 v2]]; rewrite transform_centred // -/X /pxt_of.
    by rewrite kern_formula in v2; rewrite (s_scores (W:=W)).
  Qed.

  Theorem sample_scores_explicit : centred n m env -> fit_oracle n m p k env true ->
    eval_mx env (transform_prog n m p k true (eX n m))
    = Vs *m diag_mx (\row_i (if tol < S i 0 then Num.sqrt (S i 0) else 0)).
  Proof.
    move=> hc ho; rewrite (sample_scores hc ho) /dmap; congr (_ *m diag_mx _).
    by apply/rowP=> i; rewrite !mxE.
  Qed.

  Theorem feature_scores :
    centred n m env -> fit_oracle n m p k env false -> regressor_contract n m p env ->
    let T := eval_mx env (transform_prog n m p k false (eX n m)) in
    let U := X *m A *m Vf in
    [/\ T = U *m dmap (g_sq tol) S, Kt *m T = T *m diag_mx S^T
      & T^T *m T = dmap (fun x => g_mk tol x * x) S].
  Proof.
    move=> hc [t0 [u1 u2 u3] hp [v1 v2]] hw T U; rewrite /T /U transform_centred // -/X /pxt_of.
    rewrite xtx_formula in u2; rewrite cov_formula in v2.
    rewrite /lstsq_oracle cisqrt_formula in hp; rewrite cisqrt_formula kern_formula.
    split; first exact: f_scores.
    - exact: (f_scores_eig (W:=W) t0 u1 u2 u3 hw v2).
    - exact: (f_orth t0 u1 u2 u3 v1 v2).
  Qed.

  (* ---- route independence of the sign-free quantities ---------------------------------- *)
  Section Routes.
    Variables (r : nat) (Uc : 'M[F]_(n, r)) (Sc : 'cV[F]_r).
    Hypothesis hs : fit_oracle n m p k env true.
    Hypothesis hf : fit_oracle n m p k env false.
    Hypothesis hret : forall i, tol < S i 0.
    (* the rest of the spectrum of K~ is separated from the retained eigenvalues *)
    Hypothesis hc2 : Kt *m Uc = Uc *m diag_mx Sc^T.
    Hypothesis hcomplete : Vs *m Vs^T + Uc *m Uc^T = 1%:M.
    Hypothesis hgap : forall i j, Sc i 0 != S j 0.

    Let U := f_U X tol UC vC Vf.

    Lemma routes_unique f : U *m dmap f S *m U^T = Vs *m dmap f S *m Vs^T.
    Proof.
      case: hs => t0 hw [v1 v2]; case: hf => _ [u1 u2 u3] hp [w1 w2].
      rewrite xtx_formula in u2; rewrite cov_formula in w2.
      have hU1 : U^T *m U = 1%:M.
        have := @f_UtU _ _ _ _ _ _ _ _ _ _ _ _ _ t0 u1 u2 u3 w1 w2 (fun=> 1).
        rewrite dmap_1 mulmx1; apply.
        by move=> i; rewrite /g_mk hret mul1r.
      have hU2 : Kt *m U = U *m diag_mx S^T.
        by rewrite kern_formula; exact: (f_U_eig (W:=W) t0 u1 u2 u3 hw w2).
      exact: (topk_unique kernel_sym v2 hU1 hU2 hc2 hcomplete hgap).
    Qed.

    Lemma mask1 : dmap (g_mk tol) S = dmap (fun=> 1) S.
    Proof. by apply: dmap_ext => i; rewrite /g_mk hret. Qed.

    Theorem reconstruction_equal : X *m pxt false *m ptx false = X *m pxt true *m ptx true.
    Proof.
      case: hs => t0 hw [v1 v2]; case: hf => _ [u1 u2 u3] hp [w1 w2].
      rewrite xtx_formula in u2; rewrite cov_formula in w2; rewrite kern_formula in v2.
      rewrite /lstsq_oracle cisqrt_formula in hp.
      rewrite /pxt_of /ptx_of (f_reconstruct Vf S t0 u1 u2 hp) (s_reconstruct t0 hw v2).
      by rewrite -/U routes_unique.
    Qed.

    Theorem predictions_equal : X *m pxt false *m pty false = X *m pxt true *m pty true.
    Proof.
      case: hs => t0 hw [v1 v2]; case: hf => _ [u1 u2 u3] hp [w1 w2].
      rewrite xtx_formula in u2; rewrite cov_formula in w2; rewrite kern_formula in v2.
      rewrite /pxt_of /pty_of (f_predict X Y UC vC Vf S t0) (s_predict Y t0 hw v2).
      by rewrite -/U routes_unique.
    Qed.

    Theorem gram_equal :
      X *m pxt false *m (X *m pxt false)^T = X *m pxt true *m (X *m pxt true)^T.
    Proof.
      case: hs => t0 hw [v1 v2]; case: hf => _ [u1 u2 u3] hp [w1 w2].
      rewrite xtx_formula in u2; rewrite cov_formula in w2; rewrite kern_formula in v2.
      rewrite /pxt_of f_scores (s_scores t0 hw v2) -/U trmx_mul [in RHS]trmx_mul !dmap_tr.
      rewrite (mulmxA (U *m _)) (mulmxA (Vs *m _)) -(mulmxA U) -(mulmxA Vs) !dmap_mul.
      exact: routes_unique.
    Qed.

    (* the same statements on the fitted estimator's methods, centred training data *)
    Hypothesis hcen : centred n m env.
    Let Tp sp := transform_prog n m p k sp (eX n m).

    Theorem route_reconstruction :
      eval_mx env (inverse_prog n m k false (Tp false))
      = eval_mx env (inverse_prog n m k true (Tp true)).
    Proof. by rewrite !inverse_formula !transform_centred // -/X reconstruction_equal. Qed.

    Theorem route_predictions :
      eval_mx env (predict_t_prog n m p k false (Tp false))
      = eval_mx env (predict_t_prog n m p k true (Tp true)).
    Proof. by rewrite !predict_t_formula !transform_centred // -/X predictions_equal. Qed.

    Theorem route_gram :
      eval_mx env (Tp false) *m (eval_mx env (Tp false))^T
      = eval_mx env (Tp true) *m (eval_mx env (Tp true))^T.
    Proof. by rewrite !transform_centred // -/X gram_equal. Qed.
  End Routes.

  (* ---- reported spectra ------------------------------------------------------------------ *)
  Theorem singular_values_formula i :
    (eval_mx env (singular_values_prog k)) i 0 = Num.sqrt (S i 0).
  Proof. by rewrite /= !mxE. Qed.

  Theorem explained_variance_formula i :
    (eval_mx env (explained_variance_prog n k)) i 0 = (n%:R - 1)^-1 * S i 0.
  Proof.
    rewrite /explained_variance_prog eval_scale sc_recip_eval mxE; congr (_^-1 * _).
    by rewrite [LHS]mxE eqxx mulr1n Z2F_of_nat_pred.
  Qed.
End C03.
