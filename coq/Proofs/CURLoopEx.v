(* C07: concrete inputs meeting the hypotheses of the layer-A theorems (non-vacuity), over an
   arbitrary real closed field.  ssreflect style. *)
From mathcomp Require Import all_ssreflect all_algebra.
From Verif Require Import MExp MExpMx MxBox MxBoxP PCovR CURLoop CURLoopMx CURLoopP.
Set Implicit Arguments.
Unset Strict Implicit.
Unset Printing Implicit Defensive.
Import Order.TTheory GRing.Theory Num.Theory.
Local Open Scope ring_scope.

Section Examples.
  Variable F : rcfType.

  (* X = 2 I_2, first column selected, tolerance 1: the pivot has norm 2 *)
  Definition exX : 'M[F]_2 := (2%:R)%:M.

  Lemma ex_pivots : 0 < (1 : F) /\ pivots_ok 1 exX [:: ord0].
  Proof.
    split; first exact: ltr01.
    split=> //.
    rewrite norm_formula /sqn mxE !big_ord_recl big_ord0 !mxE /= !mulr1n !mulr0n mulr0 !addr0.
    by rewrite -expr2 sqrtr_sqr ger0_norm ?ler0n // ler1n.
  Qed.

  (* the conclusion on that input is not trivial: the residual is not X *)
  Lemma ex_residual_moves : orth_fold_mx 1 exX [:: ord0] != exX.
  Proof.
    have [_ _ /(_ ord0)] := residual_is_projection ex_pivots.1 ex_pivots.2.
    rewrite inE eqxx => /(_ isT) H; apply/eqP => E; move: H; rewrite E.
    move/colP/(_ ord0); rewrite !mxE /= mulr1n => /eqP.
    by rewrite pnatr_eq0.
  Qed.

  (* y-feature: one feature x = (1), selected, buffer of width 1, pinv(1) = 1 *)
  Lemma ex_hints (y0 : 'M[F]_(1, 1)) :
    hints_ok (1%:M : 'M[F]_1) [:: 0%N] y0 0 [:: existT _ 1%N (1%:M : 'M[F]_1)].
  Proof.
    have B : buf_mx (1%:M : 'M[F]_1) [:: 0%N] 1 1 = 1%:M.
      by apply/matrixP => i j; rewrite !ord1 !mxE /= /xcol insubT //= !mxE -val_eqE.
    split; last by [].
    split; first by [].
    - by rewrite yf_h1_formula B trmx1 !mulmx1 subrr.
    - by rewrite yf_h2_formula trmx1 subrr.
  Qed.

  (* y-sample: the selected sample block is the identity, W = Z = y_sel *)
  Lemma ex_lstsq n p t (X : 'M[F]_(n, t)) (y : 'M[F]_(n, p)) (Yr : 'M[F]_(t, p)) :
    lstsq_ok X y (1%:M : 'M[F]_t) Yr Yr Yr.
  Proof. by apply/lstsq_okP; rewrite trmx1 !mul1mx. Qed.

  (* spectral hypotheses: M = diag(2, 1), eigenbases I and diag(1, -1), k = 1 *)
  Definition exlam : 'cV[F]_2 := \col_i (if i == ord0 then 2%:R else 1).
  Definition exV' : 'M[F]_2 := diag_mx (\row_i (if i == ord0 then 1 else -1)).
  Lemma ex_spectral :
    let M := diag_mx exlam^T in
    [/\ M^T = M, (1%:M : 'M[F]_2)^T *m 1%:M = 1%:M, exV'^T *m exV' = 1%:M,
        M *m 1%:M = 1%:M *m diag_mx exlam^T & M *m exV' = exV' *m diag_mx exlam^T]
    /\ (forall i j : 'I_2, (i < 1)%N -> (1 <= j)%N -> exlam j ord0 < exlam i ord0)
    /\ exV' != 1%:M.
  Proof.
    move=> M; split; [split|split].
    - by rewrite /M tr_diag_mx.
    - by rewrite trmx1 mulmx1.
    - rewrite /exV' tr_diag_mx mulmx_diag -[RHS]diag_const_mx; congr diag_mx.
      by apply/rowP => i; rewrite !mxE; case: ifP => _; rewrite ?mulr1 ?mulrNN ?mulr1.
    - by rewrite mulmx1 mul1mx.
    - rewrite /M /exV' !mulmx_diag; congr diag_mx.
      by apply/rowP => i; rewrite !mxE mulrC.
    - move=> i j; rewrite ltnS leqn0 => /eqP i0 j1.
      have -> : i = ord0 by apply: val_inj.
      rewrite !mxE eqxx; case: eqP => [E|_]; first by rewrite E in j1.
      by rewrite ltr1n.
    - apply/eqP => /matrixP/(_ ord_max ord_max); rewrite !mxE /= => /eqP.
      by rewrite mulr1n eq_sym -subr_eq0 opprK -mulr2n pnatr_eq0.
  Qed.
End Examples.
