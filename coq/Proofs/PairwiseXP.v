(* Proofs about Model/PairwiseX.v (C15 extension, round 3).  Stdlib style, lra/nra over Q, no axioms. *)
From Coq Require Import Lqa Lia.
From Verif Require Import Pairwise PairwiseP PairwiseX.
Open Scope Q_scope.

(* ================================================================ 1. flat layout = nested maps *)
Lemma map_flat_map {A B C} (f : B -> C) (g : A -> list B) l :
  map f (flat_map g l) = flat_map (fun x => map f (g x)) l.
Proof. induction l as [|a l IH]; [reflexivity|]. cbn [flat_map]. rewrite map_app, IH. reflexivity. Qed.

Lemma chunks_flat_map {A B} (g : A -> list B) ny l :
  (forall x, length (g x) = ny) -> chunks (length l) ny (flat_map g l) = map g l.
Proof.
  intros Hg. induction l as [|a l IH]; [reflexivity|].
  cbn [length flat_map chunks map].
  assert (F : firstn ny (g a ++ flat_map g l) = g a).
  { rewrite <- (Hg a). rewrite firstn_app, Nat.sub_diag, firstn_all. cbn [firstn]. apply app_nil_r. }
  assert (S : skipn ny (g a ++ flat_map g l) = flat_map g l).
  { rewrite <- (Hg a). rewrite skipn_app, Nat.sub_diag, skipn_all. reflexivity. }
  rewrite F, S, IH. reflexivity.
Qed.

Definition frow (cell : option (list Q)) (v : list Q) : list Q :=
  match cell with None => v | Some c => map2 wrap c v end.

Lemma fold_rows_map cell l : fold_rows cell l = map (frow cell) l.
Proof. destruct cell as [c|]; [reflexivity|]. cbn. symmetry. apply map_id. Qed.

Lemma frow_vdiff cell x y : frow cell (vdiff x y) = dvec cell x y.
Proof. destruct cell; reflexivity. Qed.

Lemma flat_layout (h : list Q -> Q) X Y cell :
  chunks (length X) (length Y) (map h (fold_rows cell (diffs X Y)))
  = map (fun x => map (fun y => h (dvec cell x y)) Y) X.
Proof.
  rewrite fold_rows_map. unfold diffs. rewrite !map_flat_map.
  rewrite chunks_flat_map by (intros x; rewrite !map_length; reflexivity).
  apply map_ext. intros x. rewrite !map_map. apply map_ext. intros y.
  rewrite frow_vdiff. reflexivity.
Qed.

Lemma pp_flat_eq X Y cell : pp_flat X Y cell = map (fun x => map (fun y => dist2 cell x y) Y) X.
Proof. unfold pp_flat. apply (flat_layout qsqn). Qed.

Lemma mh_flat_eq P X Y cell : mh_flat P X Y cell = map (fun x => map (fun y => mahal2 P cell x y) Y) X.
Proof. unfold mh_flat. apply (flat_layout (qform P)). Qed.

Lemma periodic_pairwise_flat_eq X Y cell : periodic_pairwise_flat X Y cell = periodic_pairwise X Y cell.
Proof.
  unfold periodic_pairwise_flat, periodic_pairwise.
  destruct (check_dimension X cell); [|reflexivity].
  destruct (check_pairwise X Y) as [Y'|]; [|reflexivity]. rewrite pp_flat_eq. reflexivity.
Qed.

Lemma pairwise_mahal_flat_eq X Y cov cell : pairwise_mahal_flat X Y cov cell = pairwise_mahal_opt X Y cov cell.
Proof.
  unfold pairwise_mahal_flat, pairwise_mahal_opt.
  destruct (check_dimension X cell); [|reflexivity].
  destruct (check_pairwise X Y) as [Y'|]; [|reflexivity].
  destruct (forallb _ _); [|reflexivity]. f_equal. apply map_ext. intros P. apply mh_flat_eq.
Qed.

(* ================================================================ 2. Mahalanobis with Y = None *)
Lemma pairwise_mahal_opt_some X Y cov cell : pairwise_mahal_opt X (Some Y) cov cell = pairwise_mahal X Y cov cell.
Proof. reflexivity. Qed.

Lemma pairwise_mahal_opt_none X cov cell : pairwise_mahal_opt X None cov cell = pairwise_mahal X X cov cell.
Proof. reflexivity. Qed.

Lemma periodic_pairwise_none X cell : periodic_pairwise X None cell = periodic_pairwise X (Some X) cell.
Proof. reflexivity. Qed.

Lemma mahal_flat_full X Y cov cell :
  pairwise_mahal_flat X Y cov cell
  = pairwise_mahal X (match Y with None => X | Some Y' => Y' end) cov cell.
Proof. rewrite pairwise_mahal_flat_eq. destruct Y; reflexivity. Qed.

Lemma mahal_gram_nonneg r L cell x y :
  rows_len r L -> length (dvec cell x y) = length L -> 0 <= mahal2 (gram L) cell x y.
Proof. intros HL Hv. unfold mahal2. apply (qform_gram_nonneg r); assumption. Qed.

(* ================================================================ 3. the squared flag *)
Lemma pp_squared_flag X Y cell R :
  pp_returns false X Y cell R -> pp_returns true X Y cell (map (map qsq) R).
Proof.
  intros [M [E H]]. exists M. split; [exact E|]. clear E.
  unfold mat_rel in *. induction H as [|m r M' R' Hr _ IH]; [constructor|].
  cbn [map]. constructor; [|exact IH].
  clear IH. induction Hr as [|s t m' r' Hst _ IH2]; [constructor|].
  cbn [map]. constructor; [|exact IH2].
  cbn [out_rel] in *. destruct Hst as [_ Hst]. unfold qsq. exact Hst.
Qed.

Lemma pp_flag_unique X Y cell R R2 :
  pp_returns false X Y cell R -> pp_returns true X Y cell R2 ->
  mat_rel (fun r r2 => 0 <= r /\ r2 == r * r) R R2.
Proof.
  intros [M [E H]] [M2 [E2 H2]]. rewrite E in E2. injection E2 as <-. clear E.
  unfold mat_rel in *. revert R2 H2. induction H as [|m r M' R' Hr _ IH]; intros R2 H2.
  - inversion H2. constructor.
  - inversion H2 as [|m2 r2 M2' R2' Hr2 H2' Em]; subst. constructor; [|apply IH; exact H2'].
    clear IH H2 H2'. revert r2 Hr2. induction Hr as [|s t m' r' Hst _ IH2]; intros r2 Hr2.
    + inversion Hr2. constructor.
    + inversion Hr2 as [|s2 t2 m2' r2' Hst2 Hr2' Em]; subst. constructor; [|apply IH2; exact Hr2'].
      cbn [out_rel] in *. destruct Hst as [Hn Hst]. split; [exact Hn|]. rewrite Hst2, Hst. reflexivity.
Qed.

(* triangle inequality with square roots replaced by arbitrary rational upper bounds of them *)
Lemma pd2_triangle_bounds cell x y z rb rc : cell_pos cell ->
  length x = length cell -> length y = length cell -> length z = length cell ->
  0 <= rb -> 0 <= rc -> pd2 cell x y <= rb * rb -> pd2 cell y z <= rc * rc ->
  pd2 cell x z <= (rb + rc) * (rb + rc).
Proof.
  intros Hc Hx Hy Hz Hb Hcc HB HC.
  pose proof (tri3_sum _ _ _ (wvec_tri3 cell x y z Hc Hx Hy Hz)) as H.
  pose proof (qdot_cs (wvec cell x y) (wvec cell y z)) as CS.
  pose proof (qsqn_nonneg (wvec cell x y)) as NB. pose proof (qsqn_nonneg (wvec cell y z)) as NC.
  unfold pd2 in *.
  set (A := qsqn (wvec cell x z)) in *. set (B := qsqn (wvec cell x y)) in *.
  set (C := qsqn (wvec cell y z)) in *. set (S := qdot (wvec cell x y) (wvec cell y z)) in *.
  unfold qsq in CS.
  assert (BC : B * C <= (rb * rc) * (rb * rc)).
  { assert (B * C <= (rb * rb) * C) by nra. assert ((rb * rb) * C <= (rb * rb) * (rc * rc)) by nra. nra. }
  assert (P0 : 0 <= rb * rc) by nra.
  assert (HS : S <= rb * rc).
  { destruct (Qlt_le_dec (rb * rc) S) as [L|L]; [exfalso|exact L].
    set (p := rb * rc) in *. assert (p * p < S * S) by nra. lra. }
  nra.
Qed.

Lemma pd2_triangle_roots cell x y z ra rb rc : cell_pos cell ->
  length x = length cell -> length y = length cell -> length z = length cell ->
  is_root ra (pd2 cell x z) -> is_root rb (pd2 cell x y) -> is_root rc (pd2 cell y z) ->
  ra <= rb + rc.
Proof.
  intros Hc Hx Hy Hz [Ha Ea] [Hb Eb] [Hcc Ec].
  assert (T : pd2 cell x z <= (rb + rc) * (rb + rc))
    by (apply (pd2_triangle_bounds cell x y z rb rc); try assumption; lra).
  destruct (Qlt_le_dec (rb + rc) ra) as [L|L]; [exfalso|exact L].
  set (s := rb + rc) in *. assert (0 <= s) by (unfold s; lra).
  assert (s * s < ra * ra) by nra. lra.
Qed.

(* ================================================================ 4. when the fold is the identity *)
Lemma wrap_id_iff c t : 0 < c -> (wrap c t == t <-> - c <= 2 * t <= c).
Proof.
  intros Hc. split.
  - intros E. pose proof (wrap_bound c t Hc) as H. lra.
  - intros H.
    assert (Et : t == (t / c) * c) by (field; lra).
    assert (R : 0%Z = rhe (t / c)).
    { apply rhe_unique.
      - unfold near. change (inject_Z 0) with 0. set (q := t / c) in *. split; nra.
      - intros _. reflexivity. }
    unfold wrap. rewrite <- R. change (inject_Z 0) with 0. ring.
Qed.

Lemma qsq_eq_abs w t c : qsq w == qsq t -> - c <= 2 * w <= c -> - c <= 2 * t <= c.
Proof.
  unfold qsq. intros E H.
  assert (Z : (t - w) * (t + w) == 0) by (ring_simplify; ring_simplify in E; lra).
  apply Qmult_integral in Z. destruct Z as [Z|Z]; lra.
Qed.

Lemma pd2_eq_free_iff cell x y : cell_pos cell ->
  length x = length cell -> length y = length cell ->
  (pd2 cell x y == fd2 x y <-> within_half cell x y).
Proof.
  revert x y. induction cell as [|c cell IH]; intros [|a x] [|b y] Hc Hx Hy; try discriminate.
  - split; [intros _; constructor|reflexivity].
  - inversion Hc as [|c' l Hc0 Hc1]; subst.
    assert (Lx : length x = length cell) by (now injection Hx).
    assert (Ly : length y = length cell) by (now injection Hy).
    specialize (IH x y Hc1 Lx Ly). pose proof (pd2_le_free cell x y Hc1 Lx Ly) as F.
    rewrite pd2_cons, fd2_cons.
    unfold within_half. change (vdiff (a :: x) (b :: y)) with ((a - b) :: vdiff x y).
    pose proof (wrap_sq_le_free c (a - b) Hc0) as W.
    split.
    + intros E. constructor.
      * apply (qsq_eq_abs (wrap c (a - b))); [lra|apply wrap_bound; exact Hc0].
      * apply IH. lra.
    + intros H. inversion H as [|c2 t2 l2 v2 H1 H2]; subst.
      apply (wrap_id_iff c (a - b) Hc0) in H1. apply IH in H2. rewrite H1, H2. reflexivity.
Qed.

(* ================================================================ 5. matrix-level statements *)
Lemma rect_In d X x : rect d X = true -> In x X -> length x = d.
Proof. unfold rect. rewrite forallb_forall. intros H Hin. apply Nat.eqb_eq, H, Hin. Qed.

Lemma pp_some_inv X Y cell M : periodic_pairwise X (Some Y) cell = Some M ->
  check_dimension X cell = true /\ rect (width X) X = true /\ rect (width X) Y = true.
Proof.
  unfold periodic_pairwise. destruct (check_dimension X cell); [|discriminate].
  unfold check_pairwise. destruct (rect (width X) X); [|discriminate].
  destruct (rect (width X) Y); [|discriminate]. intros _. repeat split.
Qed.

Lemma fd2_sym x y : fd2 x y == fd2 y x.
Proof.
  revert y. induction x as [|a x IH]; intros [|b y]; try reflexivity.
  rewrite !fd2_cons, IH. unfold qsq. ring.
Qed.

Lemma dist2_sym cell x y : dist2 cell x y == dist2 cell y x.
Proof. destruct cell as [c|]; [apply pd2_sym|apply fd2_sym]. Qed.

Lemma pp_matrix_symmetric X Y cell M M' :
  periodic_pairwise X (Some Y) cell = Some M -> periodic_pairwise Y (Some X) cell = Some M' ->
  forall i j, (i < length X)%nat -> (j < length Y)%nat ->
    nth i (nth j M' []) 0 == nth j (nth i M []) 0.
Proof.
  intros E E' i j Hi Hj.
  destruct (periodic_pairwise_entry X Y cell M E) as [_ H].
  destruct (periodic_pairwise_entry Y X cell M' E') as [_ H'].
  rewrite (H i j Hi Hj), (H' j i Hj Hi). apply dist2_sym.
Qed.

Definition ocell_pos (cell : option (list Q)) : Prop :=
  match cell with None => True | Some c => cell_pos c end.

Lemma fd2_self x : fd2 x x == 0.
Proof. induction x as [|a x IH]; [reflexivity|]. rewrite fd2_cons, IH. unfold qsq. ring. Qed.

Lemma dist2_self cell x : ocell_pos cell -> dist2 cell x x == 0.
Proof. destruct cell as [c|]; intros H; [apply pd2_self; exact H|apply fd2_self]. Qed.

Lemma pp_matrix_self X cell M : ocell_pos cell ->
  periodic_pairwise X None cell = Some M ->
  (forall i, (i < length X)%nat -> nth i (nth i M []) 0 == 0) /\
  (forall i j, (i < length X)%nat -> (j < length X)%nat -> nth j (nth i M []) 0 == nth i (nth j M []) 0).
Proof.
  intros Hc E. rewrite periodic_pairwise_none in E.
  destruct (periodic_pairwise_entry X X cell M E) as [_ H]. split.
  - intros i Hi. rewrite (H i i Hi Hi). apply dist2_self. exact Hc.
  - intros i j Hi Hj. rewrite (H i j Hi Hj), (H j i Hj Hi). apply dist2_sym.
Qed.

Lemma nth_map2 {A B C} (f : A -> B -> C) l m i da db dc :
  (i < length l)%nat -> (i < length m)%nat ->
  nth i (map2 f l m) dc = f (nth i l da) (nth i m db).
Proof.
  revert m i. induction l as [|a l IH]; intros [|b m] i Hl Hm; cbn in *; try lia.
  destruct i as [|i]; [reflexivity|]. apply IH; lia.
Qed.

Lemma pp_row_length X Y c M i : periodic_pairwise X (Some Y) (Some c) = Some M ->
  (i < length X)%nat -> length (nth i X []) = length c.
Proof.
  intros E Hi. destruct (pp_some_inv X Y (Some c) M E) as [D [RX _]].
  cbn [check_dimension] in D. apply Nat.eqb_eq in D. rewrite <- D.
  apply (rect_In _ X); [exact RX|]. apply nth_In. exact Hi.
Qed.

Lemma pp_col_length X Y c M j : periodic_pairwise X (Some Y) (Some c) = Some M ->
  (j < length Y)%nat -> length (nth j Y []) = length c.
Proof.
  intros E Hj. destruct (pp_some_inv X Y (Some c) M E) as [D [_ RY]].
  cbn [check_dimension] in D. apply Nat.eqb_eq in D. rewrite <- D.
  apply (rect_In _ Y); [exact RY|]. apply nth_In. exact Hj.
Qed.

Lemma pp_matrix_image cell ms ms' X Y M M' : cell_pos cell ->
  length ms = length X -> length ms' = length Y ->
  Forall (fun m => length m = length cell) ms -> Forall (fun m => length m = length cell) ms' ->
  periodic_pairwise X (Some Y) (Some cell) = Some M ->
  periodic_pairwise (mshift cell ms X) (Some (mshift cell ms' Y)) (Some cell) = Some M' ->
  forall i j, (i < length X)%nat -> (j < length Y)%nat ->
    nth j (nth i M' []) 0 == nth j (nth i M []) 0.
Proof.
  intros Hc Lm Lm' Fm Fm' E E' i j Hi Hj.
  destruct (periodic_pairwise_entry _ _ _ _ E) as [_ H].
  destruct (periodic_pairwise_entry _ _ _ _ E') as [_ H'].
  assert (Li : (i < length (mshift cell ms X))%nat)
    by (unfold mshift; rewrite map2_length, Lm, Nat.min_id; exact Hi).
  assert (Lj : (j < length (mshift cell ms' Y))%nat)
    by (unfold mshift; rewrite map2_length, Lm', Nat.min_id; exact Hj).
  rewrite (H i j Hi Hj), (H' i j Li Lj). unfold mshift.
  rewrite (nth_map2 (vshift cell) ms X i [] [] []) by (rewrite ?Lm; exact Hi).
  rewrite (nth_map2 (vshift cell) ms' Y j [] [] []) by (rewrite ?Lm'; exact Hj).
  change (dist2 (Some cell)) with (pd2 cell).
  rewrite Forall_forall in Fm, Fm'.
  apply pd2_image.
  - exact Hc.
  - apply Fm, nth_In. rewrite Lm. exact Hi.
  - apply Fm', nth_In. rewrite Lm'. exact Hj.
  - apply (pp_row_length X Y cell M i E Hi).
  - apply (pp_col_length X Y cell M j E Hj).
Qed.

(* the bounds, lifted to every entry of the returned matrix *)
Lemma pp_matrix_bounds X Y cell M : cell_pos cell ->
  periodic_pairwise X (Some Y) (Some cell) = Some M ->
  forall i j, (i < length X)%nat -> (j < length Y)%nat ->
    0 <= nth j (nth i M []) 0 /\ 4 * nth j (nth i M []) 0 <= qsqn cell /\
    nth j (nth i M []) 0 <= fd2 (nth i X []) (nth j Y []).
Proof.
  intros Hc E i j Hi Hj. destruct (periodic_pairwise_entry _ _ _ _ E) as [_ H].
  rewrite (H i j Hi Hj). change (dist2 (Some cell)) with (pd2 cell). repeat split.
  - apply pd2_nonneg.
  - apply pd2_half_diagonal. exact Hc.
  - apply pd2_le_free; [exact Hc|apply (pp_row_length X Y cell M i E Hi)|apply (pp_col_length X Y cell M j E Hj)].
Qed.

(* ================================================================ 6. no cell: sklearn's formula *)
Lemma fd2_expand x y : length x = length y ->
  fd2 x y == qdot x x - 2 * qdot x y + qdot y y.
Proof.
  revert y. induction x as [|a x IH]; intros [|b y] H; try discriminate.
  - reflexivity.
  - rewrite fd2_cons, !qdot_cons, IH by (now injection H). unfold qsq. ring.
Qed.

Lemma pp_no_cell X Y M : periodic_pairwise X (Some Y) None = Some M ->
  forall i j, (i < length X)%nat -> (j < length Y)%nat ->
    let x := nth i X [] in let y := nth j Y [] in
    nth j (nth i M []) 0 = fd2 x y /\ fd2 x y == qdot x x - 2 * qdot x y + qdot y y.
Proof.
  intros E i j Hi Hj x y. destruct (periodic_pairwise_entry _ _ _ _ E) as [_ H].
  split; [apply (H i j Hi Hj)|]. apply fd2_expand.
  destruct (pp_some_inv X Y None M E) as [_ [RX RY]].
  rewrite (rect_In _ X x RX) by (apply nth_In; exact Hi).
  rewrite (rect_In _ Y y RY) by (apply nth_In; exact Hj). reflexivity.
Qed.

(* ================================================================ 7. Mahalanobis and periodic images *)
(* off exact half-cell ties the rounding commutes with integer shifts ... *)
Lemma rhe_shift_off_tie q m : ~ tie q (rhe q) -> rhe (q + inject_Z m) = (rhe q + m)%Z.
Proof.
  intros NT. symmetry. apply rhe_unique.
  - pose proof (rhe_near q) as H. unfold near in *. rewrite inject_Z_plus. lra.
  - intros T. exfalso. apply NT. unfold tie in *. rewrite inject_Z_plus in T. lra.
Qed.

(* ... so the wrapped coordinate itself (not only its square) is invariant *)
Lemma wrap_image_off_tie c t m : 0 < c -> ~ tie (t / c) (rhe (t / c)) ->
  wrap c (t + inject_Z m * c) == wrap c t.
Proof.
  intros Hc NT. unfold wrap.
  assert (E : (t + inject_Z m * c) / c == t / c + inject_Z m) by (field; lra).
  rewrite (rhe_comp _ _ E), (rhe_shift_off_tie _ m NT), inject_Z_plus. ring.
Qed.

(* no coordinate difference of the pair is an odd multiple of half a cell length *)
Definition no_tie (cell x y : list Q) : Prop :=
  Forall2 (fun c t => ~ tie (t / c) (rhe (t / c))) cell (vdiff x y).

Lemma wvec_image_off_ties cell m m' x y : cell_pos cell ->
  length m = length cell -> length m' = length cell ->
  length x = length cell -> length y = length cell -> no_tie cell x y ->
  veq (wvec cell (vshift cell m x) (vshift cell m' y)) (wvec cell x y).
Proof.
  revert m m' x y. induction cell as [|c cell IH];
    intros [|k m] [|k' m'] [|a x] [|b y] Hc Hm Hm' Hx Hy NT; try discriminate.
  - constructor.
  - inversion Hc as [|c' l Hc0 Hc1]; subst. cbn [vshift].
    unfold no_tie in NT. change (vdiff (a :: x) (b :: y)) with ((a - b) :: vdiff x y) in NT.
    inversion NT as [|c2 t2 l2 v2 NT1 NT2]; subst.
    change (veq (wrap c (a + inject_Z k * c - (b + inject_Z k' * c)) :: wvec cell (vshift cell m x) (vshift cell m' y))
                (wrap c (a - b) :: wvec cell x y)).
    constructor.
    + assert (E : a + inject_Z k * c - (b + inject_Z k' * c) == (a - b) + inject_Z (k - k') * c)
        by (rewrite inject_Z_minus; ring).
      rewrite (wrap_comp c _ _ E). apply wrap_image_off_tie; assumption.
    + apply IH; try assumption; cbn in *; congruence.
Qed.

Lemma qdot_veq_l u u' v : veq u u' -> qdot u v == qdot u' v.
Proof. intros H. rewrite (qdot_comm u v), (qdot_comm u' v). apply qdot_veq_r. exact H. Qed.

Lemma mvec_veq P v v' : veq v v' -> veq (mvec P v) (mvec P v').
Proof.
  intros H. unfold mvec. induction P as [|row P IH]; [constructor|].
  cbn [map]. constructor; [apply qdot_veq_r; exact H|exact IH].
Qed.

Lemma qform_veq P v v' : veq v v' -> qform P v == qform P v'.
Proof.
  intros H. unfold qform.
  rewrite (qdot_veq_l v v' _ H). apply qdot_veq_r. apply mvec_veq. exact H.
Qed.

Lemma mahal_image_off_ties P cell m m' x y : cell_pos cell ->
  length m = length cell -> length m' = length cell ->
  length x = length cell -> length y = length cell -> no_tie cell x y ->
  mahal2 P (Some cell) (vshift cell m x) (vshift cell m' y) == mahal2 P (Some cell) x y.
Proof.
  intros Hc Hm Hm' Hx Hy NT. unfold mahal2, dvec. apply qform_veq.
  apply wvec_image_off_ties; assumption.
Qed.

(* at an exact tie the Mahalanobis value depends on the image chosen: SPD precision
   [[1; 1/2]; [1/2; 1]], unit cell, difference (1/2, 1/4) vs. the same point one cell further *)
Lemma mahal_image_tie_witness :
  let P := [[1; 1 # 2]; [1 # 2; 1]] in let cell := [1; 1] in
  ~ mahal2 P (Some cell) (vshift cell [1; 0]%Z [1 # 2; 1 # 4]) [0; 0]
    == mahal2 P (Some cell) [1 # 2; 1 # 4] [0; 0].
Proof. cbv zeta. vm_compute. discriminate. Qed.
