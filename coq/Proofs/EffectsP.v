(* Soundness of the effect analyser of Model/Effects.v (stdlib style).

   Main result [safe_sound]: if [safe p = true] then, from any initial state in which only
   the declared roots reference Caller cells, after ANY history (any finite sequence of
   statements of ctx ++ body) ANY execution of the entry point (any finite sequence of
   statements of body, every resolution of every MayAlias) leaves every Caller cell and
   the hyper-parameter map unchanged. *)
From Coq Require Import List PArith Bool Arith Lia MSets.MSetPositive.
Import ListNotations.
From Verif Require Import Effects.

(* ------------------------------------------------------------------ lists / heap *)
Lemma nth_error_snoc_cases :
  forall (h : list cell) d l c,
    nth_error (h ++ [d]) l = Some c ->
    nth_error h l = Some c \/ (l = length h /\ c = d).
Proof.
  intros h d l c H.
  destruct (Nat.lt_ge_cases l (length h)) as [Hlt | Hge].
  - left. rewrite nth_error_app1 in H by exact Hlt. exact H.
  - right. rewrite nth_error_app2 in H by exact Hge.
    destruct (l - length h) as [| k] eqn:E.
    + cbn in H. inversion H. split; [lia | reflexivity].
    + cbn in H. destruct k; discriminate H.
Qed.

Lemma nth_error_snoc_keep :
  forall (h : list cell) d l c, nth_error h l = Some c -> nth_error (h ++ [d]) l = Some c.
Proof.
  intros h d l c H. rewrite nth_error_app1; [exact H |].
  apply nth_error_Some. rewrite H. discriminate.
Qed.

Lemma set_nth_other :
  forall h l0 d l, l <> l0 -> nth_error (set_nth h l0 d) l = nth_error h l.
Proof.
  induction h as [| x t IH]; intros l0 d l Hne.
  - reflexivity.
  - destruct l0 as [| l0']; destruct l as [| l']; cbn.
    + contradiction Hne; reflexivity.
    + reflexivity.
    + reflexivity.
    + apply IH. intro E. apply Hne. now f_equal.
Qed.

Lemma set_nth_same :
  forall h l0 d c0, nth_error h l0 = Some c0 -> nth_error (set_nth h l0 d) l0 = Some d.
Proof.
  induction h as [| x t IH]; intros l0 d c0 H.
  - destruct l0; discriminate H.
  - destruct l0 as [| l0']; cbn.
    + reflexivity.
    + cbn in H. eapply IH. exact H.
Qed.

(* overwriting the content of a cell keeps the owner tag of every location *)
Lemma set_nth_owner :
  forall h l0 c0 v l c,
    nth_error h l0 = Some c0 ->
    nth_error (set_nth h l0 (mkCell (own c0) v)) l = Some c ->
    exists c', nth_error h l = Some c' /\ own c' = own c.
Proof.
  intros h l0 c0 v l c H0 H.
  destruct (Nat.eq_dec l l0) as [E | Hne].
  - subst l. rewrite (set_nth_same _ _ _ _ H0) in H. inversion H. subst c.
    exists c0. split; [exact H0 | reflexivity].
  - rewrite set_nth_other in H by exact Hne. exists c. split; [exact H | reflexivity].
Qed.

Lemma upd_same : forall A (f : positive -> A) k v, upd f k v k = v.
Proof. intros. unfold upd. now rewrite Pos.eqb_refl. Qed.

Lemma upd_other : forall A (f : positive -> A) k v k', k' <> k -> upd f k v k' = f k'.
Proof.
  intros A f k v k' Hne. unfold upd.
  destruct (Pos.eqb k' k) eqn:E; [apply Pos.eqb_eq in E; contradiction | reflexivity].
Qed.

(* ------------------------------------------------------------------ taint sets grow *)
Lemma of_list_in : forall l x, In x l -> PS.In x (of_list l).
Proof.
  induction l as [| y t IH]; intros x H; [contradiction |].
  cbn. apply PS.add_spec. destruct H as [E | H]; [left; now subst | right; now apply IH].
Qed.

Lemma tstep_mono_v : forall t i x, PS.In x (tv t) -> PS.In x (tv (tstep t i)).
Proof.
  intros t i x H.
  destruct i; cbn; try exact H;
    match goal with |- context [if ?b then _ else _] => destruct b end; cbn;
    try exact H; apply PS.add_spec; now right.
Qed.

Lemma tstep_mono_a : forall t i x, PS.In x (ta t) -> PS.In x (ta (tstep t i)).
Proof.
  intros t i x H.
  destruct i; cbn; try exact H;
    match goal with |- context [if ?b then _ else _] => destruct b end; cbn;
    try exact H; apply PS.add_spec; now right.
Qed.

Lemma tpass_mono :
  forall l t, (forall x, PS.In x (tv t) -> PS.In x (tv (tpass l t))) /\
              (forall x, PS.In x (ta t) -> PS.In x (ta (tpass l t))).
Proof.
  induction l as [| i l IH]; intros t; cbn; [split; auto |].
  destruct (IH (tstep t i)) as [Hv Ha].
  split; intros x H.
  - apply Hv. now apply tstep_mono_v.
  - apply Ha. now apply tstep_mono_a.
Qed.

Lemma titer_mono :
  forall n l t, (forall x, PS.In x (tv t) -> PS.In x (tv (titer n l t))) /\
                (forall x, PS.In x (ta t) -> PS.In x (ta (titer n l t))).
Proof.
  induction n as [| n IH]; intros l t; cbn; [split; auto |].
  destruct (tpass_mono l t) as [Pv Pa].
  destruct (Nat.eqb (tsize (tpass l t)) (tsize t)).
  - split; assumption.
  - destruct (IH l (tpass l t)) as [Hv Ha]. split; intros x H; [apply Hv, Pv | apply Ha, Pa]; exact H.
Qed.

(* ------------------------------------------------------------------ the invariant *)
(* whatever references a Caller cell is in the computed set *)
Definition inv (t : taint) (s : state) : Prop :=
  (forall x l c, env s x = Some l -> nth_error (heap s) l = Some c -> own c = Caller -> PS.In x (tv t)) /\
  (forall a l c, ats s a = Some l -> nth_error (heap s) l = Some c -> own c = Caller -> PS.In a (ta t)).

Lemma mem_in : forall x s, PS.mem x s = true <-> PS.In x s.
Proof. intros. apply PS.mem_spec. Qed.

Lemma implb_mem :
  forall y x sy sx, implb (PS.mem y sy) (PS.mem x sx) = true -> PS.In y sy -> PS.In x sx.
Proof.
  intros y x sy sx H Hy. apply mem_in in Hy. rewrite Hy in H. cbn in H. now apply mem_in.
Qed.

Lemma local_not_caller : forall v, own (mkCell Local v) = Caller -> False.
Proof. intros v H. discriminate H. Qed.

(* every statement, executed in any way, preserves the invariant of a closed set *)
Lemma step_inv :
  forall t i s s', closed_stmt t i = true -> inv t s -> step i s s' -> inv t s'.
Proof.
  intros t i s s' Hcl [Iv Ia] Hst.
  destruct Hst as [x s v | x y s | x y s | x y s v | x st s l0 c0 v Hx Hc0 | x st s Hx
                   | q st s v | a x s | x a s]; cbn in Hcl.
  - (* Fresh *)
    split; cbn [env ats heap].
    + intros x' l c He Hn Ho.
      apply nth_error_snoc_cases in Hn. destruct Hn as [Hn | [_ Hd]].
      * destruct (Pos.eq_dec x' x) as [E | Hne].
        -- subst x'. rewrite upd_same in He. inversion He. subst l.
           exfalso. assert (length (heap s) < length (heap s)); [| lia].
           apply nth_error_Some. rewrite Hn. discriminate.
        -- rewrite upd_other in He by exact Hne. eapply Iv; eassumption.
      * subst c. exfalso. eapply local_not_caller. exact Ho.
    + intros a l c He Hn Ho.
      apply nth_error_snoc_cases in Hn. destruct Hn as [Hn | [_ Hd]].
      * eapply Ia; eassumption.
      * subst c. exfalso. eapply local_not_caller. exact Ho.
  - (* Alias *)
    split; cbn [env ats heap].
    + intros x' l c He Hn Ho.
      destruct (Pos.eq_dec x' x) as [E | Hne].
      * subst x'. rewrite upd_same in He. eapply implb_mem; [exact Hcl |]. eapply Iv; eassumption.
      * rewrite upd_other in He by exact Hne. eapply Iv; eassumption.
    + exact Ia.
  - (* MayAlias, same buffer *)
    split; cbn [env ats heap].
    + intros x' l c He Hn Ho.
      destruct (Pos.eq_dec x' x) as [E | Hne].
      * subst x'. rewrite upd_same in He. eapply implb_mem; [exact Hcl |]. eapply Iv; eassumption.
      * rewrite upd_other in He by exact Hne. eapply Iv; eassumption.
    + exact Ia.
  - (* MayAlias, fresh copy *)
    split; cbn [env ats heap].
    + intros x' l c He Hn Ho.
      apply nth_error_snoc_cases in Hn. destruct Hn as [Hn | [_ Hd]].
      * destruct (Pos.eq_dec x' x) as [E | Hne].
        -- subst x'. rewrite upd_same in He. inversion He. subst l.
           exfalso. assert (length (heap s) < length (heap s)); [| lia].
           apply nth_error_Some. rewrite Hn. discriminate.
        -- rewrite upd_other in He by exact Hne. eapply Iv; eassumption.
      * subst c. exfalso. eapply local_not_caller. exact Ho.
    + intros a l c He Hn Ho.
      apply nth_error_snoc_cases in Hn. destruct Hn as [Hn | [_ Hd]].
      * eapply Ia; eassumption.
      * subst c. exfalso. eapply local_not_caller. exact Ho.
  - (* Write: references unchanged, owner tags unchanged *)
    split; cbn [env ats heap].
    + intros x' l c He Hn Ho.
      destruct (set_nth_owner _ _ _ _ _ _ Hc0 Hn) as [c' [Hn' Ho']].
      eapply Iv; [exact He | exact Hn' | congruence].
    + intros a l c He Hn Ho.
      destruct (set_nth_owner _ _ _ _ _ _ Hc0 Hn) as [c' [Hn' Ho']].
      eapply Ia; [exact He | exact Hn' | congruence].
  - split; assumption.
  - split; assumption.
  - (* StoreAttr *)
    split; cbn [env ats heap].
    + exact Iv.
    + intros a' l c He Hn Ho.
      destruct (Pos.eq_dec a' a) as [E | Hne].
      * subst a'. rewrite upd_same in He. eapply implb_mem; [exact Hcl |]. eapply Iv; eassumption.
      * rewrite upd_other in He by exact Hne. eapply Ia; eassumption.
  - (* LoadAttr *)
    split; cbn [env ats heap].
    + intros x' l c He Hn Ho.
      destruct (Pos.eq_dec x' x) as [E | Hne].
      * subst x'. rewrite upd_same in He. eapply implb_mem; [exact Hcl |]. eapply Ia; eassumption.
      * rewrite upd_other in He by exact Hne. eapply Iv; eassumption.
    + exact Ia.
Qed.

Lemma run_inv :
  forall t l s s',
    (forall i, In i l -> closed_stmt t i = true) -> inv t s -> run l s s' -> inv t s'.
Proof.
  intros t l s s' Hcl Hinv Hrun. induction Hrun as [s | i s s' s'' Hin Hst _ IH].
  - exact Hinv.
  - apply IH. eapply step_inv; [apply Hcl; exact Hin | exact Hinv | exact Hst].
Qed.

(* ------------------------------------------------------------------ effects of the body *)
Lemma caller_unchanged_refl : forall s, caller_unchanged s s.
Proof. intros s l c H _. exact H. Qed.

Lemma caller_unchanged_trans :
  forall s1 s2 s3, caller_unchanged s1 s2 -> caller_unchanged s2 s3 -> caller_unchanged s1 s3.
Proof.
  intros s1 s2 s3 H12 H23 l c Hn Ho. apply H23; [apply H12; assumption | exact Ho].
Qed.

Lemma caller_unchanged_heap :
  forall s s', heap s' = heap s -> caller_unchanged s s'.
Proof. intros s s' E l c H _. rewrite E. exact H. Qed.

Lemma step_effect :
  forall t i s s', inv t s -> ok_stmt t i = true -> step i s s' ->
                   caller_unchanged s s' /\ params_unchanged s s'.
Proof.
  intros t i s s' [Iv Ia] Hok Hst.
  destruct Hst as [x s v | x y s | x y s | x y s v | x st s l0 c0 v Hx Hc0 | x st s Hx
                   | q st s v | a x s | x a s]; cbn in Hok.
  - split; [| intro; reflexivity].
    intros l c Hn _. cbn [heap]. now apply nth_error_snoc_keep.
  - split; [now apply caller_unchanged_heap | intro; reflexivity].
  - split; [now apply caller_unchanged_heap | intro; reflexivity].
  - split; [| intro; reflexivity].
    intros l c Hn _. cbn [heap]. now apply nth_error_snoc_keep.
  - (* Write on an untainted variable: the cell written is not a Caller cell *)
    split; [| intro; reflexivity].
    intros l c Hn Ho. cbn [heap].
    assert (Hne : l <> l0).
    { intro E. subst l. rewrite Hc0 in Hn. inversion Hn. subst c0.
      assert (Hin : PS.In x (tv t)) by (eapply Iv; eassumption).
      apply mem_in in Hin. rewrite Hin in Hok. discriminate Hok. }
    rewrite set_nth_other by exact Hne. exact Hn.
  - split; [now apply caller_unchanged_heap | intro; reflexivity].
  - discriminate Hok.
  - split; [now apply caller_unchanged_heap | intro; reflexivity].
  - split; [now apply caller_unchanged_heap | intro; reflexivity].
Qed.

Lemma run_effect :
  forall t l s s',
    (forall i, In i l -> closed_stmt t i = true) ->
    (forall i, In i l -> ok_stmt t i = true) ->
    inv t s -> run l s s' ->
    caller_unchanged s s' /\ params_unchanged s s'.
Proof.
  intros t l s s' Hcl Hok Hinv Hrun. induction Hrun as [s | i s s' s'' Hin Hst _ IH].
  - split; [apply caller_unchanged_refl | intro; reflexivity].
  - destruct (step_effect t i s s' Hinv (Hok i Hin) Hst) as [C1 P1].
    assert (Hinv' : inv t s') by (eapply step_inv; [apply Hcl; exact Hin | exact Hinv | exact Hst]).
    destruct (IH Hinv') as [C2 P2].
    split.
    + eapply caller_unchanged_trans; eassumption.
    + intro q. rewrite P2. apply P1.
Qed.

(* ------------------------------------------------------------------ main theorem *)
Lemma init_inv : forall p s, init_ok p s -> inv (analyse p) s.
Proof.
  intros p s [Hv Ha]. unfold analyse.
  destruct (titer_mono (S (length (all_stmts p))) (all_stmts p) (taint0 p)) as [Mv Ma].
  split.
  - intros x l c He Hn Ho. apply Mv. cbn. apply of_list_in. eapply Hv; eassumption.
  - intros a l c He Hn Ho. apply Ma. cbn. apply of_list_in. eapply Ha; eassumption.
Qed.

Theorem safe_sound :
  forall p s0 s1 s2,
    safe p = true ->
    init_ok p s0 ->
    run (ctx p ++ body p) s0 s1 ->
    run (body p) s1 s2 ->
    caller_unchanged s1 s2 /\ params_unchanged s1 s2.
Proof.
  intros p s0 s1 s2 Hsafe Hinit Hhist Hexec.
  unfold safe in Hsafe. apply andb_true_iff in Hsafe. destruct Hsafe as [Hcl Hok].
  rewrite forallb_forall in Hcl. rewrite forallb_forall in Hok.
  assert (I1 : inv (analyse p) s1).
  { eapply run_inv; [exact Hcl | apply init_inv; exact Hinit | exact Hhist]. }
  eapply run_effect with (t := analyse p) (l := body p).
  - intros i Hin. apply Hcl. unfold all_stmts. apply in_or_app. now right.
  - exact Hok.
  - exact I1.
  - exact Hexec.
Qed.

(* the executions of the entry point taken alone (no history) are a special case *)
Corollary safe_sound_fresh :
  forall p s0 s1,
    safe p = true -> init_ok p s0 -> run (body p) s0 s1 ->
    caller_unchanged s0 s1 /\ params_unchanged s0 s1.
Proof.
  intros p s0 s1 Hsafe Hinit Hexec.
  eapply safe_sound; [exact Hsafe | exact Hinit | apply run_nil | exact Hexec].
Qed.

(* [safe] and the reported sites agree: a program is safe iff the closure check passes and
   no offending site is reported *)
Lemma bad_site_nil_ok : forall t i, bad_site t i = [] <-> ok_stmt t i = true.
Proof.
  intros t i. destruct i; cbn; try (split; reflexivity).
  - destruct (PS.mem x (tv t)); cbn; split; intro H; try reflexivity; discriminate H.
  - split; intro H; discriminate H.
Qed.

Lemma safe_iff_no_sites :
  forall p, safe p = true <-> closed_ok p = true /\ bad_sites p = [].
Proof.
  intro p. unfold safe, closed_ok, bad_sites.
  rewrite andb_true_iff.
  assert (E : forall l, forallb (ok_stmt (analyse p)) l = true <-> flat_map (bad_site (analyse p)) l = []).
  { induction l as [| i l IH]; [cbn; split; reflexivity |].
    change (forallb (ok_stmt (analyse p)) (i :: l))
      with (ok_stmt (analyse p) i && forallb (ok_stmt (analyse p)) l).
    change (flat_map (bad_site (analyse p)) (i :: l))
      with (bad_site (analyse p) i ++ flat_map (bad_site (analyse p)) l).
    split.
    - intro H. apply andb_true_iff in H. destruct H as [H1 H2].
      apply bad_site_nil_ok in H1. apply IH in H2. now rewrite H1, H2.
    - intro H. apply app_eq_nil in H. destruct H as [H1 H2].
      apply andb_true_iff. split; [now apply bad_site_nil_ok | now apply IH]. }
  rewrite E. reflexivity.
Qed.

(* ------------------------------------------------------------------ fitted state does not alias caller storage *)
(* after ANY history of the object, an attribute outside the computed set holds no reference to a
   caller-owned cell (arguments of any method, hyper-parameter objects) *)
Theorem untainted_attr_not_caller :
  forall p s0 s1 a l c,
    closed_ok p = true -> init_ok p s0 -> run (ctx p ++ body p) s0 s1 ->
    PS.mem a (ta (analyse p)) = false ->
    ats s1 a = Some l -> nth_error (heap s1) l = Some c -> own c <> Caller.
Proof.
  intros p s0 s1 a l c Hcl Hinit Hrun Hmem Ha Hn Ho.
  unfold closed_ok in Hcl. rewrite forallb_forall in Hcl.
  assert (I1 : inv (analyse p) s1).
  { eapply run_inv; [exact Hcl | apply init_inv; exact Hinit | exact Hrun]. }
  destruct I1 as [_ Ia]. specialize (Ia a l c Ha Hn Ho).
  apply mem_in in Ia. rewrite Ia in Hmem. discriminate Hmem.
Qed.

Lemma tainted_attrs_spec : forall p a, In a (tainted_attrs p) <-> PS.mem a (ta (analyse p)) = true.
Proof.
  intros p a. unfold tainted_attrs. rewrite PS.mem_spec. rewrite <- PS.elements_spec1.
  rewrite SetoidList.InA_alt. split.
  - intro H. exists a. split; [reflexivity | exact H].
  - intros [b [E H]]. hnf in E. subst b. exact H.
Qed.
