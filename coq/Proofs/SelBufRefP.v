(* C01 (extension): the abstract model Model/Select.v ([sfit], the one all the loop theorems of
   C01/C02/C06/C07 are about) is an abstraction of the buffer-level model Model/SelBuf.v
   ([bfit]): whenever the buffer-level fit succeeds, the abstract fit succeeds with the same
   stop flag, its selection sequence is the one underlying the buffers, and what the buffers
   report is [reported_sel] of it.  Stdlib style. *)
From Verif Require Import ListX Greedy Select ListXP GreedyP SelectP C01Thm SelBuf SelBufP.

Definition bcfg_of (c : cfg) : bcfg :=
  mk_bcfg (c_nts c) (tst_of_thr (c_thr c)) (c_full c) (c_warm c).

Lemma tst_of_thr_has t : tst_of_thr t = if has_thr t then Some (below t) else None.
Proof. destruct t; reflexivity. Qed.

(* the abstract state a buffer state stands for (only consulted by a warm start) *)
Definition abs_rel (g : gst stream) (b : bst) : Prop :=
  sel g = b_idx b /\ first g = b_first b.
Definition prev_rel (pg : option (gst stream)) (pb : option bst) : Prop :=
  match pg, pb with
  | None, None => True
  | Some g, Some b => abs_rel g b
  | _, _ => False
  end.

Section Refine.
  Variable cand : list (list Z).
  Variable ycand : option (list (list Z)).
  Notation n := (length cand).
  Notation s_run := (s_run cand ycand).

  Lemma s_run_step t fuel (g : gst stream) sc rest :
    sst g = sc :: rest ->
    s_run t (S fuel) g =
    match amax (mask (sel g) sc) with
    | None => (g, true)
    | Some (i, v) =>
        if has_thr t then
          let f := match first g with Some f => f | None => v end in
          let g' := mk_gst (sel g) (xsel g) (ysel g) (sst g) (Some f) in
          if below t f v then (g', true) else s_run t fuel (post stream s_upd cand ycand g' i)
        else s_run t fuel (post stream s_upd cand ycand g i)
    end.
  Proof.
    intros E. unfold Select.s_run. cbn [run]. unfold best_new. rewrite E. cbn [s_score].
    destruct (amax (mask (sel g) sc)) as [[i v]|]; [|reflexivity].
    destruct (has_thr t); [|reflexivity].
    destruct (below t _ v); reflexivity.
  Qed.

  Definition run_rel (r : gst stream * bool) (s : list nat) (bf : bst) (st : bool)
             (tr : list tentry) : Prop :=
    snd r = st /\ sel (fst r) = s ++ kept_idx tr /\ first (fst r) = b_first bf /\
    (if st then tl (sst (fst r)) else sst (fst r)) = b_str bf.

  Lemma b_run_refines t K : forall fuel j b s (g : gst stream),
    LInv cand ycand K b s -> sel g = s -> sst g = b_str b -> first g = b_first b ->
    (length s + fuel = K)%nat ->
    forall bf st tr, b_run cand ycand (tst_of_thr t) j fuel b = Ok (bf, st, tr) ->
    run_rel (s_run t fuel g) s bf st tr.
  Proof.
    induction fuel as [|fuel IH]; intros j b s g HI Hs Hst Hf Hk bf st tr H.
    - cbn in H. injection H as <- <- <-. unfold run_rel, kept_idx. cbn. rewrite app_nil_r. auto.
    - subst s. cbn [SelBuf.b_run] in H. unfold SelBuf.b_best in H.
      destruct (b_str b) as [|sc rest] eqn:Es; [discriminate|].
      destruct (Nat.eqb_spec (length sc) n) as [Hl|Hl]; cbn [negb] in H; [|discriminate].
      assert (Hfn : firstn (b_n b) (b_idx b) = sel g).
      { destruct HI as (_ & _ & _ & Hn & Hi & _). rewrite Hn, Hi. apply firstn_app_exact. }
      rewrite Hfn in H.
      rewrite (s_run_step t fuel g sc rest Hst), Hf.
      destruct (amax (mask (sel g) sc)) as [[i v]|] eqn:Ea; [|discriminate].
      pose proof (amax_mask_spec _ _ _ _ Ea) as (Hi & Hns & _). rewrite Hl in Hi.
      rewrite tst_of_thr_has in H.
      destruct (has_thr t) eqn:Ht.
      + cbv zeta. set (f := match b_first b with Some f => f | None => v end) in *.
        destruct (below t f v) eqn:Hb.
        * (* threshold stop *)
          destruct (b_truncate _ _) as [b2|e] eqn:Et; [|discriminate].
          injection H as <- <- <-.
          unfold b_truncate in Et. destruct (_ <? _)%nat; [discriminate|].
          injection Et as <-. unfold run_rel, kept_idx; cbn. rewrite app_nil_r, Hst. auto.
        * set (b1 := mk_bst (b_n b) (b_idx b) (b_x b) (b_y b) (Some f) rest) in *.
          assert (HI1 : LInv cand ycand K b1 (sel g)) by (eapply LInv_same; eauto).
          destruct (b_post_inv cand ycand K b1 (sel g) i HI1 ltac:(lia) Hi Hns)
            as (b2 & E2 & HI2 & Hf2 & Hs2).
          rewrite E2 in H.
          destruct (b_run cand ycand _ (S j) fuel b2) as [[[bf' st'] tr']|e] eqn:Er; [|discriminate].
          injection H as <- <- <-.
          assert (Et : Some (below t) = tst_of_thr t) by (rewrite tst_of_thr_has, Ht; reflexivity).
          rewrite Et in Er.
          assert (R : run_rel (s_run t fuel (post stream s_upd cand ycand
                        (mk_gst (sel g) (xsel g) (ysel g) (sst g) (Some f)) i))
                        (sel g ++ [i]) bf' st' tr').
          { eapply IH; try exact Er; try exact HI2.
            - reflexivity.
            - cbn. rewrite Hst, Hs2. reflexivity.
            - cbn. now rewrite Hf2.
            - rewrite app_length; cbn; lia. }
          unfold run_rel, kept_idx in *. cbn [filter te_kept snd map te_idx fst].
          rewrite <- app_assoc in R. exact R.
      + set (b1 := mk_bst (b_n b) (b_idx b) (b_x b) (b_y b) (b_first b) rest) in *.
        assert (HI1 : LInv cand ycand K b1 (sel g)) by (eapply LInv_same; eauto).
        destruct (b_post_inv cand ycand K b1 (sel g) i HI1 ltac:(lia) Hi Hns)
          as (b2 & E2 & HI2 & Hf2 & Hs2).
        rewrite E2 in H.
        destruct (b_run cand ycand _ (S j) fuel b2) as [[[bf' st'] tr']|e] eqn:Er; [|discriminate].
        injection H as <- <- <-.
        assert (Et : (None : tstfun) = tst_of_thr t) by (rewrite tst_of_thr_has, Ht; reflexivity).
        rewrite Et in Er.
        assert (R : run_rel (s_run t fuel (post stream s_upd cand ycand g i))
                      (sel g ++ [i]) bf' st' tr').
        { eapply IH; try exact Er; try exact HI2.
          - reflexivity.
          - cbn. rewrite Hst, Hs2. reflexivity.
          - cbn. now rewrite Hf2, Hf.
          - rewrite app_length; cbn; lia. }
        unfold run_rel, kept_idx in *. cbn [filter te_kept snd map te_idx fst].
        rewrite <- app_assoc in R. exact R.
  Qed.

  Theorem bfit_refines_sfit pg pb c inits str k b st tr :
    prev_rel pg pb ->
    (c_warm c = true -> bprev_ok cand ycand pb) ->
    (c_warm c = false -> NoDup inits /\ in_rng n inits) ->
    resolve_n n (c_nts c) = Some k ->
    (length (sel_before pb (bcfg_of c) inits) <= k)%nat ->
    bfit cand ycand pb (bcfg_of c) inits str = BFitted b st tr ->
    exists g, sfit cand ycand pg c inits str = Fitted g st /\
              sel g = sel_before pb (bcfg_of c) inits ++ kept_idx tr /\
              abs_rel (mk_gst (reported_sel g st (n_before pg c inits)) (xsel g) (ysel g) (sst g) (first g)) b /\
              b_n b = length (sel g) /\ sst g = b_str b.
  Proof.
    intros Hrel Hp Hin Hk Hle Hfit.
    pose proof (bfit_fitted cand ycand pb (bcfg_of c) inits str k Hp Hin Hk Hle b st tr Hfit) as Hpost.
    unfold SelBuf.bfit in Hfit. unfold sfit, sel_before, n_before in *.
    cbn [bcfg_of bc_full bc_tst bc_nts bc_warm] in *.
    replace (has_tst (tst_of_thr (c_thr c))) with (has_thr (c_thr c)) in Hfit
      by (destruct (c_thr c); reflexivity).
    destruct (c_full c && has_thr (c_thr c)); [discriminate|]. rewrite Hk in *.
    destruct (c_warm c) eqn:Hw.
    - destruct pb as [b0|]; [|discriminate]. destruct pg as [g0|]; [|contradiction].
      destruct Hrel as (Hsel0 & Hf0). specialize (Hp eq_refl). cbn in Hp.
      assert (Hn0 : b_n b0 = length (b_idx b0)) by apply Hp.
      rewrite Hsel0, <- Hn0.
      destruct (Nat.eqb (b_n b0) O); [discriminate|].
      destruct (b_continue_inv cand ycand k str b0 Hp ltac:(lia)) as (b1 & E1 & HI & Hf1 & Hs1).
      rewrite E1 in Hfit.
      assert (Hn1 : b_n b1 = length (b_idx b0)) by apply HI.
      destruct (b_run cand ycand _ O (k - b_n b1) b1) as [[[bf st'] tr']|e] eqn:Er; [|discriminate].
      injection Hfit as <- <- <-.
      assert (R : run_rel (s_run (c_thr c) (k - b_n b1) (with_stream g0 str)) (b_idx b0) bf st' tr').
      { eapply b_run_refines; try exact Er; try exact HI; auto.
        - cbn. congruence.
        - lia. }
      rewrite Hn1, <- Hn0 in R.
      destruct (s_run (c_thr c) (k - b_n b0) (with_stream g0 str)) as [g' st''].
      destruct R as (Hst'' & Hsel & Hfirst & Hstr). cbn [fst snd] in *. subst st''.
      + unfold s_pop.
        eexists. split; [reflexivity|].
        unfold fit_post, sel_before in Hpost. cbn [bcfg_of bc_warm] in Hpost. rewrite Hw in Hpost.
        destruct Hpost as (_ & _ & _ & _ & A5 & _ & A7 & _).
        unfold abs_rel, reported_sel. destruct st'; cbn.
        * rewrite Hsel. repeat split; auto. rewrite A7, Hn0. reflexivity.
        * rewrite Hsel. repeat split; auto.
    - destruct (Hin eq_refl) as (Hnd & Hr).
      destruct (b_inits_inv cand ycand k inits (b_init cand ycand k str) []
                  (b_init_inv cand ycand k str) Hnd Hr ltac:(cbn; lia)) as (b1 & E1 & HI & Hf1 & Hs1).
      rewrite E1 in Hfit. cbn [app] in HI.
      assert (Hn1 : b_n b1 = length inits) by apply HI.
      destruct (b_run cand ycand _ O (k - b_n b1) b1) as [[[bf st'] tr']|e] eqn:Er; [|discriminate].
      injection Hfit as <- <- <-.
      destruct (init_state cand ycand inits (mk_gst [] [] [] (repeat [] (length inits) ++ str) None))
        as (A & _ & _ & D & E). cbn in A, D, E.
      rewrite skipn_app, skipn_all2, repeat_length, Nat.sub_diag in D
        by (rewrite repeat_length; lia). cbn in D.
      assert (R : run_rel (s_run (c_thr c) (k - b_n b1)
                    (fold_left (s_post cand ycand) inits
                               (mk_gst [] [] [] (repeat [] (length inits) ++ str) None))) inits bf st' tr').
      { eapply b_run_refines; try exact Er; try exact HI; auto.
        - rewrite D, Hs1. reflexivity.
        - rewrite E, Hf1. reflexivity.
        - lia. }
      rewrite Hn1 in R.
      destruct (s_run (c_thr c) (k - length inits) _) as [g' st''].
      destruct R as (Hst'' & Hsel & Hfirst & Hstr). cbn [fst snd] in *. subst st''.
      + unfold s_pop.
        eexists. split; [reflexivity|].
        unfold fit_post, sel_before in Hpost. cbn [bcfg_of bc_warm] in Hpost. rewrite Hw in Hpost.
        destruct Hpost as (_ & _ & _ & _ & A5 & _ & A7 & _).
        unfold abs_rel, reported_sel. destruct st'; cbn.
        * rewrite Hsel. repeat split; auto.
        * rewrite Hsel. repeat split; auto.
  Qed.

  Corollary bfit_refines_sfit_flat pg pb c inits str k b st tr :
    prev_rel pg pb ->
    (c_warm c = true -> bprev_ok cand ycand pb) ->
    (c_warm c = false -> NoDup inits /\ in_rng n inits) ->
    resolve_n n (c_nts c) = Some k ->
    (length (sel_before pb (bcfg_of c) inits) <= k)%nat ->
    bfit cand ycand pb (bcfg_of c) inits str = BFitted b st tr ->
    exists g, sfit cand ycand pg c inits str = Fitted g st /\
              sel g = sel_before pb (bcfg_of c) inits ++ kept_idx tr /\
              reported_sel g st (n_before pg c inits) = b_idx b /\
              first g = b_first b /\ b_n b = length (sel g) /\ sst g = b_str b.
  Proof.
    intros H1 H2 H3 H4 H5 H6.
    destruct (bfit_refines_sfit pg pb c inits str k b st tr H1 H2 H3 H4 H5 H6)
      as (g & A & B & (C1 & C2) & D & E).
    exists g. cbn in C1, C2. auto 10.
  Qed.
End Refine.
