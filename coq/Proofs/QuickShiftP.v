(* Proofs about Model/QuickShift.v.  Stdlib style, lia only, no axioms. *)
From Verif Require Import ListX ListXP QuickShift.
Close Scope Z_scope.
Open Scope nat_scope.

(* ------------------------------------------------------------------ small list facts *)
Lemma oget_upd_eq R i v : i < length R -> oget (upd_nth i v R) i = v.
Proof. intros H. unfold oget. apply nth_upd_nth_eq. exact H. Qed.
Lemma oget_upd_neq R i j v : i <> j -> oget (upd_nth i v R) j = oget R j.
Proof. intros H. unfold oget. apply nth_upd_nth_neq. exact H. Qed.

Lemma assign_length path v R : length (assign path v R) = length R.
Proof. revert R. induction path as [|x p IH]; intros R; cbn; [reflexivity|]. rewrite IH. apply upd_nth_length. Qed.

Lemma assign_get path v R y :
  (forall x, In x path -> x < length R) ->
  oget (assign path v R) y = if memb y path then v else oget R y.
Proof.
  revert R. induction path as [|x p IH]; intros R Hp; [reflexivity|].
  cbn [assign]. rewrite IH by (intros z Hz; rewrite upd_nth_length; apply Hp; right; exact Hz).
  cbn [memb existsb]. fold (memb y p).
  destruct (memb y p) eqn:Em.
  - rewrite orb_true_r. reflexivity.
  - rewrite orb_false_r. destruct (Nat.eqb_spec y x) as [->|Hn].
    + apply oget_upd_eq. apply Hp. left. reflexivity.
    + apply oget_upd_neq. congruence.
Qed.

Definition isnone (o : option nat) : bool := match o with None => true | Some _ => false end.
Definition count_none (R : list (option nat)) : nat := length (filter isnone R).

Lemma count_none_le R : count_none R <= length R.
Proof. unfold count_none. induction R as [|a R IH]; cbn; [lia|]. destruct (isnone a); cbn; lia. Qed.

Lemma count_none_upd R i v : i < length R -> oget R i = None ->
  S (count_none (upd_nth i (Some v) R)) = count_none R.
Proof.
  unfold count_none, oget. revert i. induction R as [|a R IH]; intros [|i] Hi Hn; cbn in *; try lia.
  - subst a. cbn. reflexivity.
  - destruct (isnone a); cbn; rewrite <- (IH i) by (lia || assumption); reflexivity.
Qed.

Lemma count_none_pos R i : i < length R -> oget R i = None -> 0 < count_none R.
Proof.
  unfold count_none, oget. revert i. induction R as [|a R IH]; intros [|i] Hi Hn; cbn in *; try lia.
  - subst a. cbn. lia.
  - destruct (isnone a); cbn; [lia|]. eapply IH; [|eassumption]. lia.
Qed.

(* ------------------------------------------------------------------ the ascent loop *)
Section Fit.
  Variable n : nat.
  Variable next : nat -> nat.
  Variable w : list Z.
  Hypothesis next_lt : forall i, i < n -> next i < n.
  Hypothesis next_up : forall i, i < n -> next i = i \/ (wt w i < wt w (next i))%Z.

  Definition reach (x r : nat) : Prop := exists k, r = Nat.iter k next x.

  Lemma reach_refl x : reach x x.
  Proof. exists 0. reflexivity. Qed.
  Lemma reach_step x y : reach x y -> reach x (next y).
  Proof. intros [k ->]. exists (S k). reflexivity. Qed.
  Lemma iter_S k x : Nat.iter (S k) next x = next (Nat.iter k next x).
  Proof. reflexivity. Qed.
  Lemma iter_add k l x : Nat.iter (k + l) next x = Nat.iter k next (Nat.iter l next x).
  Proof. induction k as [|k IH]; [reflexivity|]. rewrite Nat.add_succ_l, !iter_S, IH. reflexivity. Qed.
  Lemma reach_trans x y z : reach x y -> reach y z -> reach x z.
  Proof. intros [k ->] [l ->]. exists (l + k). symmetry. apply iter_add. Qed.
  Lemma iter_fixed k r : next r = r -> Nat.iter k next r = r.
  Proof. intros H. induction k as [|k IH]; [reflexivity|]. rewrite iter_S, IH. exact H. Qed.

  (* the fixed point reached from x is unique *)
  Lemma limit_unique x r r' : reach x r -> next r = r -> reach x r' -> next r' = r' -> r = r'.
  Proof.
    intros [k ->] Hr [l ->] Hr'.
    destruct (Nat.le_ge_cases k l) as [L|L].
    - replace l with ((l - k) + k) by lia. rewrite iter_add. symmetry. apply iter_fixed. exact Hr.
    - replace k with ((k - l) + l) by lia. rewrite iter_add. apply iter_fixed. exact Hr'.
  Qed.

  Definition Good (R : list (option nat)) (y r : nat) : Prop :=
    r < n /\ next r = r /\ oget R r = Some r /\ reach y r.
  Definition InvO (R : list (option nat)) : Prop :=
    length R = n /\ forall y r, y < n -> oget R y = Some r -> Good R y r.
  Definition InvA (path : list nat) (cur : nat) (R : list (option nat)) : Prop :=
    length R = n /\ cur < n /\ oget R cur = None /\ In cur path /\
    (forall x, In x path -> x < n /\ reach x cur /\ (x <> cur -> (wt w x < wt w cur)%Z /\ oget R x <> None)) /\
    (forall y r, y < n -> ~ In y path -> oget R y = Some r -> Good R y r /\ ~ In r path).

  Lemma memb_true_In y l : memb y l = true -> In y l.
  Proof. apply memb_In. Qed.

  Lemma ascend_inv f : forall cur path R,
    InvA path cur R -> count_none R <= f ->
    exists R', ascend next f cur path R = Some R' /\ InvO R' /\
               forall y, y < n -> (oget R y <> None \/ In y path) -> oget R' y <> None.
  Proof.
    induction f as [|f IH]; intros cur path R (HL & Hc & HN & Hin & HP & HQ) Hf.
    - exfalso. pose proof (count_none_pos R cur ltac:(lia) HN). lia.
    - cbn [ascend]. rewrite HN. cbn [opt_eqb].
      set (nx := next cur). set (R1 := upd_nth cur (Some nx) R).
      assert (Hnx : nx < n) by (apply next_lt; exact Hc).
      assert (HL1 : length R1 = n) by (unfold R1; rewrite upd_nth_length; exact HL).
      assert (H1c : oget R1 cur = Some nx) by (apply oget_upd_eq; lia).
      assert (H1o : forall y, y <> cur -> oget R1 y = oget R y)
        by (intros y Hy; apply oget_upd_neq; congruence).
      unfold root_of. rewrite H1c.
      assert (Hpath_lt : forall x, In x path -> x < length R1)
        by (intros x Hx; rewrite HL1; apply (HP x Hx)).
      destruct (oget R1 nx) as [r|] eqn:Er.
      + (* break: the successor is already labelled (or is the point itself) *)
        assert (Hr : r < n /\ next r = r /\ reach cur r /\
                     (In r path \/ (oget R r = Some r /\ r <> cur))).
        { destruct (Nat.eq_dec nx cur) as [E|E].
          - rewrite E, H1c in Er. injection Er as <-. rewrite E.
            repeat split; [exact Hc|exact E|apply reach_refl|left; exact Hin].
          - rewrite (H1o nx E) in Er.
            assert (Hnp : ~ In nx path).
            { intros Hx. destruct (HP nx Hx) as (_ & _ & Hw). destruct (Hw E) as [Hlt _].
              destruct (next_up cur Hc) as [E'|Hgt]; [apply E; exact E'|]. fold nx in Hgt. lia. }
            destruct (HQ nx r Hnx Hnp Er) as [(G1 & G2 & G3 & G4) G5].
            repeat split; [exact G1|exact G2| |right; split; [exact G3|]].
            + eapply reach_trans; [apply reach_step, reach_refl|exact G4].
            + intros ->. apply G5. exact Hin. }
        destruct Hr as (Hr1 & Hr2 & Hr3 & Hr4).
        eexists. split; [reflexivity|]. split; [split|].
        * rewrite assign_length. exact HL1.
        * intros y r' Hy. unfold Good. rewrite !assign_get by exact Hpath_lt.
          destruct (memb y path) eqn:Ey.
          -- intros E. injection E as <-. apply memb_true_In in Ey.
             split; [exact Hr1|]. split; [exact Hr2|]. split.
             ++ destruct (memb r path) eqn:Em; [reflexivity|].
                destruct Hr4 as [Hr4|[Hr4 Hr5]].
                ** apply memb_In in Hr4. congruence.
                ** rewrite H1o by exact Hr5. exact Hr4.
             ++ eapply reach_trans; [apply (HP y Ey)|exact Hr3].
          -- intros E. assert (Hyp : ~ In y path) by (apply memb_false; exact Ey).
             assert (Hyc : y <> cur) by (intros ->; apply Hyp; exact Hin).
             rewrite (H1o y Hyc) in E.
             destruct (HQ y r' Hy Hyp E) as [(G1 & G2 & G3 & G4) G5].
             split; [exact G1|]. split; [exact G2|]. split; [|exact G4].
             assert (Em : memb r' path = false) by (apply memb_false; exact G5).
             rewrite Em. rewrite H1o; [exact G3|]. intros ->. apply G5. exact Hin.
        * intros y Hy Hlab. rewrite assign_get by exact Hpath_lt.
          destruct (memb y path) eqn:Ey; [discriminate|].
          assert (Hyp : ~ In y path) by (apply memb_false; exact Ey).
          destruct Hlab as [Hlab|Hlab]; [|contradiction].
          rewrite H1o; [exact Hlab|]. intros ->. apply Hyp. exact Hin.
      + (* continue with the successor *)
        assert (Hne : nx <> cur) by (intros E; rewrite E, H1c in Er; discriminate).
        assert (Hgt : (wt w cur < wt w nx)%Z).
        { destruct (next_up cur Hc) as [E|Hgt]; [exfalso; apply Hne; exact E|exact Hgt]. }
        assert (HnxN : oget R nx = None) by (rewrite <- (H1o nx Hne); exact Er).
        assert (Hnp : ~ In nx path).
        { intros Hx. destruct (HP nx Hx) as (_ & _ & Hw). destruct (Hw Hne) as [_ Hl]. apply Hl. exact HnxN. }
        destruct (IH nx (path ++ [nx]) R1) as (R' & E' & I' & L').
        * split; [exact HL1|]. split; [exact Hnx|]. split; [exact Er|].
          split; [apply in_or_app; right; left; reflexivity|]. split.
          -- intros x Hx. apply in_app_or in Hx. destruct Hx as [Hx|[<-|[]]].
             ++ destruct (HP x Hx) as (P1 & P2 & P3). split; [exact P1|].
                split; [apply reach_step; exact P2|]. intros _.
                destruct (Nat.eq_dec x cur) as [->|Hxc].
                ** split; [exact Hgt|]. rewrite H1c. discriminate.
                ** destruct (P3 Hxc) as [P4 P5]. split; [lia|]. rewrite H1o by exact Hxc. exact P5.
             ++ split; [exact Hnx|]. split; [apply reach_refl|]. intros H; exfalso; apply H; reflexivity.
          -- intros y r' Hy Hyp E.
             assert (Hyp' : ~ In y path) by (intros H; apply Hyp, in_or_app; left; exact H).
             assert (Hyc : y <> cur) by (intros ->; apply Hyp'; exact Hin).
             rewrite (H1o y Hyc) in E.
             destruct (HQ y r' Hy Hyp' E) as [(G1 & G2 & G3 & G4) G5].
             assert (Hrc : r' <> cur) by (intros ->; apply G5; exact Hin).
             split.
             ++ split; [exact G1|]. split; [exact G2|]. split; [|exact G4]. rewrite H1o by exact Hrc. exact G3.
             ++ intros Hx. apply in_app_or in Hx. destruct Hx as [Hx|[<-|[]]]; [apply G5; exact Hx|].
                rewrite HnxN in G3. discriminate.
        * pose proof (count_none_upd R cur nx ltac:(lia) HN) as Hcn. fold R1 in Hcn. lia.
        * exists R'. split; [exact E'|]. split; [exact I'|].
          intros y Hy Hlab. apply L'; [exact Hy|].
          destruct Hlab as [Hlab|Hlab]; [|right; apply in_or_app; left; exact Hlab].
          destruct (Nat.eq_dec y cur) as [->|Hyc]; [right; apply in_or_app; left; exact Hin|].
          left. rewrite H1o by exact Hyc. exact Hlab.
  Qed.


  Lemma oget_repeat_none m y : oget (repeat None m) y = None.
  Proof.
    unfold oget. revert y. induction m as [|m IH]; intros [|y]; cbn; try reflexivity. apply IH.
  Qed.

  Lemma InvO_init : InvO (repeat None n).
  Proof. split; [apply repeat_length|]. intros y r _ H. rewrite oget_repeat_none in H. discriminate. Qed.

  Lemma fit_step_inv R i : i < n -> InvO R -> (forall y, y < i -> oget R y <> None) ->
    exists R', fit_step n next (Some R) i = Some R' /\ InvO R' /\ forall y, y < S i -> oget R' y <> None.
  Proof.
    intros Hi [HL HI] Hlab. cbn [fit_step]. destruct (oget R i) as [r|] eqn:Ei.
    - exists R. split; [reflexivity|]. split; [split; assumption|].
      intros y Hy. destruct (Nat.eq_dec y i) as [->|Hn]; [rewrite Ei; discriminate|apply Hlab; lia].
    - destruct (ascend_inv n i [i] R) as (R' & E & I & L).
      + split; [exact HL|]. split; [exact Hi|]. split; [exact Ei|]. split; [left; reflexivity|]. split.
        * intros x [<-|[]]. split; [exact Hi|]. split; [apply reach_refl|]. intros H; exfalso; apply H; reflexivity.
        * intros y r Hy Hyp E. split; [apply HI; assumption|].
          intros [<-|[]]. destruct (HI y i Hy E) as (_ & _ & G & _). rewrite Ei in G. discriminate.
      + rewrite <- HL. apply count_none_le.
      + exists R'. split; [exact E|]. split; [exact I|].
        intros y Hy. apply L; [lia|].
        destruct (Nat.eq_dec y i) as [->|Hn]; [right; left; reflexivity|left; apply Hlab; lia].
  Qed.

  Lemma fit_fold_inv len : forall a R, a + len <= n -> InvO R -> (forall y, y < a -> oget R y <> None) ->
    exists R', fold_left (fit_step n next) (seq a len) (Some R) = Some R' /\ InvO R' /\
               forall y, y < a + len -> oget R' y <> None.
  Proof.
    induction len as [|len IH]; intros a R Ha I L.
    - exists R. split; [reflexivity|]. split; [exact I|]. intros y Hy. apply L. lia.
    - cbn [seq fold_left].
      destruct (fit_step_inv R a ltac:(lia) I L) as (R1 & E1 & I1 & L1). rewrite E1.
      destruct (IH (S a) R1 ltac:(lia) I1 L1) as (R' & E' & I' & L').
      exists R'. split; [exact E'|]. split; [exact I'|]. intros y Hy. apply L'. lia.
  Qed.

  (* every point is labelled with the fixed point of [next] reached from it *)
  Theorem fit_with_spec :
    exists R, fit_with n next = Some R /\ length R = n /\
      forall i, i < n -> exists r, oget R i = Some r /\ r < n /\ next r = r /\ oget R r = Some r /\ reach i r.
  Proof.
    destruct (fit_fold_inv n 0 (repeat None n) ltac:(lia) InvO_init) as (R & E & [HL HI] & L).
    { intros y Hy. lia. }
    exists R. split; [exact E|]. split; [exact HL|].
    intros i Hi. destruct (oget R i) as [r|] eqn:Er; [|exfalso; apply (L i ltac:(lia)); exact Er].
    exists r. destruct (HI i r Hi Er) as (G1 & G2 & G3 & G4). repeat split; assumption.
  Qed.
End Fit.

(* two successor functions that agree below n give the same labels *)
Lemma fit_with_ext n next next' w :
  (forall i, i < n -> next i < n) ->
  (forall i, i < n -> next i = i \/ (wt w i < wt w (next i))%Z) ->
  (forall i, i < n -> next' i = next i) ->
  fit_with n next' = fit_with n next.
Proof.
  intros H1 H2 E.
  assert (H1' : forall i, i < n -> next' i < n) by (intros i Hi; rewrite E by exact Hi; apply H1; exact Hi).
  assert (H2' : forall i, i < n -> next' i = i \/ (wt w i < wt w (next' i))%Z)
    by (intros i Hi; rewrite E by exact Hi; apply H2; exact Hi).
  destruct (fit_with_spec n next w H1 H2) as (R & ER & LR & SR).
  destruct (fit_with_spec n next' w H1' H2') as (R' & ER' & LR' & SR').
  rewrite ER, ER'. f_equal.
  apply (nth_ext R' R None None); [congruence|]. intros i Hi. rewrite LR' in Hi.
  destruct (SR i Hi) as (r & A1 & A2 & A3 & A4 & A5).
  destruct (SR' i Hi) as (r' & B1 & B2 & B3 & B4 & B5).
  fold (oget R' i). fold (oget R i). rewrite A1, B1. f_equal.
  (* iterates of next' from i stay below n and coincide with those of next *)
  assert (K : forall k, Nat.iter k next' i < n /\ Nat.iter k next' i = Nat.iter k next i).
  { induction k as [|k [IH1 IH2]]; [split; [exact Hi|reflexivity]|].
    cbn [Nat.iter]. change (next' (Nat.iter k next' i) < n /\ next' (Nat.iter k next' i) = next (Nat.iter k next i)).
    split; [apply H1'; exact IH1|]. rewrite E by exact IH1. rewrite IH2. reflexivity. }
  apply (limit_unique next i r' r).
  - destruct B5 as [k ->]. exists k. apply K.
  - rewrite <- E by exact B2. exact B3.
  - exact A5.
  - exact A3.
Qed.

(* ------------------------------------------------------------------ extended integers *)
Definition ext_le (a b : ExtZ) : Prop := ext_lt b a = false.

Lemma ext_lt_min2 a b c : ext_lt a (ext_min2 b c) = ext_lt a b && ext_lt a c.
Proof.
  destruct a as [x|], b as [y|], c as [z|]; cbn; try reflexivity.
  - destruct (Z.min_spec y z) as [[H ->]|[H ->]]; destruct (x <? y)%Z eqn:E1, (x <? z)%Z eqn:E2; try reflexivity;
      rewrite ?Z.ltb_lt, ?Z.ltb_ge in *; lia.
  - now rewrite andb_true_r.
Qed.

Lemma ext_lt_some_l a b : ext_lt a b = true -> exists x, a = Some x.
Proof. destruct a as [x|]; [eexists; reflexivity|discriminate]. Qed.

(* ------------------------------------------------------------------ the scan *)
Section Scan.
  Variable D : list (list ExtZ).
  Variable w : list Z.
  Variable idx : nat.
  Variable bound : ExtZ.
  Variable allowed : nat -> bool.
  Variable init : nat.

  Definition admb (j : nat) : bool :=
    (wt w idx <? wt w j)%Z && ext_lt (dget D idx j) bound && allowed j.

  Definition scan_inv (m : nat) (st : nat * ExtZ) : Prop :=
    (snd st = None /\ fst st = init /\ forall j, j < m -> admb j = false) \/
    (exists d, snd st = Some d /\ fst st < m /\ admb (fst st) = true /\ dget D idx (fst st) = Some d /\
       forall j, j < m -> admb j = true ->
         exists dj, dget D idx j = Some dj /\ ((d < dj)%Z \/ (d = dj /\ fst st <= j))).

  Lemma scan_step_cond st j :
    scan_step D w idx bound allowed st j =
    if admb j && ext_lt (dget D idx j) (snd st) then (j, dget D idx j) else st.
  Proof.
    unfold scan_step, admb. rewrite ext_lt_min2.
    destruct (wt w idx <? wt w j)%Z, (ext_lt (dget D idx j) (snd st)), (ext_lt (dget D idx j) bound), (allowed j);
      reflexivity.
  Qed.

  Lemma admb_finite j : admb j = true -> exists dj, dget D idx j = Some dj.
  Proof.
    unfold admb. intros H. apply andb_prop in H. destruct H as [H _]. apply andb_prop in H.
    destruct H as [_ H]. apply ext_lt_some_l in H. exact H.
  Qed.

  Lemma scan_inv_step m st : scan_inv m st -> scan_inv (S m) (scan_step D w idx bound allowed st m).
  Proof.
    intros H. rewrite scan_step_cond. destruct (admb m) eqn:Am.
    - destruct (admb_finite m Am) as [dm Edm]. rewrite Edm. cbn [andb].
      destruct H as [(H1 & H2 & H3)|(d & H1 & H2 & H3 & H4 & H5)].
      + rewrite H1. cbn [ext_lt]. right. exists dm. cbn [fst snd].
        split; [reflexivity|]. split; [lia|]. split; [exact Am|]. split; [exact Edm|].
        intros j Hj Aj. assert (j = m) as ->.
        { destruct (Nat.eq_dec j m) as [e|ne]; [exact e|]. rewrite H3 in Aj by lia. discriminate. }
        exists dm. split; [exact Edm|]. right. split; [reflexivity|lia].
      + rewrite H1. cbn [ext_lt]. destruct (dm <? d)%Z eqn:Elt.
        * apply Z.ltb_lt in Elt. right. exists dm. cbn [fst snd].
          split; [reflexivity|]. split; [lia|]. split; [exact Am|]. split; [exact Edm|].
          intros j Hj Aj. destruct (Nat.eq_dec j m) as [->|ne].
          -- exists dm. split; [exact Edm|]. right. split; [reflexivity|lia].
          -- destruct (H5 j ltac:(lia) Aj) as (dj & E1 & E2). exists dj. split; [exact E1|]. left. lia.
        * apply Z.ltb_ge in Elt. right. exists d.
          split; [exact H1|]. split; [lia|]. split; [exact H3|]. split; [exact H4|].
          intros j Hj Aj. destruct (Nat.eq_dec j m) as [->|ne].
          -- exists dm. split; [exact Edm|]. destruct (Z.eq_dec d dm) as [e|ne']; [right; split; [exact e|lia]|left; lia].
          -- apply H5; [lia|exact Aj].
    - cbn [andb]. destruct H as [(H1 & H2 & H3)|(d & H1 & H2 & H3 & H4 & H5)].
      + left. split; [exact H1|]. split; [exact H2|].
        intros j Hj. destruct (Nat.eq_dec j m) as [->|ne]; [exact Am|apply H3; lia].
      + right. exists d. split; [exact H1|]. split; [lia|]. split; [exact H3|]. split; [exact H4|].
        intros j Hj Aj. destruct (Nat.eq_dec j m) as [->|ne]; [congruence|apply H5; [lia|exact Aj]].
  Qed.

  Lemma scan_inv_all m : scan_inv m (fold_left (scan_step D w idx bound allowed) (seq 0 m) (init, None)).
  Proof.
    induction m as [|m IH].
    - left. cbn. repeat split. intros j Hj. lia.
    - rewrite seq_S, fold_left_app. cbn [fold_left plus]. apply scan_inv_step. exact IH.
  Qed.

  Definition adm (j : nat) : Prop := j < length w /\ admb j = true.

  (* the scan returns [init] if no point is admissible, otherwise the first nearest admissible point *)
  Lemma scan_spec :
    let nx := scan D w idx bound allowed init in
    ((forall j, j < length w -> admb j = false) -> nx = init) /\
    ((exists j, adm j) ->
       adm nx /\ forall j, adm j -> ext_le (dget D idx nx) (dget D idx j) /\
                                   (dget D idx j = dget D idx nx -> nx <= j)).
  Proof.
    cbv zeta. unfold scan. pose proof (scan_inv_all (length w)) as H.
    set (st := fold_left _ _ _) in *. split.
    - intros Hno. destruct H as [(_ & H2 & _)|(d & _ & H2 & H3 & _)]; [exact H2|].
      rewrite Hno in H3 by exact H2. discriminate.
    - intros [j0 [Hj0 Aj0]]. destruct H as [(_ & _ & H3)|(d & H1 & H2 & H3 & H4 & H5)].
      + rewrite H3 in Aj0 by exact Hj0. discriminate.
      + split; [split; assumption|]. intros j [Hj Aj].
        destruct (H5 j Hj Aj) as (dj & E1 & E2). rewrite E1, H4. unfold ext_le. cbn [ext_lt]. split.
        * apply Z.ltb_ge. lia.
        * intros E. injection E as E. destruct E2 as [E2|[_ E2]]; [lia|exact E2].
  Qed.

  Lemma scan_range : init < length w -> scan D w idx bound allowed init < length w.
  Proof.
    intros Hi. unfold scan. pose proof (scan_inv_all (length w)) as H.
    destruct H as [(_ & H2 & _)|(d & _ & H2 & _)]; [rewrite H2; exact Hi|exact H2].
  Qed.

  Lemma scan_weight :
    let nx := scan D w idx bound allowed init in nx = init \/ (wt w idx < wt w nx)%Z.
  Proof.
    cbv zeta. unfold scan. pose proof (scan_inv_all (length w)) as H.
    destruct H as [(_ & H2 & _)|(d & _ & _ & H3 & _)]; [left; exact H2|right].
    unfold admb in H3. apply andb_prop in H3. destruct H3 as [H3 _]. apply andb_prop in H3.
    destruct H3 as [H3 _]. apply Z.ltb_lt. exact H3.
  Qed.
End Scan.

(* ------------------------------------------------------------------ np.argmin of a row *)
Lemma ext_lt_irrefl a : ext_lt a a = false.
Proof. destruct a as [x|]; cbn; [apply Z.ltb_irrefl|reflexivity]. Qed.
Lemma ext_lt_le_trans a b c : ext_lt a b = true -> ext_lt c b = false -> ext_lt a c = true.
Proof.
  destruct a as [x|], b as [y|], c as [z|]; cbn; try congruence; rewrite ?Z.ltb_lt, ?Z.ltb_ge; try lia; auto.
Qed.
Lemma ext_le_trans a b c : ext_lt b a = false -> ext_lt c b = false -> ext_lt c a = false.
Proof.
  destruct a as [x|], b as [y|], c as [z|]; cbn; try congruence; rewrite ?Z.ltb_lt, ?Z.ltb_ge; try lia; auto.
Qed.
Lemma ext_lt_le a b : ext_lt a b = true -> ext_lt b a = false.
Proof. destruct a as [x|], b as [y|]; cbn; try congruence; rewrite ?Z.ltb_lt, ?Z.ltb_ge; try lia; auto. Qed.

Section Argmin.
  Variable row : list ExtZ.
  Let rget (j : nat) : ExtZ := nth j row None.
  Let step (st : nat * ExtZ) (j : nat) : nat * ExtZ :=
    if ext_lt (nth j row None) (snd st) then (j, nth j row None) else st.

  Definition amin_inv (m : nat) (st : nat * ExtZ) : Prop :=
    snd st = rget (fst st) /\ fst st <= m /\
    forall j, j <= m -> ext_le (snd st) (rget j) /\ (j < fst st -> ext_lt (snd st) (rget j) = true).

  Lemma amin_inv_all m : amin_inv m (fold_left step (seq 1 m) (O, nth O row None)).
  Proof.
    induction m as [|m IH].
    - unfold amin_inv. cbn [fold_left seq fst snd]. split; [reflexivity|]. split; [lia|]. intros j Hj. assert (j = 0) as -> by lia.
      split; [apply ext_lt_irrefl|lia].
    - rewrite seq_S, fold_left_app. cbn [fold_left plus].
      set (st := fold_left step (seq 1 m) (O, nth O row None)) in *.
      destruct IH as (I1 & I2 & I3).
      assert (Est : step st (S m) = if ext_lt (rget (S m)) (snd st) then (S m, rget (S m)) else st) by reflexivity.
      rewrite Est. destruct (ext_lt (rget (S m)) (snd st)) eqn:E; unfold amin_inv; cbn [fst snd].
      + split; [reflexivity|]. split; [lia|]. intros j Hj. destruct (Nat.eq_dec j (S m)) as [->|ne].
        * split; [apply ext_lt_irrefl|lia].
        * destruct (I3 j ltac:(lia)) as [I4 _]. split.
          -- unfold ext_le in *. eapply ext_le_trans; [|exact I4]. apply ext_lt_le. exact E.
          -- intros _. eapply ext_lt_le_trans; [exact E|exact I4].
      + split; [exact I1|]. split; [lia|]. intros j Hj. destruct (Nat.eq_dec j (S m)) as [->|ne].
        * split; [exact E|lia].
        * apply I3. lia.
  Qed.

  (* first index of the row minimum *)
  Lemma argmin_row_spec : row <> [] ->
    let nn := argmin_row row in
    nn < length row /\
    forall j, j < length row -> ext_le (rget nn) (rget j) /\ (j < nn -> ext_lt (rget nn) (rget j) = true).
  Proof.
    intros Hne. cbv zeta. unfold argmin_row. pose proof (amin_inv_all (length row - 1)) as H.
    fold step. set (st := fold_left step _ _) in *. destruct H as (I1 & I2 & I3).
    assert (0 < length row) by (destruct row; [congruence|cbn; lia]).
    split; [lia|]. intros j Hj. rewrite <- I1. apply I3. lia.
  Qed.
End Argmin.

(* ------------------------------------------------------------------ the two rules *)
Definition sq_mat {A} (n : nat) (M : list (list A)) : Prop :=
  length M = n /\ Forall (fun r => length r = n) M.

Lemma sq_mat_row {A} n (M : list (list A)) c : sq_mat n M -> c < n -> length (nth c M []) = n.
Proof.
  intros [HL HF] Hc. rewrite Forall_forall in HF. apply HF. apply nth_In. lia.
Qed.

Lemma argmin_lt n D c : sq_mat n D -> c < n -> argmin_row (nth c D []) < n.
Proof.
  intros HD Hc. pose proof (sq_mat_row n D c HD Hc) as HL.
  assert (Hne : nth c D [] <> []) by (intros E; rewrite E in HL; cbn in HL; lia).
  destruct (argmin_row_spec (nth c D []) Hne) as [H _]. lia.
Qed.

Section Rules.
  Variable n : nat.
  Variable D : list (list ExtZ).
  Variable w : list Z.
  Hypothesis HD : sq_mat n D.
  Hypothesis Hw : length w = n.

  (* ---- cut-off rule *)
  Variable cut : list Z.
  Definition adm_cut (c j : nat) : Prop :=
    j < n /\ (wt w c < wt w j)%Z /\ ext_lt (dget D c j) (Some (nth c cut 0%Z)) = true.

  Lemma adm_cut_iff c j :
    adm_cut c j <-> adm D w c (Some (nth c cut 0%Z)) (fun _ => true) j.
  Proof.
    unfold adm_cut, adm, admb. rewrite Hw, andb_true_r, andb_true_iff, Z.ltb_lt. tauto.
  Qed.

  Lemma next_cut_lt c : c < n -> next_cut D w cut c < n.
  Proof.
    intros Hc. unfold next_cut, qs_next.
    match goal with |- scan ?D' ?w' ?c' ?b ?a ?i < _ => pose proof (scan_range D' w' c' b a i) as H end.
    rewrite Hw in H. apply H. destruct (_ <? _)%Z; [apply argmin_lt; assumption|exact Hc].
  Qed.

  Lemma next_cut_up c : next_cut D w cut c = c \/ (wt w c < wt w (next_cut D w cut c))%Z.
  Proof.
    unfold next_cut, qs_next.
    set (nn := argmin_row (nth c D [])).
    destruct (scan_weight D w c (Some (nth c cut 0%Z)) (fun _ => true)
                          (if (wt w c <? wt w nn)%Z then nn else c)) as [E|E]; [|right; exact E].
    rewrite E. destruct (wt w c <? wt w nn)%Z eqn:L; [right; apply Z.ltb_lt; exact L|left; reflexivity].
  Qed.

  Theorem next_cut_spec c :
    let nn := argmin_row (nth c D []) in
    let nx := next_cut D w cut c in
    ((exists j, adm_cut c j) ->
       adm_cut c nx /\ forall j, adm_cut c j -> ext_le (dget D c nx) (dget D c j) /\
                                                (dget D c j = dget D c nx -> nx <= j)) /\
    ((forall j, ~ adm_cut c j) -> nx = if (wt w c <? wt w nn)%Z then nn else c).
  Proof.
    cbv zeta. unfold next_cut, qs_next. set (nn := argmin_row (nth c D [])).
    set (init := if (wt w c <? wt w nn)%Z then nn else c).
    destruct (scan_spec D w c (Some (nth c cut 0%Z)) (fun _ => true) init) as [S1 S2]. split.
    - intros [j Hj]. destruct S2 as [A B]; [exists j; apply adm_cut_iff; exact Hj|].
      split; [apply adm_cut_iff; exact A|]. intros j' Hj'. apply B. apply adm_cut_iff. exact Hj'.
    - intros Hno. apply S1. intros j Hj.
      destruct (admb D w c (Some (nth c cut 0%Z)) (fun _ => true) j) eqn:E; [|reflexivity].
      exfalso. apply (Hno j). apply adm_cut_iff. split; assumption.
  Qed.

  Theorem centre_spec_cut c :
    next_cut D w cut c = c <->
    (forall j, ~ adm_cut c j) /\ ~ (wt w c < wt w (argmin_row (nth c D [])))%Z.
  Proof.
    destruct (next_cut_spec c) as [S1 S2]. cbv zeta in *. split.
    - intros E. assert (Hno : forall j, ~ adm_cut c j).
      { intros j Hj. destruct S1 as [(_ & A & _) _]; [exists j; exact Hj|]. rewrite E in A. lia. }
      split; [exact Hno|]. specialize (S2 Hno). rewrite E in S2.
      destruct (_ <? _)%Z eqn:L; [|apply Z.ltb_ge in L; lia].
      apply Z.ltb_lt in L. rewrite <- S2 in L. lia.
    - intros [Hno Hnn]. rewrite (S2 Hno). destruct (_ <? _)%Z eqn:L; [|reflexivity].
      apply Z.ltb_lt in L. contradiction.
  Qed.

  (* ---- Gabriel rule *)
  Variable shell : nat.
  Definition in_shell (c j : nat) : bool := nth j (shell_set (gabriel D) shell c) false.
  Definition adm_gab (c j : nat) : Prop :=
    j < n /\ (wt w c < wt w j)%Z /\ ext_lt (dget D c j) None = true /\ in_shell c j = true.

  Lemma adm_gab_iff c j : adm_gab c j <-> adm D w c None (in_shell c) j.
  Proof.
    unfold adm_gab, adm, admb. rewrite Hw, !andb_true_iff, Z.ltb_lt. tauto.
  Qed.

  Lemma next_gab_lt c : c < n -> next_gab D w shell c < n.
  Proof.
    intros Hc. unfold next_gab, gs_next.
    match goal with |- scan ?D' ?w' ?c' ?b ?a ?i < _ => pose proof (scan_range D' w' c' b a i) as H end.
    rewrite Hw in H. apply H. exact Hc.
  Qed.

  Lemma next_gab_up c : next_gab D w shell c = c \/ (wt w c < wt w (next_gab D w shell c))%Z.
  Proof. unfold next_gab, gs_next. apply scan_weight. Qed.

  Theorem next_gab_spec c :
    let nx := next_gab D w shell c in
    ((exists j, adm_gab c j) ->
       adm_gab c nx /\ forall j, adm_gab c j -> ext_le (dget D c nx) (dget D c j) /\
                                                (dget D c j = dget D c nx -> nx <= j)) /\
    ((forall j, ~ adm_gab c j) -> nx = c).
  Proof.
    cbv zeta. unfold next_gab, gs_next. fold (in_shell c).
    destruct (scan_spec D w c None (in_shell c) c) as [S1 S2]. split.
    - intros [j Hj]. destruct S2 as [A B]; [exists j; apply adm_gab_iff; exact Hj|].
      split; [apply adm_gab_iff; exact A|]. intros j' Hj'. apply B. apply adm_gab_iff. exact Hj'.
    - intros Hno. apply S1. intros j Hj.
      destruct (admb D w c None (in_shell c) j) eqn:E; [|reflexivity].
      exfalso. apply (Hno j). apply adm_gab_iff. split; assumption.
  Qed.

  Theorem centre_spec_gab c : next_gab D w shell c = c <-> forall j, ~ adm_gab c j.
  Proof.
    destruct (next_gab_spec c) as [S1 S2]. cbv zeta in *. split.
    - intros E j Hj. destruct S1 as [(_ & A & _) _]; [exists j; exact Hj|]. rewrite E in A. lia.
    - exact S2.
  Qed.

  (* ---- a point of maximal weight is a centre under either rule *)
  Lemma max_weight_next c : c < n -> (forall j, j < n -> (wt w j <= wt w c)%Z) ->
    next_cut D w cut c = c /\ next_gab D w shell c = c.
  Proof.
    intros Hc Hmax. split.
    - apply centre_spec_cut. split.
      + intros j (Hj & Hlt & _). specialize (Hmax j Hj). lia.
      + specialize (Hmax _ (argmin_lt n D c HD Hc)). lia.
    - apply centre_spec_gab. intros j (Hj & Hlt & _). specialize (Hmax j Hj). lia.
  Qed.

  (* ---- the fits *)
  Theorem fit_cut_spec :
    exists R, fit_cut D w cut = Some R /\ length R = n /\
      forall i, i < n -> exists r, oget R i = Some r /\ r < n /\ next_cut D w cut r = r /\
                                   oget R r = Some r /\ reach (next_cut D w cut) i r.
  Proof.
    unfold fit_cut. destruct HD as [HL _]. rewrite HL.
    apply (fit_with_spec n (next_cut D w cut) w next_cut_lt). intros i _. apply next_cut_up.
  Qed.

  Theorem fit_gab_spec :
    exists R, fit_gab D w shell = Some R /\ length R = n /\
      forall i, i < n -> exists r, oget R i = Some r /\ r < n /\ next_gab D w shell r = r /\
                                   oget R r = Some r /\ reach (next_gab D w shell) i r.
  Proof.
    unfold fit_gab. destruct HD as [HL _]. rewrite HL.
    apply (fit_with_spec n (next_gab D w shell) w next_gab_lt). intros i _. apply next_gab_up.
  Qed.
End Rules.

(* ------------------------------------------------------------------ weights enter only through < *)
Lemma fold_left_ext_in {A B} (f g : A -> B -> A) l s :
  (forall a b, In b l -> f a b = g a b) -> fold_left f l s = fold_left g l s.
Proof.
  revert s. induction l as [|b l IH]; intros s H; [reflexivity|]. cbn.
  rewrite (H s b) by (left; reflexivity). apply IH. intros a b' Hb. apply H. right. exact Hb.
Qed.

Lemma wt_map f w j : j < length w -> wt (map f w) j = f (wt w j).
Proof.
  intros Hj. unfold wt. rewrite (nth_indep (map f w) 0%Z (f 0%Z)) by (rewrite map_length; exact Hj).
  apply map_nth.
Qed.

Section Remap.
  Variable f : Z -> Z.
  Hypothesis f_mono : forall a b, (a < b)%Z <-> (f a < f b)%Z.

  Lemma f_ltb a b : (f a <? f b)%Z = (a <? b)%Z.
  Proof.
    destruct (a <? b)%Z eqn:E.
    - apply Z.ltb_lt. apply (proj1 (f_mono a b)). apply Z.ltb_lt. exact E.
    - apply Z.ltb_ge. apply Z.ltb_ge in E. destruct (Z.eq_dec a b) as [->|ne]; [lia|].
      assert (L : (b < a)%Z) by lia. apply (proj1 (f_mono b a)) in L. lia.
  Qed.

  Lemma scan_remap D w idx bound allowed init : idx < length w ->
    scan D (map f w) idx bound allowed init = scan D w idx bound allowed init.
  Proof.
    intros Hi. unfold scan. rewrite map_length. f_equal. apply fold_left_ext_in.
    intros st j Hj. apply in_seq in Hj. unfold scan_step.
    rewrite !wt_map by lia. rewrite f_ltb. reflexivity.
  Qed.

  Lemma next_cut_remap n D w cut c : sq_mat n D -> length w = n -> c < n ->
    next_cut D (map f w) cut c = next_cut D w cut c.
  Proof.
    intros HD Hw Hc. unfold next_cut, qs_next. rewrite scan_remap by lia.
    pose proof (argmin_lt n D c HD Hc) as Hn.
    rewrite !wt_map by lia. rewrite f_ltb. reflexivity.
  Qed.

  Lemma next_gab_remap n D w shell c : length w = n -> c < n ->
    next_gab D (map f w) shell c = next_gab D w shell c.
  Proof. intros Hw Hc. unfold next_gab, gs_next. apply scan_remap. lia. Qed.

  Theorem fit_cut_remap n D w cut : sq_mat n D -> length w = n ->
    fit_cut D (map f w) cut = fit_cut D w cut.
  Proof.
    intros HD Hw. unfold fit_cut. destruct HD as [HL HF]. rewrite HL.
    apply (fit_with_ext n (next_cut D w cut) _ w).
    - apply next_cut_lt; [split|]; assumption.
    - intros i _. apply next_cut_up.
    - intros i Hi. apply (next_cut_remap n); [split| |]; assumption.
  Qed.

  Theorem fit_gab_remap n D w shell : sq_mat n D -> length w = n ->
    fit_gab D (map f w) shell = fit_gab D w shell.
  Proof.
    intros HD Hw. unfold fit_gab. destruct HD as [HL HF]. rewrite HL.
    apply (fit_with_ext n (next_gab D w shell) _ w).
    - apply next_gab_lt. exact Hw.
    - intros i _. apply next_gab_up.
    - intros i Hi. apply (next_gab_remap n); assumption.
  Qed.
End Remap.

(* ------------------------------------------------------------------ the Gabriel graph *)
Lemma Forall_upd_nth {A} (P : A -> Prop) i x l : Forall P l -> P x -> Forall P (upd_nth i x l).
Proof.
  intros H Hx. revert i. induction H as [|a l Ha Hl IH]; intros [|i]; cbn; constructor; auto.
Qed.

Lemma sq_mat_set2 n (G : list (list bool)) i j v : sq_mat n G -> i < n -> sq_mat n (set2 G i j v).
Proof.
  intros [HL HF] Hi. unfold set2. split; [rewrite upd_nth_length; exact HL|].
  apply Forall_upd_nth; [exact HF|]. rewrite upd_nth_length. apply (sq_mat_row n G i); [split; assumption|exact Hi].
Qed.

Lemma bget_set2 n (G : list (list bool)) i j v a b : sq_mat n G -> i < n -> j < n ->
  bget (set2 G i j v) a b = if (a =? i) && (b =? j) then v else bget G a b.
Proof.
  intros HG Hi Hj. unfold bget, set2. destruct (Nat.eqb_spec a i) as [->|Hai].
  - rewrite nth_upd_nth_eq by (destruct HG; lia). destruct (Nat.eqb_spec b j) as [->|Hbj]; cbn [andb].
    + apply nth_upd_nth_eq. rewrite (sq_mat_row n G i HG Hi). exact Hj.
    + apply nth_upd_nth_neq. congruence.
  - cbn [andb]. rewrite nth_upd_nth_neq by congruence. reflexivity.
Qed.

Definition hit (i a b j : nat) : bool := (a =? i) && (b =? j) || (a =? j) && (b =? i).

Lemma gab_inner_spec n (c : nat -> bool) i : i < n -> forall l G,
  (forall j, In j l -> j < n) -> sq_mat n G ->
  let G' := fold_left (fun G j => if c j then set2 (set2 G i j false) j i false else G) l G in
  sq_mat n G' /\
  forall a b, bget G' a b = bget G a b && negb (existsb (fun j => c j && hit i a b j) l).
Proof.
  intros Hi. induction l as [|j l IH]; intros G Hl HG; cbv zeta.
  - cbn. split; [exact HG|]. intros a b. now rewrite andb_true_r.
  - cbn [fold_left existsb]. assert (Hj : j < n) by (apply Hl; left; reflexivity).
    assert (Hl' : forall j', In j' l -> j' < n) by (intros j' H; apply Hl; right; exact H).
    destruct (c j) eqn:Ec.
    + assert (HG1 : sq_mat n (set2 G i j false)) by (apply sq_mat_set2; assumption).
      assert (HG2 : sq_mat n (set2 (set2 G i j false) j i false)) by (apply sq_mat_set2; assumption).
      destruct (IH _ Hl' HG2) as [S1 S2]. split; [exact S1|].
      intros a b. rewrite S2. rewrite (bget_set2 n _ j i false a b HG1 Hj Hi).
      rewrite (bget_set2 n _ i j false a b HG Hi Hj). unfold hit at 2. cbn [andb].
      destruct ((a =? i) && (b =? j)), ((a =? j) && (b =? i)); cbn; try reflexivity;
        now rewrite ?andb_false_r.
    + destruct (IH _ Hl' HG) as [S1 S2]. split; [exact S1|]. intros a b. rewrite S2. reflexivity.
Qed.

Definition rowhit (D : list (list ExtZ)) (n a b i : nat) : bool :=
  (a =? i) && (b =? i) || existsb (fun j => gab_cond D n i j && hit i a b j) (seq i (n - i)).

Lemma gab_outer_spec D n : forall l G,
  (forall i, In i l -> i < n) -> sq_mat n G ->
  let G' := fold_left (fun G i => gab_inner D n i (set2 G i i false)) l G in
  sq_mat n G' /\ forall a b, bget G' a b = bget G a b && negb (existsb (rowhit D n a b) l).
Proof.
  induction l as [|i l IH]; intros G Hl HG; cbv zeta.
  - cbn. split; [exact HG|]. intros a b. now rewrite andb_true_r.
  - cbn [fold_left existsb]. assert (Hi : i < n) by (apply Hl; left; reflexivity).
    assert (Hl' : forall i', In i' l -> i' < n) by (intros i' H; apply Hl; right; exact H).
    assert (HG1 : sq_mat n (set2 G i i false)) by (apply sq_mat_set2; assumption).
    destruct (gab_inner_spec n (gab_cond D n i) i Hi (seq i (n - i)) (set2 G i i false)) as [T1 T2];
      [intros j Hj; apply in_seq in Hj; lia|exact HG1|].
    fold (gab_inner D n i (set2 G i i false)) in T1, T2.
    destruct (IH _ Hl' T1) as [S1 S2]. split; [exact S1|].
    intros a b. rewrite S2, T2. rewrite (bget_set2 n G i i false a b HG Hi Hi). unfold rowhit at 2.
    destruct ((a =? i) && (b =? i)); cbn [orb negb]; [now rewrite ?andb_false_r|].
    destruct (bget G a b), (existsb _ (seq i (n - i))), (existsb (rowhit D n a b) l); reflexivity.
Qed.

Lemma bget_full n a b : a < n -> b < n -> bget (repeat (repeat true n) n) a b = true.
Proof.
  intros Ha Hb. unfold bget.
  rewrite (nth_indep _ [] (repeat true n)) by (rewrite repeat_length; exact Ha).
  rewrite nth_repeat. rewrite (nth_indep _ false true) by (rewrite repeat_length; exact Hb).
  apply nth_repeat.
Qed.

Lemma sq_mat_full n : sq_mat n (repeat (repeat true n) n).
Proof.
  split; [apply repeat_length|]. apply Forall_forall. intros r Hr. apply repeat_spec in Hr. subst.
  apply repeat_length.
Qed.

Theorem gabriel_spec n D a b : length D = n -> a < n -> b < n ->
  (bget (gabriel D) a b = true <-> a <> b /\ gab_cond D n (Nat.min a b) (Nat.max a b) = false).
Proof.
  intros HL Ha Hb. unfold gabriel. rewrite HL.
  destruct (gab_outer_spec D n (seq 0 n) (repeat (repeat true n) n)) as [_ S];
    [intros i Hi; apply in_seq in Hi; lia|apply sq_mat_full|].
  cbv zeta in S. rewrite S, bget_full by assumption. cbn [andb].
  rewrite negb_true_iff. split.
  - intros H. assert (Hn : forall i, i < n -> rowhit D n a b i = false).
    { intros i Hi. destruct (rowhit D n a b i) eqn:E; [|reflexivity].
      assert (existsb (rowhit D n a b) (seq 0 n) = true)
        by (apply existsb_exists; exists i; split; [apply in_seq; lia|exact E]). congruence. }
    assert (Hab : a <> b).
    { intros ->. specialize (Hn b Hb). unfold rowhit in Hn. rewrite Nat.eqb_refl in Hn. discriminate. }
    split; [exact Hab|].
    destruct (gab_cond D n (Nat.min a b) (Nat.max a b)) eqn:Ec; [|reflexivity]. exfalso.
    specialize (Hn (Nat.min a b) ltac:(lia)). unfold rowhit in Hn. apply orb_false_elim in Hn.
    destruct Hn as [_ Hn].
    assert (existsb (fun j => gab_cond D n (Nat.min a b) j && hit (Nat.min a b) a b j)
                    (seq (Nat.min a b) (n - Nat.min a b)) = true); [|congruence].
    apply existsb_exists. exists (Nat.max a b). split; [apply in_seq; lia|].
    rewrite Ec. cbn [andb]. unfold hit.
    destruct (Nat.le_ge_cases a b) as [L|L].
    + rewrite Nat.min_l, Nat.max_r by lia. rewrite !Nat.eqb_refl. reflexivity.
    + rewrite Nat.min_r, Nat.max_l by lia. rewrite !Nat.eqb_refl. cbn. apply orb_true_r.
  - intros [Hab Hc]. destruct (existsb (rowhit D n a b) (seq 0 n)) eqn:E; [|reflexivity]. exfalso.
    apply existsb_exists in E. destruct E as (i & Hi & E). apply in_seq in Hi. unfold rowhit in E.
    apply orb_prop in E. destruct E as [E|E].
    + apply andb_prop in E. destruct E as [E1 E2]. apply Nat.eqb_eq in E1, E2. lia.
    + apply existsb_exists in E. destruct E as (j & Hj & E). apply in_seq in Hj.
      apply andb_prop in E. destruct E as [E1 E2]. unfold hit in E2. apply orb_prop in E2.
      destruct E2 as [E2|E2]; apply andb_prop in E2; destruct E2 as [E2 E3];
        apply Nat.eqb_eq in E2, E3; subst.
      * rewrite Nat.min_l, Nat.max_r in Hc by lia. congruence.
      * rewrite Nat.min_r, Nat.max_l in Hc by lia. congruence.
Qed.

Lemma ext_add_comm a b : ext_add a b = ext_add b a.
Proof. destruct a, b; cbn; try reflexivity. f_equal. lia. Qed.

Definition dsym (n : nat) (D : list (list ExtZ)) : Prop :=
  forall i j, i < n -> j < n -> dget D i j = dget D j i.

Lemma gab_cond_sym n D a b : dsym n D -> a < n -> b < n -> gab_cond D n a b = gab_cond D n b a.
Proof.
  intros Hs Ha Hb. unfold gab_cond. rewrite (Hs a b Ha Hb).
  assert (E : forall l, existsb (fun k => ext_lt (ext_add (dget D a k) (dget D b k)) (dget D b a)) l =
                        existsb (fun k => ext_lt (ext_add (dget D b k) (dget D a k)) (dget D b a)) l).
  { induction l as [|k l IH]; [reflexivity|]. cbn. rewrite IH, ext_add_comm. reflexivity. }
  apply E.
Qed.

(* the graph built by the double loop is the brute-force Gabriel graph *)
Theorem gabriel_bruteforce n D a b : length D = n -> dsym n D -> a < n -> b < n ->
  (bget (gabriel D) a b = true <->
   a <> b /\ ~ exists k, k < n /\ ext_lt (ext_add (dget D a k) (dget D b k)) (dget D a b) = true).
Proof.
  intros HL Hs Ha Hb. rewrite (gabriel_spec n D a b HL Ha Hb).
  assert (Hc : gab_cond D n (Nat.min a b) (Nat.max a b) = gab_cond D n a b).
  { destruct (Nat.le_ge_cases a b) as [L|L].
    - rewrite Nat.min_l, Nat.max_r by lia. reflexivity.
    - rewrite Nat.min_r, Nat.max_l by lia. apply gab_cond_sym; assumption. }
  rewrite Hc. unfold gab_cond. split; intros [H1 H2]; (split; [exact H1|]).
  - intros (k & Hk & E).
    assert (existsb (fun k => ext_lt (ext_add (dget D a k) (dget D b k)) (dget D a b)) (seq 0 n) = true)
      by (apply existsb_exists; exists k; split; [apply in_seq; lia|exact E]). congruence.
  - destruct (existsb _ (seq 0 n)) eqn:E; [|reflexivity]. exfalso. apply H2.
    apply existsb_exists in E. destruct E as (k & Hk & E). apply in_seq in Hk. exists k. split; [lia|exact E].
Qed.

(* ------------------------------------------------------------------ corollaries in "for every result" form *)
Section Corollaries.
  Variable n : nat.
  Variable next : nat -> nat.
  Variable w : list Z.
  Hypothesis next_lt : forall i, i < n -> next i < n.
  Hypothesis next_up : forall i, i < n -> next i = i \/ (wt w i < wt w (next i))%Z.

  Lemma fit_with_terminates : fit_with n next <> None.
  Proof. destruct (fit_with_spec n next w next_lt next_up) as (R & E & _). congruence. Qed.

  Lemma fit_with_labels R : fit_with n next = Some R ->
    length R = n /\
    forall i, i < n -> exists r, oget R i = Some r /\ r < n /\ next r = r /\ oget R r = Some r /\
                                 exists k, r = Nat.iter k next i.
  Proof.
    intros E. destruct (fit_with_spec n next w next_lt next_up) as (R' & E' & HL & HS).
    rewrite E in E'. injection E' as <-. split; [exact HL|exact HS].
  Qed.

  (* the label is THE fixed point reached by iterating [next] *)
  Lemma fit_with_limit R i r k : fit_with n next = Some R -> i < n ->
    r = Nat.iter k next i -> next r = r -> oget R i = Some r.
  Proof.
    intros E Hi Hr Hf. destruct (fit_with_labels R E) as [_ HS].
    destruct (HS i Hi) as (r' & A1 & _ & A3 & _ & A5). rewrite A1. f_equal.
    apply (limit_unique next i r' r); [exact A5|exact A3|exists k; exact Hr|exact Hf].
  Qed.

  Lemma fit_with_centre R c : fit_with n next = Some R -> c < n ->
    (oget R c = Some c <-> next c = c).
  Proof.
    intros E Hc. split.
    - intros Ec. destruct (fit_with_labels R E) as [_ HS].
      destruct (HS c Hc) as (r & A1 & _ & A3 & _). rewrite Ec in A1. injection A1 as <-. exact A3.
    - intros Hf. apply (fit_with_limit R c c 0 E Hc); [reflexivity|exact Hf].
  Qed.

  Lemma centres_spec R c : fit_with n next = Some R ->
    (In c (centres R) <-> c < n /\ next c = c).
  Proof.
    intros E. destruct (fit_with_labels R E) as [HL _]. unfold centres. rewrite filter_In, in_seq, HL.
    split.
    - intros [Hc Hb]. assert (Hc' : c < n) by lia. split; [exact Hc'|].
      apply (fit_with_centre R c E Hc'). destruct (oget R c) as [r|]; cbn in Hb; [|discriminate].
      apply Nat.eqb_eq in Hb. congruence.
    - intros [Hc Hf]. split; [lia|]. apply (fit_with_centre R c E Hc) in Hf. rewrite Hf. cbn.
      apply Nat.eqb_refl.
  Qed.
End Corollaries.

(* ------------------------------------------------------------------ both configurations of fit *)
Section Final.
  Variable n : nat.
  Variable D : list (list ExtZ).
  Variable w : list Z.
  Hypothesis HD : sq_mat n D.
  Hypothesis Hw : length w = n.
  Variable cut : list Z.
  Variable shell : nat.

  Let ncut := next_cut D w cut.
  Let ngab := next_gab D w shell.
  Let cut_lt : forall i, i < n -> ncut i < n := next_cut_lt n D w HD Hw cut.
  Let cut_up : forall i, i < n -> ncut i = i \/ (wt w i < wt w (ncut i))%Z := fun i _ => next_cut_up D w cut i.
  Let gab_lt : forall i, i < n -> ngab i < n := next_gab_lt n D w Hw shell.
  Let gab_up : forall i, i < n -> ngab i = i \/ (wt w i < wt w (ngab i))%Z := fun i _ => next_gab_up D w shell i.

  Lemma fit_cut_eq : fit_cut D w cut = fit_with n ncut.
  Proof. unfold fit_cut. rewrite (proj1 HD). reflexivity. Qed.
  Lemma fit_gab_eq : fit_gab D w shell = fit_with n ngab.
  Proof. unfold fit_gab. rewrite (proj1 HD). reflexivity. Qed.

  Lemma fit_terminates : fit_cut D w cut <> None /\ fit_gab D w shell <> None.
  Proof.
    rewrite fit_cut_eq, fit_gab_eq. split.
    - apply (fit_with_terminates n ncut w cut_lt cut_up).
    - apply (fit_with_terminates n ngab w gab_lt gab_up).
  Qed.

  Lemma cut_labels R : fit_cut D w cut = Some R ->
    length R = n /\
    forall i, i < n -> exists r, oget R i = Some r /\ r < n /\ ncut r = r /\ oget R r = Some r /\
                                 exists k, r = Nat.iter k ncut i.
  Proof. rewrite fit_cut_eq. apply (fit_with_labels n ncut w cut_lt cut_up). Qed.
  Lemma gab_labels R : fit_gab D w shell = Some R ->
    length R = n /\
    forall i, i < n -> exists r, oget R i = Some r /\ r < n /\ ngab r = r /\ oget R r = Some r /\
                                 exists k, r = Nat.iter k ngab i.
  Proof. rewrite fit_gab_eq. apply (fit_with_labels n ngab w gab_lt gab_up). Qed.

  Lemma cut_limit R i r k : fit_cut D w cut = Some R -> i < n ->
    r = Nat.iter k ncut i -> ncut r = r -> oget R i = Some r.
  Proof. rewrite fit_cut_eq. apply (fit_with_limit n ncut w cut_lt cut_up). Qed.
  Lemma gab_limit R i r k : fit_gab D w shell = Some R -> i < n ->
    r = Nat.iter k ngab i -> ngab r = r -> oget R i = Some r.
  Proof. rewrite fit_gab_eq. apply (fit_with_limit n ngab w gab_lt gab_up). Qed.

  Lemma cut_centres R c : fit_cut D w cut = Some R -> (In c (centres R) <-> c < n /\ ncut c = c).
  Proof. rewrite fit_cut_eq. apply (centres_spec n ncut w cut_lt cut_up). Qed.
  Lemma gab_centres R c : fit_gab D w shell = Some R -> (In c (centres R) <-> c < n /\ ngab c = c).
  Proof. rewrite fit_gab_eq. apply (centres_spec n ngab w gab_lt gab_up). Qed.

  Lemma cut_max_weight R c : fit_cut D w cut = Some R -> c < n ->
    (forall j, j < n -> (wt w j <= wt w c)%Z) -> oget R c = Some c.
  Proof.
    rewrite fit_cut_eq. intros E Hc Hmax. apply (fit_with_centre n ncut w cut_lt cut_up R c E Hc).
    apply (max_weight_next n D w HD Hw cut shell c Hc Hmax).
  Qed.
  Lemma gab_max_weight R c : fit_gab D w shell = Some R -> c < n ->
    (forall j, j < n -> (wt w j <= wt w c)%Z) -> oget R c = Some c.
  Proof.
    rewrite fit_gab_eq. intros E Hc Hmax. apply (fit_with_centre n ngab w gab_lt gab_up R c E Hc).
    apply (max_weight_next n D w HD Hw cut shell c Hc Hmax).
  Qed.
End Final.

(* ------------------------------------------------------------------ the shell is a ball of the Gabriel graph *)
Lemma nth_map2_orb u v b : length u = length v ->
  nth b (map2 orb u v) false = nth b u false || nth b v false.
Proof.
  revert v b. induction u as [|x u IH]; intros [|y v] b H; try discriminate.
  - destruct b; reflexivity.
  - destruct b as [|b]; cbn; [reflexivity|]. apply IH. now injection H.
Qed.

Lemma gabriel_sq n D : length D = n -> sq_mat n (gabriel D).
Proof.
  intros HL. unfold gabriel. rewrite HL.
  destruct (gab_outer_spec D n (seq 0 n) (repeat (repeat true n) n)) as [S _];
    [intros i Hi; apply in_seq in Hi; lia|apply sq_mat_full|exact S].
Qed.

Section Shell.
  Variable n : nat.
  Variable G : list (list bool).
  Hypothesis HG : sq_mat n G.

  Lemma expand_inner N : forall l nn, length nn = n -> (forall j, In j l -> j < n) ->
    let r := fold_left (fun nn j => if nth j N false then map2 orb nn (nth j G []) else nn) l nn in
    length r = n /\
    forall b, nth b r false = nth b nn false || existsb (fun j => nth j N false && bget G j b) l.
  Proof.
    induction l as [|j l IH]; intros nn Hn Hl; cbv zeta.
    - cbn. split; [exact Hn|]. intros b. now rewrite orb_false_r.
    - cbn [fold_left existsb]. assert (Hj : j < n) by (apply Hl; left; reflexivity).
      assert (Hl' : forall j', In j' l -> j' < n) by (intros j' H; apply Hl; right; exact H).
      pose proof (sq_mat_row n G j HG Hj) as Hrow.
      destruct (nth j N false) eqn:Ej.
      + destruct (IH (map2 orb nn (nth j G []))) as [S1 S2];
          [rewrite map2_length, Hn, Hrow; apply Nat.min_id|exact Hl'|].
        split; [exact S1|]. intros b. rewrite S2, nth_map2_orb by congruence.
        cbn [andb]. unfold bget. now rewrite orb_assoc.
      + destruct (IH nn Hn Hl') as [S1 S2]. split; [exact S1|]. intros b. rewrite S2. reflexivity.
  Qed.

  Lemma expand_spec N : length N = n ->
    length (expand G N) = n /\
    forall b, nth b (expand G N) false =
              nth b N false || existsb (fun j => nth j N false && bget G j b) (seq 0 n).
  Proof.
    intros HN. unfold expand. rewrite HN.
    destruct (expand_inner N (seq 0 n) (repeat false n)) as [S1 S2];
      [apply repeat_length|intros j Hj; apply in_seq in Hj; lia|].
    cbv zeta in *. split.
    - rewrite map2_length, HN, S1. apply Nat.min_id.
    - intros b. rewrite nth_map2_orb by congruence. rewrite S2, nth_repeat. reflexivity.
  Qed.

  (* a walk of k >= 1 edges whose intermediate vertices are points *)
  Inductive gpath : nat -> nat -> nat -> Prop :=
  | gpath_1 a b : bget G a b = true -> gpath 1 a b
  | gpath_S k a j b : gpath k a j -> j < n -> bget G j b = true -> gpath (S k) a b.

  Lemma gpath_pos k a b : gpath k a b -> 1 <= k.
  Proof. induction 1; lia. Qed.

  Lemma iter_expand_spec c : c < n -> forall t,
    length (Nat.iter t (expand G) (nth c G [])) = n /\
    forall b, nth b (Nat.iter t (expand G) (nth c G [])) false = true <->
              exists k, 1 <= k <= S t /\ gpath k c b.
  Proof.
    intros Hc. induction t as [|t [IL IH]].
    - cbn [Nat.iter]. split; [apply (sq_mat_row n G c HG Hc)|]. intros b. split.
      + intros H. exists 1. split; [lia|]. constructor. exact H.
      + intros (k & Hk & P). assert (k = 1) by lia. subst. inversion P as [a' b' H|k' a' j b' P' _ _]; subst.
        * exact H.
        * apply gpath_pos in P'. lia.
    - change (Nat.iter (S t) (expand G) (nth c G [])) with (expand G (Nat.iter t (expand G) (nth c G []))).
      set (N := Nat.iter t (expand G) (nth c G [])) in *.
      destruct (expand_spec N IL) as [EL ES]. split; [exact EL|]. intros b. rewrite ES. split.
      + intros H. apply orb_prop in H. destruct H as [H|H].
        * apply IH in H. destruct H as (k & Hk & P). exists k. split; [lia|exact P].
        * apply existsb_exists in H. destruct H as (j & Hj & H). apply in_seq in Hj.
          apply andb_prop in H. destruct H as [H1 H2]. apply IH in H1. destruct H1 as (k & Hk & P).
          exists (S k). split; [lia|]. apply (gpath_S k c j b P); [lia|exact H2].
      + intros (k & Hk & P). destruct (Nat.le_gt_cases k (S t)) as [L|L].
        * apply orb_true_intro. left. apply IH. exists k. split; [lia|exact P].
        * assert (k = S (S t)) by lia. subst. inversion P as [a' b' H|k' a' j b' P' Hj H]; subst.
          apply orb_true_intro. right. apply existsb_exists. exists j. split; [apply in_seq; lia|].
          apply andb_true_intro. split; [|exact H]. apply IH. exists (S t). split; [lia|exact P'].
  Qed.

  Lemma shell_set_spec shell c b : c < n ->
    (nth b (shell_set G shell c) false = true <-> exists k, 1 <= k <= Nat.max 1 shell /\ gpath k c b).
  Proof.
    intros Hc. unfold shell_set. destruct (iter_expand_spec c Hc (shell - 1)) as [_ H].
    rewrite H. replace (S (shell - 1)) with (Nat.max 1 shell) by lia. reflexivity.
  Qed.
End Shell.

(* ------------------------------------------------------------------ the outer loop may visit the points in any order *)
Section FitOrder.
  Variable n : nat.
  Variable next : nat -> nat.
  Variable w : list Z.
  Hypothesis next_lt : forall i, i < n -> next i < n.
  Hypothesis next_up : forall i, i < n -> next i = i \/ (wt w i < wt w (next i))%Z.

  Lemma fit_step_inv_any R i : i < n -> InvO n next R ->
    exists R', fit_step n next (Some R) i = Some R' /\ InvO n next R' /\
               forall y, y < n -> (oget R y <> None \/ y = i) -> oget R' y <> None.
  Proof.
    intros Hi [HL HI]. cbn [fit_step]. destruct (oget R i) as [r|] eqn:Ei.
    - exists R. split; [reflexivity|]. split; [split; assumption|].
      intros y Hy [H| ->]; [exact H|rewrite Ei; discriminate].
    - destruct (ascend_inv n next w next_lt next_up n i [i] R) as (R' & E & I & L).
      + split; [exact HL|]. split; [exact Hi|]. split; [exact Ei|]. split; [left; reflexivity|]. split.
        * intros x [<-|[]]. split; [exact Hi|]. split; [apply reach_refl|]. intros H; exfalso; apply H; reflexivity.
        * intros y r Hy Hyp E. split; [apply HI; assumption|].
          intros [<-|[]]. destruct (HI y i Hy E) as (_ & _ & G & _). rewrite Ei in G. discriminate.
      + rewrite <- HL. apply count_none_le.
      + exists R'. split; [exact E|]. split; [exact I|].
        intros y Hy [H| ->]; apply L; try assumption; [left; exact H|right; left; reflexivity].
  Qed.

  Lemma fit_fold_any l : forall R, (forall i, In i l -> i < n) -> InvO n next R ->
    exists R', fold_left (fit_step n next) l (Some R) = Some R' /\ InvO n next R' /\
               forall y, y < n -> (oget R y <> None \/ In y l) -> oget R' y <> None.
  Proof.
    induction l as [|i l IH]; intros R Hl I.
    - exists R. split; [reflexivity|]. split; [exact I|]. intros y Hy [H|[]]. exact H.
    - cbn [fold_left].
      destruct (fit_step_inv_any R i (Hl i (or_introl eq_refl)) I) as (R1 & E1 & I1 & L1). rewrite E1.
      destruct (IH R1 (fun j Hj => Hl j (or_intror Hj)) I1) as (R' & E' & I' & L').
      exists R'. split; [exact E'|]. split; [exact I'|].
      intros y Hy [H|[<-|H]]; apply L'; try assumption.
      + left. apply L1; [exact Hy|left; exact H].
      + left. apply L1; [exact Hy|right; reflexivity].
      + right. exact H.
  Qed.

  (* visiting the points in any order that covers all of them gives the labels of fit *)
  Theorem fit_any_order order :
    (forall i, In i order -> i < n) -> (forall i, i < n -> In i order) ->
    fold_left (fit_step n next) order (Some (repeat None n)) = fit_with n next.
  Proof.
    intros Hlt Hall.
    destruct (fit_fold_any order (repeat None n) Hlt (InvO_init n next)) as (R' & E' & [HL' HI'] & L').
    destruct (fit_with_spec n next w next_lt next_up) as (R & E & HL & HS).
    rewrite E, E'. f_equal. apply (nth_ext R' R None None); [congruence|].
    intros i Hi. rewrite HL' in Hi. fold (oget R' i). fold (oget R i).
    destruct (HS i Hi) as (r & A1 & _ & A3 & _ & A5).
    destruct (oget R' i) as [r'|] eqn:Er'; [|exfalso; apply (L' i Hi); [right; apply Hall; exact Hi|exact Er']].
    destruct (HI' i r' Hi Er') as (_ & B2 & _ & B4).
    rewrite A1. f_equal. apply (limit_unique next i r' r); assumption.
  Qed.
End FitOrder.

Lemma fit_any_order_both n D w cut shell order : sq_mat n D -> length w = n ->
  (forall i, In i order -> i < n) -> (forall i, i < n -> In i order) ->
  fold_left (fit_step n (next_cut D w cut)) order (Some (repeat None n)) = fit_cut D w cut /\
  fold_left (fit_step n (next_gab D w shell)) order (Some (repeat None n)) = fit_gab D w shell.
Proof.
  intros HD Hw H1 H2. rewrite (fit_cut_eq n D w HD cut), (fit_gab_eq n D w HD shell). split.
  - apply (fit_any_order n _ w); [apply next_cut_lt; assumption|intros i _; apply next_cut_up|assumption|assumption].
  - apply (fit_any_order n _ w); [apply next_gab_lt; assumption|intros i _; apply next_gab_up|assumption|assumption].
Qed.
