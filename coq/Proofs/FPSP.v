(* Theorems about the FPS model (Model/FPS.v): the distance table is the true table of
   minimum squared distances, every step picks a farthest candidate, the reported
   select distances are the true minima and do not increase. *)
From Verif Require Import ListX Greedy FPS ListXP GreedyP.

Section DTP.
  (* generic distance-table scorer: [dist j l] is what new_dist reports for candidate j
     when l is selected *)
  Variable cs : list (list Z).
  Variable ycand : option (list (list Z)).
  Variable nm : list Z.
  Variable cross : nat -> list Z.
  Variable dist : nat -> nat -> Z.
  Let n := length cs.
  Hypothesis Hnew : forall l, (l < n)%nat -> newdist nm cross l = map (fun j => dist j l) (seq 0 n).
  Hypothesis dist_nonneg : forall j l, 0 <= dist j l.
  Hypothesis dist_self : forall i, dist i i = 0.

  (* true minimum distance from candidate j to the candidates listed in s *)
  Definition tabmin (j : nat) (s : list nat) : ExtZ :=
    fold_left (fun a i => ext_min a (dist j i)) s None.

  Lemma tabmin_app c s i : tabmin c (s ++ [i]) = ext_min (tabmin c s) (dist c i).
  Proof. unfold tabmin. now rewrite fold_left_app. Qed.

  Lemma tabmin_some c s : s <> [] -> exists z, tabmin c s = Some z /\ 0 <= z.
  Proof.
    induction s as [|i s IH] using rev_ind; [congruence|]. intros _. rewrite tabmin_app.
    destruct s as [|j s].
    - cbn. eexists; split; [reflexivity|apply dist_nonneg].
    - destruct IH as (z & Hz & Hz0); [discriminate|]. rewrite Hz. cbn.
      eexists; split; [reflexivity|]. pose proof (dist_nonneg c i). lia.
  Qed.

  Lemma tabmin_in c s i : In i s -> ext_le (tabmin c s) (Some (dist c i)).
  Proof.
    induction s as [|j s IH] using rev_ind; [intros []|]. intros Hin. rewrite tabmin_app.
    apply in_app_or in Hin as [Hin|[->|[]]].
    - eapply ext_le_trans; [apply ext_min_le_l|apply IH, Hin].
    - apply ext_min_le_r.
  Qed.

  (* a selected candidate is at distance zero from the selected set *)
  Lemma tabmin_selected s i : In i s -> tabmin i s = Some 0.
  Proof.
    intros Hin. pose proof (tabmin_in i s i Hin) as Hle. rewrite dist_self in Hle.
    destruct (tabmin_some i s) as (z & Hz & Hz0); [intros ->; exact Hin|].
    rewrite Hz in *. cbn in Hle. f_equal. lia.
  Qed.

  Lemma nth_seq_map {B} (f : nat -> B) j dflt : (j < n)%nat -> nth j (map f (seq 0 n)) dflt = f j.
  Proof.
    intros Hj. rewrite (nth_map_lt f (seq 0 n) j dflt O) by (rewrite seq_length; exact Hj).
    now rewrite seq_nth.
  Qed.

  Notation fupd := (dupd nm cross).
  Notation fpost := (post dst (dupd nm cross) cs ycand).
  Notation dt_g := (gst dst).
  Definition FP (s : dst) : Prop := length (haus s) = n /\ length (hsel s) = n.

  Lemma FP_len s : FP s -> length (dscore s) = n.
  Proof. intros [H _]. unfold dscore. now rewrite map_length. Qed.

  Lemma newdist_len l : (l < n)%nat -> length (newdist nm cross l) = n.
  Proof. intros Hl. rewrite Hnew by exact Hl. now rewrite map_length, seq_length. Qed.

  Lemma FP_upd s i : FP s -> (i < n)%nat -> FP (fupd s i).
  Proof.
    intros [H1 H2] Hi. split; cbn.
    - rewrite map2_length, H1, newdist_len by exact Hi. apply Nat.min_id.
    - now rewrite upd_nth_length.
  Qed.

  Notation GI := (GInv dst cs ycand FP).

  (* ---- the table invariant ---------------------------------------------------------- *)
  Definition TabInv (g : dt_g) : Prop :=
    haus (sst g) = map (fun j => tabmin j (sel g)) (seq 0 n) /\
    (forall t, (t < length (sel g))%nat ->
       nth (nth t (sel g) O) (hsel (sst g)) None = tabmin (nth t (sel g) O) (firstn t (sel g))).

  Lemma TabInv_post g i :
    GI g -> TabInv g -> (i < n)%nat -> ~ In i (sel g) -> TabInv (fpost g i).
  Proof.
    intros (Hnd & Hr & _ & _ & HF1 & HF2) [Ht Hs] Hi Hni. split.
    - cbn [post sst sel dupd haus]. rewrite Ht, Hnew by exact Hi.
      rewrite map2_map_l, map2_map_r, map2_same. apply map_ext. intros c. now rewrite tabmin_app.
    - cbn [post sst sel dupd hsel]. intros t Hlt. rewrite app_length in Hlt. cbn in Hlt.
      destruct (Nat.eq_dec t (length (sel g))) as [->|Hne].
      + rewrite nth_middle, firstn_app, Nat.sub_diag, firstn_all. cbn [firstn]. rewrite app_nil_r.
        rewrite nth_upd_nth_eq by (rewrite HF2; exact Hi).
        rewrite Ht. exact (nth_seq_map (fun j => tabmin j (sel g)) i None Hi).
      + assert (Hlt' : (t < length (sel g))%nat) by lia.
        rewrite app_nth1 by exact Hlt'.
        rewrite firstn_app. replace (t - length (sel g))%nat with O by lia. cbn [firstn].
        rewrite app_nil_r. rewrite nth_upd_nth_neq; [apply Hs; exact Hlt'|].
        intros ->. apply Hni. apply nth_In. exact Hlt'.
  Qed.

  Lemma TabInv_same (a b : dt_g) :
    TabInv a -> sel b = sel a -> sst b = sst a -> TabInv b.
  Proof. unfold TabInv. intros H -> ->. exact H. Qed.

  (* initial selections (distinct, in range) establish both invariants *)
  Lemma init_inv (inits : list nat) g :
    GI g -> TabInv g -> NoDup (sel g ++ inits) -> Forall (fun i => (i < n)%nat) inits ->
    GI (fold_left fpost inits g) /\ TabInv (fold_left fpost inits g) /\
    sel (fold_left fpost inits g) = sel g ++ inits.
  Proof.
    revert g; induction inits as [|i r IH]; intros g HG HT Hnd Hr; cbn.
    - rewrite app_nil_r. auto.
    - inversion Hr as [|? ? Hi Hr']; subst.
      assert (Hni : ~ In i (sel g)).
      { intros Hin. apply NoDup_remove_2 in Hnd. apply Hnd. apply in_or_app. now left. }
      destruct (IH (fpost g i)) as (H1 & H2 & H3).
      + apply (post_inv dst _ cs ycand FP FP_upd); assumption.
      + apply TabInv_post; assumption.
      + cbn [post sel]. rewrite <- app_assoc. exact Hnd.
      + exact Hr'.
      + split; [exact H1|]. split; [exact H2|]. rewrite H3. cbn [post sel].
        now rewrite <- app_assoc.
  Qed.

  Definition g0 : dt_g := mk_gst [] [] [] (dst0 n) None.

  Lemma g0_inv : GI g0 /\ TabInv g0.
  Proof.
    split.
    - unfold GInv, g0; cbn. split; [constructor|]. split; [constructor|]. split; [reflexivity|].
      split; [intros y _; reflexivity|]. split; cbn; apply repeat_length.
    - split; cbn; [|intros t Ht; lia].
      unfold n. generalize 0%nat. generalize (length cs). clear. intros m. induction m as [|m IH]; intros k; cbn; [reflexivity|f_equal; apply IH].
  Qed.

  (* ---- main theorems about a fit -------------------------------------------------------- *)
  Section Fit.
    Variable inits : list nat.
    Hypothesis Hnd : NoDup inits.
    Hypothesis Hrange : Forall (fun i => (i < n)%nat) inits.
    Variable t : thr.
    Variable niter : nat.
    Variable g' : dt_g.
    Variable st : bool.
    Let gi := fold_left fpost inits g0.
    Hypothesis Hfit : run dst dscore (dupd nm cross) cs ycand t niter gi = (g', st).

    Lemma gi_inv : GI gi /\ TabInv gi /\ sel gi = inits.
    Proof.
      destruct g0_inv as [H1 H2]. unfold gi.
      destruct (init_inv inits g0 H1 H2) as (A & B & C); auto.
    Qed.

    Lemma fit_GI : GI g'.
    Proof.
      destruct gi_inv as (A & _ & _).
      eapply (run_inv dst dscore _ cs ycand FP FP_len FP_upd); [exact A|exact Hfit].
    Qed.

    (* the per-candidate distance table equals the true minimum distance to the selected set *)
    Theorem table_true : haus (sst g') = map (fun j => tabmin j (sel g')) (seq 0 n).
    Proof.
      destruct gi_inv as (A & B & _).
      refine (proj1 (run_ind dst dscore _ cs ycand FP FP_len FP_upd TabInv t _ gi g' st _ _ A B Hfit)).
      - intros a b Ha Hs _ _ Hss. eapply TabInv_same; eauto.
      - intros a i Ha HT (Hi & Hni & _). apply TabInv_post; assumption.
    Qed.

    Theorem select_distance_true :
      forall k, (k < length (sel g'))%nat ->
        nth k (select_distance g') None = tabmin (nth k (sel g') O) (firstn k (sel g')).
    Proof.
      destruct gi_inv as (A & B & _).
      assert (HT : TabInv g').
      { refine (run_ind dst dscore _ cs ycand FP FP_len FP_upd TabInv t _ gi g' st _ _ A B Hfit).
        - intros a b Ha Hs _ _ Hss. eapply TabInv_same; eauto.
        - intros a i Ha HT (Hi & Hni & _). apply TabInv_post; assumption. }
      intros k Hk. unfold select_distance.
      rewrite (nth_map_lt (fun i => nth i (hsel (sst g')) None) (sel g') k None O Hk).
      apply HT. exact Hk.
    Qed.

    Theorem initial_selections : firstn (length inits) (sel g') = inits.
    Proof.
      destruct gi_inv as (A & _ & C).
      destruct (run_extends dst dscore _ cs ycand FP FP_len FP_upd _ _ _ _ _ A Hfit) as (new & Hn & _).
      rewrite Hn, C. rewrite firstn_app, Nat.sub_diag, firstn_all. cbn. now rewrite app_nil_r.
    Qed.
  End Fit.

  (* ---- each step picks a farthest candidate ------------------------------------------------ *)
  Definition is_farthest (s : list nat) (i : nat) : Prop :=
    (i < n)%nat /\ ~ In i s /\
    (forall j, (j < n)%nat -> ext_le (tabmin j s) (tabmin i s)) /\
    (forall j, (j < i)%nat -> ~ In j s -> tabmin j s <> tabmin i s).

  Fixpoint farthest_seq (s new : list nat) : Prop :=
    match new with
    | [] => True
    | i :: rest => is_farthest s i /\ farthest_seq (s ++ [i]) rest
    end.

  Lemma is_best_farthest (g : dt_g) i :
    GI g -> TabInv g -> sel g <> [] -> is_best dst dscore cs g i -> is_farthest (sel g) i.
  Proof.
    intros HG [Ht _] Hne (Hi & Hni & Hmax & Hfirst).
    assert (Hsc : forall j, (j < n)%nat ->
                  exists z, tabmin j (sel g) = Some z /\ nth j (dscore (sst g)) 0 = z).
    { intros j Hj. destruct (tabmin_some j (sel g) Hne) as (z & Hz & _).
      exists z. split; [exact Hz|]. unfold dscore. rewrite Ht, map_map.
      rewrite (nth_seq_map (fun c => ext_get (tabmin c (sel g))) j 0 Hj). now rewrite Hz. }
    split; [exact Hi|]. split; [exact Hni|]. split.
    - intros j Hj. destruct (Hsc j Hj) as (zj & Hzj & Hnj). destruct (Hsc i Hi) as (zi & Hzi & Hn_i).
      rewrite Hzj, Hzi. cbn.
      destruct (in_dec Nat.eq_dec j (sel g)) as [Hin|Hnin].
      + rewrite (tabmin_selected _ _ Hin) in Hzj. injection Hzj as <-.
        destruct (tabmin_some i (sel g) Hne) as (z & Hz & Hz0). rewrite Hz in Hzi.
        injection Hzi as <-. exact Hz0.
      + specialize (Hmax j Hj Hnin). lia.
    - intros j Hj Hnj. assert (Hjn : (j < n)%nat) by lia.
      destruct (Hsc j Hjn) as (zj & Hzj & Hnj'). destruct (Hsc i Hi) as (zi & Hzi & Hn_i).
      specialize (Hfirst j Hj Hnj). rewrite Hzj, Hzi. intros E. injection E as E. lia.
  Qed.

  Lemma best_seq_farthest (g : dt_g) new :
    GI g -> TabInv g -> sel g <> [] ->
    best_seq dst dscore (dupd nm cross) cs ycand g new ->
    farthest_seq (sel g) new.
  Proof.
    revert g; induction new as [|i rest IH]; intros g HG HT Hne Hseq; cbn; [exact I|].
    destruct Hseq as (g1 & Hs & Hss & Hx & Hy & Hb & Hrest).
    pose proof (is_best_farthest g i HG HT Hne Hb) as Hf. split; [exact Hf|].
    destruct Hf as (Hi & Hni & _).
    assert (HG1 : GI g1) by (eapply GInv_same; eauto).
    assert (HT1 : TabInv g1) by (eapply TabInv_same; eauto).
    specialize (IH (fpost g1 i)). cbn [post sel] in IH. rewrite Hs in IH. apply IH.
    - apply (post_inv dst _ cs ycand FP FP_upd); [exact HG1|exact Hi|rewrite Hs; exact Hni].
    - apply TabInv_post; [exact HG1|exact HT1|exact Hi|rewrite Hs; exact Hni].
    - intros E. apply app_eq_nil in E as [_ E]. discriminate.
    - exact Hrest.
  Qed.

  Theorem fit_steps_farthest inits t niter g' st :
    NoDup inits -> Forall (fun i => (i < n)%nat) inits -> inits <> [] ->
    run dst dscore (dupd nm cross) cs ycand t niter (fold_left fpost inits g0) = (g', st) ->
    exists new, sel g' = inits ++ new /\ farthest_seq inits new.
  Proof.
    intros Hnd Hr Hne Hfit.
    destruct (gi_inv inits Hnd Hr) as (A & B & C).
    destruct (run_best_seq dst dscore _ cs ycand FP FP_len FP_upd _ _ _ _ _ A Hfit) as (new & Hn & Hseq).
    exists new. rewrite C in Hn. split; [exact Hn|].
    rewrite <- C. apply best_seq_farthest; try assumption. rewrite C. exact Hne.
  Qed.

  (* ---- distances at selection never increase along the loop's selections --------------------- *)
  Fixpoint dists (s new : list nat) : list ExtZ :=
    match new with
    | [] => []
    | i :: r => tabmin i s :: dists (s ++ [i]) r
    end.

  Fixpoint nonincreasing (l : list ExtZ) : Prop :=
    match l with
    | a :: ((b :: _) as t) => ext_le b a /\ nonincreasing t
    | _ => True
    end.

  Theorem farthest_dists_nonincreasing s new :
    farthest_seq s new -> nonincreasing (dists s new).
  Proof.
    revert s; induction new as [|i [|j r] IH]; intros s H; cbn; auto.
    destruct H as (Hfi & Hfj & Hrest). split.
    - destruct Hfi as (_ & _ & Hmax & _). destruct Hfj as (Hj & _).
      eapply ext_le_trans; [|apply (Hmax j Hj)]. rewrite tabmin_app. apply ext_min_le_l.
    - apply (IH (s ++ [i])). cbn. auto.
  Qed.
End DTP.
