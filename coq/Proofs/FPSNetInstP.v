(* C02, session-4 extension: the r-net theorem (Proofs/FPSNetP.v) instantiated for fps_fit,
   stated on what the object REPORTS: get_distance() (haus) and get_select_distance(). *)
From Verif Require Import ListX Greedy FPS ListXP GreedyP FPSP FPSInst C02Thm FPSNetP.

Lemma dists_nth (dist : nat -> nat -> Z) new : forall s k, (k < length new)%nat ->
  nth k (dists dist s new) None = tabmin dist (nth k new O) (s ++ firstn k new).
Proof.
  induction new as [|a new IH]; intros s k Hk; cbn in Hk; [lia|].
  destruct k as [|k]; cbn.
  - now rewrite app_nil_r.
  - rewrite IH by lia. rewrite <- app_assoc. reflexivity.
Qed.

Section FPSNet.
  Variables (cs : list (list Z)) (d : nat) (ycand : option (list (list Z))).
  Hypothesis Hd : dims d cs.
  Variables (inits : list nat) (t : thr) (niter : nat) (g' : fps_g) (st : bool).
  Hypothesis Hnd : NoDup inits.
  Hypothesis Hr : in_range (length cs) inits.
  Hypothesis Hfit : fps_fit cs ycand inits t niter = (g', st).
  Hypothesis Hne : inits <> [].
  Hypothesis Hloop : (length inits < length (sel g'))%nat.

  Notation r := (nth (length (sel g') - 1) (select_distance g') None).

  Lemma fps_net :
    Forall (fun h => ext_le h r) (haus (sst g')) /\
    forall k, (length inits <= k < length (sel g'))%nat ->
      ext_le r (nth k (select_distance g') None).
  Proof.
    destruct (fps_steps_farthest cs d ycand Hd inits t niter g' st Hnd Hr Hfit Hne) as (new & Hsel & Hfar).
    assert (Hlen : length (sel g') = (length inits + length new)%nat) by (rewrite Hsel; apply app_length).
    assert (Hnn : new <> []) by (intros ->; cbn in Hlen; lia).
    destruct (exists_last Hnn) as (new0 & i & ->).
    assert (HSD : forall k, (length inits <= k < length (sel g'))%nat ->
              nth k (select_distance g') None
              = nth (k - length inits) (dists (fps_dist cs) inits (new0 ++ [i])) None).
    { intros k Hk.
      rewrite (fps_select_distance_true cs d ycand Hd inits t niter g' st Hnd Hr Hfit k) by lia.
      rewrite dists_nth by lia. rewrite Hsel.
      rewrite app_nth2 by lia. f_equal.
      rewrite firstn_app, firstn_all2 by lia. reflexivity. }
    assert (Hr_eq : r = tabmin (fps_dist cs) i (inits ++ new0)).
    { rewrite HSD by lia. rewrite dists_app.
      assert (E : (length (sel g') - 1 - length inits = length (dists (fps_dist cs) inits new0))%nat).
      { assert (L : forall n s, length (dists (fps_dist cs) s n) = length n).
        { induction n as [|a n IH]; intros s; cbn; [reflexivity|now rewrite IH]. }
        rewrite L. rewrite Hlen, app_length. cbn. lia. }
      rewrite E, nth_middle. reflexivity. }
    split.
    - rewrite (fps_table_true cs d ycand Hd inits t niter g' st Hnd Hr Hfit).
      apply Forall_forall. intros h Hin. apply in_map_iff in Hin as (j & <- & Hj).
      apply in_seq in Hj. rewrite Hr_eq, Hsel, app_assoc.
      apply (farthest_net_covering_after cs (fps_dist cs) inits new0 i Hfar). lia.
    - intros k Hk. rewrite (HSD k Hk), Hr_eq.
      pose proof (farthest_net_packing cs (fps_dist cs) inits new0 i Hfar) as HF.
      rewrite Forall_forall in HF. apply HF. apply nth_In.
      assert (L : forall n s, length (dists (fps_dist cs) s n) = length n).
      { induction n as [|a n IH]; intros s; cbn; [reflexivity|now rewrite IH]. }
      rewrite L. lia.
  Qed.
End FPSNet.
