(* Round-3 extension of the C20 proofs (ssreflect/mathcomp style).
   Part 1: rank algebra over a real closed field: rank of a diagonal matrix, of a singular
           value decomposition, of a Gram matrix and of the regularised covariance.
   Part 2: np.linalg.matrix_rank's threshold rule (Model/RigidityExt.v, [rank_of_sv_g])
           instantiated over the field, and the rank_diff theorems about the model.
   Part 3: the denominators of the rigidities vanish exactly on zero (masked) rows. *)
From mathcomp Require Import all_ssreflect all_algebra.
From Verif Require Import MExp MExpMx Rigidity RigidityListP RigidityP RigidityExt.
Set Implicit Arguments.
Unset Strict Implicit.
Unset Printing Implicit Defensive.
Import Order.Theory GRing.Theory Num.Theory.
Close Scope float_scope.
Local Open Scope ring_scope.

(* ================================================================== Part 1 *)
Section RankAlgebra.
  Variable F : rcfType.

  (* M M^T = 0 forces M = 0 over a real field *)
  Lemma mulmx_tr_eq0 m n (M : 'M[F]_(m, n)) : M *m M^T = 0 -> M = 0.
  Proof.
    move=> H; apply/matrixP => i j; rewrite [RHS]mxE.
    have : \sum_k (M i k) ^+ 2 = 0.
      move/matrixP/(_ i i): H; rewrite [in RHS]mxE => H0; rewrite -[RHS]H0 mxE.
      by apply: eq_bigr => k _; rewrite mxE expr2.
    move/psumr_eq0P => H0; apply/eqP; rewrite -(@sqrf_eq0 F); apply/eqP.
    by apply: H0 => // k _; apply: sqr_ge0.
  Qed.

  (* rank of a Gram matrix *)
  Lemma rank_gram k d (Z : 'M[F]_(k, d)) : \rank (Z^T *m Z) = \rank Z.
  Proof.
    have E : (kermx (Z^T *m Z) == kermx Z^T)%MS.
      apply/andP; split; apply/sub_kermxP.
      - apply: mulmx_tr_eq0; rewrite trmx_mul trmxK mulmxA -(mulmxA _ Z^T).
        by rewrite mulmx_ker mul0mx.
      - by rewrite mulmxA mulmx_ker mul0mx.
    have := eqmx_rank E; rewrite !mxrank_ker mxrank_tr => H.
    have l1 := rank_leq_col Z.
    have l2 : (\rank (Z^T *m Z) <= d)%N by exact: rank_leq_row.
    by rewrite -(subKn l1) -(subKn l2) H.
  Qed.

  Lemma reg_unit k d (Z : 'M[F]_(k, d)) (a : F) : 0 < a -> reg Z a \in unitmx.
  Proof.
    move=> a0; rewrite -row_free_unit; apply: inj_row_free => v vA.
    apply/eqP; apply: contraT => v0.
    by have := reg_pos Z a0 v0; rewrite /qf vA mul0mx mxE ltxx.
  Qed.

  (* exact rank of the regularised covariance: full for alpha > 0, rank Z for alpha = 0 *)
  Lemma rank_reg_pos k d (Z : 'M[F]_(k, d)) (a : F) : 0 < a -> \rank (reg Z a) = d.
  Proof. by move=> a0; apply: mxrank_unit; apply: reg_unit. Qed.

  Lemma rank_reg0 k d (Z : 'M[F]_(k, d)) : \rank (reg Z 0) = \rank Z.
  Proof. by rewrite /reg -scalemx1 scale0r addr0 rank_gram. Qed.

  (* ---- rank of a diagonal matrix = number of non-zero diagonal entries ---- *)
  Section Diag.
    Variables (d : nat) (s : 'rV[F]_d).
    Let b : pred 'I_d := [pred i | s ord0 i != 0].
    Let n := #|b|.
    (* selection of the rows with a non-zero entry *)
    Let R : 'M[F]_(n, d) := \matrix_(k, j) (enum_val k == j)%:R.

    Let RRt : R *m R^T = 1%:M.
    Proof.
      apply/matrixP => k l; rewrite !mxE (bigD1 (enum_val k)) //= big1 ?addr0 => [|j jk].
      - by rewrite !mxE eqxx mul1r (inj_eq enum_val_inj) eq_sym.
      - by rewrite !mxE eq_sym (negbTE jk) mul0r.
    Qed.

    Let rankR : \rank R = n.
    Proof. by apply/eqP; apply/row_freeP; exists R^T. Qed.

    Let s' : 'rV[F]_n := \row_k s ord0 (@enum_val _ b k).

    Let sR : R *m diag_mx s = diag_mx s' *m R.
    Proof.
      apply/matrixP => k j; rewrite mul_diag_mx !mxE (bigD1 (enum_val k)) //= big1 ?addr0.
      - by rewrite !mxE eqxx mul1r mulr_natr.
      - by move=> i ik; rewrite !mxE eq_sym (negbTE ik) mul0r.
    Qed.

    Let sRtR : diag_mx s = diag_mx s *m R^T *m R.
    Proof.
      apply/matrixP => i j; rewrite -mulmxA mul_diag_mx ![in RHS]mxE.
      case s0: (s ord0 i == 0).
        by rewrite !mxE (eqP s0) mul0rn mul0r.
      have ib : i \in b by rewrite inE s0.
      rewrite (bigD1 (enum_rank_in ib i)) //= big1 ?addr0.
      - by rewrite !mxE enum_rankK_in // eqxx mul1r mulr_natr.
      - move=> k kk; rewrite !mxE; case: eqP => [E|]; last by rewrite mul0r.
        by case/negP: kk; apply/eqP; apply: enum_val_inj; rewrite enum_rankK_in.
    Qed.

    Lemma rank_diag_mx : \rank (diag_mx s) = #|[pred i | s ord0 i != 0]|.
    Proof.
      apply/eqP; rewrite eqn_leq; apply/andP; split.
      - apply: (@leq_trans (\rank R)); last by rewrite rankR.
        by rewrite sRtR; apply: mxrankM_maxr.
      - have su : diag_mx s' \in unitmx.
          rewrite unitmxE det_diag unitfE; apply/prodf_neq0 => k _; rewrite mxE.
          exact: (enum_valP k).
        have E : \rank (R *m diag_mx s) = n.
          rewrite sR mxrankMfree; first exact: mxrank_unit.
          by rewrite /row_free rankR.
        apply: (@leq_trans (\rank (R *m diag_mx s))); first by rewrite E.
        exact: mxrankM_maxr.
    Qed.
  End Diag.

  (* rank of a decomposition U diag(s) V with invertible outer factors *)
  Lemma rank_svd d (U V : 'M[F]_d) (s : 'rV[F]_d) :
    U \in unitmx -> V \in unitmx ->
    \rank (U *m diag_mx s *m V) = #|[pred i | s ord0 i != 0]|.
  Proof.
    move=> Uu Vu; rewrite mxrankMfree ?row_free_unit //.
    rewrite -mxrank_tr trmx_mul mxrankMfree ?row_free_unit ?unitmx_tr //.
    by rewrite mxrank_tr rank_diag_mx.
  Qed.
End RankAlgebra.

(* ================================================================== Part 2 *)
(* the operations record of Model/RigidityExt.v over the field; eps is a parameter *)
Definition F_ops (F : rcfType) (e : F) : fops F :=
  {| o_zero := 0; o_ltb := fun a b => a < b; o_mul := fun a b => a * b;
     o_ofnat := fun n => n%:R; o_eps := e |}.

(* the binary64 instance is the function the check has used since round 1 *)
Lemma rank_of_sv_generic dim sv : rank_of_sv dim sv = rank_of_sv_g float_ops dim sv.
Proof. by []. Qed.
Lemma rank_diff_generic dim sv : rank_diff_model dim sv = rank_diff_g float_ops dim sv.
Proof. by []. Qed.

Section ThresholdF.
  Variable F : rcfType.
  Variable e : F.
  Local Notation ops := (F_ops e).

  Lemma filter_ListE T (p : pred T) (l : seq T) : List.filter p l = filter p l.
  Proof. by elim: l => //= x l ->. Qed.
  Lemma length_sizeE T (l : seq T) : length l = size l.
  Proof. by elim: l => //= x l ->. Qed.

  Lemma foldmax_ge (l : seq F) acc :
    acc <= List.fold_left (fun a x => if a < x then x else a) l acc.
  Proof.
    elim: l acc => //= x l IH acc; case: ifP => [ax|_]; last exact: IH.
    exact: le_trans (ltW ax) (IH x).
  Qed.

  Lemma sv_max_ge0 (sv : seq F) : 0 <= sv_max ops sv.
  Proof. exact: foldmax_ge. Qed.

  Lemma sv_tol_ge0 dim (sv : seq F) : 0 <= e -> 0 <= sv_tol ops dim sv.
  Proof.
    by move=> e0; rewrite /sv_tol /=; apply: mulr_ge0 e0; apply: mulr_ge0 (sv_max_ge0 _) (ler0n _ _).
  Qed.

  Lemma rank_of_sv_count dim (sv : seq F) :
    rank_of_sv_g ops dim sv = count (fun x => sv_tol ops dim sv < x) sv.
  Proof. by rewrite /rank_of_sv_g filter_ListE length_sizeE size_filter. Qed.

  (* the reported difference counts the values at or below the threshold *)
  Lemma rank_diff_count (sv : seq F) :
    rank_diff_g ops (size sv) sv = count (fun x => x <= sv_tol ops (size sv) sv) sv.
  Proof.
    rewrite /rank_diff_g minusE rank_of_sv_count; set t := sv_tol _ _ _.
    rewrite -[X in (X - _)%N](count_predC (fun x => t < x) sv) addKn.
    by apply: eq_count => x /=; rewrite leNgt.
  Qed.

  Lemma count_codom d (p : pred F) (f : 'I_d -> F) :
    count p [seq f i | i <- enum 'I_d] = #|[pred i | p (f i)]|.
  Proof.
    rewrite count_map -size_filter cardE [in RHS]/enum_mem -enumT.
    by congr size; apply: eq_filter => x; rewrite !inE.
  Qed.
End ThresholdF.

Definition e_U (F : rcfType) (env : env_mx F) d : 'M[F]_d := env d d 7%N.
Definition e_S (F : rcfType) (env : env_mx F) d : 'cV[F]_d := env d 1%N 8%N.
Definition e_Vt (F : rcfType) (env : env_mx F) d : 'M[F]_d := env d d 9%N.
(* the singular values as the list handed to the threshold rule *)
Definition svl (F : rcfType) (env : env_mx F) d : seq F :=
  [seq e_S env d i ord0 | i <- enum 'I_d].

(* the oracle hypotheses on (U, s, Vt): residual programs evaluate to 0 *)
Definition svd_hyp (F : rcfType) (env : env_mx F) (d N S : nat) : Prop :=
  [/\ eval_mx env (svd_recon_prog d N S) = 0, eval_mx env (svd_orthU_prog d) = 0
    & eval_mx env (svd_orthV_prog d) = 0].

Section RankTheorems.
  Variable F : rcfType.
  Variables (d N S : nat).
  Variable e : F.
  Implicit Types env : env_mx F.
  Local Notation ops := (F_ops e).
  Local Notation A env := (reg (Xstruc d N S env) (e_alpha env)).
  Local Notation tol env := (sv_tol ops d (svl env d)).

  Lemma evalSubE env m n (a b : mexp m n) :
    eval_mx env (MSub a b) = eval_mx env a - eval_mx env b.
  Proof. by []. Qed.

  Lemma svd_hypE env :
    svd_hyp env d N S ->
    [/\ A env = e_U env d *m diag_mx (e_S env d)^T *m e_Vt env d,
        e_U env d \in unitmx & e_Vt env d \in unitmx].
  Proof.
    case; rewrite /svd_recon_prog /svd_orthU_prog /svd_orthV_prog !evalSubE xprimeE /=.
    move=> /subr0_eq H1 /subr0_eq H2 /subr0_eq H3; split; first by rewrite -H1.
    - by case/mulmx1_unit: H2.
    - by case/mulmx1_unit: H3.
  Qed.

  Lemma size_svl env : size (svl env d) = d.
  Proof. by rewrite size_map size_enum_ord. Qed.

  (* singular values at or below the threshold zeroed *)
  Definition trunc_sv env : 'rV[F]_d :=
    \row_i (if tol env < e_S env d i ord0 then e_S env d i ord0 else 0).

  (* always: the reported value is d minus the rank of the truncated decomposition *)
  Theorem rig_rank_diff_trunc env :
    svd_hyp env d N S -> 0 <= e ->
    rank_diff_g ops d (svl env d)
    = (d - \rank (e_U env d *m diag_mx (trunc_sv env) *m e_Vt env d))%N.
  Proof.
    move=> /svd_hypE [_ Uu Vu] e0; rewrite rank_svd // /rank_diff_g minusE rank_of_sv_count.
    rewrite count_codom; congr (d - _)%N; apply: eq_card => i; rewrite !inE mxE.
    case: ifP => [ti|]; last by rewrite eqxx.
    by rewrite gt_eqF //; apply: le_lt_trans ti; apply: sv_tol_ge0.
  Qed.

  (* when the threshold separates the non-zero singular values from 0, the reported value
     is the feature dimension minus the rank of the regularised covariance *)
  Theorem rig_rank_diff env :
    svd_hyp env d N S -> 0 <= e ->
    (forall i, e_S env d i ord0 != 0 -> tol env < e_S env d i ord0) ->
    rank_diff_g ops d (svl env d) = (d - \rank (A env))%N.
  Proof.
    move=> H e0 sep; rewrite (rig_rank_diff_trunc H e0).
    case/svd_hypE: H => -> _ _; congr (d - \rank (_ *m diag_mx _ *m _))%N.
    apply/rowP => i; rewrite !mxE; case: ifP => // /negbT nt.
    by apply/esym/eqP; apply: contraNT nt => /sep.
  Qed.

  (* alpha > 0: the covariance has full rank, so the exact difference is 0 and a positive
     reported value counts the singular values at or below the threshold *)
  Theorem rig_rank_diff_alpha_pos env :
    0 < e_alpha env ->
    [/\ \rank (A env) = d,
        rank_diff_g ops d (svl env d) = #|[pred i | e_S env d i ord0 <= tol env]|
      & svd_hyp env d N S -> 0 <= e ->
        (forall i, e_S env d i ord0 != 0 -> tol env < e_S env d i ord0) ->
        rank_diff_g ops d (svl env d) = 0%N].
  Proof.
    move=> a0; have rk : \rank (A env) = d by apply: rank_reg_pos.
    split=> //.
    - by have := rank_diff_count e (svl env d); rewrite size_svl count_codom.
    - by move=> H e0 sep; rewrite (rig_rank_diff H e0 sep) rk subnn.
  Qed.

  (* alpha = 0: the rank is the rank of the averaged, scaled training features *)
  Theorem rig_rank_alpha0 env : e_alpha env = 0 -> \rank (A env) = \rank (Xstruc d N S env).
  Proof. by move=> ->; apply: rank_reg0. Qed.
End RankTheorems.

(* ================================================================== Part 3 *)
(* the rigidity programs are the entrywise reciprocal of the denominator programs *)
Lemma lpr_prog_den d N Nt : lpr_prog d N Nt = MMap Frecip t0 (lpr_den_prog d N Nt).
Proof. by []. Qed.
Lemma lcpr_prog_den d N Nt : lcpr_prog d N Nt = MMap Frecip t0 (lcpr_den_prog d N Nt).
Proof. by []. Qed.
Lemma cpr_prog_den d N Nt St : cpr_prog d N Nt St = MMap Frecip t0 (cpr_den_prog d N Nt St).
Proof. by []. Qed.

Section ZeroDenominator.
  Variable F : rcfType.
  Variables (d N S Nt St : nat).
  Implicit Types env : env_mx F.
  Local Notation mk env := (e_mask env d).

  Lemma reginv_eq0 k (Z : 'M[F]_(k, d)) (a : F) (P : 'M[F]_d) (x : 'rV[F]_d) :
    0 < a -> reg Z a *m P = 1%:M -> (qf P x == 0) = (x == 0).
  Proof.
    move=> a0 AP; apply/eqP/eqP => [q0|->]; last exact: qf0.
    apply/eqP; apply: contraT => x0.
    by have := reginv_pos a0 AP x0; rewrite q0 ltxx.
  Qed.

  Lemma lpr_denE env i :
    (eval_mx env (lpr_den_prog d N Nt)) i ord0 = qf (e_Xinv env d) (@x_env F d N Nt env i).
  Proof. by rewrite /lpr_den_prog quadE xtestE linearZ. Qed.
  Lemma lcpr_denE env i :
    (eval_mx env (lcpr_den_prog d N Nt)) i ord0
    = qf (e_Xinv env d) (maskrow (mk env) (@x_env F d N Nt env i)).
  Proof. by rewrite /lcpr_den_prog quadE maskedE xtestE linearZ. Qed.
  Lemma cpr_denE env s :
    (eval_mx env (cpr_den_prog d N Nt St)) s ord0
    = qf (e_Xinv env d) (maskrow (mk env) (@x_struc F d N Nt St env s)).
  Proof. by rewrite /cpr_den_prog quadE maskedE meansE linearZ. Qed.

  (* alpha > 0: a denominator x Xinv x^T vanishes exactly when the (masked) row is zero -
     then, and only then, binary64 returns 1/0 = +inf *)
  Theorem rig_denominator_zero env :
    0 < e_alpha env -> rig_hyp env d N S -> 0 < sf2 (e_Xtr env N d) ->
    [/\ forall i, ((eval_mx env (lpr_den_prog d N Nt)) i ord0 == 0)
                  = (row i (e_Xte env Nt d) == 0),
        forall i, ((eval_mx env (lcpr_den_prog d N Nt)) i ord0 == 0)
                  = (maskrow (mk env) (row i (e_Xte env Nt d)) == 0)
      & forall s, ((eval_mx env (cpr_den_prog d N Nt St)) s ord0 == 0)
                  = (maskrow (mk env) (row s (avg (e_Mte env St Nt) *m e_Xte env Nt d)) == 0)].
  Proof.
    move=> a0 /hypAP AP s0.
    have c0 : isf (e_Xtr env N d) != 0 by rewrite gt_eqF // isf_gt0.
    have sc (z : 'rV[F]_d) : (isf (e_Xtr env N d) *: z == 0) = (z == 0).
      by rewrite scaler_eq0 (negbTE c0).
    split=> i.
    - by rewrite lpr_denE (reginv_eq0 _ a0 AP) /x_env sc.
    - by rewrite lcpr_denE (reginv_eq0 _ a0 AP) /x_env maskrowZ sc.
    - by rewrite cpr_denE (reginv_eq0 _ a0 AP) /x_struc maskrowZ sc.
  Qed.
End ZeroDenominator.

(* ================================================================== non-vacuity *)
Section NonVacuityX.
  Variable F : rcfType.
  (* tiny_env of RigidityP with the decomposition 2 = 1 * 2 * 1 in variables 7, 8, 9 *)
  Definition tiny_env_x : env_mx F :=
    fun m n x => const_mx (if x == 5%N then 2%:R^-1 else if x == 8%N then 2%:R else 1).

  Lemma tiny_env_x_ok :
    [/\ svd_hyp tiny_env_x 1 1 1, 0 < e_alpha tiny_env_x,
        forall i, e_S tiny_env_x 1 i ord0 != 0 ->
                  sv_tol (F_ops (2%:R^-1 : F)) 1 (svl tiny_env_x 1) < e_S tiny_env_x 1 i ord0
      & rank_diff_g (F_ops (2%:R^-1 : F)) 1 (svl tiny_env_x 1) = 0%N].
  Proof.
    have a1 : e_alpha tiny_env_x = 1 by rewrite /e_alpha mxE.
    have s1 : sf2 (e_Xtr tiny_env_x 1 1) = 1.
      by rewrite /sf2 big_ord1 big_ord1 !mxE /= invr1 mul1r expr1n.
    have i1 : isf (e_Xtr tiny_env_x 1 1) = 1 by rewrite /isf s1 sqrtr1 invr1.
    have av : avg (e_Mtr tiny_env_x 1 1) = 1%:M.
      apply/matrixP => i j; rewrite !mxE big_ord1 !mxE /= invr1 mul1r.
      by rewrite !ord1 eqxx.
    have Xs : Xstruc 1 1 1 tiny_env_x = 1%:M.
      rewrite /Xstruc i1 scale1r av mul1mx; apply/matrixP => i j.
      by rewrite !mxE /= !ord1 eqxx.
    have A2 : reg (Xstruc 1 1 1 tiny_env_x) (e_alpha tiny_env_x) = 2%:R%:M.
      by rewrite /reg Xs a1 trmx1 mulmx1 -raddfD /= -(natrD _ 1 1).
    have U1 : e_U tiny_env_x 1 = 1%:M.
      by apply/matrixP => i j; rewrite !mxE /= !ord1 eqxx.
    have V1 : e_Vt tiny_env_x 1 = 1%:M.
      by apply/matrixP => i j; rewrite !mxE /= !ord1 eqxx.
    have S2 : diag_mx (e_S tiny_env_x 1)^T = 2%:R%:M.
      by apply/matrixP => i j; rewrite !mxE /= !ord1 eqxx.
    have tol0 : sv_tol (F_ops (2%:R^-1 : F)) 1 (svl tiny_env_x 1) = 1.
      rewrite /sv_tol /svl enum_ordSl enum_ord0 /= /sv_max /= mxE /= ltr0n /= mulr1.
      by rewrite divff // pnatr_eq0.
    have H : svd_hyp tiny_env_x 1 1 1.
      split; rewrite /svd_recon_prog /svd_orthU_prog /svd_orthV_prog !evalSubE ?xprimeE /=.
      - by rewrite -/(e_U _ _) -/(e_Vt _ _) -/(e_S _ _) U1 V1 S2 A2 mul1mx mulmx1 subrr.
      - by rewrite -/(e_U _ _) U1 trmx1 mulmx1 subrr.
      - by rewrite -/(e_Vt _ _) V1 trmx1 mulmx1 subrr.
    have sep i : e_S tiny_env_x 1 i ord0 != 0 ->
        sv_tol (F_ops (2%:R^-1 : F)) 1 (svl tiny_env_x 1) < e_S tiny_env_x 1 i ord0.
      by move=> _; rewrite tol0 mxE /= ltr1n.
    have a0 : 0 < e_alpha tiny_env_x by rewrite a1 ltr01.
    split=> //.
    case: (@rig_rank_diff_alpha_pos F 1%N 1%N 1%N 2%:R^-1 tiny_env_x a0) => _ _; apply=> //.
    by rewrite invr_ge0 ler0n.
  Qed.
End NonVacuityX.
