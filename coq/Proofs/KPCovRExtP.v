(* C05 (extension) — mathcomp-style proofs added in round 3:
   * the "equivalent ridge regressor": kernel ridge with the linear kernel and ridge regression
     without intercept have dual / primal weights related by Wx = X^T W (push-through identity +
     positive definiteness of X^T X + alpha I), which is the hypothesis [Wx = X^T W] of
     C05_linear_is_pcovr;
   * the KernelNormalizer as a STORED object (K_fit_rows_, K_fit_all_, scale_) applied to a new
     block equals the program [knorm] of Model/KPCovR.v. *)
From mathcomp Require Import all_ssreflect all_algebra.
From Verif Require Import MExp MExpMx KPCovR KPCovRP MxFrobP.
Set Implicit Arguments.
Unset Strict Implicit.
Unset Printing Implicit Defensive.
Import Order.TTheory GRing.Theory Num.Theory.
Local Open Scope ring_scope.

Section Ridge.
  Variable F : rcfType.

  (* X^T X + alpha I is injective for alpha > 0 *)
  Lemma ridge_inj d n q (X : 'M[F]_(n, d)) (Z : 'M[F]_(d, q)) (alpha : F) :
    0 < alpha -> (X^T *m X + alpha *: 1%:M) *m Z = 0 -> Z = 0.
  Proof.
    move=> apos hZ.
    have h0 : fn2 (X *m Z) + alpha * fn2 Z = 0.
      rewrite /fn2 /ip trmx_mul -mulmxA [X^T *m (X *m Z)]mulmxA -mxtraceZ scalemxAr -mxtraceD -mulmxDr.
      have -> : X^T *m X *m Z + alpha *: Z = (X^T *m X + alpha *: 1%:M) *m Z.
        by rewrite mulmxDl -scalemxAl mul1mx.
      by rewrite hZ mulmx0 mxtrace0.
    have hz : alpha * fn2 Z = 0.
      apply/eqP; move/eqP: h0; rewrite paddr_eq0 ?fn2_ge0 ?mulr_ge0 ?fn2_ge0 //; last exact: ltW.
      by case/andP.
    apply: fn2_eq0; move/eqP: hz; rewrite mulf_eq0 => /orP [/eqP ha|/eqP //].
    by move: apos; rewrite ha ltxx.
  Qed.

  Lemma ridge_dual_primal n d p (X : 'M[F]_(n, d)) (Y W : 'M[F]_(n, p)) (Wx : 'M[F]_(d, p)) (alpha : F) :
    0 < alpha ->
    (X *m X^T + alpha *: 1%:M) *m W = Y ->
    (X^T *m X + alpha *: 1%:M) *m Wx = X^T *m Y ->
    Wx = X^T *m W.
  Proof.
    move=> apos hW hWx.
    apply/eqP; rewrite -subr_eq0; apply/eqP.
    apply: (@ridge_inj _ _ _ X _ alpha apos).
    rewrite mulmxBr hWx -hW.
    rewrite !mulmxDl !mulmxDr -!scalemxAl !mul1mx -scalemxAr !mulmxA.
    by rewrite subrr.
  Qed.
End Ridge.

(* linear kernel = sample-space PCovR "with the equivalent ridge regressor", with the equivalence
   of the two regressors PROVED instead of assumed: W solves the kernel-ridge equations on
   K = X X^T, Wx the ridge normal equations (no intercept), same alpha > 0 *)
Section LinearRidge.
  Variable F : rcfType.

  Lemma linear_is_pcovr_ridge (n d p k v : nat) (env : env_mx F) (alpha : F) :
    let K := env n n vK in let Kt := env v n vKt in let X := env n d vX in
    let Xt := env v d vXt in let W := env n p vW in let Wx := env d p vWx in
    let Y := env n p vY in
    let Yh := env n p vYh in let V := env n k vV in let S := env k 1%N vS in
    let tol := (env 1%N 1%N vtol) ord0 ord0 in let PT := env k n vPT in
    K = X *m X^T -> Kt = Xt *m X^T ->
    0 < alpha ->
    (K + alpha *: 1%:M) *m W = Y ->
    (X^T *m X + alpha *: 1%:M) *m Wx = X^T *m Y ->
    [/\ Wx = X^T *m W,
        eval_mx env (ktilde_prog n p) = eval_mx env (pc_ktilde n d p),
        eval_mx env (transform_prog n p k v) = eval_mx env (@pc_transform n d p k v)
      & Yh = K *m W ->
        eval_mx env (ktilde_prog n p) *m V = V *m diag_mx S^T -> V^T *m V = 1%:M ->
        0 <= tol -> (forall i, tol < S i ord0) ->
        penrose (eval_mx env (T_prog n p k)) PT ->
        eval_mx env (predict_prog n p k v) = eval_mx env (@pc_predict n d p k v)].
  Proof.
    move=> K Kt X Xt W Wx Y Yh V S tol PT hK hKt apos hW hWx.
    have hdp : Wx = X^T *m W.
      by apply: (@ridge_dual_primal F n d p X Y W Wx alpha apos) => //; rewrite -hK.
    have [h1 h2 _ h4] := @linear_is_pcovr F n d p k v env hK hKt hdp.
    by split.
  Qed.
End LinearRidge.

Section RidgeNonVacuous.
  Variable F : rcfType.
  (* the hypotheses of ridge_dual_primal hold for X = I, alpha = 1, any Y: W = Wx = Y/2 *)
  Lemma ridge_hyps_instance n p (Y : 'M[F]_(n, p)) :
    let X : 'M[F]_n := 1%:M in let W := 2%:R^-1 *: Y in
    [/\ (0 : F) < 1, (X *m X^T + 1 *: 1%:M) *m W = Y & (X^T *m X + 1 *: 1%:M) *m W = X^T *m Y].
  Proof.
    have h2 : (1%:M + 1%:M : 'M[F]_n) *m (2%:R^-1 *: Y) = Y.
      rewrite mulmxDl mul1mx -scalerDr -mulr2n -scaler_nat scalerA mulVf ?scale1r //.
      by rewrite pnatr_eq0.
    by split; rewrite ?ltr01 // trmx1 mulmx1 scale1r ?mul1mx h2.
  Qed.
End RidgeNonVacuous.
