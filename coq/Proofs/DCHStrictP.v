(* "selected => STRICTLY below every convex combination of the other samples at its position"
   under the oracle contract h1, h2, general position w.r.t. the hull (contract_gp) and
   simplicial kept facets (contract_simplex).  Stdlib style, over Q. *)
From Coq Require Import QArith Qabs Lqa Sorting.Sorted.
From Verif Require Import ListX ListXP DCH DCHP DCHExt.

Local Open Scope Q_scope.

(* non-positive terms that sum to zero all vanish *)
Lemma qsum_zero_terms : forall (ws gs : list Q),
  (forall w, In w ws -> 0 <= w) -> (forall g, In g gs -> g <= 0) ->
  qsum (map2 Qmult ws gs) == 0 -> forall j, nth j ws 0 * nth j gs 0 == 0.
Proof.
  induction ws as [|w ws IH]; intros [|g gs] Hw Hg Hs j.
  - destruct j; cbn; ring.
  - destruct j; cbn; ring.
  - destruct j; cbn; ring.
  - cbn in Hs.
    assert (W : 0 <= w) by (apply Hw; now left). assert (G : g <= 0) by (apply Hg; now left).
    assert (R : qsum (map2 Qmult ws gs) <= 0).
    { apply qsum_nonneg_le; intros; [apply Hw|apply Hg]; now right. }
    assert (WG : w * g <= 0) by nra.
    destruct j as [|j]; cbn [nth].
    + lra.
    + apply IH; [intros; apply Hw; now right|intros; apply Hg; now right|lra].
Qed.

Section Strict.
  Variable d : nat.
  Variable fs : list facet.
  Variable P : list (list Q).
  Hypothesis Hwf : wf_dim d fs P.
  Hypothesis H1 : contract_h1 fs P.
  Hypothesis H2 : contract_h2 fs P.
  Hypothesis Hgp : contract_gp fs P.
  Hypothesis Hsx : contract_simplex d fs P.

  Lemma selected_lower_strict i w :
    In i (selected fs) -> is_combo d P w (tl (nth i P [])) -> nth i w 0 == 0 ->
    nth 0 (nth i P []) 0 < combo_target P w.
  Proof.
    intros Hi Hw Hwi.
    pose proof (selected_on_surface d fs P Hwf H1 H2 i w Hi Hw) as Hle.
    destruct (Qlt_le_dec (nth 0 (nth i P []) 0) (combo_target P w)) as [Hlt|Hge]; [exact Hlt|exfalso].
    assert (HT : combo_target P w == nth 0 (nth i P []) 0) by lra.
    apply selected_spec in Hi as (f & Hf & Hv).
    apply (Hsx f i w Hf Hv Hw); [|exact Hwi].
    destruct (H2 f i Hf Hv) as [Hlt Hg].
    pose proof Hf as Hf'. apply lower_facets_In in Hf' as [Hfs Hny].
    destruct Hwf as [Wf Wp].
    assert (Hp : In (nth i P []) P) by now apply nth_In.
    pose proof (Wp _ Hp) as Hl.
    destruct (nth i P []) as [|yi xi] eqn:Ep; [discriminate|]. cbn [tl nth] in *.
    assert (Hx : length xi = d) by (cbn in Hl; congruence).
    destruct Hw as (Hlw & Hpos & Hsum & Hc).
    assert (E : qsum (map2 (fun w p => w * gval f p) w P) == gval f (combo_target P w :: xi)).
    { apply gval_combo.
      - intros p Hp'. rewrite (Wf f Hfs). now apply Wp.
      - cbn. rewrite (Wf f Hfs). congruence.
      - assumption.
      - assumption.
      - reflexivity.
      - intros c Hlt'. apply Hc. lia. }
    assert (G0 : gval f (combo_target P w :: xi) == 0).
    { unfold gval in *. pose proof (Wf f Hfs) as Ln.
      destruct (fnormal f) as [|n0 nx]; [discriminate|].
      rewrite qdot_cons in *. rewrite HT. exact Hg. }
    assert (E2 : qsum (map2 (fun w p => w * gval f p) w P)
                 = qsum (map2 Qmult w (map (gval f) P))) by now rewrite map2_map_r.
    rewrite E2, G0 in E.
    assert (Hgs : forall g, In g (map (gval f) P) -> g <= 0).
    { intros g Hg'. apply in_map_iff in Hg' as (p & <- & Hp'). now apply H1. }
    pose proof (qsum_zero_terms w (map (gval f) P) Hpos Hgs E) as Hz.
    intros j Hj Hnv. specialize (Hz j).
    rewrite (nth_map_lt (gval f) P j 0 []) in Hz by assumption.
    destruct (Qeq_dec (nth j w 0) 0) as [E0|N0]; [exact E0|exfalso].
    apply Qmult_integral in Hz as [Hz|Hz]; [contradiction|].
    apply Hnv. now apply (Hgp f j Hf Hj).
  Qed.
End Strict.

