(* C02, session-4 extension: the selections of farthest point sampling form an r-net.

   With r the distance at which the LAST selection was made (get_select_distance()[-1]):
   - covering: just before that selection every candidate was within r of the selected set
     (so r is the covering radius of the selections made before the last one), and
   - packing: every selection made by the loop was, when it was made, at distance >= r
     from everything selected before it; since the i-th and the j-th selection (i < j) are
     at distance >= the select distance of the j-th, any two selections made by the loop
     are at distance >= r from each other.
   Both hold for ANY [farthest_seq], hence for every fit / chain of warm starts for which
   C02_step_farthest / C02_warm_chain give one; nothing is assumed about [dist]. *)
From Verif Require Import ListX Greedy FPS ListXP GreedyP FPSP.

Section Net.
  Variable cs : list (list Z).
  Variable dist : nat -> nat -> Z.
  Notation n := (length cs).
  Notation tabmin := (tabmin dist).
  Notation farthest_seq := (farthest_seq cs dist).
  Notation is_farthest := (is_farthest cs dist).
  Notation dists := (dists dist).

  Lemma farthest_seq_last s new i :
    farthest_seq s (new ++ [i]) -> farthest_seq s new /\ is_farthest (s ++ new) i.
  Proof.
    revert s; induction new as [|a new IH]; intros s H; cbn in *.
    - destruct H as [H _]. rewrite app_nil_r. split; [exact I|exact H].
    - destruct H as [Ha Hrest]. destruct (IH _ Hrest) as [H1 H2].
      rewrite <- app_assoc in H2. cbn in H2. split; [split; assumption|exact H2].
  Qed.

  Lemma dists_app s new i : dists s (new ++ [i]) = dists s new ++ [tabmin i (s ++ new)].
  Proof.
    revert s; induction new as [|a new IH]; intros s; cbn.
    - now rewrite app_nil_r.
    - rewrite IH, <- app_assoc. reflexivity.
  Qed.

  Lemma nonincreasing_head_ge a l :
    nonincreasing (a :: l) -> Forall (fun d => ext_le d a) l.
  Proof.
    revert a; induction l as [|b l IH]; intros a H; [constructor|].
    destruct H as [Hba Hrest]. constructor; [exact Hba|].
    refine (Forall_impl _ _ (IH b Hrest)).
    intros d Hd. exact (ext_le_trans _ _ _ Hd Hba).
  Qed.

  Lemma nonincreasing_tail a l : nonincreasing (a :: l) -> nonincreasing l.
  Proof. destruct l as [|b l]; cbn; [auto|intros [_ H]; exact H]. Qed.

  Lemma nonincreasing_last_le l r :
    nonincreasing (l ++ [r]) -> Forall (fun d => ext_le r d) (l ++ [r]).
  Proof.
    induction l as [|a l IH]; intros H.
    - cbn. constructor; [apply ext_le_refl|constructor].
    - cbn [app] in *. constructor.
      + pose proof (nonincreasing_head_ge _ _ H) as HF.
        rewrite Forall_forall in HF. apply HF. apply in_or_app. right. now left.
      + apply IH. eapply nonincreasing_tail; exact H.
  Qed.

  (* covering: before the last selection every candidate is within r of the selected set *)
  Theorem farthest_net_covering s new i :
    farthest_seq s (new ++ [i]) ->
    forall j, (j < n)%nat -> ext_le (tabmin j (s ++ new)) (tabmin i (s ++ new)).
  Proof.
    intros H. destruct (farthest_seq_last _ _ _ H) as [_ (_ & _ & Hmax & _)]. exact Hmax.
  Qed.

  (* packing: every selection of the loop was made at distance >= r *)
  Theorem farthest_net_packing s new i :
    farthest_seq s (new ++ [i]) ->
    Forall (fun d => ext_le (tabmin i (s ++ new)) d) (dists s (new ++ [i])).
  Proof.
    intros H. rewrite dists_app. apply nonincreasing_last_le.
    rewrite <- dists_app. apply (farthest_dists_nonincreasing cs dist). exact H.
  Qed.

  (* ... and after the last selection the covering radius has not grown: the table that
     get_distance() reports (C02_table_true) is bounded by r everywhere *)
  Theorem farthest_net_covering_after s new i :
    farthest_seq s (new ++ [i]) ->
    forall j, (j < n)%nat -> ext_le (tabmin j ((s ++ new) ++ [i])) (tabmin i (s ++ new)).
  Proof.
    intros H j Hj. rewrite tabmin_app.
    eapply ext_le_trans; [apply ext_min_le_l|]. eapply farthest_net_covering; eassumption.
  Qed.
End Net.
