(* C12 (extension) — proofs about Model/KernelCutMx.v (ssreflect / mathcomp style):
   the program computes U diag(f) U^T; it is the Moore-Penrose pseudo-inverse of the matrix
   truncated at the cut-off (of Kmm itself when nothing non-zero is discarded); a cut-off
   RELATIVE to the largest |eigenvalue| makes it homogeneous of degree -1, and with it the
   output of SparseKernelCenterer does not depend on the magnitude of the kernels; the flag
   statements for the sparse class. *)
From mathcomp Require Import all_ssreflect all_algebra.
From Verif Require Import MExp MExpMx MxBox MxBoxP ScalerMx ScalerP KernelNorm KernelNormMx KernelNormP.
From Verif Require Import KernelCut KernelCutMx.
Set Implicit Arguments.
Unset Strict Implicit.
Unset Printing Implicit Defensive.
Import Order.Theory GRing.Theory Num.Theory.
Local Open Scope ring_scope.

Section CutProg.
  Variable F : rcfType.
  Variable m : nat.
  Implicit Types (U : 'M[F]_m) (v d e : 'rV[F]_m) (t c : F).

  Lemma evDiag (env : env_mx F) n (a : mexp n 1) :
    eval_mx env (MDiag a) = diag_mx (eval_mx env a)^T.
  Proof. by []. Qed.

  Lemma sq_cut t (x : F) : 0 <= t -> (t ^+ 2 < x * x) = (t < `|x|).
  Proof.
    move=> t0; rewrite -expr2 -(real_normK (num_real x)).
    by rewrite ltr_sqr // nnegrE.
  Qed.

  (* what the program evaluates to *)
  Lemma pc_P_mxE t U v : 0 <= t -> pc_P_mx t U v = U *m diag_mx (cut_inv t v) *m U^T.
  Proof.
    move=> t0; rewrite /pc_P_mx /pc_P !evMul evTr evDiag evTr.
    rewrite /cU /cV !evVar /env_of /= !unbox_box.
    congr (_ *m diag_mx _ *m _); apply/rowP => j.
    rewrite trmxK !mxE /= mulr1n sq_cut //.
    case: ifP => [lt|_]; last by rewrite mulr0.
    have v0 : v ord0 j != 0 by rewrite -normr_gt0 (le_lt_trans t0).
    by rewrite invfM mulrA divff // mul1r.
  Qed.
End CutProg.

Section Conj.
  Variable F : rcfType.
  Variable m : nat.
  Variable U : 'M[F]_m.
  Hypothesis orth : U^T *m U = 1%:M.
  Implicit Types (X Y : 'M[F]_m) (d e : 'rV[F]_m).

  Definition conj X : 'M[F]_m := U *m X *m U^T.

  Lemma conjM X Y : conj X *m conj Y = conj (X *m Y).
  Proof.
    by rewrite /conj -!mulmxA (mulmxA U^T U) orth mul1mx.
  Qed.

  Lemma conj_tr X : (conj X)^T = conj X^T.
  Proof. by rewrite /conj !trmx_mul trmxK mulmxA. Qed.

  Lemma conj_diagM d e : conj (diag_mx d) *m conj (diag_mx e) = conj (diag_mx (\row_j (d ord0 j * e ord0 j))).
  Proof. by rewrite conjM mulmx_diag. Qed.

  Lemma conj_diag_sym d : (conj (diag_mx d))^T = conj (diag_mx d).
  Proof. by rewrite conj_tr tr_diag_mx. Qed.

  (* entrywise generalised inverses on the diagonal give a Moore-Penrose pair *)
  Lemma diag_penrose d e :
    (forall j, d ord0 j * e ord0 j * d ord0 j = d ord0 j) ->
    (forall j, e ord0 j * d ord0 j * e ord0 j = e ord0 j) ->
    penrose (conj (diag_mx d)) (conj (diag_mx e)).
  Proof.
    move=> h1 h2; split.
    - rewrite !conj_diagM; congr (conj (diag_mx _)); apply/rowP => j.
      by rewrite !mxE h1.
    - rewrite !conj_diagM; congr (conj (diag_mx _)); apply/rowP => j.
      by rewrite !mxE h2.
    - by rewrite conj_diagM conj_diag_sym.
    - by rewrite conj_diagM conj_diag_sym.
  Qed.
End Conj.

Section CutTheorems.
  Variable F : rcfType.
  Variable m : nat.
  Implicit Types (K U : 'M[F]_m) (v : 'rV[F]_m) (t c rc x : F).

  (* C12_pinv_cutoff_penrose: the model's pinv is THE pseudo-inverse of the matrix truncated at
     the cut-off ... *)
  Lemma pinv_cut_penrose t U v :
    0 <= t -> U^T *m U = 1%:M ->
    penrose (U *m diag_mx (cut_keep t v) *m U^T) (pc_P_mx t U v).
  Proof.
    move=> t0 orth; rewrite pc_P_mxE //; apply: (diag_penrose orth) => j; rewrite !mxE.
    - case: ifP => [lt|_]; last by rewrite !mulr0.
      have v0 : v ord0 j != 0 by rewrite -normr_gt0 (le_lt_trans t0).
      by rewrite divff // mul1r.
    - case: ifP => [lt|_]; last by rewrite !mulr0.
      have v0 : v ord0 j != 0 by rewrite -normr_gt0 (le_lt_trans t0).
      by rewrite mulVf // mul1r.
  Qed.

  (* ... and of Kmm itself when every non-zero eigenvalue is above the cut-off *)
  Lemma pinv_cut_penrose_full t K U v :
    0 <= t -> spectral K U v ->
    (forall j, v ord0 j != 0 -> t < `|v ord0 j|) ->
    penrose K (pc_P_mx t U v).
  Proof.
    move=> t0 [orth eK] gap.
    have ek : cut_keep t v = v.
      apply/rowP => j; rewrite !mxE; case: ifP => // /negbT nlt.
      by apply/esym/eqP; apply: contraNT nlt; apply: gap.
    by have := pinv_cut_penrose v t0 orth; rewrite ek -eK.
  Qed.

  (* a relative cut-off is homogeneous *)
  Lemma is_vmax_scale c x v : 0 < c -> is_vmax x v -> is_vmax (c * x) (c *: v).
  Proof.
    move=> c0 [le [j0 ej]]; split=> [j|].
      by rewrite mxE normrM (gtr0_norm c0) ler_pmul2l.
    by exists j0; rewrite mxE normrM (gtr0_norm c0) ej.
  Qed.

  Lemma is_vmax_ge0 x v : is_vmax x v -> 0 <= x.
  Proof. by move=> [_ [j <-]]. Qed.

  Lemma cut_inv_scale c t v : 0 < c -> cut_inv (c * t) (c *: v) = c^-1 *: cut_inv t v.
  Proof.
    move=> c0; apply/rowP => j; rewrite !mxE normrM (gtr0_norm c0) ltr_pmul2l //.
    by case: ifP => _; rewrite ?mulr0 // invfM.
  Qed.

  Lemma pinv_cut_homog c rc x U v :
    0 < c -> 0 <= rc -> is_vmax x v ->
    pc_P_mx (rc * (c * x)) U (c *: v) = c^-1 *: pc_P_mx (rc * x) U v.
  Proof.
    move=> c0 rc0 vm; have x0 := is_vmax_ge0 vm.
    rewrite !pc_P_mxE ?mulr_ge0 // ?(ltW c0) //.
    have -> : rc * (c * x) = c * (rc * x) by rewrite mulrCA.
    by rewrite cut_inv_scale // linearZ /= -scalemxAr -scalemxAl.
  Qed.
End CutTheorems.

(* ---- SparseKernelCenterer: flags, test block, independence of the kernel magnitude --------- *)
Section SparseMore.
  Variable F : rcfType.
  Variables (cfg : kn_cfg) (n m : nat) (w : 'cV[F]_n).
  Variables (Knm : 'M[F]_(n, m)) (Kmm P : 'M[F]_(m, m)).
  Hypothesis ok : kn_wok cfg w.
  Let ew := kn_effw cfg w.

  (* with_center=False: no means are stored, transform only divides by scale_ *)
  Lemma sk_no_center :
    ~~ kn_center cfg ->
    let st := sk_fit_mx cfg Knm w Kmm P in
    [/\ st.1 = 0,
        st.2 = (if kn_trace cfg then (Num.sqrt (\tr (Knm *m P *m Knm^T) / n%:R))%:M else 1%:M)
      & forall k (Kt : 'M[F]_(k, m)), sk_transform_mx st Kt = (st.2 ord0 ord0)^-1 *: Kt].
  Proof.
    move=> /negbTE nc st; rewrite /st sk_fit_mxE //= /sk_scale_spec /sk_kc_spec /sk_rows_spec nc.
    have r0 k : rows_of k (0 : 'rV[F]_m) = 0 by apply/matrixP => i j; rewrite !mxE.
    split=> // [|k Kt]; first by rewrite r0 subr0.
    by rewrite sk_transform_mxE /= !r0 !subr0.
  Qed.

  (* the transformed test block: (Kt - weighted column means of the TRAINING block) / scale_ *)
  Lemma sk_test_block k (Kt : 'M[F]_(k, m)) :
    let st := sk_fit_mx cfg Knm w Kmm P in
    sk_transform_mx st Kt
    = (st.2 ord0 ord0)^-1 *: (Kt - rows_of k (if kn_center cfg then wmean ew Knm else 0)).
  Proof. by move=> st; rewrite /st sk_fit_mxE // sk_transform_mxE. Qed.
End SparseMore.

(* with_trace=False switches off exactly the scaling (sparse class) *)
Lemma sk_trace_only_scales (F : rcfType) (c h : bool) (n m : nat) (w : 'cV[F]_n)
      (Knm : 'M[F]_(n, m)) (Kmm P : 'M[F]_(m, m)) :
  let cfg1 := KnCfg c true h in
  let cfg0 := KnCfg c false h in
  kn_wok cfg1 w ->
  let st1 := sk_fit_mx cfg1 Knm w Kmm P in
  let st0 := sk_fit_mx cfg0 Knm w Kmm P in
  [/\ st0.1 = st1.1, st0.2 = 1%:M
    & st1.2 ord0 ord0 != 0 ->
      forall k (Kt : 'M[F]_(k, m)),
        sk_transform_mx st0 Kt = st1.2 ord0 ord0 *: sk_transform_mx st1 Kt].
Proof.
  move=> cfg1 cfg0 ok1 st1 st0.
  have ok0 : kn_wok cfg0 w by [].
  rewrite /st0 /st1 !sk_fit_mxE //=; split=> // s0 k Kt.
  rewrite !sk_transform_mxE /= scalerA mulfV // scale1r.
  by rewrite /sk_scale_spec /= mxE eqxx mulr1n invr1 scale1r.
Qed.

Section Magnitude.
  Variable F : rcfType.
  Variables (cfg : kn_cfg) (n m : nat) (w : 'cV[F]_n).
  Variables (Knm : 'M[F]_(n, m)) (Kmm P : 'M[F]_(m, m)).
  Hypothesis ok : kn_wok cfg w.
  Variable c : F.
  Hypothesis c0 : 0 < c.
  Let ew := kn_effw cfg w.

  Lemma rows_of_scale k (r : 'rV[F]_m) : rows_of k (c *: r) = c *: rows_of k r.
  Proof. by apply/matrixP => i j; rewrite !mxE. Qed.

  Lemma sandwich_scale q (a b : F) (A : 'M[F]_(q, m)) (Q : 'M[F]_m) :
    (a *: A) *m (b *: Q) *m (a *: A)^T = (a * b * a) *: (A *m Q *m A^T).
  Proof.
    rewrite -scalemxAl -scalemxAr scalerA linearZ /= -scalemxAr -scalemxAl scalerA.
    by rewrite [a * (a * b)]mulrC.
  Qed.

  (* kernels c Knm, c Kmm and the pseudo-inverse P / c: means scale by c, scale_ by sqrt c *)
  Lemma sk_fit_scaled :
    let st := sk_fit_mx cfg Knm w Kmm P in
    let st' := sk_fit_mx cfg (c *: Knm) w (c *: Kmm) (c^-1 *: P) in
    st'.1 = c *: st.1 /\ st'.2 = (if kn_trace cfg then Num.sqrt c else 1) *: st.2.
  Proof.
    move=> st st'; rewrite /st /st' !sk_fit_mxE //=.
    have er : sk_rows_spec cfg w (c *: Knm) = c *: sk_rows_spec cfg w Knm.
      rewrite /sk_rows_spec; case: (kn_center cfg); last by rewrite scaler0.
      by rewrite !wmeanE -scalemxAr.
    have ek : sk_kc_spec cfg w (c *: Knm) = c *: sk_kc_spec cfg w Knm.
      by rewrite /sk_kc_spec er rows_of_scale scalerBr.
    split=> //; rewrite /sk_scale_spec ek; case: (kn_trace cfg); last by rewrite scale1r.
    rewrite sandwich_scale mulfV ?lt0r_neq0 // mul1r.
    rewrite mxtraceZ -mulrA sqrtrM ?ltW //.
    by apply/matrixP => i j; rewrite !mxE mulrnAr.
  Qed.

  (* the transformed blocks scale by sqrt c (by c when trace scaling is off) ... *)
  Lemma sk_transform_scaled k (Kt : 'M[F]_(k, m)) :
    let st := sk_fit_mx cfg Knm w Kmm P in
    let st' := sk_fit_mx cfg (c *: Knm) w (c *: Kmm) (c^-1 *: P) in
    st.2 ord0 ord0 != 0 ->
    sk_transform_mx st' (c *: Kt)
    = (if kn_trace cfg then Num.sqrt c else c) *: sk_transform_mx st Kt.
  Proof.
    move=> st st' s0; have [e1 e2] := sk_fit_scaled.
    rewrite !sk_transform_mxE -/st -/st' e1 e2 rows_of_scale -scalerBr !scalerA mxE.
    congr (_ *: _); case: (kn_trace cfg); last by rewrite mul1r mulrC.
    have q0 : Num.sqrt c != 0 by rewrite lt0r_neq0 // sqrtr_gt0.
    have ec : c = Num.sqrt c * Num.sqrt c by rewrite -expr2 sqr_sqrtr // ltW.
    by rewrite -/st invfM mulrAC [X in _ * X * _]ec mulrA mulVf // mul1r.
  Qed.

  (* ... so the centred Nystrom kernel of the transformed training block is the same *)
  Lemma sk_nystrom_scaled :
    kn_trace cfg ->
    let st := sk_fit_mx cfg Knm w Kmm P in
    let st' := sk_fit_mx cfg (c *: Knm) w (c *: Kmm) (c^-1 *: P) in
    st.2 ord0 ord0 != 0 ->
    let T := sk_transform_mx st Knm in
    let T' := sk_transform_mx st' (c *: Knm) in
    T' *m (c^-1 *: P) *m T'^T = T *m P *m T^T.
  Proof.
    move=> tr st st' s0 T T'; rewrite /T' (sk_transform_scaled Knm s0) tr -/T.
    rewrite sandwich_scale mulrAC -expr2 sqr_sqrtr ?ltW // mulfV ?lt0r_neq0 //.
    by rewrite scale1r.
  Qed.
End Magnitude.

(* C12_sparse_magnitude_invariant: with the pseudo-inverse the MODEL computes from the spectral
   data and the relative cut-off rcond * max|eigenvalue|, multiplying all kernels by c > 0
   (features by sqrt c) multiplies the stored means by c, scale_ by sqrt c, the transformed
   blocks by sqrt c, and leaves the centred Nystrom kernel of the transformed block unchanged *)
Lemma sk_magnitude_invariant (F : rcfType) (cfg : kn_cfg) (n m : nat) (w : 'cV[F]_n)
      (Knm : 'M[F]_(n, m)) (Kmm U : 'M[F]_m) (v : 'rV[F]_m) (rc x c : F) :
  kn_wok cfg w -> 0 < c -> 0 <= rc -> is_vmax x v ->
  let P := pc_P_mx (rc * x) U v in
  let P' := pc_P_mx (rc * (c * x)) U (c *: v) in
  let st := sk_fit_mx cfg Knm w Kmm P in
  let st' := sk_fit_mx cfg (c *: Knm) w (c *: Kmm) P' in
  let f := if kn_trace cfg then Num.sqrt c else 1 in
  [/\ P' = c^-1 *: P,
      st'.1 = c *: st.1 /\ st'.2 = f *: st.2,
      st.2 ord0 ord0 != 0 ->
      forall k (Kt : 'M[F]_(k, m)),
        sk_transform_mx st' (c *: Kt) = (if kn_trace cfg then Num.sqrt c else c) *: sk_transform_mx st Kt
    & kn_trace cfg -> st.2 ord0 ord0 != 0 ->
      let T := sk_transform_mx st Knm in
      let T' := sk_transform_mx st' (c *: Knm) in
      T' *m P' *m T'^T = T *m P *m T^T].
Proof.
  move=> ok c0 rc0 vm P P' st st' f.
  have eP : P' = c^-1 *: P by rewrite /P' /P pinv_cut_homog.
  rewrite /st' eP; split=> //.
  - exact: sk_fit_scaled.
  - by move=> s0 k Kt; apply: sk_transform_scaled.
  - by move=> tr s0; apply: sk_nystrom_scaled.
Qed.

(* non-vacuity of the cut-off statements: over every real closed field, Kmm = diag(4, 0) with
   U = 1: the largest |eigenvalue| is 4, the zero eigenvalue is discarded for every rcond >= 0,
   nothing non-zero is, and the model's pinv is diag(1/4, 0) *)
Lemma cut_nonvacuous (F : rcfType) (rc : F) :
  0 <= rc -> rc < 1 ->
  let v : 'rV[F]_2 := \row_j (if j == ord0 then 4%:R else 0) in
  [/\ is_vmax 4%:R v, spectral (diag_mx v) 1%:M v,
      (forall j, v ord0 j != 0 -> rc * 4%:R < `|v ord0 j|)
    & pc_P_mx (rc * 4%:R) 1%:M v = diag_mx (\row_j (if j == ord0 then 4%:R^-1 else 0))].
Proof.
  move=> rc0 rc1 v.
  have four : (0 : F) < 4%:R by rewrite ltr0n.
  have gap : forall j, v ord0 j != 0 -> rc * 4%:R < `|v ord0 j|.
    move=> j; rewrite !mxE; case: ifP => _; last by rewrite eqxx.
    by move=> _; rewrite (gtr0_norm four) gtr_pmull.
  split=> //.
  - split=> [j|]; last by exists ord0; rewrite !mxE eqxx gtr0_norm.
    by rewrite !mxE; case: ifP => _; [rewrite gtr0_norm | rewrite normr0 ltW].
  - by split; rewrite ?trmx1 ?mulmx1 ?mul1mx.
  - rewrite pc_P_mxE; last by rewrite mulr_ge0 // ltW.
    rewrite trmx1 mulmx1 mul1mx; congr (diag_mx _).
    apply/rowP => j; rewrite !mxE.
    case: (j == ord0).
      by rewrite (gtr0_norm four) gtr_pmull // rc1.
    by rewrite normr0 ltNge mulr_ge0 // ltW.
Qed.

(* ---- a common non-zero factor on the sample weights changes nothing -------------------------- *)
Section WeightScale.
  Variable F : rcfType.
  Variables (cfg : kn_cfg) (n : nat) (w : 'cV[F]_n) (a : F).
  Hypothesis a0 : a != 0.
  Hypothesis ok : kn_wok cfg w.

  Lemma kn_wok_scale : kn_wok cfg (a *: w).
  Proof.
    move: ok; rewrite /kn_wok /kn_effw; case: (kn_has_w cfg) => // S0.
    by rewrite wsum_scale mulf_neq0.
  Qed.

  Lemma nw_effw_scale : nw (kn_effw cfg (a *: w)) = nw (kn_effw cfg w).
  Proof. by rewrite /kn_effw; case: (kn_has_w cfg) => //; exact: nw_scale. Qed.

  Lemma kn_fit_wscale (K : 'M[F]_(n, n)) : kn_fit_mx cfg K (a *: w) = kn_fit_mx cfg K w.
  Proof.
    rewrite !kn_fit_mxE //; last exact: kn_wok_scale.
    by rewrite /scale_spec /all_spec /rows_spec /centered_mx !nw_effw_scale.
  Qed.

  Lemma kn_transform_wscale k (st : kn_st F n) (Kt : 'M[F]_(k, n)) :
    kn_transform_mx cfg (a *: w) st Kt = kn_transform_mx cfg w st Kt.
  Proof.
    rewrite !kn_transform_mxE //; last exact: kn_wok_scale.
    by rewrite /centered_mx nw_effw_scale.
  Qed.

  Lemma sk_fit_wscale m (Knm : 'M[F]_(n, m)) (Kmm P : 'M[F]_m) :
    sk_fit_mx cfg Knm (a *: w) Kmm P = sk_fit_mx cfg Knm w Kmm P.
  Proof.
    rewrite !sk_fit_mxE //; last exact: kn_wok_scale.
    by rewrite /sk_scale_spec /sk_kc_spec /sk_rows_spec !wmeanE !nw_effw_scale.
  Qed.

  Lemma weight_scale_invariant :
    [/\ kn_wok cfg (a *: w),
        forall K : 'M[F]_(n, n), kn_fit_mx cfg K (a *: w) = kn_fit_mx cfg K w,
        forall k (st : kn_st F n) (Kt : 'M[F]_(k, n)),
          kn_transform_mx cfg (a *: w) st Kt = kn_transform_mx cfg w st Kt
      & forall m (Knm : 'M[F]_(n, m)) (Kmm P : 'M[F]_m),
          sk_fit_mx cfg Knm (a *: w) Kmm P = sk_fit_mx cfg Knm w Kmm P].
  Proof.
    split; [exact: kn_wok_scale | exact: kn_fit_wscale | exact: kn_transform_wscale
           | exact: sk_fit_wscale].
  Qed.
End WeightScale.
