(* One hull dimension, complete: the monotone chain returns exactly the samples that are
   lower vertices in the sense of the specification [is_lower_vertex] (no convex combination
   of other samples at the same position has a target <= theirs). *)
From Coq Require Import Sorting.Sorted.
From Verif Require Import ListX DCH DCHChainP DCHSpecP.

Lemma not_lower_1d_ext pts pts' q :
  (forall a, In a pts <-> In a pts') -> (not_lower_1d pts q <-> not_lower_1d pts' q).
Proof.
  intros H. split; intros (a & b & Ha & Hb & R); exists a, b; (split; [now apply H|]);
    (split; [now apply H|exact R]).
Qed.

Theorem chain_1d_complete P pts i :
  (forall p, In p P -> length p = 2%nat) -> (i < length P)%nat ->
  (forall j, (j < length P)%nat -> j <> i -> nth 1 (nth j P []) 0 <> nth 1 (nth i P []) 0) ->
  sorted_x pts = true -> (forall q, In q pts <-> In q (map pt1 P)) ->
  (In (pt1 (nth i P [])) (chain pts) <-> is_lower_vertex 1 P i).
Proof.
  intros Hdim Hi Hdist Hsx Hmem. unfold is_lower_vertex.
  rewrite (below_combo_1d P i Hdim Hi Hdist).
  rewrite <- (not_lower_1d_ext pts (map pt1 P) _ Hmem).
  destruct (chain_spec pts (sorted_x_spec pts Hsx)) as (_ & _ & Hnot & Hlow).
  set (q := pt1 (nth i P [])).
  assert (Hq : In q pts) by (apply Hmem, in_map, nth_In, Hi).
  split; [apply Hlow|]. intros Hn.
  destruct (In_dec (fun a b : pt => ltac:(decide equality; apply Z.eq_dec)) q (chain pts)) as [|Hc];
    [assumption|].
  exfalso. apply Hn. now apply Hnot.
Qed.
