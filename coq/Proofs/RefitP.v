(* Soundness of the definite-assignment analyser of Model/Refit.v (stdlib style).

   [lockstep]: if [da L D c] reports no site, two executions of c under the same oracle, from
   the same local memory and from stores that agree on every known attribute, end the same way
   (same exit kind, same local memory) in stores that agree on the set the analyser computed
   for that exit.  [refit_ok_sound] / [refit_fresh_sound]: the two stores may differ arbitrarily
   on the learned attributes (any prior history of the object versus a fresh estimator); a
   terminating cold fit ends, in both, with the same exit and -- unless it raised -- with
   exactly the same store. *)
From Coq Require Import List PArith Bool Arith Lia MSets.MSetPositive.
Import ListNotations.
From Verif Require Import Effects Refit.

(* ------------------------------------------------------------------ sets *)
Lemma mem_add_or : forall a b D, PS.mem a (PS.add b D) = true <-> a = b \/ PS.mem a D = true.
Proof.
  intros a b D. rewrite !PS.mem_spec. rewrite PS.add_spec. reflexivity.
Qed.

Lemma mem_inter_and : forall a D E, PS.mem a (PS.inter D E) = true <-> PS.mem a D = true /\ PS.mem a E = true.
Proof. intros a D E. rewrite !PS.mem_spec. apply PS.inter_spec. Qed.

Lemma subset_mem : forall D E a, PS.subset D E = true -> PS.mem a D = true -> PS.mem a E = true.
Proof.
  intros D E a Hs Hm. apply PS.subset_spec in Hs. apply PS.mem_spec. apply Hs. now apply PS.mem_spec.
Qed.

Lemma mem_union_false :
  forall a D E, PS.mem a (PS.union D E) = false -> PS.mem a D = false /\ PS.mem a E = false.
Proof.
  intros a D E H. split.
  - destruct (PS.mem a D) eqn:E1; [| reflexivity].
    assert (X : PS.mem a (PS.union D E) = true)
      by (apply PS.mem_spec, PS.union_spec; left; now apply PS.mem_spec).
    rewrite X in H. discriminate H.
  - destruct (PS.mem a E) eqn:E1; [| reflexivity].
    assert (X : PS.mem a (PS.union D E) = true)
      by (apply PS.mem_spec, PS.union_spec; right; now apply PS.mem_spec).
    rewrite X in H. discriminate H.
Qed.

Lemma mem_singleton_false : forall a b, PS.mem a (PS.singleton b) = false -> a <> b.
Proof.
  intros a b H E. subst b.
  assert (X : PS.mem a (PS.singleton a) = true) by (apply PS.mem_spec, PS.singleton_spec; reflexivity).
  rewrite X in H. discriminate H.
Qed.

Lemma supd_same : forall st a v, supd st a v a = v.
Proof. intros. unfold supd. now rewrite Pos.eqb_refl. Qed.

Lemma supd_other : forall st a v b, b <> a -> supd st a v b = st b.
Proof.
  intros st a v b Hne. unfold supd.
  destruct (Pos.eqb b a) eqn:E; [apply Pos.eqb_eq in E; contradiction | reflexivity].
Qed.

(* ------------------------------------------------------------------ agreement *)
Definition agree (L D : PS.t) (s1 s2 : store) : Prop :=
  forall a, known L D a = true -> s1 a = s2 a.

Definition oagree (L : PS.t) (o : option PS.t) (s1 s2 : store) : Prop :=
  exists D, o = Some D /\ agree L D s1 s2.

Lemma known_sub : forall L D E a, PS.subset D E = true -> known L D a = true -> known L E a = true.
Proof.
  intros L D E a Hs Hk. unfold known in *. apply orb_true_iff in Hk. apply orb_true_iff.
  destruct Hk as [Hk | Hk]; [left; eapply subset_mem; eassumption | right; exact Hk].
Qed.

Lemma agree_sub : forall L D E s1 s2, PS.subset D E = true -> agree L E s1 s2 -> agree L D s1 s2.
Proof. intros L D E s1 s2 Hs Ha a Hk. apply Ha. eapply known_sub; eassumption. Qed.

Lemma agree_upd :
  forall L D s1 s2 a v, agree L D s1 s2 -> agree L (PS.add a D) (supd s1 a v) (supd s2 a v).
Proof.
  intros L D s1 s2 a v Ha b Hk.
  destruct (Pos.eq_dec b a) as [E | Hne].
  - subst b. now rewrite !supd_same.
  - rewrite !supd_other by exact Hne. apply Ha.
    unfold known in *. apply orb_true_iff in Hk. apply orb_true_iff.
    destruct Hk as [Hk | Hk]; [| right; exact Hk].
    apply mem_add_or in Hk. destruct Hk as [Hk | Hk]; [contradiction | left; exact Hk].
Qed.

Lemma agree_inter_l : forall L D E s1 s2, agree L D s1 s2 -> agree L (PS.inter D E) s1 s2.
Proof.
  intros L D E s1 s2 Ha a Hk. apply Ha. unfold known in *. apply orb_true_iff in Hk. apply orb_true_iff.
  destruct Hk as [Hk | Hk]; [left; now apply mem_inter_and in Hk | right; exact Hk].
Qed.

Lemma agree_inter_r : forall L D E s1 s2, agree L E s1 s2 -> agree L (PS.inter D E) s1 s2.
Proof.
  intros L D E s1 s2 Ha a Hk. apply Ha. unfold known in *. apply orb_true_iff in Hk. apply orb_true_iff.
  destruct Hk as [Hk | Hk]; [left; now apply mem_inter_and in Hk | right; exact Hk].
Qed.

Lemma oagree_some : forall L D s1 s2, agree L D s1 s2 -> oagree L (Some D) s1 s2.
Proof. intros. exists D. split; [reflexivity | assumption]. Qed.

Lemma oagree_inv : forall L D s1 s2, oagree L (Some D) s1 s2 -> agree L D s1 s2.
Proof. intros L D s1 s2 [D' [E H]]. inversion E. subst. exact H. Qed.

Lemma oagree_none : forall L s1 s2, oagree L None s1 s2 -> False.
Proof. intros L s1 s2 [D [E _]]. discriminate E. Qed.

Lemma oagree_meet_l : forall L o1 o2 s1 s2, oagree L o1 s1 s2 -> oagree L (omeet o1 o2) s1 s2.
Proof.
  intros L o1 o2 s1 s2 [D [E H]]. subst o1. destruct o2 as [D2 |]; cbn.
  - apply oagree_some. now apply agree_inter_l.
  - now apply oagree_some.
Qed.

Lemma oagree_meet_r : forall L o1 o2 s1 s2, oagree L o2 s1 s2 -> oagree L (omeet o1 o2) s1 s2.
Proof.
  intros L o1 o2 s1 s2 [D [E H]]. subst o2. destruct o1 as [D1 |]; cbn.
  - apply oagree_some. now apply agree_inter_r.
  - now apply oagree_some.
Qed.

Lemma oagree_osub :
  forall L D o s1 s2, osub D o = true -> oagree L o s1 s2 -> agree L D s1 s2.
Proof.
  intros L D o s1 s2 Hs [E [Eq H]]. subst o. cbn in Hs. eapply agree_sub; eassumption.
Qed.

Lemma sel_xmeet : forall k x y, sel k (xmeet x y) = omeet (sel k x) (sel k y).
Proof. intros k x y. destruct k; reflexivity. Qed.

(* ------------------------------------------------------------------ executions in lockstep *)
Lemma exec_S : forall Oc f c m st, exec Oc (S f) c m st = exec_body Oc (exec Oc f) c m st.
Proof. reflexivity. Qed.

Ltac inv_some H := inversion H; subst; clear H.

Lemma lockstep :
  forall Oc L fuel c D m s1 s2 x k1 m1 t1 k2 m2 t2,
    da L D c = (x, []) -> agree L D s1 s2 ->
    exec Oc fuel c m s1 = Some (k1, m1, t1) ->
    exec Oc fuel c m s2 = Some (k2, m2, t2) ->
    k1 = k2 /\ m1 = m2 /\ oagree L (sel k1 x) t1 t2.
Proof.
  intros Oc L. induction fuel as [| f IH]; intros c D m s1 s2 x k1 m1 t1 k2 m2 t2 Hda Hag H1 H2.
  - discriminate H1.
  - pose proof Hda as Hda0.
    rewrite exec_S in H1, H2.
    destruct c as [| a s | a s | a s | a s | s | c1 c2 | s c1 c2 | s c1 | c1 | | | | | s c1 h];
      cbn [exec_body] in H1, H2; cbn [da] in Hda.
    + (* CSkip *)
      inv_some H1. inv_some H2. inv_some Hda. repeat split. cbn. now apply oagree_some.
    + (* CRead *)
      destruct (known L D a) eqn:Hk; [| discriminate Hda].
      inv_some H1. inv_some H2. inv_some Hda. rewrite (Hag a Hk). repeat split. cbn. now apply oagree_some.
    + (* CAssign *)
      inv_some H1. inv_some H2. inv_some Hda. repeat split. cbn. apply oagree_some. now apply agree_upd.
    + (* CDel *)
      destruct (known L D a) eqn:Hk; [| discriminate Hda].
      inv_some Hda. rewrite <- (Hag a Hk) in H2.
      destruct (s1 a) as [v |].
      * inv_some H1. inv_some H2. repeat split. cbn. apply oagree_some. now apply agree_upd.
      * inv_some H1. inv_some H2. repeat split. cbn. now apply oagree_some.
    + (* CReset *)
      inv_some H1. inv_some H2. inv_some Hda. repeat split. cbn. apply oagree_some. now apply agree_upd.
    + (* CLocal *)
      inv_some H1. inv_some H2. inv_some Hda. repeat split. cbn. now apply oagree_some.
    + (* CSeq *)
      destruct (da L D c1) as [x1 b1] eqn:E1.
      destruct (exec Oc f c1 m s1) as [[[ka ma] ta] |] eqn:Ea; [| discriminate H1].
      destruct (exec Oc f c1 m s2) as [[[kb mb] tb] |] eqn:Eb; [| discriminate H2].
      destruct (xn x1) as [D1 |] eqn:En.
      * destruct (da L D1 c2) as [x2 b2] eqn:E2. inv_some Hda.
        match goal with H : _ ++ _ = [] |- _ => apply app_eq_nil in H; destruct H as [Hb1 Hb2] end.
        subst b1 b2.
        destruct (IH c1 D m s1 s2 x1 ka ma ta kb mb tb E1 Hag Ea Eb) as [Ek [Em Ho]]. subst kb mb.
        destruct ka; cbn [sel] in Ho.
        -- rewrite En in Ho. apply oagree_inv in Ho.
           destruct (IH c2 D1 ma ta tb x2 k1 m1 t1 k2 m2 t2 E2 Ho H1 H2) as [Ek [Em Ho2]].
           repeat split; try assumption.
           destruct k1; cbn [sel xn xr xe xb xc] in *; try assumption; now apply oagree_meet_r.
        -- inv_some H1. inv_some H2. repeat split. cbn [sel xr] in *. now apply oagree_meet_l.
        -- inv_some H1. inv_some H2. repeat split. cbn [sel xe] in *. now apply oagree_meet_l.
        -- inv_some H1. inv_some H2. repeat split. cbn [sel xb] in *. now apply oagree_meet_l.
        -- inv_some H1. inv_some H2. repeat split. cbn [sel xc] in *. now apply oagree_meet_l.
      * inv_some Hda.
        destruct (IH c1 D m s1 s2 x ka ma ta kb mb tb E1 Hag Ea Eb) as [Ek [Em Ho]]. subst kb mb.
        destruct ka.
        -- exfalso. cbn [sel] in Ho. rewrite En in Ho. eapply oagree_none. exact Ho.
        -- inv_some H1. inv_some H2. repeat split. exact Ho.
        -- inv_some H1. inv_some H2. repeat split. exact Ho.
        -- inv_some H1. inv_some H2. repeat split. exact Ho.
        -- inv_some H1. inv_some H2. repeat split. exact Ho.
    + (* CIf *)
      destruct (da L D c1) as [x1 b1] eqn:E1. destruct (da L D c2) as [x2 b2] eqn:E2. inv_some Hda.
      match goal with H : _ ++ _ = [] |- _ => apply app_eq_nil in H; destruct H as [Hb1 Hb2] end.
      subst b1 b2.
      destruct (br Oc s m).
      * destruct (IH c1 D m s1 s2 x1 k1 m1 t1 k2 m2 t2 E1 Hag H1 H2) as [Ek [Em Ho]].
        repeat split; try assumption. rewrite sel_xmeet. now apply oagree_meet_l.
      * destruct (IH c2 D m s1 s2 x2 k1 m1 t1 k2 m2 t2 E2 Hag H1 H2) as [Ek [Em Ho]].
        repeat split; try assumption. rewrite sel_xmeet. now apply oagree_meet_r.
    + (* CWhile *)
      destruct (da L D c1) as [x1 b1] eqn:E1. inv_some Hda.
      match goal with H : _ ++ _ = [] |- _ => apply app_eq_nil in H; destruct H as [Hb1 Hchk] end.
      subst b1.
      destruct (osub D (xn x1) && osub D (xc x1)) eqn:Echk; [| discriminate Hchk].
      apply andb_true_iff in Echk. destruct Echk as [Cn Cc].
      destruct (br Oc s m).
      * destruct (exec Oc f c1 m s1) as [[[ka ma] ta] |] eqn:Ea; [| discriminate H1].
        destruct (exec Oc f c1 m s2) as [[[kb mb] tb] |] eqn:Eb; [| discriminate H2].
        destruct (IH c1 D m s1 s2 x1 ka ma ta kb mb tb E1 Hag Ea Eb) as [Ek [Em Ho]]. subst kb mb.
        destruct ka; cbn [sel] in Ho.
        -- assert (Hag' : agree L D ta tb) by exact (oagree_osub L D _ ta tb Cn Ho).
           exact (IH (CWhile s c1) D (lc Oc s ma) ta tb _ k1 m1 t1 k2 m2 t2 Hda0 Hag' H1 H2).
        -- inv_some H1. inv_some H2. repeat split. exact Ho.
        -- inv_some H1. inv_some H2. repeat split. exact Ho.
        -- inv_some H1. inv_some H2. repeat split. exact (oagree_meet_r L (Some D) (xb x1) _ _ Ho).
        -- assert (Hag' : agree L D ta tb) by exact (oagree_osub L D _ ta tb Cc Ho).
           exact (IH (CWhile s c1) D (lc Oc s ma) ta tb _ k1 m1 t1 k2 m2 t2 Hda0 Hag' H1 H2).
      * inv_some H1. inv_some H2. repeat split.
        exact (oagree_meet_l L (Some D) (xb x1) _ _ (oagree_some L D _ _ Hag)).
    + (* CCall *)
      destruct (da L D c1) as [x1 b1] eqn:E1. inv_some Hda.
      destruct (exec Oc f c1 m s1) as [[[ka ma] ta] |] eqn:Ea; [| discriminate H1].
      destruct (exec Oc f c1 m s2) as [[[kb mb] tb] |] eqn:Eb; [| discriminate H2].
      destruct (IH c1 D m s1 s2 x1 ka ma ta kb mb tb E1 Hag Ea Eb) as [Ek [Em Ho]]. subst kb mb.
      destruct ka; cbn [sel] in Ho; inv_some H1; inv_some H2; repeat split; cbn [sel xn xr xe xb xc];
        try exact Ho.
      * now apply oagree_meet_l.
      * now apply oagree_meet_r.
    + inv_some H1. inv_some H2. inv_some Hda. repeat split. cbn. now apply oagree_some.
    + inv_some H1. inv_some H2. inv_some Hda. repeat split. cbn. now apply oagree_some.
    + inv_some H1. inv_some H2. inv_some Hda. repeat split. cbn. now apply oagree_some.
    + inv_some H1. inv_some H2. inv_some Hda. repeat split. cbn. now apply oagree_some.
    + (* CTry *)
      destruct (da L D c1) as [x1 b1] eqn:E1.
      destruct (exec Oc f c1 m s1) as [[[ka ma] ta] |] eqn:Ea; [| discriminate H1].
      destruct (exec Oc f c1 m s2) as [[[kb mb] tb] |] eqn:Eb; [| discriminate H2].
      destruct (xe x1) as [De |] eqn:Ee.
      * destruct (da L De h) as [x2 b2] eqn:E2. inv_some Hda.
        match goal with H : _ ++ _ = [] |- _ => apply app_eq_nil in H; destruct H as [Hb1 Hb2] end.
        subst b1 b2.
        destruct (IH c1 D m s1 s2 x1 ka ma ta kb mb tb E1 Hag Ea Eb) as [Ek [Em Ho]]. subst kb mb.
        destruct ka; cbn [sel] in Ho.
        -- inv_some H1. inv_some H2. repeat split. cbn [sel xn]. now apply oagree_meet_l.
        -- inv_some H1. inv_some H2. repeat split. cbn [sel xr]. now apply oagree_meet_l.
        -- rewrite Ee in Ho. apply oagree_inv in Ho.
           destruct (br Oc s ma).
           ++ destruct (IH h De ma ta tb x2 k1 m1 t1 k2 m2 t2 E2 Ho H1 H2) as [Ek [Em Ho2]].
              repeat split; try assumption.
              destruct k1; cbn [sel xn xr xe xb xc] in *; try (now apply oagree_meet_r).
              exact (oagree_meet_r L (Some De) (xe x2) _ _ Ho2).
           ++ inv_some H1. inv_some H2. repeat split.
              exact (oagree_meet_l L (Some De) (xe x2) _ _ (oagree_some L De _ _ Ho)).
        -- inv_some H1. inv_some H2. repeat split. cbn [sel xb]. now apply oagree_meet_l.
        -- inv_some H1. inv_some H2. repeat split. cbn [sel xc]. now apply oagree_meet_l.
      * inv_some Hda.
        destruct (IH c1 D m s1 s2 x ka ma ta kb mb tb E1 Hag Ea Eb) as [Ek [Em Ho]]. subst kb mb.
        destruct ka; cbn [sel] in Ho.
        -- inv_some H1. inv_some H2. repeat split. exact Ho.
        -- inv_some H1. inv_some H2. repeat split. exact Ho.
        -- exfalso. rewrite Ee in Ho. eapply oagree_none. exact Ho.
        -- inv_some H1. inv_some H2. repeat split. exact Ho.
        -- inv_some H1. inv_some H2. repeat split. exact Ho.
Qed.

(* ------------------------------------------------------------------ more fuel changes nothing *)
Lemma exec_mono :
  forall Oc f f' c m st r, f <= f' -> exec Oc f c m st = Some r -> exec Oc f' c m st = Some r.
Proof.
  intros Oc. induction f as [| f IH]; intros f' c m st r Hle H.
  - discriminate H.
  - destruct f' as [| f']; [lia |]. assert (Hle' : f <= f') by lia.
    rewrite exec_S in H |- *.
    destruct c as [| a s | a s | a s | a s | s | c1 c2 | s c1 c2 | s c1 | c1 | | | | | s c1 h];
      cbn [exec_body] in H |- *; try exact H.
    + destruct (exec Oc f c1 m st) as [[[ka ma] ta] |] eqn:Ea; [| discriminate H].
      rewrite (IH f' c1 m st _ Hle' Ea).
      destruct ka; try exact H. now apply IH.
    + destruct (br Oc s m); now apply IH.
    + destruct (br Oc s m); [| exact H].
      destruct (exec Oc f c1 m st) as [[[ka ma] ta] |] eqn:Ea; [| discriminate H].
      rewrite (IH f' c1 m st _ Hle' Ea).
      destruct ka; try exact H; now apply IH.
    + destruct (exec Oc f c1 m st) as [[[ka ma] ta] |] eqn:Ea; [| discriminate H].
      rewrite (IH f' c1 m st _ Hle' Ea). exact H.
    + destruct (exec Oc f c1 m st) as [[[ka ma] ta] |] eqn:Ea; [| discriminate H].
      rewrite (IH f' c1 m st _ Hle' Ea).
      destruct ka; try exact H. destruct (br Oc s ma); [now apply IH | exact H].
Qed.

(* ------------------------------------------------------------------ frame: only [writes c] changes *)
Lemma exec_frame :
  forall Oc f c m st k m' st',
    exec Oc f c m st = Some (k, m', st') ->
    forall a, PS.mem a (writes c) = false -> st' a = st a.
Proof.
  intros Oc. induction f as [| f IH]; intros c m st k m' st' H a Hw.
  - discriminate H.
  - rewrite exec_S in H.
    destruct c as [| b s | b s | b s | b s | s | c1 c2 | s c1 c2 | s c1 | c1 | | | | | s c1 h];
      cbn [exec_body] in H; cbn [writes] in Hw; try (inv_some H; reflexivity).
    + inv_some H. apply supd_other. now apply mem_singleton_false.
    + destruct (st b); inv_some H; [apply supd_other; now apply mem_singleton_false | reflexivity].
    + inv_some H. apply supd_other. now apply mem_singleton_false.
    + apply mem_union_false in Hw. destruct Hw as [W1 W2].
      destruct (exec Oc f c1 m st) as [[[ka ma] ta] |] eqn:Ea; [| discriminate H].
      pose proof (IH c1 m st ka ma ta Ea a W1) as F1.
      destruct ka; try (inv_some H; exact F1).
      rewrite <- F1. eapply IH; eassumption.
    + apply mem_union_false in Hw. destruct Hw as [W1 W2].
      destruct (br Oc s m); eapply IH; eassumption.
    + destruct (br Oc s m); [| inv_some H; reflexivity].
      destruct (exec Oc f c1 m st) as [[[ka ma] ta] |] eqn:Ea; [| discriminate H].
      pose proof (IH c1 m st ka ma ta Ea a Hw) as F1.
      destruct ka; try (inv_some H; exact F1).
      * rewrite <- F1. eapply (IH (CWhile s c1)); [exact H | exact Hw].
      * rewrite <- F1. eapply (IH (CWhile s c1)); [exact H | exact Hw].
    + destruct (exec Oc f c1 m st) as [[[ka ma] ta] |] eqn:Ea; [| discriminate H].
      pose proof (IH c1 m st ka ma ta Ea a Hw) as F1.
      destruct ka; inv_some H; exact F1.
    + apply mem_union_false in Hw. destruct Hw as [W1 W2].
      destruct (exec Oc f c1 m st) as [[[ka ma] ta] |] eqn:Ea; [| discriminate H].
      pose proof (IH c1 m st ka ma ta Ea a W1) as F1.
      destruct ka; try (inv_some H; exact F1).
      destruct (br Oc s ma); [| inv_some H; exact F1].
      rewrite <- F1. eapply IH; eassumption.
Qed.

Lemma learned_writes :
  forall P c a, In c (methods P) -> PS.mem a (learned P) = false -> PS.mem a (writes c) = false.
Proof.
  intros P c a. unfold learned. induction (methods P) as [| c0 l IHl]; intros Hin H; [contradiction |].
  cbn [fold_right] in H. apply mem_union_false in H. destruct H as [H0 Hl].
  destruct Hin as [E | Hin]; [now subst | now apply IHl].
Qed.

Lemma history_frame :
  forall Oc P st st', history Oc P st st' ->
    forall a, PS.mem a (learned P) = false -> st' a = st a.
Proof.
  intros Oc P st st' H. induction H as [st | c m st k m' st' st'' Hin [fuel Hrun] _ IHh]; intros a Ha.
  - reflexivity.
  - rewrite (IHh a Ha). eapply exec_frame; [exact Hrun |]. eapply learned_writes; eassumption.
Qed.

(* ------------------------------------------------------------------ main theorems *)
Lemma covers_meet_l : forall L o1 o2 D, covers L (omeet o1 o2) = true -> o1 = Some D -> PS.subset L D = true.
Proof.
  intros L o1 o2 D H E. subst o1. destruct o2 as [D2 |]; cbn in H; [| exact H].
  apply PS.subset_spec. apply PS.subset_spec in H. intros a Ha. specialize (H a Ha).
  now apply PS.inter_spec in H.
Qed.

Lemma covers_meet_r : forall L o1 o2 D, covers L (omeet o1 o2) = true -> o2 = Some D -> PS.subset L D = true.
Proof.
  intros L o1 o2 D H E. subst o2. destruct o1 as [D1 |]; cbn in H; [| exact H].
  apply PS.subset_spec. apply PS.subset_spec in H. intros a Ha. specialize (H a Ha).
  now apply PS.inter_spec in H.
Qed.

Lemma agree_all : forall L D s1 s2, PS.subset L D = true -> agree L D s1 s2 -> forall a, s1 a = s2 a.
Proof.
  intros L D s1 s2 Hs Ha a. apply Ha. unfold known.
  destruct (PS.mem a L) eqn:E; [| now rewrite orb_true_r].
  rewrite (subset_mem _ _ _ Hs E). reflexivity.
Qed.

Theorem refit_ok_sound :
  forall Oc L c, refit_ok L c = true ->
  forall m s1 s2 k1 m1 t1 k2 m2 t2,
    (forall a, PS.mem a L = false -> s1 a = s2 a) ->
    runs Oc c m s1 (k1, m1, t1) -> runs Oc c m s2 (k2, m2, t2) ->
    k1 = k2 /\ m1 = m2 /\ ((k1 = KN \/ k1 = KR) -> forall a, t1 a = t2 a).
Proof.
  intros Oc L c Hok m s1 s2 k1 m1 t1 k2 m2 t2 Hout [f1 R1] [f2 R2].
  unfold refit_ok, refit_sites, refit_final in Hok.
  destruct (da L PS.empty c) as [x b] eqn:Eda. cbn [fst snd] in Hok.
  destruct b as [| s0 b]; [| discriminate Hok].
  assert (Hag : agree L PS.empty s1 s2).
  { intros a Hk. apply Hout. unfold known in Hk. apply orb_true_iff in Hk.
    destruct Hk as [Hk | Hk]; [rewrite PS.mem_spec in Hk; now apply PS.empty_spec in Hk |].
    now apply negb_true_iff in Hk. }
  apply (exec_mono Oc f1 (max f1 f2)) in R1; [| lia].
  apply (exec_mono Oc f2 (max f1 f2)) in R2; [| lia].
  destruct (lockstep Oc L _ c PS.empty m s1 s2 x k1 m1 t1 k2 m2 t2 Eda Hag R1 R2) as [Ek [Em [D [Es Ha]]]].
  repeat split; try assumption.
  intros [E | E]; rewrite E in Es; cbn [sel] in Es.
  - eapply agree_all; [exact (covers_meet_l L (xn x) (xr x) D Hok Es) | exact Ha].
  - eapply agree_all; [exact (covers_meet_r L (xn x) (xr x) D Hok Es) | exact Ha].
Qed.

Theorem refit_fresh_sound :
  forall Oc P, refit_fresh P = true ->
  forall st0 sth, history Oc P st0 sth ->
  forall m k1 m1 t1 k2 m2 t2,
    runs Oc (fit P) m sth (k1, m1, t1) -> runs Oc (fit P) m st0 (k2, m2, t2) ->
    k1 = k2 /\ m1 = m2 /\ ((k1 = KN \/ k1 = KR) -> forall a, t1 a = t2 a).
Proof.
  intros Oc P Hok st0 sth Hh m k1 m1 t1 k2 m2 t2 R1 R2.
  eapply refit_ok_sound; [exact Hok | | exact R1 | exact R2].
  intros a Ha. eapply history_frame; eassumption.
Qed.

(* every method answers alike afterwards: from equal stores, equal results (determinism of the
   interpreter), stated for completeness of sub-claim (b) *)
Lemma exec_ext :
  forall Oc f c m s1 s2, (forall a, s1 a = s2 a) ->
    match exec Oc f c m s1, exec Oc f c m s2 with
    | Some (k1, m1, t1), Some (k2, m2, t2) => k1 = k2 /\ m1 = m2 /\ forall a, t1 a = t2 a
    | None, None => True
    | _, _ => False
    end.
Proof.
  intros Oc. induction f as [| f IH]; intros c m s1 s2 He; [exact I |].
  rewrite !exec_S.
  destruct c as [| b s | b s | b s | b s | s | c1 c2 | s c1 c2 | s c1 | c1 | | | | | s c1 h];
    cbn [exec_body]; try (repeat split; assumption).
  - rewrite (He b). repeat split; assumption.
  - repeat split. intro a. unfold supd. destruct (Pos.eqb a b); [reflexivity | apply He].
  - rewrite (He b). destruct (s2 b); repeat split; try assumption.
    intro a. unfold supd. destruct (Pos.eqb a b); [reflexivity | apply He].
  - repeat split. intro a. unfold supd. destruct (Pos.eqb a b); [reflexivity | apply He].
  - specialize (IH c1 m s1 s2 He) as I1.
    destruct (exec Oc f c1 m s1) as [[[ka ma] ta] |]; destruct (exec Oc f c1 m s2) as [[[kb mb] tb] |];
      try contradiction; [| exact I].
    destruct I1 as [Ek [Em Et]]. subst kb mb.
    destruct ka; try (repeat split; assumption). apply IH. exact Et.
  - destruct (br Oc s m); apply IH; exact He.
  - destruct (br Oc s m); [| repeat split; assumption].
    specialize (IH c1 m s1 s2 He) as I1.
    destruct (exec Oc f c1 m s1) as [[[ka ma] ta] |]; destruct (exec Oc f c1 m s2) as [[[kb mb] tb] |];
      try contradiction; [| exact I].
    destruct I1 as [Ek [Em Et]]. subst kb mb.
    destruct ka; try (repeat split; assumption); apply IH; exact Et.
  - specialize (IH c1 m s1 s2 He) as I1.
    destruct (exec Oc f c1 m s1) as [[[ka ma] ta] |]; destruct (exec Oc f c1 m s2) as [[[kb mb] tb] |];
      try contradiction; [| exact I].
    destruct I1 as [Ek [Em Et]]. subst kb mb.
    destruct ka; repeat split; assumption.
  - specialize (IH c1 m s1 s2 He) as I1.
    destruct (exec Oc f c1 m s1) as [[[ka ma] ta] |]; destruct (exec Oc f c1 m s2) as [[[kb mb] tb] |];
      try contradiction; [| exact I].
    destruct I1 as [Ek [Em Et]]. subst kb mb.
    destruct ka; try (repeat split; assumption).
    destruct (br Oc s ma); [apply IH; exact Et | repeat split; assumption].
Qed.

(* after a cold refit that did not raise, every method of the class behaves exactly as on the
   fresh estimator fitted on the same data *)
Theorem refit_then_method :
  forall Oc P, refit_fresh P = true ->
  forall st0 sth, history Oc P st0 sth ->
  forall m k1 m1 t1 k2 m2 t2,
    runs Oc (fit P) m sth (k1, m1, t1) -> runs Oc (fit P) m st0 (k2, m2, t2) ->
    (k1 = KN \/ k1 = KR) ->
    forall c mc fuel, In c (methods P) ->
      match exec Oc fuel c mc t1, exec Oc fuel c mc t2 with
      | Some (ka, ma, ta), Some (kb, mb, tb) => ka = kb /\ ma = mb /\ forall a, ta a = tb a
      | None, None => True
      | _, _ => False
      end.
Proof.
  intros Oc P Hok st0 sth Hh m k1 m1 t1 k2 m2 t2 R1 R2 Hk c mc fuel _.
  destruct (refit_fresh_sound Oc P Hok st0 sth Hh m k1 m1 t1 k2 m2 t2 R1 R2) as [_ [_ Heq]].
  apply exec_ext. exact (Heq Hk).
Qed.

(* ------------------------------------------------------------------ observable freshness *)
Lemma subset_refl : forall D, PS.subset D D = true.
Proof. intro D. apply PS.subset_spec. intros a H. exact H. Qed.

Lemma omeet_sub_l : forall o1 o2 D D1, omeet o1 o2 = Some D -> o1 = Some D1 -> PS.subset D D1 = true.
Proof.
  intros o1 o2 D D1 H E. subst o1. destruct o2 as [D2 |]; cbn in H; inversion H; subst.
  - apply PS.subset_spec. intros a Ha. now apply PS.inter_spec in Ha.
  - apply subset_refl.
Qed.

Lemma omeet_sub_r : forall o1 o2 D D2, omeet o1 o2 = Some D -> o2 = Some D2 -> PS.subset D D2 = true.
Proof.
  intros o1 o2 D D2 H E. subst o2. destruct o1 as [D1 |]; cbn in H; inversion H; subst.
  - apply PS.subset_spec. intros a Ha. now apply PS.inter_spec in Ha.
  - apply subset_refl.
Qed.

Lemma method_ok_step :
  forall Oc L D c fuel m s1 s2 k1 m1 t1 k2 m2 t2,
    method_ok L D c = true -> agree L D s1 s2 ->
    exec Oc fuel c m s1 = Some (k1, m1, t1) -> exec Oc fuel c m s2 = Some (k2, m2, t2) ->
    k1 = k2 /\ m1 = m2 /\ agree L D t1 t2.
Proof.
  intros Oc L D c fuel m s1 s2 k1 m1 t1 k2 m2 t2 Hok Hag H1 H2.
  unfold method_ok in Hok. destruct (da L D c) as [x b] eqn:Eda.
  destruct b as [| s0 b]; [| discriminate Hok].
  apply andb_true_iff in Hok. destruct Hok as [Hok Oc5].
  apply andb_true_iff in Hok. destruct Hok as [Hok Ob5].
  apply andb_true_iff in Hok. destruct Hok as [Hok Oe5].
  apply andb_true_iff in Hok. destruct Hok as [On5 Or5].
  destruct (lockstep Oc L fuel c D m s1 s2 x k1 m1 t1 k2 m2 t2 Eda Hag H1 H2) as [Ek [Em Ho]].
  repeat split; try assumption.
  destruct k1; cbn [sel] in Ho.
  - exact (oagree_osub L D _ t1 t2 On5 Ho).
  - exact (oagree_osub L D _ t1 t2 Or5 Ho).
  - exact (oagree_osub L D _ t1 t2 Oe5 Ho).
  - exact (oagree_osub L D _ t1 t2 Ob5 Ho).
  - exact (oagree_osub L D _ t1 t2 Oc5 Ho).
Qed.

Lemma run_calls_agree :
  forall Oc L D fuel calls s1 s2 l1 l2,
    (forall c m, In (c, m) calls -> method_ok L D c = true) ->
    agree L D s1 s2 ->
    run_calls Oc fuel calls s1 = Some l1 -> run_calls Oc fuel calls s2 = Some l2 -> l1 = l2.
Proof.
  intros Oc L D fuel. induction calls as [| [c m] t IHt]; intros s1 s2 l1 l2 Hall Hag R1 R2.
  - cbn in R1, R2. inversion R1. inversion R2. reflexivity.
  - cbn [run_calls] in R1, R2.
    destruct (exec Oc fuel c m s1) as [[[ka ma] ta] |] eqn:Ea; [| discriminate R1].
    destruct (exec Oc fuel c m s2) as [[[kb mb] tb] |] eqn:Eb; [| discriminate R2].
    destruct (run_calls Oc fuel t ta) as [la |] eqn:Ra; [| discriminate R1].
    destruct (run_calls Oc fuel t tb) as [lb |] eqn:Rb; [| discriminate R2].
    inversion R1. inversion R2. subst l1 l2.
    assert (Hc : method_ok L D c = true) by (apply (Hall c m); left; reflexivity).
    destruct (method_ok_step Oc L D c fuel m s1 s2 ka ma ta kb mb tb Hc Hag Ea Eb) as [Ek [Em Hag']].
    subst kb mb. f_equal.
    eapply IHt; [| exact Hag' | exact Ra | exact Rb].
    intros c' m' Hin. apply (Hall c' m'). right. exact Hin.
Qed.

Theorem refit_observable_sound :
  forall Oc P, refit_observable P = true ->
  forall st0 sth, history Oc P st0 sth ->
  forall m k1 m1 t1 k2 m2 t2,
    runs Oc (fit P) m sth (k1, m1, t1) -> runs Oc (fit P) m st0 (k2, m2, t2) ->
    k1 = k2 /\ m1 = m2 /\
    ((k1 = KN \/ k1 = KR) ->
     forall calls fuel l1 l2,
       (forall c mc, In (c, mc) calls -> In c (methods P)) ->
       run_calls Oc fuel calls t1 = Some l1 -> run_calls Oc fuel calls t2 = Some l2 -> l1 = l2).
Proof.
  intros Oc P Hok st0 sth Hh m k1 m1 t1 k2 m2 t2 [f1 R1] [f2 R2].
  unfold refit_observable, refit_sites, refit_final in Hok.
  set (L := learned P) in *.
  destruct (da L PS.empty (fit P)) as [x b] eqn:Eda. cbn [fst snd] in Hok.
  destruct b as [| s0 b]; [| discriminate Hok].
  assert (Hag : agree L PS.empty sth st0).
  { intros a Hk. eapply history_frame; [exact Hh |]. unfold known in Hk. apply orb_true_iff in Hk.
    destruct Hk as [Hk | Hk]; [rewrite PS.mem_spec in Hk; now apply PS.empty_spec in Hk |].
    now apply negb_true_iff in Hk. }
  apply (exec_mono Oc f1 (max f1 f2)) in R1; [| lia].
  apply (exec_mono Oc f2 (max f1 f2)) in R2; [| lia].
  destruct (lockstep Oc L _ (fit P) PS.empty m sth st0 x k1 m1 t1 k2 m2 t2 Eda Hag R1 R2)
    as [Ek [Em [D' [Es Ha]]]].
  repeat split; try assumption.
  intros Hk calls fuel l1 l2 Hin C1 C2.
  destruct (omeet (xn x) (xr x)) as [D |] eqn:Efin.
  - rewrite forallb_forall in Hok.
    assert (Hsub : PS.subset D D' = true).
    { destruct Hk as [E | E]; rewrite E in Es; cbn [sel] in Es;
        [eapply omeet_sub_l | eapply omeet_sub_r]; eassumption. }
    eapply (run_calls_agree Oc L D fuel calls t1 t2 l1 l2); [| eapply agree_sub; eassumption | exact C1 | exact C2].
    intros c mc Hc. apply Hok. eapply Hin. exact Hc.
  - exfalso. destruct Hk as [E | E]; rewrite E in Es; cbn [sel] in Es.
    + destruct (xn x); [destruct (xr x); discriminate Efin | discriminate Es].
    + destruct (xr x); [destruct (xn x); discriminate Efin | discriminate Es].
Qed.
