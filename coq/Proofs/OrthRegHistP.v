(* Proofs about the OrthogonalRegression state machine (Model/OrthRegHist.v), for EVERY choice of the
   numeric routines and every history (induction over the list of calls):
     - no call of a regression object ever writes a user's estimator object; hyper-parameters never change;
     - a fit after any history = the same fit on objects that were never fitted (refit = fresh fit);
       its value is  fit_value mode hyper X y  with the hyper-parameters of the INITIAL heap;
     - every coef_ ever observable is the fresh-fit value of one accepted fit call of the history
       on that object (provenance invariant);
     - layer-D instance: shape of predict after an accepted fit, for all sizes.
   Stdlib style. *)
From Coq Require Import List Bool Arith Lia.
From Verif Require Import OrthRegHist.
Import ListNotations.

(* ---- lupd ---------------------------------------------------------------------------------- *)
Lemma lupd_length {A} (l : list A) i a : length (lupd l i a) = length l.
Proof. revert i; induction l as [|x l IH]; intros [|i]; cbn; auto. Qed.

Lemma nth_error_lupd_eq {A} (l : list A) i a x :
  nth_error l i = Some x -> nth_error (lupd l i a) i = Some a.
Proof. revert i; induction l as [|z l IH]; intros [|i]; cbn; try discriminate; auto. Qed.

Lemma nth_error_lupd_neq {A} (l : list A) i j a :
  i <> j -> nth_error (lupd l i a) j = nth_error l j.
Proof.
  revert i j; induction l as [|z l IH]; intros [|i] [|j] Hne; cbn; auto; try congruence.
Qed.

Lemma map_lupd_same {A B} (f : A -> B) (l : list A) i a x :
  nth_error l i = Some x -> f a = f x -> map f (lupd l i a) = map f l.
Proof.
  revert i; induction l as [|z l IH]; intros [|i]; cbn; try discriminate.
  - intros [= ->] Hf; now rewrite Hf.
  - intros Hn Hf; f_equal; eauto.
Qed.

Section MachineP.
  Variables (M P H E R : Type).
  Variable fit_check : bool -> M -> M -> option E.
  Variable est_check : M -> M -> option E.
  Variable lin_fit : option H -> M -> M -> P.
  Variable proj_solve : P -> M -> M -> P.
  Variable pad_solve : M -> M -> P.
  Variable pad_q : M -> M -> nat.
  Variable predict_of : bool -> option nat -> option P -> M -> R.

  Local Notation est := (est P H).
  Local Notation obj := (obj P).
  Local Notation world := (world P H).
  Local Notation op := (op M).
  Local Notation step := (step M P H E R fit_check est_check lin_fit proj_solve pad_solve pad_q predict_of).
  Local Notation run := (run M P H E R fit_check est_check lin_fit proj_solve pad_solve pad_q predict_of).
  Local Notation fit_obj := (fit_obj M P H E R fit_check lin_fit proj_solve pad_solve pad_q).
  Local Notation fit_value := (fit_value M P H lin_fit proj_solve pad_solve).
  Local Notation resolve_lin := (resolve_lin P H).
  Local Notation reset := (reset P H).
  Local Notation hypers := (fun w : world => map (e_hyper P H) (w_heap P H w)).

  (* ---- the users' estimator objects ------------------------------------------------------- *)
  Lemma step_hypers (a : op) (w : world) : hypers (fst (step a w)) = hypers w.
  Proof.
    destruct a as [o X y|o b|o l|e X y|o Xn]; cbn;
      try (destruct (nth_error (w_objs P H w) o) as [ob|]; cbn; auto;
           try destruct (fit_obj (w_heap P H w) ob X y); auto).
    destruct (nth_error (w_heap P H w) e) as [es|] eqn:He; cbn; auto.
    destruct (est_check X y); cbn; auto.
    now apply map_lupd_same with (x := es).
  Qed.

  Lemma run_hypers (h : list op) (w : world) : hypers (run h w) = hypers w.
  Proof. revert w; induction h as [|a h IH]; intros w; cbn; auto. now rewrite IH, step_hypers. Qed.

  Lemma step_heap_frame (a : op) (w : world) :
    is_user_fit M a = false -> w_heap P H (fst (step a w)) = w_heap P H w.
  Proof.
    destruct a as [o X y|o b|o l|e X y|o Xn]; cbn; try discriminate; intros _;
      destruct (nth_error (w_objs P H w) o) as [ob|]; cbn; auto.
    destruct (fit_obj (w_heap P H w) ob X y); auto.
  Qed.

  (* fit / predict / parameter assignment never write any estimator object of the user *)
  Lemma run_heap_frame (h : list op) (w : world) :
    forallb (fun a => negb (is_user_fit M a)) h = true -> w_heap P H (run h w) = w_heap P H w.
  Proof.
    revert w; induction h as [|a h IH]; intros w; cbn; auto.
    intros Hh; apply andb_true_iff in Hh; destruct Hh as [Ha Hh].
    rewrite IH by assumption. apply step_heap_frame. now destruct (is_user_fit M a).
  Qed.

  (* resolve_lin reads the heap only through the hyper-parameters *)
  Lemma resolve_lin_hypers (h1 h2 : list est) (l : option nat) :
    map (e_hyper P H) h1 = map (e_hyper P H) h2 -> resolve_lin h1 l = resolve_lin h2 l.
  Proof.
    intros Hm; destruct l as [i|]; cbn; auto.
    assert (Hn : nth_error (map (e_hyper P H) h1) i = nth_error (map (e_hyper P H) h2) i) by now rewrite Hm.
    rewrite !nth_error_map in Hn.
    destruct (nth_error h1 i), (nth_error h2 i); cbn in *; congruence.
  Qed.

  (* ---- refit = fresh fit --------------------------------------------------------------------- *)
  Lemma fit_obj_reset (heap : list est) (ob : obj) (X y : M) :
    let r1 := fit_obj heap ob X y in
    let r2 := fit_obj (map (reset_est P H) heap) (reset_obj P ob) X y in
    snd r1 = snd r2 /\ (snd r1 = OutOk E R -> fitted_view P (fst r1) = fitted_view P (fst r2)).
  Proof.
    cbn. unfold OrthRegHist.fit_obj. cbn [reset_obj o_proj o_lin o_maxc].
    destruct (fit_check (o_proj P ob) X y) as [e|]; cbn; [split; [auto | discriminate]|].
    destruct (o_proj P ob) eqn:Hb.
    - rewrite (resolve_lin_hypers (map (reset_est P H) heap) heap) by (rewrite map_map; reflexivity).
      destruct (resolve_lin heap (o_lin P ob)) as [hy|]; cbn; [split; auto | split; [auto | discriminate]].
    - cbn; split; auto.
  Qed.

  Lemma fit_fresh (w : world) (o : nat) (X y : M) :
    let r1 := step (OFit M o X y) w in
    let r2 := step (OFit M o X y) (reset w) in
    snd r1 = snd r2
    /\ (snd r1 = OutOk E R ->
        option_map (fitted_view P) (nth_error (w_objs P H (fst r1)) o)
        = option_map (fitted_view P) (nth_error (w_objs P H (fst r2)) o)).
  Proof.
    cbn. rewrite nth_error_map.
    destruct (nth_error (w_objs P H w) o) as [ob|] eqn:Ho; cbn; [|split; [auto | discriminate]].
    pose proof (fit_obj_reset (w_heap P H w) ob X y) as Hr; cbn in Hr.
    destruct (fit_obj (w_heap P H w) ob X y) as [ob1 r1].
    destruct (OrthRegHist.fit_obj M P H E R fit_check lin_fit proj_solve pad_solve pad_q
                (map (reset_est P H) (w_heap P H w)) (reset_obj P ob) X y) as [ob2 r2].
    cbn in *. destruct Hr as [Hs Hv]. split; auto. intros Hok.
    rewrite (nth_error_lupd_eq _ _ _ _ Ho).
    assert (Ho2 : nth_error (map (reset_obj P) (w_objs P H w)) o = Some (reset_obj P ob))
      by (rewrite nth_error_map, Ho; reflexivity).
    rewrite (nth_error_lupd_eq _ _ _ _ Ho2). cbn. f_equal. auto.
  Qed.

  (* the statement along histories: whatever was called before, fitting now gives the outcome and the
     fitted attributes of the same call on objects on which nothing was ever fitted *)
  Lemma refit_is_fresh_fit (h : list op) (w : world) (o : nat) (X y : M) :
    let w' := run h w in
    snd (step (OFit M o X y) w') = snd (step (OFit M o X y) (reset w'))
    /\ (snd (step (OFit M o X y) w') = OutOk E R ->
        option_map (fitted_view P) (nth_error (w_objs P H (fst (step (OFit M o X y) w'))) o)
        = option_map (fitted_view P) (nth_error (w_objs P H (fst (step (OFit M o X y) (reset w')))) o)).
  Proof. exact (fit_fresh (run h w) o X y). Qed.

  (* explicit value: it is computed from the mode in force, the hyper-parameters the estimator object
     had in the INITIAL heap (None = LinearRegression()), X and y *)
  Lemma fit_after_history (h : list op) (w : world) (o : nat) (X y : M) (ob : obj) (hy : option H) :
    nth_error (w_objs P H (run h w)) o = Some ob ->
    fit_check (o_proj P ob) X y = None ->
    (if o_proj P ob then resolve_lin (w_heap P H w) (o_lin P ob) else Some None) = Some hy ->
    snd (step (OFit M o X y) (run h w)) = OutOk E R
    /\ exists ob', nth_error (w_objs P H (fst (step (OFit M o X y) (run h w)))) o = Some ob'
         /\ o_coef P ob' = Some (fit_value (o_proj P ob) hy X y)
         /\ o_proj P ob' = o_proj P ob /\ o_lin P ob' = o_lin P ob
         /\ (o_proj P ob = false -> o_maxc P ob' = Some (pad_q X y)).
  Proof.
    intros Ho Hc Hr. cbn. rewrite Ho. unfold OrthRegHist.fit_obj. rewrite Hc.
    destruct (o_proj P ob) eqn:Hb.
    - rewrite (resolve_lin_hypers (w_heap P H (run h w)) (w_heap P H w)) by apply run_hypers.
      rewrite Hr. cbn. split; auto.
      eexists; split; [apply (nth_error_lupd_eq _ _ _ _ Ho)|]. cbn. repeat split; auto. discriminate.
    - injection Hr as <-. cbn. split; auto.
      eexists; split; [apply (nth_error_lupd_eq _ _ _ _ Ho)|]. cbn. repeat split; auto.
  Qed.

  (* ---- a rejected fit leaves the object as it was -------------------------------------------- *)
  Lemma rejected_fit_keeps_state (w : world) (o : nat) (X y : M) (e : E) :
    snd (step (OFit M o X y) w) = OutErr E R e ->
    w_objs P H (fst (step (OFit M o X y) w)) = w_objs P H w /\ w_heap P H (fst (step (OFit M o X y) w)) = w_heap P H w.
  Proof.
    cbn. destruct (nth_error (w_objs P H w) o) as [ob|] eqn:Ho; cbn; [|discriminate].
    unfold OrthRegHist.fit_obj.
    destruct (fit_check (o_proj P ob) X y) as [e'|]; cbn.
    - intros _. split; auto.
      clear - Ho. revert o Ho. induction (w_objs P H w) as [|z l IH]; intros [|o]; cbn; try discriminate.
      + now intros [= ->].
      + intros Hn. f_equal. auto.
    - destruct (o_proj P ob); [destruct (resolve_lin (w_heap P H w) (o_lin P ob))|]; cbn; discriminate.
  Qed.

  (* ---- provenance invariant ------------------------------------------------------------------- *)
  Local Notation prov := (prov M P H E fit_check lin_fit proj_solve pad_solve).

  Lemma step_coef (a : op) (w : world) (o : nat) (ob' : obj) (c : P) :
    nth_error (w_objs P H (fst (step a w))) o = Some ob' -> o_coef P ob' = Some c ->
    (exists ob0, nth_error (w_objs P H w) o = Some ob0 /\ o_coef P ob0 = Some c)
    \/ prov (hypers w) [a] o c.
  Proof.
    destruct a as [o1 X y|o1 b|o1 l|e X y|o1 Xn]; cbn.
    - destruct (nth_error (w_objs P H w) o1) as [ob|] eqn:Ho1; cbn; [|intros; left; eauto].
      unfold OrthRegHist.fit_obj.
      destruct (Nat.eq_dec o1 o) as [->|Hne].
      2:{ destruct (match fit_check (o_proj P ob) X y with Some e => _ | None => _ end) as [ob1 r1].
          cbn. rewrite nth_error_lupd_neq by assumption. intros; left; eauto. }
      destruct (fit_check (o_proj P ob) X y) as [e|] eqn:Hc; cbn.
      + rewrite (nth_error_lupd_eq _ _ _ _ Ho1). intros [= <-] Hcf. left; eauto.
      + destruct (o_proj P ob) eqn:Hb.
        * destruct (resolve_lin (w_heap P H w) (o_lin P ob)) as [hy|] eqn:Hr; cbn;
            rewrite (nth_error_lupd_eq _ _ _ _ Ho1); intros [= <-]; cbn.
          -- intros [= <-]. right. exists true, hy, X, y. repeat split; auto. now left.
             intros k ->. unfold OrthRegHist.resolve_lin in Hr.
             destruct (o_lin P ob) as [i|]; cbn in Hr; [|discriminate].
             destruct (nth_error (w_heap P H w) i) as [es|] eqn:Hi; cbn in Hr; [|discriminate].
             injection Hr as <-. apply in_map. eapply nth_error_In; eauto.
          -- intros Hcf. left; eauto.
        * cbn. rewrite (nth_error_lupd_eq _ _ _ _ Ho1). intros [= <-]; cbn. intros [= <-].
          right. exists false, None, X, y. repeat split; auto. now left. discriminate.
    - destruct (nth_error (w_objs P H w) o1) as [ob|] eqn:Ho1; cbn; [|intros; left; eauto].
      destruct (Nat.eq_dec o1 o) as [->|Hne].
      + rewrite (nth_error_lupd_eq _ _ _ _ Ho1). intros [= <-]; cbn. intros Hcf. left; eauto.
      + rewrite nth_error_lupd_neq by assumption. intros; left; eauto.
    - destruct (nth_error (w_objs P H w) o1) as [ob|] eqn:Ho1; cbn; [|intros; left; eauto].
      destruct (Nat.eq_dec o1 o) as [->|Hne].
      + rewrite (nth_error_lupd_eq _ _ _ _ Ho1). intros [= <-]; cbn. intros Hcf. left; eauto.
      + rewrite nth_error_lupd_neq by assumption. intros; left; eauto.
    - destruct (nth_error (w_heap P H w) e) as [es|]; cbn; [|intros; left; eauto].
      destruct (est_check X y); cbn; intros; left; eauto.
    - destruct (nth_error (w_objs P H w) o1) as [ob|]; cbn; intros; left; eauto.
  Qed.

  Lemma prov_weaken hs (h1 h2 : list op) o c : (forall a, In a h1 -> In a h2) -> prov hs h1 o c -> prov hs h2 o c.
  Proof. intros Hi (b & hy & X & y & E1 & E2 & E3 & E4). exists b, hy, X, y. repeat split; auto. Qed.

  Lemma run_coef (h : list op) (w : world) (o : nat) (ob' : obj) (c : P) :
    nth_error (w_objs P H (run h w)) o = Some ob' -> o_coef P ob' = Some c ->
    (exists ob0, nth_error (w_objs P H w) o = Some ob0 /\ o_coef P ob0 = Some c)
    \/ prov (hypers w) h o c.
  Proof.
    revert w; induction h as [|a h IH]; intros w; cbn.
    - intros Hn Hc; left; eauto.
    - intros Hn Hc. destruct (IH _ Hn Hc) as [(ob1 & Hn1 & Hc1)|Hp].
      + destruct (step_coef a w o ob1 c Hn1 Hc1) as [Hl|Hp]; [left; auto|right].
        eapply prov_weaken; [|exact Hp]. intros a' [<-|[]]; now left.
      + right. rewrite step_hypers in Hp. eapply prov_weaken; [|exact Hp]. intros a' Ha; now right.
  Qed.

  (* started on objects that carry no coef_: EVERY coef_ observable at any time is the fresh-fit value
     of one accepted fit call of the history on that very object *)
  Lemma coef_provenance (h : list op) (w : world) (o : nat) (ob' : obj) (c : P) :
    (forall ob0, In ob0 (w_objs P H w) -> o_coef P ob0 = None) ->
    nth_error (w_objs P H (run h w)) o = Some ob' -> o_coef P ob' = Some c ->
    prov (hypers w) h o c.
  Proof.
    intros H0 Hn Hc. destruct (run_coef h w o ob' c Hn Hc) as [(ob0 & Hn0 & Hc0)|Hp]; auto.
    apply nth_error_In in Hn0. rewrite (H0 _ Hn0) in Hc0. discriminate.
  Qed.
End MachineP.

(* ---- layer-D instance: the shape predict returns after an accepted fit, for all sizes ---------- *)
Lemma d_fit_check_ok (b : bool) (X y : dmat) :
  d_fit_check b X y = None ->
  exists p, d_cols X = Some p /\ p <> 0 /\ d_rows X <> 0 /\ d_rows y = d_rows X /\ d_ncols y <> 0
            /\ (b = false -> exists t, d_cols y = Some t).
Proof.
  unfold d_fit_check, d_ncols. destruct (d_cols X) as [p|]; [|discriminate].
  destruct (negb (d_fin X && d_fin y)); [discriminate|].
  destruct (d_rows X =? 0) eqn:Hr; cbn; [discriminate|].
  destruct (p =? 0) eqn:Hp; cbn; [discriminate|].
  destruct (d_rows X =? d_rows y) eqn:Hy; cbn; [|discriminate].
  apply Nat.eqb_neq in Hr, Hp. apply Nat.eqb_eq in Hy.
  destruct (d_cols y) as [[|t]|]; try discriminate; intros Hc;
    exists p; repeat split; auto; try lia; intros ->; try discriminate; eauto.
Qed.

(* padded mode: after an accepted fit of X (p columns) and y (t columns) predict accepts every finite
   non-empty array with 1 <= c <= max(p, t) columns (it is zero-padded) and returns max(p, t) columns;
   a wider array is rejected.  Projector mode: exactly p columns are accepted, t columns (1 for a 1-D y)
   are returned. *)
Lemma d_predict_after_fit (w : dworld) (o : nat) (ob : dobj) (X y Xn : dmat) (c : nat) :
  nth_error (w_objs _ _ w) o = Some ob ->
  snd (d_step (dFit o X y) w) = dOk ->
  d_cols Xn = Some c -> c <> 0 -> d_fin Xn = true -> d_rows Xn <> 0 ->
  snd (d_step (dPredict o Xn) (fst (d_step (dFit o X y) w)))
  = dPred (if o_proj _ ob
           then (if c =? d_ncols X then DShape (d_rows Xn) (d_ncols y) else DErr EValue)
           else (if Nat.max (d_ncols X) (d_ncols y) <? c then DErr EValue
                 else DShape (d_rows Xn) (Nat.max (d_ncols X) (d_ncols y)))).
Proof.
  intros Ho Hok Hc Hc0 Hfin Hr.
  unfold d_step, dFit, dPredict, dOk, dPred in *. cbn in *. rewrite Ho in *. cbn in *.
  unfold fit_obj in *.
  destruct (d_fit_check (o_proj dcoef ob) X y) as [e|] eqn:Hchk; cbn in *; [discriminate|].
  destruct (o_proj dcoef ob) eqn:Hb.
  - destruct (resolve_lin dcoef nat (w_heap dcoef nat w) (o_lin dcoef ob)) as [hy|]; cbn in *; [|discriminate].
    rewrite (nth_error_lupd_eq _ _ _ _ Ho). cbn.
    unfold d_predict. rewrite Hc, Hfin. cbn.
    apply Nat.eqb_neq in Hr, Hc0. rewrite Hr, Hc0. cbn. reflexivity.
  - cbn in *. rewrite (nth_error_lupd_eq _ _ _ _ Ho). cbn.
    unfold d_predict. rewrite Hc, Hfin. cbn.
    apply Nat.eqb_neq in Hr, Hc0. rewrite Hr, Hc0. cbn.
    unfold d_pad_q. rewrite Nat.eqb_refl. reflexivity.
Qed.
