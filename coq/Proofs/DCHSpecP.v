(* The specification of "lower-hull vertex" over Z (Model/DCH.v, part 2):
   invariance under positive affine maps of the target, under adding points strictly above
   the hull, and soundness of the executable simplex form (Cramer's rule, 1..3 hull
   dimensions).  Stdlib style. *)
From Verif Require Import ListX ListXP DCH.

(* ---- weights: sums and dot products ----------------------------------------------------- *)
Lemma zsum_app u v : zsum (u ++ v) = zsum u + zsum v.
Proof. induction u as [|a u IH]; cbn; [reflexivity|]. unfold zsum in *. cbn. rewrite IH. lia. Qed.

Lemma dot_app u1 u2 l1 l2 :
  length u1 = length l1 -> dot (u1 ++ u2) (l1 ++ l2) = dot u1 l1 + dot u2 l2.
Proof.
  revert l1; induction u1 as [|a u1 IH]; intros [|b l1] H; try discriminate; [reflexivity|].
  cbn [app]. rewrite !dot_cons, IH by (cbn in H; congruence). lia.
Qed.

Lemma dot_affine_r a c : forall w l, length w = length l ->
  dot w (map (fun y => a * y + c) l) = a * dot w l + c * zsum w.
Proof.
  induction w as [|x w IH]; intros [|y l] H; try discriminate; [unfold dot, zsum; cbn; lia|].
  cbn [map]. rewrite !dot_cons, IH by (cbn in H; congruence). unfold zsum. cbn. fold (zsum w). lia.
Qed.

Lemma dot_lin_l α β : forall u v l, length u = length v -> length v = length l ->
  dot (map2 (fun a b => α * a + β * b) u v) l = α * dot u l + β * dot v l.
Proof.
  induction u as [|a u IH]; intros [|b v] [|c l] H1 H2; try discriminate; [unfold dot; cbn; lia|].
  cbn [map2]. rewrite !dot_cons, IH by (cbn in *; congruence). lia.
Qed.

Lemma zsum_lin α β : forall u v, length u = length v ->
  zsum (map2 (fun a b => α * a + β * b) u v) = α * zsum u + β * zsum v.
Proof.
  induction u as [|a u IH]; intros [|b v] H; try discriminate; [unfold zsum; cbn; lia|].
  cbn [map2]. unfold zsum in *. cbn. rewrite IH by (cbn in H; congruence). lia.
Qed.

Lemma nth_map2_lin α β : forall u v j, length u = length v ->
  nth j (map2 (fun a b => α * a + β * b) u v) 0 = α * nth j u 0 + β * nth j v 0.
Proof.
  induction u as [|a u IH]; intros [|b v] j H; try discriminate.
  - destruct j; cbn; lia.
  - destruct j; cbn [map2 nth]; [lia|]. apply IH. cbn in H. congruence.
Qed.

Lemma dot_upd_zero : forall w l i, length w = length l ->
  dot (upd_nth i 0 w) l = dot w l - nth i w 0 * nth i l 0.
Proof.
  induction w as [|a w IH]; intros [|b l] i H; try discriminate.
  - destruct i; unfold dot; cbn; lia.
  - destruct i; cbn [upd_nth nth]; rewrite !dot_cons; [lia|].
    rewrite IH by (cbn in H; congruence). lia.
Qed.

Lemma zsum_upd_zero : forall w i, zsum (upd_nth i 0 w) = zsum w - nth i w 0.
Proof.
  induction w as [|a w IH]; intros i.
  - destruct i; unfold zsum; cbn; lia.
  - destruct i; cbn [upd_nth nth]; unfold zsum in *; cbn; [lia|]. rewrite IH. lia.
Qed.

Lemma nth_upd_zero w i j : nth j (upd_nth i 0 w) 0 = if Nat.eqb i j then 0 else nth j w 0.
Proof.
  destruct (Nat.eqb i j) eqn:E.
  - apply Nat.eqb_eq in E. subst j. destruct (Nat.lt_ge_cases i (length w)) as [H|H].
    + now apply nth_upd_nth_eq.
    + apply nth_overflow. now rewrite upd_nth_length.
  - apply Nat.eqb_neq in E. now apply nth_upd_nth_neq.
Qed.

(* a non-negative weight vector with total 0 contributes nothing *)
Lemma nonneg_zero_dot : forall w l,
  (forall j, 0 <= nth j w 0) -> zsum w = 0 -> dot w l = 0.
Proof.
  induction w as [|a w IH]; intros l Hn Hz; [reflexivity|].
  assert (Ha : 0 <= a) by (apply (Hn O)).
  assert (Hw : forall j, 0 <= nth j w 0) by (intros j; apply (Hn (S j))).
  assert (Hs : 0 <= zsum w).
  { clear -Hw. induction w as [|b w IH]; [unfold zsum; cbn; lia|].
    pose proof (Hw O) as H0. cbn in H0. unfold zsum in *. cbn.
    assert (0 <= fold_right Z.add 0 w) by (apply IH; intros j; apply (Hw (S j))). lia. }
  unfold zsum in Hz. cbn in Hz. fold (zsum w) in Hz.
  assert (a = 0) by lia. assert (zsum w = 0) by lia. subst a.
  destruct l as [|b l]; [reflexivity|]. rewrite dot_cons, (IH l Hw) by assumption. lia.
Qed.

Lemma nth_app_weights (w : list Z) x j :
  nth j (w ++ [x]) 0 = if Nat.ltb j (length w) then nth j w 0
                       else if Nat.eqb j (length w) then x else 0.
Proof.
  destruct (Nat.ltb j (length w)) eqn:L.
  - apply Nat.ltb_lt in L. now apply app_nth1.
  - apply Nat.ltb_ge in L. rewrite app_nth2 by assumption.
    destruct (Nat.eqb j (length w)) eqn:E.
    + apply Nat.eqb_eq in E. subst. now rewrite Nat.sub_diag.
    + apply Nat.eqb_neq in E. destruct (j - length w)%nat as [|k] eqn:K; [lia|]. destruct k; reflexivity.
Qed.

Lemma col_app P Q c : col (P ++ Q) c = col P c ++ col Q c.
Proof. unfold col. apply map_app. Qed.

Lemma col_length P c : length (col P c) = length P.
Proof. unfold col. apply map_length. Qed.

Lemma nth_col P c j : (j < length P)%nat -> nth j (col P c) 0 = nth c (nth j P []) 0.
Proof. intros H. unfold col. now apply (nth_map_lt (fun r => nth c r 0)). Qed.

(* ---- positive affine change of the target ------------------------------------------------ *)
Lemma col_zaffine_0 a c P : col (zaffine a c P) 0 = map (fun y => a * y + c) (col P 0).
Proof. unfold col, zaffine. rewrite !map_map. reflexivity. Qed.

Lemma col_zaffine_S a c P k : col (zaffine a c P) (S k) = col P (S k).
Proof.
  unfold col, zaffine. rewrite map_map. apply map_ext. intros [|y x]; [destruct k; reflexivity|reflexivity].
Qed.

Lemma nth_zaffine a c P i :
  (i < length P)%nat ->
  nth i (zaffine a c P) [] = (a * nth 0 (nth i P []) 0 + c) :: tl (nth i P []).
Proof. intros H. unfold zaffine. now apply (nth_map_lt (fun p => (a * nth 0 p 0 + c) :: tl p)). Qed.

Lemma nth_S_tl (p : list Z) k : nth (S k) p 0 = nth k (tl p) 0.
Proof. destruct p; [destruct k; reflexivity|reflexivity]. Qed.

Theorem below_combo_affine d a c P i :
  0 < a -> (i < length P)%nat ->
  (below_combo d (zaffine a c P) i <-> below_combo d P i).
Proof.
  intros Ha Hi.
  assert (Hlen : length (zaffine a c P) = length P) by (unfold zaffine; apply map_length).
  split; intros (w & W & HW & Hl & Hn & Hz & Hs & Hx & Hy); exists w, W;
    (split; [exact HW|]); (split; [congruence|]); (split; [exact Hn|]); (split; [exact Hz|]);
    (split; [exact Hs|]); split.
  - intros k Hk. destruct k as [|k]; [lia|]. specialize (Hx (S k) Hk).
    rewrite col_zaffine_S, nth_zaffine in Hx by assumption. rewrite nth_S_tl in Hx. cbn [tl nth] in Hx.
    now rewrite nth_S_tl.
  - rewrite col_zaffine_0, dot_affine_r, nth_zaffine in Hy by (rewrite ?col_length; congruence).
    cbn [nth] in Hy. rewrite Hs in Hy. nia.
  - intros k Hk. destruct k as [|k]; [lia|]. specialize (Hx (S k) Hk).
    rewrite col_zaffine_S, nth_zaffine by assumption. rewrite nth_S_tl. cbn [tl nth].
    now rewrite nth_S_tl in Hx.
  - rewrite col_zaffine_0, dot_affine_r, nth_zaffine by (rewrite ?col_length; congruence).
    cbn [nth]. rewrite Hs. nia.
Qed.

(* ---- adding a point strictly above the hull ------------------------------------------------ *)
(* the new point is not a lower vertex *)
Theorem added_point_not_lower d P q :
  strictly_above d P q -> below_combo d (P ++ [q]) (length P).
Proof.
  intros (w & W & HW & Hl & Hn & Hs & Hx & Hy).
  exists (w ++ [0]), W. split; [exact HW|]. split; [rewrite !app_length; cbn; lia|].
  split; [|split; [|split; [|split]]].
  - intros j. rewrite nth_app_weights. destruct (Nat.ltb j (length w)); [apply Hn|].
    destruct (Nat.eqb j (length w)); lia.
  - rewrite nth_app_weights, <- Hl, Nat.ltb_irrefl, Nat.eqb_refl. reflexivity.
  - rewrite zsum_app. unfold zsum at 2. cbn. lia.
  - intros k Hk. rewrite col_app, dot_app by (now rewrite col_length).
    rewrite nth_middle. unfold dot at 2. cbn. rewrite (Hx k Hk). lia.
  - rewrite col_app, dot_app by (now rewrite col_length).
    rewrite nth_middle. unfold dot at 2. cbn. lia.
Qed.

(* ... and it does not change which of the old samples are lower vertices *)
Theorem add_above_invariant d P q i :
  (i < length P)%nat -> strictly_above d P q ->
  (below_combo d (P ++ [q]) i <-> below_combo d P i).
Proof.
  intros Hi (v & V & HV & Hvl & Hvn & Hvs & Hvx & Hvy). split.
  - (* substitute the combination that lies below q for q, then drop sample i itself *)
    intros (w' & W' & HW' & Hl' & Hn' & Hz' & Hs' & Hx' & Hy').
    rewrite app_length in Hl'. cbn in Hl'.
    assert (Hsplit : exists w wq, w' = w ++ [wq] /\ length w = length P).
    { destruct (exists_last (l := w')) as (w & wq & E); [intros ->; cbn in Hl'; lia|].
      exists w, wq. split; [exact E|]. subst w'. rewrite app_length in Hl'. cbn in Hl'. lia. }
    destruct Hsplit as (w & wq & -> & Hl).
    assert (Hwn : forall j, 0 <= nth j w 0).
    { intros j. specialize (Hn' j). rewrite nth_app_weights in Hn'.
      destruct (Nat.ltb j (length w)) eqn:L; [exact Hn'|].
      apply Nat.ltb_ge in L. rewrite nth_overflow by assumption. lia. }
    assert (Hwq : 0 <= wq).
    { specialize (Hn' (length w)). now rewrite nth_app_weights, Nat.ltb_irrefl, Nat.eqb_refl in Hn'. }
    assert (Hwi : nth i w 0 = 0).
    { rewrite nth_app_weights in Hz'. replace (Nat.ltb i (length w)) with true in Hz'; [exact Hz'|].
      symmetry. apply Nat.ltb_lt. lia. }
    rewrite zsum_app in Hs'. unfold zsum at 2 in Hs'. cbn in Hs'.
    assert (Hqi : nth i (P ++ [q]) [] = nth i P []) by now apply app_nth1.
    rewrite Hqi in Hx', Hy'.
    assert (Hxx : forall k, (1 <= k <= d)%nat ->
              dot w (col P k) + wq * nth k q 0 = W' * nth k (nth i P []) 0).
    { intros k Hk. specialize (Hx' k Hk). rewrite col_app, dot_app in Hx' by (now rewrite col_length).
      unfold dot at 2 in Hx'. cbn in Hx'. lia. }
    assert (Hyy : dot w (col P 0) + wq * nth 0 q 0 <= W' * nth 0 (nth i P []) 0).
    { rewrite col_app, dot_app in Hy' by (now rewrite col_length).
      unfold dot at 2 in Hy'. cbn in Hy'. lia. }
    clear Hx' Hy' Hn' Hz' Hqi.
    set (u0 := map2 (fun a b => V * a + wq * b) w v).
    set (u := upd_nth i 0 u0).
    set (vi := nth i v 0).
    assert (Hu0l : length u0 = length P) by (unfold u0; rewrite map2_length; lia).
    assert (Hvi : 0 <= vi) by apply Hvn.
    assert (Hu0i : nth i u0 0 = wq * vi).
    { unfold u0. rewrite nth_map2_lin by lia. rewrite Hwi. unfold vi. lia. }
    assert (HU : zsum u = V * W' - wq * vi).
    { unfold u. rewrite zsum_upd_zero, Hu0i. unfold u0. rewrite zsum_lin by lia. lia. }
    assert (Hux : forall k, (1 <= k <= d)%nat ->
              dot u (col P k) = (V * W' - wq * vi) * nth k (nth i P []) 0).
    { intros k Hk. unfold u. rewrite dot_upd_zero by (now rewrite col_length).
      rewrite Hu0i, nth_col by assumption. unfold u0.
      rewrite dot_lin_l by (rewrite ?col_length; lia).
      specialize (Hxx k Hk). specialize (Hvx k Hk). nia. }
    assert (Huy : dot u (col P 0) <= (V * W' - wq * vi) * nth 0 (nth i P []) 0).
    { unfold u. rewrite dot_upd_zero by (now rewrite col_length).
      rewrite Hu0i, nth_col by assumption. unfold u0.
      rewrite dot_lin_l by (rewrite ?col_length; lia). nia. }
    assert (Hun : forall j, 0 <= nth j u 0).
    { intros j. unfold u. rewrite nth_upd_zero. destruct (Nat.eqb i j); [lia|].
      unfold u0. rewrite nth_map2_lin by lia. specialize (Hwn j). specialize (Hvn j). nia. }
    (* the total weight stays positive *)
    assert (Hvle : vi <= V).
    { pose proof (zsum_upd_zero v i) as E.
      assert (0 <= zsum (upd_nth i 0 v)).
      { assert (G : forall l : list Z, (forall j, 0 <= nth j l 0) -> 0 <= zsum l).
        { induction l as [|b l IH]; intros Hl0; [unfold zsum; cbn; lia|].
          pose proof (Hl0 O) as H0. cbn in H0. unfold zsum in *. cbn.
          assert (0 <= fold_right Z.add 0 l) by (apply IH; intros j; apply (Hl0 (S j))). lia. }
        apply G. intros j. rewrite nth_upd_zero. destruct (Nat.eqb i j); [lia|apply Hvn]. }
      fold vi in E. lia. }
    assert (Hws : 0 <= zsum w).
    { assert (G : forall l : list Z, (forall j, 0 <= nth j l 0) -> 0 <= zsum l).
      { induction l as [|b l IH]; intros Hl0; [unfold zsum; cbn; lia|].
        pose proof (Hl0 O) as H0. cbn in H0. unfold zsum in *. cbn.
        assert (0 <= fold_right Z.add 0 l) by (apply IH; intros j; apply (Hl0 (S j))). lia. }
      now apply G. }
    assert (HUpos : 0 < V * W' - wq * vi).
    { assert (HUge : 0 <= V * W' - wq * vi) by nia.
      destruct (Z.eq_dec (V * W' - wq * vi) 0) as [E0|]; [|lia]. exfalso.
      (* then all of w' sits on q and all of v sits on i: q would be directly above sample i
         and at the same time not above it *)
      assert (Ew : zsum w = 0) by nia.
      assert (Ewq : wq = W') by lia.
      assert (Evi : vi = V) by nia.
      assert (Dw : forall l, dot w l = 0) by (intros l; now apply nonneg_zero_dot).
      assert (Dv : forall l, length l = length v -> dot v l = V * nth i l 0).
      { intros l Hll. pose proof (dot_upd_zero v l i (eq_sym Hll)) as E.
        rewrite (nonneg_zero_dot (upd_nth i 0 v) l) in E.
        - fold vi in E. lia.
        - intros j. rewrite nth_upd_zero. destruct (Nat.eqb i j); [lia|apply Hvn].
        - rewrite zsum_upd_zero. fold vi. lia. }
      rewrite Dw in Hyy. rewrite Dv in Hvy by (rewrite col_length; lia).
      rewrite nth_col in Hvy by assumption. nia. }
    exists u, (V * W' - wq * vi). split; [exact HUpos|]. split; [unfold u; now rewrite upd_nth_length|].
    split; [exact Hun|]. split; [unfold u; now rewrite nth_upd_zero, Nat.eqb_refl|].
    split; [exact HU|]. split; assumption.
  - (* more samples, more combinations *)
    intros (w & W & HW & Hl & Hn & Hz & Hs & Hx & Hy).
    exists (w ++ [0]), W. split; [exact HW|]. split; [rewrite !app_length; cbn; lia|].
    assert (Hqi : nth i (P ++ [q]) [] = nth i P []) by now apply app_nth1.
    rewrite Hqi. split; [|split; [|split; [|split]]].
    + intros j. rewrite nth_app_weights. destruct (Nat.ltb j (length w)); [apply Hn|].
      destruct (Nat.eqb j (length w)); lia.
    + rewrite nth_app_weights. replace (Nat.ltb i (length w)) with true; [exact Hz|].
      symmetry. apply Nat.ltb_lt. lia.
    + rewrite zsum_app. unfold zsum at 2. cbn. lia.
    + intros k Hk. rewrite col_app, dot_app by (now rewrite col_length).
      unfold dot at 2. cbn. rewrite (Hx k Hk). lia.
    + rewrite col_app, dot_app by (now rewrite col_length). unfold dot at 2. cbn. lia.
Qed.

(* ---- soundness of the executable simplex form ------------------------------------------------ *)
Lemma exists_lazy_spec {A} (f : A -> bool) l :
  exists_lazy f l = true <-> exists a, In a l /\ f a = true.
Proof.
  induction l as [|a l IH]; cbn.
  - split; [discriminate|intros (a & [] & _)].
  - destruct (f a) eqn:E.
    + split; [intros _; exists a; auto|reflexivity].
    + rewrite IH. split; intros (b & Hb & Hf); [exists b; auto|].
      destruct Hb as [<-|Hb]; [congruence|eauto].
Qed.

Lemma subsets_spec {A} : forall k (l s : list A),
  In s (subsets k l) -> length s = k /\ incl s l.
Proof.
  intros k l; revert k; induction l as [|a l IH]; intros [|k] s H; cbn in H.
  - destruct H as [<-|[]]. split; [reflexivity|intros ? []].
  - destruct H.
  - destruct H as [<-|[]]. split; [reflexivity|intros ? []].
  - apply in_app_or in H as [H|H].
    + apply in_map_iff in H as (s' & <- & Hs'). destruct (IH k s' Hs') as [L I].
      split; [cbn; congruence|]. intros x [<-|Hx]; [now left|right; auto].
    + destruct (IH (S k) s H) as [L I]. split; [assumption|]. intros x Hx. right. auto.
Qed.

Lemma remove_nth_seq : forall n a i j,
  In j (remove_nth i (seq a n)) -> (a <= j < a + n)%nat /\ j <> (a + i)%nat.
Proof.
  induction n as [|n IH]; intros a i j H; [destruct i; destruct H|].
  cbn [seq] in H. destruct i as [|i]; cbn [remove_nth] in H.
  - apply in_seq in H. lia.
  - destruct H as [<-|H]; [lia|]. apply IH in H. lia.
Qed.

Fixpoint sumjc (js : list nat) (cs : list Z) (l : list Z) : Z :=
  match js, cs with
  | j :: js', c :: cs' => c * nth j l 0 + sumjc js' cs' l
  | _, _ => 0
  end.

Definition unitv (n j : nat) (c : Z) : list Z :=
  map (fun k => if Nat.eqb k j then c else 0) (seq 0 n).
Fixpoint wvec (n : nat) (js : list nat) (cs : list Z) : list Z :=
  match js, cs with
  | j :: js', c :: cs' => map2 (fun a b => 1 * a + 1 * b) (unitv n j c) (wvec n js' cs')
  | _, _ => repeat 0 n
  end.

Lemma wvec_length n : forall js cs, length (wvec n js cs) = n.
Proof.
  induction js as [|j js IH]; intros [|c cs]; cbn; try apply repeat_length.
  rewrite map2_length, IH. unfold unitv. rewrite map_length, seq_length. lia.
Qed.

Lemma dot_repeat0 n l : dot (repeat 0 n) l = 0.
Proof. revert l; induction n as [|n IH]; intros [|b l]; cbn [repeat]; try reflexivity. rewrite dot_cons, IH. lia. Qed.

Lemma dot_unit_seq c j : forall n a l, length l = n ->
  dot (map (fun k => if Nat.eqb k j then c else 0) (seq a n)) l
  = if (Nat.leb a j && Nat.ltb j (a + n))%bool then c * nth (j - a) l 0 else 0.
Proof.
  induction n as [|n IH]; intros a l Hl.
  - destruct l; [|discriminate]. cbn [seq map]. rewrite dot_nil_l.
    destruct (Nat.leb a j && Nat.ltb j (a + 0))%bool eqn:E; [|reflexivity].
    apply andb_true_iff in E as [E1 E2]. apply Nat.leb_le in E1. apply Nat.ltb_lt in E2. lia.
  - destruct l as [|b l]; [discriminate|]. cbn [seq map]. rewrite dot_cons, IH by (cbn in Hl; congruence).
    destruct (Nat.eqb a j) eqn:E.
    + apply Nat.eqb_eq in E. subst a. rewrite Nat.sub_diag. cbn [nth].
      replace (Nat.leb (S j) j) with false by (symmetry; apply Nat.leb_gt; lia). cbn [andb].
      rewrite Nat.leb_refl. replace (Nat.ltb j (j + S n)) with true by (symmetry; apply Nat.ltb_lt; lia).
      cbn [andb]. lia.
    + apply Nat.eqb_neq in E.
      destruct (Nat.leb (S a) j) eqn:E1.
      * apply Nat.leb_le in E1. replace (Nat.leb a j) with true by (symmetry; apply Nat.leb_le; lia).
        cbn [andb]. replace (a + S n)%nat with (S a + n)%nat by lia.
        destruct (Nat.ltb j (S a + n)); [|lia].
        replace (j - a)%nat with (S (j - S a)) by lia. cbn [nth]. lia.
      * apply Nat.leb_gt in E1. replace (Nat.leb a j) with false by (symmetry; apply Nat.leb_gt; lia).
        cbn [andb]. lia.
Qed.

Lemma dot_unitv n j c l : (j < n)%nat -> length l = n -> dot (unitv n j c) l = c * nth j l 0.
Proof.
  intros Hj Hl. unfold unitv. rewrite dot_unit_seq by assumption. cbn [Nat.leb andb].
  replace (Nat.ltb j (0 + n)) with true by (symmetry; apply Nat.ltb_lt; lia). now rewrite Nat.sub_0_r.
Qed.

Lemma dot_wvec n l : length l = n -> forall js cs,
  (forall j, In j js -> (j < n)%nat) -> dot (wvec n js cs) l = sumjc js cs l.
Proof.
  intros Hl. induction js as [|j js IH]; intros [|c cs] Hj; cbn [wvec sumjc]; try apply dot_repeat0.
  rewrite dot_lin_l.
  - rewrite dot_unitv, IH; [lia| |apply Hj; now left|assumption]. intros k Hk. apply Hj. now right.
  - unfold unitv. now rewrite map_length, seq_length, wvec_length.
  - now rewrite wvec_length.
Qed.

Lemma nth_unitv n j c k : nth k (unitv n j c) 0 = if (Nat.ltb k n && Nat.eqb k j)%bool then c else 0.
Proof.
  unfold unitv. destruct (Nat.ltb k n) eqn:L.
  - apply Nat.ltb_lt in L. rewrite (nth_map_lt _ _ _ 0 O) by now rewrite seq_length.
    rewrite seq_nth by assumption. reflexivity.
  - apply Nat.ltb_ge in L. apply nth_overflow. now rewrite map_length, seq_length.
Qed.

Lemma nth_repeat0 n k : nth k (repeat 0 n) 0 = 0.
Proof. revert k; induction n as [|n IH]; intros [|k]; cbn; auto. Qed.

Lemma wvec_nonneg n : forall js cs, (forall c, In c cs -> 0 <= c) -> forall k, 0 <= nth k (wvec n js cs) 0.
Proof.
  induction js as [|j js IH]; intros [|c cs] Hc k; cbn [wvec]; try (rewrite nth_repeat0; lia).
  rewrite nth_map2_lin by (unfold unitv; now rewrite map_length, seq_length, wvec_length).
  rewrite nth_unitv. assert (0 <= c) by (apply Hc; now left).
  assert (0 <= nth k (wvec n js cs) 0) by (apply IH; intros; apply Hc; now right).
  destruct (Nat.ltb k n && Nat.eqb k j)%bool; lia.
Qed.

Lemma wvec_zero_outside n i : forall js cs, ~ In i js -> nth i (wvec n js cs) 0 = 0.
Proof.
  induction js as [|j js IH]; intros [|c cs] Hi; cbn [wvec]; try apply nth_repeat0.
  rewrite nth_map2_lin by (unfold unitv; now rewrite map_length, seq_length, wvec_length).
  rewrite nth_unitv, IH by (intros H; apply Hi; now right).
  destruct (Nat.eqb i j) eqn:E; [apply Nat.eqb_eq in E; subst; exfalso; apply Hi; now left|].
  rewrite andb_false_r. lia.
Qed.

Lemma zsum_dot_ones : forall w, dot w (repeat 1 (length w)) = zsum w.
Proof. induction w as [|a w IH]; [reflexivity|]. cbn [length repeat]. rewrite dot_cons, IH. unfold zsum. cbn. lia. Qed.

Lemma nth_repeat1 n k : (k < n)%nat -> nth k (repeat 1 n) 0 = 1.
Proof. revert k; induction n as [|n IH]; intros [|k] H; cbn; try lia. apply IH. lia. Qed.

Lemma sumjc_ones n : forall js cs, (forall j, In j js -> (j < n)%nat) -> length cs = length js ->
  sumjc js cs (repeat 1 n) = zsum cs.
Proof.
  induction js as [|j js IH]; intros [|c cs] Hj Hl; try discriminate; [reflexivity|].
  cbn [sumjc]. rewrite nth_repeat1 by (apply Hj; now left).
  rewrite IH by (cbn in Hl; try congruence; intros; apply Hj; now right). unfold zsum. cbn. lia.
Qed.

Lemma sumjc_scale D l : forall js cs, sumjc js (map (fun c => c * D) cs) l = D * sumjc js cs l.
Proof. induction js as [|j js IH]; intros [|c cs]; cbn [sumjc map]; try lia. rewrite IH. lia. Qed.

Lemma sumjc_dot P c : forall js cs, (forall j, In j js -> (j < length P)%nat) ->
  dot cs (map (fun p => nth c p 0) (map (fun j => nth j P []) js)) = sumjc js cs (col P c).
Proof.
  induction js as [|j js IH]; intros [|x cs] Hj; cbn [map sumjc]; try reflexivity.
  rewrite dot_cons, IH by (intros; apply Hj; now right). rewrite nth_col by (apply Hj; now left). lia.
Qed.

Lemma all_nonneg_scaled_spec D l : all_nonneg_scaled D l = true -> forall a, In a l -> 0 <= a * D.
Proof.
  induction l as [|b l IH]; cbn; intros H a []; subst.
  - destruct (0 <=? a * D) eqn:E; [now apply Z.leb_le|discriminate].
  - destruct (0 <=? b * D); [auto|discriminate].
Qed.

Lemma zsum_map_scale D l : zsum (map (fun c => c * D) l) = D * zsum l.
Proof. induction l as [|a l IH]; [unfold zsum; cbn; lia|]. unfold zsum in *. cbn. rewrite IH. lia. Qed.

(* from Cramer's identities to a convex combination of the other samples *)
Lemma witness_combo d P i js (D : Z) (Dk : list Z) :
  (i < length P)%nat -> length Dk = length js ->
  (forall j, In j js -> (j < length P)%nat /\ j <> i) ->
  D <> 0 -> (forall a, In a Dk -> 0 <= a * D) -> zsum Dk = D ->
  (forall c, (1 <= c <= d)%nat -> sumjc js Dk (col P c) = D * nth c (nth i P []) 0) ->
  (sumjc js Dk (col P 0) - nth 0 (nth i P []) 0 * D) * D <= 0 ->
  below_combo d P i.
Proof.
  intros Hi Hl Hj HD Hpos Hsum Hx Hy.
  set (n := length P). set (cs := map (fun c => c * D) Dk).
  assert (Hjn : forall j, In j js -> (j < n)%nat) by (intros j H; apply (Hj j H)).
  exists (wvec n js cs), (D * D).
  split; [nia|]. split; [apply wvec_length|]. split; [|split; [|split; [|split]]].
  - apply wvec_nonneg. intros c Hc. apply in_map_iff in Hc as (a & <- & Ha). auto.
  - apply wvec_zero_outside. intros H. apply (Hj i H). reflexivity.
  - rewrite <- zsum_dot_ones, wvec_length, dot_wvec by (auto using repeat_length).
    rewrite sumjc_ones by (auto; unfold cs; now rewrite map_length).
    unfold cs. rewrite zsum_map_scale, Hsum. reflexivity.
  - intros c Hc. rewrite (dot_wvec n (col P c) (col_length P c) js cs Hjn). unfold cs.
    rewrite sumjc_scale, (Hx c Hc). lia.
  - rewrite (dot_wvec n (col P 0) (col_length P 0) js cs Hjn). unfold cs. rewrite sumjc_scale. nia.
Qed.

(* Cramer's rule for the Laplace determinant, by computation, for 1..3 hull dimensions *)
Ltac det_compute :=
  cbv [simplex_D simplex_Dk det detn alt_sum map hrow tl nth seq length drop_col firstn skipn
       app upd_nth zsum fold_right dot map2 Nat.add].

Lemma list_len1 (p : list Z) : length p = 1%nat -> exists a, p = [a].
Proof. destruct p as [|a [|]]; try discriminate. eauto. Qed.
Lemma list_len2 (p : list Z) : length p = 2%nat -> exists a b, p = [a; b].
Proof. destruct p as [|a [|b [|]]]; try discriminate. eauto. Qed.
Lemma list_len3 (p : list Z) : length p = 3%nat -> exists a b c, p = [a; b; c].
Proof. destruct p as [|a [|b [|c [|]]]]; try discriminate. eauto. Qed.
Lemma list_len4 (p : list Z) : length p = 4%nat -> exists a b c e, p = [a; b; c; e].
Proof. destruct p as [|a [|b [|c [|e [|]]]]]; try discriminate. eauto. Qed.

Lemma cramer d S q :
  (1 <= d <= 3)%nat -> length S = Datatypes.S d -> (forall p, In p S -> length p = Datatypes.S d) ->
  length q = Datatypes.S d ->
  length (simplex_Dk S q) = Datatypes.S d /\ zsum (simplex_Dk S q) = simplex_D S /\
  forall c, (1 <= c <= d)%nat ->
    dot (simplex_Dk S q) (map (fun p => nth c p 0) S) = simplex_D S * nth c q 0.
Proof.
  intros Hd HS Hp Hq.
  assert (d = 1 \/ d = 2 \/ d = 3)%nat as [-> | [-> | ->]] by lia.
  - destruct S as [|p0 [|p1 [|]]]; try discriminate.
    destruct (list_len2 p0) as (y0 & a0 & ->); [apply Hp; cbn; auto|].
    destruct (list_len2 p1) as (y1 & a1 & ->); [apply Hp; cbn; auto|].
    destruct (list_len2 q) as (yq & aq & ->); [assumption|].
    split; [reflexivity|]. split; [det_compute; ring|].
    intros c Hc. assert (c = 1)%nat as -> by lia. det_compute. ring.
  - destruct S as [|p0 [|p1 [|p2 [|]]]]; try discriminate.
    destruct (list_len3 p0) as (y0 & a0 & b0 & ->); [apply Hp; cbn; auto|].
    destruct (list_len3 p1) as (y1 & a1 & b1 & ->); [apply Hp; cbn; auto|].
    destruct (list_len3 p2) as (y2 & a2 & b2 & ->); [apply Hp; cbn; auto|].
    destruct (list_len3 q) as (yq & aq & bq & ->); [assumption|].
    split; [reflexivity|]. split; [det_compute; ring|].
    intros c Hc. assert (c = 1 \/ c = 2)%nat as [-> | ->] by lia; det_compute; ring.
  - destruct S as [|p0 [|p1 [|p2 [|p3 [|]]]]]; try discriminate.
    destruct (list_len4 p0) as (y0 & a0 & b0 & c0 & ->); [apply Hp; cbn; auto|].
    destruct (list_len4 p1) as (y1 & a1 & b1 & c1 & ->); [apply Hp; cbn; auto|].
    destruct (list_len4 p2) as (y2 & a2 & b2 & c2 & ->); [apply Hp; cbn; auto 6|].
    destruct (list_len4 p3) as (y3 & a3 & b3 & c3 & ->); [apply Hp; cbn; auto 6|].
    destruct (list_len4 q) as (yq & aq & bq & cq & ->); [assumption|].
    split; [reflexivity|]. split; [det_compute; ring|].
    intros c Hc. assert (c = 1 \/ c = 2 \/ c = 3)%nat as [-> | [-> | ->]] by lia; det_compute; ring.
Qed.

(* the executable test is sound: a simplex witness yields a convex combination of other
   samples, at the position of sample i, whose target is <= y_i *)
Theorem not_lower_b_sound d P i :
  (1 <= d <= 3)%nat -> (forall p, In p P -> length p = S d) -> (i < length P)%nat ->
  not_lower_b d P i = true -> below_combo d P i.
Proof.
  intros Hd Hdim Hi H. unfold not_lower_b in H. apply exists_lazy_spec in H as (js & Hjs & Hw).
  apply subsets_spec in Hjs as [Hlen Hinc].
  assert (Hj : forall j, In j js -> (j < length P)%nat /\ j <> i).
  { intros j Hin. apply Hinc in Hin. apply remove_nth_seq in Hin. lia. }
  set (Sp := map (fun j => nth j P []) js) in *. set (q := nth i P []) in *.
  unfold simplex_witness in Hw.
  destruct (simplex_D Sp =? 0) eqn:ED; [discriminate|]. apply Z.eqb_neq in ED.
  destruct (all_nonneg_scaled (simplex_D Sp) (simplex_Dk Sp q)) eqn:EN; [|discriminate].
  apply Z.leb_le in Hw.
  destruct (cramer d Sp q Hd) as (C0 & C1 & C2).
  - unfold Sp. now rewrite map_length.
  - intros p Hp. unfold Sp in Hp. apply in_map_iff in Hp as (j & <- & Hin). apply Hdim, nth_In, (Hj j Hin).
  - apply Hdim. now apply nth_In.
  - apply (witness_combo d P i js (simplex_D Sp) (simplex_Dk Sp q)); try assumption.
    + congruence.
    + now apply all_nonneg_scaled_spec.
    + intros c Hc. pose proof (C2 c Hc) as E. unfold Sp in E.
      rewrite sumjc_dot in E by (intros j Hin; apply (Hj j Hin)). exact E.
    + unfold Sp in Hw. rewrite sumjc_dot in Hw by (intros j Hin; apply (Hj j Hin)). exact Hw.
Qed.

(* ---- one hull dimension: the pair form is COMPLETE (Caratheodory in dimension 1) ------------- *)
Fixpoint sumf {A} (f : A -> Z) (l : list A) : Z :=
  match l with [] => 0 | a :: t => f a + sumf f t end.

Lemma sumf_ext_in {A} (f g : A -> Z) l : (forall a, In a l -> f a = g a) -> sumf f l = sumf g l.
Proof. induction l as [|a l IH]; intros H; cbn; [reflexivity|]. rewrite H by now left. rewrite IH; [reflexivity|]. intros; apply H; now right. Qed.

Lemma sumf_add {A} (f g : A -> Z) l : sumf (fun a => f a + g a) l = sumf f l + sumf g l.
Proof. induction l as [|a l IH]; cbn; [reflexivity|]. rewrite IH. lia. Qed.

Lemma sumf_scale {A} (f : A -> Z) k l : sumf (fun a => k * f a) l = k * sumf f l.
Proof. induction l as [|a l IH]; cbn; [lia|]. rewrite IH. lia. Qed.

Lemma sumf_prod {A} (f g : A -> Z) l m :
  sumf (fun a => sumf (fun b => f a * g b) m) l = sumf f l * sumf g m.
Proof. induction l as [|a l IH]; cbn; [reflexivity|]. rewrite IH, sumf_scale. lia. Qed.

Lemma sumf_nonpos {A} (f : A -> Z) l : (forall a, In a l -> f a <= 0) -> sumf f l <= 0.
Proof.
  induction l as [|a l IH]; intros H; cbn; [lia|]. assert (f a <= 0) by (apply H; now left).
  assert (sumf f l <= 0) by (apply IH; intros; apply H; now right). lia.
Qed.

Lemma sumf_le_member {A} (f : A -> Z) l x :
  (forall a, In a l -> f a <= 0) -> In x l -> sumf f l <= f x.
Proof.
  induction l as [|a l IH]; intros H []; cbn.
  - subst. assert (sumf f l <= 0) by (apply sumf_nonpos; intros; apply H; now right). lia.
  - assert (f a <= 0) by (apply H; now left).
    assert (sumf f l <= f x) by (apply IH; [intros; apply H; now right|assumption]). lia.
Qed.

Lemma sumf_pos_exists {A} (f : A -> Z) l : 0 < sumf f l -> exists x, In x l /\ 0 < f x.
Proof.
  induction l as [|a l IH]; cbn; intros H; [lia|].
  destruct (Z_lt_le_dec 0 (f a)) as [Hp|Hn]; [exists a; auto|].
  destruct IH as (x & Hx & Hf); [lia|]. exists x; auto.
Qed.

Section Caratheodory1.
  Context {A : Type}.
  Variables Wt U V : A -> Z.
  Variable T : list A.
  Hypothesis Hw : forall t, In t T -> 0 <= Wt t.
  Hypothesis Hu : forall t, In t T -> 0 < Wt t -> U t <> 0.
  Hypothesis HW : 0 < sumf Wt T.
  Hypothesis Hx : sumf (fun t => Wt t * U t) T = 0.
  Hypothesis Hy : sumf (fun t => Wt t * V t) T <= 0.

  Let Lf t : Z := if U t <? 0 then 1 else 0.
  Let Rt t : Z := if 0 <? U t then 1 else 0.

  Lemma caratheodory_1d_contra :
    (forall a b, In a T -> In b T -> U a < 0 -> 0 < U b -> U a * V b - U b * V a < 0) -> False.
  Proof.
    intros Hpair.
    set (p t := Lf t * (Wt t * U t)). set (r t := Lf t * (Wt t * V t)).
    set (s t := Rt t * (Wt t * U t)). set (q t := Rt t * (Wt t * V t)).
    assert (Ind : forall t, (Lf t = 1 /\ Rt t = 0 /\ U t < 0) \/ (Lf t = 0 /\ Rt t = 1 /\ 0 < U t)
                            \/ (Lf t = 0 /\ Rt t = 0 /\ U t = 0)).
    { intros t. unfold Lf, Rt. destruct (U t <? 0) eqn:E1; destruct (0 <? U t) eqn:E2;
        try apply Z.ltb_lt in E1; try apply Z.ltb_lt in E2; try apply Z.ltb_ge in E1;
        try apply Z.ltb_ge in E2; lia. }
    assert (EAB : sumf p T + sumf s T = 0).
    { rewrite <- sumf_add, <- Hx. apply sumf_ext_in. intros t _. unfold p, s.
      destruct (Ind t) as [(->&->&?)|[(->&->&?)|(->&->&E)]]; try rewrite E; lia. }
    assert (EV : sumf r T + sumf q T = sumf (fun t => Wt t * V t) T).
    { rewrite <- sumf_add. apply sumf_ext_in. intros t Ht. unfold r, q.
      destruct (Ind t) as [(->&->&?)|[(->&->&?)|(->&->&E)]]; try lia.
      assert (Wt t = 0).
      { specialize (Hw t Ht). destruct (Z.eq_dec (Wt t) 0) as [|N]; [assumption|].
        exfalso. apply (Hu t Ht); lia. }
      nia. }
    assert (Hp : forall t, In t T -> p t <= 0).
    { intros t Ht. unfold p. specialize (Hw t Ht).
      destruct (Ind t) as [(->&_&?)|[(->&_&?)|(->&_&?)]]; nia. }
    assert (Hs : forall t, In t T -> 0 <= s t).
    { intros t Ht. unfold s. specialize (Hw t Ht).
      destruct (Ind t) as [(_&->&?)|[(_&->&?)|(_&->&?)]]; nia. }
    (* a weighted point on each side *)
    destruct (sumf_pos_exists Wt T HW) as (t0 & Ht0 & Hw0).
    assert (Hside : exists a0 b0, In a0 T /\ In b0 T /\ 0 < Wt a0 /\ 0 < Wt b0 /\ U a0 < 0 /\ 0 < U b0).
    { pose proof (Hu t0 Ht0 Hw0) as Hu0.
      destruct (Z_lt_le_dec (U t0) 0) as [Hl|Hr].
      - assert (sumf p T <= p t0) by (apply sumf_le_member; assumption).
        assert (p t0 < 0).
        { unfold p. destruct (Ind t0) as [(->&_&?)|[(_&_&?)|(_&_&?)]]; nia. }
        destruct (sumf_pos_exists s T) as (b0 & Hb0 & Hsb); [lia|].
        exists t0, b0. unfold s in Hsb. pose proof (Hw b0 Hb0).
        destruct (Ind b0) as [(_&E&?)|[(_&E&?)|(_&E&?)]]; rewrite E in Hsb; try lia.
        repeat split; try assumption; nia.
      - assert (0 < U t0) by lia.
        assert (0 < s t0).
        { unfold s. destruct (Ind t0) as [(_&_&?)|[(_&->&?)|(_&_&?)]]; nia. }
        assert (s t0 <= sumf s T).
        { pose proof (sumf_le_member (fun t => - s t) T t0) as G. cbn in G.
          assert (E : sumf (fun t => - s t) T = - sumf s T).
          { rewrite <- (sumf_scale s (-1)). apply sumf_ext_in. intros; lia. }
          rewrite E in G. assert (- sumf s T <= - s t0); [|lia].
          apply G; [|assumption]. intros a Ha. specialize (Hs a Ha). lia. }
        destruct (sumf_pos_exists (fun t => - p t) T) as (a0 & Ha0 & Hpa).
        { assert (E : sumf (fun t => - p t) T = - sumf p T).
          { rewrite <- (sumf_scale p (-1)). apply sumf_ext_in. intros; lia. }
          rewrite E. lia. }
        exists a0, t0. unfold p in Hpa. pose proof (Hw a0 Ha0).
        destruct (Ind a0) as [(E&_&?)|[(E&_&?)|(E&_&?)]]; rewrite E in Hpa; try lia.
        repeat split; try assumption; nia. }
    destruct Hside as (a0 & b0 & Ha0 & Hb0 & Wa & Wb & Ua & Ub).
    (* the double sum over (left, right) pairs *)
    set (term a b := p a * q b - s b * r a).
    assert (Hterm : forall a b, In a T -> In b T -> term a b <= 0).
    { intros a b Ha Hb. unfold term, p, q, r, s. pose proof (Hw a Ha). pose proof (Hw b Hb).
      destruct (Ind a) as [(->&_&?)|[(->&_&?)|(->&_&?)]]; try lia;
      destruct (Ind b) as [(_&->&?)|[(_&->&?)|(_&->&?)]]; try lia.
      assert (Hc : U a * V b - U b * V a < 0) by (apply Hpair; assumption).
      replace (1 * (Wt a * U a) * (1 * (Wt b * V b)) - 1 * (Wt b * U b) * (1 * (Wt a * V a)))
        with ((Wt a * Wt b) * (U a * V b - U b * V a)) by ring.
      apply Z.mul_nonneg_nonpos; [apply Z.mul_nonneg_nonneg; assumption|lia]. }
    assert (ES : sumf (fun a => sumf (fun b => term a b) T) T
                 = sumf p T * sumf q T - sumf s T * sumf r T).
    { rewrite <- (sumf_prod p q T T), <- (sumf_prod s r T T).
      assert (E1 : sumf (fun a => sumf (fun b => s a * r b) T) T
                   = sumf (fun a => sumf (fun b => s b * r a) T) T).
      { rewrite (sumf_prod s r T T).
        rewrite (sumf_ext_in (fun a => sumf (fun b => s b * r a) T) (fun a => r a * sumf s T)).
        - rewrite (sumf_ext_in (fun a => r a * sumf s T) (fun a => sumf s T * r a)) by (intros; lia).
          rewrite sumf_scale. lia.
        - intros a _. rewrite (sumf_ext_in (fun b => s b * r a) (fun b => r a * s b)) by (intros; lia).
          rewrite sumf_scale. lia. }
      rewrite E1. unfold term.
      assert (E2 : forall a, sumf (fun b => p a * q b - s b * r a) T
                   = sumf (fun b => p a * q b) T + -1 * sumf (fun b => s b * r a) T).
      { intros a. rewrite <- sumf_scale, <- sumf_add. apply sumf_ext_in. intros; lia. }
      rewrite (sumf_ext_in _ _ T (fun a _ => E2 a)).
      rewrite sumf_add, sumf_scale. lia. }
    assert (Sneg : sumf (fun a => sumf (fun b => term a b) T) T < 0).
    { assert (I1 : sumf (fun a => sumf (fun b => term a b) T) T <= sumf (fun b => term a0 b) T).
      { apply (sumf_le_member (fun a => sumf (fun b => term a b) T)); [|assumption].
        intros a Ha. apply sumf_nonpos. intros b Hb. now apply Hterm. }
      assert (I2 : sumf (fun b => term a0 b) T <= term a0 b0).
      { apply (sumf_le_member (fun b => term a0 b)); [|assumption]. intros b Hb. now apply Hterm. }
      assert (term a0 b0 < 0).
      { unfold term, p, q, r, s.
        destruct (Ind a0) as [(->&_&?)|[(->&_&?)|(->&_&?)]]; try lia.
        destruct (Ind b0) as [(_&->&?)|[(_&->&?)|(_&->&?)]]; try lia.
        pose proof (Hpair a0 b0 Ha0 Hb0 Ua Ub) as Hc.
        replace (1 * (Wt a0 * U a0) * (1 * (Wt b0 * V b0)) - 1 * (Wt b0 * U b0) * (1 * (Wt a0 * V a0)))
          with ((Wt a0 * Wt b0) * (U a0 * V b0 - U b0 * V a0)) by ring.
        apply Z.mul_pos_neg; [apply Z.mul_pos_pos; assumption|lia]. }
      lia. }
    assert (HA : sumf p T < 0).
    { assert (sumf p T <= p a0) by (apply sumf_le_member; assumption).
      assert (p a0 < 0); [|lia]. unfold p.
      destruct (Ind a0) as [(->&_&?)|[(->&_&?)|(->&_&?)]]; nia. }
    rewrite ES in Sneg. nia.
  Qed.
End Caratheodory1.

Lemma sumf_combine_dot (c : nat) : forall (w : list Z) (P : list (list Z)),
  length w = length P ->
  sumf (fun t => fst t * nth c (snd t) 0) (combine w P) = dot w (col P c).
Proof.
  induction w as [|a w IH]; intros [|p P] H; try discriminate; [reflexivity|].
  cbn [combine sumf col map fst snd]. fold (col P c). rewrite dot_cons, IH by (cbn in H; congruence). reflexivity.
Qed.

Lemma sumf_combine_zsum : forall (w : list Z) (P : list (list Z)),
  length w = length P -> sumf fst (combine w P) = zsum w.
Proof.
  induction w as [|a w IH]; intros [|p P] H; try discriminate; [reflexivity|].
  cbn [combine sumf fst]. rewrite IH by (cbn in H; congruence). unfold zsum. cbn. lia.
Qed.

Lemma cross_pt1 pa pb xq yq :
  cross (pt1 pa) (pt1 pb) (xq, yq)
  = (nth 1 pa 0 - xq) * (nth 0 pb 0 - yq) - (nth 1 pb 0 - xq) * (nth 0 pa 0 - yq).
Proof. unfold cross, pt1. cbn [fst snd]. ring. Qed.

(* for one hull dimension and distinct positions: "some convex combination of the other
   samples at x_i has a target <= y_i"  <=>  "x_i is straddled by two other samples whose
   segment passes on or below (x_i, y_i)" *)
Theorem below_combo_1d P i :
  (forall p, In p P -> length p = 2%nat) -> (i < length P)%nat ->
  (forall j, (j < length P)%nat -> j <> i -> nth 1 (nth j P []) 0 <> nth 1 (nth i P []) 0) ->
  (below_combo 1 P i <-> not_lower_1d (map pt1 P) (pt1 (nth i P []))).
Proof.
  intros Hdim Hi Hdist. set (xq := nth 1 (nth i P []) 0). set (yq := nth 0 (nth i P []) 0).
  assert (Eq : pt1 (nth i P []) = (xq, yq)) by reflexivity.
  split.
  - intros (w & W & HW & Hl & Hn & Hz & Hs & Hx & Hy).
    destruct (not_lower_1d_b (map pt1 P) (pt1 (nth i P []))) eqn:EB.
    { unfold not_lower_1d_b in EB. apply existsb_exists in EB as (a & Ha & EB).
      apply existsb_exists in EB as (b & Hb & EB).
      apply andb_true_iff in EB as [EB H3]. apply andb_true_iff in EB as [H1 H2].
      apply Z.ltb_lt in H1, H2. apply Z.leb_le in H3. exists a, b. tauto. }
    exfalso.
    set (T := combine w P).
    apply (caratheodory_1d_contra (fun t => fst t) (fun t => nth 1 (snd t) 0 - xq)
                                  (fun t => nth 0 (snd t) 0 - yq) T).
    + intros t Ht. destruct (In_nth _ _ (0, []) Ht) as (j & Hj & <-). unfold T.
      rewrite combine_nth by assumption. cbn [fst]. apply Hn.
    + intros t Ht Hpos. destruct (In_nth _ _ (0, []) Ht) as (j & Hj & E). unfold T in *.
      rewrite combine_nth in E by assumption. subst t. cbn [fst snd] in *.
      rewrite combine_length, Hl, Nat.min_id in Hj.
      assert (j <> i) by (intros ->; lia). specialize (Hdist j Hj H). fold xq in Hdist. lia.
    + unfold T. rewrite sumf_combine_zsum by assumption. lia.
    + rewrite (sumf_ext_in _ (fun t => fst t * nth 1 (snd t) 0 + (- xq) * fst t)) by (intros; lia).
      rewrite sumf_add, sumf_scale. unfold T.
      rewrite sumf_combine_dot, sumf_combine_zsum by assumption.
      rewrite (Hx 1%nat) by lia. fold xq. lia.
    + rewrite (sumf_ext_in _ (fun t => fst t * nth 0 (snd t) 0 + (- yq) * fst t)) by (intros; lia).
      rewrite sumf_add, sumf_scale. unfold T.
      rewrite sumf_combine_dot, sumf_combine_zsum by assumption. fold yq in Hy. lia.
    + intros ta tb Hta Htb Ua Ub. cbn beta in *.
      assert (Hpa : In (pt1 (snd ta)) (map pt1 P)).
      { apply in_map. destruct ta as [wa pa]. apply in_combine_r in Hta. exact Hta. }
      assert (Hpb : In (pt1 (snd tb)) (map pt1 P)).
      { apply in_map. destruct tb as [wb pb]. apply in_combine_r in Htb. exact Htb. }
      destruct (Z_lt_le_dec (cross (pt1 (snd ta)) (pt1 (snd tb)) (xq, yq)) 0) as [Hc|Hc].
      * rewrite cross_pt1 in Hc. lia.
      * exfalso. assert (N : not_lower_1d_b (map pt1 P) (pt1 (nth i P [])) = true); [|congruence].
        unfold not_lower_1d_b. apply existsb_exists. exists (pt1 (snd ta)). split; [assumption|].
        apply existsb_exists. exists (pt1 (snd tb)). split; [assumption|].
        rewrite Eq. rewrite !andb_true_iff, !Z.ltb_lt, Z.leb_le. unfold pt1 in *. cbn [fst snd] in *. lia.
  - intros (a & b & Ha & Hb & H1 & H2 & H3).
    apply in_map_iff in Ha as (pa & <- & Ha). apply in_map_iff in Hb as (pb & <- & Hb).
    destruct (In_nth _ _ [] Ha) as (ja & Hja & Ea). destruct (In_nth _ _ [] Hb) as (jb & Hjb & Eb).
    rewrite Eq in *. rewrite cross_pt1 in H3. unfold pt1 in H1, H2. cbn [fst] in H1, H2.
    set (xa := nth 1 pa 0) in *. set (xb := nth 1 pb 0) in *.
    apply (witness_combo 1 P i [ja; jb] (xb - xa) [xb - xq; xq - xa]); try assumption.
    + reflexivity.
    + intros j [<-|[<-|[]]]; (split; [assumption|]); intros ->.
      * rewrite Ea in *. unfold xa, xq in H1. rewrite <- Ea in H1. lia.
      * rewrite Eb in *. unfold xb, xq in H2. rewrite <- Eb in H2. lia.
    + lia.
    + intros c [<-|[<-|[]]]; nia.
    + unfold zsum. cbn. lia.
    + intros c Hc. assert (c = 1)%nat as -> by lia. cbn [sumjc].
      rewrite !nth_col by assumption. rewrite Ea, Eb. fold xa xb xq. ring.
    + cbn [sumjc]. rewrite !nth_col by assumption. rewrite Ea, Eb. fold yq.
      set (ya := nth 0 pa 0) in *. set (yb := nth 0 pb 0) in *. nia.
Qed.
