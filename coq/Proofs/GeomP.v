(* Vector geometry over Z used by the Voronoi pruning rule: Cauchy-Schwarz and the
   squared-form triangle inequality  |b-a|^2 >= 4|c-a|^2  ->  |c-b|^2 >= |c-a|^2. *)
From Verif Require Import ListX ListXP.

Definition lin (p q : Z) (u v : list Z) : list Z := map2 (fun a b => q * a - p * b) u v.

Lemma sqn_cons a u : sqn (a :: u) = a * a + sqn u.
Proof. reflexivity. Qed.

Lemma sqn_lin p q u v :
  length u = length v ->
  sqn (lin p q u v) = q * q * sqn u - 2 * p * q * dot u v + p * p * sqn v.
Proof.
  revert v; induction u as [|a u IH]; intros [|b v] H; try discriminate.
  - unfold lin, sqn, dot; cbn. lia.
  - injection H as H. specialize (IH v H). unfold lin in *. cbn [map2].
    rewrite !sqn_cons, dot_cons, IH. ring.
Qed.

Lemma sqn_zero_dot u v : length u = length v -> sqn v = 0 -> dot u v = 0.
Proof.
  revert v; induction u as [|a u IH]; intros [|b v] H; try discriminate; [reflexivity|].
  injection H as H. rewrite sqn_cons, dot_cons. intros Hz.
  pose proof (sqn_nonneg v) as Hv. pose proof (Z.square_nonneg b) as Hb.
  assert (Hb0 : b * b = 0) by lia. assert (Hv0 : sqn v = 0) by lia.
  rewrite (IH v H Hv0). assert (b = 0) by nia. subst b. lia.
Qed.

(* Cauchy-Schwarz over Z-vectors *)
Theorem cauchy_schwarz u v :
  length u = length v -> dot u v * dot u v <= sqn u * sqn v.
Proof.
  intros H. pose proof (sqn_nonneg (lin (dot u v) (sqn v) u v)) as Hpos.
  rewrite (sqn_lin _ _ _ _ H) in Hpos.
  pose proof (sqn_nonneg v) as Hv. pose proof (sqn_nonneg u) as Hu.
  destruct (Z.eq_dec (sqn v) 0) as [E|E].
  - rewrite (sqn_zero_dot u v H E), E. lia.
  - assert (Hq : 0 < sqn v) by lia.
    set (p := dot u v) in *. set (q := sqn v) in *. set (U := sqn u) in *.
    assert (Hfac : 0 <= q * (q * U - p * p)) by (replace (q * (q * U - p * p)) with
      (q * q * U - 2 * p * q * p + p * p * q) by ring; exact Hpos).
    assert (0 <= q * U - p * p) by (apply Z.mul_nonneg_cancel_l with (n := q); assumption).
    lia.
Qed.

Lemma vsub_length u v : length u = length v -> length (vsub u v) = length u.
Proof. intros H. unfold vsub. rewrite map2_length, H. apply Nat.min_id. Qed.

(* |c-b|^2 = |c-a|^2 + |b-a|^2 - 2 <c-a, b-a> *)
Lemma sqdist_via a b c :
  length a = length b -> length a = length c ->
  sqdist c b = sqdist c a + sqdist b a - 2 * dot (vsub c a) (vsub b a).
Proof.
  revert b c; induction a as [|x a IH]; intros [|y b] [|z c] H1 H2; try discriminate.
  - reflexivity.
  - injection H1 as H1. injection H2 as H2. specialize (IH b c H1 H2).
    unfold vsub in *. cbn [map2]. rewrite !sqdist_cons, dot_cons, IH. ring.
Qed.

(* the triangle-inequality pruning rule, in squared form *)
Theorem prune_sound a b c :
  length a = length b -> length a = length c ->
  4 * sqdist c a <= sqdist b a -> sqdist c a <= sqdist c b.
Proof.
  intros H1 H2 Hq. rewrite (sqdist_via a b c H1 H2).
  set (x := vsub c a). set (y := vsub b a).
  assert (Hlen : length x = length y).
  { unfold x, y. rewrite !vsub_length; congruence. }
  pose proof (cauchy_schwarz x y Hlen) as Hcs.
  change (sqdist c a) with (sqn x) in *. change (sqdist b a) with (sqn y) in *.
  pose proof (sqn_nonneg x) as Hx. pose proof (sqn_nonneg y) as Hy.
  set (p := dot x y) in *. set (X := sqn x) in *. set (Y := sqn y) in *.
  (* p^2 <= X*Y <= Y^2/4, hence 2p <= Y *)
  assert (H4 : 4 * (p * p) <= Y * Y) by nia.
  assert (2 * p <= Y) by nia. lia.
Qed.
