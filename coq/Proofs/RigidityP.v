(* Algebra of the prediction rigidities (ssreflect/mathcomp style).
   Part 1: quadratic forms of a regularised Gram matrix and of an oracle inverse, over an
           arbitrary real closed field.
   Part 2: what the mexp programs of Model/Rigidity.v evaluate to ([eval_mx]).
   Part 3: the C20 theorems about those programs. *)
From mathcomp Require Import all_ssreflect all_algebra.
From Verif Require Import MExp MExpMx Rigidity RigidityListP.
Set Implicit Arguments.
Unset Strict Implicit.
Unset Printing Implicit Defensive.
Import Order.Theory GRing.Theory Num.Theory.
Close Scope float_scope.
Local Open Scope ring_scope.

(* ================================================================== Part 1 *)
Section QuadraticForms.
  Variable F : rcfType.

  Definition nrm2 n (w : 'rV[F]_n) : F := (w *m w^T) ord0 ord0.

  Lemma nrm2E n (w : 'rV[F]_n) : nrm2 w = \sum_k (w ord0 k) ^+ 2.
  Proof. by rewrite /nrm2 mxE; apply: eq_bigr => k _; rewrite mxE expr2. Qed.

  Lemma nrm2_ge0 n (w : 'rV[F]_n) : 0 <= nrm2 w.
  Proof. by rewrite nrm2E; apply: sumr_ge0 => k _; apply: sqr_ge0. Qed.

  Lemma nrm2_eq0 n (w : 'rV[F]_n) : nrm2 w = 0 -> w = 0.
  Proof.
    rewrite nrm2E => /psumr_eq0P H; apply/rowP => k; rewrite mxE.
    by apply/eqP; rewrite -(@sqrf_eq0 F) ; apply/eqP; apply: H => // j _; apply: sqr_ge0.
  Qed.

  Lemma nrm2_gt0 n (w : 'rV[F]_n) : w != 0 -> 0 < nrm2 w.
  Proof.
    move=> w0; rewrite lt0r nrm2_ge0 andbT.
    by apply: contra w0 => /eqP /nrm2_eq0 ->.
  Qed.

  Lemma nrm2Z n (s : F) (w : 'rV[F]_n) : nrm2 (s *: w) = s * s * nrm2 w.
  Proof. by rewrite /nrm2 linearZ /= -scalemxAl -scalemxAr !mxE mulrA. Qed.

  Variable d : nat.
  Implicit Types (x y z : 'rV[F]_d) (A B P Q : 'M[F]_d).

  (* x A x^T *)
  Definition qf A x : F := (x *m A *m x^T) ord0 ord0.

  Lemma qfD A B x : qf (A + B) x = qf A x + qf B x.
  Proof. by rewrite /qf mulmxDr mulmxDl mxE. Qed.

  Lemma qfB A B x : qf (A - B) x = qf A x - qf B x.
  Proof. by rewrite /qf mulmxBr mulmxBl !mxE. Qed.

  Lemma qf_scalar a x : qf a%:M x = a * nrm2 x.
  Proof. by rewrite /qf /nrm2 mul_mx_scalar -scalemxAl mxE. Qed.

  Lemma qfZl a A x : qf (a *: A) x = a * qf A x.
  Proof. by rewrite /qf -scalemxAr -scalemxAl mxE. Qed.

  Lemma qf_gram k (Z : 'M[F]_(k, d)) x : qf (Z^T *m Z) x = nrm2 (x *m Z^T).
  Proof. by rewrite /qf /nrm2 trmx_mul trmxK !mulmxA. Qed.

  Lemma qfZ P s z : qf P (s *: z) = s * s * qf P z.
  Proof. by rewrite /qf linearZ /= -!scalemxAl -scalemxAr !mxE mulrA. Qed.

  Lemma qf0 P : qf P 0 = 0.
  Proof. by rewrite /qf !mul0mx mxE. Qed.

  (* the regularised covariance  Z^T Z + a I *)
  Definition reg k (Z : 'M[F]_(k, d)) (a : F) : 'M[F]_d := Z^T *m Z + a%:M.

  Lemma reg_sym k (Z : 'M[F]_(k, d)) a : (reg Z a)^T = reg Z a.
  Proof. by rewrite /reg linearD /= trmx_mul trmxK tr_scalar_mx. Qed.

  Lemma qf_reg k (Z : 'M[F]_(k, d)) a x : qf (reg Z a) x = nrm2 (x *m Z^T) + a * nrm2 x.
  Proof. by rewrite /reg qfD qf_gram qf_scalar. Qed.

  Lemma reg_pos k (Z : 'M[F]_(k, d)) a x : 0 < a -> x != 0 -> 0 < qf (reg Z a) x.
  Proof.
    move=> a0 x0; rewrite qf_reg; apply: ltr_paddl (nrm2_ge0 _) _.
    by apply: mulr_gt0 a0 (nrm2_gt0 x0).
  Qed.

  Lemma reg_ge0 k (Z : 'M[F]_(k, d)) a x : 0 <= a -> 0 <= qf (reg Z a) x.
  Proof.
    by move=> a0; rewrite qf_reg; apply: addr_ge0 (nrm2_ge0 _) (mulr_ge0 a0 (nrm2_ge0 _)).
  Qed.

  Lemma regZ k (Z : 'M[F]_(k, d)) a s : s * s = 1 -> reg (s *: Z) a = reg Z a.
  Proof.
    by move=> ss; rewrite /reg -scalemxAr linearZ /= -scalemxAl scalerA ss scale1r.
  Qed.

  (* ---- an oracle inverse P of a symmetric matrix A:  A P = I ---- *)
  Section Inverse.
    Variables (A P : 'M[F]_d).
    Hypothesis Asym : A^T = A.
    Hypothesis AP : A *m P = 1%:M.

    Lemma inv_PA : P *m A = 1%:M.
    Proof. exact: mulmx1C AP. Qed.

    Lemma inv_sym : P^T = P.
    Proof.
      have H : P^T *m A = 1%:M by rewrite -{1}Asym -trmx_mul AP trmx1.
      by rewrite -[LHS]mulmx1 -AP mulmxA H mul1mx.
    Qed.

    Lemma inv_is_invmx : P = invmx A.
    Proof.
      have Au : A \in unitmx by case/mulmx1_unit: AP.
      by rewrite -[LHS]mul1mx -(mulVmx Au) -mulmxA AP mulmx1.
    Qed.

    Lemma inv_unique Q : A *m Q = 1%:M -> Q = P.
    Proof. by move=> AQ; rewrite -[LHS]mul1mx -inv_PA -mulmxA AQ mulmx1. Qed.

    (* x P x^T = y A y^T with y = x P *)
    Lemma qf_inv x : qf P x = qf A (x *m P).
    Proof.
      rewrite /qf trmx_mul inv_sym -!mulmxA (mulmxA A) AP mul1mx.
      by rewrite !mulmxA.
    Qed.

    Lemma inv_back x : x *m P *m A = x.
    Proof. by rewrite -mulmxA inv_PA mulmx1. Qed.
  End Inverse.

  Section RegInverse.
    Variables (k : nat) (Z : 'M[F]_(k, d)) (a : F) (P : 'M[F]_d).
    Hypothesis a0 : 0 < a.
    Hypothesis AP : reg Z a *m P = 1%:M.

    Lemma reginv_pos x : x != 0 -> 0 < qf P x.
    Proof.
      move=> x0; rewrite (qf_inv (reg_sym Z a) AP); apply: reg_pos => //.
      apply: contra x0 => /eqP y0.
      by rewrite -(inv_back AP x) y0 mul0mx.
    Qed.

    Lemma reginv_ge0 x : 0 <= qf P x.
    Proof.
      by rewrite (qf_inv (reg_sym Z a) AP); apply: reg_ge0; apply: ltW.
    Qed.
  End RegInverse.

  (* monotonicity in the regulariser:  a <= b  =>  x (A+b)^-1 x^T <= x (A+a)^-1 x^T *)
  Section Monotone.
    Variables (k : nat) (Z : 'M[F]_(k, d)) (a b : F) (P Q : 'M[F]_d).
    Hypothesis a0 : 0 < a.
    Hypothesis ab : a <= b.
    Hypothesis AP : reg Z a *m P = 1%:M.
    Hypothesis BQ : reg Z b *m Q = 1%:M.

    Lemma reg_shift : reg Z b = reg Z a + (b - a)%:M.
    Proof. by rewrite /reg -addrA -raddfD /= (addrC a) subrK. Qed.

    Lemma qf_diff x :
      qf P x - qf Q x = (b - a) * (nrm2 (x *m Q) + (b - a) * qf P (x *m Q)).
    Proof.
      set c := b - a; set w := x *m Q.
      have Qs := inv_sym (reg_sym Z b) BQ.
      have PA := inv_PA AP.
      have PQ : P - Q = P *m c%:M *m Q.
        have -> : c%:M = reg Z b - reg Z a by rewrite reg_shift addrC addKr.
        by rewrite mulmxBr mulmxBl -mulmxA BQ mulmx1 PA mul1mx.
      have xQt : Q *m x^T = w^T by rewrite /w trmx_mul Qs.
      have xP : x *m P = w + c *: (w *m P).
        rewrite -{1}(inv_back BQ x) -/w reg_shift mulmxDr mulmxDl -mulmxA AP mulmx1.
        by rewrite mul_mx_scalar -scalemxAl.
      rewrite -qfB PQ /qf !mulmxA -(mulmxA _ Q) xQt xP mul_mx_scalar -scalemxAl mxE.
      rewrite mulmxDl mxE -scalemxAl mxE; congr (c * (_ + _)); first by rewrite /nrm2 mxE.
      by rewrite mxE.
    Qed.

    Lemma qf_mono x : qf Q x <= qf P x.
    Proof.
      have c0 : 0 <= b - a by rewrite subr_ge0.
      rewrite -subr_ge0 qf_diff; apply: (mulr_ge0 c0).
      apply: addr_ge0 (nrm2_ge0 _) _; apply: (mulr_ge0 c0).
      exact: reginv_ge0 a0 AP _.
    Qed.
  End Monotone.
End QuadraticForms.

(* ================================================================== Part 2 *)
(* specification-level counterparts of the programs *)
Section Spec.
  Variable F : rcfType.
  Variable d : nat.

  (* np.mean(X**2, axis=0).sum() *)
  Definition sf2 N (X : 'M[F]_(N, d)) : F := \sum_j (N%:R^-1 * \sum_i (X i j) ^+ 2).
  Definition isf N (X : 'M[F]_(N, d)) : F := (Num.sqrt (sf2 X))^-1.

  (* averaging matrix of a 0/1 membership matrix: row s is M[s,:] / sum(M[s,:]) *)
  Definition avg k n (M : 'M[F]_(k, n)) : 'M[F]_(k, n) :=
    \matrix_(s, a) ((\sum_b M s b)^-1 * M s a).

  Definition maskrow (mk z : 'rV[F]_d) : 'rV[F]_d := \row_j (z ord0 j * mk ord0 j).

  Lemma maskrowZ mk s z : maskrow mk (s *: z) = s *: maskrow mk z.
  Proof. by apply/rowP => j; rewrite !mxE mulrA. Qed.

  Lemma maskrow_ones z : maskrow (const_mx 1) z = z.
  Proof. by apply/rowP => j; rewrite !mxE mulr1. Qed.

  Lemma sf2Z N c (X : 'M[F]_(N, d)) : sf2 (c *: X) = c ^+ 2 * sf2 X.
  Proof.
    rewrite /sf2 mulr_sumr; apply: eq_bigr => j _.
    rewrite mulrCA; congr (_ * _); rewrite mulr_sumr; apply: eq_bigr => i _.
    by rewrite mxE exprMn.
  Qed.

  Lemma sf2_ge0 N (X : 'M[F]_(N, d)) : 0 <= sf2 X.
  Proof.
    apply: sumr_ge0 => j _; apply: mulr_ge0; first by rewrite invr_ge0 ler0n.
    by apply: sumr_ge0 => i _; apply: sqr_ge0.
  Qed.

  Lemma isfZ N c (X : 'M[F]_(N, d)) : isf (c *: X) = `|c|^-1 * isf X.
  Proof.
    by rewrite /isf sf2Z sqrtrM ?sqr_ge0 // sqrtr_sqr invfM.
  Qed.
End Spec.

Definition e_Xtr (F : rcfType) (env : env_mx F) N d : 'M[F]_(N, d) := env N d 0%N.
Definition e_Mtr (F : rcfType) (env : env_mx F) S N : 'M[F]_(S, N) := env S N 1%N.
Definition e_Xte (F : rcfType) (env : env_mx F) Nt d : 'M[F]_(Nt, d) := env Nt d 2%N.
Definition e_Mte (F : rcfType) (env : env_mx F) St Nt : 'M[F]_(St, Nt) := env St Nt 3%N.
Definition e_alpha (F : rcfType) (env : env_mx F) : F := env 1%N 1%N 4%N ord0 ord0.
Definition e_Xinv (F : rcfType) (env : env_mx F) d : 'M[F]_d := env d d 5%N.
Definition e_mask (F : rcfType) (env : env_mx F) d : 'rV[F]_d := env 1%N d 6%N.

Section Programs.
  Variable F : rcfType.
  Variables (d N S Nt St : nat).
  Variable env : env_mx F.
  Let Xtr := e_Xtr env N d.
  Let Mtr := e_Mtr env S N.
  Let Xte := e_Xte env Nt d.
  Let Mte := e_Mte env St Nt.
  Let alpha := e_alpha env.
  Let Xinv := e_Xinv env d.
  Let mask := e_mask env d.

  Lemma map_recipE m n t (A : 'M[F]_(m, n)) i j :
    (map_mx (sfun_mx Frecip t) A) i j = (A i j)^-1.
  Proof. by rewrite mxE. Qed.

  Lemma cnt1E n : (eval_mx env (cnt1 n)) ord0 ord0 = n%:R.
  Proof.
    rewrite /= mxE (eq_bigr (fun _ => 1)) ?sumr_const ?card_ord //.
    by move=> i _; rewrite !mxE mulr1.
  Qed.

  Lemma sf2E : (eval_mx env (sf2_prog d N)) ord0 ord0 = sf2 Xtr.
  Proof.
    rewrite /sf2_prog /= mxE; apply: eq_bigr => j _.
    rewrite [in LHS]mxE [const_mx 1 j ord0]mxE mulr1 map_recipE.
    have /= -> := cnt1E N; congr (_ * _).
    by rewrite mxE; apply: eq_bigr => i _; rewrite !mxE mul1r expr2.
  Qed.

  Lemma isfE : (eval_mx env (isf_prog d N)) ord0 ord0 = isf Xtr.
  Proof. by rewrite /isf_prog /= map_recipE mxE sf2E. Qed.

  Opaque isf_prog.

  Lemma meansE k n (M : mexp k n) (X : mexp n d) :
    eval_mx env (means_prog d N M X) = isf Xtr *: (avg (eval_mx env M) *m eval_mx env X).
  Proof.
    rewrite /means_prog /= isfE.
    rewrite -scalemxAr mul_diag_mx; apply/matrixP => s f; rewrite !mxE.
    rewrite (eq_bigr (fun b => eval_mx env M s b)); last by move=> b _; rewrite mxE mulr1.
    rewrite /= !mulr_sumr; apply: eq_bigr => a _.
    by rewrite [LHS]mulrCA; congr (_ * _); rewrite /avg mxE mulrA.
  Qed.

  (* the per-structure averaged, globally scaled training features *)
  Definition Xstruc : 'M[F]_(S, d) := isf Xtr *: (avg Mtr *m Xtr).

  Lemma xstrucE : eval_mx env (xstruc_prog d N S) = Xstruc.
  Proof. by rewrite /xstruc_prog meansE. Qed.

  Opaque means_prog xstruc_prog.

  Lemma xprimeE : eval_mx env (xprime_prog d N S) = reg Xstruc alpha.
  Proof. by rewrite /xprime_prog /= xstrucE scalemx1. Qed.

  Opaque xprime_prog.

  Lemma hypE :
    eval_mx env (hyp_prog d N S) = 0 <-> reg Xstruc alpha *m Xinv = 1%:M.
  Proof.
    rewrite /hyp_prog /= xprimeE.
    by split=> [/subr0_eq|->]; rewrite ?subrr.
  Qed.

  Lemma quadE k (Z : mexp k d) i :
    (eval_mx env (quad_prog d Z)) i ord0 = qf Xinv (row i (eval_mx env Z)).
  Proof.
    rewrite /quad_prog /qf /= -row_mul !mxE; apply: eq_bigr => j _.
    by rewrite !mxE mulr1.
  Qed.

  Lemma maskedE k (Z : mexp k d) i :
    row i (eval_mx env (masked d Z)) = maskrow mask (row i (eval_mx env Z)).
  Proof.
    apply/rowP => j; rewrite /masked /= !mxE; congr (_ * _).
    by rewrite big_ord1 !mxE mul1r.
  Qed.

  Lemma xtestE : eval_mx env (xtest_prog d N Nt) = isf Xtr *: Xte.
  Proof. by rewrite /xtest_prog /= isfE. Qed.

  Opaque quad_prog masked xtest_prog.

  (* the three outputs, entry by entry *)
  Definition x_env (i : 'I_Nt) : 'rV[F]_d := isf Xtr *: row i Xte.
  Definition x_struc (s : 'I_St) : 'rV[F]_d := isf Xtr *: row s (avg Mte *m Xte).

  Lemma lprE i : (eval_mx env (lpr_prog d N Nt)) i ord0 = (qf Xinv (x_env i))^-1.
  Proof.
    by rewrite /lpr_prog /= map_recipE quadE xtestE linearZ.
  Qed.

  Lemma lcprE i :
    (eval_mx env (lcpr_prog d N Nt)) i ord0 = (qf Xinv (maskrow mask (x_env i)))^-1.
  Proof.
    by rewrite /lcpr_prog /= map_recipE quadE maskedE xtestE linearZ.
  Qed.

  Lemma cprE s :
    (eval_mx env (cpr_prog d N Nt St)) s ord0 = (qf Xinv (maskrow mask (x_struc s)))^-1.
  Proof.
    by rewrite /cpr_prog /= map_recipE quadE maskedE meansE linearZ.
  Qed.
End Programs.
Global Opaque lpr_prog lcpr_prog cpr_prog hyp_prog.

(* ================================================================== Part 3 *)
(* the oracle hypothesis on an environment:  (XX + alpha I) * Xinv = I *)
Definition rig_hyp (F : rcfType) (env : env_mx F) (d N S : nat) : Prop :=
  eval_mx env (hyp_prog d N S) = 0.

(* lists of booleans (component masks, membership rows) as matrices over F *)
Definition bvec_mx (F : rcfType) d (l : seq bool) : 'rV[F]_d := \row_j (nth false l j)%:R.
Definition bmat_mx (F : rcfType) m n (B : seq (seq bool)) : 'M[F]_(m, n) :=
  \matrix_(i, j) (nth false (nth [::] B i) j)%:R.

(* ssreflect's nth and the standard library's List.nth (used by Model/Rigidity.v) agree *)
Lemma nth_ListE T (x0 : T) (s : seq T) n : nth x0 s n = List.nth n s x0.
Proof. by elim: s n => [|a s IH] [|n] //=. Qed.

Section Theorems.
  Variable F : rcfType.
  Variables (d N S Nt St : nat).
  Implicit Types env : env_mx F.

  Local Notation A env := (reg (Xstruc d N S env) (e_alpha env)).
  Local Notation lpr env := (eval_mx env (lpr_prog d N Nt)).
  Local Notation lcpr env := (eval_mx env (lcpr_prog d N Nt)).
  Local Notation cpr env := (eval_mx env (cpr_prog d N Nt St)).
  Local Notation xe env := (@x_env F d N Nt env).
  Local Notation xs env := (@x_struc F d N Nt St env).
  Local Notation mk env := (e_mask env d).

  Lemma hypAP env : rig_hyp env d N S -> A env *m e_Xinv env d = 1%:M.
  Proof. by move/hypE. Qed.

  (* ---- closed form: the oracle hypothesis pins Xinv to the inverse ---- *)
  Theorem rig_closed_form env :
    rig_hyp env d N S ->
    [/\ forall i, lpr env i ord0 = (qf (invmx (A env)) (xe env i))^-1,
        forall i, lcpr env i ord0 = (qf (invmx (A env)) (maskrow (mk env) (xe env i)))^-1
      & forall s, cpr env s ord0 = (qf (invmx (A env)) (maskrow (mk env) (xs env s)))^-1].
  Proof.
    move=> /hypAP AP; rewrite -(inv_is_invmx AP).
    by split=> i; [rewrite lprE | rewrite lcprE | rewrite cprE].
  Qed.

  (* ---- strict positivity ---- *)
  Lemma isf_gt0 env : 0 < sf2 (e_Xtr env N d) -> 0 < isf (e_Xtr env N d).
  Proof. by move=> s0; rewrite /isf invr_gt0 sqrtr_gt0. Qed.

  Lemma scaled_neq0 env (z : 'rV[F]_d) :
    0 < sf2 (e_Xtr env N d) -> z != 0 -> isf (e_Xtr env N d) *: z != 0.
  Proof. by move=> /isf_gt0 c0 z0; rewrite scaler_eq0 negb_or z0 andbT gt_eqF. Qed.

  Theorem rig_positive env :
    0 < e_alpha env -> rig_hyp env d N S -> 0 < sf2 (e_Xtr env N d) ->
    [/\ forall i, row i (e_Xte env Nt d) != 0 -> 0 < lpr env i ord0,
        forall i, maskrow (mk env) (row i (e_Xte env Nt d)) != 0 -> 0 < lcpr env i ord0
      & forall s, maskrow (mk env) (row s (avg (e_Mte env St Nt) *m e_Xte env Nt d)) != 0 ->
                  0 < cpr env s ord0].
  Proof.
    move=> a0 /hypAP AP s0; split=> i z0.
    - by rewrite lprE invr_gt0; apply: reginv_pos a0 AP _ _; apply: scaled_neq0.
    - rewrite lcprE invr_gt0; apply: reginv_pos a0 AP _ _.
      by rewrite /x_env maskrowZ; apply: scaled_neq0.
    - rewrite cprE invr_gt0; apply: reginv_pos a0 AP _ _.
      by rewrite /x_struc maskrowZ; apply: scaled_neq0.
  Qed.

  (* ---- invariance under a common rescaling of all features ---- *)
  Definition rescaled (c : F) env env' : Prop :=
    [/\ e_Xtr env' N d = c *: e_Xtr env N d, e_Xte env' Nt d = c *: e_Xte env Nt d,
        e_Mtr env' S N = e_Mtr env S N, e_Mte env' St Nt = e_Mte env St Nt
      & e_alpha env' = e_alpha env /\ e_mask env' d = e_mask env d].

  Theorem rig_scale_invariant (c : F) env env' :
    c != 0 -> rescaled c env env' -> rig_hyp env d N S -> rig_hyp env' d N S ->
    [/\ lpr env' = lpr env, lcpr env' = lcpr env & cpr env' = cpr env].
  Proof.
    move=> c0 [Etr Ete EMtr EMte [Ea Em]] /hypAP AP /hypAP AP'.
    set sg := `|c|^-1 * c.
    have sgsg : sg * sg = 1.
      rewrite /sg mulrACA -invfM -normrM ger0_norm -?expr2 ?sqr_ge0 //.
      by rewrite mulVf // expf_neq0.
    have isfE' : isf (c *: e_Xtr env N d) * c = sg * isf (e_Xtr env N d).
      by rewrite isfZ /sg mulrAC.
    have XsE : Xstruc d N S env' = sg *: Xstruc d N S env.
      by rewrite /Xstruc Etr EMtr -scalemxAr !scalerA isfE'.
    have AE : A env' = A env by rewrite XsE Ea regZ.
    have PE : e_Xinv env' d = e_Xinv env d.
      by apply: (inv_unique AP); rewrite -AE.
    have xeE i : xe env' i = sg *: xe env i.
      by rewrite /x_env Ete Etr linearZ /= !scalerA isfE'.
    have xsE s : xs env' s = sg *: xs env s.
      by rewrite /x_struc Ete EMte Etr -scalemxAr linearZ /= !scalerA isfE'.
    split; apply/colP => i.
    - by rewrite !lprE PE xeE qfZ sgsg mul1r.
    - by rewrite !lcprE PE Em xeE maskrowZ qfZ sgsg mul1r.
    - by rewrite !cprE PE Em xsE maskrowZ qfZ sgsg mul1r.
  Qed.

  (* ---- non-decreasing in alpha ---- *)
  Definition same_data env env' : Prop :=
    [/\ e_Xtr env' N d = e_Xtr env N d, e_Xte env' Nt d = e_Xte env Nt d,
        e_Mtr env' S N = e_Mtr env S N, e_Mte env' St Nt = e_Mte env St Nt
      & e_mask env' d = e_mask env d].

  Theorem rig_monotone_alpha env env' :
    same_data env env' -> 0 < e_alpha env -> e_alpha env <= e_alpha env' ->
    rig_hyp env d N S -> rig_hyp env' d N S -> 0 < sf2 (e_Xtr env N d) ->
    [/\ forall i, row i (e_Xte env Nt d) != 0 -> lpr env i ord0 <= lpr env' i ord0,
        forall i, maskrow (mk env) (row i (e_Xte env Nt d)) != 0 ->
                  lcpr env i ord0 <= lcpr env' i ord0
      & forall s, maskrow (mk env) (row s (avg (e_Mte env St Nt) *m e_Xte env Nt d)) != 0 ->
                  cpr env s ord0 <= cpr env' s ord0].
  Proof.
    move=> [Etr Ete EMtr EMte Em] a0 ab /hypAP AP /hypAP AP' s0.
    have b0 : 0 < e_alpha env' by apply: lt_le_trans a0 ab.
    have XsE : Xstruc d N S env' = Xstruc d N S env by rewrite /Xstruc Etr EMtr.
    rewrite XsE in AP'.
    have xeE i : xe env' i = xe env i by rewrite /x_env Ete Etr.
    have xsE s : xs env' s = xs env s by rewrite /x_struc Ete EMte Etr.
    have key (z : 'rV[F]_d) : z != 0 ->
        (qf (e_Xinv env d) z)^-1 <= (qf (e_Xinv env' d) z)^-1.
      move=> z0; rewrite lef_pinv ?posrE; first exact: qf_mono a0 ab AP AP' z.
      - exact: reginv_pos a0 AP _ z0.
      - exact: reginv_pos b0 AP' _ z0.
    split=> i z0.
    - by rewrite !lprE xeE; apply: key; apply: scaled_neq0.
    - rewrite !lcprE xeE Em; apply: key.
      by rewrite /x_env maskrowZ; apply: scaled_neq0.
    - rewrite !cprE xsE Em; apply: key.
      by rewrite /x_struc maskrowZ; apply: scaled_neq0.
  Qed.

  (* ---- one component covering all features: LCPR = LPR ---- *)
  Lemma bvec_single : bvec_mx F d (comp_mask [:: d] 0) = const_mx 1.
  Proof.
    apply/rowP => j; rewrite !mxE nth_ListE comp_mask_single //.
    by apply/ssrnat.ltP; exact: ltn_ord.
  Qed.

  Theorem rig_lcpr_single_component env :
    e_mask env d = bvec_mx F d (comp_mask [:: d] 0) -> lcpr env = lpr env.
  Proof.
    by move=> Em; apply/colP => i; rewrite lcprE lprE Em bvec_single maskrow_ones.
  Qed.
End Theorems.

(* ================================================================== membership matrices *)
Section Membership.
  Variable F : rcfType.

  Lemma sum_nth_ntrue n (r : seq bool) :
    size r = n -> \sum_(a < n) (nth false r a)%:R = (ntrue r)%:R :> F.
  Proof.
    move=> <-; rewrite -(big_mkord xpredT (fun a => (nth false r a)%:R)).
    rewrite -(big_nth false xpredT (fun b : bool => b%:R)).
    elim: r => [|b r IH]; first by rewrite big_nil.
    have -> : ntrue (b :: r) = (b + ntrue r)%N by case: b.
    by rewrite big_cons IH natrD.
  Qed.

  Lemma eqb_eqn (a b : nat) : Nat.eqb a b = (a == b).
  Proof. by apply/idP/eqP => /PeanoNat.Nat.eqb_eq. Qed.

  Variable lens : seq nat.
  Local Notation S := (size lens).
  Local Notation N := (lsum lens).

  (* the 0/1 membership matrix handed to the programs, over F *)
  Definition member_mx : 'M[F]_(S, N) := bmat_mx F S N (member_rows lens).
  (* environment a belongs to structure s *)
  Definition mem_of (s : 'I_S) (a : 'I_N) : bool :=
    List.nth a (List.nth s (member_rows lens) [::]) false.

  Lemma member_mxE s a : member_mx s a = (mem_of s a)%:R.
  Proof. by rewrite mxE !nth_ListE. Qed.

  Lemma member_rowsum (s : 'I_S) : \sum_a member_mx s a = (List.nth s lens 0%N)%:R.
  Proof.
    rewrite (eq_bigr (fun a : 'I_N => (nth false (nth [::] (member_rows lens) s) a)%:R));
      last by move=> a _; rewrite mxE.
    have sS : (s < length lens)%coq_nat by apply/ssrnat.ltP; exact: ltn_ord.
    rewrite sum_nth_ntrue nth_ListE ?member_rows_count //.
    exact: member_row_length.
  Qed.

  (* row s of (avg member_mx * X) is the mean of the rows of X that belong to structure s *)
  Theorem rig_struct_means d (X : 'M[F]_(N, d)) (s : 'I_S) (f : 'I_d) :
    (avg member_mx *m X) s f
    = (\sum_(a | mem_of s a) X a f) / (List.nth s lens 0%N)%:R.
  Proof.
    rewrite mxE [RHS]mulrC mulr_sumr [RHS]big_mkcond /=; apply: eq_bigr => a _.
    rewrite mxE member_rowsum member_mxE.
    by case: (mem_of s a); rewrite ?mulr1 ?mulr0 ?mul0r.
  Qed.

  (* a structure with one environment: its averaged row is that environment's row *)
  Lemma avg_single d (X : 'M[F]_(N, d)) (s : 'I_S) (a : 'I_N) :
    List.nth s lens 0%N = 1%N -> (a : nat) = lsum (List.firstn s lens) ->
    row s (avg member_mx *m X) = row a X.
  Proof.
    move=> l1 aE; apply/rowP => f; rewrite !mxE.
    have sS : (s < length lens)%coq_nat by apply/ssrnat.ltP; exact: ltn_ord.
    rewrite (bigD1 a) //= big1 ?addr0 => [|b ba].
    - rewrite mxE member_rowsum l1 invr1 mul1r member_mxE /mem_of.
      rewrite member_rows_single // -?aE ?eqb_eqn ?eqxx ?mul1r //.
      by apply/ssrnat.ltP; exact: ltn_ord.
    - rewrite mxE member_mxE /mem_of member_rows_single // -?aE ?eqb_eqn.
      + by move: ba; rewrite -val_eqE /= => /negbTE ->; rewrite mulr0 mul0r.
      + by apply/ssrnat.ltP; exact: ltn_ord.
  Qed.
End Membership.

Section SingleEnvironment.
  Variable F : rcfType.
  Variables (d N : nat) (lte : seq nat).
  Local Notation St := (size lte).
  Local Notation Nt := (lsum lte).

  Theorem rig_cpr_single_environment (env : env_mx F) (s : 'I_St) (a : 'I_Nt) :
    e_Mte env St Nt = member_mx F lte ->
    List.nth s lte 0%N = 1%N -> (a : nat) = lsum (List.firstn s lte) ->
    (eval_mx env (cpr_prog d N Nt St)) s ord0 = (eval_mx env (lcpr_prog d N Nt)) a ord0.
  Proof.
    move=> EM l1 aE; rewrite cprE lcprE /x_struc /x_env EM.
    by rewrite (avg_single _ l1 aE).
  Qed.
End SingleEnvironment.

(* ================================================================== non-vacuity *)
Section NonVacuity.
  Variable F : rcfType.

  (* for every data and every alpha > 0 an oracle value satisfying the hypothesis exists *)
  Theorem rig_oracle_exists d k (Z : 'M[F]_(k, d)) (a : F) :
    0 < a -> exists P : 'M[F]_d, reg Z a *m P = 1%:M.
  Proof.
    move=> a0; exists (invmx (reg Z a)); apply: mulmxV.
    rewrite -row_free_unit; apply: inj_row_free => v vA.
    apply/eqP; apply: contraT => v0.
    by have := reg_pos Z a0 v0; rewrite /qf vA mul0mx mxE ltxx.
  Qed.

  (* a concrete environment (one feature, one structure, one environment, alpha = 1):
     X_train = [[1]], sfactor = 1, XX + alpha = 2, Xinv = 1/2, LPR = 2 *)
  Definition tiny_env : env_mx F :=
    fun m n x => const_mx (if x == 5%N then 2%:R^-1 else 1).

  Lemma tiny_env_ok :
    [/\ rig_hyp tiny_env 1 1 1, 0 < e_alpha tiny_env, 0 < sf2 (e_Xtr tiny_env 1 1),
        row ord0 (e_Xte tiny_env 1 1) != 0
      & (eval_mx tiny_env (lpr_prog 1 1 1)) ord0 ord0 = 2%:R].
  Proof.
    have s1 : sf2 (e_Xtr tiny_env 1 1) = 1.
      by rewrite /sf2 big_ord1 big_ord1 !mxE /= invr1 mul1r expr1n.
    have i1 : isf (e_Xtr tiny_env 1 1) = 1 by rewrite /isf s1 sqrtr1 invr1.
    have av : avg (e_Mtr tiny_env 1 1) = 1%:M.
      apply/matrixP => i j; rewrite !mxE big_ord1 !mxE /= invr1 mul1r.
      by rewrite !ord1 eqxx.
    have Xs : Xstruc 1 1 1 tiny_env = 1%:M.
      rewrite /Xstruc i1 scale1r av mul1mx; apply/matrixP => i j.
      by rewrite !mxE /= !ord1 eqxx.
    have a1 : e_alpha tiny_env = 1 by rewrite /e_alpha mxE.
    have P2 : e_Xinv tiny_env 1 = (2%:R^-1)%:M.
      by apply/matrixP => i j; rewrite !mxE /= !ord1 eqxx mulr1n.
    have A2 : reg (Xstruc 1 1 1 tiny_env) (e_alpha tiny_env) = 2%:R%:M.
      by rewrite /reg Xs a1 trmx1 mulmx1 -raddfD /= -(natrD _ 1 1).
    split.
    - by apply/hypE; rewrite A2 P2 -scalar_mxM divff // pnatr_eq0.
    - by rewrite a1 ltr01.
    - by rewrite s1 ltr01.
    - apply/eqP => /rowP /(_ ord0); rewrite !mxE /= => /eqP.
      by rewrite oner_eq0.
    - rewrite lprE /x_env i1 scale1r P2 /qf mul_mx_scalar -scalemxAl mxE.
      rewrite mxE big_ord1 !mxE /= mulr1 mulr1 invrK //.
  Qed.
End NonVacuity.
