(* Algebra of the prediction rigidities (ssreflect/mathcomp style).
   Part 1: quadratic forms of a regularised Gram matrix and of an oracle inverse, over an
           arbitrary real closed field.
   Part 2: what the mexp programs of Model/Rigidity.v evaluate to ([eval_mx]).
   Part 3: the C20 theorems about those programs. *)
From mathcomp Require Import all_ssreflect all_algebra.
From Verif Require Import MExp MExpMx Rigidity RigidityListP.
Set Implicit Arguments.
Unset Strict Implicit.
Unset Printing Implicit Defensive.
Import Order.Theory GRing.Theory Num.Theory.
Close Scope float_scope.
Local Open Scope ring_scope.

(* ================================================================== Part 1 *)
Section QuadraticForms.
  Variable F : rcfType.

  Definition nrm2 n (w : 'rV[F]_n) : F := (w *m w^T) ord0 ord0.

  Lemma nrm2E n (w : 'rV[F]_n) : nrm2 w = \sum_k (w ord0 k) ^+ 2.
  Proof. by rewrite /nrm2 mxE; apply: eq_bigr => k _; rewrite mxE expr2. Qed.

  Lemma nrm2_ge0 n (w : 'rV[F]_n) : 0 <= nrm2 w.
  Proof. by rewrite nrm2E; apply: sumr_ge0 => k _; apply: sqr_ge0. Qed.

  Lemma nrm2_eq0 n (w : 'rV[F]_n) : nrm2 w = 0 -> w = 0.
  Proof.
    rewrite nrm2E => /psumr_eq0P H; apply/rowP => k; rewrite mxE.
    by apply/eqP; rewrite -(@sqrf_eq0 F) ; apply/eqP; apply: H => // j _; apply: sqr_ge0.
  Qed.

  Lemma nrm2_gt0 n (w : 'rV[F]_n) : w != 0 -> 0 < nrm2 w.
  Proof.
    move=> w0; rewrite lt0r nrm2_ge0 andbT.
    by apply: contra w0 => /eqP /nrm2_eq0 ->.
  Qed.

  Lemma nrm2Z n (s : F) (w : 'rV[F]_n) : nrm2 (s *: w) = s * s * nrm2 w.
  Proof. by rewrite /nrm2 linearZ /= -scalemxAl -scalemxAr !mxE mulrA. Qed.

  Variable d : nat.
  Implicit Types (x y z : 'rV[F]_d) (A B P Q : 'M[F]_d).

  (* x A x^T *)
  Definition qf A x : F := (x *m A *m x^T) ord0 ord0.

  Lemma qfD A B x : qf (A + B) x = qf A x + qf B x.
  Proof. by rewrite /qf mulmxDr mulmxDl mxE. Qed.

  Lemma qfB A B x : qf (A - B) x = qf A x - qf B x.
  Proof. by rewrite /qf mulmxBr mulmxBl !mxE. Qed.

  Lemma qf_scalar a x : qf a%:M x = a * nrm2 x.
  Proof. by rewrite /qf /nrm2 mul_mx_scalar -scalemxAl mxE. Qed.

  Lemma qfZl a A x : qf (a *: A) x = a * qf A x.
  Proof. by rewrite /qf -scalemxAr -scalemxAl mxE. Qed.

  Lemma qf_gram k (Z : 'M[F]_(k, d)) x : qf (Z^T *m Z) x = nrm2 (x *m Z^T).
  Proof. by rewrite /qf /nrm2 trmx_mul trmxK !mulmxA. Qed.

  Lemma qfZ P s z : qf P (s *: z) = s * s * qf P z.
  Proof. by rewrite /qf linearZ /= -!scalemxAl -scalemxAr !mxE mulrA. Qed.

  Lemma qf0 P : qf P 0 = 0.
  Proof. by rewrite /qf !mul0mx mxE. Qed.

  (* the regularised covariance  Z^T Z + a I *)
  Definition reg k (Z : 'M[F]_(k, d)) (a : F) : 'M[F]_d := Z^T *m Z + a%:M.

  Lemma reg_sym k (Z : 'M[F]_(k, d)) a : (reg Z a)^T = reg Z a.
  Proof. by rewrite /reg linearD /= trmx_mul trmxK tr_scalar_mx. Qed.

  Lemma qf_reg k (Z : 'M[F]_(k, d)) a x : qf (reg Z a) x = nrm2 (x *m Z^T) + a * nrm2 x.
  Proof. by rewrite /reg qfD qf_gram qf_scalar. Qed.

  Lemma reg_pos k (Z : 'M[F]_(k, d)) a x : 0 < a -> x != 0 -> 0 < qf (reg Z a) x.
  Proof.
    move=> a0 x0; rewrite qf_reg; apply: ltr_paddl (nrm2_ge0 _) _.
    by apply: mulr_gt0 a0 (nrm2_gt0 x0).
  Qed.

  Lemma reg_ge0 k (Z : 'M[F]_(k, d)) a x : 0 <= a -> 0 <= qf (reg Z a) x.
  Proof.
    by move=> a0; rewrite qf_reg; apply: addr_ge0 (nrm2_ge0 _) (mulr_ge0 a0 (nrm2_ge0 _)).
  Qed.

  Lemma regZ k (Z : 'M[F]_(k, d)) a s : s * s = 1 -> reg (s *: Z) a = reg Z a.
  Proof.
    by move=> ss; rewrite /reg -scalemxAr linearZ /= -scalemxAl scalerA ss scale1r.
  Qed.

  (* ---- an oracle inverse P of a symmetric matrix A:  A P = I ---- *)
  Section Inverse.
    Variables (A P : 'M[F]_d).
    Hypothesis Asym : A^T = A.
    Hypothesis AP : A *m P = 1%:M.

    Lemma inv_PA : P *m A = 1%:M.
    Proof. exact: mulmx1C AP. Qed.

    Lemma inv_sym : P^T = P.
    Proof.
      have H : P^T *m A = 1%:M by rewrite -{1}Asym -trmx_mul AP trmx1.
      by rewrite -[LHS]mulmx1 -AP mulmxA H mul1mx.
    Qed.

    Lemma inv_is_invmx : P = invmx A.
    Proof.
      have Au : A \in unitmx by case/mulmx1_unit: AP.
      by rewrite -[LHS]mul1mx -(mulVmx Au) -mulmxA AP mulmx1.
    Qed.

    Lemma inv_unique Q : A *m Q = 1%:M -> Q = P.
    Proof. by move=> AQ; rewrite -[LHS]mul1mx -inv_PA -mulmxA AQ mulmx1. Qed.

    (* x P x^T = y A y^T with y = x P *)
    Lemma qf_inv x : qf P x = qf A (x *m P).
    Proof.
      rewrite /qf trmx_mul inv_sym -!mulmxA (mulmxA A) AP mul1mx.
      by rewrite !mulmxA.
    Qed.

    Lemma inv_back x : x *m P *m A = x.
    Proof. by rewrite -mulmxA inv_PA mulmx1. Qed.
  End Inverse.

  Section RegInverse.
    Variables (k : nat) (Z : 'M[F]_(k, d)) (a : F) (P : 'M[F]_d).
    Hypothesis a0 : 0 < a.
    Hypothesis AP : reg Z a *m P = 1%:M.

    Lemma reginv_pos x : x != 0 -> 0 < qf P x.
    Proof.
      move=> x0; rewrite (qf_inv (reg_sym Z a) AP); apply: reg_pos => //.
      apply: contra x0 => /eqP y0.
      by rewrite -(inv_back AP x) y0 mul0mx.
    Qed.

    Lemma reginv_ge0 x : 0 <= qf P x.
    Proof.
      by rewrite (qf_inv (reg_sym Z a) AP); apply: reg_ge0; apply: ltW.
    Qed.
  End RegInverse.

  (* monotonicity in the regulariser:  a <= b  =>  x (A+b)^-1 x^T <= x (A+a)^-1 x^T *)
  Section Monotone.
    Variables (k : nat) (Z : 'M[F]_(k, d)) (a b : F) (P Q : 'M[F]_d).
    Hypothesis a0 : 0 < a.
    Hypothesis ab : a <= b.
    Hypothesis AP : reg Z a *m P = 1%:M.
    Hypothesis BQ : reg Z b *m Q = 1%:M.

    Lemma reg_shift : reg Z b = reg Z a + (b - a)%:M.
    Proof. by rewrite /reg -addrA -raddfD /= (addrC a) subrK. Qed.

    Lemma qf_diff x :
      qf P x - qf Q x = (b - a) * (nrm2 (x *m Q) + (b - a) * qf P (x *m Q)).
    Proof.
      set c := b - a; set w := x *m Q.
      have Qs := inv_sym (reg_sym Z b) BQ.
      have PA := inv_PA AP.
      have PQ : P - Q = P *m c%:M *m Q.
        have -> : c%:M = reg Z b - reg Z a by rewrite reg_shift addrC addKr.
        by rewrite mulmxBr mulmxBl -mulmxA BQ mulmx1 PA mul1mx.
      have xQt : Q *m x^T = w^T by rewrite /w trmx_mul Qs.
      have xP : x *m P = w + c *: (w *m P).
        rewrite -{1}(inv_back BQ x) -/w reg_shift mulmxDr mulmxDl -mulmxA AP mulmx1.
        by rewrite mul_mx_scalar -scalemxAl.
      rewrite -qfB PQ /qf !mulmxA -(mulmxA _ Q) xQt xP mul_mx_scalar -scalemxAl mxE.
      rewrite mulmxDl mxE -scalemxAl mxE; congr (c * (_ + _)); first by rewrite /nrm2 mxE.
      by rewrite mxE.
    Qed.

    Lemma qf_mono x : qf Q x <= qf P x.
    Proof.
      have c0 : 0 <= b - a by rewrite subr_ge0.
      rewrite -subr_ge0 qf_diff; apply: (mulr_ge0 c0).
      apply: addr_ge0 (nrm2_ge0 _) _; apply: (mulr_ge0 c0).
      exact: reginv_ge0 a0 AP _.
    Qed.
  End Monotone.
End QuadraticForms.

(* ================================================================== Part 2 *)
(* specification-level counterparts of the programs *)
Section Spec.
  Variable F : rcfType.
  Variable d : nat.

  (* np.mean(X**2, axis=0).sum() *)
  Definition sf2 N (X : 'M[F]_(N, d)) : F := \sum_j (N%:R^-1 * \sum_i (X i j) ^+ 2).
  Definition isf N (X : 'M[F]_(N, d)) : F := (Num.sqrt (sf2 X))^-1.

  (* averaging matrix of a 0/1 membership matrix: row s is M[s,:] / sum(M[s,:]) *)
  Definition avg k n (M : 'M[F]_(k, n)) : 'M[F]_(k, n) :=
    \matrix_(s, a) ((\sum_b M s b)^-1 * M s a).

  Definition maskrow (mk z : 'rV[F]_d) : 'rV[F]_d := \row_j (z ord0 j * mk ord0 j).

  Lemma maskrowZ mk s z : maskrow mk (s *: z) = s *: maskrow mk z.
  Proof. by apply/rowP => j; rewrite !mxE mulrA. Qed.

  Lemma maskrow_ones z : maskrow (const_mx 1) z = z.
  Proof. by apply/rowP => j; rewrite !mxE mulr1. Qed.

  Lemma sf2Z N c (X : 'M[F]_(N, d)) : sf2 (c *: X) = c ^+ 2 * sf2 X.
  Proof.
    rewrite /sf2 mulr_sumr; apply: eq_bigr => j _.
    rewrite mulrCA; congr (_ * _); rewrite mulr_sumr; apply: eq_bigr => i _.
    by rewrite mxE exprMn.
  Qed.

  Lemma sf2_ge0 N (X : 'M[F]_(N, d)) : 0 <= sf2 X.
  Proof.
    apply: sumr_ge0 => j _; apply: mulr_ge0; first by rewrite invr_ge0 ler0n.
    by apply: sumr_ge0 => i _; apply: sqr_ge0.
  Qed.

  Lemma isfZ N c (X : 'M[F]_(N, d)) : isf (c *: X) = `|c|^-1 * isf X.
  Proof.
    by rewrite /isf sf2Z sqrtrM ?sqr_ge0 // sqrtr_sqr invfM.
  Qed.
End Spec.

Definition e_Xtr (F : rcfType) (env : env_mx F) N d : 'M[F]_(N, d) := env N d 0%N.
Definition e_Mtr (F : rcfType) (env : env_mx F) S N : 'M[F]_(S, N) := env S N 1%N.
Definition e_Xte (F : rcfType) (env : env_mx F) Nt d : 'M[F]_(Nt, d) := env Nt d 2%N.
Definition e_Mte (F : rcfType) (env : env_mx F) St Nt : 'M[F]_(St, Nt) := env St Nt 3%N.
Definition e_alpha (F : rcfType) (env : env_mx F) : F := env 1%N 1%N 4%N ord0 ord0.
Definition e_Xinv (F : rcfType) (env : env_mx F) d : 'M[F]_d := env d d 5%N.
Definition e_mask (F : rcfType) (env : env_mx F) d : 'rV[F]_d := env 1%N d 6%N.

Section Programs.
  Variable F : rcfType.
  Variables (d N S Nt St : nat).
  Variable env : env_mx F.
  Let Xtr := e_Xtr env N d.
  Let Mtr := e_Mtr env S N.
  Let Xte := e_Xte env Nt d.
  Let Mte := e_Mte env St Nt.
  Let alpha := e_alpha env.
  Let Xinv := e_Xinv env d.
  Let mask := e_mask env d.

  Lemma map_recipE m n t (A : 'M[F]_(m, n)) i j :
    (map_mx (sfun_mx Frecip t) A) i j = (A i j)^-1.
  Proof. by rewrite mxE. Qed.

  Lemma cnt1E n : (eval_mx env (cnt1 n)) ord0 ord0 = n%:R.
  Proof.
    rewrite /= mxE (eq_bigr (fun _ => 1)) ?sumr_const ?card_ord //.
    by move=> i _; rewrite !mxE mulr1.
  Qed.

  Lemma sf2E : (eval_mx env (sf2_prog d N)) ord0 ord0 = sf2 Xtr.
  Proof.
    rewrite /sf2_prog /= mxE; apply: eq_bigr => j _.
    rewrite [in LHS]mxE [const_mx 1 j ord0]mxE mulr1 map_recipE.
    have /= -> := cnt1E N; congr (_ * _).
    by rewrite mxE; apply: eq_bigr => i _; rewrite !mxE mul1r expr2.
  Qed.

  Lemma isfE : (eval_mx env (isf_prog d N)) ord0 ord0 = isf Xtr.
  Proof. by rewrite /isf_prog /= map_recipE mxE sf2E. Qed.

  Lemma meansE k n (M : mexp k n) (X : mexp n d) :
    eval_mx env (means_prog d N M X) = isf Xtr *: (avg (eval_mx env M) *m eval_mx env X).
  Proof.
    rewrite /means_prog /=; set c := (_ ord0 ord0); have -> : c = isf Xtr by exact: isfE.
    rewrite -scalemxAr mul_diag_mx; apply/matrixP => s f; rewrite !mxE.
    rewrite (eq_bigr (fun b => eval_mx env M s b)); last by move=> b _; rewrite mxE mulr1.
    rewrite mulr_sumr; apply: eq_bigr => a _.
    by rewrite !mxE mulrA.
  Qed.
End Programs.
