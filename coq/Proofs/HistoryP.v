(* C08: history independence of the greedy loop, for every scorer. *)
From Verif Require Import ListX Greedy ListXP GreedyP.

Section HistoryP.
  Variable S : Type.
  Variable score : S -> list Z.
  Variable upd : S -> nat -> S.
  Variable cand : list (list Z).
  Variable ycand : option (list (list Z)).
  Let n := length cand.
  Variable P : S -> Prop.
  Hypothesis P_len : forall s, P s -> length (score s) = n.
  Hypothesis P_upd : forall s i, P s -> (i < n)%nat -> P (upd s i).

  Notation gst := (gst S).
  Notation post := (post S upd cand ycand).
  Notation best_new := (best_new S score).
  Notation run := (run S score upd cand ycand).
  Notation GI := (GInv S cand ycand P).

  Lemma best_new_nothr g : snd (best_new NoThr g) = g.
  Proof. unfold Greedy.best_new. destruct (amax _) as [[i v]|]; reflexivity. Qed.

  (* requesting more selections continues exactly where fewer would have ended *)
  Theorem run_add a b g :
    fst (run NoThr (a + b) g) = fst (run NoThr b (fst (run NoThr a g))).
  Proof.
    revert g; induction a as [|a IH]; intros g; cbn [Nat.add Greedy.run]; [reflexivity|].
    pose proof (best_new_nothr g) as Hg.
    destruct (best_new NoThr g) as [[i|] g1] eqn:Eb; cbn in Hg; subst g1.
    - apply IH.
    - cbn [fst]. destruct b as [|b]; cbn [Greedy.run]; [reflexivity|]. now rewrite Eb.
  Qed.

  Lemma run_len k g :
    GI g -> (length (sel g) + k <= n)%nat ->
    length (sel (fst (run NoThr k g))) = (length (sel g) + k)%nat /\ GI (fst (run NoThr k g)).
  Proof.
    intros HG Hk. destruct (run NoThr k g) as [g' st] eqn:Er. cbn [fst].
    pose proof (run_nothr_full S score upd cand ycand P P_len P_upd k g g' st HG Hk Er) as ->.
    destruct (run_extends S score upd cand ycand P P_len P_upd NoThr k g g' false HG Er) as (new & Hn & _ & Hl).
    split; [rewrite Hn, app_length, (Hl eq_refl); reflexivity|].
    eapply (run_inv S score upd cand ycand P P_len P_upd); eauto.
  Qed.

  (* a warm-started chain n1 <= n2 <= ... (n_to_select values) *)
  Definition chain (g : gst) (sched : list nat) : gst :=
    fold_left (fun g nj => fst (run NoThr (nj - length (sel g)) g)) sched g.

  Fixpoint nondecreasing_from (lo : nat) (l : list nat) : Prop :=
    match l with [] => True | x :: t => (lo <= x)%nat /\ nondecreasing_from x t end.

  Theorem chain_equals_cold g sched nr :
    GI g -> nondecreasing_from (length (sel g)) (sched ++ [nr]) -> (nr <= n)%nat ->
    chain g (sched ++ [nr]) = fst (run NoThr (nr - length (sel g)) g).
  Proof.
    revert g; induction sched as [|n1 sched IH]; intros g HG Hmono Hn; cbn [app] in *.
    - reflexivity.
    - destruct Hmono as [Hlo Hrest]. unfold chain in *. cbn [fold_left].
      assert (Hn1 : (n1 <= n)%nat).
      { clear -Hrest Hn. revert n1 Hrest. induction sched as [|x t IHt]; intros n1 H; cbn in H.
        - lia.
        - destruct H as [H1 H2]. specialize (IHt x H2). lia. }
      destruct (run_len (n1 - length (sel g)) g HG ltac:(lia)) as [Hlen HG1].
      set (g1 := fst (run NoThr (n1 - length (sel g)) g)) in *.
      rewrite (IH g1 HG1).
      + rewrite Hlen.
        assert (Hnr : (n1 <= nr)%nat).
        { clear -Hrest. revert n1 Hrest. induction sched as [|x t IHt]; intros n1 H; cbn in H.
          - lia.
          - destruct H as [H1 H2]. specialize (IHt x H2). lia. }
        replace (nr - length (sel g))%nat
          with ((n1 - length (sel g)) + (nr - (length (sel g) + (n1 - length (sel g)))))%nat by lia.
        now rewrite run_add.
      + rewrite Hlen. replace (length (sel g) + (n1 - length (sel g)))%nat with n1 by lia. exact Hrest.
      + exact Hn.
  Qed.

  (* the first k selections do not depend on how many more are requested *)
  Theorem prefix_independent a b g :
    GI g -> exists new, sel (fst (run NoThr (a + b) g)) = sel (fst (run NoThr a g)) ++ new.
  Proof.
    intros HG. rewrite run_add.
    destruct (run NoThr a g) as [g1 st1] eqn:E1. cbn [fst].
    assert (HG1 : GI g1) by (eapply (run_inv S score upd cand ycand P P_len P_upd); eauto).
    destruct (run NoThr b g1) as [g2 st2] eqn:E2. cbn [fst].
    destruct (run_extends S score upd cand ycand P P_len P_upd NoThr b g1 g2 st2 HG1 E2) as (new & Hn & _).
    exists new. exact Hn.
  Qed.

  (* a threshold that is never reached does not change what is selected *)
  Definition same4 (g h : gst) : Prop :=
    sel g = sel h /\ xsel g = xsel h /\ ysel g = ysel h /\ sst g = sst h.

  Lemma post_same4 g h i : same4 g h -> same4 (post g i) (post h i).
  Proof. intros (A & B & Cc & D). unfold same4, Greedy.post; cbn. now rewrite A, B, Cc, D. Qed.

  Theorem thr_unreached t k : forall g h g',
    same4 g h -> run t k g = (g', false) -> same4 g' (fst (run NoThr k h)).
  Proof.
    induction k as [|k IH]; intros g h g' Hs H; cbn [Greedy.run] in *.
    - injection H as <-. exact Hs.
    - pose proof Hs as (A & B & Cc & D).
      unfold Greedy.best_new in *. rewrite <- A, <- D. cbn [has_thr].
      destruct (amax (mask (sel g) (score (sst g)))) as [[i v]|] eqn:Ea; [|discriminate].
      destruct (has_thr t) eqn:Ht.
      + destruct (below t _ v); [discriminate|].
        refine (IH _ (post h i) _ _ H). apply post_same4. unfold same4; cbn; auto.
      + apply (IH _ (post h i) _ (post_same4 g h i Hs) H).
  Qed.

  (* the state reached by the loop is determined by the sequence of selections: it is the
     fold of the per-selection update over them (so an FPS initialised with that prefix
     starts from the same state) *)
  Theorem run_is_fold k g :
    exists new, fst (run NoThr k g) = fold_left post new g /\
                sel (fold_left post new g) = sel g ++ new.
  Proof.
    revert g; induction k as [|k IH]; intros g; cbn [Greedy.run].
    - exists []. cbn. now rewrite app_nil_r.
    - pose proof (best_new_nothr g) as Hg.
      destruct (best_new NoThr g) as [[i|] g1] eqn:Eb; cbn in Hg; subst g1.
      + destruct (IH (post g i)) as (new & H1 & H2). exists (i :: new). cbn [fold_left].
        split; [exact H1|]. rewrite H2. cbn [Greedy.post sel]. now rewrite <- app_assoc.
      + exists []. cbn. now rewrite app_nil_r.
  Qed.
End HistoryP.
