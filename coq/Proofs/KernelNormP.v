(* C12 — proofs about Model/KernelNormMx.v (ssreflect / mathcomp style).
   Part 1: normalised weights, weighted means as matrix products.
   Part 2: what the mexp programs evaluate to (formula lemmas, generic in the environment).
   Part 3: kernel centring = feature centring; trace; flags; sparse variant; pseudo-inverse. *)
From mathcomp Require Import all_ssreflect all_algebra.
From Verif Require Import MExp MExpMx MxBox MxBoxP ScalerMx ScalerP KernelNorm KernelNormMx.
Set Implicit Arguments.
Unset Strict Implicit.
Unset Printing Implicit Defensive.
Import Order.Theory GRing.Theory Num.Theory.
Local Open Scope ring_scope.

(* ---- Part 1 ----------------------------------------------------------------------------- *)
Section Weights.
  Variable F : rcfType.
  Variable n : nat.
  Implicit Types (w : 'cV[F]_n).

  (* weights divided by their sum *)
  Definition nw w : 'cV[F]_n := (wsum w)^-1 *: w.

  Lemma nw_scale (a : F) w : a != 0 -> nw (a *: w) = nw w.
  Proof.
    by move=> a0; rewrite /nw wsum_scale invfM scalerA mulrAC mulVf // mul1r.
  Qed.

  Lemma wmeanE p w (A : 'M[F]_(n, p)) : wmean w A = (nw w)^T *m A.
  Proof.
    apply/rowP => j; rewrite !mxE mulrC mulr_sumr; apply: eq_bigr => i _.
    by rewrite !mxE mulrA.
  Qed.

  Lemma ones_nw w : wsum w != 0 -> (const_mx 1 : 'rV[F]_n) *m nw w = 1%:M.
  Proof.
    move=> S0; apply/matrixP => i j; rewrite !mxE !ord1 eqxx mulr1n.
    rewrite (eq_bigr (fun l => (wsum w)^-1 * w l ord0)) => [|l _]; last by rewrite !mxE mul1r.
    by rewrite -mulr_sumr mulVf.
  Qed.

  Lemma rows_ofE k p (r : 'rV[F]_p) : rows_of k r = (const_mx 1 : 'cV[F]_k) *m r.
  Proof. by apply/matrixP => i j; rewrite !mxE big_ord1 !mxE mul1r. Qed.

  (* ones * (1x1 matrix) * ones = that entry times the all-ones matrix *)
  Lemma ones_11_ones k q (M : 'M[F]_(1, 1)) :
    (const_mx 1 : 'cV[F]_k) *m M *m (const_mx 1 : 'rV[F]_q) = M ord0 ord0 *: const_mx 1.
  Proof.
    by apply/matrixP => i j; rewrite !mxE big_ord1 !mxE big_ord1 !mxE mul1r.
  Qed.
End Weights.

(* ---- Part 2: formula lemmas, for any environment holding the weights in variable 1 ------ *)
Section Formulas.
  Variable F : rcfType.
  Variables (cfg : kn_cfg) (n : nat) (env : env_mx F) (w : 'cV[F]_n).
  Hypothesis Hw : env n 1%N 1%N = w.
  Hypothesis ok : kn_wok cfg w.
  Let ew := kn_effw cfg w.
  Let u := nw ew.

  Lemma ev_kwts : eval_mx env (kn_wts cfg n) = if kn_has_w cfg then (wsum w)^-1 *: w else const_mx 1.
  Proof.
    rewrite /kn_wts; case: (kn_has_w cfg) => //.
    rewrite evScale /krecip evMap evMul evTr evOnes /kW evVar Hw; congr (_ *: _).
    rewrite !mxE /wsum; congr (_ ^-1); apply: eq_bigr => i _.
    by rewrite !mxE mul1r.
  Qed.

  Lemma ev_kwsum : (eval_mx env (kn_wsum cfg n)) ord0 ord0 = wsum (eval_mx env (kn_wts cfg n)).
  Proof.
    rewrite /kn_wsum evMul evTr evOnes; move: (eval_mx env (kn_wts cfg n)) => v.
    by rewrite !mxE /wsum; apply: eq_bigr => i _; rewrite !mxE mul1r.
  Qed.

  Lemma nw_wts : nw (eval_mx env (kn_wts cfg n)) = u.
  Proof.
    rewrite ev_kwts /u /ew; move: ok; rewrite /kn_wok /kn_effw.
    case: (kn_has_w cfg) => // S0.
    by rewrite nw_scale // invr_eq0.
  Qed.

  Lemma ev_avg0 q (A : mexp n q) : eval_mx env (kn_avg0 cfg n A) = u^T *m eval_mx env A.
  Proof.
    rewrite /kn_avg0 evScale /krecip evMap evMul evTr -nw_wts.
    rewrite [in LHS]mxE /= ev_kwsum /nw.
    by rewrite linearZ /= -scalemxAl.
  Qed.

  Lemma ev_avg1 k (A : mexp k n) : eval_mx env (kn_avg1 cfg n A) = eval_mx env A *m u.
  Proof.
    rewrite /kn_avg1 evScale /krecip evMap evMul -nw_wts.
    rewrite [in LHS]mxE /= ev_kwsum /nw.
    by rewrite -scalemxAr.
  Qed.

  Lemma ev_ones11 : (eval_mx env (MMul (MOnes 1 n) (MOnes n 1))) ord0 ord0 = n%:R.
  Proof.
    rewrite evMul !evOnes !mxE (eq_bigr (fun=> 1)) => [|i _]; last by rewrite !mxE mulr1.
    by rewrite sumr_const card_ord.
  Qed.

  Lemma ev_kone : eval_mx env kone = 1%:M.
  Proof. by []. Qed.

  (* the centring step  A - 1 rows - cols 1^T + all *)
  Definition centered_mx (k : nat) (A : 'M[F]_(k, n)) (rows : 'rV[F]_n) (all : F) : 'M[F]_(k, n) :=
    A - const_mx 1 *m rows - (if kn_center cfg then A *m u else 0) *m const_mx 1
    + all *: const_mx 1.

  Lemma ev_centered k (A : mexp k n) (rows : mexp 1 n) (all : mexp 1 1) :
    eval_mx env (kn_centered cfg n A rows all)
    = centered_mx (eval_mx env A) (eval_mx env rows) ((eval_mx env all) ord0 ord0).
  Proof.
    rewrite /kn_centered /centered_mx evAdd !evSub evScale !evMul !evOnes /kn_cols.
    by case: (kn_center cfg); rewrite ?ev_avg1 ?evZero.
  Qed.
End Formulas.

(* ---- KernelNormalizer: fit and transform in closed form ------------------------------------ *)
Section KnFormulas.
  Variable F : rcfType.
  Variables (cfg : kn_cfg) (n : nat) (K : 'M[F]_(n, n)) (w : 'cV[F]_n).
  Hypothesis ok : kn_wok cfg w.
  Let ew := kn_effw cfg w.
  Let u := nw ew.

  Definition rows_spec : 'rV[F]_n := if kn_center cfg then u^T *m K else 0.
  Definition all_spec : 'M[F]_(1, 1) := if kn_center cfg then rows_spec *m u else 0.
  Definition scale_spec : 'M[F]_(1, 1) :=
    if kn_trace cfg
    then (\tr (centered_mx cfg w K rows_spec (all_spec ord0 ord0)) / n%:R)%:M
    else 1%:M.

  Let envf := env_of [:: box K; box w].
  Lemma envf_w : envf n 1%N 1%N = w.
  Proof. by rewrite /envf /env_of /= unbox_box. Qed.
  Lemma envf_K : eval_mx envf (kK n) = K.
  Proof. by rewrite /kK evVar /envf /env_of /= unbox_box. Qed.

  Lemma ev_rows : eval_mx envf (kn_rows cfg n) = rows_spec.
  Proof.
    rewrite /kn_rows /rows_spec; case: (kn_center cfg) => //.
    by rewrite (ev_avg0 envf_w ok) envf_K.
  Qed.

  Lemma ev_all : eval_mx envf (kn_all cfg n) = all_spec.
  Proof.
    rewrite /kn_all /all_spec -ev_rows; case: (kn_center cfg) => //.
    rewrite evScale /krecip evMap evMul /u /ew -(nw_wts envf_w ok).
    by rewrite [in LHS]mxE /= (ev_kwsum) /nw -scalemxAr.
  Qed.

  Lemma ev_kscale : eval_mx envf (kn_scale cfg n) = scale_spec.
  Proof.
    rewrite /kn_scale /scale_spec; case: (kn_trace cfg); last exact: ev_kone.
    rewrite evScale /krecip evMap evTrace (ev_centered envf_w ok) envf_K ev_rows ev_all.
    rewrite [in LHS]mxE [sfun_mx _ _ _]/= (ev_ones11 n envf).
    by apply/matrixP => i j; rewrite !mxE mulrnAr mulrC.
  Qed.

  Lemma kn_fit_mxE : kn_fit_mx cfg K w = (rows_spec, all_spec, scale_spec).
  Proof. by rewrite /kn_fit_mx -/envf ev_rows ev_all ev_kscale. Qed.

  Lemma kn_transform_mxE k (st : kn_st F n) (Kt : 'M[F]_(k, n)) :
    kn_transform_mx cfg w st Kt
    = (st.2 ord0 ord0)^-1 *: centered_mx cfg w Kt st.1.1 (st.1.2 ord0 ord0).
  Proof.
    rewrite /kn_transform_mx /kn_transform.
    set envt := env_of _.
    have Hw : envt n 1%N 1%N = w by rewrite /envt /env_of /= unbox_box.
    rewrite evScale /krecip evMap (ev_centered Hw ok) /kKt /kRows /kAll /kScale !evVar.
    by rewrite /envt /env_of /= !unbox_box [in LHS]mxE.
  Qed.

  Lemma kn_fit_transform_mxE :
    kn_fit_transform_mx cfg K w
    = (scale_spec ord0 ord0)^-1 *: centered_mx cfg w K rows_spec (all_spec ord0 ord0).
  Proof.
    rewrite /kn_fit_transform_mx -/envf /kn_fit_transform evScale /krecip evMap.
    by rewrite (ev_centered envf_w ok) envf_K ev_rows ev_all ev_kscale [in LHS]mxE.
  Qed.
End KnFormulas.

(* ---- Part 3: theorems ------------------------------------------------------------------------ *)
Section Gram.
  Variable F : rcfType.
  Variables (n p k : nat) (u : 'cV[F]_n) (Phi : 'M[F]_(n, p)) (Psi : 'M[F]_(k, p)).

  (* kernel centring of a Gram matrix is the Gram matrix of the centred features, for ANY
     averaging vector u (mu = u^T Phi) *)
  Lemma centered_gram :
    let mu := u^T *m Phi in
    Psi *m Phi^T - const_mx 1 *m (u^T *m (Phi *m Phi^T)) - (Psi *m Phi^T *m u) *m const_mx 1
    + ((u^T *m (Phi *m Phi^T)) *m u) ord0 ord0 *: const_mx 1
    = (Psi - const_mx 1 *m mu) *m (Phi - const_mx 1 *m mu)^T.
  Proof.
    move=> mu; rewrite -ones_11_ones linearB /= !trmx_mul trmxK trmx_const.
    rewrite mulmxBl !mulmxBr /mu !mulmxA opprB addrA.
    by rewrite [RHS]addrAC; congr (_ + _); rewrite addrAC.
  Qed.
End Gram.

Section KnTheorems.
  Variable F : rcfType.
  Variables (cfg : kn_cfg) (n : nat) (w : 'cV[F]_n).
  Hypothesis ok : kn_wok cfg w.
  Let ew := kn_effw cfg w.

  (* centre of the features: weighted training mean, or 0 when centring is off *)
  Definition feat_mu p (Phi : 'M[F]_(n, p)) : 'rV[F]_p :=
    if kn_center cfg then wmean ew Phi else 0.

  Lemma centered_feat p k (Phi : 'M[F]_(n, p)) (Psi : 'M[F]_(k, p)) :
    let K := Phi *m Phi^T in
    centered_mx cfg w (Psi *m Phi^T) (rows_spec cfg K w) ((all_spec cfg K w) ord0 ord0)
    = (Psi - rows_of k (feat_mu Phi)) *m (Phi - rows_of n (feat_mu Phi))^T.
  Proof.
    rewrite /= /centered_mx /all_spec /rows_spec /feat_mu !rows_ofE wmeanE -/ew.
    case: (kn_center cfg); first exact: centered_gram.
    by rewrite !mulmx0 mul0mx !subr0 mxE scale0r addr0.
  Qed.

  (* C12_center_feature_space *)
  Lemma kn_center_feature_space p (Phi : 'M[F]_(n, p)) :
    let K := Phi *m Phi^T in
    let mu := feat_mu Phi in
    let st := kn_fit_mx cfg K w in
    st.2 = (if kn_trace cfg
            then (\tr ((Phi - rows_of n mu) *m (Phi - rows_of n mu)^T) / n%:R)%:M else 1%:M)
    /\ forall k (Psi : 'M[F]_(k, p)),
         kn_transform_mx cfg w st (Psi *m Phi^T)
         = (st.2 ord0 ord0)^-1 *: ((Psi - rows_of k mu) *m (Phi - rows_of n mu)^T).
  Proof.
    move=> K mu st; rewrite /st kn_fit_mxE //=; split.
      by rewrite /scale_spec centered_feat.
    by move=> k Psi; rewrite kn_transform_mxE //= centered_feat.
  Qed.

  (* C12_trace_n: for ANY square K *)
  Lemma kn_trace_n (K : 'M[F]_(n, n)) :
    kn_trace cfg ->
    let st := kn_fit_mx cfg K w in
    st.2 ord0 ord0 != 0 -> \tr (kn_transform_mx cfg w st K) = n%:R.
  Proof.
    move=> tr st; rewrite /st kn_fit_mxE //= kn_transform_mxE //= /scale_spec tr.
    rewrite mxtraceZ mxE eqxx mulr1n; set t := \tr _ => nz.
    have t0 : t != 0 by apply: contraNneq nz => ->; rewrite mul0r.
    have n0 : (n%:R : F) != 0 by apply: contraNneq nz => ->; rewrite invr0 mulr0.
    by rewrite invf_div divfK.
  Qed.

  (* C12_flags *)
  Lemma kn_no_center (K : 'M[F]_(n, n)) :
    ~~ kn_center cfg ->
    let st := kn_fit_mx cfg K w in
    [/\ st.1.1 = 0, st.1.2 = 0,
        st.2 = (if kn_trace cfg then (\tr K / n%:R)%:M else 1%:M)
      & forall k (Kt : 'M[F]_(k, n)), kn_transform_mx cfg w st Kt = (st.2 ord0 ord0)^-1 *: Kt].
  Proof.
    move=> /negbTE nc st; rewrite /st kn_fit_mxE //= /scale_spec /all_spec /rows_spec nc.
    have cz k (A : 'M[F]_(k, n)) : centered_mx cfg w A 0 ((0 : 'M[F]_(1, 1)) ord0 ord0) = A.
      by rewrite /centered_mx nc mulmx0 mul0mx !subr0 mxE scale0r addr0.
    by split=> // [|k Kt]; rewrite ?kn_transform_mxE //= ?cz.
  Qed.

  Lemma kn_no_trace (K : 'M[F]_(n, n)) :
    ~~ kn_trace cfg ->
    let st := kn_fit_mx cfg K w in
    st.2 = 1%:M
    /\ forall k (Kt : 'M[F]_(k, n)),
         kn_transform_mx cfg w st Kt = centered_mx cfg w Kt st.1.1 (st.1.2 ord0 ord0).
  Proof.
    move=> /negbTE nt st; rewrite /st kn_fit_mxE //= /scale_spec nt; split=> // k Kt.
    by rewrite kn_transform_mxE //= mxE eqxx mulr1n invr1 scale1r.
  Qed.

  (* C12_fit_transform *)
  Lemma kn_fit_transform_eq (K : 'M[F]_(n, n)) :
    kn_fit_transform_mx cfg K w = kn_transform_mx cfg w (kn_fit_mx cfg K w) K.
  Proof. by rewrite kn_fit_transform_mxE // kn_transform_mxE // kn_fit_mxE. Qed.
End KnTheorems.

(* ---- the explicit feature route evaluates to the same thing ---------------------------------- *)
Section FeatureRoute.
  Variable F : rcfType.
  Variables (cfg : kn_cfg) (n p k : nat) (w : 'cV[F]_n).
  Variables (Phi : 'M[F]_(n, p)) (Psi : 'M[F]_(k, p)).
  Hypothesis ok : kn_wok cfg w.

  Let envk := env_of [:: box0 F; box w; box0 F; box0 F; box0 F; box0 F; box0 F; box0 F; box Phi; box Psi].
  Lemma envk_w : envk n 1%N 1%N = w.
  Proof. by rewrite /envk /env_of /= unbox_box. Qed.
  Lemma envk_Phi : eval_mx envk (kPhi n p) = Phi.
  Proof. by rewrite /kPhi evVar /envk /env_of /= unbox_box. Qed.
  Lemma envk_Psi : eval_mx envk (kPsi p k) = Psi.
  Proof. by rewrite /kPsi evVar /envk /env_of /= unbox_box. Qed.

  Lemma ev_kf_mu : eval_mx envk (kf_mu cfg n p) = feat_mu cfg w Phi.
  Proof.
    rewrite /kf_mu /feat_mu; case: (kn_center cfg) => //.
    by rewrite (ev_avg0 envk_w ok) envk_Phi wmeanE.
  Qed.

  Lemma ev_kf_cen q (A : mexp q p) :
    eval_mx envk (kf_cen cfg n p A) = eval_mx envk A - rows_of q (feat_mu cfg w Phi).
  Proof. by rewrite /kf_cen evSub evMul evOnes ev_kf_mu rows_ofE. Qed.

  Lemma ev_kf_scale :
    eval_mx envk (kf_scale cfg n p)
    = if kn_trace cfg
      then (\tr ((Phi - rows_of n (feat_mu cfg w Phi)) *m (Phi - rows_of n (feat_mu cfg w Phi))^T)
            / n%:R)%:M
      else 1%:M.
  Proof.
    rewrite /kf_scale; case: (kn_trace cfg); last by [].
    rewrite evScale /krecip evMap evTrace [eval_mx _ (MMul (kf_cen _ _ _ _) _)]evMul evTr.
    rewrite !ev_kf_cen envk_Phi [in LHS]mxE [sfun_mx _ _ _]/= (ev_ones11 n envk).
    by apply/matrixP => i j; rewrite !mxE mulrnAr mulrC.
  Qed.

  (* C12_center_feature_space, program form: the kernel route on K = Phi Phi^T,
     Kt = Psi Phi^T equals the feature route on Phi, Psi *)
  Lemma kf_transform_eq :
    kf_transform_mx cfg w Phi Psi
    = kn_transform_mx cfg w (kn_fit_mx cfg (Phi *m Phi^T) w) (Psi *m Phi^T).
  Proof.
    have [e2 e3] := kn_center_feature_space ok Phi.
    rewrite e3 e2 /kf_transform_mx -/envk /kf_transform evScale /krecip evMap.
    rewrite [eval_mx _ (MMul (kf_cen _ _ _ _) _)]evMul evTr !ev_kf_cen envk_Phi envk_Psi.
    by rewrite ev_kf_scale [in LHS]mxE.
  Qed.
End FeatureRoute.

(* ---- SparseKernelCenterer ---------------------------------------------------------------------- *)
Section Sparse.
  Variable F : rcfType.
  Variables (cfg : kn_cfg) (n m : nat) (w : 'cV[F]_n).
  Variables (Knm : 'M[F]_(n, m)) (Kmm P : 'M[F]_(m, m)).
  Hypothesis ok : kn_wok cfg w.
  Let ew := kn_effw cfg w.

  Definition sk_rows_spec : 'rV[F]_m := if kn_center cfg then wmean ew Knm else 0.
  (* Knm_centered *)
  Definition sk_kc_spec : 'M[F]_(n, m) := Knm - rows_of n sk_rows_spec.
  Definition sk_scale_spec : 'M[F]_(1, 1) :=
    if kn_trace cfg
    then (Num.sqrt (\tr (sk_kc_spec *m P *m sk_kc_spec^T) / n%:R))%:M else 1%:M.

  Let envs := env_of [:: box Knm; box w; box0 F; box0 F; box0 F; box0 F; box Kmm; box P].
  Lemma envs_w : envs n 1%N 1%N = w.
  Proof. by rewrite /envs /env_of /= unbox_box. Qed.
  Lemma envs_Knm : eval_mx envs (sKnm n m) = Knm.
  Proof. by rewrite /sKnm evVar /envs /env_of /= unbox_box. Qed.
  Lemma envs_P : eval_mx envs (sP m) = P.
  Proof. by rewrite /sP evVar /envs /env_of /= unbox_box. Qed.

  Lemma ev_sk_rows : eval_mx envs (sk_rows cfg n m) = sk_rows_spec.
  Proof.
    rewrite /sk_rows /sk_rows_spec; case: (kn_center cfg) => //.
    by rewrite (ev_avg0 envs_w ok) envs_Knm wmeanE.
  Qed.

  Lemma ev_sk_kc : eval_mx envs (sk_kc cfg n m) = sk_kc_spec.
  Proof. by rewrite /sk_kc evSub evMul evOnes envs_Knm ev_sk_rows /sk_kc_spec rows_ofE. Qed.

  Lemma ev_sk_scale : eval_mx envs (sk_scale cfg n m) = sk_scale_spec.
  Proof.
    rewrite /sk_scale /sk_scale_spec; case: (kn_trace cfg); last by [].
    rewrite evMap evScale /krecip evMap evTrace /sk_khat !evMul evTr ev_sk_kc envs_P.
    rewrite [in X in map_mx _ X]mxE [sfun_mx Frecip _ _]/= (ev_ones11 n envs).
    by apply/matrixP => i j; rewrite !mxE /= mulrnAr mulrC !ord1 /= !mulr1n.
  Qed.

  Lemma sk_fit_mxE : sk_fit_mx cfg Knm w Kmm P = (sk_rows_spec, sk_scale_spec).
  Proof. by rewrite /sk_fit_mx -/envs ev_sk_rows ev_sk_scale. Qed.

  Lemma sk_transform_mxE k (st : sk_st F m) (Kt : 'M[F]_(k, m)) :
    sk_transform_mx st Kt = (st.2 ord0 ord0)^-1 *: (Kt - rows_of k st.1).
  Proof.
    rewrite /sk_transform_mx /sk_transform evScale /krecip evMap evSub evMul evOnes.
    rewrite /sKt /sRows /kScale !evVar /env_of /= !unbox_box [in LHS]mxE /=.
    by rewrite rows_ofE.
  Qed.

  (* C12_sparse_column_means_zero *)
  Lemma sk_column_means_zero :
    kn_center cfg ->
    let st := sk_fit_mx cfg Knm w Kmm P in
    st.2 ord0 ord0 != 0 -> wmean ew (sk_transform_mx st Knm) = 0.
  Proof.
    move=> ce st _; rewrite /st sk_fit_mxE sk_transform_mxE /= /sk_rows_spec ce.
    rewrite !wmeanE -scalemxAr mulmxBr rows_ofE !mulmxA.
    have -> : (nw ew)^T *m const_mx 1 = 1%:M.
      by rewrite -[LHS]trmxK trmx_mul trmxK trmx_const ones_nw // trmx1.
    by rewrite mul1mx subrr scaler0.
  Qed.

  (* C12_sparse_nystrom_trace_n *)
  Lemma sk_nystrom_trace_n :
    kn_trace cfg ->
    let st := sk_fit_mx cfg Knm w Kmm P in
    0 < \tr ((Knm - rows_of n st.1) *m P *m (Knm - rows_of n st.1)^T) ->
    let T := sk_transform_mx st Knm in
    \tr (T *m P *m T^T) = n%:R.
  Proof.
    move=> tr st; rewrite /st sk_fit_mxE /= -/sk_kc_spec => t0.
    rewrite sk_transform_mxE /= -/sk_kc_spec /sk_scale_spec tr mxE eqxx mulr1n.
    set t := \tr _ in t0 *.
    have n0 : (0 : F) < n%:R.
      rewrite ltr0n lt0n; apply: contraTneq t0 => n0.
      by rewrite /t mxtrace_mulC; move: sk_kc_spec; rewrite n0 => A; rewrite thinmx0 mul0mx mxtrace0 ltxx.
    have q0 : 0 < t / n%:R by rewrite divr_gt0.
    set s := Num.sqrt _.
    have s2 : s ^+ 2 = t / n%:R by rewrite sqr_sqrtr // ltW.
    have s0 : s != 0 by rewrite lt0r_neq0 // sqrtr_gt0.
    rewrite linearZ /= -scalemxAl -scalemxAl -scalemxAr scalerA mxtraceZ -/t.
    by rewrite -invfM -expr2 s2 invf_div divfK ?lt0r_neq0.
  Qed.
End Sparse.

(* ---- the pseudo-inverse oracle: consequences of the Penrose equations ------------------------ *)
Section Penrose.
  Variable F : rcfType.
  Variable m : nat.
  Implicit Types (K P Q : 'M[F]_(m, m)).

  Lemma penrose_unique K P Q : penrose K P -> penrose K Q -> P = Q.
  Proof.
    move=> [p1 p2 p3 p4] [q1 q2 q3 q4].
    have c1 : P *m K = Q *m K.
      have h1 : P *m K *m (Q *m K) = P *m K by rewrite -mulmxA (mulmxA K) q1.
      have h2 : P *m K *m (Q *m K) = Q *m K.
        by rewrite -p4 -q4 -trmx_mul -mulmxA (mulmxA K) p1.
      by rewrite -h1 h2.
    have c2 : K *m P = K *m Q.
      have h3 : K *m Q *m (K *m P) = K *m P by rewrite mulmxA q1.
      have h4 : K *m Q *m (K *m P) = K *m Q.
        by rewrite -q3 -p3 -trmx_mul mulmxA p1.
      by rewrite -h3 h4.
    by rewrite -{1}p2 c1 -mulmxA c2 mulmxA q2.
  Qed.

  Lemma penrose_sym K P : K^T = K -> penrose K P -> P^T = P.
  Proof.
    move=> sK pe; have [p1 p2 p3 p4] := pe; symmetry; apply: (penrose_unique pe).
    have e3 : K *m P^T = P *m K by rewrite -{1}sK -trmx_mul p4.
    have e4 : P^T *m K = K *m P by rewrite -{1}sK -trmx_mul p3.
    split.
    - by have := congr1 trmx p1; rewrite !trmx_mul sK mulmxA.
    - by have := congr1 trmx p2; rewrite !trmx_mul sK mulmxA.
    - by rewrite e3 p4.
    - by rewrite e4 p3.
  Qed.
End Penrose.

Section GramFacts.
  Variable F : rcfType.

  Lemma mxtrace_gram_ge0 n q (B : 'M[F]_(n, q)) : 0 <= \tr (B *m B^T).
  Proof.
    rewrite /mxtrace; apply: sumr_ge0 => i _; rewrite mxE; apply: sumr_ge0 => j _.
    by rewrite !mxE -expr2 sqr_ge0.
  Qed.

  Lemma gram_eq0 n q (B : 'M[F]_(n, q)) : B *m B^T = 0 -> B = 0.
  Proof.
    move=> B0; apply/matrixP => i j; rewrite [RHS]mxE.
    have := congr1 (fun M : 'M[F]_n => M i i) B0; rewrite !mxE.
    move/eqP; rewrite psumr_eq0 => [/allP H|l _]; last by rewrite !mxE -expr2 sqr_ge0.
    have := H j (mem_index_enum _); rewrite /= !mxE -expr2 sqrf_eq0.
    by move/eqP.
  Qed.
End GramFacts.

Section SparseFeature.
  Variable F : rcfType.
  Variables (cfg : kn_cfg) (n m p : nat) (w : 'cV[F]_n).
  Variables (Phi : 'M[F]_(n, p)) (A : 'M[F]_(m, p)) (P : 'M[F]_(m, m)).
  Hypothesis ok : kn_wok cfg w.
  Hypothesis pe : penrose (A *m A^T) P.
  Let Pi : 'M[F]_(p, p) := A^T *m P *m A.
  Let Phic := Phi - rows_of n (feat_mu cfg w Phi).

  Lemma gram_sym : (A *m A^T)^T = A *m A^T.
  Proof. by rewrite trmx_mul trmxK. Qed.

  Lemma Pi_idem : Pi *m Pi = Pi.
  Proof.
    have [_ p2 _ _] := pe.
    have -> : Pi *m Pi = A^T *m (P *m (A *m A^T) *m P) *m A by rewrite /Pi !mulmxA.
    by rewrite p2.
  Qed.

  Lemma Pi_sym : Pi^T = Pi.
  Proof. by rewrite /Pi !trmx_mul trmxK (penrose_sym gram_sym pe) mulmxA. Qed.

  (* Pi fixes the active features: it is the orthogonal projector onto their row space *)
  Lemma Pi_fixes : A *m Pi = A.
  Proof.
    have [p1 p2 p3 p4] := pe; have sP := penrose_sym gram_sym pe.
    set K := A *m A^T in p1 p2 p3 p4.
    apply/eqP; rewrite -subr_eq0; apply/eqP; apply: gram_eq0.
    rewrite linearB /= trmx_mul Pi_sym mulmxBl !mulmxBr.
    have -> : A *m Pi *m (Pi *m A^T) = A *m (Pi *m Pi) *m A^T by rewrite !mulmxA.
    rewrite Pi_idem.
    have -> : A *m Pi *m A^T = K *m P *m K by rewrite /Pi /K !mulmxA.
    have -> : A *m (Pi *m A^T) = K *m P *m K by rewrite /Pi /K !mulmxA.
    by rewrite -/K p1 !subrr.
  Qed.

  (* the centred Nystrom kernel is the Gram matrix of the centred features projected onto
     the span of the active features; the sparse fit in these terms *)
  Lemma sk_feature_space :
    let st := sk_fit_mx cfg (Phi *m A^T) w (A *m A^T) P in
    let Kc := Phi *m A^T - rows_of n st.1 in
    [/\ Kc = Phic *m A^T,
        Kc *m P *m Kc^T = (Phic *m Pi) *m (Phic *m Pi)^T,
        0 <= \tr (Kc *m P *m Kc^T)
      & st.2 = if kn_trace cfg
               then (Num.sqrt (\tr ((Phic *m Pi) *m (Phic *m Pi)^T) / n%:R))%:M else 1%:M].
  Proof.
    move=> st Kc.
    have eKc : Kc = Phic *m A^T.
      rewrite /Kc /st sk_fit_mxE //= /sk_rows_spec /Phic /feat_mu !rows_ofE.
      case: (kn_center cfg); last by rewrite !mulmx0 !subr0.
      by rewrite mulmxBl !wmeanE !mulmxA.
    have eH : Kc *m P *m Kc^T = (Phic *m Pi) *m (Phic *m Pi)^T.
      rewrite eKc [(Phic *m Pi)^T]trmx_mul Pi_sym mulmxA -(mulmxA Phic Pi Pi) Pi_idem.
      by rewrite trmx_mul trmxK /Pi !mulmxA.
    split=> //; first by rewrite eH mxtrace_gram_ge0.
    by rewrite /st sk_fit_mxE //= /sk_scale_spec -/(sk_kc_spec _ _ _) -eH /Kc /st sk_fit_mxE.
  Qed.
End SparseFeature.

(* ---- a concrete input over every real closed field (non-vacuity) ----------------------------- *)
Lemma kn_nonvacuous (F : rcfType) :
  let cfg := KnCfg true true false in
  let Phi : 'M[F]_(2, 1) := \matrix_(i, j) (i : nat)%:R *+ 2 in
  let w : 'cV[F]_2 := 0 in
  [/\ kn_wok cfg w,
      (kn_fit_mx cfg (Phi *m Phi^T) w).2 = 1%:M,
      penrose (1%:M : 'M[F]_1) 1%:M
    & let st := sk_fit_mx cfg (Phi *m (1%:M : 'M[F]_1)^T) w 1%:M 1%:M in
      \tr ((Phi *m (1%:M)^T - rows_of 2 st.1) *m 1%:M *m (Phi *m (1%:M)^T - rows_of 2 st.1)^T) = 2%:R].
Proof.
  move=> cfg Phi w.
  have two : (2%:R : F) != 0 by rewrite pnatr_eq0.
  have ok : kn_wok cfg w by rewrite /kn_wok /kn_effw /= wsum_ones.
  have m1 : wmean (const_mx 1) Phi = const_mx 1.
    apply/rowP => j; rewrite wmean_ones !mxE !big_ord_recl big_ord0 !mxE /=.
    have -> : bump 0 0 = 1%N by [].
    by rewrite !add0r addr0; apply: divff.
  have cen : Phi - rows_of 2 (const_mx 1) = \matrix_(i, j) ((i : nat)%:R *+ 2 - 1).
    by apply/matrixP => i j; rewrite !mxE.
  have trc : \tr ((Phi - rows_of 2 (const_mx 1)) *m (Phi - rows_of 2 (const_mx 1))^T) = 2%:R.
    rewrite cen /mxtrace !big_ord_recl big_ord0 !mxE !big_ord_recl !big_ord0 !mxE /=.
    have -> : bump 0 0 = 1%N by [].
    by rewrite mul0rn sub0r mulrNN mulr1 mulr2n addrK mulr1 !addr0.
  split=> //.
  - have [-> _] := kn_center_feature_space ok Phi.
    by rewrite /= /feat_mu /= /kn_effw /= m1 trc divff.
  - by split; rewrite ?mulmx1 // trmx1.
  - cbv zeta; rewrite sk_fit_mxE //= /sk_rows_spec /= /kn_effw /= trmx1 !mulmx1.
    by rewrite m1 trc.
Qed.

(* with_trace=False removes exactly the scaling *)
Lemma kn_trace_only_scales (F : rcfType) (c h : bool) (n : nat) (w : 'cV[F]_n) (K : 'M[F]_(n, n)) :
  let cfg1 := KnCfg c true h in
  let cfg0 := KnCfg c false h in
  kn_wok cfg1 w ->
  let st1 := kn_fit_mx cfg1 K w in
  let st0 := kn_fit_mx cfg0 K w in
  [/\ st0.1 = st1.1, st0.2 = 1%:M
    & st1.2 ord0 ord0 != 0 ->
      forall k (Kt : 'M[F]_(k, n)),
        kn_transform_mx cfg0 w st0 Kt = st1.2 ord0 ord0 *: kn_transform_mx cfg1 w st1 Kt].
Proof.
  move=> cfg1 cfg0 ok1 st1 st0.
  have ok0 : kn_wok cfg0 w by [].
  rewrite /st0 /st1 !kn_fit_mxE //=; split=> // s0 k Kt.
  rewrite !kn_transform_mxE //= scalerA mulfV // scale1r.
  by rewrite /scale_spec /= mxE eqxx mulr1n invr1 scale1r.
Qed.

Lemma Pi_projector (F : rcfType) (m p : nat) (A : 'M[F]_(m, p)) (P : 'M[F]_(m, m)) :
  penrose (A *m A^T) P ->
  let Pi := A^T *m P *m A in
  [/\ Pi *m Pi = Pi, Pi^T = Pi & A *m Pi = A].
Proof.
  by move=> pe; split; [exact: (Pi_idem pe) | exact: (Pi_sym pe) | exact: (Pi_fixes pe)].
Qed.
