(* C12 — proofs about Model/KernelNormMx.v (ssreflect / mathcomp style).
   Part 1: normalised weights, weighted means as matrix products.
   Part 2: what the mexp programs evaluate to (formula lemmas, generic in the environment).
   Part 3: kernel centring = feature centring; trace; flags; sparse variant; pseudo-inverse. *)
From mathcomp Require Import all_ssreflect all_algebra.
From Verif Require Import MExp MExpMx MxBox MxBoxP ScalerMx ScalerP KernelNorm KernelNormMx.
Set Implicit Arguments.
Unset Strict Implicit.
Unset Printing Implicit Defensive.
Import Order.Theory GRing.Theory Num.Theory.
Local Open Scope ring_scope.

(* ---- Part 1 ----------------------------------------------------------------------------- *)
Section Weights.
  Variable F : rcfType.
  Variable n : nat.
  Implicit Types (w : 'cV[F]_n).

  (* weights divided by their sum *)
  Definition nw w : 'cV[F]_n := (wsum w)^-1 *: w.

  Lemma nw_scale (a : F) w : a != 0 -> nw (a *: w) = nw w.
  Proof.
    by move=> a0; rewrite /nw wsum_scale invfM scalerA mulrAC mulVf // mul1r.
  Qed.

  Lemma wmeanE p w (A : 'M[F]_(n, p)) : wmean w A = (nw w)^T *m A.
  Proof.
    apply/rowP => j; rewrite !mxE mulrC mulr_sumr; apply: eq_bigr => i _.
    by rewrite !mxE mulrA.
  Qed.

  Lemma ones_nw w : wsum w != 0 -> (const_mx 1 : 'rV[F]_n) *m nw w = 1%:M.
  Proof.
    move=> S0; apply/matrixP => i j; rewrite !mxE !ord1 eqxx mulr1n.
    rewrite (eq_bigr (fun l => (wsum w)^-1 * w l ord0)) => [|l _]; last by rewrite !mxE mul1r.
    by rewrite -mulr_sumr mulVf.
  Qed.

  Lemma rows_ofE k p (r : 'rV[F]_p) : rows_of k r = (const_mx 1 : 'cV[F]_k) *m r.
  Proof. by apply/matrixP => i j; rewrite !mxE big_ord1 !mxE mul1r. Qed.

  (* ones * (1x1 matrix) * ones = that entry times the all-ones matrix *)
  Lemma ones_11_ones k q (M : 'M[F]_(1, 1)) :
    (const_mx 1 : 'cV[F]_k) *m M *m (const_mx 1 : 'rV[F]_q) = M ord0 ord0 *: const_mx 1.
  Proof.
    by apply/matrixP => i j; rewrite !mxE big_ord1 !mxE big_ord1 !mxE mul1r.
  Qed.
End Weights.

(* ---- Part 2: formula lemmas, for any environment holding the weights in variable 1 ------ *)
Section Formulas.
  Variable F : rcfType.
  Variables (cfg : kn_cfg) (n : nat) (env : env_mx F) (w : 'cV[F]_n).
  Hypothesis Hw : env n 1%N 1%N = w.
  Hypothesis ok : kn_wok cfg w.
  Let ew := kn_effw cfg w.
  Let u := nw ew.

  Lemma ev_kwts : eval_mx env (kn_wts cfg n) = if kn_has_w cfg then (wsum w)^-1 *: w else const_mx 1.
  Proof.
    rewrite /kn_wts; case: (kn_has_w cfg) => //.
    rewrite evScale /krecip evMap evMul evTr evOnes /kW evVar Hw; congr (_ *: _).
    rewrite !mxE /wsum; congr (_ ^-1); apply: eq_bigr => i _.
    by rewrite !mxE mul1r.
  Qed.

  Lemma ev_kwsum : (eval_mx env (kn_wsum cfg n)) ord0 ord0 = wsum (eval_mx env (kn_wts cfg n)).
  Proof.
    rewrite /kn_wsum evMul evTr evOnes; move: (eval_mx env (kn_wts cfg n)) => v.
    by rewrite !mxE /wsum; apply: eq_bigr => i _; rewrite !mxE mul1r.
  Qed.

  Lemma nw_wts : nw (eval_mx env (kn_wts cfg n)) = u.
  Proof.
    rewrite ev_kwts /u /ew; move: ok; rewrite /kn_wok /kn_effw.
    case: (kn_has_w cfg) => // S0.
    by rewrite nw_scale // invr_eq0.
  Qed.

  Lemma ev_avg0 q (A : mexp n q) : eval_mx env (kn_avg0 cfg n A) = u^T *m eval_mx env A.
  Proof.
    rewrite /kn_avg0 evScale /krecip evMap evMul evTr -nw_wts.
    rewrite [in LHS]mxE /= ev_kwsum /nw.
    by rewrite linearZ /= -scalemxAl.
  Qed.

  Lemma ev_avg1 k (A : mexp k n) : eval_mx env (kn_avg1 cfg n A) = eval_mx env A *m u.
  Proof.
    rewrite /kn_avg1 evScale /krecip evMap evMul -nw_wts.
    rewrite [in LHS]mxE /= ev_kwsum /nw.
    by rewrite -scalemxAr.
  Qed.

  Lemma ev_ones11 : (eval_mx env (MMul (MOnes 1 n) (MOnes n 1))) ord0 ord0 = n%:R.
  Proof.
    rewrite evMul !evOnes !mxE (eq_bigr (fun=> 1)) => [|i _]; last by rewrite !mxE mulr1.
    by rewrite sumr_const card_ord.
  Qed.

  Lemma ev_kone : eval_mx env kone = 1%:M.
  Proof. by []. Qed.

  (* the centring step  A - 1 rows - cols 1^T + all *)
  Definition centered_mx (k : nat) (A : 'M[F]_(k, n)) (rows : 'rV[F]_n) (all : F) : 'M[F]_(k, n) :=
    A - const_mx 1 *m rows - (if kn_center cfg then A *m u else 0) *m const_mx 1
    + all *: const_mx 1.

  Lemma ev_centered k (A : mexp k n) (rows : mexp 1 n) (all : mexp 1 1) :
    eval_mx env (kn_centered cfg n A rows all)
    = centered_mx (eval_mx env A) (eval_mx env rows) ((eval_mx env all) ord0 ord0).
  Proof.
    rewrite /kn_centered /centered_mx evAdd !evSub evScale !evMul !evOnes /kn_cols.
    by case: (kn_center cfg); rewrite ?ev_avg1 ?evZero.
  Qed.
End Formulas.

(* ---- KernelNormalizer: fit and transform in closed form ------------------------------------ *)
Section KnFormulas.
  Variable F : rcfType.
  Variables (cfg : kn_cfg) (n : nat) (K : 'M[F]_(n, n)) (w : 'cV[F]_n).
  Hypothesis ok : kn_wok cfg w.
  Let ew := kn_effw cfg w.
  Let u := nw ew.

  Definition rows_spec : 'rV[F]_n := if kn_center cfg then u^T *m K else 0.
  Definition all_spec : 'M[F]_(1, 1) := if kn_center cfg then rows_spec *m u else 0.
  Definition scale_spec : 'M[F]_(1, 1) :=
    if kn_trace cfg
    then (\tr (centered_mx cfg w K rows_spec (all_spec ord0 ord0)) / n%:R)%:M
    else 1%:M.

  Let envf := env_of [:: box K; box w].
  Lemma envf_w : envf n 1%N 1%N = w.
  Proof. by rewrite /envf /env_of /= unbox_box. Qed.
  Lemma envf_K : eval_mx envf (kK n) = K.
  Proof. by rewrite /kK evVar /envf /env_of /= unbox_box. Qed.

  Lemma ev_rows : eval_mx envf (kn_rows cfg n) = rows_spec.
  Proof.
    rewrite /kn_rows /rows_spec; case: (kn_center cfg) => //.
    by rewrite (ev_avg0 envf_w ok) envf_K.
  Qed.

  Lemma ev_all : eval_mx envf (kn_all cfg n) = all_spec.
  Proof.
    rewrite /kn_all /all_spec -ev_rows; case: (kn_center cfg) => //.
    rewrite evScale /krecip evMap evMul /u /ew -(nw_wts envf_w ok).
    by rewrite [in LHS]mxE /= (ev_kwsum) /nw -scalemxAr.
  Qed.

  Lemma ev_kscale : eval_mx envf (kn_scale cfg n) = scale_spec.
  Proof.
    rewrite /kn_scale /scale_spec; case: (kn_trace cfg); last exact: ev_kone.
    rewrite evScale /krecip evMap evTrace (ev_centered envf_w ok) envf_K ev_rows ev_all.
    rewrite [in LHS]mxE [sfun_mx _ _ _]/= (ev_ones11 n envf).
    by apply/matrixP => i j; rewrite !mxE mulrnAr mulrC.
  Qed.

  Lemma kn_fit_mxE : kn_fit_mx cfg K w = (rows_spec, all_spec, scale_spec).
  Proof. by rewrite /kn_fit_mx -/envf ev_rows ev_all ev_kscale. Qed.

  Lemma kn_transform_mxE k (st : kn_st F n) (Kt : 'M[F]_(k, n)) :
    kn_transform_mx cfg w st Kt
    = (st.2 ord0 ord0)^-1 *: centered_mx cfg w Kt st.1.1 (st.1.2 ord0 ord0).
  Proof.
    rewrite /kn_transform_mx /kn_transform.
    set envt := env_of _.
    have Hw : envt n 1%N 1%N = w by rewrite /envt /env_of /= unbox_box.
    rewrite evScale /krecip evMap (ev_centered Hw ok) /kKt /kRows /kAll /kScale !evVar.
    by rewrite /envt /env_of /= !unbox_box [in LHS]mxE.
  Qed.

  Lemma kn_fit_transform_mxE :
    kn_fit_transform_mx cfg K w
    = (scale_spec ord0 ord0)^-1 *: centered_mx cfg w K rows_spec (all_spec ord0 ord0).
  Proof.
    rewrite /kn_fit_transform_mx -/envf /kn_fit_transform evScale /krecip evMap.
    by rewrite (ev_centered envf_w ok) envf_K ev_rows ev_all ev_kscale [in LHS]mxE.
  Qed.
End KnFormulas.
