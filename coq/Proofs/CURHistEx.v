(* C07, histories: concrete inputs meeting the hypotheses of the layer-A history theorems
   (non-vacuity), over an arbitrary real closed field.  ssreflect style. *)
From mathcomp Require Import all_ssreflect all_algebra.
From Verif Require Import MExp MExpMx MxBox MxBoxP PCovR CURLoop CURLoopMx CURLoopP CURLoopEx.
From Verif Require Import CURHistMx CURHistP.
Set Implicit Arguments.
Unset Strict Implicit.
Unset Printing Implicit Defensive.
Import Order.TTheory GRing.Theory Num.Theory.
Local Open Scope ring_scope.

Section Examples.
  Variable F : rcfType.

  Lemma ex_norm : pivot_norm_mx (exX F) ord0 = 2%:R.
  Proof.
    rewrite norm_formula /sqn mxE !big_ord_recl big_ord0 !mxE /= !mulr1n !mulr0n mulr0 !addr0.
    by rewrite -expr2 sqrtr_sqr ger0_norm ?ler0n.
  Qed.

  (* X = 2 I_2, tolerance 1/2, nothing projected out yet (the first fit ran with recompute_every = 0
     and selected item 0): at the warm start the guard fires for item 0 (2 > 1/2 * 2) *)
  Lemma ex_warm :
    [/\ 0 < (2%:R^-1 : F), pivots_ok 2%:R^-1 (exX F) [::]
      & stale_live 2%:R^-1 (exX F) (orth_fold_mx 2%:R^-1 (exX F) [::]) [:: ord0]].
  Proof.
    split=> //; first by rewrite invr_gt0 ltr0n.
    split=> //.
    by rewrite /guard_mx /= ex_norm mulVf ?pnatr_eq0 // ltr1n.
  Qed.

  (* the loop then really moves the residual *)
  Lemma ex_warm_moves :
    warm_fold_mx 2%:R^-1 (exX F) (orth_fold_mx 2%:R^-1 (exX F) [::]) ([::] ++ [:: ord0]) != exX F.
  Proof.
    have [tpos Hp Hl] := ex_warm.
    have Hp' : pivots_ok 2%:R^-1 (exX F) ([::] ++ [:: ord0]).
      split=> //; rewrite ex_norm.
      have h1 : (2%:R^-1 : F) <= 1 by rewrite invf_le1 ?ltr0n // ler1n.
      have h2 : (1 : F) <= 2%:R by rewrite ler1n.
      exact: (le_trans h1 h2).
    have [_ _ /(_ ord0)] := warm_catches_up_projection tpos Hp' Hl.
    rewrite inE eqxx => /(_ isT) H; apply/eqP => E; move: H; rewrite E.
    move/colP/(_ ord0); rewrite !mxE /= mulr1n => /eqP.
    by rewrite pnatr_eq0.
  Qed.

  (* y events: one feature x = (1), selected; the same call (fill level 1, width 1, pinv(1) = 1)
     made twice, as at a warm start that re-orthogonalises two items *)
  Lemma ex_events (y0 : 'M[F]_(1, 1)) :
    let ev : nat * hintV F := (1%N, existT _ 1%N (1%:M : 'M[F]_1)) in
    events_ok (1%:M : 'M[F]_1) [:: 0%N] y0 0 [:: ev; ev] /\ [:: ev; ev] != [::].
  Proof.
    move=> ev; split=> //.
    have B : buf_mx (1%:M : 'M[F]_1) [:: 0%N] 1 1 = 1%:M.
      by apply/matrixP => i j; rewrite !ord1 !mxE /= /xcol insubT //= !mxE -val_eqE.
    have E t0 : (t0 <= 1)%N -> event_ok (1%:M : 'M[F]_1) [:: 0%N] y0 t0 ev.
      move=> t01; split=> //.
      - by rewrite yf_h1_formula B trmx1 !mulmx1 subrr.
      - by rewrite yf_h2_formula trmx1 subrr.
    by split; [exact: E|split; [exact: E|]].
  Qed.
End Examples.
