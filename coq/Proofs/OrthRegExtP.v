(* Proofs for the extension of the OrthogonalRegression model (Model/OrthRegExt.v): projector mode
   tied to the underlying linear fit - least squares recovers an exact (partial) rotation, a thin SVD
   of a (partial) isometry has unit singular values, hence the fit recovers y = X Q' for
   n_features <, =, > n_targets; W is an isometry on the range of the linear coefficients; padded
   mode with the zero padding inside the statement.  ssreflect style. *)
From mathcomp Require Import all_ssreflect all_algebra.
From Verif Require Import MExp MExpMx Ridge2Fold Ridge2FoldMx OrthReg OrthRegMx OrthRegExt MxFrobP Ridge2FoldP OrthRegP.
Set Implicit Arguments.
Unset Strict Implicit.
Unset Printing Implicit Defensive.
Import Order.TTheory GRing.Theory Num.Theory.
Local Open Scope ring_scope.

Section Plain.
  Variable F : rcfType.

  (* normal equations + full column rank: the least-squares coefficients of an exactly linear target *)
  Lemma ols_recovers n p t (Z : 'M[F]_(n, p)) (C Q : 'M[F]_(p, t)) (L : 'M[F]_(p, n)) :
    Z^T *m Z *m C = Z^T *m (Z *m Q) -> L *m Z = 1%:M -> C = Q.
  Proof.
    move=> HN HL; apply/eqP; rewrite -subr_eq0; apply/eqP; set D := C - Q.
    have HD : Z^T *m Z *m D = 0 by rewrite /D mulmxBr HN !mulmxA subrr.
    have : fn2 (Z *m D) = 0 by rewrite /fn2 /ip trmx_mul -mulmxA [Z^T *m _]mulmxA HD mulmx0 mxtrace0.
    by move/fn2_eq0 => H0; rewrite -[D]mul1mx -HL -mulmxA H0 mulmx0.
  Qed.

  (* a thin SVD  C = U diag(s) V^T  (s >= 0) with  diag(s)^2 = 1  has  s = 1 *)
  Lemma diag_sq1 r (s : 'cV[F]_r) :
    (forall i, 0 <= s i ord0) -> diag_mx s^T *m diag_mx s^T = 1%:M -> diag_mx s^T = 1%:M.
  Proof.
    move=> Hs H2.
    have E j : s j ord0 = 1.
      have : (diag_mx s^T *m diag_mx s^T) j j = 1 by rewrite H2 mxE eqxx.
      rewrite mulmx_diag !mxE eqxx mulr1n -expr2 => /eqP; rewrite sqrf_eq1 => /orP [/eqP //|/eqP E].
      by have := Hs j; rewrite E ler0N1.
    by apply/matrixP => i j; rewrite !mxE E.
  Qed.

  Lemma svd_isometry p t r (C : 'M[F]_(p, t)) (U : 'M[F]_(p, r)) (V : 'M[F]_(t, r)) (s : 'cV[F]_r) :
    U^T *m U = 1%:M -> V^T *m V = 1%:M -> C = U *m diag_mx s^T *m V^T -> (forall i, 0 <= s i ord0) ->
    C^T *m C = 1%:M \/ C *m C^T = 1%:M -> C = U *m V^T.
  Proof.
    move=> UU VV HC Hs Hiso.
    suff D2 : diag_mx s^T *m diag_mx s^T = 1%:M by rewrite HC (diag_sq1 Hs D2) mulmx1.
    have Dt : (diag_mx s^T)^T = diag_mx s^T by rewrite tr_diag_mx.
    case: Hiso => H1.
    - have : V^T *m (C^T *m C) *m V = 1%:M by rewrite H1 mulmx1 VV.
      rewrite HC !trmx_mul trmxK Dt !mulmxA VV mul1mx.
      rewrite -[_ *m U^T *m U]mulmxA UU mulmx1 -!mulmxA VV mulmx1.
      by [].
    - have : U^T *m (C *m C^T) *m U = 1%:M by rewrite H1 mulmx1 UU.
      rewrite HC !trmx_mul trmxK Dt !mulmxA UU mul1mx.
      rewrite -[_ *m V^T *m V]mulmxA VV mulmx1 -!mulmxA UU mulmx1.
      by [].
  Qed.

  Lemma fn2_row0 m p z (Zm : 'M[F]_(m, p)) : fn2 (row_mx Zm (0 : 'M[F]_(m, z))) = fn2 Zm.
  Proof.
    rewrite -fn2_tr /fn2 /ip trmxK tr_row_mx mul_row_col trmx0 mulmx0 addr0.
    by rewrite mxtrace_mulC.
  Qed.
End Plain.

Section ProgramsExt.
  Variable F : rcfType.

  Lemma prog0 (env : env_mx F) m n (a b : mexp m n) :
    eval_mx env (MSub a b) = 0 -> eval_mx env a = eval_mx env b.
  Proof. by rewrite /= => /eqP; rewrite subr_eq0 => /eqP. Qed.

  Section ProjExt.
    Variables (n p t r : nat) (env : env_mx F).
    Hypothesis H : proj_hyp env n p t r.
    Hypothesis HC : eval_mx env (lin_recon_prog p t r) = 0.
    Let X := env n p oX.
    Let y := env n t oY.
    Let C := env p t oC.
    Let Uc := env p r oUc.
    Let Vc := env t r oVc.
    Let sc := env r 1%N oSc.
    Let W := (eval_mx env (proj_coef p t r))^T.
    Let UcUc : Uc^T *m Uc = 1%:M. Proof. by case: H => /orth_of0. Qed.
    Let VcVc : Vc^T *m Vc = 1%:M. Proof. by case: H => _ /orth_of0. Qed.
    Let CE : C = Uc *m diag_mx sc^T *m Vc^T. Proof. exact: (prog0 HC). Qed.

    (* W W^T and W^T W fix the column / row space of the linear coefficients ... *)
    Lemma proj_fixes_linear_range : W *m W^T *m C = C /\ C *m (W^T *m W) = C.
    Proof.
      have [_ HR HL] := proj_partial_isometry H; rewrite -/W -/Uc -/Vc in HR HL.
      split; first by rewrite HL CE !mulmxA -[_ *m Uc^T *m Uc]mulmxA UcUc mulmx1.
      by rewrite HR CE !mulmxA -[_ *m Vc^T *m Vc]mulmxA VcVc mulmx1.
    Qed.

    (* ... and W is an isometry on every input in the range of the linear fit (rows  z C^T) *)
    Lemma proj_isometry_on_linear_range m (Zm : 'M[F]_(m, t)) :
      fn2 (Zm *m C^T *m W) = fn2 (Zm *m C^T).
    Proof.
      have E : Zm *m C^T = (Zm *m Vc *m diag_mx sc^T) *m Uc^T.
        by rewrite CE !trmx_mul trmxK tr_diag_mx !mulmxA.
      by rewrite E; exact: (proj_norm_on_range H).
    Qed.

    (* the linear estimator is least squares (J = 1: no intercept, J = centering: with intercept),
       X and J X have full column rank, y = X Q' with Q' a partial isometry (orthonormal columns when
       n_features >= n_targets, orthonormal rows when n_features <= n_targets): the fit recovers Q'
       and the training residual vanishes *)
    Lemma proj_recovers_ols (J : mexp n n) (Q : 'M[F]_(p, t)) (L Lz : 'M[F]_(p, n)) :
      eval_mx env (normal_eq_prog n p t J) = 0 ->
      (forall i, 0 <= sc i ord0) ->
      L *m X = 1%:M -> Lz *m (eval_mx env J *m X) = 1%:M ->
      y = X *m Q -> Q^T *m Q = 1%:M \/ Q *m Q^T = 1%:M ->
      W = Q /\ y - X *m W = 0.
    Proof.
      move=> HN Hs HL HLz Hy HQ.
      have CQ : C = Q.
        apply: (ols_recovers (Z := eval_mx env J *m X) _ HLz).
        by move: (prog0 HN); rewrite /= -/X -/y -/C Hy !mulmxA.
      have CUV : C = Uc *m Vc^T by apply: (svd_isometry UcUc VcVc CE Hs); rewrite CQ.
      have HL' : (Uc^T *m L) *m (X *m Uc) = 1%:M by rewrite -mulmxA [L *m _]mulmxA HL mul1mx.
      have Hy' : y = X *m (Uc *m Vc^T) by rewrite -CUV CQ.
      by have := proj_recovers H Hy' HL'; rewrite -/W -CUV CQ.
    Qed.
  End ProjExt.

  (* padded mode with the padding inside the statement: predict(Z) = [Z 0] coef_^T has the norm of Z *)
  Lemma pad_predict_norm n p z (env : env_mx F) : pad_hyp env n (p + z) ->
    forall m (Zm : 'M[F]_(m, p)),
      fn2 (row_mx Zm (0 : 'M[F]_(m, z)) *m (eval_mx env (pad_coef (p + z)))^T) = fn2 Zm.
  Proof. by move=> H m Zm; rewrite (pad_norm H) fn2_row0. Qed.
End ProgramsExt.
