(* Order independence of QuickShift (C16): renaming the points renames the labels.
   1. [fit_with_conj]: for ANY two successor maps conjugated by a renaming p
      (next' (p i) = p (next i)), the labels are conjugated -- both rules, every n.
   2. [next_cut_perm]: the cut-off rule's successor map is conjugated by p when the index
      tie-breaks of C16_next_spec_cut / np.argmin cannot fire (no two heavier points at the same
      distance from a point; the nearest neighbour of every point is unique).
   3. [next_gab_perm]: same for the Gabriel rule (symmetric D). *)
From Verif Require Import ListX ListXP QuickShift QuickShiftP.
Close Scope Z_scope.
Open Scope nat_scope.

Lemma ext_le_antisym a b : ext_lt a b = false -> ext_lt b a = false -> a = b.
Proof.
  destruct a as [x|], b as [y|]; cbn; try discriminate; try reflexivity.
  rewrite !Z.ltb_ge. intros H1 H2. f_equal. lia.
Qed.

Lemma adm_cut_dec n D w cut c :
  (exists j, adm_cut n D w cut c j) \/ (forall j, ~ adm_cut n D w cut c j).
Proof.
  set (t := fun j => (wt w c <? wt w j)%Z && ext_lt (dget D c j) (Some (nth c cut 0%Z))).
  destruct (existsb t (seq 0 n)) eqn:E.
  - left. apply existsb_exists in E. destruct E as (j & Hj & Ht). apply in_seq in Hj.
    unfold t in Ht. apply andb_prop in Ht. destruct Ht as [T1 T2].
    exists j. split; [lia|]. split; [apply Z.ltb_lt; exact T1|exact T2].
  - right. intros j (Hj & Hw & Hd). assert (H : existsb t (seq 0 n) = true); [|congruence].
    apply existsb_exists. exists j. split; [apply in_seq; lia|]. unfold t.
    apply andb_true_intro. split; [apply Z.ltb_lt; exact Hw|exact Hd].
Qed.

Section Conj.
  Variable n : nat.
  Variables next next' : nat -> nat.
  Variables w w' : list Z.
  Variable p : nat -> nat.
  Hypothesis next_lt : forall i, i < n -> next i < n.
  Hypothesis next_up : forall i, i < n -> next i = i \/ (wt w i < wt w (next i))%Z.
  Hypothesis next_lt' : forall i, i < n -> next' i < n.
  Hypothesis next_up' : forall i, i < n -> next' i = i \/ (wt w' i < wt w' (next' i))%Z.
  Hypothesis p_lt : forall i, i < n -> p i < n.
  Hypothesis equi : forall i, i < n -> next' (p i) = p (next i).

  Lemma iter_conj k i : i < n ->
    Nat.iter k next i < n /\ Nat.iter k next' (p i) = p (Nat.iter k next i).
  Proof.
    intros Hi. induction k as [|k [IH1 IH2]]; [split; [exact Hi|reflexivity]|].
    rewrite (iter_S next), (iter_S next'). split; [apply next_lt; exact IH1|]. rewrite IH2. apply equi. exact IH1.
  Qed.

  Theorem fit_with_conj R R' : fit_with n next = Some R -> fit_with n next' = Some R' ->
    forall i, i < n -> oget R' (p i) = option_map p (oget R i).
  Proof.
    intros E E' i Hi.
    destruct (fit_with_labels n next w next_lt next_up R E) as [_ HS].
    destruct (HS i Hi) as (r & A1 & A2 & A3 & _ & k & A5).
    rewrite A1. cbn [option_map].
    apply (fit_with_limit n next' w' next_lt' next_up' R' (p i) (p r) k E' (p_lt i Hi)).
    - rewrite A5. symmetry. apply iter_conj. exact Hi.
    - rewrite equi by exact A2. rewrite A3. reflexivity.
  Qed.
End Conj.

(* ---- the renamed input -------------------------------------------------------------------- *)
Section Perm.
  Variable n : nat.
  Variables D D' : list (list ExtZ).
  Variables w w' : list Z.
  Variables p p' : nat -> nat.
  Hypothesis HD : sq_mat n D.
  Hypothesis HD' : sq_mat n D'.
  Hypothesis Hw : length w = n.
  Hypothesis Hw' : length w' = n.
  Hypothesis p_lt : forall i, i < n -> p i < n.
  Hypothesis p'_lt : forall j, j < n -> p' j < n.
  Hypothesis p_p' : forall j, j < n -> p (p' j) = j.
  Hypothesis HDp : forall i j, i < n -> j < n -> dget D' (p i) (p j) = dget D i j.
  Hypothesis Hwp : forall i, i < n -> wt w' (p i) = wt w i.

  (* no two strictly heavier points at the same distance from a point *)
  Definition no_dist_ties : Prop :=
    forall c j j', c < n -> j < n -> j' < n -> (wt w c < wt w j)%Z -> (wt w c < wt w j')%Z ->
      dget D c j = dget D c j' -> j = j'.
  (* the nearest neighbour (row minimum) of every point is unique *)
  Definition unique_nn : Prop :=
    forall c j, c < n -> j < n -> dget D c j = dget D c (argmin_row (nth c D [])) -> j = argmin_row (nth c D []).

  Lemma row_ne c : c < n -> nth c D [] <> [] /\ nth (p c) D' [] <> [].
  Proof.
    intros Hc. split.
    - pose proof (sq_mat_row n D c HD Hc) as H. intros E. rewrite E in H. cbn in H. lia.
    - pose proof (sq_mat_row n D' (p c) HD' (p_lt c Hc)) as H. intros E. rewrite E in H. cbn in H. lia.
  Qed.

  Lemma argmin_perm : unique_nn -> forall c, c < n ->
    argmin_row (nth (p c) D' []) = p (argmin_row (nth c D [])).
  Proof.
    intros Hu c Hc. destruct (row_ne c Hc) as [N1 N2].
    set (nn := argmin_row (nth c D [])). set (nn' := argmin_row (nth (p c) D' [])).
    destruct (argmin_row_spec (nth c D []) N1) as [L1 M1].
    destruct (argmin_row_spec (nth (p c) D' []) N2) as [L2 M2]. cbv zeta in *. fold nn in L1, M1. fold nn' in L2, M2.
    rewrite (sq_mat_row n D c HD Hc) in *. rewrite (sq_mat_row n D' (p c) HD' (p_lt c Hc)) in *.
    set (a := p' nn'). assert (Ha : a < n) by (apply p'_lt; exact L2).
    assert (Epa : p a = nn') by (apply p_p'; exact L2).
    (* D c a <= D c nn  (through D')  and  D c nn <= D c a *)
    destruct (M2 (p nn) (p_lt nn L1)) as [Le2 _]. destruct (M1 a Ha) as [Le1 _].
    change (nth nn' (nth (p c) D' []) None) with (dget D' (p c) nn') in Le2.
    change (nth (p nn) (nth (p c) D' []) None) with (dget D' (p c) (p nn)) in Le2.
    change (nth nn (nth c D []) None) with (dget D c nn) in Le1.
    change (nth a (nth c D []) None) with (dget D c a) in Le1.
    rewrite <- Epa in Le2. rewrite !HDp in Le2 by assumption.
    unfold ext_le in *.
    assert (Ea : a = nn) by (apply (Hu c a Hc Ha); apply ext_le_antisym; assumption).
    rewrite <- Epa, Ea. reflexivity.
  Qed.

  (* ---- cut-off rule *)
  Variables cut cut' : list Z.
  Hypothesis Hcp : forall i, i < n -> nth (p i) cut' 0%Z = nth i cut 0%Z.

  Lemma adm_cut_perm c j : c < n -> j < n ->
    (adm_cut n D' w' cut' (p c) (p j) <-> adm_cut n D w cut c j).
  Proof.
    intros Hc Hj. unfold adm_cut. rewrite HDp, !Hwp, Hcp by assumption.
    split; intros (A & B & E); (split; [|split]); try assumption. apply p_lt. exact Hj.
  Qed.

  Theorem next_cut_perm : no_dist_ties -> unique_nn ->
    forall c, c < n -> next_cut D' w' cut' (p c) = p (next_cut D w cut c).
  Proof.
    intros Ht Hu c Hc.
    destruct (next_cut_spec n D w Hw cut c) as [S1 S2].
    destruct (next_cut_spec n D' w' Hw' cut' (p c)) as [S1' S2']. cbv zeta in *.
    set (nx := next_cut D w cut c) in *. set (nx' := next_cut D' w' cut' (p c)) in *.
    destruct (adm_cut_dec n D w cut c) as [[j Hj]|Hno].
    - (* an admissible point exists on both sides *)
      destruct S1 as [A B]; [exists j; exact Hj|].
      assert (Hnx : nx < n) by apply A.
      destruct S1' as [A' B']; [exists (p nx); apply adm_cut_perm; assumption|].
      assert (Hnx' : nx' < n) by apply A'.
      set (a := p' nx'). assert (Ha : a < n) by (apply p'_lt; exact Hnx').
      assert (Epa : p a = nx') by (apply p_p'; exact Hnx').
      assert (Aa : adm_cut n D w cut c a) by (apply adm_cut_perm; [exact Hc|exact Ha|rewrite Epa; exact A']).
      destruct (B a Aa) as [Le1 _].
      destruct (B' (p nx)) as [Le2 _]; [apply adm_cut_perm; assumption|].
      rewrite <- Epa in Le2. rewrite !HDp in Le2 by assumption. unfold ext_le in *.
      assert (Ea : a = nx).
      { apply (Ht c a nx Hc Ha Hnx); [apply Aa|apply A|apply ext_le_antisym; assumption]. }
      rewrite <- Epa, Ea. reflexivity.
    - (* none: nearest-neighbour fall-back on both sides *)
      assert (Hno' : forall j', ~ adm_cut n D' w' cut' (p c) j').
      { intros j' A'. assert (Hj' : j' < n) by apply A'.
        apply (Hno (p' j')). apply adm_cut_perm; [exact Hc|apply p'_lt; exact Hj'|].
        rewrite p_p' by exact Hj'. exact A'. }
      rewrite (S2' Hno'), (S2 Hno). rewrite (argmin_perm Hu c Hc).
      pose proof (argmin_lt n D c HD Hc) as Hnn. rewrite !Hwp by assumption.
      destruct (_ <? _)%Z; reflexivity.
  Qed.
End Perm.

(* ---- labels under the cut-off rule ---------------------------------------------------------- *)
Theorem fit_cut_perm n D D' w w' cut cut' (p p' : nat -> nat) R R' :
  sq_mat n D -> sq_mat n D' -> length w = n -> length w' = n ->
  (forall i, i < n -> p i < n) -> (forall j, j < n -> p' j < n) -> (forall j, j < n -> p (p' j) = j) ->
  (forall i j, i < n -> j < n -> dget D' (p i) (p j) = dget D i j) ->
  (forall i, i < n -> wt w' (p i) = wt w i) ->
  (forall i, i < n -> nth (p i) cut' 0%Z = nth i cut 0%Z) ->
  no_dist_ties n D w -> unique_nn n D ->
  fit_cut D w cut = Some R -> fit_cut D' w' cut' = Some R' ->
  forall i, i < n -> oget R' (p i) = option_map p (oget R i).
Proof.
  intros HD HD' Hw Hw' Hp Hp' Hpp HDp Hwp Hcp Ht Hu E E'.
  rewrite (fit_cut_eq n D w HD cut) in E. rewrite (fit_cut_eq n D' w' HD' cut') in E'.
  apply (fit_with_conj n (next_cut D w cut) (next_cut D' w' cut') w w' p); try assumption.
  - apply next_cut_lt; assumption.
  - intros i _. apply next_cut_up.
  - apply next_cut_lt; assumption.
  - intros i _. apply next_cut_up.
  - intros i Hi. apply (next_cut_perm n D D' w w' p p'); assumption.
Qed.

(* ---- Gabriel rule ----------------------------------------------------------------------------- *)
Lemma gpath_map n (G G' : list (list bool)) (f : nat -> nat) :
  (forall x, x < n -> f x < n) ->
  (forall x y, x < n -> y < n -> bget G' (f x) (f y) = bget G x y) ->
  forall k a b, gpath n G k a b -> a < n -> b < n -> gpath n G' k (f a) (f b).
Proof.
  intros Hf HG k a b P. induction P as [a b H|k a j b P IH Hj H]; intros Ha Hb.
  - constructor. rewrite HG by assumption. exact H.
  - apply (gpath_S n G' k (f a) (f j) (f b)); [apply IH; assumption|apply Hf; exact Hj|].
    rewrite HG by assumption. exact H.
Qed.

Lemma adm_gab_dec n D w shell c :
  (exists j, adm_gab n D w shell c j) \/ (forall j, ~ adm_gab n D w shell c j).
Proof.
  set (t := fun j => (wt w c <? wt w j)%Z && ext_lt (dget D c j) None && in_shell D shell c j).
  destruct (existsb t (seq 0 n)) eqn:E.
  - left. apply existsb_exists in E. destruct E as (j & Hj & Ht). apply in_seq in Hj.
    unfold t in Ht. apply andb_prop in Ht. destruct Ht as [Ht T3]. apply andb_prop in Ht. destruct Ht as [T1 T2].
    exists j. split; [lia|]. split; [apply Z.ltb_lt; exact T1|]. split; assumption.
  - right. intros j (Hj & Hw & Hd & Hs). assert (H : existsb t (seq 0 n) = true); [|congruence].
    apply existsb_exists. exists j. split; [apply in_seq; lia|]. unfold t.
    rewrite Hd, Hs, !andb_true_r. apply Z.ltb_lt. exact Hw.
Qed.

Section GPerm.
  Variable n : nat.
  Variables D D' : list (list ExtZ).
  Variables w w' : list Z.
  Variables p p' : nat -> nat.
  Hypothesis HD : sq_mat n D.
  Hypothesis HD' : sq_mat n D'.
  Hypothesis Hw : length w = n.
  Hypothesis Hw' : length w' = n.
  Hypothesis p_lt : forall i, i < n -> p i < n.
  Hypothesis p'_lt : forall j, j < n -> p' j < n.
  Hypothesis p_p' : forall j, j < n -> p (p' j) = j.
  Hypothesis p'_p : forall i, i < n -> p' (p i) = i.
  Hypothesis HDp : forall i j, i < n -> j < n -> dget D' (p i) (p j) = dget D i j.
  Hypothesis Hwp : forall i, i < n -> wt w' (p i) = wt w i.
  Hypothesis Hsym : dsym n D.

  Lemma dsym' : dsym n D'.
  Proof.
    intros a b Ha Hb. rewrite <- (p_p' a Ha), <- (p_p' b Hb).
    rewrite !HDp by (apply p'_lt; assumption). apply Hsym; apply p'_lt; assumption.
  Qed.

  Lemma gabriel_perm i j : i < n -> j < n ->
    bget (gabriel D') (p i) (p j) = bget (gabriel D) i j.
  Proof.
    intros Hi Hj. apply Bool.eq_iff_eq_true.
    rewrite (gabriel_bruteforce n D' (p i) (p j) (proj1 HD') dsym' (p_lt i Hi) (p_lt j Hj)).
    rewrite (gabriel_bruteforce n D i j (proj1 HD) Hsym Hi Hj).
    split; intros [Hne Hno]; split.
    - intros ->. apply Hne. reflexivity.
    - intros (k & Hk & E). apply Hno. exists (p k). split; [apply p_lt; exact Hk|].
      rewrite !HDp by assumption. exact E.
    - intros E. apply Hne. rewrite <- (p'_p i Hi), <- (p'_p j Hj), E. reflexivity.
    - intros (k & Hk & E). apply Hno. exists (p' k). split; [apply p'_lt; exact Hk|].
      rewrite <- (p_p' k Hk) in E. rewrite !HDp in E by (try apply p'_lt; assumption). exact E.
  Qed.

  Lemma gabriel_perm' x y : x < n -> y < n ->
    bget (gabriel D) (p' x) (p' y) = bget (gabriel D') x y.
  Proof.
    intros Hx Hy. rewrite <- (gabriel_perm (p' x) (p' y)) by (apply p'_lt; assumption).
    rewrite !p_p' by assumption. reflexivity.
  Qed.

  Variable shell : nat.

  Lemma in_shell_perm c b : c < n -> b < n ->
    in_shell D' shell (p c) (p b) = in_shell D shell c b.
  Proof.
    intros Hc Hb. unfold in_shell. apply Bool.eq_iff_eq_true.
    rewrite (shell_set_spec n (gabriel D') (gabriel_sq n D' (proj1 HD')) shell (p c) (p b) (p_lt c Hc)).
    rewrite (shell_set_spec n (gabriel D) (gabriel_sq n D (proj1 HD)) shell c b Hc).
    split; intros (k & Hk & P); exists k; (split; [exact Hk|]).
    - rewrite <- (p'_p c Hc), <- (p'_p b Hb).
      apply (gpath_map n (gabriel D') (gabriel D) p' p'_lt gabriel_perm' k (p c) (p b) P); apply p_lt; assumption.
    - apply (gpath_map n (gabriel D) (gabriel D') p p_lt gabriel_perm k c b P); assumption.
  Qed.

  Lemma adm_gab_perm c j : c < n -> j < n ->
    (adm_gab n D' w' shell (p c) (p j) <-> adm_gab n D w shell c j).
  Proof.
    intros Hc Hj. unfold adm_gab. rewrite HDp, !Hwp, in_shell_perm by assumption.
    split; intros (A & B & E & F); (split; [|split; [|split]]); try assumption. apply p_lt. exact Hj.
  Qed.

  Theorem next_gab_perm : no_dist_ties n D w ->
    forall c, c < n -> next_gab D' w' shell (p c) = p (next_gab D w shell c).
  Proof.
    intros Ht c Hc.
    destruct (next_gab_spec n D w Hw shell c) as [S1 S2].
    destruct (next_gab_spec n D' w' Hw' shell (p c)) as [S1' S2']. cbv zeta in *.
    set (nx := next_gab D w shell c) in *. set (nx' := next_gab D' w' shell (p c)) in *.
    destruct (adm_gab_dec n D w shell c) as [[j Hj]|Hno].
    - destruct S1 as [A B]; [exists j; exact Hj|].
      assert (Hnx : nx < n) by apply A.
      destruct S1' as [A' B']; [exists (p nx); apply adm_gab_perm; assumption|].
      assert (Hnx' : nx' < n) by apply A'.
      set (a := p' nx'). assert (Ha : a < n) by (apply p'_lt; exact Hnx').
      assert (Epa : p a = nx') by (apply p_p'; exact Hnx').
      assert (Aa : adm_gab n D w shell c a) by (apply adm_gab_perm; [exact Hc|exact Ha|rewrite Epa; exact A']).
      destruct (B a Aa) as [Le1 _].
      destruct (B' (p nx)) as [Le2 _]; [apply adm_gab_perm; assumption|].
      rewrite <- Epa in Le2. rewrite !HDp in Le2 by assumption. unfold ext_le in *.
      assert (Ea : a = nx).
      { apply (Ht c a nx Hc Ha Hnx); [apply Aa|apply A|apply ext_le_antisym; assumption]. }
      rewrite <- Epa, Ea. reflexivity.
    - assert (Hno' : forall j', ~ adm_gab n D' w' shell (p c) j').
      { intros j' A'. assert (Hj' : j' < n) by apply A'.
        apply (Hno (p' j')). apply adm_gab_perm; [exact Hc|apply p'_lt; exact Hj'|].
        rewrite p_p' by exact Hj'. exact A'. }
      rewrite (S2' Hno'), (S2 Hno). reflexivity.
  Qed.
End GPerm.

Theorem fit_gab_perm n D D' w w' shell (p p' : nat -> nat) R R' :
  sq_mat n D -> sq_mat n D' -> length w = n -> length w' = n ->
  (forall i, i < n -> p i < n) -> (forall j, j < n -> p' j < n) ->
  (forall j, j < n -> p (p' j) = j) -> (forall i, i < n -> p' (p i) = i) ->
  (forall i j, i < n -> j < n -> dget D' (p i) (p j) = dget D i j) ->
  (forall i, i < n -> wt w' (p i) = wt w i) ->
  dsym n D -> no_dist_ties n D w ->
  fit_gab D w shell = Some R -> fit_gab D' w' shell = Some R' ->
  forall i, i < n -> oget R' (p i) = option_map p (oget R i).
Proof.
  intros HD HD' Hw Hw' Hp Hp' Hpp Hpp' HDp Hwp Hs Ht E E'.
  rewrite (fit_gab_eq n D w HD shell) in E. rewrite (fit_gab_eq n D' w' HD' shell) in E'.
  apply (fit_with_conj n (next_gab D w shell) (next_gab D' w' shell) w w' p); try assumption.
  - apply next_gab_lt; assumption.
  - intros i _. apply next_gab_up.
  - apply next_gab_lt; assumption.
  - intros i _. apply next_gab_up.
  - intros i Hi. apply (next_gab_perm n D D' w w' p p'); assumption.
Qed.
