(* Instances of the generic distance-table theorems: plain FPS (squared Euclidean
   distance between candidates) and sample-space PCov-FPS (distance induced by the
   modified Gram matrix a*XX^T + (1-a)*YY^T, a = k/4, scaled by 4). *)
From Verif Require Import ListX Greedy FPS ListXP GreedyP FPSP.

Lemma map_seq_nth {A B} (f : A -> B) (l : list A) d :
  map f l = map (fun j => f (nth j l d)) (seq 0 (length l)).
Proof.
  induction l as [|a l IH]; cbn; [reflexivity|]. f_equal.
  rewrite <- seq_shift, map_map. exact IH.
Qed.

Section FPSInst.
  Variable cs : list (list Z).
  Variable d : nat.
  Hypothesis Hdim : Forall (fun c => length c = d) cs.
  Let n := length cs.
  Notation cnd i := (nth i cs []).

  Definition fps_dist (j l : nat) : Z := sqdist (cnd j) (cnd l).

  Lemma cnd_len i : (i < n)%nat -> length (cnd i) = d.
  Proof. intros Hi. rewrite Forall_forall in Hdim. apply Hdim, nth_In, Hi. Qed.

  (* new_dist = norms_ + norms_[l] - 2 X[l] @ X.T  is the vector of squared distances to l *)
  Theorem fps_newdist l :
    (l < n)%nat ->
    newdist (fps_norms cs) (fps_cross cs) l = map (fun j => fps_dist j l) (seq 0 n).
  Proof.
    intros Hl. unfold newdist, fps_norms, fps_cross.
    rewrite map2_map_l, map2_map_r, map2_same.
    rewrite (map_seq_nth _ cs []). fold n. apply map_ext_in. intros j Hj.
    apply in_seq in Hj. change 0 with (sqn []). rewrite map_nth.
    apply sqdist_expand. rewrite !cnd_len by lia. reflexivity.
  Qed.

  Lemma fps_dist_nonneg j l : 0 <= fps_dist j l.
  Proof. apply sqdist_nonneg. Qed.
  Lemma fps_dist_self i : fps_dist i i = 0.
  Proof. apply sqdist_self. Qed.
End FPSInst.

Section PCovInst.
  Variable X Y : list (list Z).
  Variable dx dy : nat.
  Variable a : Z.
  Hypothesis Ha : 0 <= a <= 4.
  Hypothesis HdimX : Forall (fun c => length c = dx) X.
  Hypothesis HdimY : Forall (fun c => length c = dy) Y.
  Hypothesis HlenY : length Y = length X.
  Let n := length X.
  Let D := kernel4 a X Y.

  Definition pcov_dist (j l : nat) : Z :=
    a * sqdist (nth j X []) (nth l X []) + (4 - a) * sqdist (nth j Y []) (nth l Y []).

  Lemma D_row l : (l < n)%nat -> nth l D [] = map (kentry a X Y l) (seq 0 n).
  Proof.
    intros Hl. unfold D, kernel4. fold n.
    rewrite (nth_map_lt _ (seq 0 n) l [] O) by (rewrite seq_length; exact Hl).
    now rewrite seq_nth.
  Qed.

  Lemma D_diag : diagm D = map (fun i => kentry a X Y i i) (seq 0 n).
  Proof.
    unfold diagm. replace (length D) with n by (unfold D, kernel4; now rewrite map_length, seq_length).
    apply map_ext_in. intros i Hi. apply in_seq in Hi. rewrite D_row by lia.
    rewrite (nth_map_lt _ (seq 0 n) i 0 O) by (rewrite seq_length; lia). now rewrite seq_nth by lia.
  Qed.

  Lemma kentry_dist j l :
    (j < n)%nat -> (l < n)%nat ->
    kentry a X Y j j + kentry a X Y l l - 2 * kentry a X Y l j = pcov_dist j l.
  Proof.
    intros Hj Hl. unfold kentry, pcov_dist.
    assert (HX : length (nth j X []) = length (nth l X [])).
    { rewrite Forall_forall in HdimX. rewrite !HdimX; [reflexivity| |]; apply nth_In; assumption. }
    assert (HY : length (nth j Y []) = length (nth l Y [])).
    { rewrite Forall_forall in HdimY. rewrite !HdimY; [reflexivity| |]; apply nth_In; rewrite HlenY; assumption. }
    rewrite <- (sqdist_expand _ _ HX), <- (sqdist_expand _ _ HY). unfold sqn. lia.
  Qed.

  Theorem pcov_newdist l :
    (l < n)%nat ->
    newdist (diagm D) (pcov_cross false D) l = map (fun j => pcov_dist j l) (seq 0 n).
  Proof.
    intros Hl. unfold newdist, pcov_cross. rewrite D_row by exact Hl. rewrite D_diag.
    rewrite map2_map_l, map2_map_r, map2_same.
    apply map_ext_in. intros j Hj. apply in_seq in Hj.
    rewrite (nth_map_lt _ (seq 0 n) l 0 O) by (rewrite seq_length; exact Hl).
    rewrite seq_nth by exact Hl. apply kentry_dist; lia.
  Qed.

  Lemma pcov_dist_nonneg j l : 0 <= pcov_dist j l.
  Proof.
    unfold pcov_dist.
    pose proof (sqdist_nonneg (nth j X []) (nth l X [])).
    pose proof (sqdist_nonneg (nth j Y []) (nth l Y [])). nia.
  Qed.
  Lemma pcov_dist_self i : pcov_dist i i = 0.
  Proof. unfold pcov_dist. rewrite !sqdist_self. lia. Qed.
End PCovInst.

(* (X^T)^T = X for rectangular X: feature selection on X^T sees the rows of X *)
Lemma transpose_involutive w (X : list (list Z)) :
  Forall (fun c => length c = w) X -> transpose (length X) (transpose w X) = X.
Proof.
  intros Hd. unfold transpose at 1.
  rewrite <- (map_id X) at 3. rewrite (map_seq_nth (fun r => r) X []).
  apply map_ext_in. intros i Hi. apply in_seq in Hi.
  unfold col at 1. unfold transpose. rewrite map_map.
  assert (Hlen : length (nth i X []) = w).
  { rewrite Forall_forall in Hd. apply Hd, nth_In. lia. }
  rewrite <- (map_id (nth i X [])) at 1. rewrite (map_seq_nth (fun x => x) (nth i X []) 0), Hlen.
  apply map_ext_in. intros j Hj. unfold col.
  rewrite (nth_map_lt (fun r => nth j r 0) X i 0 []) by lia. reflexivity.
Qed.
