(* C08 extension (round 3): history independence of the CUR family INCLUDING the warm-start path
   of _CUR/_PCovCUR._continue_greedy_search (conditional re-orthogonalisation, score
   recomputation), for recompute_every in {0, 1}, and across a change of recompute_every between
   two fits (set_params).  Model/CURWarm.v; the linear algebra is abstract and enters through
   three laws. *)
From Verif Require Import ListX Greedy CURSched ListXP GreedyP HistoryP CURWarm.

(* ---- masks only look at unselected entries ------------------------------------------------ *)
Lemma mask_from_agree sl : forall a b i,
  length a = length b ->
  (forall j, ~ In (i + j)%nat sl -> nth j a 0 = nth j b 0) ->
  mask_from i sl a = mask_from i sl b.
Proof.
  induction a as [|x a IH]; intros [|y b] i Hl Hn; cbn in Hl; try discriminate; [reflexivity|].
  cbn [mask_from]. f_equal.
  - destruct (memb i sl) eqn:Em; [reflexivity|]. apply memb_false in Em.
    f_equal. apply (Hn O). now rewrite Nat.add_0_r.
  - apply IH; [lia|]. intros j Hj. apply (Hn (S j)). now replace (i + S j)%nat with (S i + j)%nat by lia.
Qed.

Section CURWarmP.
  Variable M : Type.
  Variable orth : M -> list nat -> nat -> M.
  Variable pi_of : M -> list Z.
  Variable stale : M -> nat -> bool.
  Variable cand : list (list Z).
  Variable ycand : option (list (list Z)).
  Let n := length cand.

  (* L0: one score per candidate *)
  Hypothesis pi_len : forall x, length (pi_of x) = n.
  (* L1: an item that has just been projected out is not stale *)
  Hypothesis stale_self : forall x l i, stale (orth x l i) i = false.
  (* L2: projecting out another item keeps it so *)
  Hypothesis stale_keep : forall x l i c, stale x c = false -> stale (orth x l i) c = false.

  Notation cur := (cur M).
  Notation cu_upd := (cu_upd M orth pi_of).
  Notation cu_cont := (cu_cont M orth pi_of stale).
  Notation cu_reorth := (cu_reorth M orth stale).
  Notation cu_run := (cu_run M orth pi_of cand ycand).
  Notation cu_warm := (cu_warm M orth pi_of stale).
  Notation cu_warm_fit := (cu_warm_fit M orth pi_of stale cand ycand).
  Notation cu_chain := (cu_chain M orth pi_of stale cand ycand).
  Notation cu_post := (cu_post M orth pi_of cand ycand).
  Notation cu_forced := (cu_forced M orth pi_of cand ycand).
  Notation cu_g0 := (cu_g0 M pi_of).
  Notation cu_equiv := (cu_equiv M).
  Notation g_equiv := (g_equiv M).
  Notation score := (cu_score M).

  Definition CP (s : cur) : Prop := length (cpi s) = n.
  Lemma CP_len s : CP s -> length (score s) = n.
  Proof. exact (fun H => H). Qed.
  Lemma CP_upd re s i : CP s -> (i < n)%nat -> CP (cu_upd re s i).
  Proof.
    intros H _. unfold CP, CURWarm.cu_upd. cbn [cpi]. rewrite upd_nth_length.
    destruct (refresh_due re _); [apply pi_len|exact H].
  Qed.

  (* ---- agreement off the selected items ---------------------------------------------------- *)
  Lemma agree_refl sl a : agree_off sl a a.
  Proof. split; auto. Qed.
  Lemma agree_sym sl a b : agree_off sl a b -> agree_off sl b a.
  Proof. intros [A B]. split; [auto|]. intros j Hj. symmetry. auto. Qed.
  Lemma agree_trans sl a b c : agree_off sl a b -> agree_off sl b c -> agree_off sl a c.
  Proof. intros [A B] [A' B']. split; [congruence|]. intros j Hj. rewrite B, B'; auto. Qed.

  Lemma agree_zero sl i a b :
    agree_off sl a b -> agree_off (sl ++ [i]) (upd_nth i 0 a) (upd_nth i 0 b).
  Proof.
    intros [A B]. split; [now rewrite !upd_nth_length|].
    intros j Hj. assert (Hji : i <> j) by (intros ->; apply Hj, in_or_app; right; now left).
    rewrite !nth_upd_nth_neq by exact Hji. apply B. intros Hs. apply Hj, in_or_app. now left.
  Qed.

  Lemma agree_zero_l sl i a b :
    agree_off sl a b -> agree_off (sl ++ [i]) (upd_nth i 0 a) b.
  Proof.
    intros [A B]. split; [now rewrite upd_nth_length|].
    intros j Hj. assert (Hji : i <> j) by (intros ->; apply Hj, in_or_app; right; now left).
    rewrite nth_upd_nth_neq by exact Hji. apply B. intros Hs. apply Hj, in_or_app. now left.
  Qed.

  Lemma agree_mask sl a b : agree_off sl a b -> mask sl a = mask sl b.
  Proof. intros [A B]. apply mask_from_agree; [exact A|]. intros j Hj. now apply B. Qed.

  (* ---- one step on two equivalent objects --------------------------------------------------- *)
  Lemma equiv_upd re s1 s2 sl i :
    cu_equiv s1 s2 sl -> cu_equiv (cu_upd re s1 i) (cu_upd re s2 i) (sl ++ [i]).
  Proof.
    intros (A & B & Cc & D). unfold CURWarm.cu_equiv, CURWarm.cu_upd. cbn [xc cns csl cpi].
    rewrite A, B, Cc. split; [reflexivity|]. split; [reflexivity|]. split; [reflexivity|].
    destruct (refresh_due re (S (cns s2))); [apply agree_refl|apply agree_zero, D].
  Qed.

  Lemma best_new_equiv t g1 g2 :
    g_equiv g1 g2 ->
    fst (best_new cur score t g1) = fst (best_new cur score t g2) /\
    g_equiv (snd (best_new cur score t g1)) (snd (best_new cur score t g2)).
  Proof.
    intros (A & B & Cc & D & E). unfold best_new.
    pose proof E as (_ & _ & _ & Ep). unfold CURWarm.cu_score.
    rewrite <- A, <- D, <- (agree_mask _ _ _ Ep).
    destruct (amax (mask (sel g1) (cpi (sst g1)))) as [[i v]|].
    - destruct (has_thr t); [destruct (below t _ v)|]; cbn; (split; [reflexivity|]);
        unfold CURWarm.g_equiv; cbn; auto.
    - cbn. split; [reflexivity|]. unfold CURWarm.g_equiv; auto.
  Qed.

  Lemma post_equiv re g1 g2 i : g_equiv g1 g2 -> g_equiv (cu_post re g1 i) (cu_post re g2 i).
  Proof.
    intros (A & B & Cc & D & E). unfold CURWarm.g_equiv, CURWarm.cu_post, post.
    cbn [sel xsel ysel sst first].
    rewrite A, B, Cc, D. split; [reflexivity|]. split; [reflexivity|]. split; [reflexivity|].
    split; [reflexivity|]. apply equiv_upd. rewrite <- A. exact E.
  Qed.

  (* equivalent objects stay equivalent through any number of selections, for every
     recompute_every and every threshold, and stop at the same time *)
  Theorem run_equiv re t k : forall g1 g2,
    g_equiv g1 g2 ->
    g_equiv (fst (cu_run re t k g1)) (fst (cu_run re t k g2)) /\
    snd (cu_run re t k g1) = snd (cu_run re t k g2).
  Proof.
    induction k as [|k IH]; intros g1 g2 H; cbn; [auto|].
    destruct (best_new_equiv t g1 g2 H) as (A & B).
    unfold CURWarm.cu_run in *. cbn [run].
    destruct (best_new cur score t g1) as [o1 g1'].
    destruct (best_new cur score t g2) as [o2 g2']. cbn in A, B. subst o2.
    destruct o1 as [i|]; [|cbn; auto].
    apply IH. now apply post_equiv.
  Qed.

  (* ---- the invariant of a selector with recompute_every in {0,1} ----------------------------
     (a) the scores it holds are those of its residual, except on selected items;
     (b) for recompute_every = 1 no selected item is stale. *)
  Definition J (re : nat) (s : cur) (sl : list nat) : Prop :=
    csl s = sl /\ length (cpi s) = n /\ agree_off sl (cpi s) (pi_of (xc s)) /\
    (re <> 0%nat -> forall c, In c sl -> stale (xc s) c = false).

  Lemma J_cold re X : J re (cu_cold M pi_of X) [].
  Proof.
    unfold J, CURWarm.cu_cold; cbn. repeat split; auto using pi_len. intros _ c [].
  Qed.

  Lemma refresh_due_0 m : refresh_due 0 m = false.
  Proof. reflexivity. Qed.
  Lemma refresh_due_1 m : refresh_due 1 m = true.
  Proof. unfold refresh_due. cbn [Nat.eqb negb andb]. now rewrite Nat.mod_1_r. Qed.

  Lemma J_upd re s sl i : (re <= 1)%nat -> J re s sl -> J re (cu_upd re s i) (sl ++ [i]).
  Proof.
    intros Hre (A & B & Cc & D). assert (Hr : re = 0%nat \/ re = 1%nat) by lia.
    unfold J, CURWarm.cu_upd. cbn [xc cns csl cpi]. rewrite A.
    destruct Hr as [-> | ->].
    - rewrite refresh_due_0. cbn [Nat.eqb]. repeat split; try reflexivity.
      + now rewrite upd_nth_length.
      + now rewrite upd_nth_length, pi_len.
      + intros j Hj. now apply (agree_zero_l sl i _ _ Cc).
      + intros H. now contradiction H.
    - rewrite refresh_due_1. cbn [Nat.eqb]. repeat split; try reflexivity.
      + now rewrite upd_nth_length, pi_len.
      + now rewrite upd_nth_length.
      + intros j Hj. apply nth_upd_nth_neq. intros ->. apply Hj, in_or_app. right. now left.
      + intros _ c Hc. apply in_app_or in Hc as [Hc|[<-|[]]].
        * apply stale_keep. apply D; [discriminate|exact Hc].
        * apply stale_self.
  Qed.

  Lemma best_new_shape t (g : gst cur) :
    sel (snd (best_new cur score t g)) = sel g /\ sst (snd (best_new cur score t g)) = sst g.
  Proof.
    unfold best_new. destruct (amax _) as [[i v]|]; [|auto].
    destruct (has_thr t); [destruct (below t _ v)|]; cbn; auto.
  Qed.

  Lemma run_J re t k : (re <= 1)%nat -> forall g,
    J re (sst g) (sel g) -> J re (sst (fst (cu_run re t k g))) (sel (fst (cu_run re t k g))).
  Proof.
    intros Hre. induction k as [|k IH]; intros g HJ; cbn; [exact HJ|].
    unfold CURWarm.cu_run in *. cbn [run].
    destruct (best_new_shape t g) as (A & B).
    destruct (best_new cur score t g) as [[i|] g1]; cbn [fst snd] in *.
    - apply IH. cbn [post sel sst]. rewrite A, B. now apply J_upd.
    - now rewrite A, B.
  Qed.

  (* ---- the warm-start path ------------------------------------------------------------------ *)
  Lemma reorth_noop re sl0 : forall l x,
    (re <> 0%nat -> forall c, In c l -> stale x c = false) ->
    fold_left (fun x c => if negb (Nat.eqb re 0) && stale x c then orth x sl0 c else x) l x = x.
  Proof.
    induction l as [|c l IH]; intros x H; cbn [fold_left]; [reflexivity|].
    assert (E : negb (Nat.eqb re 0) && stale x c = false).
    { destruct (Nat.eqb re 0) eqn:Er; [reflexivity|]. cbn. apply H; [|now left].
      intros ->. discriminate. }
    rewrite E. apply IH. intros Hr c' Hc'. apply H; [exact Hr|now right].
  Qed.

  (* _continue_greedy_search leaves an object the rest of the session cannot tell from the
     one it started from *)
  Lemma cont_equiv re s sl : J re s sl -> cu_equiv (cu_cont re s) s sl.
  Proof.
    intros (A & B & Cc & D). unfold CURWarm.cu_equiv, CURWarm.cu_cont, CURWarm.cu_reorth.
    cbn [xc cns csl cpi]. rewrite A, reorth_noop by exact D.
    repeat split; try reflexivity; try (now rewrite pi_len); apply agree_sym in Cc; apply Cc.
  Qed.

  Lemma equiv_trans s1 s2 s3 sl : cu_equiv s1 s2 sl -> cu_equiv s2 s3 sl -> cu_equiv s1 s3 sl.
  Proof.
    intros (A & B & Cc & D) (A' & B' & Cc' & D'). unfold CURWarm.cu_equiv.
    repeat split; try congruence; eapply agree_trans; eauto.
  Qed.

  Notation GI := (GInv cur cand ycand CP).

  (* fit(warm_start=True) starts from an object equivalent to the one the previous fit left *)
  Lemma warm_equiv re g h : g_equiv g h -> J re (sst h) (sel h) -> g_equiv (cu_warm re g) h.
  Proof.
    intros (A & B & Cc & D & E1 & E2 & E3 & E4) (J1 & J2 & J3 & J4).
    assert (Hx : cu_reorth re (csl (sst g)) (xc (sst g)) = xc (sst h)).
    { unfold CURWarm.cu_reorth. rewrite E3, J1, E1. apply reorth_noop. exact J4. }
    unfold CURWarm.g_equiv, CURWarm.cu_warm. cbn [sel xsel ysel first sst].
    split; [exact A|]. split; [exact B|]. split; [exact Cc|]. split; [exact D|].
    unfold CURWarm.cu_equiv, CURWarm.cu_cont. cbn [xc cns csl cpi]. rewrite Hx.
    split; [reflexivity|]. split; [exact E2|]. split; [exact E3|].
    rewrite A. apply agree_sym. exact J3.
  Qed.

  Lemma warm_fit_equiv re k g h :
    g_equiv g h -> J re (sst h) (sel h) ->
    g_equiv (cu_warm_fit re k g) (fst (cu_run re NoThr (k - length (sel h)) h)).
  Proof.
    intros Hgh HJ. unfold CURWarm.cu_warm_fit.
    replace (length (sel g)) with (length (sel h)) by (destruct Hgh as (A & _); now rewrite A).
    apply run_equiv. now apply warm_equiv.
  Qed.

  (* THE CHAIN THEOREM, recompute_every in {0,1}: every non-decreasing schedule of warm-started
     fits -- each one running the re-orthogonalisation loop and recomputing the scores -- ends
     with the selections, the stored data, first_score_, the residual matrix and the counters
     of the single fit, and with the same score on every item that is still selectable. *)
  Theorem cur_chain_equals_cold re : (re <= 1)%nat ->
    forall sched g h nr,
      g_equiv g h -> GI h -> J re (sst h) (sel h) ->
      nondecreasing_from (length (sel h)) (sched ++ [nr]) -> (nr <= n)%nat ->
      g_equiv (cu_chain re g (sched ++ [nr])) (fst (cu_run re NoThr (nr - length (sel h)) h)).
  Proof.
    intros Hre. induction sched as [|n1 sched IH]; intros g h nr Hgh HG HJ Hmono Hn; cbn [app] in *.
    - unfold CURWarm.cu_chain. cbn [fold_left]. now apply warm_fit_equiv.
    - destruct Hmono as [Hlo Hrest]. unfold CURWarm.cu_chain in *. cbn [fold_left].
      assert (Hn1 : (n1 <= n)%nat /\ (n1 <= nr)%nat).
      { clear -Hrest Hn. revert n1 Hrest. induction sched as [|x t IHt]; intros n1 H; cbn in H.
        - lia.
        - destruct H as [H1 H2]. specialize (IHt x H2). lia. }
      destruct Hn1 as [Hn1 Hn1r].
      destruct (run_len cur score (cu_upd re) cand ycand CP CP_len (CP_upd re)
                        (n1 - length (sel h)) h HG ltac:(fold n; lia)) as [Hlen HG1].
      pose proof (warm_fit_equiv re n1 g h Hgh HJ) as Hg1.
      pose proof (run_J re NoThr (n1 - length (sel h)) Hre h HJ) as HJ1.
      unfold CURWarm.cu_run in Hg1, HJ1.
      set (h1 := fst (run cur score (cu_upd re) cand ycand NoThr (n1 - length (sel h)) h)) in *.
      specialize (IH (cu_warm_fit re n1 g) h1 nr Hg1 HG1 HJ1).
      rewrite Hlen in IH.
      replace (length (sel h) + (n1 - length (sel h)))%nat with n1 in IH by lia.
      specialize (IH Hrest Hn).
      replace (nr - length (sel h))%nat with ((n1 - length (sel h)) + (nr - n1))%nat by lia.
      unfold CURWarm.cu_run. rewrite (run_add cur score (cu_upd re) cand ycand). exact IH.
  Qed.

  Lemma g_equiv_refl g : g_equiv g g.
  Proof.
    unfold CURWarm.g_equiv, CURWarm.cu_equiv. repeat split; reflexivity.
  Qed.

  Lemma GI_g0 X : GI (cu_g0 X).
  Proof.
    unfold GInv, CURWarm.cu_g0; cbn. repeat split; auto using NoDup_nil.
    apply pi_len.
  Qed.

  (* ... from the very first (cold) fit: cold fit with k0, then any non-decreasing schedule of
     warm-started fits, against the single cold fit with the last value *)
  Theorem cur_fits_equal_cold re X k0 sched nr :
    (re <= 1)%nat -> nondecreasing_from k0 (sched ++ [nr]) -> (nr <= n)%nat ->
    g_equiv (cu_chain re (fst (cu_run re NoThr k0 (cu_g0 X))) (sched ++ [nr]))
            (fst (cu_run re NoThr nr (cu_g0 X))).
  Proof.
    intros Hre Hmono Hn.
    assert (Hk : (k0 <= nr)%nat).
    { clear -Hmono. revert k0 Hmono. induction sched as [|x t IHt]; intros k0 H; cbn in H.
      - lia.
      - destruct H as [H1 H2]. specialize (IHt x H2). lia. }
    destruct (run_len cur score (cu_upd re) cand ycand CP CP_len (CP_upd re) k0 (cu_g0 X) (GI_g0 X)
                      ltac:(cbn; fold n; lia)) as [Hlen HG].
    pose proof (run_J re NoThr k0 Hre (cu_g0 X) (J_cold re X)) as HJ.
    unfold CURWarm.cu_run in *.
    set (h := fst (run cur score (cu_upd re) cand ycand NoThr k0 (cu_g0 X))) in *.
    cbn [CURWarm.cu_g0 sel length Nat.add] in Hlen.
    pose proof (cur_chain_equals_cold re Hre sched h h nr (g_equiv_refl h) HG HJ) as H.
    rewrite Hlen in H. specialize (H Hmono Hn).
    replace nr with (k0 + (nr - k0))%nat at 2 by lia.
    rewrite (run_add cur score (cu_upd re) cand ycand). exact H.
  Qed.

  (* ---- set_params(recompute_every) between two fits ----------------------------------------- *)
  Section Switch.
    (* _CUR._orthogonalize does not read the result buffers *)
    Hypothesis orth_buffers_irrelevant : forall x l l' c, orth x l c = orth x l' c.
    (* projecting out an item that is not stale changes nothing (X_orthogonalizer on a zero column) *)
    Hypothesis orth_noop : forall x l c, stale x c = false -> orth x l c = x.

    Lemma forced_sel re : forall sl g, sel (fold_left (cu_post re) sl g) = sel g ++ sl.
    Proof.
      induction sl as [|i sl IH]; intros g; cbn [fold_left]; [now rewrite app_nil_r|].
      rewrite IH. unfold CURWarm.cu_post, post. cbn [sel]. now rewrite <- app_assoc.
    Qed.

    Lemma forced_csl re : forall sl g,
      csl (sst g) = sel g -> csl (sst (fold_left (cu_post re) sl g)) = sel g ++ sl.
    Proof.
      induction sl as [|i sl IH]; intros g Hc; cbn [fold_left]; [now rewrite app_nil_r|].
      rewrite IH.
      - unfold CURWarm.cu_post, post. cbn [sel]. now rewrite <- app_assoc.
      - unfold CURWarm.cu_post, post, CURWarm.cu_upd. cbn [sel sst csl]. now rewrite Hc.
    Qed.

    Lemma forced_xc re : forall sl g,
      xc (sst (fold_left (cu_post re) sl g))
      = if Nat.eqb re 0 then xc (sst g) else fold_left (fun x c => orth x [] c) sl (xc (sst g)).
    Proof.
      induction sl as [|i sl IH]; intros g; cbn [fold_left]; [now destruct (Nat.eqb re 0)|].
      rewrite IH. unfold CURWarm.cu_post, post, CURWarm.cu_upd. cbn [sst xc].
      destruct (Nat.eqb re 0); [reflexivity|].
      now rewrite (orth_buffers_irrelevant _ (csl (sst g) ++ [i]) []).
    Qed.

    Lemma forced_state re sl g :
      csl (sst g) = sel g ->
      let g' := fold_left (cu_post re) sl g in
      sel g' = sel g ++ sl /\ csl (sst g') = sel g' /\
      xc (sst g') = (if Nat.eqb re 0 then xc (sst g)
                     else fold_left (fun x c => orth x [] c) sl (xc (sst g))).
    Proof.
      intros Hc. cbv zeta. split; [apply forced_sel|]. split; [|apply forced_xc].
      now rewrite forced_csl, forced_sel.
    Qed.

    (* the re-orthogonalisation loop with the guard = the unguarded sequence of projections *)
    Lemma reorth_is_fold sl0 : forall l x,
      fold_left (fun x c => if negb (Nat.eqb 1 0) && stale x c then orth x sl0 c else x) l x
      = fold_left (fun x c => orth x [] c) l x.
    Proof.
      induction l as [|c l IH]; intros x; cbn [fold_left]; [reflexivity|].
      cbn [Nat.eqb negb andb]. rewrite <- IH. f_equal.
      destruct (stale x c) eqn:Es; [apply orth_buffers_irrelevant|].
      symmetry. now apply orth_noop.
    Qed.

    Lemma forced_cpi_len re : forall sl g,
      length (cpi (sst g)) = n -> length (cpi (sst (fold_left (cu_post re) sl g))) = n.
    Proof.
      induction sl as [|i sl IH]; intros g Hg; cbn [fold_left]; [exact Hg|].
      apply IH. unfold CURWarm.cu_post, post, CURWarm.cu_upd. cbn [sst cpi].
      rewrite upd_nth_length. destruct (refresh_due re _); [apply pi_len|exact Hg].
    Qed.

    Lemma forced_cns re : forall sl g,
      cns (sst (fold_left (cu_post re) sl g)) = (cns (sst g) + length sl)%nat.
    Proof.
      induction sl as [|i sl IH]; intros g; cbn [fold_left length]; [lia|].
      rewrite IH. unfold CURWarm.cu_post, post, CURWarm.cu_upd. cbn [sst cns]. lia.
    Qed.

    (* the result buffers do not depend on the scorer's part of the update *)
    Lemma forced_bufs re re' : forall sl (a b : gst cur),
      sel a = sel b -> xsel a = xsel b -> ysel a = ysel b -> first a = first b ->
      sel (fold_left (cu_post re) sl a) = sel (fold_left (cu_post re') sl b) /\
      xsel (fold_left (cu_post re) sl a) = xsel (fold_left (cu_post re') sl b) /\
      ysel (fold_left (cu_post re) sl a) = ysel (fold_left (cu_post re') sl b) /\
      first (fold_left (cu_post re) sl a) = first (fold_left (cu_post re') sl b).
    Proof.
      induction sl as [|i sl IH]; intros a b H1 H2 H3 H4; cbn [fold_left]; [auto|].
      apply IH; unfold CURWarm.cu_post, post; cbn [sel xsel ysel first];
        try (rewrite H1; reflexivity); try (rewrite H2; reflexivity);
        try (rewrite H3; reflexivity); exact H4.
    Qed.

    (* a recompute_every = 1 object holds the scores of its residual, the last pick zeroed *)
    Lemma forced1_cpi X sl i :
      let g := fold_left (cu_post 1) (sl ++ [i]) (cu_g0 X) in
      cpi (sst g) = upd_nth i 0 (pi_of (xc (sst g))).
    Proof.
      cbv zeta. rewrite fold_left_app. cbn [fold_left].
      unfold CURWarm.cu_post at 1 3, post, CURWarm.cu_upd. cbn [sst cpi xc].
      now rewrite refresh_due_1.
    Qed.

    (* SWITCH 0 -> 1: a selector that made its selections [sl] with recompute_every = 0 and is
       then warm-started with recompute_every = 1 continues exactly as a selector with
       recompute_every = 1 that had made the same selections: same residual, same scores on
       every selectable item, hence (run_equiv) the same further selections. *)
    Theorem switch_0_to_1 X sl :
      g_equiv (cu_warm 1 (cu_forced 0 X sl)) (cu_forced 1 X sl).
    Proof.
      unfold CURWarm.cu_forced.
      destruct (forced_state 0 sl (cu_g0 X) eq_refl) as (A0 & B0 & C0).
      destruct (forced_state 1 sl (cu_g0 X) eq_refl) as (A1 & B1 & C1).
      cbv zeta in *. cbn [Nat.eqb] in C0, C1. cbn [sel app CURWarm.cu_g0] in A0, A1.
      destruct (forced_bufs 0 1 sl (cu_g0 X) (cu_g0 X) eq_refl eq_refl eq_refl eq_refl)
        as (S1 & S2 & S3 & S4).
      pose proof (forced_cns 0 sl (cu_g0 X)) as N0. pose proof (forced_cns 1 sl (cu_g0 X)) as N1.
      pose proof (forced_cpi_len 1 sl (cu_g0 X) (pi_len X)) as L1.
      set (g0 := fold_left (cu_post 0) sl (cu_g0 X)) in *.
      set (g1 := fold_left (cu_post 1) sl (cu_g0 X)) in *.
      assert (Hx : cu_reorth 1 (csl (sst g0)) (xc (sst g0)) = xc (sst g1)).
      { unfold CURWarm.cu_reorth. rewrite reorth_is_fold, B0, A0, C0, C1. reflexivity. }
      unfold CURWarm.g_equiv, CURWarm.cu_warm. cbn [sel xsel ysel first sst].
      split; [exact S1|]. split; [exact S2|]. split; [exact S3|]. split; [exact S4|].
      unfold CURWarm.cu_equiv, CURWarm.cu_cont. cbn [xc cns csl cpi]. rewrite Hx.
      split; [reflexivity|]. split; [congruence|]. split; [congruence|].
      split; [now rewrite pi_len, L1|].
      intros j Hj. rewrite A0 in Hj.
      destruct sl as [|i sl _] using rev_ind; [reflexivity|].
      subst g1. rewrite (forced1_cpi X sl i).
      assert (Hji : i <> j) by (intros ->; apply Hj, in_or_app; right; now left).
      now rewrite nth_upd_nth_neq by exact Hji.
    Qed.

    (* ... stated for the fits themselves: a cold fit with recompute_every = 0, then
       set_params(recompute_every=1) and a warm start asking for k *)
    Theorem switch_fit X k0 k :
      let g0 := fst (cu_run 0 NoThr k0 (cu_g0 X)) in
      g_equiv (cu_warm_fit 1 k g0)
              (fst (cu_run 1 NoThr (k - length (sel g0)) (cu_forced 1 X (sel g0)))).
    Proof.
      cbv zeta. unfold CURWarm.cu_warm_fit, CURWarm.cu_run.
      destruct (run_is_fold cur score (cu_upd 0) cand ycand k0 (cu_g0 X)) as (new & H1 & H2).
      cbn [CURWarm.cu_g0 sel app] in H2. rewrite !H1, !H2.
      apply (run_equiv 1 NoThr (k - length new)).
      exact (switch_0_to_1 X new).
    Qed.
  End Switch.
End CURWarmP.

(* ---- an instance of the three laws (non-vacuity): the residual is the vector of squared
   residual norms, projecting an item out zeroes its own entry, scores are the norms -------- *)
Lemma upd_nth_noop c : forall x : list Z, nth c x 0 = 0 -> upd_nth c 0 x = x.
Proof.
  induction c as [|c IH]; intros [|a x] H; cbn in *; try reflexivity; [now subst|].
  f_equal. now apply IH.
Qed.

Definition toy_orth (x : list Z) (_ : list nat) (i : nat) : list Z := upd_nth i 0 x.
Definition toy_stale (x : list Z) (c : nat) : bool := negb (nth c x 0 =? 0).

Lemma toy_stale_self x l i : toy_stale (toy_orth x l i) i = false.
Proof.
  unfold toy_stale, toy_orth. destruct (Nat.ltb i (length x)) eqn:E.
  - apply Nat.ltb_lt in E. now rewrite nth_upd_nth_eq.
  - apply Nat.ltb_ge in E. rewrite nth_overflow; [reflexivity|now rewrite upd_nth_length].
Qed.

Lemma toy_stale_keep x l i c : toy_stale x c = false -> toy_stale (toy_orth x l i) c = false.
Proof.
  unfold toy_stale, toy_orth. intros H. destruct (Nat.eq_dec i c) as [->|Hn].
  - apply (toy_stale_self x l c).
  - now rewrite nth_upd_nth_neq.
Qed.

Lemma toy_orth_noop x l c : toy_stale x c = false -> toy_orth x l c = x.
Proof.
  unfold toy_stale, toy_orth. intros H. apply upd_nth_noop.
  destruct (nth c x 0 =? 0) eqn:E; [now apply Z.eqb_eq|discriminate].
Qed.
