(* Scaling the low-dimensional positions by a non-zero factor does not change which samples
   are lower vertices (specification over Z).  Together with below_combo_affine (target) this
   covers every change of units of the target and of the positions.  Stdlib style. *)
From Verif Require Import ListX ListXP DCH DCHSpecP DCHExt.

Lemma nth_map_mul s : forall (l : list Z) k, nth k (map (Z.mul s) l) 0 = s * nth k l 0.
Proof. induction l as [|a l IH]; intros [|k]; cbn; try lia. apply IH. Qed.

Lemma col_zpscale_0 s P : col (zpscale s P) 0 = col P 0.
Proof. unfold col, zpscale. rewrite map_map. reflexivity. Qed.

Lemma col_zpscale_S s P k : col (zpscale s P) (S k) = map (fun v => s * v + 0) (col P (S k)).
Proof.
  unfold col, zpscale. rewrite !map_map. apply map_ext. intros p. cbn [nth].
  rewrite nth_map_mul. rewrite <- nth_S_tl. lia.
Qed.

Lemma nth_zpscale s P i :
  (i < length P)%nat ->
  nth i (zpscale s P) [] = nth 0 (nth i P []) 0 :: map (Z.mul s) (tl (nth i P [])).
Proof. intros H. unfold zpscale. now apply (nth_map_lt (fun p => nth 0 p 0 :: map (Z.mul s) (tl p))). Qed.

Theorem below_combo_pscale d s P i :
  s <> 0 -> (i < length P)%nat ->
  (below_combo d (zpscale s P) i <-> below_combo d P i).
Proof.
  intros Hs Hi.
  assert (Hlen : length (zpscale s P) = length P) by (unfold zpscale; apply map_length).
  split; intros (w & W & HW & Hl & Hn & Hz & Hsum & Hx & Hy); exists w, W;
    (split; [exact HW|]); (split; [congruence|]); (split; [exact Hn|]); (split; [exact Hz|]);
    (split; [exact Hsum|]); split.
  - intros k Hk. destruct k as [|k]; [lia|]. specialize (Hx (S k) Hk).
    rewrite col_zpscale_S, dot_affine_r, nth_zpscale in Hx by (rewrite ?col_length; congruence).
    cbn [nth] in Hx. rewrite nth_map_mul in Hx. rewrite nth_S_tl.
    apply (Z.mul_reg_l _ _ s Hs). lia.
  - rewrite col_zpscale_0, nth_zpscale in Hy by assumption. exact Hy.
  - intros k Hk. destruct k as [|k]; [lia|]. specialize (Hx (S k) Hk).
    rewrite col_zpscale_S, dot_affine_r, nth_zpscale by (rewrite ?col_length; congruence).
    cbn [nth]. rewrite nth_map_mul. rewrite nth_S_tl in Hx. rewrite Hx. lia.
  - rewrite col_zpscale_0, nth_zpscale by assumption. exact Hy.
Qed.
