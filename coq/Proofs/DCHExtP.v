(* Proofs for Model/DCHExt.v, parts 1 and 4 (over Z and the object state machine).
   Stdlib style. *)
From Coq Require Import QArith.
From Verif Require Import ListX ListXP DCH DCHSpecP DCHChainP DCHExt.

Local Open Scope Z_scope.

(* ================================================================ shared positions *)
(* any number of hull dimensions: a sample with another sample at the same position and a
   target <= its own is not a lower vertex (the other sample alone is the combination) *)
Theorem stacked_not_lower d P i :
  (i < length P)%nat -> stacked_below d P i -> below_combo d P i.
Proof.
  intros Hi (j & Hj & Hne & Hx & Hy).
  apply (witness_combo d P i [j] 1 [1]); try assumption.
  - reflexivity.
  - intros k [<-|[]]. split; assumption.
  - lia.
  - intros a [<-|[]]. lia.
  - reflexivity.
  - intros c Hc. cbn [sumjc]. rewrite nth_col by assumption. rewrite (Hx c Hc). lia.
  - cbn [sumjc]. rewrite nth_col by assumption. lia.
Qed.

Lemma stacked_below_1d_b_spec P i :
  stacked_below_1d_b P i = true <-> stacked_below 1 P i.
Proof.
  unfold stacked_below_1d_b. rewrite existsb_exists. split.
  - intros (j & Hj & E). apply in_seq in Hj.
    apply andb_true_iff in E as [E E3]. apply andb_true_iff in E as [E1 E2].
    apply negb_true_iff, Nat.eqb_neq in E1. apply Z.eqb_eq in E2. apply Z.leb_le in E3.
    exists j. split; [lia|]. split; [exact E1|]. split; [|exact E3].
    intros c Hc. assert (c = 1)%nat as -> by lia. exact E2.
  - intros (j & Hj & Hne & Hx & Hy). exists j. split; [apply in_seq; lia|].
    rewrite !andb_true_iff, negb_true_iff, Nat.eqb_neq, Z.eqb_eq, Z.leb_le.
    split; [split; [exact Hne|apply Hx; lia]|exact Hy].
Qed.

Lemma sumf_le {A} (f g : A -> Z) l : (forall a, In a l -> f a <= g a) -> sumf f l <= sumf g l.
Proof.
  induction l as [|a l IH]; intros H; cbn; [lia|].
  assert (f a <= g a) by (apply H; now left).
  assert (sumf f l <= sumf g l) by (apply IH; intros; apply H; now right). lia.
Qed.

Lemma sumf_nonneg_zero {A} (f : A -> Z) l :
  (forall a, In a l -> 0 <= f a) -> sumf f l <= 0 -> forall a, In a l -> f a = 0.
Proof.
  induction l as [|b l IH]; intros Hn Hs a []; cbn in Hs.
  - subst b. assert (0 <= f a) by (apply Hn; now left).
    assert (0 <= sumf f l).
    { assert (G : sumf (fun _ => 0) l <= sumf f l) by (apply sumf_le; intros; apply Hn; now right).
      assert (Z0 : sumf (fun _ : A => 0) l = 0) by (clear; induction l; cbn; lia). lia. }
    lia.
  - assert (0 <= f b) by (apply Hn; now left).
    assert (0 <= sumf f l).
    { assert (G : sumf (fun _ => 0) l <= sumf f l) by (apply sumf_le; intros; apply Hn; now right).
      assert (Z0 : sumf (fun _ : A => 0) l = 0) by (clear; induction l; cbn; lia). lia. }
    apply IH; [intros; apply Hn; now right|lia|assumption].
Qed.

Lemma sumf_nonneg_pos {A} (f : A -> Z) l x :
  (forall a, In a l -> 0 <= f a) -> In x l -> 0 < f x -> 0 < sumf f l.
Proof.
  intros Hn Hx Hp. destruct (Z_lt_le_dec 0 (sumf f l)) as [|Hle]; [assumption|exfalso].
  pose proof (sumf_nonneg_zero f l Hn Hle x Hx). lia.
Qed.

(* one hull dimension, ANY sample list (positions may repeat): Caratheodory in dimension 1.
   "some convex combination of the other samples at x_i has a target <= y_i"  <=>
   "another sample sits at x_i with a target <= y_i, or two samples straddle x_i with a segment
    passing on or below (x_i, y_i)" *)
Theorem below_combo_1d_any P i :
  (forall p, In p P -> length p = 2%nat) -> (i < length P)%nat ->
  (below_combo 1 P i <->
   stacked_below 1 P i \/ not_lower_1d (map pt1 P) (pt1 (nth i P []))).
Proof.
  intros Hdim Hi. set (xq := nth 1 (nth i P []) 0). set (yq := nth 0 (nth i P []) 0).
  assert (Eq : pt1 (nth i P []) = (xq, yq)) by reflexivity.
  split.
  - intros (w & W & HW & Hl & Hn & Hz & Hs & Hx & Hy).
    destruct (stacked_below_1d_b P i) eqn:ES; [left; now apply stacked_below_1d_b_spec|].
    destruct (not_lower_1d_b (map pt1 P) (pt1 (nth i P []))) eqn:EB;
      [right; now apply not_lower_1d_b_spec|].
    exfalso.
    set (T := combine w P).
    set (U := fun t : Z * list Z => nth 1 (snd t) 0 - xq).
    set (V := fun t : Z * list Z => nth 0 (snd t) 0 - yq).
    set (Wt := fun t : Z * list Z => if U t =? 0 then 0 else fst t).
    assert (Hfst : forall t, In t T -> 0 <= fst t).
    { intros t Ht. destruct (In_nth _ _ (0, []) Ht) as (j & Hj & <-). unfold T.
      rewrite combine_nth by assumption. cbn [fst]. apply Hn. }
    (* a weighted sample at the position of i lies strictly higher *)
    assert (K : forall t, In t T -> 0 < fst t -> U t = 0 -> 0 < V t).
    { intros t Ht Hpos HU. destruct (In_nth _ _ (0, []) Ht) as (j & Hj & E). unfold T in *.
      rewrite combine_nth in E by assumption. subst t. unfold U, V in *. cbn [fst snd] in *.
      rewrite combine_length, Hl, Nat.min_id in Hj.
      assert (Hji : j <> i) by (intros ->; lia).
      unfold stacked_below_1d_b in ES.
      assert (F : forall k, In k (seq 0 (length P)) ->
                  (negb (Nat.eqb k i) && (nth 1 (nth k P []) 0 =? nth 1 (nth i P []) 0) &&
                   (nth 0 (nth k P []) 0 <=? nth 0 (nth i P []) 0))%bool = false).
      { intros k Hk. destruct (negb (Nat.eqb k i) && (nth 1 (nth k P []) 0 =? nth 1 (nth i P []) 0) &&
                   (nth 0 (nth k P []) 0 <=? nth 0 (nth i P []) 0))%bool eqn:Ek; [|reflexivity].
        assert (existsb (fun j0 => negb (Nat.eqb j0 i) && (nth 1 (nth j0 P []) 0 =? nth 1 (nth i P []) 0) &&
                   (nth 0 (nth j0 P []) 0 <=? nth 0 (nth i P []) 0))%bool (seq 0 (length P)) = true).
        { apply existsb_exists. exists k. split; assumption. }
        congruence. }
      specialize (F j ltac:(apply in_seq; lia)).
      apply Nat.eqb_neq in Hji. rewrite Hji in F. cbn [negb andb] in F.
      fold xq yq in F. replace (nth 1 (nth j P []) 0 =? xq) with true in F by (symmetry; apply Z.eqb_eq; lia).
      cbn [andb] in F. apply Z.leb_gt in F. lia. }
    apply (caratheodory_1d_contra Wt U V T).
    + intros t Ht. unfold Wt. destruct (U t =? 0); [lia|now apply Hfst].
    + intros t Ht Hpos. unfold Wt in Hpos. destruct (U t =? 0) eqn:E; [lia|now apply Z.eqb_neq in E].
    + (* the total weight away from x_i is positive *)
      destruct (Z_lt_le_dec 0 (sumf Wt T)) as [|Hle]; [assumption|exfalso].
      assert (Hall0 : forall t, In t T -> Wt t = 0).
      { apply sumf_nonneg_zero; [|exact Hle].
        intros t Ht. unfold Wt. destruct (U t =? 0); [lia|now apply Hfst]. }
      assert (HWT : 0 < sumf fst T) by (unfold T; rewrite sumf_combine_zsum by assumption; lia).
      destruct (sumf_pos_exists fst T HWT) as (t0 & Ht0 & Hw0).
      assert (HU0 : U t0 = 0).
      { specialize (Hall0 t0 Ht0). unfold Wt in Hall0. destruct (U t0 =? 0) eqn:E; [now apply Z.eqb_eq in E|lia]. }
      assert (Hterm : forall t, In t T -> 0 <= fst t * V t).
      { intros t Ht. pose proof (Hfst t Ht). destruct (Z.eq_dec (fst t) 0) as [->|N]; [lia|].
        assert (HUt : U t = 0).
        { specialize (Hall0 t Ht). unfold Wt in Hall0. destruct (U t =? 0) eqn:E; [now apply Z.eqb_eq in E|lia]. }
        pose proof (K t Ht ltac:(lia) HUt). nia. }
      assert (0 < sumf (fun t => fst t * V t) T).
      { apply (sumf_nonneg_pos _ T t0); [exact Hterm|exact Ht0|]. pose proof (K t0 Ht0 Hw0 HU0). nia. }
      assert (sumf (fun t => fst t * V t) T <= 0); [|lia].
      unfold V. rewrite (sumf_ext_in _ (fun t => fst t * nth 0 (snd t) 0 + (- yq) * fst t)) by (intros; lia).
      rewrite sumf_add, sumf_scale. unfold T.
      rewrite sumf_combine_dot, sumf_combine_zsum by assumption. fold yq in Hy. lia.
    + rewrite (sumf_ext_in _ (fun t => fst t * nth 1 (snd t) 0 + (- xq) * fst t)).
      * rewrite sumf_add, sumf_scale. unfold T.
        rewrite sumf_combine_dot, sumf_combine_zsum by assumption.
        rewrite (Hx 1%nat) by lia. fold xq. lia.
      * intros t _. unfold Wt. destruct (U t =? 0) eqn:E.
        -- apply Z.eqb_eq in E. unfold U in *. lia.
        -- unfold U. lia.
    + assert (Hfull : sumf (fun t => fst t * V t) T <= 0).
      { unfold V. rewrite (sumf_ext_in _ (fun t => fst t * nth 0 (snd t) 0 + (- yq) * fst t)) by (intros; lia).
        rewrite sumf_add, sumf_scale. unfold T.
        rewrite sumf_combine_dot, sumf_combine_zsum by assumption. fold yq in Hy. lia. }
      assert (sumf (fun t => Wt t * V t) T <= sumf (fun t => fst t * V t) T); [|lia].
      apply sumf_le. intros t Ht. unfold Wt. destruct (U t =? 0) eqn:E; [|lia].
      apply Z.eqb_eq in E. pose proof (Hfst t Ht).
      destruct (Z.eq_dec (fst t) 0) as [->|N]; [lia|]. pose proof (K t Ht ltac:(lia) E). nia.
    + intros ta tb Hta Htb Ua Ub. cbn beta in *.
      assert (Hpa : In (pt1 (snd ta)) (map pt1 P)).
      { apply in_map. destruct ta as [wa pa]. apply in_combine_r in Hta. exact Hta. }
      assert (Hpb : In (pt1 (snd tb)) (map pt1 P)).
      { apply in_map. destruct tb as [wb pb]. apply in_combine_r in Htb. exact Htb. }
      destruct (Z_lt_le_dec (cross (pt1 (snd ta)) (pt1 (snd tb)) (xq, yq)) 0) as [Hc|Hc].
      * rewrite cross_pt1 in Hc. unfold U, V. lia.
      * exfalso. assert (N : not_lower_1d_b (map pt1 P) (pt1 (nth i P [])) = true); [|congruence].
        unfold not_lower_1d_b. apply existsb_exists. exists (pt1 (snd ta)). split; [assumption|].
        apply existsb_exists. exists (pt1 (snd tb)). split; [assumption|].
        rewrite Eq. rewrite !andb_true_iff, !Z.ltb_lt, Z.leb_le. unfold U, pt1 in *. cbn [fst snd] in *. lia.
  - intros [Hst|(a & b & Ha & Hb & H1 & H2 & H3)]; [now apply stacked_not_lower|].
    apply in_map_iff in Ha as (pa & <- & Ha). apply in_map_iff in Hb as (pb & <- & Hb).
    destruct (In_nth _ _ [] Ha) as (ja & Hja & Ea). destruct (In_nth _ _ [] Hb) as (jb & Hjb & Eb).
    rewrite Eq in *. rewrite cross_pt1 in H3. unfold pt1 in H1, H2. cbn [fst] in H1, H2.
    set (xa := nth 1 pa 0) in *. set (xb := nth 1 pb 0) in *.
    apply (witness_combo 1 P i [ja; jb] (xb - xa) [xb - xq; xq - xa]); try assumption.
    + reflexivity.
    + intros j [<-|[<-|[]]]; (split; [assumption|]); intros ->.
      * rewrite Ea in *. unfold xa, xq in H1. rewrite <- Ea in H1. lia.
      * rewrite Eb in *. unfold xb, xq in H2. rewrite <- Eb in H2. lia.
    + lia.
    + intros c [<-|[<-|[]]]; nia.
    + unfold zsum. cbn. lia.
    + intros c Hc. assert (c = 1)%nat as -> by lia. cbn [sumjc].
      rewrite !nth_col by assumption. rewrite Ea, Eb. fold xa xb xq. ring.
    + cbn [sumjc]. rewrite !nth_col by assumption. rewrite Ea, Eb. fold yq.
      set (ya := nth 0 pa 0) in *. set (yb := nth 0 pb 0) in *. nia.
Qed.

(* the decision procedure is sound AND complete for is_lower_vertex, one hull dimension *)
Theorem lower_vertex_1d_b_spec P i :
  (forall p, In p P -> length p = 2%nat) -> (i < length P)%nat ->
  (lower_vertex_1d_b P i = true <-> is_lower_vertex 1 P i).
Proof.
  intros Hdim Hi. unfold lower_vertex_1d_b, is_lower_vertex.
  rewrite (below_combo_1d_any P i Hdim Hi).
  rewrite andb_true_iff, !negb_true_iff. split.
  - intros [E1 E2] [H|H].
    + apply stacked_below_1d_b_spec in H. congruence.
    + apply not_lower_1d_b_spec in H. congruence.
  - intros N. split.
    + destruct (stacked_below_1d_b P i) eqn:E; [|reflexivity].
      exfalso. apply N. left. now apply stacked_below_1d_b_spec.
    + destruct (not_lower_1d_b (map pt1 P) (pt1 (nth i P []))) eqn:E; [|reflexivity].
      exfalso. apply N. right. now apply not_lower_1d_b_spec.
Qed.

Theorem lower_vertices_1d_spec P :
  (forall p, In p P -> length p = 2%nat) ->
  forall i, In i (lower_vertices_1d P) <-> (i < length P)%nat /\ is_lower_vertex 1 P i.
Proof.
  intros Hdim i. unfold lower_vertices_1d. rewrite filter_In, in_seq. split.
  - intros [Hi E]. assert (Hi' : (i < length P)%nat) by lia. split; [exact Hi'|].
    now apply lower_vertex_1d_b_spec.
  - intros [Hi N]. split; [lia|]. now apply lower_vertex_1d_b_spec.
Qed.

(* ================================================================ the object *)
Local Open Scope nat_scope.

(* a successful fit leaves a state that depends only on the parameters and the data: whatever
   the object went through before (other fits, failed fits, parameter changes), refitting is a
   fresh fit *)
Theorem refit_is_fresh_fit o nfeat fs :
  fit_guard (o_low o) (Z.of_nat nfeat) = Done ->
  obj_fit o nfeat fs = obj_fit (fresh (o_low o) (o_tol o)) nfeat fs.
Proof. intros H. unfold obj_fit, fresh. cbn [o_low o_tol o_high o_hull]. rewrite H. reflexivity. Qed.

(* ... and scoring on it is the function-level model of Model/DCH.v on the lower facets, so
   every theorem of part A applies to the refitted object *)
Theorem score_after_fit o nfeat fs X y :
  fit_guard (o_low o) (Z.of_nat nfeat) = Done ->
  (forall f, In f (lower_facets fs) -> length (fnormal f) = S (length (o_low o))) ->
  let o' := snd (obj_fit o nfeat fs) in
  fst (obj_fit o nfeat fs) = Done /\
  obj_score o' nfeat X y
  = (Done, score_samples (o_tol o) (lower_facets fs) (low_nat (o_low o)) X y).
Proof.
  intros H Hdim. unfold obj_fit. rewrite H. cbn [fst snd]. split; [reflexivity|].
  unfold obj_score. cbn [o_hull o_high o_nfeat o_low o_tol hs_facets]. rewrite Nat.eqb_refl. cbn [negb].
  assert (R : idx_out_of_range nfeat (o_low o) = false).
  { unfold fit_guard in H.
    destruct ((Z.of_nat nfeat <? zmax_list (map Z.abs (o_low o)))%Z && (0 <=? zmin_list (o_low o))%Z)%bool;
      [discriminate|].
    unfold idx_out_of_range.
    destruct (existsb (fun j => ((Z.of_nat nfeat <=? j)%Z || (j <? - Z.of_nat nfeat)%Z)%bool) (o_low o));
      [discriminate|reflexivity]. }
  rewrite R.
  assert (M : dim_mismatch (o_low o) (lower_facets fs) = false).
  { unfold dim_mismatch. destruct (existsb _ (lower_facets fs)) eqn:E; [|reflexivity].
    apply existsb_exists in E as (f & Hf & E). rewrite (Hdim f Hf), Nat.eqb_refl in E. discriminate. }
  rewrite M. reflexivity.
Qed.

(* the guard as written: exactly when it raises ValueError *)
Theorem fit_guard_value_error low nfeat :
  fit_guard low nfeat = ValueErr <->
  (nfeat < zmax_list (map Z.abs low) /\ 0 <= zmin_list low)%Z.
Proof.
  unfold fit_guard.
  destruct ((nfeat <? zmax_list (map Z.abs low))%Z && (0 <=? zmin_list low)%Z)%bool eqn:E.
  - apply andb_true_iff in E as [E1 E2]. apply Z.ltb_lt in E1. apply Z.leb_le in E2. tauto.
  - split.
    + destruct (existsb _ low); discriminate.
    + intros [E1 E2]. apply Z.ltb_lt in E1. apply Z.leb_le in E2. rewrite E1, E2 in E. discriminate.
Qed.

(* quirk of the code as found: a FAILED refit is not atomic -- n_features_in_ is already
   overwritten while the hull is the old one *)
Theorem failed_refit_keeps_hull o nfeat fs :
  fit_guard (o_low o) (Z.of_nat nfeat) = ValueErr \/ fit_guard (o_low o) (Z.of_nat nfeat) = IndexErr ->
  let o' := snd (obj_fit o nfeat fs) in
  fst (obj_fit o nfeat fs) <> Done /\ o_hull o' = o_hull o /\ o_nfeat o' = Some nfeat.
Proof.
  intros H. cbv zeta. unfold obj_fit.
  destruct H as [H|H]; rewrite H; cbn [fst snd o_hull o_nfeat];
    (split; [intros E; discriminate E|split; reflexivity]).
Qed.

(* an object that was never fitted successfully refuses to score *)
Theorem unfitted_refuses low tol ncols X y :
  obj_score (fresh low tol) ncols X y = (NotFitted, []).
Proof. reflexivity. Qed.
