(* Algebra of PCovR over an arbitrary real closed field (ssreflect / mathcomp style).
   Part 1: generic matrix lemmas (diagonal calculus with the guarded scalar functions of
   the model, positive-definiteness of the Frobenius form, uniqueness of the Moore-Penrose
   inverse, functions of a symmetric matrix acting on eigenvectors), then the abstract
   sample-space and feature-space fits.  The programs of Model/PCovR.v are connected to
   these abstract statements in Proofs/PCovRProg.v. *)
From mathcomp Require Import all_ssreflect all_algebra.
From mathcomp Require Import ring.
Set Implicit Arguments.
Unset Strict Implicit.
Unset Printing Implicit Defensive.
Import Order.TTheory GRing.Theory Num.Theory.
Local Open Scope ring_scope.

(* ------------------------------------------------------------------ guarded scalars *)
Section Scalars.
  Variable F : rcfType.
  Variable tol : F.
  Hypothesis tol_ge0 : 0 <= tol.

  Definition g_isq (x : F) : F := if tol < x then (Num.sqrt x)^-1 else 0.
  Definition g_sq (x : F) : F := if tol < x then Num.sqrt x else 0.
  Definition g_inv (x : F) : F := if tol < x then x^-1 else 0.
  Definition g_mk (x : F) : F := if tol < x then 1 else 0.

  Lemma g_pos x : tol < x -> 0 < x.
  Proof. exact: le_lt_trans. Qed.

  Lemma sqrt_sq (x : F) : 0 < x -> Num.sqrt x * Num.sqrt x = x.
  Proof. by move=> x0; rewrite -expr2 sqr_sqrtr // ltW. Qed.

  Lemma sqrt_neq0 (x : F) : 0 < x -> Num.sqrt x != 0.
  Proof. by move=> x0; rewrite gt_eqF // sqrtr_gt0. Qed.

  Lemma g_isq_sq x : g_isq x * g_sq x = g_mk x.
  Proof.
    rewrite /g_isq /g_sq /g_mk; case: ifP => [tx|_]; last by rewrite mul0r.
    by rewrite mulVf // sqrt_neq0 // g_pos.
  Qed.

  Lemma g_sq_isq x : g_sq x * g_isq x = g_mk x.
  Proof. by rewrite mulrC g_isq_sq. Qed.

  Lemma g_sq_sq x : g_sq x * g_sq x = g_mk x * x.
  Proof.
    rewrite /g_sq /g_mk; case: ifP => [tx|_]; last by rewrite !mul0r.
    by rewrite mul1r sqrt_sq // g_pos.
  Qed.

  Lemma g_isq_isq x : g_isq x * g_isq x = g_inv x.
  Proof.
    rewrite /g_isq /g_inv; case: ifP => [tx|_]; last by rewrite mul0r.
    by rewrite -invfM sqrt_sq // g_pos.
  Qed.

  Lemma g_x_isq x : x * g_isq x = g_sq x.
  Proof.
    rewrite /g_isq /g_sq; case: ifP => [tx|_]; last by rewrite mulr0.
    have x0 := g_pos tx.
    by rewrite -{1}(sqrt_sq x0) -mulrA mulfV ?mulr1 // sqrt_neq0.
  Qed.

  Lemma g_isq_x_isq x : g_isq x * x * g_isq x = g_mk x.
  Proof. by rewrite -mulrA g_x_isq g_isq_sq. Qed.

  Lemma g_inv_x x : g_inv x * x = g_mk x.
  Proof.
    rewrite /g_inv /g_mk; case: ifP => [tx|_]; last by rewrite mul0r.
    by rewrite mulVf // gt_eqF // g_pos.
  Qed.

  Lemma g_mk_mk x : g_mk x * g_mk x = g_mk x.
  Proof. by rewrite /g_mk; case: ifP => _; rewrite ?mul1r ?mul0r. Qed.

  Lemma g_mk_isq x : g_mk x * g_isq x = g_isq x.
  Proof. by rewrite /g_mk /g_isq; case: ifP => _; rewrite ?mul1r ?mul0r. Qed.

  Lemma g_mk_sq x : g_mk x * g_sq x = g_sq x.
  Proof. by rewrite /g_mk /g_sq; case: ifP => _; rewrite ?mul1r ?mul0r. Qed.

  Lemma g_mk_ge0 x : 0 <= g_mk x.
  Proof. by rewrite /g_mk; case: ifP => _; rewrite ?ler01 ?lexx. Qed.
End Scalars.

(* ------------------------------------------------------------------ diagonal calculus *)
Section Diag.
  Variable F : rcfType.

  (* diagonal matrix of a function applied to a column vector *)
  Definition dmap (k : nat) (f : F -> F) (v : 'cV[F]_k) : 'M[F]_k := diag_mx (map_mx f v)^T.

  Lemma dmapE k f (v : 'cV[F]_k) i j : dmap f v i j = (f (v i 0)) *+ (i == j).
  Proof. by rewrite /dmap !mxE. Qed.

  Lemma dmap_id k (v : 'cV[F]_k) : diag_mx v^T = dmap id v.
  Proof. by rewrite /dmap; congr (diag_mx _^T); apply/matrixP=> i j; rewrite !mxE. Qed.

  Lemma dmap_tr k f (v : 'cV[F]_k) : (dmap f v)^T = dmap f v.
  Proof. exact: tr_diag_mx. Qed.

  Lemma dmap_mul k f g (v : 'cV[F]_k) : dmap f v *m dmap g v = dmap (fun x => f x * g x) v.
  Proof.
    rewrite /dmap mulmx_diag; congr diag_mx; apply/matrixP=> i j.
    by rewrite !mxE (ord1 i).
  Qed.

  Lemma dmap_ext k f g (v : 'cV[F]_k) : (forall i, f (v i 0) = g (v i 0)) -> dmap f v = dmap g v.
  Proof.
    move=> fg; rewrite /dmap; congr (diag_mx _^T); apply/matrixP=> i j.
    by rewrite !mxE ord1 fg.
  Qed.

  Lemma dmap_1 k (v : 'cV[F]_k) : dmap (fun=> 1) v = 1%:M.
  Proof. by apply/matrixP=> i j; rewrite dmapE !mxE. Qed.

  Lemma mul_mx_dmap m k f (A : 'M[F]_(m, k)) (v : 'cV[F]_k) i j :
    (A *m dmap f v) i j = A i j * f (v j 0).
  Proof. by rewrite /dmap mul_mx_diag !mxE. Qed.

  Lemma mul_dmap_mx m k f (A : 'M[F]_(k, m)) (v : 'cV[F]_k) i j :
    (dmap f v *m A) i j = f (v i 0) * A i j.
  Proof. by rewrite /dmap mul_diag_mx !mxE. Qed.
End Diag.

(* ------------------------------------------------------------------ Frobenius form *)
Section Frobenius.
  Variable F : rcfType.

  Lemma trmx_mul_diag_entry m n (A : 'M[F]_(m, n)) j :
    (A^T *m A) j j = \sum_i A i j ^+ 2.
  Proof. by rewrite mxE; apply: eq_bigr => i _; rewrite mxE expr2. Qed.

  (* A^T A = 0 -> A = 0 *)
  Lemma gram_eq0 m n (A : 'M[F]_(m, n)) : A^T *m A = 0 -> A = 0.
  Proof.
    move=> h; apply/matrixP=> i j; rewrite [RHS]mxE.
    have := trmx_mul_diag_entry A j; rewrite h mxE => /esym/eqP.
    rewrite psumr_eq0 => [/allP/(_ i)|? _]; last exact: sqr_ge0.
    by rewrite mem_index_enum /= sqrf_eq0 => /(_ isT)/eqP.
  Qed.

  Lemma gram_eq0r m n (A : 'M[F]_(m, n)) : A *m A^T = 0 -> A = 0.
  Proof. by move=> h; apply: trmx_inj; rewrite trmx0; apply: gram_eq0; rewrite trmxK. Qed.

  Lemma mxtrace_gram_ge0 m n (A : 'M[F]_(m, n)) : 0 <= \tr (A^T *m A).
  Proof.
    rewrite /mxtrace; apply: sumr_ge0 => j _; rewrite trmx_mul_diag_entry.
    by apply: sumr_ge0 => i _; apply: sqr_ge0.
  Qed.
End Frobenius.

(* ------------------------------------------------------------------ Moore-Penrose *)
Section Penrose.
  Variable F : rcfType.

  Definition penrose m n (A : 'M[F]_(m, n)) (B : 'M[F]_(n, m)) : Prop :=
    [/\ A *m B *m A = A, B *m A *m B = B, (A *m B)^T = A *m B & (B *m A)^T = B *m A].

  (* the four Penrose equations determine B *)
  Lemma penrose_unique m n (A : 'M[F]_(m, n)) (B C : 'M[F]_(n, m)) :
    penrose A B -> penrose A C -> B = C.
  Proof.
    move=> [b1 b2 b3 b4] [c1 c2 c3 c4].
    have h1 : A *m B = A *m B *m (A *m C).
      by apply: trmx_inj; rewrite b3 trmx_mul c3 b3 mulmxA c1.
    have e1 : A *m B = A *m C by rewrite h1 mulmxA b1.
    have h2 : B *m A = C *m A *m (B *m A).
      by apply: trmx_inj; rewrite b4 trmx_mul b4 c4 -mulmxA (mulmxA A C A) c1.
    have e2 : B *m A = C *m A by rewrite h2 -mulmxA (mulmxA A B A) b1.
    by rewrite -b2 e2 -mulmxA e1 mulmxA c2.
  Qed.
End Penrose.

(* ------------------------------------------------------------------ sample space *)
Section SampleSpace.
  Variable F : rcfType.
  Variables (n m p k : nat).
  Variables (X : 'M[F]_(n, m)) (Y Yh : 'M[F]_(n, p)) (W : 'M[F]_(m, p)) (a tol : F).
  Variables (V : 'M[F]_(n, k)) (S : 'cV[F]_k).

  (* pcovr_kernel, P, T, projectors, exactly in the association order of the code *)
  Definition s_Kt : 'M[F]_n := ((1 - a) *: Yh) *m Yh^T + (a *: X) *m X^T.
  Definition s_P : 'M[F]_(m, n) := a *: X^T + ((1 - a) *: W) *m Yh^T.
  Definition s_T : 'M[F]_(n, k) := V *m dmap (g_isq tol) S.
  Definition s_pxt : 'M[F]_(m, k) := s_P *m s_T.
  Definition s_ptx : 'M[F]_(k, m) := s_T^T *m X.
  Definition s_pty : 'M[F]_(k, p) := s_T^T *m Y.

  Lemma s_Kt_sym : s_Kt^T = s_Kt.
  Proof.
    by rewrite /s_Kt linearD /= !trmx_mul !trmxK !linearZ /= -!scalemxAl.
  Qed.

  Lemma s_Kt_alt : s_Kt = a *: (X *m X^T) + (1 - a) *: (Yh *m Yh^T).
  Proof. by rewrite /s_Kt addrC -!scalemxAl. Qed.

  Hypothesis tol_ge0 : 0 <= tol.
  Hypothesis HW : Yh = X *m W.
  Hypothesis HV1 : V^T *m V = 1%:M.
  Hypothesis HV2 : s_Kt *m V = V *m diag_mx S^T.

  Lemma s_XP : X *m s_P = s_Kt.
  Proof.
    by rewrite /s_P /s_Kt mulmxDr addrC -scalemxAr scalemxAl mulmxA -scalemxAr -HW.
  Qed.

  (* the latent coordinates of the training set: T = X P_XT = V S^(1/2) *)
  Lemma s_scores : X *m s_pxt = V *m dmap (g_sq tol) S.
  Proof.
    rewrite /s_pxt mulmxA s_XP /s_T mulmxA HV2 -mulmxA dmap_id dmap_mul.
    by congr (_ *m _); apply: dmap_ext => i; exact: g_x_isq.
  Qed.

  Lemma s_roundtrip : s_ptx *m s_pxt = dmap (g_mk tol) S.
  Proof.
    rewrite /s_ptx -mulmxA s_scores /s_T trmx_mul dmap_tr -mulmxA (mulmxA V^T) HV1 mul1mx.
    by rewrite dmap_mul; apply: dmap_ext => i; exact: g_isq_sq.
  Qed.

  Lemma s_orth : (X *m s_pxt)^T *m (X *m s_pxt) = dmap (fun x => g_mk tol x * x) S.
  Proof.
    rewrite s_scores trmx_mul dmap_tr -mulmxA (mulmxA V^T) HV1 mul1mx dmap_mul.
    by apply: dmap_ext => i; exact: g_sq_sq.
  Qed.

  Lemma s_scores_eig : s_Kt *m (X *m s_pxt) = (X *m s_pxt) *m diag_mx S^T.
  Proof.
    rewrite s_scores mulmxA HV2 -!mulmxA; congr (_ *m _).
    by rewrite dmap_id !dmap_mul; apply: dmap_ext => i; rewrite mulrC.
  Qed.

  Lemma s_reconstruct : X *m s_pxt *m s_ptx = V *m dmap (g_mk tol) S *m V^T *m X.
  Proof.
    rewrite s_scores /s_ptx /s_T trmx_mul dmap_tr !mulmxA -(mulmxA V) dmap_mul.
    by congr (_ *m _ *m _ *m _); apply: dmap_ext => i; exact: g_sq_isq.
  Qed.

  Lemma s_predict : X *m s_pxt *m s_pty = V *m dmap (g_mk tol) S *m V^T *m Y.
  Proof.
    rewrite s_scores /s_pty /s_T trmx_mul dmap_tr !mulmxA -(mulmxA V) dmap_mul.
    by congr (_ *m _ *m _ *m _); apply: dmap_ext => i; exact: g_sq_isq.
  Qed.
End SampleSpace.

(* ------------------------------------------------------------------ feature space *)
Section FeatureSpace.
  Variable F : rcfType.
  Variables (n m p k : nat).
  Variables (X : 'M[F]_(n, m)) (Y Yh : 'M[F]_(n, p)) (W : 'M[F]_(m, p)) (a tol : F).
  Variables (UC : 'M[F]_m) (vC : 'cV[F]_m).
  Variables (V : 'M[F]_(m, k)) (S : 'cV[F]_k) (Csq : 'M[F]_m).

  (* a function of X^T X through its eigen-decomposition *)
  Fact fc_key : unit. Proof. by []. Qed.
  Definition fc : (F -> F) -> 'M[F]_m :=
    locked_with fc_key (fun f => UC *m dmap f vC *m UC^T).
  Canonical fc_unlockable := [unlockable fun fc].
  Lemma fcE f : fc f = UC *m dmap f vC *m UC^T.
  Proof. by rewrite unlock. Qed.

  Definition f_A : 'M[F]_m := fc (g_isq tol).                       (* C^(-1/2) *)
  Definition f_CY : 'M[F]_(m, p) := f_A *m (X^T *m Yh).
  Definition f_Ct : 'M[F]_m := (1 - a) *: (f_CY *m f_CY^T) + a *: (X^T *m X).
  Definition f_pxt : 'M[F]_(m, k) := f_A *m V *m dmap (g_sq tol) S.
  Definition f_ptx : 'M[F]_(k, m) := dmap (g_isq tol) S *m V^T *m Csq.
  Definition f_pty : 'M[F]_(k, p) := dmap (g_isq tol) S *m V^T *m f_A *m X^T *m Y.
  (* the orthonormal eigenvectors of K~ induced by those of C~ *)
  Definition f_U : 'M[F]_(n, k) := X *m f_A *m V.

  Hypothesis tol_ge0 : 0 <= tol.
  Hypothesis HUC1 : UC^T *m UC = 1%:M.
  Hypothesis HUC2 : X^T *m X *m UC = UC *m diag_mx vC^T.
  (* the eigenvalues discarded by rcond are exactly zero: rcond separates rank from noise *)
  Hypothesis Hrank : forall i, vC i 0 <= tol -> vC i 0 = 0.

  Lemma UCUCt : UC *m UC^T = 1%:M.
  Proof. exact: mulmx1C. Qed.

  Lemma fc_mul f g : fc f *m fc g = fc (fun x => f x * g x).
  Proof.
    by rewrite !fcE !mulmxA -(mulmxA _ UC^T UC) HUC1 mulmx1 -(mulmxA UC) dmap_mul.
  Qed.

  Lemma fc_tr f : (fc f)^T = fc f.
  Proof. by rewrite !fcE !trmx_mul trmxK dmap_tr mulmxA. Qed.

  Lemma fc_ext f g : (forall i, f (vC i 0) = g (vC i 0)) -> fc f = fc g.
  Proof. by move=> fg; rewrite !fcE (dmap_ext fg). Qed.

  Lemma fc_comm f g : fc f *m fc g = fc g *m fc f.
  Proof. by rewrite !fc_mul; apply: fc_ext => i; rewrite mulrC. Qed.

  Lemma XtX_fc : X^T *m X = fc id.
  Proof. by rewrite fcE -dmap_id -HUC2 -mulmxA UCUCt mulmx1. Qed.

  Lemma mk_vC i : g_mk tol (vC i 0) * vC i 0 = vC i 0.
  Proof.
    rewrite /g_mk; case: ifP => [_|/negbT]; first by rewrite mul1r.
    by rewrite -leNgt => /Hrank ->; rewrite mulr0.
  Qed.

  (* the projector onto the row space of X *)
  Definition f_Pi : 'M[F]_m := fc (g_mk tol).

  Lemma Pi_XtX : f_Pi *m (X^T *m X) = X^T *m X.
  Proof. by rewrite XtX_fc fc_mul; apply: fc_ext => i; exact: mk_vC. Qed.

  Lemma Pi_A : f_Pi *m f_A = f_A.
  Proof. by rewrite fc_mul; apply: fc_ext => i; exact: g_mk_isq. Qed.

  Lemma A_Pi : f_A *m f_Pi = f_A.
  Proof. by rewrite fc_comm Pi_A. Qed.

  Lemma A_XtX_A : f_A *m (X^T *m X) *m f_A = f_Pi.
  Proof. by rewrite XtX_fc !fc_mul; apply: fc_ext => i; exact: g_isq_x_isq. Qed.

  Lemma A_A_XtX : f_A *m f_A *m (X^T *m X) = f_Pi.
  Proof.
    rewrite XtX_fc !fc_mul; apply: fc_ext => i.
    by rewrite mulrAC g_isq_x_isq.
  Qed.

  Lemma XtX_Pi : (X^T *m X) *m f_Pi = X^T *m X.
  Proof. by rewrite XtX_fc /f_Pi fc_comm -XtX_fc Pi_XtX. Qed.

  Lemma X_Pi : X *m f_Pi = X.
  Proof.
    apply/eqP; rewrite -subr_eq0; apply/eqP; apply: gram_eq0.
    have -> : X *m f_Pi - X = X *m (f_Pi - 1%:M) by rewrite mulmxBr mulmx1.
    rewrite trmx_mul mulmxA -(mulmxA _ X^T X) -mulmxA.
    by rewrite [X in _ *m X]mulmxBr XtX_Pi mulmx1 subrr mulmx0.
  Qed.

  (* np.linalg.lstsq(C^-1/2, I) is the Moore-Penrose inverse of C^-1/2: it is C^(1/2) *)
  Hypothesis HCsq : penrose f_A Csq.

  Lemma penrose_fc : penrose f_A (fc (g_sq tol)).
  Proof.
    split; rewrite ?fc_mul ?fc_tr //.
    - by rewrite /f_A; apply: fc_ext => i; rewrite g_isq_sq // g_mk_isq.
    - by apply: fc_ext => i; rewrite g_sq_isq // g_mk_sq.
  Qed.

  Lemma Csq_fc : Csq = fc (g_sq tol).
  Proof. exact: penrose_unique HCsq penrose_fc. Qed.

  Lemma Csq_A : Csq *m f_A = f_Pi.
  Proof. by rewrite Csq_fc fc_mul; apply: fc_ext => i; exact: g_sq_isq. Qed.

  Hypothesis HW : Yh = X *m W.
  Hypothesis HV1 : V^T *m V = 1%:M.
  Hypothesis HV2 : f_Ct *m V = V *m diag_mx S^T.

  Lemma f_Ct_alt : f_Ct = a *: (X^T *m X) + (1 - a) *: (f_A *m X^T *m Yh *m Yh^T *m X *m f_A).
  Proof.
    rewrite /f_Ct /f_CY addrC; congr (_ + _ *: _).
    by rewrite trmx_mul [f_A^T]fc_tr trmx_mul trmxK !mulmxA.
  Qed.

  Lemma f_Ct_sym : f_Ct^T = f_Ct.
  Proof.
    by rewrite /f_Ct linearD /= !linearZ /= !trmx_mul !trmxK.
  Qed.

  Lemma Pi_Ct : f_Pi *m f_Ct = f_Ct.
  Proof.
    rewrite /f_Ct mulmxDr -!scalemxAr Pi_XtX; congr (_ *: _ + _).
    by rewrite /f_CY !mulmxA Pi_A.
  Qed.

  (* retained eigenvectors of C~ lie in the row space of X *)
  Lemma Pi_V f : (forall i, f (S i 0) = g_mk tol (S i 0) * f (S i 0)) ->
    f_Pi *m V *m dmap f S = V *m dmap f S.
  Proof.
    move=> hf.
    have -> : dmap f S = diag_mx S^T *m dmap (fun x => g_inv tol x * f x) S.
      rewrite dmap_id dmap_mul; apply: dmap_ext => i.
      by rewrite /= mulrA [_ * g_inv _ _]mulrC g_inv_x.
    by rewrite !mulmxA -(mulmxA f_Pi) -HV2 mulmxA Pi_Ct.
  Qed.

  Lemma f_roundtrip : f_ptx *m f_pxt = dmap (g_mk tol) S.
  Proof.
    rewrite /f_ptx /f_pxt !mulmxA -(mulmxA _ Csq) Csq_A -!mulmxA (mulmxA f_Pi).
    rewrite Pi_V; last by move=> i; rewrite g_mk_sq.
    rewrite (mulmxA V^T) HV1 mul1mx dmap_mul.
    by apply: dmap_ext => i; exact: g_isq_sq.
  Qed.

  Lemma f_scores : X *m f_pxt = f_U *m dmap (g_sq tol) S.
  Proof. by rewrite /f_pxt /f_U !mulmxA. Qed.

  Lemma f_UtU_Pi : f_U^T *m f_U = V^T *m f_Pi *m V.
  Proof.
    rewrite /f_U !trmx_mul [f_A^T]fc_tr -!mulmxA.
    by rewrite (mulmxA X^T) (mulmxA f_A) (mulmxA (f_A *m _)) A_XtX_A mulmxA.
  Qed.

  Lemma f_UtU f : (forall i, f (S i 0) = g_mk tol (S i 0) * f (S i 0)) ->
    f_U^T *m f_U *m dmap f S = dmap f S.
  Proof.
    move=> hf; rewrite f_UtU_Pi -!mulmxA (mulmxA f_Pi) Pi_V //.
    by rewrite mulmxA HV1 mul1mx.
  Qed.

  Lemma f_orth : (X *m f_pxt)^T *m (X *m f_pxt) = dmap (fun x => g_mk tol x * x) S.
  Proof.
    rewrite f_scores trmx_mul dmap_tr -mulmxA (mulmxA f_U^T) f_UtU.
      by rewrite dmap_mul; apply: dmap_ext => i; exact: g_sq_sq.
    by move=> i; rewrite g_mk_sq.
  Qed.

  (* intertwining of the modified Gram matrix and the modified covariance *)
  Lemma X_A_A_XtYh : X *m f_A *m f_A *m X^T *m Yh = Yh.
  Proof.
    by rewrite HW !mulmxA -(mulmxA _ X^T X) -(mulmxA X) -(mulmxA X) A_A_XtX X_Pi.
  Qed.

  Lemma intertwine : s_Kt X Yh a *m (X *m f_A) = X *m f_A *m f_Ct.
  Proof.
    rewrite s_Kt_alt f_Ct_alt mulmxDl mulmxDr -!scalemxAl -!scalemxAr; congr (_ *: _ + _ *: _).
    - rewrite -(mulmxA X X^T) (mulmxA X^T) -(mulmxA X f_A); congr (X *m _).
      by rewrite XtX_fc /f_A fc_comm.
    - rewrite (mulmxA (X *m f_A)) (mulmxA (X *m f_A)) (mulmxA (X *m f_A)).
      by rewrite (mulmxA (X *m f_A)) (mulmxA (X *m f_A)) X_A_A_XtYh !mulmxA.
  Qed.

  Lemma f_U_eig : s_Kt X Yh a *m f_U = f_U *m diag_mx S^T.
  Proof. by rewrite /f_U mulmxA intertwine -!mulmxA HV2. Qed.

  Lemma f_scores_eig : s_Kt X Yh a *m (X *m f_pxt) = (X *m f_pxt) *m diag_mx S^T.
  Proof.
    rewrite f_scores mulmxA f_U_eig -(mulmxA f_U) -(mulmxA f_U); congr (f_U *m _).
    by rewrite dmap_id !dmap_mul; apply: dmap_ext => i; rewrite mulrC.
  Qed.

  Lemma Vt_Csq : V^T *m Csq = f_U^T *m X.
  Proof.
    rewrite /f_U !trmx_mul fc_tr -!mulmxA XtX_fc fc_mul Csq_fc; congr (_ *m _).
    by apply: fc_ext => i; rewrite mulrC g_x_isq.
  Qed.

  Lemma dmap_sq_isq : dmap (fun x => g_sq tol x * g_isq tol x) S = dmap (g_mk tol) S.
  Proof. by apply: dmap_ext => i; exact: g_sq_isq. Qed.

  Lemma f_reconstruct : X *m f_pxt *m f_ptx = f_U *m dmap (g_mk tol) S *m f_U^T *m X.
  Proof.
    rewrite f_scores /f_ptx -(mulmxA _ V^T) Vt_Csq.
    rewrite (mulmxA (f_U *m _)) (mulmxA _ f_U^T X) -(mulmxA f_U) dmap_mul.
    by rewrite dmap_sq_isq.
  Qed.

  Lemma f_Ut : f_U^T = V^T *m f_A *m X^T.
  Proof. by rewrite /f_U !trmx_mul [f_A^T]fc_tr mulmxA. Qed.

  Lemma f_pty_alt : f_pty = dmap (g_isq tol) S *m f_U^T *m Y.
  Proof. by rewrite /f_pty f_Ut !mulmxA. Qed.

  Lemma f_predict : X *m f_pxt *m f_pty = f_U *m dmap (g_mk tol) S *m f_U^T *m Y.
  Proof.
    rewrite f_scores f_pty_alt.
    rewrite (mulmxA (f_U *m _)) (mulmxA (f_U *m _)) -(mulmxA f_U) dmap_mul.
    by rewrite dmap_sq_isq.
  Qed.

  (* a function of X^T X acts on its eigenvectors through the eigenvalues *)
  Lemma fc_eig k' (V' : 'M[F]_(m, k')) (S' : 'cV[F]_k') f :
    (X^T *m X) *m V' = V' *m diag_mx S'^T -> fc f *m V' = V' *m dmap f S'.
  Proof.
    move=> h; set Z := UC^T *m V'.
    have hZ : dmap id vC *m Z = Z *m dmap id S'.
      rewrite /Z mulmxA -!dmap_id.
      have -> : diag_mx vC^T *m UC^T = UC^T *m (X^T *m X).
        by rewrite XtX_fc fcE !mulmxA HUC1 mul1mx dmap_id.
      by rewrite -(mulmxA UC^T) h mulmxA.
    have hfZ : dmap f vC *m Z = Z *m dmap f S'.
      apply/matrixP=> i j; rewrite mul_dmap_mx mul_mx_dmap.
      move/matrixP/(_ i j): hZ; rewrite mul_dmap_mx mul_mx_dmap => e.
      have [->|z0] := eqVneq (Z i j) 0; first by rewrite mulr0 mul0r.
      have -> : vC i 0 = S' j 0 by apply: (mulIf z0); rewrite e mulrC.
      by rewrite mulrC.
    by rewrite fcE -mulmxA -(mulmxA UC) -/Z hfZ mulmxA /Z mulmxA UCUCt mul1mx.
  Qed.
End FeatureSpace.

(* ------------------------------------------------------------------ top-k uniqueness *)
(* Two orthonormal families of eigenvectors of a symmetric matrix for the same eigenvalues
   S, separated from the remaining spectrum, span the same invariant subspace: every
   "function of the retained part" U f(S) U^T coincides.  The remaining eigenvectors
   (Uc, Sc) are a hypothesis (their existence is the spectral theorem, not derived here). *)
Section TopK.
  Variable F : rcfType.
  Variables (n k r : nat) (K : 'M[F]_n).
  Variables (U1 U2 : 'M[F]_(n, k)) (S : 'cV[F]_k) (Uc : 'M[F]_(n, r)) (Sc : 'cV[F]_r).
  Hypothesis Ksym : K^T = K.
  Hypothesis H11 : U1^T *m U1 = 1%:M.
  Hypothesis H12 : K *m U1 = U1 *m diag_mx S^T.
  Hypothesis H21 : U2^T *m U2 = 1%:M.
  Hypothesis H22 : K *m U2 = U2 *m diag_mx S^T.
  Hypothesis Hc2 : K *m Uc = Uc *m diag_mx Sc^T.
  Hypothesis Hcomplete : U1 *m U1^T + Uc *m Uc^T = 1%:M.
  Hypothesis Hgap : forall i j, Sc i 0 != S j 0.

  Let R : 'M[F]_k := U1^T *m U2.

  Lemma tr_eig m' (U : 'M[F]_(n, m')) (d : 'rV[F]_m') :
    K *m U = U *m diag_mx d -> U^T *m K = diag_mx d *m U^T.
  Proof. by move=> h; rewrite -{1}Ksym -trmx_mul h trmx_mul tr_diag_mx. Qed.

  Lemma topk_Z0 : Uc^T *m U2 = 0.
  Proof.
    set Z := Uc^T *m U2.
    have hZ : diag_mx Sc^T *m Z = Z *m diag_mx S^T.
      by rewrite /Z mulmxA -(tr_eig Hc2) -!mulmxA H22.
    apply/matrixP=> i j; move/matrixP/(_ i j): hZ.
    rewrite mul_diag_mx mul_mx_diag !mxE [X in _ = X]mulrC => /eqP.
    by rewrite -subr_eq0 -mulrBl mulf_eq0 subr_eq0 (negbTE (Hgap i j)) /= => /eqP.
  Qed.

  Lemma topk_U2 : U2 = U1 *m R.
  Proof.
    by rewrite /R mulmxA -[LHS]mul1mx -Hcomplete mulmxDl -(mulmxA Uc) topk_Z0 mulmx0 addr0.
  Qed.

  Lemma topk_RtR : R^T *m R = 1%:M.
  Proof. by rewrite /R trmx_mul trmxK -mulmxA -/R -topk_U2. Qed.

  Lemma topk_RRt : R *m R^T = 1%:M.
  Proof. exact: mulmx1C topk_RtR. Qed.

  Lemma topk_comm f : dmap f S *m R = R *m dmap f S.
  Proof.
    have hR : diag_mx S^T *m R = R *m diag_mx S^T.
      by rewrite /R mulmxA -(tr_eig H12) -!mulmxA H22.
    apply/matrixP=> i j; rewrite mul_dmap_mx mul_mx_dmap.
    move/matrixP/(_ i j): hR; rewrite dmap_id mul_dmap_mx mul_mx_dmap => h.
    have [->|r0] := eqVneq (R i j) 0; first by rewrite mulr0 mul0r.
    have -> : S i 0 = S j 0.
      by apply: (mulIf r0); rewrite h mulrC.
    by rewrite mulrC.
  Qed.

  Lemma topk_aux f (Q : 'M[F]_k) :
    U2 = U1 *m Q -> Q *m Q^T = 1%:M -> dmap f S *m Q = Q *m dmap f S ->
    U2 *m dmap f S *m U2^T = U1 *m dmap f S *m U1^T.
  Proof.
    move=> -> hQ hc.
    by rewrite trmx_mul !mulmxA -(mulmxA U1) -hc (mulmxA U1) -(mulmxA _ Q) hQ mulmx1.
  Qed.

  Theorem topk_unique f : U2 *m dmap f S *m U2^T = U1 *m dmap f S *m U1^T.
  Proof. exact: (topk_aux topk_U2 topk_RRt (topk_comm f)). Qed.
End TopK.
