(* C11 (extension, round 3) — further facts about Model/ScalerMx.v (ssreflect / mathcomp).
   Part 1: complete functional form of transform for all flag / weight combinations.
   Part 2: rows of weight zero are ignored; the overall factor of the weights is irrelevant.
   Part 3: rescaling by |a| >= 1 is accepted whenever the original is; shrinking may be
           rejected (witness).
   Part 4: prior shift without centring; standardising twice = standardising once. *)
From mathcomp Require Import all_ssreflect all_algebra.
From mathcomp Require Import ring.
From Verif Require Import MExp MExpMx MxBox MxBoxP Scaler ScalerMx ScalerP.
Set Implicit Arguments.
Unset Strict Implicit.
Unset Printing Implicit Defensive.
Import Order.Theory GRing.Theory Num.Theory.
Local Open Scope ring_scope.

(* ---- weighted statistics depend on the data only through rows of non-zero weight -------- *)
Section Support.
  Variable F : rcfType.
  Variables (n p : nat) (u : 'cV[F]_n) (A B : 'M[F]_(n, p)).
  Hypothesis agree : forall i, u i ord0 != 0 -> forall j, A i j = B i j.

  Lemma wmean_eq_on_support : wmean u A = wmean u B.
  Proof.
    apply/rowP => j; rewrite !mxE; congr (_ / _); apply: eq_bigr => i _.
    by case: (eqVneq (u i ord0) 0) => [->|/agree ->//]; rewrite !mul0r.
  Qed.
End Support.

Lemma wvar_eq_on_support (F : rcfType) (n p : nat) (u : 'cV[F]_n) (A B : 'M[F]_(n, p)) :
  (forall i, u i ord0 != 0 -> forall j, A i j = B i j) -> wvar u A = wvar u B.
Proof.
  move=> H; rewrite !wvarE (wmean_eq_on_support H); apply: wmean_eq_on_support => i /H e j.
  by rewrite !mxE e.
Qed.

(* t + u <= v,  |a| >= 1   ==>   t + |a| u <= a^2 v      (t, u >= 0) *)
Lemma rescale_bound (F : rcfType) (a t u v : F) :
  1 <= `|a| -> 0 <= t -> 0 <= u -> t + u <= v -> t + `|a| * u <= a ^+ 2 * v.
Proof.
  move=> a1 t0 u0 H.
  have a0 : 0 <= `|a| by apply: normr_ge0.
  have a2 : `|a| <= a ^+ 2.
    by rewrite -real_normK ?num_real // expr2 -{1}[`|a|]mul1r ler_wpmul2r.
  have a21 : 1 <= a ^+ 2 by apply: le_trans a1 a2.
  have : a ^+ 2 * (t + u) <= a ^+ 2 * v by rewrite ler_wpmul2l // sqr_ge0.
  apply: le_trans; rewrite mulrDr ler_add //.
    by rewrite -{1}[t]mul1r ler_wpmul2r.
  by rewrite ler_wpmul2r.
Qed.

Section Ext.
  Variable F : rcfType.
  Variables (cfg : sc_cfg) (n d : nat).
  Variables (rtol atol : F) (X : 'M[F]_(n, d)) (w : 'cV[F]_n).
  Let ew := sc_effw cfg w.
  Hypothesis ok : sc_wok cfg w.

  (* Part 1: every entry of transform(Y), for every flag combination, weighted or not *)
  Lemma sc_transform_formula st k (Y : 'M[F]_(k, d)) i j :
    sc_fit_mx cfg rtol atol X w = Some st ->
    (sc_transform_mx st Y) i j
    = (Y i j - (if with_mean cfg then (wmean ew X) ord0 j else 0))
      / (if with_std cfg then
           if column_wise cfg then Num.sqrt ((wvar ew X) ord0 j)
           else Num.sqrt (\sum_l (wvar ew X) ord0 l)
         else 1).
  Proof.
    move=> fitS; have [n1 S0 g e1 e2] := fit_some ok fitS.
    rewrite sc_transform_mx_ij e1 e2 /mean_of /scale_of.
    by case: (with_mean cfg); case: (with_std cfg); case: (column_wise cfg); rewrite !mxE.
  Qed.

  (* Part 2a: rows whose sample weight is zero do not influence the fit at all *)
  Lemma sc_zero_weight_rows (X' : 'M[F]_(n, d)) :
    has_w cfg -> (forall i, w i ord0 != 0 -> forall j, X i j = X' i j) ->
    sc_fit_mx cfg rtol atol X w = sc_fit_mx cfg rtol atol X' w.
  Proof.
    move=> hw H; rewrite !sc_fit_mxE // /sc_effw hw.
    by rewrite (wmean_eq_on_support H) (wvar_eq_on_support H).
  Qed.

  (* Part 2b: only the ratios of the sample weights matter *)
  Lemma sc_weight_scale (a : F) :
    has_w cfg -> a != 0 ->
    sc_fit_mx cfg rtol atol X (a *: w) = sc_fit_mx cfg rtol atol X w.
  Proof.
    move=> hw a0; have S0 : wsum w != 0 by move: ok; rewrite /sc_wok hw.
    have ok' : sc_wok cfg (a *: w) by rewrite /sc_wok hw /= wsum_scale mulf_neq0.
    by rewrite !sc_fit_mxE // /sc_effw hw !wvarE !wmean_scale_w.
  Qed.

  (* Part 3: a prior rescaling by |a| >= 1 never turns an accepted fit into a rejected one *)
  Lemma sc_rescale_accepted st (a : F) :
    sc_fit_mx cfg rtol atol X w = Some st -> 1 <= `|a| -> 0 <= atol -> 0 <= rtol ->
    isSome (sc_fit_mx cfg rtol atol (a *: X) w).
  Proof.
    move=> fitS a1 t0 r0; have [n1 S0 g e1 e2] := fit_some ok fitS.
    rewrite sc_fit_mxE // wmean_rescale // wvar_rescale // /fit_of ltnNge n1 /=.
    suff -> : guard_of cfg rtol atol (a *: wmean ew X) (a ^+ 2 *: wvar ew X) = false by [].
    move: (wmean ew X) (wvar ew X) g => m v.
    rewrite /guard_of; case ws: (with_std cfg) => //.
    case: (column_wise cfg).
      rewrite negb_exists => /forallP H; apply/negbTE; rewrite negb_exists; apply/forallP => j.
      have := H j; rewrite -!leNgt [(a *: m) _ _]mxE [(_ *: v) _ _]mxE normrM -mulrA => Hj.
      by apply: rescale_bound => //; rewrite mulr_ge0.
    rewrite -!leNgt => H; apply/negbTE; rewrite -leNgt.
    have -> : \sum_j (a ^+ 2 *: v) ord0 j = a ^+ 2 * \sum_j v ord0 j.
      by rewrite mulr_sumr; apply: eq_bigr => j _; rewrite mxE.
    have -> : \sum_j (a *: m) ord0 j = a * \sum_j m ord0 j.
      by rewrite mulr_sumr; apply: eq_bigr => j _; rewrite mxE.
    rewrite -mulrA normrM addrC -mulrA.
    apply: rescale_bound => //; first by rewrite mulr_ge0.
    by rewrite addrC.
  Qed.

  (* Part 4a: a prior shift with centring OFF: the transformed data moves by c / scale_ *)
  Lemma sc_shift_nocenter st st' (c : 'rV[F]_d) :
    ~~ with_mean cfg ->
    sc_fit_mx cfg rtol atol X w = Some st ->
    sc_fit_mx cfg rtol atol (X + rows_of n c) w = Some st' ->
    forall k (Y : 'M[F]_(k, d)) i j,
      (sc_transform_mx st' (Y + rows_of k c)) i j
      = (sc_transform_mx st Y) i j + c ord0 j / st.2 ord0 j.
  Proof.
    move=> /negbTE wm fitS fitS' k Y i j; have [n1 S0 g e1 e2] := fit_some ok fitS.
    have [_ _ g' e1' e2'] := fit_some ok fitS'.
    move: e2'; rewrite wvar_shift // -e2 => e2'.
    rewrite !sc_transform_mx_ij e2' e1' e1 /mean_of wm !mxE !subr0.
    by rewrite mulrDl.
  Qed.
End Ext.

(* Part 4b: with centring and scaling on, the standardised training data is already
   standardised: fitting again on it (same flags, same weights, atol <= 1) gives mean_ = 0,
   scale_ = 1, so the second transform is the identity. *)
Section Idempotent.
  Variable F : rcfType.
  Variables (cfg : sc_cfg) (n d : nat).
  Variables (rtol atol : F) (X : 'M[F]_(n, d)) (w : 'cV[F]_n).
  Variable st : 'rV[F]_d * 'rV[F]_d.
  Hypothesis ok : sc_wok cfg w.
  Hypothesis fitS : sc_fit_mx cfg rtol atol X w = Some st.

  Lemma sc_refit_standardised :
    with_mean cfg -> with_std cfg -> 0 < atol -> atol <= 1 -> 0 <= rtol ->
    sc_fit_mx cfg rtol atol (sc_transform_mx st X) w
    = Some (0, if column_wise cfg then const_mx 1 else const_mx (Num.sqrt 1)).
  Proof.
    move=> wm ws a0 a1 r0; have [n1 S0 g e1 e2] := fit_some ok fitS.
    rewrite sc_fit_mxE // (sc_mean_zero ok fitS wm a0 r0) /fit_of ltnNge n1 /=.
    rewrite /guard_of /mean_of /scale_of wm ws.
    case cw: (column_wise cfg).
      rewrite (sc_unit_variance_columnwise ok fitS ws cw a0 r0).
      have -> : [exists j, (const_mx 1 : 'rV[F]_d) ord0 j
                           < atol + `|(0 : 'rV[F]_d) ord0 j| * rtol] = false.
        apply/negbTE; rewrite negb_exists; apply/forallP => j.
        by rewrite !mxE normr0 mul0r addr0 -leNgt.
      by congr (Some (_, _)); apply/rowP => j; rewrite !mxE sqrtr1.
    rewrite (sc_unit_total_variance ok fitS ws (negbT cw) a0 r0).
    have -> : \sum_j (0 : 'rV[F]_d) ord0 j = 0.
      by rewrite big1 // => j _; rewrite mxE.
    by rewrite mul0r normr0 mul0r add0r ltNge a1.
  Qed.

  Lemma sc_idempotent st2 k (Y : 'M[F]_(k, d)) :
    with_mean cfg -> with_std cfg -> 0 < atol -> atol <= 1 -> 0 <= rtol ->
    sc_fit_mx cfg rtol atol (sc_transform_mx st X) w = Some st2 ->
    sc_transform_mx st2 (sc_transform_mx st Y) = sc_transform_mx st Y.
  Proof.
    move=> wm ws a0 a1 r0; rewrite (sc_refit_standardised wm ws a0 a1 r0) => -[<-].
    apply/matrixP => i j; rewrite sc_transform_mx_ij /=.
    by case: (column_wise cfg); rewrite !mxE ?sqrtr1 subr0 divr1.
  Qed.
End Idempotent.

Lemma sc_idempotent_ex (F : rcfType) (cfg : sc_cfg) (n d : nat) (rtol atol : F)
      (X : 'M[F]_(n, d)) (w : 'cV[F]_n) (st : 'rV[F]_d * 'rV[F]_d) :
  sc_wok cfg w -> sc_fit_mx cfg rtol atol X w = Some st ->
  with_mean cfg -> with_std cfg -> 0 < atol -> atol <= 1 -> 0 <= rtol ->
  exists st2, sc_fit_mx cfg rtol atol (sc_transform_mx st X) w = Some st2
    /\ forall (k : nat) (Y : 'M[F]_(k, d)),
         sc_transform_mx st2 (sc_transform_mx st Y) = sc_transform_mx st Y.
Proof.
  move=> ok fitS wm ws a0 a1 r0.
  exists (0, if column_wise cfg then const_mx 1 else const_mx (Num.sqrt 1)).
  split; first exact: sc_refit_standardised.
  move=> k Y; apply: (sc_idempotent ok fitS) => //; exact: sc_refit_standardised.
Qed.

(* ---- witness: shrinking the data CAN turn an accepted fit into a rejected one (so the
        hypothesis `both fits accepted` of C11_rescale_sign is not redundant, and
        [sc_rescale_accepted] is sharp in the direction |a| >= 1) ------------------------- *)
Lemma sc_rescale_down_rejected (F : rcfType) :
  let X : 'M[F]_(2, 1) := \matrix_(i, j) (i : nat)%:R *+ 2 in
  let cfg := ScCfg true true true false in
  isSome (sc_fit_mx cfg 0 (2%:R^-1) X 0)
  /\ sc_fit_mx cfg 0 (2%:R^-1) (2%:R^-1 *: X) 0 = None.
Proof.
  move=> X cfg; have [_ e] := sc_nonvacuous F; split; first by rewrite e.
  have ok : sc_wok cfg (0 : 'cV[F]_2) by [].
  have [n1 S0 g e1 e2] := fit_some ok e.
  have two : (2%:R : F) != 0 by rewrite pnatr_eq0.
  rewrite sc_fit_mxE // wmean_rescale // wvar_rescale // /fit_of /= /guard_of /=.
  have v1 : (wvar (sc_effw cfg 0) X) ord0 ord0 = 1.
    have := sc_scale_bounded ok e (erefl : with_std cfg) (_ : 0 <= 2%:R^-1) (lexx 0).
    by rewrite invr_ge0 ler0n /= => /(_ isT ord0) [<- _]; rewrite mxE expr1n.
  suff -> : [exists j, (2%:R^-1 ^+ 2 *: wvar (sc_effw cfg 0) X) ord0 j
                       < 2%:R^-1 + `|(2%:R^-1 *: wmean (sc_effw cfg 0) X) ord0 j| * 0] by [].
  apply/existsP; exists ord0; rewrite mxE v1 mulr1 mulr0 addr0.
  by rewrite expr2 -{3}[2%:R^-1]mulr1 ltr_pmul2l ?invr_gt0 ?ltr0n // invf_lt1 ?ltr0n // ltr1n.
Qed.
