(* C01: theorems about Model/Select.v (GreedySelector.fit with an arbitrary scorer). *)
From Verif Require Import ListX Greedy Select ListXP GreedyP.
From Coq Require Import Sorting.Permutation Sorting.Sorted.

Section SelectP.
  Variable cand : list (list Z).
  Variable ycand : option (list (list Z)).
  Let n := length cand.

  Definition SP (s : stream) : Prop := Forall (fun v => length v = n) s.

  Lemma SP_len s : SP s -> length (s_score n s) = n.
  Proof.
    intros H. destruct s as [|v s]; cbn; [apply repeat_length|]. now inversion H.
  Qed.

  Lemma SP_upd s i : SP s -> (i < n)%nat -> SP (s_upd s i).
  Proof. intros H _. destruct s as [|v s]; cbn; [constructor|]. now inversion H. Qed.

  Notation GI := (GInv stream cand ycand SP).

  (* initial selections: the state after the cold-start initialisation *)
  Lemma init_state inits : forall g,
    let g1 := fold_left (s_post cand ycand) inits g in
    sel g1 = sel g ++ inits /\
    xsel g1 = xsel g ++ map (fun i => nth i cand []) inits /\
    (forall y, ycand = Some y -> ysel g1 = ysel g ++ map (fun i => nth i y []) inits) /\
    sst g1 = skipn (length inits) (sst g) /\ first g1 = first g.
  Proof.
    induction inits as [|i r IH]; intros g; cbn.
    - rewrite !app_nil_r. repeat split; auto.
    - destruct (IH (s_post cand ycand g i)) as (A & B & Cc & D & E).
      cbn [s_post post sel xsel ysel sst first] in *.
      rewrite A, B, D, E, <- !app_assoc. repeat split; auto.
      + intros y Hy. rewrite (Cc y Hy), Hy, <- app_assoc. reflexivity.
      + unfold s_upd. destruct (sst g); cbn; [now rewrite skipn_nil|reflexivity].
  Qed.

  Lemma cold_init_inv inits str :
    NoDup inits -> Forall (fun i => (i < n)%nat) inits -> SP str ->
    GI (fold_left (s_post cand ycand) inits
                  (mk_gst [] [] [] (repeat [] (length inits) ++ str) None)).
  Proof.
    intros Hnd Hr Hs.
    destruct (init_state inits (mk_gst [] [] [] (repeat [] (length inits) ++ str) None))
      as (A & B & Cc & D & _). cbn in A, B, Cc, D.
    unfold GInv. split; [rewrite A; exact Hnd|]. split; [rewrite A; exact Hr|].
    split; [rewrite A, B; reflexivity|]. split; [intros y Hy; rewrite A; exact (Cc y Hy)|].
    rewrite D. rewrite skipn_app, skipn_all2 by (rewrite repeat_length; lia).
    rewrite repeat_length, Nat.sub_diag. exact Hs.
  Qed.

  Lemma pop_inv g st g' st' : GI g -> s_pop (g, st) = (g', st') -> GI g' /\ sel g' = sel g /\ st' = st.
  Proof.
    unfold s_pop. intros HG H. destruct st; injection H as <- <-; [|auto].
    split; [|auto]. destruct HG as (A & B & Cc & D & E). unfold GInv; cbn. repeat split; auto.
    destruct (sst g); cbn; [constructor|now inversion E].
  Qed.

  Lemma with_stream_inv g str : GI g -> SP str -> GI (with_stream g str).
  Proof. intros (A & B & Cc & D & _) Hs. unfold GInv, with_stream; cbn. auto. Qed.

  (* ---- the main facts about one successful fit ----------------------------------------- *)
  Definition prev_ok (prev : option (gst stream)) : Prop :=
    match prev with Some g => GI g | None => True end.

  Theorem sfit_inv prev c inits str g st :
    prev_ok prev -> NoDup inits -> Forall (fun i => (i < n)%nat) inits -> SP str ->
    sfit cand ycand prev c inits str = Fitted g st -> GI g.
  Proof.
    intros Hp Hnd Hr Hs. unfold sfit. fold n.
    destruct (c_full c && has_thr (c_thr c)); [discriminate|].
    destruct (resolve_n n (c_nts c)) as [k|]; [|discriminate].
    destruct (c_warm c).
    - destruct prev as [g0|]; [|discriminate].
      destruct (Nat.eqb (length (sel g0)) 0); [discriminate|].
      destruct (s_run cand ycand (c_thr c) (k - length (sel g0)) (with_stream g0 str)) as [g1 st1] eqn:Er.
      destruct (s_pop (g1, st1)) as [g2 st2] eqn:Ep. intros H; injection H as <- <-.
      assert (G0 : GI (with_stream g0 str)) by (apply with_stream_inv; assumption).
      assert (G1 : GI g1) by (eapply (run_inv stream _ _ cand ycand SP SP_len SP_upd); eauto).
      eapply pop_inv; eauto.
    - match goal with |- context [s_run _ _ _ _ ?g0] => set (gi := g0) end.
      destruct (s_run cand ycand (c_thr c) (k - length inits) gi) as [g1 st1] eqn:Er.
      destruct (s_pop (g1, st1)) as [g2 st2] eqn:Ep. intros H; injection H as <- <-.
      assert (G0 : GI gi) by (apply cold_init_inv; assumption).
      assert (G1 : GI g1) by (eapply (run_inv stream _ _ cand ycand SP SP_len SP_upd); eauto).
      eapply pop_inv; eauto.
  Qed.

  (* number of selections: exactly the resolved n_to_select unless the threshold stopped *)
  Theorem sfit_length prev c inits str g st k :
    prev_ok prev -> NoDup inits -> Forall (fun i => (i < n)%nat) inits -> SP str ->
    sfit cand ycand prev c inits str = Fitted g st ->
    resolve_n n (c_nts c) = Some k ->
    (n_before prev c inits <= k)%nat ->
    (length (sel g) <= k)%nat /\ (st = false -> length (sel g) = k).
  Proof.
    intros Hp Hnd Hr Hs. unfold sfit. fold n.
    destruct (c_full c && has_thr (c_thr c)); [discriminate|].
    intros H Hk. rewrite Hk in H. revert H. unfold n_before.
    destruct (c_warm c).
    - destruct prev as [g0|]; [|discriminate].
      destruct (Nat.eqb (length (sel g0)) 0); [discriminate|].
      destruct (s_run cand ycand (c_thr c) (k - length (sel g0)) (with_stream g0 str)) as [g1 st1] eqn:Er.
      destruct (s_pop (g1, st1)) as [g2 st2] eqn:Ep. intros H Hle; injection H as <- <-.
      assert (G0 : GI (with_stream g0 str)) by (apply with_stream_inv; assumption).
      destruct (run_extends stream _ _ cand ycand SP SP_len SP_upd _ _ _ _ _ G0 Er) as (new & Hn & Hl & Hst).
      cbn [with_stream sel] in Hn.
      assert (G1 : GI g1) by (eapply (run_inv stream _ _ cand ycand SP SP_len SP_upd); eauto).
      destruct (pop_inv _ _ _ _ G1 Ep) as (_ & Hsel & ->). rewrite Hsel, Hn, app_length.
      split; [lia|]. intros E. rewrite (Hst E). lia.
    - match goal with |- context [s_run _ _ _ _ ?g0] => set (gi := g0) end.
      destruct (s_run cand ycand (c_thr c) (k - length inits) gi) as [g1 st1] eqn:Er.
      destruct (s_pop (g1, st1)) as [g2 st2] eqn:Ep. intros H Hle; injection H as <- <-.
      assert (G0 : GI gi) by (apply cold_init_inv; assumption).
      destruct (run_extends stream _ _ cand ycand SP SP_len SP_upd _ _ _ _ _ G0 Er) as (new & Hn & Hl & Hst).
      assert (G1 : GI g1) by (eapply (run_inv stream _ _ cand ycand SP SP_len SP_upd); eauto).
      destruct (pop_inv _ _ _ _ G1 Ep) as (_ & Hsel & ->).
      destruct (init_state inits (mk_gst [] [] [] (repeat [] (length inits) ++ str) None)) as (A & _).
      fold gi in A. cbn in A. rewrite Hsel, Hn, A, app_length.
      split; [lia|]. intros E. rewrite (Hst E). lia.
  Qed.

  (* ---- transform: the masked columns are the candidates at the sorted selected indices -- *)
  Lemma filter_mask_map (f : nat -> bool) (l : list (list Z)) k0 :
    filter_mask (map f (seq k0 (length l))) l
    = map (fun i => nth (i - k0) l []) (filter f (seq k0 (length l))).
  Proof.
    revert k0; induction l as [|a l IH]; intros k0; cbn; [reflexivity|].
    destruct (f k0); cbn.
    - rewrite Nat.sub_diag. f_equal. rewrite IH. apply map_ext_in. intros i Hi.
      apply filter_In in Hi as [Hi _]. apply in_seq in Hi.
      replace (i - k0)%nat with (S (i - S k0)) by lia. reflexivity.
    - rewrite IH. apply map_ext_in. intros i Hi.
      apply filter_In in Hi as [Hi _]. apply in_seq in Hi.
      replace (i - k0)%nat with (S (i - S k0)) by lia. reflexivity.
  Qed.

  Lemma sorted_filter_seq f k0 m : StronglySorted lt (filter f (seq k0 m)).
  Proof.
    revert k0; induction m as [|m IH]; intros k0; cbn; [constructor|].
    destruct (f k0); [|apply IH]. constructor; [apply IH|].
    apply Forall_forall. intros x Hx. apply filter_In in Hx as [Hx _]. apply in_seq in Hx. lia.
  Qed.

  (* two strictly increasing lists with the same elements are equal *)
  Lemma strictly_sorted_unique (l m : list nat) :
    StronglySorted lt l -> StronglySorted lt m -> (forall x, In x l <-> In x m) -> l = m.
  Proof.
    revert m; induction l as [|a l IH]; intros m Hl Hm Heq.
    - destruct m as [|b m]; [reflexivity|]. exfalso. apply (proj2 (Heq b)). now left.
    - destruct m as [|b m]; [exfalso; apply (proj1 (Heq a)); now left|].
      inversion Hl as [|? ? Hl' Ha]; inversion Hm as [|? ? Hm' Hb]; subst.
      rewrite Forall_forall in Ha, Hb.
      assert (a = b).
      { destruct (proj1 (Heq a) (or_introl eq_refl)) as [E|E]; [now symmetry|].
        destruct (proj2 (Heq b) (or_introl eq_refl)) as [E'|E']; [assumption|].
        specialize (Ha _ E'). specialize (Hb _ E). lia. }
      subst b. f_equal. apply IH; try assumption.
      intros x. split; intros Hx.
      + destruct (proj1 (Heq x) (or_intror Hx)) as [E|E]; [|assumption].
        subst x. specialize (Ha _ Hx). lia.
      + destruct (proj2 (Heq x) (or_intror Hx)) as [E|E]; [|assumption].
        subst x. specialize (Hb _ Hx). lia.
  Qed.

  Lemma sorted_nodup_strict (l : list nat) : Sorted le l -> NoDup l -> StronglySorted lt l.
  Proof.
    intros Hs Hn. apply Sorted_StronglySorted in Hs; [|intros x y z; lia].
    induction l as [|a l IH]; [constructor|].
    inversion Hs as [|? ? Hs' Ha]; inversion Hn as [|? ? Hna Hn']; subst.
    constructor; [now apply IH|]. rewrite Forall_forall in *. intros x Hx.
    specialize (Ha _ Hx). assert (x <> a) by (intros ->; contradiction). lia.
  Qed.

  Theorem transform_spec s :
    NoDup s -> Forall (fun i => (i < n)%nat) s ->
    transform_cols cand s = map (fun i => nth i cand []) (support_indices s).
  Proof.
    intros Hnd Hr. unfold transform_cols, support. fold n. unfold n.
    rewrite filter_mask_map.
    rewrite (strictly_sorted_unique (filter (fun i => memb i s) (seq 0 (length cand))) (support_indices s)).
    - apply map_ext. intros i. now rewrite Nat.sub_0_r.
    - apply sorted_filter_seq.
    - apply sorted_nodup_strict; [apply sort_nat_sorted|].
      eapply Permutation_NoDup; [apply sort_nat_perm|exact Hnd].
    - intros x. rewrite filter_In, in_seq, memb_In. split.
      + intros [_ Hx]. eapply Permutation_in; [apply sort_nat_perm|exact Hx].
      + intros Hx. assert (Hx' : In x s).
        { eapply Permutation_in; [apply Permutation_sym, sort_nat_perm|exact Hx]. }
        split; [|exact Hx']. rewrite Forall_forall in Hr. specialize (Hr _ Hx'). fold n. lia.
  Qed.
End SelectP.
