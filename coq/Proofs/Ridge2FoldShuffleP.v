(* The shuffled KFold split (Model/Ridge2FoldShuffle.v): for every permutation of the sample
   indices the two folds partition the samples, fold 2 consists of the first h entries of the
   permutation, the sizes are h and n - h.  Stdlib style. *)
From Coq Require Import ZArith List Bool Arith Lia Permutation.
From Verif Require Import MExp Ridge2Fold Ridge2FoldFit Ridge2FoldFitListP Ridge2FoldShuffle.
Import ListNotations.

Lemma memb_In i l : memb i l = true <-> In i l.
Proof.
  unfold memb; rewrite existsb_exists; split.
  - intros (x & Hx & E); apply Nat.eqb_eq in E; now subst.
  - intros H; exists i; split; [assumption | apply Nat.eqb_refl].
Qed.

Lemma filter_partition (A : Type) (f : A -> bool) (l : list A) :
  Permutation (filter f l ++ filter (fun x => negb (f x)) l) l.
Proof.
  induction l as [|x l IH]; cbn [filter]; [constructor|].
  destruct (f x); cbn [negb app].
  - now constructor.
  - apply Permutation_sym, Permutation_cons_app, Permutation_sym, IH.
Qed.

Lemma NoDup_firstn (A : Type) (n : nat) (l : list A) : NoDup l -> NoDup (firstn n l).
Proof.
  revert n; induction l as [|x l IH]; intros [|n] H; cbn [firstn]; try constructor.
  - inversion H as [|? ? Hx Hl]; subst. intro Hin; apply Hx.
    rewrite <- (firstn_skipn n l); apply in_or_app; now left.
  - apply IH; now inversion H.
Qed.

Section Shuffled.
  Variables (n k : nat) (perm : list nat).
  Hypothesis Hk : 2 <= k.
  Hypothesis Hn : k <= n.
  Hypothesis Hperm : Permutation perm (seq 0 n).
  Let h := kfold_h n k.
  Let top := firstn h perm.
  Let f1 := fst (kfold_first_shuffled n k perm).
  Let f2 := snd (kfold_first_shuffled n k perm).

  Lemma shuffled_partition : Permutation (f2 ++ f1) (seq 0 n).
  Proof. unfold f1, f2, kfold_first_shuffled; cbn [fst snd]. apply filter_partition. Qed.

  Lemma top_in_range i : In i top -> In i (seq 0 n).
  Proof.
    intros H; apply (Permutation_in _ Hperm).
    rewrite <- (firstn_skipn h perm); apply in_or_app; now left.
  Qed.

  Lemma shuffled_fold2_members i : In i f2 <-> In i top.
  Proof.
    unfold f2, kfold_first_shuffled; cbn [snd]; fold h; fold top.
    rewrite filter_In, memb_In; split; [tauto|].
    intros H; split; [now apply top_in_range | assumption].
  Qed.

  Lemma shuffled_fold1_members i : In i f1 <-> (i < n /\ ~ In i top).
  Proof.
    unfold f1, kfold_first_shuffled; cbn [fst]; fold h; fold top.
    rewrite filter_In, in_seq, negb_true_iff, <- not_true_iff_false, memb_In. intuition lia.
  Qed.

  Lemma shuffled_sizes : length f2 = h /\ length f1 = n - h.
  Proof.
    destruct (kfold_h_spec n k Hk Hn) as (H1 & H2 & H3 & H4); fold h in H1, H2, H3, H4.
    assert (Ln : length perm = n) by (rewrite (Permutation_length Hperm); apply seq_length).
    assert (L2 : length f2 = h).
    { assert (ND2 : NoDup f2).
      { unfold f2, kfold_first_shuffled; cbn [snd]. apply NoDup_filter, seq_NoDup. }
      assert (NDt : NoDup top).
      { apply NoDup_firstn. apply (Permutation_NoDup (Permutation_sym Hperm)), seq_NoDup. }
      rewrite (Permutation_length (NoDup_Permutation ND2 NDt shuffled_fold2_members)).
      unfold top; apply firstn_length_le; lia. }
    split; [assumption|].
    pose proof (Permutation_length shuffled_partition) as L.
    rewrite app_length, seq_length in L. lia.
  Qed.
End Shuffled.

(* the first yield of KFold(k, shuffle=True).split for the permutation [perm] drawn by the
   random state: a partition of the samples; fold 2 = the first h = ceil(n/k) entries of the
   permutation, fold 1 = the remaining samples; sizes h and n - h; both listed in ascending
   order (they are filters of 0, 1, ..., n-1) *)
Lemma kfold_first_shuffled_spec n k perm : 2 <= k -> k <= n -> Permutation perm (seq 0 n) ->
  let h := kfold_h n k in
  let f1 := fst (kfold_first_shuffled n k perm) in
  let f2 := snd (kfold_first_shuffled n k perm) in
  Permutation (f2 ++ f1) (seq 0 n) /\
  (forall i, In i f2 <-> In i (firstn h perm)) /\
  (forall i, In i f1 <-> i < n /\ ~ In i (firstn h perm)) /\
  length f2 = h /\ length f1 = n - h /\
  (exists g, f2 = filter g (seq 0 n)) /\ (exists g, f1 = filter g (seq 0 n)).
Proof.
  intros Hk Hn Hp h f1 f2.
  destruct (shuffled_sizes n k perm Hk Hn Hp) as (L2 & L1).
  split; [eapply shuffled_partition; eassumption|].
  split; [intro i; eapply shuffled_fold2_members; eassumption|].
  split; [intro i; eapply shuffled_fold1_members; eassumption|].
  split; [exact L2|]. split; [exact L1|].
  split; eexists; reflexivity.
Qed.
