(* Proofs about Model/PCovRFit.v (layer D: control flow and shape book-keeping of PCovR.fit).
   stdlib style. *)
From Coq Require Import ZArith QArith List Bool Lia Arith.
Import ListNotations.
From Verif Require Import PCovRFit.

(* ---- control flow ------------------------------------------------------------------------ *)
Section Ctrl.
  Variables n m : nat.
  Local Open Scope Z_scope.

  (* what an integer n_components has to satisfy, given how the solver is resolved *)
  Definition int_ok (sv : solver) (z : Z) : Prop :=
    match fit_solver n m sv (VInt z) with
    | SvFull => 0 <= z <= mn n m
    | SvRandomized => 1 <= z <= mn n m
    | SvArpack => 1 <= z < mn n m
    | _ => False
    end.

  Lemma fit_solver_arpack sv v : fit_solver n m sv v = SvArpack <-> sv = SvArpack.
  Proof.
    destruct sv; cbn [fit_solver]; try (split; congruence).
    destruct (Nat.max n m <=? 500)%nat; [split; congruence|].
    destruct v as [z|q|]; [| |split; congruence].
    - destruct ((1 <=? z) && (5 * z <? 4 * mn n m)); split; congruence.
    - destruct (Qle_bool 1 q && Qltb (5 * q) (inject_Z (4 * mn n m))); split; congruence.
  Qed.

  Lemma fit_solver_never_auto sv v : fit_solver n m sv v <> SvAuto.
  Proof.
    destruct sv; cbn [fit_solver]; try congruence.
    destruct (Nat.max n m <=? 500)%nat; [congruence|].
    destruct v as [z|q|]; [| |congruence].
    - destruct ((1 <=? z) && (5 * z <? 4 * mn n m)); congruence.
    - destruct (Qle_bool 1 q && Qltb (5 * q) (inject_Z (4 * mn n m))); congruence.
  Qed.

  (* fit on an integer n_components: accepted exactly when ..., and then with these values *)
  Theorem fit_ctrl_int_accepts z sv sp rg :
    sp <> SpOther -> rg <> RgOther -> int_ok sv z ->
    fit_ctrl n m (NCInt z) sv sp rg
    = Ok (mk_ctrl (Z.to_nat z) (fit_solver n m sv (VInt z)) (fit_space n m sp)).
  Proof.
    intros Hsp Hrg Hok. unfold fit_ctrl, int_ok in *. cbn [resolve_nc].
    destruct sp; try congruence; destruct rg; try congruence;
      (destruct (fit_solver n m sv (VInt z)) eqn:Hfs; try contradiction; cbn [obind guard_full guard_trunc];
       [ replace ((0 <=? z) && (z <=? mn n m)) with true by (symmetry; apply andb_true_intro; split; apply Z.leb_le; lia);
         reflexivity
       | replace ((1 <=? z) && (z <=? mn n m)) with true by (symmetry; apply andb_true_intro; split; apply Z.leb_le; lia);
         replace (z =? mn n m) with false by (symmetry; apply Z.eqb_neq; lia);
         rewrite andb_false_r; reflexivity
       | replace ((1 <=? z) && (z <=? mn n m)) with true by (symmetry; apply andb_true_intro; split; apply Z.leb_le; lia);
         assert (Hsv : sv <> SvArpack) by (intro E; apply (fit_solver_arpack sv (VInt z)) in E; congruence);
         destruct sv; try congruence; reflexivity ]).
  Qed.

  Theorem fit_ctrl_int_rejects z sv sp rg c :
    fit_ctrl n m (NCInt z) sv sp rg = Ok c ->
    sp <> SpOther /\ rg <> RgOther /\ int_ok sv z.
  Proof.
    unfold fit_ctrl, int_ok. cbn [resolve_nc]. intros H.
    destruct sp; try discriminate; destruct rg; try discriminate;
      (split; [discriminate|split; [discriminate|]]);
      (destruct (fit_solver n m sv (VInt z)) eqn:Hfs; try discriminate;
       cbn [obind guard_full guard_trunc] in H;
       [ destruct ((0 <=? z) && (z <=? mn n m)) eqn:E; cbn in H; try discriminate;
         apply andb_prop in E; destruct E as [E1 E2]; apply Z.leb_le in E1; apply Z.leb_le in E2; lia
       | apply (fit_solver_arpack sv (VInt z)) in Hfs; subst sv;
         destruct ((1 <=? z) && (z <=? mn n m)) eqn:E; cbn in H; try discriminate;
         destruct (z =? mn n m) eqn:E3; cbn in H; try discriminate;
         apply andb_prop in E; destruct E as [E1 E2]; apply Z.leb_le in E1; apply Z.leb_le in E2;
         apply Z.eqb_neq in E3; lia
       | destruct ((1 <=? z) && (z <=? mn n m)) eqn:E; cbn in H; try discriminate;
         apply andb_prop in E; destruct E as [E1 E2]; apply Z.leb_le in E1; apply Z.leb_le in E2; lia ]).
  Qed.

  (* which error, in the order the code tests: space, regressor, solver, n_components *)
  Theorem fit_ctrl_error_order nc sv sp rg :
    (sp = SpOther -> fit_ctrl n m nc sv sp rg = Err ErrSpace)
    /\ (sp <> SpOther -> rg = RgOther -> fit_ctrl n m nc sv sp rg = Err ErrRegressor)
    /\ (sp <> SpOther -> rg <> RgOther -> sv = SvOther -> fit_ctrl n m nc sv sp rg = Err ErrSolver).
  Proof.
    split; [intros ->; reflexivity|split].
    - intros Hs ->. destruct sp; try congruence; reflexivity.
    - intros Hs Hr ->. destruct sp; try congruence; destruct rg; try congruence; reflexivity.
  Qed.

  (* every k of the property's quantifier (1 <= k <= min(n, m)) is accepted by the solvers
     'auto', 'full', 'randomized', and by 'arpack' iff k < min(n, m); n_components_ = k *)
  Theorem fit_ctrl_quantifier (k : nat) sv sp rg :
    (1 <= k <= Nat.min n m)%nat -> sp <> SpOther -> rg <> RgOther ->
    sv = SvAuto \/ sv = SvFull \/ sv = SvRandomized \/ (sv = SvArpack /\ (k < Nat.min n m)%nat) ->
    exists fs, fit_ctrl n m (NCInt (Z.of_nat k)) sv sp rg = Ok (mk_ctrl k fs (fit_space n m sp))
               /\ fs <> SvAuto /\ fs <> SvOther /\ (sv <> SvAuto -> fs = sv).
  Proof.
    intros Hk Hsp Hrg Hsv.
    exists (fit_solver n m sv (VInt (Z.of_nat k))).
    assert (Hok : int_ok sv (Z.of_nat k)).
    { unfold int_ok, mn.
      destruct Hsv as [->|[->|[->|[-> Hlt]]]]; cbn [fit_solver]; try lia.
      destruct (Nat.max n m <=? 500)%nat; [lia|].
      match goal with |- context [if ?b then _ else _] => destruct b end; lia. }
    rewrite (fit_ctrl_int_accepts _ _ _ _ Hsp Hrg Hok), Nat2Z.id.
    split; [reflexivity|split; [apply fit_solver_never_auto|split]].
    - destruct Hsv as [->|[->|[->|[-> Hlt]]]]; cbn [fit_solver]; try congruence.
      destruct (Nat.max n m <=? 500)%nat; [congruence|].
      destruct ((1 <=? Z.of_nat k) && (5 * Z.of_nat k <? 4 * mn n m)); congruence.
    - intros Hna. destruct sv; try congruence; reflexivity.
  Qed.

  (* n_components = None: every component (all but one with arpack) *)
  Theorem fit_ctrl_default sv sp rg :
    (1 <= Nat.min n m)%nat -> sp <> SpOther -> rg <> RgOther ->
    sv = SvAuto \/ sv = SvFull \/ sv = SvRandomized ->
    exists fs, fit_ctrl n m NCNone sv sp rg = Ok (mk_ctrl (Nat.min n m) fs (fit_space n m sp)).
  Proof.
    intros Hmin Hsp Hrg Hsv.
    destruct (fit_ctrl_quantifier (Nat.min n m) sv sp rg) as [fs [H _]]; try assumption; try lia.
    { destruct Hsv as [->|[->| ->]]; auto. }
    exists fs. rewrite <- H. unfold fit_ctrl. cbn [resolve_nc]. unfold mn.
    destruct Hsv as [->|[->| ->]]; reflexivity.
  Qed.

  Theorem fit_ctrl_default_arpack sp rg :
    (2 <= Nat.min n m)%nat -> sp <> SpOther -> rg <> RgOther ->
    fit_ctrl n m NCNone SvArpack sp rg
    = Ok (mk_ctrl (Nat.min n m - 1) SvArpack (fit_space n m sp)).
  Proof.
    intros Hmin Hsp Hrg.
    destruct (fit_ctrl_quantifier (Nat.min n m - 1) SvArpack sp rg) as [fs [H [_ [_ Hfs]]]];
      try assumption; try lia.
    { right; right; right; split; [reflexivity|lia]. }
    rewrite Hfs in H by congruence. rewrite <- H. unfold fit_ctrl. cbn [resolve_nc]. unfold mn.
    replace (Z.of_nat (Nat.min n m) - 1) with (Z.of_nat (Nat.min n m - 1)) by lia. reflexivity.
  Qed.

  (* 'auto' resolves to the full solver on every problem with at most 500 rows and columns;
     space None / 'auto' is feature space exactly when there are more samples than features *)
  Theorem fit_solver_small v : (Nat.max n m <= 500)%nat -> fit_solver n m SvAuto v = SvFull.
  Proof. intros H. cbn [fit_solver]. apply Nat.leb_le in H. rewrite H. reflexivity. Qed.

  Theorem fit_space_auto sp : sp = SpNone \/ sp = SpAuto ->
    fit_space n m sp = false <-> (m < n)%nat.
  Proof.
    intros [-> | ->]; cbn [fit_space]; rewrite negb_false_iff; apply Nat.ltb_lt.
  Qed.
End Ctrl.

(* ---- shapes ------------------------------------------------------------------------------- *)
Section Shapes.
  Local Open Scope nat_scope.

  Lemma reshape_vec n : 0 < n -> reshape_r_m1 [n] n = Some [n; 1].
  Proof.
    intros Hn. unfold reshape_r_m1, size; cbn [fold_right].
    rewrite Nat.mul_1_r.
    destruct (n =? 0) eqn:E; [apply Nat.eqb_eq in E; lia|].
    rewrite Nat.mod_same, Nat.div_same by lia. reflexivity.
  Qed.

  Lemma reshape_mat n p : 0 < n -> reshape_r_m1 [n; p] n = Some [n; p].
  Proof.
    intros Hn. unfold reshape_r_m1, size; cbn [fold_right].
    rewrite Nat.mul_1_r.
    destruct (n =? 0) eqn:E; [apply Nat.eqb_eq in E; lia|].
    rewrite (Nat.mul_comm n p), Nat.mod_mul, Nat.div_mul by lia. reflexivity.
  Qed.

  Lemma matmul22 i j l : matmul [i; j] [j; l] = Some [i; l].
  Proof. cbn [matmul]. rewrite Nat.eqb_refl. reflexivity. Qed.
  Lemma matmul21 i j : matmul [i; j] [j] = Some [i].
  Proof. cbn [matmul]. rewrite Nat.eqb_refl. reflexivity. Qed.
  Lemma addsh_refl a : addsh a a = Some a.
  Proof. unfold addsh. destruct (list_eq_dec Nat.eq_dec a a); congruence. Qed.
  Lemma reshape_to_col a : reshape_to [a; 1] [a] = Some [a].
  Proof.
    unfold reshape_to, size; cbn [fold_right]. rewrite !Nat.mul_1_r, Nat.eqb_refl. reflexivity.
  Qed.

  (* number of target columns and trailing dimensions of everything that inherits y's rank *)
  Definition pcols (y : yform) : nat := match y with Y1 => 1 | Y2 p => p end.
  Definition ytail (y : yform) : shape := match y with Y1 => [] | Y2 p => [p] end.

  (* admissible ways for the weights to arrive: from the regressor, from lstsq, or passed with
     shape (m, p) - or (m,) when there is a single target *)
  Definition w_ok (m : nat) (y : yform) (w : wform) : Prop :=
    match w with
    | WRegressor | WLstsq => True
    | WGiven s => s = [m; pcols y] \/ (pcols y = 1 /\ s = [m])
    end.

  Definition fitted_spec (n m : nat) (c : ctrl) (y : yform) : fitted :=
    let k := c_k c in
    mk_fitted c [m; pcols y] [n; pcols y] [m; k] [k; m] (k :: ytail y) (m :: ytail y) [k; m] [k].

  Lemma w_shape_spec n m y w : 0 < n -> 0 < m -> w_ok m y w ->
    match w with
    | WRegressor => reshape_r_m1 (tr match y with Y1 => [m] | Y2 p => [p; m] end) m
    | WLstsq => matmul [m; n] [n; pcols y]
    | WGiven s => reshape_r_m1 s m
    end = Some [m; pcols y].
  Proof.
    intros Hn Hm Hw. destruct w as [| |s].
    - destruct y; cbn [tr rev app pcols]; [apply reshape_vec | apply reshape_mat]; assumption.
    - apply matmul22.
    - destruct Hw as [-> | [Hp ->]]; [apply reshape_mat; assumption|].
      rewrite Hp. apply reshape_vec; assumption.
  Qed.

  Lemma yhat_shape_spec n y : 0 < n -> reshape_r_m1 (y_shape n y) n = Some [n; pcols y].
  Proof.
    intros Hn. destruct y; cbn [y_shape pcols]; [apply reshape_vec | apply reshape_mat]; assumption.
  Qed.

  Theorem pre_shapes_spec n m y w : 0 < n -> 0 < m -> w_ok m y w ->
    pre_shapes n m y w = Some ([m; pcols y], [n; pcols y]).
  Proof.
    intros Hn Hm Hw. unfold pre_shapes. rewrite yhat_shape_spec by assumption. cbn [sbind].
    rewrite w_shape_spec by assumption. reflexivity.
  Qed.

  Theorem fit_shapes_spec n m c y w :
    0 < n -> 0 < m -> c_k c <= Nat.min n m -> w_ok m y w ->
    fit_shapes n m c y w = Some (fitted_spec n m c y).
  Proof.
    intros Hn Hm Hk Hw. unfold fit_shapes, fitted_spec.
    assert (Hkk : Nat.min (c_k c) (if c_sample c then n else m) = c_k c)
      by (destruct (c_sample c); lia).
    rewrite Hkk. set (k := c_k c) in *.
    assert (HY : reshape_r_m1 (y_shape n y) n = Some [n; pcols y])
      by (destruct y; cbn [y_shape pcols]; [apply reshape_vec | apply reshape_mat]; assumption).
    rewrite HY. cbn [sbind].
    assert (HW : match w with
                 | WRegressor => reshape_r_m1 (tr match y with Y1 => [m] | Y2 p => [p; m] end) m
                 | WLstsq => matmul [m; n] [n; pcols y]
                 | WGiven s => reshape_r_m1 s m
                 end = Some [m; pcols y]).
    { destruct w as [| |s].
      - destruct y; cbn [tr rev app pcols]; [apply reshape_vec | apply reshape_mat]; assumption.
      - apply matmul22.
      - destruct Hw as [-> | [Hp ->]]; [apply reshape_mat; assumption|].
        rewrite Hp. apply reshape_vec; assumption. }
    rewrite HW. cbn [sbind].
    assert (HYm : reshape_to (y_shape n y) [n; pcols y] = Some [n; pcols y]).
    { unfold reshape_to, size. destruct y; cbn [y_shape pcols fold_right];
        rewrite ?Nat.mul_1_r, Nat.eqb_refl; reflexivity. }
    rewrite HYm. cbn [sbind].
    destruct (c_sample c); destruct y; cbn [tr rev app multi_dot y_is_1d pcols ytail];
      repeat (rewrite ?addsh_refl, ?matmul22, ?reshape_to_col;
              progress cbn [sbind multi_dot tr rev app]);
      reflexivity.
  Qed.

  Theorem method_shapes_spec n m c y q :
    method_shapes m (fitted_spec n m c y) q
    = Some [[q; c_k c]; [q; m]; q :: ytail y; q :: ytail y].
  Proof.
    unfold method_shapes, fitted_spec.
    cbn [f_components f_ptx f_pxy f_pty tr rev app].
    rewrite !matmul22. cbn [sbind]. rewrite !matmul22. cbn [sbind].
    destruct y; cbn [ytail]; rewrite ?matmul21, ?matmul22; cbn [sbind];
      rewrite ?matmul21, ?matmul22; reflexivity.
  Qed.

  (* the clause of C14: a one-dimensional y yields one-dimensional predictions and coefficient
     vectors (and a two-dimensional y two-dimensional ones), for every accepted configuration *)
  Theorem shapes_1d n m (k : nat) sv sp rg w q :
    (1 <= k <= Nat.min n m) -> sp <> SpOther -> rg <> RgOther ->
    sv = SvAuto \/ sv = SvFull \/ sv = SvRandomized \/ (sv = SvArpack /\ k < Nat.min n m) ->
    forall y, w_ok m y w ->
    exists f, fit_model n m (NCInt (Z.of_nat k)) sv sp rg y w = Ok f
      /\ c_k (f_ctrl f) = k
      /\ f_pxt f = [m; k] /\ f_ptx f = [k; m]
      /\ f_pxy f = m :: ytail y /\ f_pty f = k :: ytail y
      /\ method_shapes m f q = Some [[q; k]; [q; m]; q :: ytail y; q :: ytail y].
  Proof.
    intros Hk Hsp Hrg Hsv y Hw.
    destruct (fit_ctrl_quantifier n m k sv sp rg Hk Hsp Hrg Hsv) as [fs [Hc _]].
    assert (Hpre : fit_model n m (NCInt (Z.of_nat k)) sv sp rg y w
                   = obind (fit_ctrl n m (NCInt (Z.of_nat k)) sv sp rg) (fun c =>
                       match fit_shapes n m c y w with Some f => Ok f | None => Err ErrReshape end)).
    { unfold fit_model. rewrite pre_shapes_spec by (try assumption; lia).
      destruct sp; try congruence; destruct rg; try congruence; reflexivity. }
    rewrite Hpre, Hc. cbn [obind].
    rewrite fit_shapes_spec; cbn [c_k]; try lia; try assumption.
    eexists; split; [reflexivity|].
    rewrite method_shapes_spec. cbn. repeat split; reflexivity.
  Qed.
End Shapes.

(* non-vacuity / sanity: concrete evaluations of the model *)
Example fit_model_example_1d :
  fit_model 6 3 (NCInt 2) SvAuto SpNone RgNone Y1 WRegressor
  = Ok (mk_fitted (mk_ctrl 2 SvFull false) [3; 1]%nat [6; 1]%nat [3; 2]%nat [2; 3]%nat [2]%nat [3]%nat
                  [2; 3]%nat [2]%nat).
Proof. vm_compute. reflexivity. Qed.

Example fit_model_example_rejections :
  fit_model 6 3 (NCInt 4) SvFull SpNone RgNone Y1 WRegressor = Err ErrNCompRange
  /\ fit_model 6 3 (NCInt 3) SvArpack SpNone RgNone Y1 WRegressor = Err ErrArpackAll
  /\ fit_model 6 3 (NCFloat 2.5) SvFull SpNone RgNone Y1 WRegressor = Err ErrNCompType
  /\ fit_model 6 3 (NCInt 9) SvOther SpNone RgNone Y1 WRegressor = Err ErrSolver
  /\ fit_model 6 3 (NCInt 9) SvOther SpOther RgOther Y1 WRegressor = Err ErrSpace
  /\ fit_model 6 3 (NCInt 2) SvFull SpSample RgPrecomputed (Y2 2) (WGiven [3]%nat) = Err ErrReshape.
Proof. vm_compute. repeat split; reflexivity. Qed.
