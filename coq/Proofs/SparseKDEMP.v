(* C17, layer D — the assignment for an arbitrary metric (Model/SparseKDEM.v), stdlib style. *)
From Verif Require Import ListX ListXP SparseKDE SparseKDEP SparseKDEM.
From Coq Require Import QArith Qabs Permutation.
Open Scope Z_scope.

Lemma label_row_spec (ng : nat) row :
  ng <> O -> length row = ng ->
  let j := label_row row in
  (j < ng)%nat /\
  (forall k, (k < ng)%nat -> nth j row 0 <= nth k row 0) /\
  (forall k, (k < j)%nat -> nth j row 0 < nth k row 0).
Proof.
  intros Hng Hlen. cbv zeta. unfold label_row.
  destruct (amin_some row) as (i & v & E).
  { intros ->. cbn in Hlen. congruence. }
  rewrite E. apply amin_spec in E as (Hi & Hn & Hmin & Hfirst). rewrite Hlen in *. subst v.
  split; [assumption|]. split; [exact Hmin|exact Hfirst].
Qed.

Section LoopM.
  Variables (ng : nat) (sw : list Q).
  Hypothesis Hng : ng <> O.
  Let lab := label_row.
  Let run (D : list (list Z)) := fold_left (astep_row sw) D (ast0 ng).
  Let memf (D : list (list Z)) (j : nat) : list nat :=
    filter (fun i => Nat.eqb (lab (nth i D [])) j) (seq 0 (length D)).
  Let wof (i : nat) : Q := nth i sw 0%Q.

  Lemma memf_snoc_m D p j :
    memf (D ++ [p]) j = memf D j ++ (if Nat.eqb (lab p) j then [length D] else []).
  Proof.
    unfold memf. rewrite app_length. cbn [length]. rewrite Nat.add_1_r, seq_S, filter_app.
    cbn [filter Nat.add]. rewrite app_nth2, Nat.sub_diag by lia. cbn [nth]. f_equal.
    apply filter_ext_in. intros i Hi. apply in_seq in Hi. now rewrite app_nth1 by lia.
  Qed.

  Lemma run_spec_m D :
    rows_ok ng D ->
    let s := run D in
    labels s = map lab D /\
    (length (npoints s) = ng /\ length (gweight s) = ng /\ length (members s) = ng) /\
    (forall j, (j < ng)%nat -> nth j (members s) [] = memf D j) /\
    (forall j, (j < ng)%nat -> nth j (npoints s) 0 = Z.of_nat (length (nth j (members s) []))) /\
    (forall j, (j < ng)%nat -> (nth j (gweight s) 0 == qsum (map wof (nth j (members s) [])))%Q) /\
    (qsum (gweight s) == qsum (map wof (seq 0 (length D))))%Q /\
    Permutation (concat (members s)) (seq 0 (length D)).
  Proof.
    induction D as [|p D IH] using rev_ind; intros Hok.
    - cbn. repeat split; try (apply repeat_length).
      + intros j Hj. unfold ast0; cbn. now rewrite nth_repeat.
      + intros j Hj. unfold ast0; cbn. now rewrite !nth_repeat.
      + intros j Hj. unfold ast0; cbn. rewrite !nth_repeat. reflexivity.
      + unfold ast0; cbn. apply qsum_repeat0.
      + unfold ast0; cbn. clear. induction ng as [|n IHn]; cbn; auto.
    - unfold rows_ok in Hok. apply Forall_app in Hok as (HokD & Hp).
      apply Forall_inv in Hp. specialize (IH HokD).
      cbv zeta in *. unfold run in *. rewrite fold_left_app. cbn [fold_left].
      set (s := fold_left (astep_row sw) D (ast0 ng)) in *.
      destruct IH as (Hl & (Ln & Lw & Lm) & Hm & Hn & Hw & Ht & Hp').
      assert (Hlen : length (labels s) = length D) by (rewrite Hl; apply map_length).
      pose proof (label_row_spec ng p Hng Hp) as (Hlt & _). fold lab in Hlt.
      unfold astep_row. fold lab. cbn [labels npoints gweight members]. rewrite Hlen.
      split; [rewrite Hl, map_app; reflexivity|].
      split; [rewrite !upd_nth_length; auto|].
      assert (Hm' : forall j, (j < ng)%nat ->
                nth j (upd_nth (lab p) (nth (lab p) (members s) [] ++ [length D]) (members s)) []
                = memf (D ++ [p]) j).
      { intros j Hj. rewrite memf_snoc_m. destruct (Nat.eqb (lab p) j) eqn:E.
        - apply Nat.eqb_eq in E. subst j. rewrite nth_upd_nth_eq by lia. now rewrite Hm.
        - apply Nat.eqb_neq in E. rewrite nth_upd_nth_neq by assumption.
          rewrite app_nil_r. now apply Hm. }
      split; [exact Hm'|]. split; [|split; [|split]].
      + intros j Hj. rewrite Hm' by assumption. rewrite memf_snoc_m.
        destruct (Nat.eqb (lab p) j) eqn:E.
        * apply Nat.eqb_eq in E. subst j. rewrite nth_upd_nth_eq by lia.
          rewrite Hn by assumption. rewrite Hm by assumption.
          rewrite app_length. cbn [length]. lia.
        * apply Nat.eqb_neq in E. rewrite nth_upd_nth_neq by assumption.
          rewrite app_nil_r, Hn by assumption. now rewrite Hm.
      + intros j Hj. rewrite Hm' by assumption. rewrite memf_snoc_m.
        destruct (Nat.eqb (lab p) j) eqn:E.
        * apply Nat.eqb_eq in E. subst j. rewrite nth_upd_nth_eq by lia.
          rewrite map_app, qsum_app. cbn [map qsum fold_right].
          rewrite Hw by assumption. rewrite Hm by assumption. fold (wof (length D)). ring.
        * apply Nat.eqb_neq in E. rewrite nth_upd_nth_neq by assumption.
          rewrite app_nil_r, Hw by assumption. now rewrite Hm.
      + rewrite qsum_upd_nth by lia. rewrite Ht.
        rewrite app_length. cbn [length]. rewrite Nat.add_1_r, seq_S, map_app, qsum_app.
        cbn [Nat.add map qsum fold_right]. fold (wof (length D)). ring.
      + rewrite concat_upd_nth_snoc by lia.
        rewrite app_length. cbn [length]. rewrite Nat.add_1_r, seq_S. cbn [Nat.add].
        rewrite <- Permutation_cons_append. now constructor.
  Qed.
End LoopM.

Lemma predict_rows_some ng rows sw s :
  predict_rows ng rows sw = Some s ->
  s = fold_left (astep_row sw) rows (ast0 ng) /\ (ng <> O \/ rows = []).
Proof.
  unfold predict_rows. destruct ng as [|n]; destruct rows as [|r rows]; intros H; try discriminate;
    injection H as <-; split; try reflexivity; try (left; discriminate); now right.
Qed.

(* ---- C17_assignment_nearest_metric ------------------------------------------------------------- *)
Lemma assignment_nearest_metric ng rows sw s :
  predict_rows ng rows sw = Some s -> rows_ok ng rows ->
  length (labels s) = length rows /\
  forall i, (i < length rows)%nat ->
    let j := nth i (labels s) O in
    let r := nth i rows [] in
    (j < ng)%nat /\
    (forall k, (k < ng)%nat -> nth j r 0 <= nth k r 0) /\
    (forall k, (k < j)%nat -> nth j r 0 < nth k r 0).
Proof.
  intros H Hok. apply predict_rows_some in H as (-> & [Hng | ->]).
  - pose proof (run_spec_m ng sw Hng rows Hok) as (Hl & _). cbv zeta in Hl.
    split; [rewrite Hl; apply map_length|].
    intros i Hi. cbv zeta. rewrite Hl. rewrite nth_map_lt with (d' := []) by assumption.
    apply (label_row_spec ng (nth i rows []) Hng).
    unfold rows_ok in Hok. rewrite Forall_forall in Hok. apply Hok. now apply nth_In.
  - cbn. split; [reflexivity|]. intros i Hi; cbn in Hi; lia.
Qed.

(* ---- C17_weights_partition_metric ----------------------------------------------------------------- *)
Lemma weights_partition_metric ng rows sw s :
  predict_rows ng rows sw = Some s -> rows_ok ng rows -> length sw = length rows ->
  length (members s) = ng /\ length (gweight s) = ng /\ length (npoints s) = ng /\
  (forall j, (j < ng)%nat ->
     nth j (members s) [] = members_of (labels s) j /\
     nth j (npoints s) 0 = Z.of_nat (length (nth j (members s) [])) /\
     (nth j (gweight s) 0 == qsum (map (fun i => nth i sw 0%Q) (nth j (members s) [])))%Q) /\
  (forall i, (i < length rows)%nat ->
     exists j, (j < ng)%nat /\ In i (nth j (members s) []) /\
               forall j', (j' < ng)%nat -> In i (nth j' (members s) []) -> j' = j) /\
  Permutation (concat (members s)) (seq 0 (length rows)) /\
  (qsum (gweight s) == qsum sw)%Q.
Proof.
  intros H Hok Hsw. pose proof (assignment_nearest_metric _ _ _ _ H Hok) as (HlenL & Hnear).
  apply predict_rows_some in H as (-> & [Hng | ->]).
  - pose proof (run_spec_m ng sw Hng rows Hok) as (Hl & (Ln & Lw & Lm) & Hm & Hn & Hw & Ht & Hp).
    cbv zeta in *.
    assert (Hmo : forall j, (j < ng)%nat -> nth j (members (fold_left (astep_row sw) rows (ast0 ng))) [] = members_of (labels (fold_left (astep_row sw) rows (ast0 ng))) j).
    { intros j Hj. rewrite Hm by assumption. unfold members_of. rewrite HlenL.
      apply filter_ext_in. intros i Hi. apply in_seq in Hi. rewrite Hl.
      now rewrite nth_map_lt with (d' := []) by lia. }
    repeat split; auto.
    + intros i Hi. destruct (Hnear i Hi) as (Hj & _). cbv zeta in Hj.
      exists (nth i (labels (fold_left (astep_row sw) rows (ast0 ng))) O). split; [assumption|]. split.
      * rewrite Hmo by assumption. unfold members_of. apply filter_In. split.
        -- apply in_seq. lia.
        -- apply Nat.eqb_refl.
      * intros j' Hj' Hin. rewrite Hmo in Hin by assumption. unfold members_of in Hin.
        apply filter_In in Hin as (_ & E). apply Nat.eqb_eq in E. now subst.
    + rewrite Ht. rewrite <- Hsw at 1. now rewrite map_nth_seq.
  - cbn. destruct sw; [|discriminate]. unfold ast0; cbn.
    repeat split; try apply repeat_length.
    + now rewrite nth_repeat.
    + now rewrite !nth_repeat.
    + rewrite !nth_repeat. reflexivity.
    + intros i Hi; lia.
    + clear. induction ng as [|n IHn]; cbn; auto.
    + apply qsum_repeat0.
Qed.

(* ---- the default metric is the instance rows = metric rows of the (periodic) Euclidean distance --- *)
Lemma astep_is_astep_row cell G sw s p : astep cell G sw s p = astep_row sw s (drow cell G p).
Proof. reflexivity. Qed.

Lemma predict_is_predict_rows cell G D sw :
  predict cell G D sw = predict_rows (length G) (map (drow cell G) D) sw /\
  rows_ok (length G) (map (drow cell G) D).
Proof.
  split.
  - unfold predict, predict_rows.
    assert (E : forall s, fold_left (astep cell G sw) D s
                          = fold_left (astep_row sw) (map (drow cell G) D) s).
    { induction D as [|p D IH]; intros s; cbn [map fold_left]; [reflexivity|].
      rewrite astep_is_astep_row. apply IH. }
    destruct G as [|g G]; destruct D as [|p D]; cbn [length map]; try reflexivity.
    + now rewrite (E (ast0 (S (length G)))).
  - unfold rows_ok. apply Forall_forall. intros r Hr. apply in_map_iff in Hr as (p & <- & _).
    apply drow_length.
Qed.
