(* C01 statements (proof side). *)
From Verif Require Import ListX Greedy Select ListXP GreedyP SelectP.
From Coq Require Import Sorting.Permutation Sorting.Sorted.

Definition in_rng (n : nat) (l : list nat) := Forall (fun i => (i < n)%nat) l.
Definition stream_ok (n : nat) (s : stream) := Forall (fun v => length v = n) s.
(* the state a previous successful fit left behind (None = never fitted) *)
Definition state_ok cand ycand (prev : option (gst stream)) : Prop :=
  match prev with Some g => GInv stream cand ycand (SP cand) g | None => True end.

Section C01.
  Variables (cand : list (list Z)) (ycand : option (list (list Z))).
  Notation n := (length cand).
  Variables (prev : option (gst stream)) (c : cfg) (inits : list nat) (str : stream).
  Hypothesis Hprev : state_ok cand ycand prev.
  Hypothesis Hnd : NoDup inits.
  Hypothesis Hr : in_rng n inits.
  Hypothesis Hs : stream_ok n str.
  Variables (g : gst stream) (st : bool).
  Hypothesis Hfit : sfit cand ycand prev c inits str = Fitted g st.

  Lemma c01_state_ok : state_ok cand ycand (Some g).
  Proof. eapply sfit_inv; eauto. Qed.

  Lemma c01_distinct_in_range :
    NoDup (sel g) /\ in_rng n (sel g) /\
    NoDup (reported_sel g st (n_before prev c inits)) /\
    in_rng n (reported_sel g st (n_before prev c inits)).
  Proof.
    destruct c01_state_ok as (A & B & _). split; [exact A|]. split; [exact B|].
    unfold reported_sel. destruct st; [|auto]. split.
    - rewrite <- (firstn_skipn (length (sel g) - n_before prev c inits) (sel g)) in A.
      revert A. generalize (firstn (length (sel g) - n_before prev c inits) (sel g)) as l.
      generalize (skipn (length (sel g) - n_before prev c inits) (sel g)) as m.
      clear. intros m l. induction l as [|a l IH]; cbn; intros H; [constructor|].
      inversion H as [|? ? Hn Hd]; subst. constructor; [|now apply IH].
      intros Hin. apply Hn. apply in_or_app. now left.
    - apply Forall_forall. intros x Hx.
      assert (Hx' : In x (sel g)).
      { rewrite <- (firstn_skipn (length (sel g) - n_before prev c inits) (sel g)).
        apply in_or_app. now left. }
      unfold in_rng in B. rewrite Forall_forall in B. auto.
  Qed.

  Lemma c01_stored_data :
    xsel g = map (fun i => nth i cand []) (sel g) /\
    (forall y, ycand = Some y -> ysel g = map (fun i => nth i y []) (sel g)).
  Proof. destruct c01_state_ok as (_ & _ & A & B & _). auto. Qed.

  Lemma c01_length k :
    resolve_n n (c_nts c) = Some k -> (n_before prev c inits <= k)%nat ->
    (length (sel g) <= k)%nat /\
    (st = false -> length (sel g) = k /\ reported_sel g st (n_before prev c inits) = sel g).
  Proof.
    intros Hk Hle. destruct (sfit_length cand ycand prev c inits str g st k Hprev Hnd Hr Hs Hfit Hk Hle)
      as [A B]. split; [exact A|]. intros E. split; [auto|]. subst st. reflexivity.
  Qed.
End C01.

Lemma c01_views cand s :
  NoDup s -> in_rng (length cand) s ->
  (forall i, (i < length cand)%nat -> nth i (support (length cand) s) false = true <-> In i s) /\
  length (support (length cand) s) = length cand /\
  Permutation s (support_indices s) /\ Sorted le (support_indices s) /\
  transform_cols cand s = map (fun i => nth i cand []) (support_indices s).
Proof.
  intros Hnd Hr. split; [intros i Hi; now apply support_spec|].
  split; [apply support_length|]. split; [apply sort_nat_perm|]. split; [apply sort_nat_sorted|].
  now apply transform_spec.
Qed.

Lemma c01_resolve n p k :
  resolve_n n p = Some k ->
  match p with
  | NtsNone => k = Nat.div n 2
  | NtsInt z => 0 < z <= Z.of_nat n /\ k = Z.to_nat z
  | NtsFrac r ok => ok = true /\ k = Z.to_nat r
  end.
Proof.
  destruct p as [|z|r ok]; cbn.
  - intros H; now injection H as <-.
  - destruct (0 <? z) eqn:A; destruct (z <=? Z.of_nat n) eqn:B; cbn; try discriminate.
    intros H; injection H as <-. apply Z.ltb_lt in A. apply Z.leb_le in B. auto.
  - destruct ok; [|discriminate]. intros H; injection H as <-. auto.
Qed.

Lemma c01_rejections cand ycand prev c inits str :
  (c_full c = true /\ has_thr (c_thr c) = true) \/ resolve_n (length cand) (c_nts c) = None \/
  (c_warm c = true /\ (prev = None \/ exists g0, prev = Some g0 /\ sel g0 = [])) ->
  sfit cand ycand prev c inits str = Rejected.
Proof.
  unfold sfit. intros [[A B]|[A|[A B]]].
  - now rewrite A, B.
  - destruct (c_full c && has_thr (c_thr c)); [reflexivity|]. now rewrite A.
  - destruct (c_full c && has_thr (c_thr c)); [reflexivity|].
    destruct (resolve_n _ _); [|reflexivity]. rewrite A.
    destruct B as [->|(g0 & -> & E)]; [reflexivity|]. now rewrite E.
Qed.

(* known finding F2: after a threshold stop the reported selected_idx_ is shorter than
   n_selected_ — witness on the faithful model (FPS-like scores, initial selection 0) *)
Lemma c01_stop_truncation_witness :
  exists cand inits str c g,
    sfit cand None None c inits str = Fitted g true /\
    length (reported_sel g true (n_before None c inits)) <> length (sel g).
Proof.
  exists [[0;0];[3;0];[0;4];[1;1]], [0%nat], [[0;9;16;2];[0;0;16;2];[0;0;0;2]],
         (mk_cfg (NtsInt 4) (AbsThr 5 1) false false).
  eexists. split; [vm_compute; reflexivity|]. vm_compute. discriminate.
Qed.
