(* Proofs about the OrthogonalRegression model (Model/OrthReg.v, Model/OrthRegMx.v) over an
   arbitrary real closed field: orthogonality, Procrustes optimality by the trace argument,
   recovery of rotations, partial isometry / norm non-increase in projector mode.
   ssreflect style. *)
From mathcomp Require Import all_ssreflect all_algebra.
From mathcomp Require Import ring.
From Verif Require Import MExp MExpMx Ridge2Fold Ridge2FoldMx OrthReg OrthRegMx MxFrobP Ridge2FoldP.
Set Implicit Arguments.
Unset Strict Implicit.
Unset Printing Implicit Defensive.
Import Order.TTheory GRing.Theory Num.Theory.
Local Open Scope ring_scope.

(* ---- orthogonal Procrustes on plain matrices ------------------------------------------ *)
Section Procrustes.
  Variable F : rcfType.
  Variables (n q : nat) (A B : 'M[F]_(n, q)) (U V : 'M[F]_q) (sg : 'cV[F]_q).
  Hypothesis UU : U^T *m U = 1%:M.
  Hypothesis VV : V^T *m V = 1%:M.
  Hypothesis HM : A^T *m B = U *m diag_mx sg^T *m V^T.
  Hypothesis Hs : forall i, 0 <= sg i ord0.

  Definition procR : 'M[F]_q := U *m V^T.

  Lemma UUt : U *m U^T = 1%:M. Proof. exact: mulmx1C. Qed.
  Lemma VVt : V *m V^T = 1%:M. Proof. exact: mulmx1C. Qed.

  Lemma procR_tr : procR^T = V *m U^T.
  Proof. by rewrite /procR trmx_mul trmxK. Qed.

  Lemma procR_orthl : procR^T *m procR = 1%:M.
  Proof. by rewrite procR_tr /procR mulmxA -[V *m _ *m _]mulmxA UU mulmx1 VVt. Qed.

  Lemma procR_orthr : procR *m procR^T = 1%:M.
  Proof. exact: mulmx1C procR_orthl. Qed.

  (* |A W| = |A| for orthogonal W *)
  Lemma fn2_orth m (Z : 'M[F]_(m, q)) (W : 'M[F]_q) : W^T *m W = 1%:M -> fn2 (Z *m W) = fn2 Z.
  Proof.
    move=> WW; have WWt : (W^T)^T *m W^T = 1%:M by rewrite trmxK; exact: mulmx1C.
    by rewrite -[W]trmxK fn2_isor.
  Qed.

  (* |B - A W|^2 = |B|^2 - 2 <A^T B, W> + |A|^2 *)
  Lemma resid_expand (W : 'M[F]_q) : W^T *m W = 1%:M ->
    fn2 (B - A *m W) = fn2 B - 2%:R * ip (A^T *m B) W + fn2 A.
  Proof. by move=> WW; rewrite fn2B fn2_orth // ip_mull. Qed.

  Lemma tr_diag_mul (d : 'rV[F]_q) (Z : 'M[F]_q) : \tr (diag_mx d *m Z) = \sum_i d ord0 i * Z i i.
  Proof. by rewrite mul_diag_mx /mxtrace; apply: eq_bigr => i _; rewrite mxE. Qed.

  (* entries of an orthogonal matrix are at most 1 *)
  Lemma orth_entry_le1 (Z : 'M[F]_q) i j : Z^T *m Z = 1%:M -> Z i j <= 1.
  Proof.
    move=> ZZ; have : (Z^T *m Z) j j = 1 by rewrite ZZ mxE eqxx.
    rewrite mxE => H.
    have Hsq : Z i j ^+ 2 <= 1.
      rewrite -[X in _ <= X]H (bigD1 i) // mxE -expr2 ler_addl; apply: sumr_ge0 => k _.
      by rewrite mxE -expr2 sqr_ge0.
    apply: le_trans (ler_norm _) _.
    rewrite -(@expr_le1 _ 2 `|Z i j|) ?normr_ge0 //.
    by rewrite real_normK ?num_real.
  Qed.

  (* <U S V^T, W> = sum_i s_i Z_ii with Z = U^T W V *)
  Lemma ip_svd (W : 'M[F]_q) :
    ip (A^T *m B) W = \sum_i sg i ord0 * (U^T *m W *m V) i i.
  Proof.
    rewrite HM /ip !trmx_mul trmxK tr_diag_mx -!mulmxA mxtrace_mulC -!mulmxA.
    rewrite [_ *m (W *m V)]mulmxA tr_diag_mul; apply: eq_bigr => i _.
    by rewrite mxE.
  Qed.

  Lemma ip_svd_R : ip (A^T *m B) procR = \sum_i sg i ord0.
  Proof.
    rewrite ip_svd /procR; apply: eq_bigr => i _.
    by rewrite !mulmxA UU mul1mx VV mxE eqxx mulr1.
  Qed.

  Lemma ip_svd_le (W : 'M[F]_q) : W^T *m W = 1%:M -> ip (A^T *m B) W <= ip (A^T *m B) procR.
  Proof.
    move=> WW; rewrite ip_svd ip_svd_R; apply: ler_sum => i _.
    rewrite -[X in _ <= X]mulr1; apply: ler_wpmul2l; first exact: Hs.
    apply: orth_entry_le1.
    rewrite !trmx_mul trmxK !mulmxA -[_ *m U *m U^T]mulmxA UUt mulmx1.
    by rewrite -[_ *m W^T *m W]mulmxA WW mulmx1 VV.
  Qed.

  (* Procrustes optimality over ALL orthogonal matrices *)
  Lemma procR_optimal (W : 'M[F]_q) : W^T *m W = 1%:M ->
    fn2 (B - A *m procR) <= fn2 (B - A *m W).
  Proof.
    move=> WW; rewrite !resid_expand ?procR_orthl // ler_add2r ler_add2l ler_opp2.
    by apply: ler_wpmul2l; [rewrite ler0n | exact: ip_svd_le].
  Qed.

  (* y = X Q for an orthogonal Q: zero residual, and R = Q wherever A can be cancelled *)
  Lemma procR_recovers (Q : 'M[F]_q) : Q^T *m Q = 1%:M -> B = A *m Q -> A *m procR = B.
  Proof.
    move=> QQ HB; have := procR_optimal QQ; rewrite [X in _ <= fn2 (X - _)]HB subrr fn2_0 => H.
    have /fn2_eq0/eqP : fn2 (B - A *m procR) = 0 by apply/eqP; rewrite eq_le H fn2_ge0.
    by rewrite subr_eq0 => /eqP.
  Qed.

  Lemma procR_recovers_map (Q : 'M[F]_q) (L : 'M[F]_(q, n)) :
    Q^T *m Q = 1%:M -> B = A *m Q -> L *m A = 1%:M -> procR = Q.
  Proof.
    move=> QQ HB HL; have H := procR_recovers QQ HB.
    by rewrite -[procR]mul1mx -HL -mulmxA H HB mulmxA HL mul1mx.
  Qed.
End Procrustes.

(* R = Q on X's block when A = [X 0] (features padded with zero columns) *)
Lemma procR_recovers_block (F : rcfType) (n p z : nat) (X : 'M[F]_(n, p)) (B : 'M[F]_(n, p + z))
    (U V : 'M[F]_(p + z)) (sg : 'cV[F]_(p + z)) (Q : 'M[F]_(p + z)) (L : 'M[F]_(p, n)) :
  let A := row_mx X (0 : 'M[F]_(n, z)) in
  U^T *m U = 1%:M -> V^T *m V = 1%:M -> A^T *m B = U *m diag_mx sg^T *m V^T ->
  (forall i, 0 <= sg i ord0) ->
  Q^T *m Q = 1%:M -> B = A *m Q -> L *m X = 1%:M ->
  usubmx (procR U V) = usubmx Q.
Proof.
  move=> A UU VV HM Hs QQ HB HL.
  have H := procR_recovers UU VV HM Hs QQ HB.
  have E (W : 'M[F]_(p + z)) : A *m W = X *m usubmx W.
    by rewrite -{1}[W]vsubmxK /A mul_row_col mul0mx addr0.
  move: H; rewrite HB !E => H.
  by rewrite -[usubmx (procR U V)]mul1mx -HL -mulmxA H mulmxA HL mul1mx.
Qed.

(* ---- projector mode on plain matrices --------------------------------------------------- *)
Section Projector.
  Variable F : rcfType.
  Variables (n p t r : nat) (X : 'M[F]_(n, p)) (y : 'M[F]_(n, t)).
  Variables (Uc : 'M[F]_(p, r)) (Vc : 'M[F]_(t, r)) (Ui Vi : 'M[F]_r) (si : 'cV[F]_r).
  Hypothesis UcUc : Uc^T *m Uc = 1%:M.
  Hypothesis VcVc : Vc^T *m Vc = 1%:M.
  Hypothesis UiUi : Ui^T *m Ui = 1%:M.
  Hypothesis ViVi : Vi^T *m Vi = 1%:M.
  Hypothesis HM : (X *m Uc)^T *m (y *m Vc) = Ui *m diag_mx si^T *m Vi^T.
  Hypothesis Hs : forall i, 0 <= si i ord0.

  Definition projW0 (W0 : 'M[F]_r) : 'M[F]_(p, t) := Uc *m W0 *m Vc^T.
  Definition projW : 'M[F]_(p, t) := projW0 (procR Ui Vi).

  Section AnyRotation.
    Variable R0 : 'M[F]_r.
    Hypothesis R0l : R0^T *m R0 = 1%:M.
    Let R0r : R0 *m R0^T = 1%:M. Proof. exact: mulmx1C. Qed.
    Let W := projW0 R0.

    Lemma projW0_tr : W^T = Vc *m R0^T *m Uc^T.
    Proof. by rewrite /W /projW0 !trmx_mul trmxK mulmxA. Qed.

    Lemma projW0_WtW : W^T *m W = Vc *m Vc^T.
    Proof.
      rewrite projW0_tr /W /projW0 !mulmxA -[_ *m Uc^T *m Uc]mulmxA UcUc mulmx1.
      by rewrite -[_ *m R0^T *m R0]mulmxA R0l mulmx1.
    Qed.

    Lemma projW0_WWt : W *m W^T = Uc *m Uc^T.
    Proof.
      rewrite projW0_tr /W /projW0 !mulmxA -[_ *m Vc^T *m Vc]mulmxA VcVc mulmx1.
      by rewrite -[_ *m R0 *m R0^T]mulmxA R0r mulmx1.
    Qed.

    Lemma projW0_partial_isometry : W *m W^T *m W = W.
    Proof.
      by rewrite projW0_WWt /W /projW0 !mulmxA -[_ *m Uc^T *m Uc]mulmxA UcUc mulmx1.
    Qed.

    Lemma projW0_norm_le m (Z : 'M[F]_(m, p)) : fn2 (Z *m W) <= fn2 Z.
    Proof.
      rewrite /W /projW0 !mulmxA fn2_isor // (fn2_orth _ R0l).
      by rewrite -fn2_tr trmx_mul -[X in _ <= X]fn2_tr; exact: fn2_bessel.
    Qed.

    Lemma projW0_norm_eq m (Z : 'M[F]_(m, r)) : fn2 (Z *m Uc^T *m W) = fn2 (Z *m Uc^T).
    Proof.
      rewrite /W /projW0 !mulmxA -[_ *m Uc^T *m Uc]mulmxA UcUc mulmx1 !fn2_isor //.
      exact: fn2_orth.
    Qed.
  End AnyRotation.

  Let R0l : (procR Ui Vi)^T *m procR Ui Vi = 1%:M. Proof. exact: procR_orthl. Qed.

  (* partial isometry *)
  Lemma projW_partial_isometry : projW *m projW^T *m projW = projW.
  Proof. exact: projW0_partial_isometry. Qed.

  Lemma projW_WtW : projW^T *m projW = Vc *m Vc^T.
  Proof. exact: projW0_WtW. Qed.

  Lemma projW_WWt : projW *m projW^T = Uc *m Uc^T.
  Proof. exact: projW0_WWt. Qed.

  (* predictions are never longer than their inputs ... *)
  Lemma projW_norm_le m (Z : 'M[F]_(m, p)) : fn2 (Z *m projW) <= fn2 Z.
  Proof. exact: projW0_norm_le. Qed.

  (* ... and exactly as long on the range of the linear fit (row space spanned by Uc) *)
  Lemma projW_norm_eq m (Z : 'M[F]_(m, r)) : fn2 (Z *m Uc^T *m projW) = fn2 (Z *m Uc^T).
  Proof. exact: projW0_norm_eq. Qed.

  (* |y - X Uc W0 Vc^T|^2 = |y Vc - X Uc W0|^2 + |y - y Vc Vc^T|^2 *)
  Lemma proj_resid_split (W0 : 'M[F]_r) :
    fn2 (y - X *m projW0 W0) = fn2 (y *m Vc - X *m Uc *m W0) + fn2 (y - y *m Vc *m Vc^T).
  Proof.
    set E := y *m Vc - X *m Uc *m W0; set N := y - y *m Vc *m Vc^T.
    have -> : y - X *m projW0 W0 = E *m Vc^T + N.
      by rewrite /E /N /projW0 mulmxBl !mulmxA [RHS]addrC addrA subrK.
    have NV : N *m Vc = 0 by rewrite /N mulmxBl -[_ *m Vc^T *m Vc]mulmxA VcVc mulmx1 subrr.
    rewrite fn2D fn2_isor // ipC ip_mulr trmxK NV /ip trmx0 mul0mx mxtrace0 mulr0 addr0.
    by [].
  Qed.

  (* optimal among the maps Uc W0 Vc^T with W0 any rotation between the reduced spaces *)
  Lemma projW_optimal (W0 : 'M[F]_r) : W0^T *m W0 = 1%:M ->
    fn2 (y - X *m projW) <= fn2 (y - X *m projW0 W0).
  Proof.
    move=> WW; rewrite /projW !proj_resid_split ler_add2r -!mulmxA [X *m (Uc *m W0)]mulmxA.
    by rewrite [X *m (Uc *m _)]mulmxA; exact: (procR_optimal UiUi ViVi HM Hs WW).
  Qed.

  (* y = X Q' with Q' = Uc Vc^T (a partial rotation with the same reduced spaces): recovered *)
  Lemma projW_recovers (L : 'M[F]_(r, n)) :
    y = X *m (Uc *m Vc^T) -> L *m (X *m Uc) = 1%:M -> projW = Uc *m Vc^T /\ y - X *m projW = 0.
  Proof.
    move=> Hy HL.
    have HB : y *m Vc = (X *m Uc) *m 1%:M.
      by rewrite mulmx1 Hy -!mulmxA VcVc mulmx1.
    have H1 : (1%:M : 'M[F]_r)^T *m 1%:M = 1%:M by rewrite trmx1 mulmx1.
    have HR : procR Ui Vi = 1%:M := procR_recovers_map UiUi ViVi HM Hs H1 HB HL.
    have E : projW = Uc *m Vc^T by rewrite /projW /projW0 HR mulmx1.
    by split=> //; rewrite E -Hy subrr.
  Qed.
End Projector.

(* ---- the programs of Model/OrthReg.v -------------------------------------------------------- *)
Section Programs.
  Variable F : rcfType.

  Lemma val11_trace (env : env_mx F) k (e : mexp k k) : val11 env (MTrace e) = \tr (eval_mx env e).
  Proof. by rewrite /val11 /= mxE eqxx mulr1n. Qed.

  (* the residual program computes |b - a w|_F^2 *)
  Lemma resid_progE (env : env_mx F) n p t (a : mexp n p) (b : mexp n t) (w : mexp p t) :
    val11 env (resid_prog n p t a b w) = fn2 (eval_mx env b - eval_mx env a *m eval_mx env w).
  Proof. by rewrite /resid_prog val11_trace. Qed.

  Lemma orth_of0 (env : env_mx F) p q (w : mexp p q) :
    eval_mx env (orth_of p q w) = 0 -> (eval_mx env w)^T *m eval_mx env w = 1%:M.
  Proof. by rewrite /= => /eqP; rewrite subr_eq0 => /eqP. Qed.

  Section Pad.
    Variables (n q : nat) (env : env_mx F).
    Hypothesis H : pad_hyp env n q.
    Let A := env n q oA.
    Let B := env n q oB.
    Let U := env q q oUp.
    Let V := env q q oVp.
    Let sg := env q 1%N oSp.
    Let UU : U^T *m U = 1%:M. Proof. by case: H => /orth_of0. Qed.
    Let VV : V^T *m V = 1%:M. Proof. by case: H => _ /orth_of0. Qed.
    Let HM : A^T *m B = U *m diag_mx sg^T *m V^T.
    Proof. by case: H => _ _ /= /eqP; rewrite subr_eq0 => /eqP. Qed.
    Let Hs : forall i, 0 <= sg i ord0. Proof. by case: H. Qed.

    Lemma pad_coefE : eval_mx env (pad_coef q) = (procR U V)^T.
    Proof. by []. Qed.

    Lemma pad_orthogonal :
      let Cf := eval_mx env (pad_coef q) in Cf^T *m Cf = 1%:M /\ Cf *m Cf^T = 1%:M.
    Proof.
      move=> Cf; rewrite /Cf pad_coefE trmxK; split; [exact: procR_orthr | exact: procR_orthl].
    Qed.

    Lemma pad_optimal (Om : 'M[F]_q) : Om^T *m Om = 1%:M ->
      val11 env (resid_prog n q q (pA n q) (pB n q) (pad_R q))
      <= val11 (env_set env oW Om) (resid_prog n q q (pA n q) (pB n q) (MVar (m:=q) (n:=q) oW)).
    Proof.
      move=> OO; rewrite !resid_progE /= env_set_same !env_set_other //.
      exact: (procR_optimal UU VV HM Hs OO).
    Qed.

    Lemma pad_norm m (Z : 'M[F]_(m, q)) : fn2 (Z *m (eval_mx env (pad_coef q))^T) = fn2 Z.
    Proof. by rewrite pad_coefE trmxK; apply: fn2_orth; exact: procR_orthl. Qed.

    Lemma pad_recovers (Q : 'M[F]_q) : Q^T *m Q = 1%:M -> B = A *m Q ->
      A *m (eval_mx env (pad_coef q))^T = B
      /\ forall L : 'M[F]_(q, n), L *m A = 1%:M -> (eval_mx env (pad_coef q))^T = Q.
    Proof.
      move=> QQ HB; rewrite pad_coefE trmxK; split; first exact: (procR_recovers UU VV HM Hs QQ HB).
      by move=> L HL; exact: (procR_recovers_map UU VV HM Hs QQ HB HL).
    Qed.

    Lemma pad_predictE nn :
      eval_mx env (pad_predict nn q) = env nn q oXn *m (eval_mx env (pad_coef q))^T.
    Proof. by []. Qed.
  End Pad.

  Lemma pad_recovers_block n p z (env : env_mx F) (X : 'M[F]_(n, p)) (Q : 'M[F]_(p + z)) (L : 'M[F]_(p, n)) :
    pad_hyp env n (p + z) -> env n (p + z)%N oA = row_mx X 0 ->
    Q^T *m Q = 1%:M -> env n (p + z)%N oB = env n (p + z)%N oA *m Q -> L *m X = 1%:M ->
    usubmx (eval_mx env (pad_coef (p + z)))^T = usubmx Q.
  Proof.
    move=> H HA QQ HB HL; rewrite pad_coefE trmxK.
    case: H => /orth_of0 UU /orth_of0 VV /= /eqP; rewrite subr_eq0 => /eqP HM Hs.
    rewrite /= in UU VV; move: HM HB; rewrite /= HA => HM HB.
    exact: (procR_recovers_block UU VV HM Hs QQ HB HL).
  Qed.

  Section Proj.
    Variables (n p t r : nat) (env : env_mx F).
    Hypothesis H : proj_hyp env n p t r.
    Let X := env n p oX.
    Let y := env n t oY.
    Let Uc := env p r oUc.
    Let Vc := env t r oVc.
    Let Ui := env r r oUi.
    Let Vi := env r r oVi.
    Let si := env r 1%N oSi.
    Let UcUc : Uc^T *m Uc = 1%:M. Proof. by case: H => /orth_of0. Qed.
    Let VcVc : Vc^T *m Vc = 1%:M. Proof. by case: H => _ /orth_of0. Qed.
    Let UiUi : Ui^T *m Ui = 1%:M. Proof. by case: H => _ _ /orth_of0. Qed.
    Let ViVi : Vi^T *m Vi = 1%:M. Proof. by case: H => _ _ _ /orth_of0. Qed.
    Let HM : (X *m Uc)^T *m (y *m Vc) = Ui *m diag_mx si^T *m Vi^T.
    Proof. by case: H => _ _ _ _ [/= /eqP]; rewrite subr_eq0 => /eqP. Qed.
    Let Hs : forall i, 0 <= si i ord0. Proof. by case: H => _ _ _ _ []. Qed.

    Lemma proj_WE : eval_mx env (proj_W p t r) = projW Uc Vc Ui Vi.
    Proof. by []. Qed.

    Lemma proj_coefE : (eval_mx env (proj_coef p t r))^T = projW Uc Vc Ui Vi.
    Proof. by rewrite /= trmxK. Qed.

    Lemma proj_partial_isometry :
      let W := (eval_mx env (proj_coef p t r))^T in
      [/\ W *m W^T *m W = W, W^T *m W = Vc *m Vc^T & W *m W^T = Uc *m Uc^T].
    Proof.
      rewrite /= trmxK -/(projW0 Uc Vc (procR Ui Vi)) -/(projW Uc Vc Ui Vi); split.
      - exact: projW_partial_isometry.
      - exact: projW_WtW.
      - exact: projW_WWt.
    Qed.

    Lemma proj_norm_nonincreasing m (Z : 'M[F]_(m, p)) :
      fn2 (Z *m (eval_mx env (proj_coef p t r))^T) <= fn2 Z.
    Proof. by rewrite proj_coefE; exact: projW_norm_le. Qed.

    Lemma proj_norm_on_range m (Z : 'M[F]_(m, r)) :
      fn2 (Z *m Uc^T *m (eval_mx env (proj_coef p t r))^T) = fn2 (Z *m Uc^T).
    Proof. by rewrite proj_coefE; exact: projW_norm_eq. Qed.

    Lemma proj_optimal (Om : 'M[F]_r) : Om^T *m Om = 1%:M ->
      val11 env (resid_prog n p t (MVar (m:=n) (n:=p) oX) (MVar (m:=n) (n:=t) oY) (proj_W p t r))
      <= val11 (env_set env oW0 Om)
           (resid_prog n p t (MVar (m:=n) (n:=p) oX) (MVar (m:=n) (n:=t) oY)
                       (proj_of p t r (MVar (m:=r) (n:=r) oW0))).
    Proof.
      move=> OO; rewrite !resid_progE proj_WE /= env_set_same !env_set_other //.
      exact: (projW_optimal VcVc UiUi ViVi HM Hs OO).
    Qed.

    Lemma proj_recovers (L : 'M[F]_(r, n)) :
      y = X *m (Uc *m Vc^T) -> L *m (X *m Uc) = 1%:M ->
      (eval_mx env (proj_coef p t r))^T = Uc *m Vc^T
      /\ y - X *m (eval_mx env (proj_coef p t r))^T = 0.
    Proof. by move=> Hy HL; rewrite proj_coefE; exact: (projW_recovers VcVc UiUi ViVi HM Hs Hy HL). Qed.

    Lemma proj_predictE nn :
      eval_mx env (proj_predict nn p t r) = env nn p oXn *m (eval_mx env (proj_coef p t r))^T.
    Proof. by []. Qed.
  End Proj.
End Programs.
