(* Layer A: a small typed matrix-expression language with a binary64 interpreter.
   The same syntax tree is interpreted over mathcomp matrices on an arbitrary real
   closed field in Base/MExpMx.v; theorems are about that interpretation, the
   correspondence check runs this one.  No theorem is stated about floats. *)
From Coq Require Import ZArith List Bool PrimFloat.
From Coq Require Uint63.
Import ListNotations.

(* entrywise scalar functions (menu); [t] is a tolerance argument *)
Inductive sfun :=
| Finv_gt      (* x > t ? 1/x : 0 *)
| Fsqrt_gt     (* x > t ? sqrt x : 0 *)
| Fisqrt_gt    (* x > t ? 1/sqrt x : 0 *)
| Frecip       (* 1/x *)
| Fsqrt        (* sqrt x *)
| Fsquare      (* x*x *)
| Fneg         (* -x *)
| Fpos_part.   (* x > t ? x : 0 *)

Inductive mexp : nat -> nat -> Type :=
| MVar   (m n : nat) (x : nat) : mexp m n                (* environment lookup *)
| MConst (z : Z) : mexp 1 1                              (* integer constant *)
| MZero  (m n : nat) : mexp m n
| MOnes  (m n : nat) : mexp m n
| MId    (n : nat) : mexp n n
| MAdd   (m n : nat) (a b : mexp m n) : mexp m n
| MSub   (m n : nat) (a b : mexp m n) : mexp m n
| MMul   (m n p : nat) (a : mexp m n) (b : mexp n p) : mexp m p
| MScale (m n : nat) (c : mexp 1 1) (a : mexp m n) : mexp m n
| MTr    (m n : nat) (a : mexp m n) : mexp n m
| MDiag  (n : nat) (v : mexp n 1) : mexp n n             (* np.diagflat *)
| MDiagOf (n : nat) (a : mexp n n) : mexp n 1            (* np.diag of a matrix *)
| MMap   (m n : nat) (f : sfun) (t : mexp 1 1) (a : mexp m n) : mexp m n
| MHad   (m n : nat) (a b : mexp m n) : mexp m n         (* entrywise product *)
| MTrace (n : nat) (a : mexp n n) : mexp 1 1.

Arguments MVar {m n}. Arguments MAdd {m n}. Arguments MSub {m n}. Arguments MMul {m n p}.
Arguments MScale {m n}. Arguments MTr {m n}. Arguments MDiag {n}. Arguments MDiagOf {n}.
Arguments MMap {m n}. Arguments MHad {m n}. Arguments MTrace {n}.

(* ---- binary64 interpreter over list-of-rows matrices -------------------------- *)
Definition fmat := list (list float).
Open Scope float_scope.

Definition fof_Z (z : Z) : float :=
  match z with
  | Z0 => 0
  | Zpos _ => of_uint63 (Uint63.of_Z z)
  | Zneg p => - of_uint63 (Uint63.of_Z (Zpos p))
  end.

Definition fsum (l : list float) : float := fold_left add l 0.
Fixpoint fmap2 (f : float -> float -> float) (u v : list float) : list float :=
  match u, v with a :: u', b :: v' => f a b :: fmap2 f u' v' | _, _ => [] end.
Definition fdot (u v : list float) : float := fsum (fmap2 mul u v).
Fixpoint mmap2 (f : float -> float -> float) (A B : fmat) : fmat :=
  match A, B with r :: A', s :: B' => fmap2 f r s :: mmap2 f A' B' | _, _ => [] end.
Definition fcol (A : fmat) (j : nat) : list float := map (fun r => nth j r 0) A.
Definition ftr (w : nat) (A : fmat) : fmat := map (fcol A) (seq 0 w).
Definition fmul (p : nat) (A B : fmat) : fmat :=
  let Bt := ftr p B in map (fun r => map (fdot r) Bt) A.
Definition fconst (m n : nat) (x : float) : fmat := repeat (repeat x n) m.
Definition fid (n : nat) : fmat :=
  map (fun i => map (fun j => if Nat.eqb i j then 1 else 0) (seq 0 n)) (seq 0 n).
Definition fget (A : fmat) (i j : nat) : float := nth j (nth i A []) 0.

Definition sfun_f (f : sfun) (t x : float) : float :=
  match f with
  | Finv_gt => if ltb t x then 1 / x else 0
  | Fsqrt_gt => if ltb t x then sqrt x else 0
  | Fisqrt_gt => if ltb t x then 1 / sqrt x else 0
  | Frecip => 1 / x
  | Fsqrt => sqrt x
  | Fsquare => x * x
  | Fneg => - x
  | Fpos_part => if ltb t x then x else 0
  end.

Fixpoint eval_f (env : nat -> fmat) {m n : nat} (e : mexp m n) : fmat :=
  match e with
  | @MVar _ _ x => env x
  | MConst z => [[fof_Z z]]
  | MZero m n => fconst m n 0
  | MOnes m n => fconst m n 1
  | MId n => fid n
  | MAdd a b => mmap2 add (eval_f env a) (eval_f env b)
  | MSub a b => mmap2 sub (eval_f env a) (eval_f env b)
  | @MMul _ _ p a b => fmul p (eval_f env a) (eval_f env b)
  | MScale c a => let s := fget (eval_f env c) 0 0 in map (map (mul s)) (eval_f env a)
  | @MTr _ n a => ftr n (eval_f env a)
  | @MDiag n v => let vv := eval_f env v in
      map (fun i => map (fun j => if Nat.eqb i j then fget vv i 0 else 0) (seq 0 n)) (seq 0 n)
  | @MDiagOf n a => let aa := eval_f env a in map (fun i => [fget aa i i]) (seq 0 n)
  | MMap f t a => let tt := fget (eval_f env t) 0 0 in map (map (sfun_f f tt)) (eval_f env a)
  | MHad a b => mmap2 mul (eval_f env a) (eval_f env b)
  | @MTrace n a => let aa := eval_f env a in [[fsum (map (fun i => fget aa i i) (seq 0 n))]]
  end.

(* ---- comparison helpers for the correspondence check --------------------------- *)
Definition fabs (x : float) : float := abs x.
(* max |entry|; NaN-propagating: if any entry is NaN the result is NaN (and stays NaN), so every
   comparison `leb (fmaxabs D) tol` / every scale built from it FAILS on NaN instead of skipping it *)
Definition fmaxabs (A : fmat) : float :=
  fold_left (fun acc r => fold_left (fun a x => let y := fabs x in
                                     if ltb a y then y else if eqb y y then a else y) r acc) A 0.
Fixpoint shape_eqb (A B : fmat) : bool :=
  match A, B with
  | [], [] => true
  | r :: A', s :: B' => Nat.eqb (length r) (length s) && shape_eqb A' B'
  | _, _ => false
  end%bool.
(* |A - B| <= atol + rtol * max(|A|,|B|)   entrywise max-norm; false on NaN or shape mismatch *)
Definition fclose (rtol atol : float) (A B : fmat) : bool :=
  (shape_eqb A B &&
   let d := fmaxabs (mmap2 sub A B) in
   let s := let a := fmaxabs A in let b := fmaxabs B in if ltb a b then b else a in
   leb d (atol + rtol * s))%bool.
