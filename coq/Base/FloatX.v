(* binary64 helpers (Coq primitive floats).  Used to reproduce Python's
   int(n_to_select_from * n_to_select) exactly: the product is rounded to binary64
   and then truncated toward zero. *)
From Coq Require Import ZArith PrimFloat Uint63 FloatOps SpecFloat.
Open Scope Z_scope.

Definition trunc_float (x : float) : Z :=
  match Prim2SF x with
  | S754_finite s m e =>
      let v := if 0 <=? e then Zpos m * 2 ^ e else Zpos m / 2 ^ (- e) in
      if s then - v else v
  | _ => 0
  end.

Definition float_of_Z (n : Z) : float := PrimFloat.of_uint63 (Uint63.of_Z n).

(* int(n * f) *)
Definition frac_resolve (n : Z) (f : float) : Z := trunc_float (PrimFloat.mul (float_of_Z n) f).
(* 0 < f <= 1 *)
Definition frac_valid (f : float) : bool := andb (PrimFloat.ltb 0%float f) (PrimFloat.leb f 1%float).
