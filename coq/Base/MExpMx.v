(* Layer A: interpretation of the matrix-expression language of Base/MExp.v over
   mathcomp matrices on an arbitrary real closed field.  Theorems of the algebraic
   properties are stated about [eval_mx env prog]; the very same [prog] is run on
   binary64 by [MExp.eval_f] in the correspondence check. *)
From mathcomp Require Import all_ssreflect all_algebra.
From Verif Require Import MExp.
Set Implicit Arguments.
Unset Strict Implicit.
Unset Printing Implicit Defensive.
Import GRing.Theory Num.Theory.
Local Open Scope ring_scope.

Section Eval.
  Variable F : rcfType.

  Definition env_mx := forall m n : nat, nat -> 'M[F]_(m, n).

  Definition sfun_mx (f : sfun) (t x : F) : F :=
    match f with
    | Finv_gt => if t < x then x^-1 else 0
    | Fsqrt_gt => if t < x then Num.sqrt x else 0
    | Fisqrt_gt => if t < x then (Num.sqrt x)^-1 else 0
    | Frecip => x^-1
    | Fsqrt => Num.sqrt x
    | Fsquare => x * x
    | Fneg => - x
    | Fpos_part => if t < x then x else 0
    end.

  Definition Z2F (z : BinNums.Z) : F :=
    match z with
    | BinNums.Z0 => 0
    | BinNums.Zpos p => (BinPos.Pos.to_nat p)%:R
    | BinNums.Zneg p => - (BinPos.Pos.to_nat p)%:R
    end.

  Fixpoint eval_mx (env : env_mx) (m n : nat) (e : mexp m n) : 'M[F]_(m, n) :=
    match e in mexp m n return 'M[F]_(m, n) with
    | @MVar m n x => env m n x
    | MConst z => (Z2F z)%:M
    | MZero m n => 0
    | MOnes m n => const_mx 1
    | MId n => 1%:M
    | @MAdd _ _ a b => eval_mx env a + eval_mx env b
    | @MSub _ _ a b => eval_mx env a - eval_mx env b
    | @MMul _ _ _ a b => eval_mx env a *m eval_mx env b
    | @MScale _ _ c a => (eval_mx env c) ord0 ord0 *: eval_mx env a
    | @MTr _ _ a => (eval_mx env a)^T
    | @MDiag _ v => diag_mx (eval_mx env v)^T
    | @MDiagOf _ a => \col_i (eval_mx env a) i i
    | @MMap _ _ f t a => map_mx (sfun_mx f ((eval_mx env t) ord0 ord0)) (eval_mx env a)
    | @MHad _ _ a b => \matrix_(i, j) ((eval_mx env a) i j * (eval_mx env b) i j)
    | @MTrace _ a => (\tr (eval_mx env a))%:M
    end.
End Eval.

(* ---- a worked example: the PCovR modified Gram matrix -------------------------------
   prog:  K~ = a * X X^T + (1 - a) * Yh Yh^T   with variables 0:=X, 1:=Yh, 2:=a (1x1). *)
Definition kernel_prog (n m p : nat) : mexp n n :=
  MAdd (MScale (MVar (m:=1) (n:=1) 2) (MMul (MVar (m:=n) (n:=m) 0) (MTr (MVar (m:=n) (n:=m) 0))))
       (MScale (MSub (MConst (BinNums.Zpos BinNums.xH)) (MVar (m:=1) (n:=1) 2))
               (MMul (MVar (m:=n) (n:=p) 1) (MTr (MVar (m:=n) (n:=p) 1)))).

Section Example.
  Variable F : rcfType.
  Variables (n m p : nat) (env : env_mx F).
  Let X : 'M[F]_(n, m) := env n m 0%N.
  Let Yh : 'M[F]_(n, p) := env n p 1%N.
  Let a : F := (env 1%N 1%N 2%N) ord0 ord0.

  Lemma kernel_prog_formula :
    eval_mx env (kernel_prog n m p) = a *: (X *m X^T) + (1 - a) *: (Yh *m Yh^T).
  Proof. by rewrite /= !mxE /= mulr1n. Qed.

  (* the modified Gram matrix is symmetric *)
  Lemma kernel_prog_sym : (eval_mx env (kernel_prog n m p))^T = eval_mx env (kernel_prog n m p).
  Proof. by rewrite kernel_prog_formula linearD /= !linearZ /= !trmx_mul !trmxK. Qed.
End Example.
