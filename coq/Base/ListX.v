(* Base list/arith helpers for the discrete (layer D) models.  Stdlib style only. *)
From Coq Require Export List ZArith Bool Lia Arith.
Export ListNotations.
Open Scope Z_scope.

(* ---- extended integers: None = +infinity (np.inf) --------------------------- *)
Notation ExtZ := (option Z) (only parsing).
Definition ext_min (a : ExtZ) (b : Z) : ExtZ :=
  match a with None => Some b | Some x => Some (Z.min x b) end.
Definition ext_ltb_z (b : Z) (a : ExtZ) : bool :=      (* b < a *)
  match a with None => true | Some x => b <? x end.
Definition ext_get (a : ExtZ) : Z := match a with Some x => x | None => 0 end.

(* ---- map2 (numpy element-wise binary op on equal-length arrays) ------------- *)
Fixpoint map2 {A B C} (f : A -> B -> C) (l : list A) (m : list B) : list C :=
  match l, m with
  | a :: l', b :: m' => f a b :: map2 f l' m'
  | _, _ => []
  end.

Lemma map2_length {A B C} (f : A -> B -> C) l m :
  length (map2 f l m) = Nat.min (length l) (length m).
Proof. revert m; induction l as [|a l IH]; intros [|b m]; cbn; auto. Qed.

Lemma map2_map_r {A B C D} (f : A -> B -> C) (g : D -> B) l m :
  map2 f l (map g m) = map2 (fun a d => f a (g d)) l m.
Proof. revert m; induction l as [|a l IH]; intros [|b m]; cbn; auto. now rewrite IH. Qed.

Lemma map2_map_l {A B C D} (f : A -> B -> C) (g : D -> A) l m :
  map2 f (map g l) m = map2 (fun d b => f (g d) b) l m.
Proof. revert m; induction l as [|a l IH]; intros [|b m]; cbn; auto. now rewrite IH. Qed.

Lemma map2_same {A C} (f : A -> A -> C) l : map2 f l l = map (fun a => f a a) l.
Proof. induction l as [|a l IH]; cbn; auto. now rewrite IH. Qed.

Lemma map2_ext {A B C} (f g : A -> B -> C) l m :
  (forall a b, f a b = g a b) -> map2 f l m = map2 g l m.
Proof. intros H; revert m; induction l as [|a l IH]; intros [|b m]; cbn; auto. now rewrite H, IH. Qed.

(* ---- vectors over Z ---------------------------------------------------------- *)
Definition zsum (l : list Z) : Z := fold_right Z.add 0 l.
Definition dot (u v : list Z) : Z := zsum (map2 Z.mul u v).
Definition sqn (u : list Z) : Z := dot u u.
Definition vsub (u v : list Z) : list Z := map2 Z.sub u v.
Definition sqdist (u v : list Z) : Z := sqn (vsub u v).

(* transpose of a rectangular matrix given as list of rows; [w] = number of columns *)
Definition col (X : list (list Z)) (j : nat) : list Z := map (fun r => nth j r 0) X.
Definition transpose (w : nat) (X : list (list Z)) : list (list Z) :=
  map (col X) (seq 0 w).

(* ---- first-index arg-max over optional scores (None = excluded) -------------- *)
(* np.argmax returns the first index attaining the maximum. *)
Fixpoint amax (l : list (option Z)) : option (nat * Z) :=
  match l with
  | [] => None
  | x :: t =>
      match amax t, x with
      | None, None => None
      | None, Some v => Some (O, v)
      | Some (j, w), None => Some (S j, w)
      | Some (j, w), Some v => if w <=? v then Some (O, v) else Some (S j, w)
      end
  end.

Fixpoint amin (l : list Z) : option (nat * Z) :=
  match l with
  | [] => None
  | v :: t =>
      match amin t with
      | None => Some (O, v)
      | Some (j, w) => if v <=? w then Some (O, v) else Some (S j, w)
      end
  end.

Definition memb (i : nat) (l : list nat) : bool := existsb (Nat.eqb i) l.

(* scores with the already-selected indices masked out *)
Fixpoint mask_from (i : nat) (sel : list nat) (sc : list Z) : list (option Z) :=
  match sc with
  | [] => []
  | s :: t => (if memb i sel then None else Some s) :: mask_from (S i) sel t
  end.
Definition mask := mask_from 0.

(* update position i of a list *)
Fixpoint upd_nth {A} (i : nat) (x : A) (l : list A) : list A :=
  match l, i with
  | [], _ => []
  | _ :: t, O => x :: t
  | a :: t, S i' => a :: upd_nth i' x t
  end.

Lemma upd_nth_length {A} i (x : A) l : length (upd_nth i x l) = length l.
Proof. revert i; induction l as [|a l IH]; intros [|i]; cbn; auto. Qed.

(* insertion sort on nat (sorted(selected_idx_)) *)
Fixpoint ins (x : nat) (l : list nat) : list nat :=
  match l with
  | [] => [x]
  | y :: t => if Nat.leb x y then x :: l else y :: ins x t
  end.
Definition sort_nat (l : list nat) : list nat := fold_right ins [] l.

(* ---- boolean equality used by the correspondence checks --------------------- *)
Fixpoint list_eqb {A} (e : A -> A -> bool) (l m : list A) : bool :=
  match l, m with
  | [], [] => true
  | a :: l', b :: m' => e a b && list_eqb e l' m'
  | _, _ => false
  end.
Definition opt_eqb {A} (e : A -> A -> bool) (a b : option A) : bool :=
  match a, b with
  | None, None => true
  | Some x, Some y => e x y
  | _, _ => false
  end.
Definition zl_eqb := list_eqb Z.eqb.
Definition zm_eqb := list_eqb zl_eqb.
Definition nl_eqb := list_eqb Nat.eqb.
Definition el_eqb := list_eqb (opt_eqb Z.eqb).
Definition bl_eqb := list_eqb Bool.eqb.

(* indices (0-based) of the failing cases in a list of verdicts *)
Fixpoint failing_from (i : nat) (l : list bool) : list nat :=
  match l with
  | [] => []
  | b :: t => if b then failing_from (S i) t else i :: failing_from (S i) t
  end.
Definition failing := failing_from 0.
