(* C20 — prediction rigidities (LPR, CPR, LCPR) follow their closed form and scaling laws.
   Statements only; every proof is `exact <lemma>` from Proofs/RigidityP.v (algebra, over an
   arbitrary real closed field F and all shapes) or Proofs/RigidityListP.v (list bookkeeping).

   Model: Model/Rigidity.v.  The numeric routines are the mexp programs
     lpr_prog d N Nt, lcpr_prog d N Nt, cpr_prog d N Nt St   (column of rigidities)
   over an environment [env] holding (accessors e_Xtr, e_Mtr, ...):
     e_Xtr  N x d   stacked training environments        e_Mtr  S x N   0/1 membership (train)
     e_Xte  Nt x d  stacked test environments            e_Mte  St x Nt 0/1 membership (test)
     e_alpha        regulariser                          e_Xinv d x d   ORACLE (np.linalg.pinv)
     e_mask 1 x d   0/1 mask of the current component
   [rig_hyp env d N S] is the oracle hypothesis  (XX + alpha I) * Xinv = I  evaluated by the
   program hyp_prog.  Notation of the specifications (Proofs/RigidityP.v):
     sf2 X        = sum_f mean_a X[a,f]^2 (squared global scale factor), isf X = 1/sqrt(sf2 X)
     avg M        = row-normalised membership matrix (row s of avg M * X is a structure mean)
     Xstruc .. env = isf Xtr *: (avg Mtr *m Xtr)     (scaled per-structure means, S x d)
     reg Z a      = Z^T Z + a I,     qf P x = x P x^T,     maskrow m x = x .* m
     x_env env i  = isf Xtr *: row i Xte,   x_struc env s = isf Xtr *: row s (avg Mte *m Xte). *)
From mathcomp Require Import all_ssreflect all_algebra.
From Verif Require Import MExp MExpMx Rigidity RigidityListP RigidityP RigidityExt RigidityExtP.
Import GRing.Theory Num.Theory.
Close Scope float_scope.
Local Open Scope ring_scope.

(* every entry is 1 / (x (XX + alpha I)^-1 x^T) with the stated x: the oracle hypothesis
   determines Xinv to be THE inverse of the regularised covariance *)
Theorem C20_closed_form :
  forall (F : rcfType) (d N S Nt St : nat) (env : env_mx F),
    rig_hyp env d N S ->
    let A := reg (Xstruc d N S env) (e_alpha env) in
    [/\ forall i, (eval_mx env (lpr_prog d N Nt)) i ord0
                  = (qf (invmx A) (@x_env F d N Nt env i))^-1,
        forall i, (eval_mx env (lcpr_prog d N Nt)) i ord0
                  = (qf (invmx A) (maskrow (e_mask env d) (@x_env F d N Nt env i)))^-1
      & forall s, (eval_mx env (cpr_prog d N Nt St)) s ord0
                  = (qf (invmx A) (maskrow (e_mask env d) (@x_struc F d N Nt St env s)))^-1].
Proof. exact rig_closed_form. Qed.
Print Assumptions C20_closed_form.

(* ... where, for the membership matrix of a list of structure lengths, the averaged rows
   are the per-structure means of the rows owned by the structure *)
Theorem C20_struct_means :
  forall (F : rcfType) (lens : seq nat) (d : nat) (X : 'M[F]_(lsum lens, d))
         (s : 'I_(size lens)) (f : 'I_d),
    (avg (member_mx F lens) *m X) s f
    = (\sum_(a | mem_of s a) X a f) / (List.nth s lens 0%N)%:R.
Proof. exact rig_struct_means. Qed.
Print Assumptions C20_struct_means.

(* structure s owns exactly the stacked rows offset(s) <= a < offset(s) + lens[s] *)
Theorem C20_membership :
  forall (lens : list nat) (s a : nat), (s < length lens)%coq_nat -> (a < lsum lens)%coq_nat ->
    List.nth a (List.nth s (member_rows lens) nil) false
    = Nat.leb (lsum (List.firstn s lens)) a && Nat.ltb a (lsum (List.firstn s lens) + List.nth s lens 0%N)%coq_nat.
Proof. exact member_rows_spec. Qed.
Print Assumptions C20_membership.

(* strictly positive: alpha > 0, training data not identically zero, the (masked) row non-zero *)
Theorem C20_positive :
  forall (F : rcfType) (d N S Nt St : nat) (env : env_mx F),
    0 < e_alpha env -> rig_hyp env d N S -> 0 < sf2 (e_Xtr env N d) ->
    [/\ forall i, row i (e_Xte env Nt d) != 0 -> 0 < (eval_mx env (lpr_prog d N Nt)) i ord0,
        forall i, maskrow (e_mask env d) (row i (e_Xte env Nt d)) != 0 ->
                  0 < (eval_mx env (lcpr_prog d N Nt)) i ord0
      & forall s, maskrow (e_mask env d) (row s (avg (e_Mte env St Nt) *m e_Xte env Nt d)) != 0 ->
                  0 < (eval_mx env (cpr_prog d N Nt St)) s ord0].
Proof. exact rig_positive. Qed.
Print Assumptions C20_positive.

(* invariant under a common rescaling X -> cX (c <> 0, either sign) of all train and test
   features; each side uses its own oracle value *)
Theorem C20_scale_invariant :
  forall (F : rcfType) (d N S Nt St : nat) (c : F) (env env' : env_mx F),
    c != 0 -> rescaled d N S Nt St c env env' -> rig_hyp env d N S -> rig_hyp env' d N S ->
    [/\ eval_mx env' (lpr_prog d N Nt) = eval_mx env (lpr_prog d N Nt),
        eval_mx env' (lcpr_prog d N Nt) = eval_mx env (lcpr_prog d N Nt)
      & eval_mx env' (cpr_prog d N Nt St) = eval_mx env (cpr_prog d N Nt St)].
Proof. exact rig_scale_invariant. Qed.
Print Assumptions C20_scale_invariant.

(* non-decreasing in alpha: same data, 0 < alpha <= alpha', each with its own oracle value *)
Theorem C20_monotone_alpha :
  forall (F : rcfType) (d N S Nt St : nat) (env env' : env_mx F),
    same_data d N S Nt St env env' -> 0 < e_alpha env -> e_alpha env <= e_alpha env' ->
    rig_hyp env d N S -> rig_hyp env' d N S -> 0 < sf2 (e_Xtr env N d) ->
    [/\ forall i, row i (e_Xte env Nt d) != 0 ->
                  (eval_mx env (lpr_prog d N Nt)) i ord0 <= (eval_mx env' (lpr_prog d N Nt)) i ord0,
        forall i, maskrow (e_mask env d) (row i (e_Xte env Nt d)) != 0 ->
                  (eval_mx env (lcpr_prog d N Nt)) i ord0 <= (eval_mx env' (lcpr_prog d N Nt)) i ord0
      & forall s, maskrow (e_mask env d) (row s (avg (e_Mte env St Nt) *m e_Xte env Nt d)) != 0 ->
                  (eval_mx env (cpr_prog d N Nt St)) s ord0 <= (eval_mx env' (cpr_prog d N Nt St)) s ord0].
Proof. exact rig_monotone_alpha. Qed.
Print Assumptions C20_monotone_alpha.

(* the returned lists, concatenated, are the per-environment values in input order, and the
   list lengths are the structures' environment counts (any element type: floats, field
   elements, rows of LCPR) *)
Theorem C20_order_and_split :
  forall (A : Type) (lens : list nat) (l : list A),
    lsum lens = length l ->
    List.concat (split_lens lens l) = l /\ List.map (@length A) (split_lens lens l) = lens.
Proof. exact split_lens_order_and_split. Qed.
Print Assumptions C20_order_and_split.

(* ... position j of the i-th returned list is environment offset(i)+j *)
Theorem C20_split_entry :
  forall (A : Type) (dflt : A) (lens : list nat) (l : list A) (i j : nat),
    lsum lens = length l -> (i < length lens)%coq_nat -> (j < List.nth i lens 0%N)%coq_nat ->
    List.nth j (List.nth i (split_lens lens l) nil) dflt
    = List.nth (lsum (List.firstn i lens) + j)%coq_nat l dflt.
Proof. exact split_lens_nth. Qed.
Print Assumptions C20_split_entry.

(* the component masks built from cumulative comp_dims partition the feature indices *)
Theorem C20_masks_partition :
  forall (dims : list nat) (t : nat), (t < lsum dims)%coq_nat ->
    exists ci, (ci < length dims)%coq_nat /\ List.nth t (comp_mask dims ci) false = true /\
      forall cj, (cj < length dims)%coq_nat -> List.nth t (comp_mask dims cj) false = true -> cj = ci.
Proof. exact comp_mask_partition. Qed.
Print Assumptions C20_masks_partition.

(* LCPR with a single component (comp_dims = [d]) equals LPR *)
Theorem C20_lcpr_single_component :
  forall (F : rcfType) (d N Nt : nat) (env : env_mx F),
    e_mask env d = bvec_mx F d (comp_mask [:: d] 0) ->
    eval_mx env (lcpr_prog d N Nt) = eval_mx env (lpr_prog d N Nt).
Proof. exact rig_lcpr_single_component. Qed.
Print Assumptions C20_lcpr_single_component.

(* CPR of a one-environment structure equals the LCPR of that environment (every component) *)
Theorem C20_cpr_single_environment :
  forall (F : rcfType) (d N : nat) (lte : seq nat) (env : env_mx F)
         (s : 'I_(size lte)) (a : 'I_(lsum lte)),
    e_Mte env (size lte) (lsum lte) = member_mx F lte ->
    List.nth s lte 0%N = 1%N -> (a : nat) = lsum (List.firstn s lte) ->
    (eval_mx env (cpr_prog d N (lsum lte) (size lte))) s ord0
    = (eval_mx env (lcpr_prog d N (lsum lte))) a ord0.
Proof. exact rig_cpr_single_environment. Qed.
Print Assumptions C20_cpr_single_environment.

(* the oracle hypothesis is satisfiable for every data set and every alpha > 0 *)
Theorem C20_oracle_exists :
  forall (F : rcfType) (d k : nat) (Z : 'M[F]_(k, d)) (a : F),
    0 < a -> exists P : 'M[F]_d, reg Z a *m P = 1%:M.
Proof. exact rig_oracle_exists. Qed.
Print Assumptions C20_oracle_exists.

(* non-vacuity: a concrete environment over every real closed field meets all hypotheses
   of the theorems above (X_train = [[1]], alpha = 1, Xinv = 1/2) and has LPR = 2 *)
Example C20_nonvacuous :
  forall F : rcfType,
    [/\ rig_hyp (tiny_env F) 1 1 1, 0 < e_alpha (tiny_env F), 0 < sf2 (e_Xtr (tiny_env F) 1 1),
        row ord0 (e_Xte (tiny_env F) 1 1) != 0
      & (eval_mx (tiny_env F) (lpr_prog 1 1 1)) ord0 ord0 = 2%:R].
Proof. exact tiny_env_ok. Qed.

(* ======================================================================================
   Round 3: the rank_diff clause, and the zero-denominator characterisation.
   Model/RigidityExt.v: [rank_of_sv_g ops dim sv] is numpy's matrix_rank rule
     #{ s in sv | s > max(sv) * dim * eps }   written once over a record of operations;
   [float_ops] is its binary64 instance (eps = 2^-52), [F_ops e] its instance over a real
   closed field with eps = e.  The SVD that matrix_rank computes is an oracle held in the
   variables e_U (d x d), e_S (d x 1), e_Vt (d x d); [svd_hyp env d N S] says that the three
   residual programs  U diag(s) Vt - Xprime,  U^T U - I,  Vt Vt^T - I  evaluate to 0
   (the run evaluates the same programs in binary64 on the model's Xprime).
   [svl env d] is the list of the entries of e_S. *)

(* (the binary64 rule used since round 1, Rigidity.rank_diff_model, is [rank_diff_g float_ops]
   by conversion: RigidityExtP.rank_diff_generic; the round-3 verdicts evaluate
   [rank_diff_g float_ops] itself) *)

(* rank of a decomposition with invertible outer factors = number of non-zero values *)
Theorem C20_rank_of_decomposition :
  forall (F : rcfType) (d : nat) (U V : 'M[F]_d) (s : 'rV[F]_d),
    U \in unitmx -> V \in unitmx ->
    \rank (U *m diag_mx s *m V) = #|[pred i | s ord0 i != 0]|.
Proof. exact rank_svd. Qed.
Print Assumptions C20_rank_of_decomposition.

(* the reported rank difference is the feature dimension minus the rank of the regularised
   covariance, whenever the threshold separates the non-zero singular values from 0 *)
Theorem C20_rank_diff :
  forall (F : rcfType) (d N S : nat) (e : F) (env : env_mx F),
    svd_hyp env d N S -> 0 <= e ->
    (forall i, e_S env d i ord0 != 0 -> sv_tol (F_ops e) d (svl env d) < e_S env d i ord0) ->
    rank_diff_g (F_ops e) d (svl env d)
    = (d - \rank (reg (Xstruc d N S env) (e_alpha env)))%N.
Proof. exact rig_rank_diff. Qed.
Print Assumptions C20_rank_diff.

(* ... and in every case it is the dimension minus the rank of the decomposition with the
   singular values at or below the threshold set to zero *)
Theorem C20_rank_diff_truncated :
  forall (F : rcfType) (d N S : nat) (e : F) (env : env_mx F),
    svd_hyp env d N S -> 0 <= e ->
    rank_diff_g (F_ops e) d (svl env d)
    = (d - \rank (e_U env d *m diag_mx (trunc_sv d e env) *m e_Vt env d))%N.
Proof. exact rig_rank_diff_trunc. Qed.
Print Assumptions C20_rank_diff_truncated.

(* alpha > 0: the regularised covariance has full rank (exact difference 0); the reported
   value counts the singular values at or below the threshold, and is 0 when the threshold
   separates *)
Theorem C20_rank_diff_alpha_pos :
  forall (F : rcfType) (d N S : nat) (e : F) (env : env_mx F),
    0 < e_alpha env ->
    [/\ \rank (reg (Xstruc d N S env) (e_alpha env)) = d,
        rank_diff_g (F_ops e) d (svl env d)
        = #|[pred i | e_S env d i ord0 <= sv_tol (F_ops e) d (svl env d)]|
      & svd_hyp env d N S -> 0 <= e ->
        (forall i, e_S env d i ord0 != 0 -> sv_tol (F_ops e) d (svl env d) < e_S env d i ord0) ->
        rank_diff_g (F_ops e) d (svl env d) = 0%N].
Proof. exact rig_rank_diff_alpha_pos. Qed.
Print Assumptions C20_rank_diff_alpha_pos.

(* alpha = 0: the rank is that of the averaged, scaled training features (Gram matrix) *)
Theorem C20_rank_alpha_zero :
  forall (F : rcfType) (d N S : nat) (env : env_mx F),
    e_alpha env = 0 ->
    \rank (reg (Xstruc d N S env) (e_alpha env)) = \rank (Xstruc d N S env).
Proof. exact rig_rank_alpha0. Qed.
Print Assumptions C20_rank_alpha_zero.

(* the rigidity programs are the entrywise reciprocals of the denominator programs, and
   (alpha > 0) a denominator is 0 exactly when the (masked) test row / structure mean is the
   zero row: then and only then the implementation returns 1/0 = +inf *)
Theorem C20_denominator_zero :
  forall (F : rcfType) (d N S Nt St : nat) (env : env_mx F),
    0 < e_alpha env -> rig_hyp env d N S -> 0 < sf2 (e_Xtr env N d) ->
    [/\ forall i, ((eval_mx env (lpr_den_prog d N Nt)) i ord0 == 0)
                  = (row i (e_Xte env Nt d) == 0),
        forall i, ((eval_mx env (lcpr_den_prog d N Nt)) i ord0 == 0)
                  = (maskrow (e_mask env d) (row i (e_Xte env Nt d)) == 0)
      & forall s, ((eval_mx env (cpr_den_prog d N Nt St)) s ord0 == 0)
                  = (maskrow (e_mask env d) (row s (avg (e_Mte env St Nt) *m e_Xte env Nt d)) == 0)].
Proof. exact rig_denominator_zero. Qed.
Print Assumptions C20_denominator_zero.

Theorem C20_programs_are_reciprocals :
  forall d N Nt St : nat,
    [/\ lpr_prog d N Nt = MMap Frecip t0 (lpr_den_prog d N Nt),
        lcpr_prog d N Nt = MMap Frecip t0 (lcpr_den_prog d N Nt)
      & cpr_prog d N Nt St = MMap Frecip t0 (cpr_den_prog d N Nt St)].
Proof. exact (fun d N Nt St => And3 (lpr_prog_den d N Nt) (lcpr_prog_den d N Nt) (cpr_prog_den d N Nt St)). Qed.
Print Assumptions C20_programs_are_reciprocals.

(* non-vacuity of the rank theorems: tiny_env with the decomposition 2 = 1 * 2 * 1 and
   eps = 1/2 (threshold 1 < 2) meets svd_hyp and the separation hypothesis; rank_diff = 0 *)
Example C20_nonvacuous_rank :
  forall F : rcfType,
    [/\ svd_hyp (tiny_env_x F) 1 1 1, 0 < e_alpha (tiny_env_x F),
        forall i, e_S (tiny_env_x F) 1 i ord0 != 0 ->
                  sv_tol (F_ops (2%:R^-1 : F)) 1 (svl (tiny_env_x F) 1) < e_S (tiny_env_x F) 1 i ord0
      & rank_diff_g (F_ops (2%:R^-1 : F)) 1 (svl (tiny_env_x F) 1) = 0%N].
Proof. exact tiny_env_x_ok. Qed.
