(* C05 — KernelPCovR agrees with PCovR and its kernel plumbing; scores any held-out set.
   Statements only; every proof is `exact <lemma>` from Proofs/KPCovRP.v.

   Model: Model/KPCovR.v — KernelPCovR._fit / transform / predict / score, KernelNormalizer and
   sample-space PCovR as programs of the typed matrix-expression language Base/MExp.v.
   [eval_mx env prog] (Base/MExpMx.v) interprets a program over an ARBITRARY real closed field F;
   the same programs are run on binary64 against the implementation in the per-run check.
   Shapes: n training samples, p targets, k components, v new samples, d features - all arbitrary.
   Variables of the programs ([env rows cols id]):
     vK  n x n training kernel      vKt v x n kernel new-vs-train     vKvv v x v kernel new-vs-new
     vYh n x p Yhat                 vW  n x p dual weights            vY   n x p targets of fit
     va  1 x 1 mixing               vtol 1 x 1 tol                    vYv  v x p targets of score
   oracles (LAPACK results, constrained by the hypotheses that name them):
     vV n x k, vS k x 1  singular pairs of K~ used by _fit;  vPT k x n = pt__ = pinv(T);
     vG k x k = pinv(t_n^T t_n) in score.
   [penrose A X] = the four Moore-Penrose equations.  Kernel evaluation itself is an oracle:
   the programs read the data only through kernel matrices, so "named kernel = that kernel
   precomputed" holds by construction of the model and is checked against the implementation in
   the correspondence check. *)
From mathcomp Require Import all_ssreflect all_algebra.
From Verif Require Import MExp MExpMx KPCovR KPCovRP KPCovRExtP KPCovRState KPCovRStateP KPCovRGuard KPCovRGuardP.
Import GRing.Theory Num.Theory.
Local Open Scope ring_scope.

(* ---- linear kernel = sample-space PCovR -----------------------------------------------------
   With K = X X^T, K_VN = X' X^T and primal weights X^T W (W the dual weights) the modified Gram
   matrix is PCovR's, every new sample gets the same latent coordinates as from sample-space
   PCovR's P_XT (no assumption on the eigen-solver beyond both using the same answer), hence the
   same T T^T; and under the oracle post-conditions the predictions coincide. *)
Theorem C05_linear_is_pcovr :
  forall (F : rcfType) (n d p k v : nat) (env : env_mx F),
    let K := env n n vK in let Kt := env v n vKt in let X := env n d vX in
    let Xt := env v d vXt in let W := env n p vW in let Wx := env d p vWx in
    let Yh := env n p vYh in let V := env n k vV in let S := env k 1%N vS in
    let tol := (env 1%N 1%N vtol) ord0 ord0 in let PT := env k n vPT in
    K = X *m X^T -> Kt = Xt *m X^T -> Wx = X^T *m W ->
    [/\ eval_mx env (ktilde_prog n p) = eval_mx env (pc_ktilde n d p),
        eval_mx env (transform_prog n p k v) = eval_mx env (@pc_transform n d p k v),
        eval_mx env (tt_prog n p k v)
        = eval_mx env (@pc_transform n d p k v) *m (eval_mx env (@pc_transform n d p k v))^T
      & Yh = K *m W ->
        eval_mx env (ktilde_prog n p) *m V = V *m diag_mx S^T -> V^T *m V = 1%:M ->
        0 <= tol -> (forall i, tol < S i ord0) ->
        penrose (eval_mx env (T_prog n p k)) PT ->
        eval_mx env (predict_prog n p k v) = eval_mx env (@pc_predict n d p k v)].
Proof. exact linear_is_pcovr. Qed.
Print Assumptions C05_linear_is_pcovr.

(* ---- the latent coordinates of the training set, any mixing (regressor path Yhat = K W) ------ *)
Theorem C05_latent_is_eigen :
  forall (F : rcfType) (n p k : nat) (env : env_mx F),
    env n p vYh = env n n vK *m env n p vW ->
    eval_mx env (ktilde_prog n p) *m env n k vV = env n k vV *m diag_mx (env k 1%N vS)^T ->
    0 <= (env 1%N 1%N vtol) ord0 ord0 ->
    (forall i, (env 1%N 1%N vtol) ord0 ord0 < (env k 1%N vS) i ord0) ->
    eval_mx env (T_prog n p k) = env n k vV *m diag_mx (\row_i Num.sqrt ((env k 1%N vS) i ord0)).
Proof. exact T_eigen. Qed.
Print Assumptions C05_latent_is_eigen.

(* pt__ is pinned down by its Penrose equations: it is S^{-1/2} V^T *)
Theorem C05_pt_is_pinv :
  forall (F : rcfType) (n p k : nat) (env : env_mx F),
    env n p vYh = env n n vK *m env n p vW ->
    eval_mx env (ktilde_prog n p) *m env n k vV = env n k vV *m diag_mx (env k 1%N vS)^T ->
    (env n k vV)^T *m env n k vV = 1%:M ->
    0 <= (env 1%N 1%N vtol) ord0 ord0 ->
    (forall i, (env 1%N 1%N vtol) ord0 ord0 < (env k 1%N vS) i ord0) ->
    penrose (eval_mx env (T_prog n p k)) (env k n vPT) ->
    env k n vPT = diag_mx (\row_i (Num.sqrt ((env k 1%N vS) i ord0))^-1) *m (env n k vV)^T.
Proof. exact PT_value. Qed.
Print Assumptions C05_pt_is_pinv.

(* ---- center=True = explicit KernelNormalizer on the train and test blocks ---------------------
   [msubst (s_center n v) e] is the program e with every kernel block replaced by the normaliser
   program applied to the raw block (what the code does when center=True); it evaluates like e
   itself in any environment env' that holds the explicitly normalised blocks
   ([knorm_mx] = KernelNormalizer.transform written out: subtract the training column means and
   the block's row means, add the training grand mean, divide by trace/n of the centred training
   kernel) and agrees with env elsewhere.  Holds for every program e of the model. *)
Theorem C05_center_is_normalizer :
  forall (F : rcfType) (n : nat) (env : env_mx F) (v : nat) (env' : env_mx F) (a b : nat) (e : mexp a b),
    env' n n vK = knorm_mx (env n n vK) (env n n vK) ->
    env' v n vKt = knorm_mx (env n n vK) (env v n vKt) ->
    env' v v vKvv = knorm_vv_mx (env n n vK) (env v n vKt) (env v v vKvv) ->
    (forall r c x, ~ (r = n /\ c = n /\ x = vK) -> ~ (r = v /\ c = n /\ x = vKt) ->
                   ~ (r = v /\ c = v /\ x = vKvv) -> env' r c x = env r c x) ->
    eval_mx env (msubst (s_center n v) e) = eval_mx env' e.
Proof. exact center_is_normalizer. Qed.
Print Assumptions C05_center_is_normalizer.

(* what the normalised blocks are: the Gram blocks of the features centred on the TRAINING mean
   and scaled by 1/s - for the train-train, new-train and (repaired score) new-new block alike *)
Theorem C05_center_blocks_feature_space :
  forall (F : rcfType) (n d v : nat) (Phi : 'M[F]_(n, d)) (PhiV : 'M[F]_(v, d)),
    let mu : 'rV[F]_d := n%:R^-1 *: (const_mx 1 *m Phi) in
    let C := Phi - const_mx 1 *m mu in let CV := PhiV - const_mx 1 *m mu in
    let K := Phi *m Phi^T in let s := kn_scale K in
    [/\ knorm_mx K K = s^-1 *: (C *m C^T),
        knorm_mx K (PhiV *m Phi^T) = s^-1 *: (CV *m C^T)
      & knorm_vv_mx K (PhiV *m Phi^T) (PhiV *m PhiV^T) = s^-1 *: (CV *m CV^T)].
Proof. exact center_blocks_feature_space. Qed.
Print Assumptions C05_center_blocks_feature_space.

(* ---- mixing = 1: kernel PCA --------------------------------------------------------------------
   T = V S^{1/2} of the kernel handed to _fit, new samples are projected by K_VN V S^{-1/2};
   no hypothesis on the regression. *)
Theorem C05_kpca_limit :
  forall (F : rcfType) (n p k v : nat) (env : env_mx F),
    let K := env n n vK in let Kt := env v n vKt in let V := env n k vV in
    let S := env k 1%N vS in let tol := (env 1%N 1%N vtol) ord0 ord0 in
    (env 1%N 1%N va) ord0 ord0 = 1 ->
    K *m V = V *m diag_mx S^T -> 0 <= tol -> (forall i, tol < S i ord0) ->
    eval_mx env (T_prog n p k) = V *m diag_mx (\row_i Num.sqrt (S i ord0)) /\
    eval_mx env (transform_prog n p k v) = Kt *m V *m diag_mx (\row_i (Num.sqrt (S i ord0))^-1).
Proof. exact kpca_limit. Qed.
Print Assumptions C05_kpca_limit.

(* ... and when that kernel is Kc/s (centred kernel divided by the normaliser's scale s > 0) the
   projections are kernel PCA's V sqrt(lambda) of Kc divided by sqrt(s) *)
Theorem C05_kpca_limit_scaled :
  forall (F : rcfType) (n p k : nat) (env : env_mx F) (Kc : 'M[F]_n) (lam : 'cV[F]_k) (s : F),
    0 < s -> env n n vK = s^-1 *: Kc -> Kc *m env n k vV = env n k vV *m diag_mx lam^T ->
    env k 1%N vS = s^-1 *: lam -> (env 1%N 1%N va) ord0 ord0 = 1 ->
    0 <= (env 1%N 1%N vtol) ord0 ord0 ->
    (forall i, (env 1%N 1%N vtol) ord0 ord0 < (env k 1%N vS) i ord0) ->
    eval_mx env (T_prog n p k)
    = (Num.sqrt s)^-1 *: (env n k vV *m diag_mx (\row_i Num.sqrt (lam i ord0))).
Proof. exact kpca_scaled. Qed.
Print Assumptions C05_kpca_limit_scaled.

(* ---- score: shapes -----------------------------------------------------------------------------
   [raw_score_doc] is the documented formula  -(tr[K_VV - 2 K_VN w + w^T K_NN w]/tr K_VV + l_regr),
   w = t_n pinv(t_n^T t_n) t_v^T, in an UNTYPED syntax on which [rshape] checks shapes the way numpy
   does.  It is exactly the erasure of the typed program [score_prog n p k v] and is well-formed
   (a 1 x 1 result) for every n, p, k and every number v of held-out samples. *)
Theorem C05_score_shapes :
  forall n p k v : nat,
    raw_score_doc n p k v = erase (score_prog n p k v) /\
    rshape (raw_score_doc n p k v) = Some (1%N, 1%N).
Proof. exact score_shapes. Qed.
Print Assumptions C05_score_shapes.

(* every typed program is shape-correct: the checker accepts all of the model *)
Theorem C05_typed_programs_shape_check :
  forall (m n : nat) (e : mexp m n), rshape (erase e) = Some (m, n).
Proof. exact rshape_erase. Qed.
Print Assumptions C05_typed_programs_shape_check.

(* the formula of the code before the repair (w^T K_VV w) is well-formed iff n_V = n_N:
   see Findings/F4_kpcovr_score_blocks.v *)
Theorem C05_score_shapes_code_before_fix :
  forall n p k v : nat,
    rshape (raw_score_code_before_fix n p k v)
    = if PeanoNat.Nat.eqb n v then Some (1%N, 1%N) else None.
Proof. exact score_code_before_fix_shapes. Qed.
Print Assumptions C05_score_shapes_code_before_fix.

(* ---- score on the training set -----------------------------------------------------------------
   V = N (the three kernel blocks are the training kernel): the score program equals the in-sample
   expression  -(tr[K - K w]/tr K + |Y - K P_KY|^2/|Y|^2),  w = t pinv(t^T t) t^T
   ([score_train_prog], the formula of tests/test_kernel_pcovr.py::test_kpcovr_error). *)
Theorem C05_score_train :
  forall (F : rcfType) (n p k : nat) (env : env_mx F),
    env n n vKt = env n n vK -> env n n vKvv = env n n vK ->
    penrose ((eval_mx env (tn_prog n p k))^T *m eval_mx env (tn_prog n p k)) (env k k vG) ->
    eval_mx env (score_prog n p k n) = eval_mx env (score_train_prog n p k).
Proof. exact score_train. Qed.
Print Assumptions C05_score_train.

(* ---- configurations are substitutions ----------------------------------------------------------
   the regressor path (Yhat = K W), regressor="precomputed" (Yhat = Y) and center=True are run in
   the check as [msubst s prog]; that is the program in the environment holding the substituted
   values *)
Theorem C05_substitution :
  forall (F : rcfType) (env : env_mx F) (s : subst_t) (m n : nat) (e : mexp m n),
    eval_mx env (msubst s e) = eval_mx (fun a b x => eval_mx env (s a b x)) e.
Proof. exact msubst_mx. Qed.
Print Assumptions C05_substitution.

(* the Moore-Penrose equations determine the oracle answers PT and G *)
Theorem C05_pinv_unique :
  forall (F : rcfType) (m n : nat) (A : 'M[F]_(m, n)) (X Y : 'M[F]_(n, m)),
    penrose A X -> penrose A Y -> X = Y.
Proof. exact penrose_uniq. Qed.
Print Assumptions C05_pinv_unique.

(* ---- the hypotheses are satisfiable: identity-matrix instance for every size n (d = p = k = v = n),
   mixing 1/2, tol 0.  (Numerically non-trivial instances with residuals ~1e-15 are produced by
   every run of the correspondence check.) *)
Example C05_nonvacuous :
  forall (F : rcfType) (n : nat),
    let env := env_id F in
    env n n vK = env n n vX *m (env n n vX)^T /\
    env n n vKt = env n n vXt *m (env n n vX)^T /\
    env n n vWx = (env n n vX)^T *m env n n vW /\
    env n n vYh = env n n vK *m env n n vW /\
    eval_mx env (ktilde_prog n n) *m env n n vV = env n n vV *m diag_mx (env n 1%N vS)^T /\
    (env n n vV)^T *m env n n vV = 1%:M /\
    0 <= (env 1%N 1%N vtol) ord0 ord0 /\
    (forall i, (env 1%N 1%N vtol) ord0 ord0 < (env n 1%N vS) i ord0) /\
    penrose (eval_mx env (T_prog n n n)) (env n n vPT) /\
    env n n vKt = env n n vK /\ env n n vKvv = env n n vK /\
    penrose ((eval_mx env (tn_prog n n n))^T *m eval_mx env (tn_prog n n n)) (env n n vG) /\
    (env 1%N 1%N va) ord0 ord0 = 2%:R^-1.
Proof. exact env_id_hyps. Qed.

(* ==================================================================================================
   Round 3.
   ================================================================================================== *)

(* ---- the "equivalent ridge regressor" ----------------------------------------------------------
   C05_linear_is_pcovr ASSUMES Wx = X^T W.  That is what "equivalent" means: if W are the dual
   weights of kernel ridge on the linear kernel, (X X^T + alpha I) W = Y, and Wx the weights of ridge
   regression without intercept, (X^T X + alpha I) Wx = X^T Y, with the same alpha > 0, then
   Wx = X^T W (any n, d, p; X of any rank). *)
Theorem C05_ridge_dual_primal :
  forall (F : rcfType) (n d p : nat) (X : 'M[F]_(n, d)) (Y W : 'M[F]_(n, p)) (Wx : 'M[F]_(d, p)) (alpha : F),
    0 < alpha ->
    (X *m X^T + alpha *: 1%:M) *m W = Y ->
    (X^T *m X + alpha *: 1%:M) *m Wx = X^T *m Y ->
    Wx = X^T *m W.
Proof. exact ridge_dual_primal. Qed.
Print Assumptions C05_ridge_dual_primal.

(* ... so the linear-kernel clause holds with the two regressors given by their defining equations *)
Theorem C05_linear_is_pcovr_ridge :
  forall (F : rcfType) (n d p k v : nat) (env : env_mx F) (alpha : F),
    let K := env n n vK in let Kt := env v n vKt in let X := env n d vX in
    let Xt := env v d vXt in let W := env n p vW in let Wx := env d p vWx in
    let Y := env n p vY in
    let Yh := env n p vYh in let V := env n k vV in let S := env k 1%N vS in
    let tol := (env 1%N 1%N vtol) ord0 ord0 in let PT := env k n vPT in
    K = X *m X^T -> Kt = Xt *m X^T ->
    0 < alpha ->
    (K + alpha *: 1%:M) *m W = Y ->
    (X^T *m X + alpha *: 1%:M) *m Wx = X^T *m Y ->
    [/\ Wx = X^T *m W,
        eval_mx env (ktilde_prog n p) = eval_mx env (pc_ktilde n d p),
        eval_mx env (transform_prog n p k v) = eval_mx env (@pc_transform n d p k v)
      & Yh = K *m W ->
        eval_mx env (ktilde_prog n p) *m V = V *m diag_mx S^T -> V^T *m V = 1%:M ->
        0 <= tol -> (forall i, tol < S i ord0) ->
        penrose (eval_mx env (T_prog n p k)) PT ->
        eval_mx env (predict_prog n p k v) = eval_mx env (@pc_predict n d p k v)].
Proof. exact linear_is_pcovr_ridge. Qed.
Print Assumptions C05_linear_is_pcovr_ridge.

Example C05_ridge_nonvacuous :
  forall (F : rcfType) (n p : nat) (Y : 'M[F]_(n, p)),
    let X : 'M[F]_n := 1%:M in let W := 2%:R^-1 *: Y in
    [/\ (0 : F) < 1, (X *m X^T + 1 *: 1%:M) *m W = Y & (X^T *m X + 1 *: 1%:M) *m W = X^T *m Y].
Proof. exact ridge_hyps_instance. Qed.

(* ---- the estimator OBJECT: histories of set_params / fit ------------------------------------------
   Model/KPCovRState.v: constructor arguments + fitted attributes, including the attributes a later
   fit leaves behind (centerer_ after center=False, regressor_ after regressor="precomputed", ptx_
   after fit_inverse_transform=False).  The primitive operations (kernel evaluation, KernelNormalizer,
   regression, _fit, the loss, the matrix product) are ARBITRARY functions: the statements are about
   the plumbing and hold for every interpretation.  [same_obs s1 s2]: equal constructor arguments,
   X_fit_, pkt_, pky_, pty_, ptk_ and equal results (value or exception class) of transform, predict
   and score on every input. *)
Section ObjectModel.
  Variables mat kid num rg cen : Type.
  Variable getk : kid -> mat -> mat -> mat.
  Variable kn_fit : mat -> cen.
  Variable kn_tr : cen -> mat -> mat.
  Variable kn_vv : cen -> mat -> mat -> mat.
  Variable regress : rg -> mat -> mat -> mat.
  Variable lstsq : num -> mat -> mat -> mat.
  Variable fit_core : num -> mat -> mat -> mat -> (mat * mat)%type.
  Variable loss : num -> mat -> mat -> mat -> mat -> mat -> mat -> mat.
  Variable mmul : mat -> mat -> mat.
  Notation fit := (@fit mat kid num rg cen getk kn_fit kn_tr regress lstsq fit_core mmul).
  Notation transform := (@transform mat kid num rg cen getk kn_tr mmul).
  Notation predict := (@predict mat kid num rg cen getk kn_tr mmul).
  Notation score := (@score mat kid num rg cen getk kn_tr kn_vv loss).
  Notation run := (@run mat kid num rg cen getk kn_fit kn_tr regress lstsq fit_core mmul).
  Notation same_obs := (@same_obs mat kid num rg cen getk kn_tr kn_vv loss mmul).
  Notation init := (@init mat kid num rg cen).
  Notation set_params := (@set_params mat kid num rg cen).
  Notation SetParams := (@SetParams mat kid num rg).
  Notation Fit := (@Fit mat kid num rg).
  Notation with_centerer := (@with_centerer mat kid num rg cen).
  Notation center_off := (@center_off kid num rg).
  Notation center_on := (@center_on kid num rg).
  Notation as_precomputed := (@as_precomputed kid num rg).
  Notation as_normalized := (@as_normalized kid num rg).

  (* refit = fresh fit, after ANY history (any list of set_params / fit events from any constructor
     arguments): set_params(p); fit(X, Y, W) leaves the object indistinguishable from a new
     estimator constructed with p and fitted once *)
  Theorem C05_refit_is_fresh_fit :
    forall (p0 p : cargs kid num rg) (h : list (event mat kid num rg)) (X Y : mat) (W : option mat),
      same_obs (run (init p0) (h ++ (SetParams p :: Fit X Y W :: nil))) (fit (init p) X Y W).
  Proof. exact: refit_is_fresh_fit. Qed.

  (* the guard that makes it so: with center=False the three methods never read centerer_, whatever
     it holds *)
  Theorem C05_center_guard_reads_argument :
    forall (st : state mat kid num rg cen) (c : option cen),
      p_center (prm st) = false ->
      (forall Xn, transform (with_centerer st c) Xn = transform st Xn) /\
      (forall Xn, predict (with_centerer st c) Xn = predict st Xn) /\
      (forall Xn Yn, score (with_centerer st c) Xn Yn = score st Xn Yn).
  Proof. exact: center_guard. Qed.

  (* not vacuous: after fit(center=True); set_params(center=False); fit the attribute IS still there
     (a fresh object has none), and a transform keyed on its presence would centre the new kernel
     with the normaliser of the FIRST data set *)
  Theorem C05_stale_centerer_is_present :
    forall (p : cargs kid num rg) (X1 Y1 X2 Y2 : mat) (W1 W2 : option mat) (Xn : mat),
      p_center p = true ->
      let st := run (init p) (Fit X1 Y1 W1 :: SetParams (center_off p) :: Fit X2 Y2 W2 :: nil) in
      let c1 := kn_fit (getk (p_kernel p) X1 X1) in
      centerer st = Some c1 /\ centerer (fit (init (center_off p)) X2 Y2 W2) = None /\
      exists P, pkt st = Some P /\
        transform st Xn = Val (mmul (getk (p_kernel p) Xn X2) P) /\
        @transform_hasattr mat kid num rg cen getk kn_tr mmul st Xn
        = Val (mmul (kn_tr c1 (getk (p_kernel p) Xn X2)) P).
  Proof. exact: stale_centerer_summary. Qed.

  (* an unfitted object raises NotFittedError; center switched on by set_params WITHOUT a refit on an
     object that was never centred raises AttributeError in all three methods (what the code does) *)
  Theorem C05_unfitted_and_unrefitted_raise :
    forall (p : cargs kid num rg) (X Y : mat) (W : option mat) (Xn Yn : mat),
      (transform (init p) Xn = NotFitted /\ predict (init p) Xn = NotFitted /\ score (init p) Xn Yn = NotFitted) /\
      (p_center p = false ->
       let st := set_params (fit (init p) X Y W) (center_on p) in
       transform st Xn = AttrError /\ predict st Xn = AttrError /\ score st Xn Yn = AttrError).
  Proof. exact: raises_summary. Qed.

  (* named kernel = that kernel precomputed, as a statement about two objects ([kpre] is
     kernel="precomputed": _get_kernel returns its first argument) *)
  Theorem C05_named_is_precomputed :
    forall (kpre : kid), (forall A B, getk kpre A B = A) ->
    forall (p : cargs kid num rg) (X Y : mat) (W : option mat),
      let K := getk (p_kernel p) X X in
      let s1 := fit (init p) X Y W in
      let s2 := fit (init (as_precomputed kpre p)) K Y W in
      pkt s1 = pkt s2 /\ pky s1 = pky s2 /\ pty s1 = pty s2 /\ ptk s1 = ptk s2 /\
      centerer s1 = centerer s2 /\ regr_W s1 = regr_W s2 /\
      (forall Xn, transform s1 Xn = transform s2 (getk (p_kernel p) Xn X)) /\
      (forall Xn, predict s1 Xn = predict s2 (getk (p_kernel p) Xn X)) /\
      (forall Yn, score s1 X Yn = score s2 K Yn).
  Proof. exact: named_is_precomputed. Qed.

  (* center=True = an object with center=False and kernel="precomputed" fitted on the explicitly
     normalised kernel; new samples are passed as c.transform(k(Xn, X)) *)
  Theorem C05_center_is_explicit_normalizer_object :
    forall (kpre : kid), (forall A B, getk kpre A B = A) ->
    forall (p : cargs kid num rg) (X Y : mat) (W : option mat),
      p_center p = true ->
      let K := getk (p_kernel p) X X in
      let c := kn_fit K in
      let s1 := fit (init p) X Y W in
      let s3 := fit (init (as_normalized kpre p)) (kn_tr c K) Y W in
      pkt s1 = pkt s3 /\ pky s1 = pky s3 /\ pty s1 = pty s3 /\ ptk s1 = ptk s3 /\
      (forall Xn, transform s1 Xn = transform s3 (kn_tr c (getk (p_kernel p) Xn X))) /\
      (forall Xn, predict s1 Xn = predict s3 (kn_tr c (getk (p_kernel p) Xn X))).
  Proof. exact: center_is_explicit_normalizer. Qed.
End ObjectModel.
Print Assumptions C05_refit_is_fresh_fit.
Print Assumptions C05_center_guard_reads_argument.
Print Assumptions C05_stale_centerer_is_present.
Print Assumptions C05_unfitted_and_unrefitted_raise.
Print Assumptions C05_named_is_precomputed.
Print Assumptions C05_center_is_explicit_normalizer_object.

(* a concrete machine on which the stale attribute changes the answer of the hasattr variant while
   the modelled transform agrees with the fresh object *)
Example C05_object_model_nonvacuous :
  let st := t_run (t_init t_p)
              (@Fit nat bool unit unit 2%N 3%N None :: @SetParams nat bool unit unit (@center_off _ _ _ t_p)
               :: @Fit nat bool unit unit 4%N 5%N None :: nil) in
  t_transform st 7%N <> t_transform_hasattr st 7%N /\
  t_transform st 7%N = t_transform (t_fit1 (t_init (@center_off _ _ _ t_p)) 4%N 5%N None) 7%N.
Proof. exact tiny_hasattr_differs. Qed.

(* ---- the rejection branches of fit (Model/KPCovRGuard.v) ---------------------------------------- *)
Theorem C05_fit_accepts_iff :
  forall g : gin, fit_guard g = Accept <-> regressor_ok g /\ ncomp_ok g.
Proof. exact fit_accepts_iff. Qed.
Print Assumptions C05_fit_accepts_iff.

Theorem C05_ncomponents_rejection_iff :
  forall g : gin, fit_guard g = RejNComponents <-> regressor_ok g /\ ~ ncomp_ok g.
Proof. exact ncomp_rejection_iff. Qed.
Print Assumptions C05_ncomponents_rejection_iff.

Theorem C05_regressor_checks_first :
  forall g : gin,
    (g_reg g = GOther -> fit_guard g = RejRegressorType) /\
    (forall f, g_reg g = GKrr false f -> fit_guard g = RejKernelMismatch).
Proof. exact regressor_checks_first. Qed.
Print Assumptions C05_regressor_checks_first.

(* [guard_examples_stmt] (Proofs/KPCovRGuardP.v, Z literals): n=6, d=3, 2-D Y with p=2 -
   a fitted KernelRidge with matching shapes and n_components=2 is accepted, one whose dual_coef_ is
   1-D is refused with the dimension error, n_components=7 is refused, 0 and None are accepted *)
Example C05_guard_nonvacuous : guard_examples_stmt.
Proof. exact guard_examples. Qed.

(* ---- svd_solver="auto" resolution (Model/KPCovRGuard.v) -------------------------------------------
   n = n_samples, d = n_features, k = n_components_.  Problems with max(n, d) <= 500 - the bound
   included - are decomposed with the full SVD whatever k; above, the randomized solver is used
   exactly when 1 <= k < 0.8 max(n, d); an explicit solver is kept. *)
Theorem C05_auto_solver_small_is_full :
  forall n d k : BinNums.Z, BinInt.Z.le (BinInt.Z.max n d) (BinInt.Z.of_nat 500) -> resolve_solver SAuto n d k = SFull.
Proof. exact auto_small_is_full. Qed.
Print Assumptions C05_auto_solver_small_is_full.

Theorem C05_auto_solver_large :
  forall n d k : BinNums.Z,
    BinInt.Z.lt (BinInt.Z.of_nat 500) (BinInt.Z.max n d) ->
    (resolve_solver SAuto n d k = SRandomized
     <-> BinInt.Z.le (BinInt.Z.of_nat 1) k /\ BinInt.Z.lt (BinInt.Z.mul (BinInt.Z.of_nat 5) k) (BinInt.Z.mul (BinInt.Z.of_nat 4) (BinInt.Z.max n d))) /\
    (resolve_solver SAuto n d k = SFull
     <-> ~ (BinInt.Z.le (BinInt.Z.of_nat 1) k /\ BinInt.Z.lt (BinInt.Z.mul (BinInt.Z.of_nat 5) k) (BinInt.Z.mul (BinInt.Z.of_nat 4) (BinInt.Z.max n d)))).
Proof. exact auto_large_spec. Qed.
Print Assumptions C05_auto_solver_large.

Theorem C05_explicit_solver_kept :
  forall (s : solver) (n d k : BinNums.Z),
    (s <> SAuto -> resolve_solver s n d k = s) /\ resolve_solver s n d k <> SAuto.
Proof. exact explicit_solver_kept. Qed.
Print Assumptions C05_explicit_solver_kept.

(* [solver_examples_stmt]: (n, d, k) = (499,3,4), (500,3,4) -> full; (501,3,4), (5,501,3) -> randomized;
   (501,3,401) -> full; explicit arpack kept *)
Example C05_solver_nonvacuous : solver_examples_stmt.
Proof. exact solver_examples. Qed.
