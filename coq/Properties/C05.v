(* C05 — KernelPCovR agrees with PCovR and its kernel plumbing; scores any held-out set.
   Statements only; every proof is `exact <lemma>` from Proofs/KPCovRP.v.

   Model: Model/KPCovR.v — KernelPCovR._fit / transform / predict / score, KernelNormalizer and
   sample-space PCovR as programs of the typed matrix-expression language Base/MExp.v.
   [eval_mx env prog] (Base/MExpMx.v) interprets a program over an ARBITRARY real closed field F;
   the same programs are run on binary64 against the implementation in the per-run check.
   Shapes: n training samples, p targets, k components, v new samples, d features - all arbitrary.
   Variables of the programs ([env rows cols id]):
     vK  n x n training kernel      vKt v x n kernel new-vs-train     vKvv v x v kernel new-vs-new
     vYh n x p Yhat                 vW  n x p dual weights            vY   n x p targets of fit
     va  1 x 1 mixing               vtol 1 x 1 tol                    vYv  v x p targets of score
   oracles (LAPACK results, constrained by the hypotheses that name them):
     vV n x k, vS k x 1  singular pairs of K~ used by _fit;  vPT k x n = pt__ = pinv(T);
     vG k x k = pinv(t_n^T t_n) in score.
   [penrose A X] = the four Moore-Penrose equations.  Kernel evaluation itself is an oracle:
   the programs read the data only through kernel matrices, so "named kernel = that kernel
   precomputed" holds by construction of the model and is checked against the implementation in
   the correspondence check. *)
From mathcomp Require Import all_ssreflect all_algebra.
From Verif Require Import MExp MExpMx KPCovR KPCovRP.
Import GRing.Theory Num.Theory.
Local Open Scope ring_scope.

(* ---- linear kernel = sample-space PCovR -----------------------------------------------------
   With K = X X^T, K_VN = X' X^T and primal weights X^T W (W the dual weights) the modified Gram
   matrix is PCovR's, every new sample gets the same latent coordinates as from sample-space
   PCovR's P_XT (no assumption on the eigen-solver beyond both using the same answer), hence the
   same T T^T; and under the oracle post-conditions the predictions coincide. *)
Theorem C05_linear_is_pcovr :
  forall (F : rcfType) (n d p k v : nat) (env : env_mx F),
    let K := env n n vK in let Kt := env v n vKt in let X := env n d vX in
    let Xt := env v d vXt in let W := env n p vW in let Wx := env d p vWx in
    let Yh := env n p vYh in let V := env n k vV in let S := env k 1%N vS in
    let tol := (env 1%N 1%N vtol) ord0 ord0 in let PT := env k n vPT in
    K = X *m X^T -> Kt = Xt *m X^T -> Wx = X^T *m W ->
    [/\ eval_mx env (ktilde_prog n p) = eval_mx env (pc_ktilde n d p),
        eval_mx env (transform_prog n p k v) = eval_mx env (@pc_transform n d p k v),
        eval_mx env (tt_prog n p k v)
        = eval_mx env (@pc_transform n d p k v) *m (eval_mx env (@pc_transform n d p k v))^T
      & Yh = K *m W ->
        eval_mx env (ktilde_prog n p) *m V = V *m diag_mx S^T -> V^T *m V = 1%:M ->
        0 <= tol -> (forall i, tol < S i ord0) ->
        penrose (eval_mx env (T_prog n p k)) PT ->
        eval_mx env (predict_prog n p k v) = eval_mx env (@pc_predict n d p k v)].
Proof. exact linear_is_pcovr. Qed.
Print Assumptions C05_linear_is_pcovr.

(* ---- the latent coordinates of the training set, any mixing (regressor path Yhat = K W) ------ *)
Theorem C05_latent_is_eigen :
  forall (F : rcfType) (n p k : nat) (env : env_mx F),
    env n p vYh = env n n vK *m env n p vW ->
    eval_mx env (ktilde_prog n p) *m env n k vV = env n k vV *m diag_mx (env k 1%N vS)^T ->
    0 <= (env 1%N 1%N vtol) ord0 ord0 ->
    (forall i, (env 1%N 1%N vtol) ord0 ord0 < (env k 1%N vS) i ord0) ->
    eval_mx env (T_prog n p k) = env n k vV *m diag_mx (\row_i Num.sqrt ((env k 1%N vS) i ord0)).
Proof. exact T_eigen. Qed.
Print Assumptions C05_latent_is_eigen.

(* pt__ is pinned down by its Penrose equations: it is S^{-1/2} V^T *)
Theorem C05_pt_is_pinv :
  forall (F : rcfType) (n p k : nat) (env : env_mx F),
    env n p vYh = env n n vK *m env n p vW ->
    eval_mx env (ktilde_prog n p) *m env n k vV = env n k vV *m diag_mx (env k 1%N vS)^T ->
    (env n k vV)^T *m env n k vV = 1%:M ->
    0 <= (env 1%N 1%N vtol) ord0 ord0 ->
    (forall i, (env 1%N 1%N vtol) ord0 ord0 < (env k 1%N vS) i ord0) ->
    penrose (eval_mx env (T_prog n p k)) (env k n vPT) ->
    env k n vPT = diag_mx (\row_i (Num.sqrt ((env k 1%N vS) i ord0))^-1) *m (env n k vV)^T.
Proof. exact PT_value. Qed.
Print Assumptions C05_pt_is_pinv.

(* ---- center=True = explicit KernelNormalizer on the train and test blocks ---------------------
   [msubst (s_center n v) e] is the program e with every kernel block replaced by the normaliser
   program applied to the raw block (what the code does when center=True); it evaluates like e
   itself in any environment env' that holds the explicitly normalised blocks
   ([knorm_mx] = KernelNormalizer.transform written out: subtract the training column means and
   the block's row means, add the training grand mean, divide by trace/n of the centred training
   kernel) and agrees with env elsewhere.  Holds for every program e of the model. *)
Theorem C05_center_is_normalizer :
  forall (F : rcfType) (n : nat) (env : env_mx F) (v : nat) (env' : env_mx F) (a b : nat) (e : mexp a b),
    env' n n vK = knorm_mx (env n n vK) (env n n vK) ->
    env' v n vKt = knorm_mx (env n n vK) (env v n vKt) ->
    env' v v vKvv = knorm_vv_mx (env n n vK) (env v n vKt) (env v v vKvv) ->
    (forall r c x, ~ (r = n /\ c = n /\ x = vK) -> ~ (r = v /\ c = n /\ x = vKt) ->
                   ~ (r = v /\ c = v /\ x = vKvv) -> env' r c x = env r c x) ->
    eval_mx env (msubst (s_center n v) e) = eval_mx env' e.
Proof. exact center_is_normalizer. Qed.
Print Assumptions C05_center_is_normalizer.

(* what the normalised blocks are: the Gram blocks of the features centred on the TRAINING mean
   and scaled by 1/s - for the train-train, new-train and (repaired score) new-new block alike *)
Theorem C05_center_blocks_feature_space :
  forall (F : rcfType) (n d v : nat) (Phi : 'M[F]_(n, d)) (PhiV : 'M[F]_(v, d)),
    let mu : 'rV[F]_d := n%:R^-1 *: (const_mx 1 *m Phi) in
    let C := Phi - const_mx 1 *m mu in let CV := PhiV - const_mx 1 *m mu in
    let K := Phi *m Phi^T in let s := kn_scale K in
    [/\ knorm_mx K K = s^-1 *: (C *m C^T),
        knorm_mx K (PhiV *m Phi^T) = s^-1 *: (CV *m C^T)
      & knorm_vv_mx K (PhiV *m Phi^T) (PhiV *m PhiV^T) = s^-1 *: (CV *m CV^T)].
Proof. exact center_blocks_feature_space. Qed.
Print Assumptions C05_center_blocks_feature_space.

(* ---- mixing = 1: kernel PCA --------------------------------------------------------------------
   T = V S^{1/2} of the kernel handed to _fit, new samples are projected by K_VN V S^{-1/2};
   no hypothesis on the regression. *)
Theorem C05_kpca_limit :
  forall (F : rcfType) (n p k v : nat) (env : env_mx F),
    let K := env n n vK in let Kt := env v n vKt in let V := env n k vV in
    let S := env k 1%N vS in let tol := (env 1%N 1%N vtol) ord0 ord0 in
    (env 1%N 1%N va) ord0 ord0 = 1 ->
    K *m V = V *m diag_mx S^T -> 0 <= tol -> (forall i, tol < S i ord0) ->
    eval_mx env (T_prog n p k) = V *m diag_mx (\row_i Num.sqrt (S i ord0)) /\
    eval_mx env (transform_prog n p k v) = Kt *m V *m diag_mx (\row_i (Num.sqrt (S i ord0))^-1).
Proof. exact kpca_limit. Qed.
Print Assumptions C05_kpca_limit.

(* ... and when that kernel is Kc/s (centred kernel divided by the normaliser's scale s > 0) the
   projections are kernel PCA's V sqrt(lambda) of Kc divided by sqrt(s) *)
Theorem C05_kpca_limit_scaled :
  forall (F : rcfType) (n p k : nat) (env : env_mx F) (Kc : 'M[F]_n) (lam : 'cV[F]_k) (s : F),
    0 < s -> env n n vK = s^-1 *: Kc -> Kc *m env n k vV = env n k vV *m diag_mx lam^T ->
    env k 1%N vS = s^-1 *: lam -> (env 1%N 1%N va) ord0 ord0 = 1 ->
    0 <= (env 1%N 1%N vtol) ord0 ord0 ->
    (forall i, (env 1%N 1%N vtol) ord0 ord0 < (env k 1%N vS) i ord0) ->
    eval_mx env (T_prog n p k)
    = (Num.sqrt s)^-1 *: (env n k vV *m diag_mx (\row_i Num.sqrt (lam i ord0))).
Proof. exact kpca_scaled. Qed.
Print Assumptions C05_kpca_limit_scaled.

(* ---- score: shapes -----------------------------------------------------------------------------
   [raw_score_doc] is the documented formula  -(tr[K_VV - 2 K_VN w + w^T K_NN w]/tr K_VV + l_regr),
   w = t_n pinv(t_n^T t_n) t_v^T, in an UNTYPED syntax on which [rshape] checks shapes the way numpy
   does.  It is exactly the erasure of the typed program [score_prog n p k v] and is well-formed
   (a 1 x 1 result) for every n, p, k and every number v of held-out samples. *)
Theorem C05_score_shapes :
  forall n p k v : nat,
    raw_score_doc n p k v = erase (score_prog n p k v) /\
    rshape (raw_score_doc n p k v) = Some (1%N, 1%N).
Proof. exact score_shapes. Qed.
Print Assumptions C05_score_shapes.

(* every typed program is shape-correct: the checker accepts all of the model *)
Theorem C05_typed_programs_shape_check :
  forall (m n : nat) (e : mexp m n), rshape (erase e) = Some (m, n).
Proof. exact rshape_erase. Qed.
Print Assumptions C05_typed_programs_shape_check.

(* the formula of the code before the repair (w^T K_VV w) is well-formed iff n_V = n_N:
   see Findings/F4_kpcovr_score_blocks.v *)
Theorem C05_score_shapes_code_before_fix :
  forall n p k v : nat,
    rshape (raw_score_code_before_fix n p k v)
    = if PeanoNat.Nat.eqb n v then Some (1%N, 1%N) else None.
Proof. exact score_code_before_fix_shapes. Qed.
Print Assumptions C05_score_shapes_code_before_fix.

(* ---- score on the training set -----------------------------------------------------------------
   V = N (the three kernel blocks are the training kernel): the score program equals the in-sample
   expression  -(tr[K - K w]/tr K + |Y - K P_KY|^2/|Y|^2),  w = t pinv(t^T t) t^T
   ([score_train_prog], the formula of tests/test_kernel_pcovr.py::test_kpcovr_error). *)
Theorem C05_score_train :
  forall (F : rcfType) (n p k : nat) (env : env_mx F),
    env n n vKt = env n n vK -> env n n vKvv = env n n vK ->
    penrose ((eval_mx env (tn_prog n p k))^T *m eval_mx env (tn_prog n p k)) (env k k vG) ->
    eval_mx env (score_prog n p k n) = eval_mx env (score_train_prog n p k).
Proof. exact score_train. Qed.
Print Assumptions C05_score_train.

(* ---- configurations are substitutions ----------------------------------------------------------
   the regressor path (Yhat = K W), regressor="precomputed" (Yhat = Y) and center=True are run in
   the check as [msubst s prog]; that is the program in the environment holding the substituted
   values *)
Theorem C05_substitution :
  forall (F : rcfType) (env : env_mx F) (s : subst_t) (m n : nat) (e : mexp m n),
    eval_mx env (msubst s e) = eval_mx (fun a b x => eval_mx env (s a b x)) e.
Proof. exact msubst_mx. Qed.
Print Assumptions C05_substitution.

(* the Moore-Penrose equations determine the oracle answers PT and G *)
Theorem C05_pinv_unique :
  forall (F : rcfType) (m n : nat) (A : 'M[F]_(m, n)) (X Y : 'M[F]_(n, m)),
    penrose A X -> penrose A Y -> X = Y.
Proof. exact penrose_uniq. Qed.
Print Assumptions C05_pinv_unique.

(* ---- the hypotheses are satisfiable: identity-matrix instance for every size n (d = p = k = v = n),
   mixing 1/2, tol 0.  (Numerically non-trivial instances with residuals ~1e-15 are produced by
   every run of the correspondence check.) *)
Example C05_nonvacuous :
  forall (F : rcfType) (n : nat),
    let env := env_id F in
    env n n vK = env n n vX *m (env n n vX)^T /\
    env n n vKt = env n n vXt *m (env n n vX)^T /\
    env n n vWx = (env n n vX)^T *m env n n vW /\
    env n n vYh = env n n vK *m env n n vW /\
    eval_mx env (ktilde_prog n n) *m env n n vV = env n n vV *m diag_mx (env n 1%N vS)^T /\
    (env n n vV)^T *m env n n vV = 1%:M /\
    0 <= (env 1%N 1%N vtol) ord0 ord0 /\
    (forall i, (env 1%N 1%N vtol) ord0 ord0 < (env n 1%N vS) i ord0) /\
    penrose (eval_mx env (T_prog n n n)) (env n n vPT) /\
    env n n vKt = env n n vK /\ env n n vKvv = env n n vK /\
    penrose ((eval_mx env (tn_prog n n n))^T *m eval_mx env (tn_prog n n n)) (env n n vG) /\
    (env 1%N 1%N va) ord0 ord0 = 2%:R^-1.
Proof. exact env_id_hyps. Qed.
