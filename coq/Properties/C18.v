(* C18 — OrthogonalRegression yields an orthogonal map that is Procrustes-optimal.
   Statements only; every proof is `exact <lemma>` from Proofs/OrthRegP.v.
   Model: Model/OrthReg.v (mexp programs, run on binary64 against the implementation) and
   Model/OrthRegMx.v (hypotheses on the SVD oracle variables).  Over an arbitrary real closed
   field F and all shapes.  [fn2 A] = |A|_F^2 = tr(A^T A);  [val11 env e] = value of a 1 x 1 program.

   Padded mode, [pad_hyp env n q]: A = env oA, B = env oB are the zero-padded X, y (n x q,
   q = max(n_features, n_targets)); (oUp, oSp, oVp) satisfy U^T U = I, V^T V = I (q x q),
   A^T B = U diag(s) V^T, s >= 0 (what scipy's svd inside orthogonal_procrustes returns).
   [pad_coef q] = (U V^T)^T is coef_,  [pad_R q] = coef_^T the fitted map.
   Projector mode, [proj_hyp env n p t r]: Uc (p x r), Vc (t x r) have orthonormal columns (thin
   SVD factors of the linear estimator's coefficients), (oUi, oSi, oVi) is such an SVD of
   (X Uc)^T (y Vc);  [proj_coef p t r] = (Uc Ui Vi^T Vc^T)^T is coef_. *)
From mathcomp Require Import all_ssreflect all_algebra.
From Verif Require Import MExp MExpMx Ridge2Fold Ridge2FoldMx OrthReg OrthRegMx MxFrobP Ridge2FoldP OrthRegP.
From Verif Require Import OrthRegExt OrthRegExtP OrthRegHist OrthRegHistP.
Set Implicit Arguments.
Unset Strict Implicit.
Unset Printing Implicit Defensive.
Import GRing.Theory Num.Theory.
Local Open Scope ring_scope.

(* the residual programs evaluated by the correspondence check compute |b - a w|_F^2 *)
Theorem C18_residual_program :
  forall (F : rcfType) (env : env_mx F) n p t (a : mexp n p) (b : mexp n t) (w : mexp p t),
    val11 env (resid_prog n p t a b w) = fn2 (eval_mx env b - eval_mx env a *m eval_mx env w).
Proof. exact: resid_progE. Qed.
Print Assumptions C18_residual_program.

(* padded mode: coef_ is orthogonal *)
Theorem C18_orthogonal :
  forall (F : rcfType) (n q : nat) (env : env_mx F), pad_hyp env n q ->
    let Cf := eval_mx env (pad_coef q) in Cf^T *m Cf = 1%:M /\ Cf *m Cf^T = 1%:M.
Proof. exact: pad_orthogonal. Qed.
Print Assumptions C18_orthogonal.

(* ... so predictions have exactly the norm of their (padded) inputs *)
Theorem C18_norm_preserved :
  forall (F : rcfType) (n q : nat) (env : env_mx F), pad_hyp env n q ->
    forall m (Z : 'M[F]_(m, q)), fn2 (Z *m (eval_mx env (pad_coef q))^T) = fn2 Z.
Proof. exact: pad_norm. Qed.
Print Assumptions C18_norm_preserved.

(* padded mode: the training residual |B - A coef_^T| is no larger than |B - A Omega| for EVERY
   orthogonal Omega of the padded size *)
Theorem C18_optimal :
  forall (F : rcfType) (n q : nat) (env : env_mx F), pad_hyp env n q ->
    forall Om : 'M[F]_q, Om^T *m Om = 1%:M ->
      val11 env (resid_prog n q q (pA n q) (pB n q) (pad_R q))
      <= val11 (env_set env oW Om) (resid_prog n q q (pA n q) (pB n q) (MVar (m:=q) (n:=q) oW)).
Proof. exact: pad_optimal. Qed.
Print Assumptions C18_optimal.

(* padded mode: if B = A Q for an orthogonal Q the training residual vanishes, and the fitted
   map IS Q whenever A has a left inverse (full column rank; n_features >= n_targets) *)
Theorem C18_recovers_rotation :
  forall (F : rcfType) (n q : nat) (env : env_mx F), pad_hyp env n q ->
    forall Q : 'M[F]_q, Q^T *m Q = 1%:M -> env n q oB = env n q oA *m Q ->
      env n q oA *m (eval_mx env (pad_coef q))^T = env n q oB
      /\ forall L : 'M[F]_(q, n), L *m env n q oA = 1%:M -> (eval_mx env (pad_coef q))^T = Q.
Proof. exact: pad_recovers. Qed.
Print Assumptions C18_recovers_rotation.

(* ... and when X was padded with z zero columns (n_features < n_targets) and has full column
   rank, the fitted map equals Q on X's block of rows *)
Theorem C18_recovers_rotation_block :
  forall (F : rcfType) n p z (env : env_mx F) (X : 'M[F]_(n, p)) (Q : 'M[F]_(p + z)) (L : 'M[F]_(p, n)),
    pad_hyp env n (p + z) -> env n (p + z)%N oA = row_mx X 0 ->
    Q^T *m Q = 1%:M -> env n (p + z)%N oB = env n (p + z)%N oA *m Q -> L *m X = 1%:M ->
    usubmx (eval_mx env (pad_coef (p + z)))^T = usubmx Q.
Proof. exact: pad_recovers_block. Qed.
Print Assumptions C18_recovers_rotation_block.

(* projector mode: coef_^T =: W is a partial isometry, W^T W and W W^T are the orthogonal
   projectors onto the reduced target / feature spaces *)
Theorem C18_partial_isometry :
  forall (F : rcfType) (n p t r : nat) (env : env_mx F), proj_hyp env n p t r ->
    let W := (eval_mx env (proj_coef p t r))^T in
    [/\ W *m W^T *m W = W, W^T *m W = env t r oVc *m (env t r oVc)^T
      & W *m W^T = env p r oUc *m (env p r oUc)^T].
Proof. exact: proj_partial_isometry. Qed.
Print Assumptions C18_partial_isometry.

(* projector mode: predictions are never longer than their inputs (any rows Z), with equality
   on the range of the linear fit *)
Theorem C18_norm_nonincreasing :
  forall (F : rcfType) (n p t r : nat) (env : env_mx F), proj_hyp env n p t r ->
    forall m (Z : 'M[F]_(m, p)), fn2 (Z *m (eval_mx env (proj_coef p t r))^T) <= fn2 Z.
Proof. exact: proj_norm_nonincreasing. Qed.
Print Assumptions C18_norm_nonincreasing.

Theorem C18_norm_on_range :
  forall (F : rcfType) (n p t r : nat) (env : env_mx F), proj_hyp env n p t r ->
    forall m (Z : 'M[F]_(m, r)),
      fn2 (Z *m (env p r oUc)^T *m (eval_mx env (proj_coef p t r))^T) = fn2 (Z *m (env p r oUc)^T).
Proof. exact: proj_norm_on_range. Qed.
Print Assumptions C18_norm_on_range.

(* projector mode: the training residual |y - X coef_^T| is no larger than |y - X Uc Omega Vc^T|
   for EVERY rotation Omega between the reduced spaces *)
Theorem C18_projector_optimal :
  forall (F : rcfType) (n p t r : nat) (env : env_mx F), proj_hyp env n p t r ->
    forall Om : 'M[F]_r, Om^T *m Om = 1%:M ->
      val11 env (resid_prog n p t (MVar (m:=n) (n:=p) oX) (MVar (m:=n) (n:=t) oY) (proj_W p t r))
      <= val11 (env_set env oW0 Om)
           (resid_prog n p t (MVar (m:=n) (n:=p) oX) (MVar (m:=n) (n:=t) oY)
                       (proj_of p t r (MVar (m:=r) (n:=r) oW0))).
Proof. exact: proj_optimal. Qed.
Print Assumptions C18_projector_optimal.

(* projector mode: if y = X Q' where Q' = Uc Vc^T is a (partial) rotation between the reduced
   spaces and X Uc has full column rank, the fit recovers Q' and the residual vanishes - for
   n_features <, =, > n_targets *)
Theorem C18_projector_recovers :
  forall (F : rcfType) (n p t r : nat) (env : env_mx F), proj_hyp env n p t r ->
    forall L : 'M[F]_(r, n),
      env n t oY = env n p oX *m (env p r oUc *m (env t r oVc)^T) ->
      L *m (env n p oX *m env p r oUc) = 1%:M ->
      (eval_mx env (proj_coef p t r))^T = env p r oUc *m (env t r oVc)^T
      /\ env n t oY - env n p oX *m (eval_mx env (proj_coef p t r))^T = 0.
Proof. exact: proj_recovers. Qed.
Print Assumptions C18_projector_recovers.

(* predict pads / multiplies consistently *)
Theorem C18_predict :
  forall (F : rcfType) (env : env_mx F) nn q p t r,
    eval_mx env (pad_predict nn q) = env nn q oXn *m (eval_mx env (pad_coef q))^T
    /\ eval_mx env (proj_predict nn p t r) = env nn p oXn *m (eval_mx env (proj_coef p t r))^T.
Proof. by move=> F env nn q p t r; split; [exact: pad_predictE | exact: proj_predictE]. Qed.
Print Assumptions C18_predict.

(* non-vacuity: over every real closed field an environment meets both sets of hypotheses
   (all matrices the 2 x 2 identity, singular values 1) *)
Example C18_nonvacuous :
  forall F : rcfType, exists env : env_mx F, pad_hyp env 2 2 /\ proj_hyp env 2 2 2 2.
Proof.
  move=> F.
  exists (fun m n x => if x \in [:: oSp; oSi] then inj_mx (const_mx 1 : 'cV[F]_2) m n
                       else inj_mx (1%:M : 'M[F]_2) m n).
  have D : diag_mx (const_mx 1 : 'cV[F]_2)^T = 1%:M by rewrite trmx_const diag_const_mx.
  split; split; rewrite /= ?inj_mxE ?D ?trmx1 ?mulmx1 ?subrr //; try by move=> i; rewrite mxE ler01.
  by split; [rewrite trmx1 subrr | move=> i; rewrite mxE ler01].
Qed.

(* ======================================================================================== *)
(* Extension (round 3).                                                                      *)
(* ======================================================================================== *)

(* ---- projector mode tied to the underlying linear fit ------------------------------------ *)
(* [lin_recon_prog p t r] = C - Uc diag(sc) Vc^T with C = env oC the coefficients of the linear
   estimator (p x t): the hint hypothesis the correspondence check evaluates for every case. *)

(* W W^T and W^T W fix the column / row space of the linear coefficients ... *)
Theorem C18_projectors_fix_linear_range :
  forall (F : rcfType) (n p t r : nat) (env : env_mx F), proj_hyp env n p t r ->
    eval_mx env (lin_recon_prog p t r) = 0 ->
    let W := (eval_mx env (proj_coef p t r))^T in
    W *m W^T *m env p t oC = env p t oC /\ env p t oC *m (W^T *m W) = env p t oC.
Proof. exact: proj_fixes_linear_range. Qed.
Print Assumptions C18_projectors_fix_linear_range.

(* ... and coef_^T is an ISOMETRY on the range of the underlying linear fit: inputs that are
   combinations  z C^T  of the linear coefficient vectors keep their norm *)
Theorem C18_isometry_on_linear_range :
  forall (F : rcfType) (n p t r : nat) (env : env_mx F), proj_hyp env n p t r ->
    eval_mx env (lin_recon_prog p t r) = 0 ->
    forall m (Z : 'M[F]_(m, t)),
      fn2 (Z *m (env p t oC)^T *m (eval_mx env (proj_coef p t r))^T) = fn2 (Z *m (env p t oC)^T).
Proof. exact: proj_isometry_on_linear_range. Qed.
Print Assumptions C18_isometry_on_linear_range.

(* recovery WITHOUT assuming anything about Uc, Vc beyond the SVD hypotheses: the linear estimator
   is least squares ([normal_eq_prog n p t J] = (J X)^T (J X) C - (J X)^T (J y) = 0; J = [MId n]:
   no intercept, J = [center_prog n]: LinearRegression() with intercept), X and J X have full column
   rank (left inverses L, Lz), y = X Q with Q a partial isometry - orthonormal columns
   (n_features >= n_targets) or orthonormal rows (n_features <= n_targets).  Then coef_^T = Q and
   the training residual vanishes. *)
Theorem C18_projector_recovers_least_squares :
  forall (F : rcfType) (n p t r : nat) (env : env_mx F), proj_hyp env n p t r ->
    eval_mx env (lin_recon_prog p t r) = 0 ->
    forall (J : mexp n n) (Q : 'M[F]_(p, t)) (L Lz : 'M[F]_(p, n)),
      eval_mx env (normal_eq_prog n p t J) = 0 ->
      (forall i, 0 <= env r 1%N oSc i ord0) ->
      L *m env n p oX = 1%:M -> Lz *m (eval_mx env J *m env n p oX) = 1%:M ->
      env n t oY = env n p oX *m Q -> Q^T *m Q = 1%:M \/ Q *m Q^T = 1%:M ->
      (eval_mx env (proj_coef p t r))^T = Q
      /\ env n t oY - env n p oX *m (eval_mx env (proj_coef p t r))^T = 0.
Proof. exact: proj_recovers_ols. Qed.
Print Assumptions C18_projector_recovers_least_squares.

(* padded mode with the zero padding of predict inside the statement (n_features = p < p + z):
   predict(Z) = [Z 0] coef_^T has exactly the norm of Z *)
Theorem C18_padded_predict_norm :
  forall (F : rcfType) (n p z : nat) (env : env_mx F), pad_hyp env n (p + z) ->
    forall m (Z : 'M[F]_(m, p)),
      fn2 (row_mx Z (0 : 'M[F]_(m, z)) *m (eval_mx env (pad_coef (p + z)))^T) = fn2 Z.
Proof. exact: pad_predict_norm. Qed.
Print Assumptions C18_padded_predict_norm.

(* non-vacuity of the hypotheses of the three projector theorems (2 x 2 identities, C = Q = 1,
   singular values 1, J = identity) *)
Example C18_ext_nonvacuous :
  forall F : rcfType, exists env : env_mx F,
    [/\ proj_hyp env 2 2 2 2, eval_mx env (lin_recon_prog 2 2 2) = 0,
        eval_mx env (normal_eq_prog 2 2 2 (MId 2%N)) = 0 & env 2%N 2%N oY = env 2%N 2%N oX *m 1%:M].
Proof.
  move=> F.
  exists (fun m n x => if x \in [:: oSp; oSi; oSc] then inj_mx (const_mx 1 : 'cV[F]_2) m n
                       else inj_mx (1%:M : 'M[F]_2) m n).
  have D : diag_mx (const_mx 1 : 'cV[F]_2)^T = 1%:M by rewrite trmx_const diag_const_mx.
  split; last by rewrite /= !inj_mxE mulmx1.
  - split; rewrite /= ?inj_mxE ?D ?trmx1 ?mulmx1 ?subrr //.
    by split; [rewrite trmx1 subrr | move=> i; rewrite mxE ler01].
  - by rewrite /= !inj_mxE D trmx1 !mulmx1 subrr.
  - by rewrite /= !inj_mxE !mul1mx trmx1 !mulmx1 subrr.
Qed.

(* ---- the state machine over histories of calls (Model/OrthRegHist.v) ----------------------- *)
Local Close Scope ring_scope.
(* For EVERY choice [rt] of the numeric routines (validation, linear estimator, the two solvers,
   predict), every initial world (heap of user estimator objects, regression objects holding them by
   reference) and every history [h] of calls (fit / assignment of use_orthogonal_projector /
   assignment of linear_estimator / the user fitting one of his estimators / predict). *)

(* no call on a regression object ever writes an estimator object of the user (it is cloned) *)
Theorem C18_user_estimators_never_written :
  forall (M P H E R : Type) (rt : routines M P H E R) (h : list (op M)) (w : world P H),
    List.forallb (fun a => negb (is_user_fit M a)) h = true ->
    w_heap P H (mrun rt h w) = w_heap P H w.
Proof. by move=> M P H E R rt h w; apply: run_heap_frame. Qed.
Print Assumptions C18_user_estimators_never_written.

(* refit = fresh fit: after ANY history, a fit has the outcome and leaves the fitted attributes
   (coef_, and max_components_ in padded mode) of the same call in the world where nothing was ever
   fitted - neither the regression objects nor the user's estimator objects *)
Theorem C18_refit_is_fresh_fit :
  forall (M P H E R : Type) (rt : routines M P H E R) (h : list (op M)) (w : world P H) (o : nat) (X y : M),
    let w' := mrun rt h w in
    snd (mstep rt (OFit M o X y) w') = snd (mstep rt (OFit M o X y) (reset P H w'))
    /\ (snd (mstep rt (OFit M o X y) w') = OutOk E R ->
        option_map (fitted_view P) (List.nth_error (w_objs P H (fst (mstep rt (OFit M o X y) w'))) o)
        = option_map (fitted_view P) (List.nth_error (w_objs P H (fst (mstep rt (OFit M o X y) (reset P H w')))) o)).
Proof. by move=> M P H E R rt h w o X y; apply: refit_is_fresh_fit. Qed.
Print Assumptions C18_refit_is_fresh_fit.

(* ... explicitly: coef_ = fit_value (mode in force) (hyper-parameters the referenced estimator had
   in the INITIAL heap; None = LinearRegression()) X y,  max_components_ = pad_q X y in padded mode *)
Theorem C18_fit_after_history :
  forall (M P H E R : Type) (rt : routines M P H E R) (h : list (op M)) (w : world P H) (o : nat) (X y : M)
         (ob : obj P) (hy : option H),
    List.nth_error (w_objs P H (mrun rt h w)) o = Some ob ->
    r_fit_check rt (o_proj P ob) X y = None ->
    (if o_proj P ob then resolve_lin P H (w_heap P H w) (o_lin P ob) else Some None) = Some hy ->
    snd (mstep rt (OFit M o X y) (mrun rt h w)) = OutOk E R
    /\ exists ob', List.nth_error (w_objs P H (fst (mstep rt (OFit M o X y) (mrun rt h w)))) o = Some ob'
         /\ o_coef P ob' = Some (mfit_value rt (o_proj P ob) hy X y)
         /\ o_proj P ob' = o_proj P ob /\ o_lin P ob' = o_lin P ob
         /\ (o_proj P ob = false -> o_maxc P ob' = Some (r_pad_q rt X y)).
Proof. by move=> M P H E R rt h w o X y ob hy; apply: fit_after_history. Qed.
Print Assumptions C18_fit_after_history.

(* a rejected fit (check_X_y, 1-D y in padded mode) leaves every object as it was *)
Theorem C18_rejected_fit_keeps_state :
  forall (M P H E R : Type) (rt : routines M P H E R) (w : world P H) (o : nat) (X y : M) (e : E),
    snd (mstep rt (OFit M o X y) w) = OutErr E R e ->
    w_objs P H (fst (mstep rt (OFit M o X y) w)) = w_objs P H w
    /\ w_heap P H (fst (mstep rt (OFit M o X y) w)) = w_heap P H w.
Proof. by move=> M P H E R rt w o X y e; apply: rejected_fit_keeps_state. Qed.
Print Assumptions C18_rejected_fit_keeps_state.

(* invariant: started on objects without coef_, EVERY coef_ observable at any time of any history is
   the fresh-fit value of one accepted fit call of that history on that very object, with
   hyper-parameters of the initial heap - so all theorems above about one fit apply to it *)
Theorem C18_coef_provenance :
  forall (M P H E R : Type) (rt : routines M P H E R) (h : list (op M)) (w : world P H) (o : nat)
         (ob' : obj P) (c : P),
    (forall ob0, List.In ob0 (w_objs P H w) -> o_coef P ob0 = None) ->
    List.nth_error (w_objs P H (mrun rt h w)) o = Some ob' -> o_coef P ob' = Some c ->
    mprov rt (List.map (e_hyper P H) (w_heap P H w)) h o c.
Proof. by move=> M P H E R rt h w o ob' c; apply: coef_provenance. Qed.
Print Assumptions C18_coef_provenance.

(* layer-D instance (shapes; the one run against the implementation): after an accepted fit predict
   accepts, in padded mode, every finite non-empty array with 1 <= c <= max(p, t) columns (zero
   padding) and returns max(p, t) columns, a wider one is rejected; in projector mode exactly
   n_features columns are accepted and n_targets (1 for a 1-D y) are returned - for all sizes *)
Theorem C18_predict_shape_after_fit :
  forall (w : dworld) (o : nat) (ob : dobj) (X y Xn : dmat) (c : nat),
    List.nth_error (w_objs _ _ w) o = Some ob ->
    snd (d_step (dFit o X y) w) = dOk ->
    d_cols Xn = Some c -> c <> 0%N -> d_fin Xn = true -> d_rows Xn <> 0%N ->
    snd (d_step (dPredict o Xn) (fst (d_step (dFit o X y) w)))
    = dPred (if o_proj _ ob
             then (if Nat.eqb c (d_ncols X) then DShape (d_rows Xn) (d_ncols y) else DErr EValue)
             else (if Nat.ltb (Nat.max (d_ncols X) (d_ncols y)) c then DErr EValue
                   else DShape (d_rows Xn) (Nat.max (d_ncols X) (d_ncols y)))).
Proof. exact: d_predict_after_fit. Qed.
Print Assumptions C18_predict_shape_after_fit.

(* non-vacuity: a concrete history on the layer-D machine - the user pre-fits his estimator on data 7,
   the regression (projector mode, holding that estimator) is fitted on data 0 (4 x 3 -> 2 targets),
   switched to padded mode, a 1-D target is rejected with IndexError and changes nothing, it is
   refitted on data 2 (5 x 2 -> 3 targets): coef_ is 3 x 3 from data 2 alone, max_components_ = 3,
   the user's estimator still carries his own fit on data 7; predict pads a 1-column input *)
Example C18_history_nonvacuous :
  let w0 := dWorld [:: dEst 1 None] [:: dObj true (Some 0%N) None None] in
  let h := [:: dUserFit 0 (mk_dmat 6 (Some 3%N) true 7) (mk_dmat 6 (Some 2%N) true 7);
            dFit 0 (mk_dmat 4 (Some 3%N) true 0) (mk_dmat 4 (Some 2%N) true 0);
            dSetProj 0 false;
            dFit 0 (mk_dmat 4 (Some 3%N) true 1) (mk_dmat 4 None true 1);
            dFit 0 (mk_dmat 5 (Some 2%N) true 2) (mk_dmat 5 (Some 3%N) true 2);
            dPredict 0 (mk_dmat 9 (Some 1%N) true 0)] in
  List.map fst (d_trace h w0)
  = [:: dOk; dOk; dOk; dErr EIndex; dOk; dPred (DShape 9 3)]
  /\ d_run h w0 = dWorld [:: dEst 1 (Some (mk_dcoef 2 3 true (Some 1%N) 7 7))]
                         [:: dObj false (Some 0%N) (Some (mk_dcoef 3 3 false None 2 2)) (Some 3%N)]
  /\ List.nth_error (List.map snd (d_trace h w0)) 1
     = Some (dWorld [:: dEst 1 (Some (mk_dcoef 2 3 true (Some 1%N) 7 7))]
                    [:: dObj true (Some 0%N) (Some (mk_dcoef 2 3 true (Some 1%N) 0 0)) None]).
Proof. by vm_compute. Qed.
