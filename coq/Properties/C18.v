(* C18 — OrthogonalRegression yields an orthogonal map that is Procrustes-optimal.
   Statements only; every proof is `exact <lemma>` from Proofs/OrthRegP.v.
   Model: Model/OrthReg.v (mexp programs, run on binary64 against the implementation) and
   Model/OrthRegMx.v (hypotheses on the SVD oracle variables).  Over an arbitrary real closed
   field F and all shapes.  [fn2 A] = |A|_F^2 = tr(A^T A);  [val11 env e] = value of a 1 x 1 program.

   Padded mode, [pad_hyp env n q]: A = env oA, B = env oB are the zero-padded X, y (n x q,
   q = max(n_features, n_targets)); (oUp, oSp, oVp) satisfy U^T U = I, V^T V = I (q x q),
   A^T B = U diag(s) V^T, s >= 0 (what scipy's svd inside orthogonal_procrustes returns).
   [pad_coef q] = (U V^T)^T is coef_,  [pad_R q] = coef_^T the fitted map.
   Projector mode, [proj_hyp env n p t r]: Uc (p x r), Vc (t x r) have orthonormal columns (thin
   SVD factors of the linear estimator's coefficients), (oUi, oSi, oVi) is such an SVD of
   (X Uc)^T (y Vc);  [proj_coef p t r] = (Uc Ui Vi^T Vc^T)^T is coef_. *)
From mathcomp Require Import all_ssreflect all_algebra.
From Verif Require Import MExp MExpMx Ridge2Fold Ridge2FoldMx OrthReg OrthRegMx MxFrobP Ridge2FoldP OrthRegP.
Set Implicit Arguments.
Unset Strict Implicit.
Unset Printing Implicit Defensive.
Import GRing.Theory Num.Theory.
Local Open Scope ring_scope.

(* the residual programs evaluated by the correspondence check compute |b - a w|_F^2 *)
Theorem C18_residual_program :
  forall (F : rcfType) (env : env_mx F) n p t (a : mexp n p) (b : mexp n t) (w : mexp p t),
    val11 env (resid_prog n p t a b w) = fn2 (eval_mx env b - eval_mx env a *m eval_mx env w).
Proof. exact: resid_progE. Qed.
Print Assumptions C18_residual_program.

(* padded mode: coef_ is orthogonal *)
Theorem C18_orthogonal :
  forall (F : rcfType) (n q : nat) (env : env_mx F), pad_hyp env n q ->
    let Cf := eval_mx env (pad_coef q) in Cf^T *m Cf = 1%:M /\ Cf *m Cf^T = 1%:M.
Proof. exact: pad_orthogonal. Qed.
Print Assumptions C18_orthogonal.

(* ... so predictions have exactly the norm of their (padded) inputs *)
Theorem C18_norm_preserved :
  forall (F : rcfType) (n q : nat) (env : env_mx F), pad_hyp env n q ->
    forall m (Z : 'M[F]_(m, q)), fn2 (Z *m (eval_mx env (pad_coef q))^T) = fn2 Z.
Proof. exact: pad_norm. Qed.
Print Assumptions C18_norm_preserved.

(* padded mode: the training residual |B - A coef_^T| is no larger than |B - A Omega| for EVERY
   orthogonal Omega of the padded size *)
Theorem C18_optimal :
  forall (F : rcfType) (n q : nat) (env : env_mx F), pad_hyp env n q ->
    forall Om : 'M[F]_q, Om^T *m Om = 1%:M ->
      val11 env (resid_prog n q q (pA n q) (pB n q) (pad_R q))
      <= val11 (env_set env oW Om) (resid_prog n q q (pA n q) (pB n q) (MVar (m:=q) (n:=q) oW)).
Proof. exact: pad_optimal. Qed.
Print Assumptions C18_optimal.

(* padded mode: if B = A Q for an orthogonal Q the training residual vanishes, and the fitted
   map IS Q whenever A has a left inverse (full column rank; n_features >= n_targets) *)
Theorem C18_recovers_rotation :
  forall (F : rcfType) (n q : nat) (env : env_mx F), pad_hyp env n q ->
    forall Q : 'M[F]_q, Q^T *m Q = 1%:M -> env n q oB = env n q oA *m Q ->
      env n q oA *m (eval_mx env (pad_coef q))^T = env n q oB
      /\ forall L : 'M[F]_(q, n), L *m env n q oA = 1%:M -> (eval_mx env (pad_coef q))^T = Q.
Proof. exact: pad_recovers. Qed.
Print Assumptions C18_recovers_rotation.

(* ... and when X was padded with z zero columns (n_features < n_targets) and has full column
   rank, the fitted map equals Q on X's block of rows *)
Theorem C18_recovers_rotation_block :
  forall (F : rcfType) n p z (env : env_mx F) (X : 'M[F]_(n, p)) (Q : 'M[F]_(p + z)) (L : 'M[F]_(p, n)),
    pad_hyp env n (p + z) -> env n (p + z)%N oA = row_mx X 0 ->
    Q^T *m Q = 1%:M -> env n (p + z)%N oB = env n (p + z)%N oA *m Q -> L *m X = 1%:M ->
    usubmx (eval_mx env (pad_coef (p + z)))^T = usubmx Q.
Proof. exact: pad_recovers_block. Qed.
Print Assumptions C18_recovers_rotation_block.

(* projector mode: coef_^T =: W is a partial isometry, W^T W and W W^T are the orthogonal
   projectors onto the reduced target / feature spaces *)
Theorem C18_partial_isometry :
  forall (F : rcfType) (n p t r : nat) (env : env_mx F), proj_hyp env n p t r ->
    let W := (eval_mx env (proj_coef p t r))^T in
    [/\ W *m W^T *m W = W, W^T *m W = env t r oVc *m (env t r oVc)^T
      & W *m W^T = env p r oUc *m (env p r oUc)^T].
Proof. exact: proj_partial_isometry. Qed.
Print Assumptions C18_partial_isometry.

(* projector mode: predictions are never longer than their inputs (any rows Z), with equality
   on the range of the linear fit *)
Theorem C18_norm_nonincreasing :
  forall (F : rcfType) (n p t r : nat) (env : env_mx F), proj_hyp env n p t r ->
    forall m (Z : 'M[F]_(m, p)), fn2 (Z *m (eval_mx env (proj_coef p t r))^T) <= fn2 Z.
Proof. exact: proj_norm_nonincreasing. Qed.
Print Assumptions C18_norm_nonincreasing.

Theorem C18_norm_on_range :
  forall (F : rcfType) (n p t r : nat) (env : env_mx F), proj_hyp env n p t r ->
    forall m (Z : 'M[F]_(m, r)),
      fn2 (Z *m (env p r oUc)^T *m (eval_mx env (proj_coef p t r))^T) = fn2 (Z *m (env p r oUc)^T).
Proof. exact: proj_norm_on_range. Qed.
Print Assumptions C18_norm_on_range.

(* projector mode: the training residual |y - X coef_^T| is no larger than |y - X Uc Omega Vc^T|
   for EVERY rotation Omega between the reduced spaces *)
Theorem C18_projector_optimal :
  forall (F : rcfType) (n p t r : nat) (env : env_mx F), proj_hyp env n p t r ->
    forall Om : 'M[F]_r, Om^T *m Om = 1%:M ->
      val11 env (resid_prog n p t (MVar (m:=n) (n:=p) oX) (MVar (m:=n) (n:=t) oY) (proj_W p t r))
      <= val11 (env_set env oW0 Om)
           (resid_prog n p t (MVar (m:=n) (n:=p) oX) (MVar (m:=n) (n:=t) oY)
                       (proj_of p t r (MVar (m:=r) (n:=r) oW0))).
Proof. exact: proj_optimal. Qed.
Print Assumptions C18_projector_optimal.

(* projector mode: if y = X Q' where Q' = Uc Vc^T is a (partial) rotation between the reduced
   spaces and X Uc has full column rank, the fit recovers Q' and the residual vanishes - for
   n_features <, =, > n_targets *)
Theorem C18_projector_recovers :
  forall (F : rcfType) (n p t r : nat) (env : env_mx F), proj_hyp env n p t r ->
    forall L : 'M[F]_(r, n),
      env n t oY = env n p oX *m (env p r oUc *m (env t r oVc)^T) ->
      L *m (env n p oX *m env p r oUc) = 1%:M ->
      (eval_mx env (proj_coef p t r))^T = env p r oUc *m (env t r oVc)^T
      /\ env n t oY - env n p oX *m (eval_mx env (proj_coef p t r))^T = 0.
Proof. exact: proj_recovers. Qed.
Print Assumptions C18_projector_recovers.

(* predict pads / multiplies consistently *)
Theorem C18_predict :
  forall (F : rcfType) (env : env_mx F) nn q p t r,
    eval_mx env (pad_predict nn q) = env nn q oXn *m (eval_mx env (pad_coef q))^T
    /\ eval_mx env (proj_predict nn p t r) = env nn p oXn *m (eval_mx env (proj_coef p t r))^T.
Proof. by move=> F env nn q p t r; split; [exact: pad_predictE | exact: proj_predictE]. Qed.
Print Assumptions C18_predict.

(* non-vacuity: over every real closed field an environment meets both sets of hypotheses
   (all matrices the 2 x 2 identity, singular values 1) *)
Example C18_nonvacuous :
  forall F : rcfType, exists env : env_mx F, pad_hyp env 2 2 /\ proj_hyp env 2 2 2 2.
Proof.
  move=> F.
  exists (fun m n x => if x \in [:: oSp; oSi] then inj_mx (const_mx 1 : 'cV[F]_2) m n
                       else inj_mx (1%:M : 'M[F]_2) m n).
  have D : diag_mx (const_mx 1 : 'cV[F]_2)^T = 1%:M by rewrite trmx_const diag_const_mx.
  split; split; rewrite /= ?inj_mxE ?D ?trmx1 ?mulmx1 ?subrr //; try by move=> i; rewrite mxE ler01.
  by split; [rewrite trmx1 subrr | move=> i; rewrite mxE ler01].
Qed.
