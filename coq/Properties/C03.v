(* C03 - PCovR's latent space does not depend on the computational route.
   Statements only; every proof is `exact <lemma>` from Proofs/.

   Model: Model/PCovR.v.  [eval_mx env prog] is the value of a program over an ARBITRARY real
   closed field, for ALL shapes.  kern_prog = pcovr_kernel, cov_prog = pcovr_covariance,
   cisqrt_prog = its C^(-1/2); sp = true: sample space, sp = false: feature space.  The LAPACK
   answers (eigh of X^T X, svd of the modified matrix, lstsq) are environment variables
   constrained by [fit_oracle] / [eigh_oracle] (spelled out in Properties/C14.v,
   C14_hypotheses_sample, _feature); a single environment holds the oracle answers of BOTH routes
   (e_Vs : n x k for K~, e_Vf : m x k for C~) with the SAME retained eigenvalues e_S.
   ARPACK and the randomized range finder are not modelled: their results are further oracle
   answers, and C03_topk_unique says that any two admissible answers agree on every
   sign-/basis-free quantity when the retained spectrum is separated from the rest. *)
From mathcomp Require Import all_ssreflect all_algebra.
From Verif Require Import MExp MExpMx PCovR PCovRP PCovRProg PCovRExample C14Thm C03Thm.
Import GRing.Theory Num.Theory.
Local Open Scope ring_scope.

(* ---- the matrices that are diagonalised are the documented ones -------------------------- *)
Theorem C03_kernel_formula :
  forall (F : rcfType) (n m p : nat) (env : env_mx F),
    eval_mx env (kern_prog n m p)
    = e_a env *: (e_X n m env *m (e_X n m env)^T)
      + (1 - e_a env) *: (e_Yh n p env *m (e_Yh n p env)^T).
Proof. exact kernel_formula. Qed.
Print Assumptions C03_kernel_formula.

Theorem C03_cov_formula :
  forall (F : rcfType) (n m p : nat) (env : env_mx F),
    let A := eval_mx env (cisqrt_prog m) in
    eval_mx env (cov_prog n m p)
    = e_a env *: ((e_X n m env)^T *m e_X n m env)
      + (1 - e_a env) *: (A *m (e_X n m env)^T *m e_Yh n p env *m (e_Yh n p env)^T *m e_X n m env *m A).
Proof. exact covariance_formula. Qed.
Print Assumptions C03_cov_formula.

(* C^(-1/2) is a symmetric inverse square root of X^T X on the row space of X *)
Theorem C03_isqrt_spec :
  forall (F : rcfType) (n m : nat) (env : env_mx F),
    0 <= e_tol env -> eigh_oracle n m env ->
    let A := eval_mx env (cisqrt_prog m) in
    let X := e_X n m env in
    [/\ A^T = A, X *m (A *m A *m (X^T *m X)) = X
      & let Pi := A *m (X^T *m X) *m A in [/\ Pi^T = Pi, Pi *m Pi = Pi & Pi *m A = A]].
Proof. exact isqrt_spec. Qed.
Print Assumptions C03_isqrt_spec.

(* ---- same non-zero spectrum, explicitly related eigenvectors ----------------------------- *)
Theorem C03_same_spectrum_cov_to_kernel :
  forall (F : rcfType) (n m p : nat) (env : env_mx F),
    0 <= e_tol env -> regressor_contract n m p env -> eigh_oracle n m env ->
    forall (lam : F) (v : 'cV[F]_m),
      eval_mx env (cov_prog n m p) *m v = lam *: v ->
      let u := e_X n m env *m eval_mx env (cisqrt_prog m) *m v in
      eval_mx env (kern_prog n m p) *m u = lam *: u /\ (lam != 0 -> u^T *m u = v^T *m v).
Proof. exact same_spectrum_CK. Qed.
Print Assumptions C03_same_spectrum_cov_to_kernel.

Theorem C03_same_spectrum_kernel_to_cov :
  forall (F : rcfType) (n m p : nat) (env : env_mx F),
    0 <= e_tol env -> regressor_contract n m p env -> eigh_oracle n m env ->
    forall (lam : F) (u : 'cV[F]_n),
      eval_mx env (kern_prog n m p) *m u = lam *: u ->
      let v := eval_mx env (cisqrt_prog m) *m (e_X n m env)^T *m u in
      eval_mx env (cov_prog n m p) *m v = lam *: v /\ (lam != 0 -> v^T *m v = u^T *m u).
Proof. exact same_spectrum_KC. Qed.
Print Assumptions C03_same_spectrum_kernel_to_cov.

(* ---- the latent coordinates: eigenvectors of K~ scaled by sqrt(eigenvalue), both routes --- *)
Theorem C03_sample_T :
  forall (F : rcfType) (n m p k : nat) (env : env_mx F),
    centred n m env -> fit_oracle n m p k env true ->
    eval_mx env (transform_prog n m p k true (eX n m))
    = e_Vs n k env *m diag_mx (\row_i (if e_tol env < e_S k env i 0 then Num.sqrt (e_S k env i 0) else 0)).
Proof. exact sample_scores_explicit. Qed.
Print Assumptions C03_sample_T.

Theorem C03_feature_T :
  forall (F : rcfType) (n m p k : nat) (env : env_mx F),
    centred n m env -> fit_oracle n m p k env false -> regressor_contract n m p env ->
    let T := eval_mx env (transform_prog n m p k false (eX n m)) in
    let U := e_X n m env *m eval_mx env (cisqrt_prog m) *m e_Vf m k env in
    [/\ T = U *m dmap (g_sq (e_tol env)) (e_S k env),
        (* the columns of T are eigenvectors of K~ for the same eigenvalues ... *)
        eval_mx env (kern_prog n m p) *m T = T *m diag_mx (e_S k env)^T
      & (* ... mutually orthogonal, of squared norm = retained eigenvalue *)
        T^T *m T = dmap (fun x => g_mk (e_tol env) x * x) (e_S k env)].
Proof. exact feature_scores. Qed.
Print Assumptions C03_feature_T.

(* ---- route independence of Gram matrix of the scores, reconstruction and predictions ------
   hypotheses: both routes' oracles, all k components retained, and the rest (Uc, Sc) of the
   spectrum of K~ is separated from the retained eigenvalues.                                *)
Theorem C03_gram_equal :
  forall (F : rcfType) (n m p k : nat) (env : env_mx F) (r : nat) (Uc : 'M[F]_(n, r)) (Sc : 'cV[F]_r),
    fit_oracle n m p k env true -> fit_oracle n m p k env false ->
    (forall i, e_tol env < e_S k env i 0) ->
    eval_mx env (kern_prog n m p) *m Uc = Uc *m diag_mx Sc^T ->
    e_Vs n k env *m (e_Vs n k env)^T + Uc *m Uc^T = 1%:M ->
    (forall i j, Sc i 0 != e_S k env j 0) ->
    centred n m env ->
    let Tf := eval_mx env (transform_prog n m p k false (eX n m)) in
    let Ts := eval_mx env (transform_prog n m p k true (eX n m)) in
    Tf *m Tf^T = Ts *m Ts^T.
Proof. exact route_gram. Qed.
Print Assumptions C03_gram_equal.

Theorem C03_reconstruction_equal :
  forall (F : rcfType) (n m p k : nat) (env : env_mx F) (r : nat) (Uc : 'M[F]_(n, r)) (Sc : 'cV[F]_r),
    fit_oracle n m p k env true -> fit_oracle n m p k env false ->
    (forall i, e_tol env < e_S k env i 0) ->
    eval_mx env (kern_prog n m p) *m Uc = Uc *m diag_mx Sc^T ->
    e_Vs n k env *m (e_Vs n k env)^T + Uc *m Uc^T = 1%:M ->
    (forall i j, Sc i 0 != e_S k env j 0) ->
    centred n m env ->
    eval_mx env (inverse_prog n m k false (transform_prog n m p k false (eX n m)))
    = eval_mx env (inverse_prog n m k true (transform_prog n m p k true (eX n m))).
Proof. exact route_reconstruction. Qed.
Print Assumptions C03_reconstruction_equal.

Theorem C03_predictions_equal :
  forall (F : rcfType) (n m p k : nat) (env : env_mx F) (r : nat) (Uc : 'M[F]_(n, r)) (Sc : 'cV[F]_r),
    fit_oracle n m p k env true -> fit_oracle n m p k env false ->
    (forall i, e_tol env < e_S k env i 0) ->
    eval_mx env (kern_prog n m p) *m Uc = Uc *m diag_mx Sc^T ->
    e_Vs n k env *m (e_Vs n k env)^T + Uc *m Uc^T = 1%:M ->
    (forall i j, Sc i 0 != e_S k env j 0) ->
    centred n m env ->
    eval_mx env (predict_t_prog n m p k false (transform_prog n m p k false (eX n m)))
    = eval_mx env (predict_t_prog n m p k true (transform_prog n m p k true (eX n m))).
Proof. exact route_predictions. Qed.
Print Assumptions C03_predictions_equal.

(* ---- any two admissible top-k oracle answers (full / arpack / randomized ...) agree --------
   on every function of the retained part.  _partial: the complementary eigenvectors (Uc, Sc)
   of K are a hypothesis - their existence is the spectral theorem, which is not derived.   *)
Theorem C03_topk_unique_partial :
  forall (F : rcfType) (n k r : nat) (K : 'M[F]_n) (U1 U2 : 'M[F]_(n, k)) (S : 'cV[F]_k)
         (Uc : 'M[F]_(n, r)) (Sc : 'cV[F]_r),
    K^T = K ->
    K *m U1 = U1 *m diag_mx S^T ->
    U2^T *m U2 = 1%:M -> K *m U2 = U2 *m diag_mx S^T ->
    K *m Uc = Uc *m diag_mx Sc^T -> U1 *m U1^T + Uc *m Uc^T = 1%:M ->
    (forall i j, Sc i 0 != S j 0) ->
    forall f : F -> F, U2 *m dmap f S *m U2^T = U1 *m dmap f S *m U1^T.
Proof. exact topk_unique. Qed.
Print Assumptions C03_topk_unique_partial.

(* ---- the reported spectra are read off the retained eigenvalues --------------------------- *)
Theorem C03_singular_values :
  forall (F : rcfType) (k : nat) (env : env_mx F) i,
    (eval_mx env (singular_values_prog k)) i 0 = Num.sqrt (e_S k env i 0).
Proof. exact singular_values_formula. Qed.
Print Assumptions C03_singular_values.

Theorem C03_explained_variance :
  forall (F : rcfType) (n k : nat) (env : env_mx F) i,
    (eval_mx env (explained_variance_prog n k)) i 0 = (n%:R - 1)^-1 * e_S k env i 0.
Proof. exact explained_variance_formula. Qed.
Print Assumptions C03_explained_variance.

(* ---- non-vacuity: both routes' hypotheses, retention and the spectral gap hold together --- *)
Example C03_nonvacuous :
  forall (F : rcfType) (mix : F), exists (env : env_mx F) (Uc : 'M[F]_(2, 1)) (Sc : 'cV[F]_1),
    [/\ [/\ centred 2 1 env, fit_oracle 2 1 1 1 env true, fit_oracle 2 1 1 1 env false
          & [/\ forall i, e_tol env < e_S 1 env i 0, e_a env = mix & e_X 2 1 env != 0]],
        eval_mx env (kern_prog 2 1 1) *m Uc = Uc *m diag_mx Sc^T,
        e_Vs 2 1 env *m (e_Vs 2 1 env)^T + Uc *m Uc^T = 1%:M
      & forall i j, Sc i 0 != e_S 1 env j 0].
Proof. exact ex_c03. Qed.
Print Assumptions C03_nonvacuous.
