(* C03 - PCovR's latent space does not depend on the computational route.
   Statements only; every proof is `exact <lemma>` from Proofs/.

   Model: Model/PCovR.v.  [eval_mx env prog] is the value of a program over an ARBITRARY real
   closed field, for ALL shapes.  kern_prog = pcovr_kernel, cov_prog = pcovr_covariance,
   cisqrt_prog = its C^(-1/2); sp = true: sample space, sp = false: feature space.  The LAPACK
   answers (eigh of X^T X, svd of the modified matrix, lstsq) are environment variables
   constrained by [fit_oracle] / [eigh_oracle] (spelled out in Properties/C14.v,
   C14_hypotheses_sample, _feature); a single environment holds the oracle answers of BOTH routes
   (e_Vs : n x k for K~, e_Vf : m x k for C~) with the SAME retained eigenvalues e_S.
   ARPACK and the randomized range finder are not modelled: their results are further oracle
   answers, and C03_topk_unique says that any two admissible answers agree on every
   sign-/basis-free quantity when the retained spectrum is separated from the rest. *)
From mathcomp Require Import all_ssreflect all_algebra.
From Verif Require Import MExp MExpMx PCovR PCovRC03 PCovRP PCovRProg PCovRExample C14Thm C03Thm
  PCovRC03P PCovRC03Ex.
Import GRing.Theory Num.Theory.
Local Open Scope ring_scope.

(* ---- the matrices that are diagonalised are the documented ones -------------------------- *)
Theorem C03_kernel_formula :
  forall (F : rcfType) (n m p : nat) (env : env_mx F),
    eval_mx env (kern_prog n m p)
    = e_a env *: (e_X n m env *m (e_X n m env)^T)
      + (1 - e_a env) *: (e_Yh n p env *m (e_Yh n p env)^T).
Proof. exact kernel_formula. Qed.
Print Assumptions C03_kernel_formula.

Theorem C03_cov_formula :
  forall (F : rcfType) (n m p : nat) (env : env_mx F),
    let A := eval_mx env (cisqrt_prog m) in
    eval_mx env (cov_prog n m p)
    = e_a env *: ((e_X n m env)^T *m e_X n m env)
      + (1 - e_a env) *: (A *m (e_X n m env)^T *m e_Yh n p env *m (e_Yh n p env)^T *m e_X n m env *m A).
Proof. exact covariance_formula. Qed.
Print Assumptions C03_cov_formula.

(* C^(-1/2) is a symmetric inverse square root of X^T X on the row space of X *)
Theorem C03_isqrt_spec :
  forall (F : rcfType) (n m : nat) (env : env_mx F),
    0 <= e_tol env -> eigh_oracle n m env ->
    let A := eval_mx env (cisqrt_prog m) in
    let X := e_X n m env in
    [/\ A^T = A, X *m (A *m A *m (X^T *m X)) = X
      & let Pi := A *m (X^T *m X) *m A in [/\ Pi^T = Pi, Pi *m Pi = Pi & Pi *m A = A]].
Proof. exact isqrt_spec. Qed.
Print Assumptions C03_isqrt_spec.

(* ---- same non-zero spectrum, explicitly related eigenvectors ----------------------------- *)
Theorem C03_same_spectrum_cov_to_kernel :
  forall (F : rcfType) (n m p : nat) (env : env_mx F),
    0 <= e_tol env -> regressor_contract n m p env -> eigh_oracle n m env ->
    forall (lam : F) (v : 'cV[F]_m),
      eval_mx env (cov_prog n m p) *m v = lam *: v ->
      let u := e_X n m env *m eval_mx env (cisqrt_prog m) *m v in
      eval_mx env (kern_prog n m p) *m u = lam *: u /\ (lam != 0 -> u^T *m u = v^T *m v).
Proof. exact same_spectrum_CK. Qed.
Print Assumptions C03_same_spectrum_cov_to_kernel.

Theorem C03_same_spectrum_kernel_to_cov :
  forall (F : rcfType) (n m p : nat) (env : env_mx F),
    0 <= e_tol env -> regressor_contract n m p env -> eigh_oracle n m env ->
    forall (lam : F) (u : 'cV[F]_n),
      eval_mx env (kern_prog n m p) *m u = lam *: u ->
      let v := eval_mx env (cisqrt_prog m) *m (e_X n m env)^T *m u in
      eval_mx env (cov_prog n m p) *m v = lam *: v /\ (lam != 0 -> v^T *m v = u^T *m u).
Proof. exact same_spectrum_KC. Qed.
Print Assumptions C03_same_spectrum_kernel_to_cov.

(* ---- the latent coordinates: eigenvectors of K~ scaled by sqrt(eigenvalue), both routes --- *)
Theorem C03_sample_T :
  forall (F : rcfType) (n m p k : nat) (env : env_mx F),
    centred n m env -> fit_oracle n m p k env true ->
    eval_mx env (transform_prog n m p k true (eX n m))
    = e_Vs n k env *m diag_mx (\row_i (if e_tol env < e_S k env i 0 then Num.sqrt (e_S k env i 0) else 0)).
Proof. exact sample_scores_explicit. Qed.
Print Assumptions C03_sample_T.

Theorem C03_feature_T :
  forall (F : rcfType) (n m p k : nat) (env : env_mx F),
    centred n m env -> fit_oracle n m p k env false -> regressor_contract n m p env ->
    let T := eval_mx env (transform_prog n m p k false (eX n m)) in
    let U := e_X n m env *m eval_mx env (cisqrt_prog m) *m e_Vf m k env in
    [/\ T = U *m dmap (g_sq (e_tol env)) (e_S k env),
        (* the columns of T are eigenvectors of K~ for the same eigenvalues ... *)
        eval_mx env (kern_prog n m p) *m T = T *m diag_mx (e_S k env)^T
      & (* ... mutually orthogonal, of squared norm = retained eigenvalue *)
        T^T *m T = dmap (fun x => g_mk (e_tol env) x * x) (e_S k env)].
Proof. exact feature_scores. Qed.
Print Assumptions C03_feature_T.

(* ---- route independence of Gram matrix of the scores, reconstruction and predictions ------
   hypotheses: both routes' oracles, all k components retained, and the rest (Uc, Sc) of the
   spectrum of K~ is separated from the retained eigenvalues.                                *)
Theorem C03_gram_equal :
  forall (F : rcfType) (n m p k : nat) (env : env_mx F) (r : nat) (Uc : 'M[F]_(n, r)) (Sc : 'cV[F]_r),
    fit_oracle n m p k env true -> fit_oracle n m p k env false ->
    (forall i, e_tol env < e_S k env i 0) ->
    eval_mx env (kern_prog n m p) *m Uc = Uc *m diag_mx Sc^T ->
    e_Vs n k env *m (e_Vs n k env)^T + Uc *m Uc^T = 1%:M ->
    (forall i j, Sc i 0 != e_S k env j 0) ->
    centred n m env ->
    let Tf := eval_mx env (transform_prog n m p k false (eX n m)) in
    let Ts := eval_mx env (transform_prog n m p k true (eX n m)) in
    Tf *m Tf^T = Ts *m Ts^T.
Proof. exact route_gram. Qed.
Print Assumptions C03_gram_equal.

Theorem C03_reconstruction_equal :
  forall (F : rcfType) (n m p k : nat) (env : env_mx F) (r : nat) (Uc : 'M[F]_(n, r)) (Sc : 'cV[F]_r),
    fit_oracle n m p k env true -> fit_oracle n m p k env false ->
    (forall i, e_tol env < e_S k env i 0) ->
    eval_mx env (kern_prog n m p) *m Uc = Uc *m diag_mx Sc^T ->
    e_Vs n k env *m (e_Vs n k env)^T + Uc *m Uc^T = 1%:M ->
    (forall i j, Sc i 0 != e_S k env j 0) ->
    centred n m env ->
    eval_mx env (inverse_prog n m k false (transform_prog n m p k false (eX n m)))
    = eval_mx env (inverse_prog n m k true (transform_prog n m p k true (eX n m))).
Proof. exact route_reconstruction. Qed.
Print Assumptions C03_reconstruction_equal.

Theorem C03_predictions_equal :
  forall (F : rcfType) (n m p k : nat) (env : env_mx F) (r : nat) (Uc : 'M[F]_(n, r)) (Sc : 'cV[F]_r),
    fit_oracle n m p k env true -> fit_oracle n m p k env false ->
    (forall i, e_tol env < e_S k env i 0) ->
    eval_mx env (kern_prog n m p) *m Uc = Uc *m diag_mx Sc^T ->
    e_Vs n k env *m (e_Vs n k env)^T + Uc *m Uc^T = 1%:M ->
    (forall i j, Sc i 0 != e_S k env j 0) ->
    centred n m env ->
    eval_mx env (predict_t_prog n m p k false (transform_prog n m p k false (eX n m)))
    = eval_mx env (predict_t_prog n m p k true (transform_prog n m p k true (eX n m))).
Proof. exact route_predictions. Qed.
Print Assumptions C03_predictions_equal.

(* ---- any two admissible top-k oracle answers (full / arpack / randomized ...) agree --------
   on every function of the retained part.  _partial: the complementary eigenvectors (Uc, Sc)
   of K are a hypothesis - their existence is the spectral theorem, which is not derived.   *)
Theorem C03_topk_unique_partial :
  forall (F : rcfType) (n k r : nat) (K : 'M[F]_n) (U1 U2 : 'M[F]_(n, k)) (S : 'cV[F]_k)
         (Uc : 'M[F]_(n, r)) (Sc : 'cV[F]_r),
    K^T = K ->
    K *m U1 = U1 *m diag_mx S^T ->
    U2^T *m U2 = 1%:M -> K *m U2 = U2 *m diag_mx S^T ->
    K *m Uc = Uc *m diag_mx Sc^T -> U1 *m U1^T + Uc *m Uc^T = 1%:M ->
    (forall i j, Sc i 0 != S j 0) ->
    forall f : F -> F, U2 *m dmap f S *m U2^T = U1 *m dmap f S *m U1^T.
Proof. exact topk_unique. Qed.
Print Assumptions C03_topk_unique_partial.

(* ---- the reported spectra are read off the retained eigenvalues --------------------------- *)
Theorem C03_singular_values :
  forall (F : rcfType) (k : nat) (env : env_mx F) i,
    (eval_mx env (singular_values_prog k)) i 0 = Num.sqrt (e_S k env i 0).
Proof. exact singular_values_formula. Qed.
Print Assumptions C03_singular_values.

Theorem C03_explained_variance :
  forall (F : rcfType) (n k : nat) (env : env_mx F) i,
    (eval_mx env (explained_variance_prog n k)) i 0 = (n%:R - 1)^-1 * e_S k env i 0.
Proof. exact explained_variance_formula. Qed.
Print Assumptions C03_explained_variance.

(* ---- non-vacuity: both routes' hypotheses, retention and the spectral gap hold together --- *)
Example C03_nonvacuous :
  forall (F : rcfType) (mix : F), exists (env : env_mx F) (Uc : 'M[F]_(2, 1)) (Sc : 'cV[F]_1),
    [/\ [/\ centred 2 1 env, fit_oracle 2 1 1 1 env true, fit_oracle 2 1 1 1 env false
          & [/\ forall i, e_tol env < e_S 1 env i 0, e_a env = mix & e_X 2 1 env != 0]],
        eval_mx env (kern_prog 2 1 1) *m Uc = Uc *m diag_mx Sc^T,
        e_Vs 2 1 env *m (e_Vs 2 1 env)^T + Uc *m Uc^T = 1%:M
      & forall i j, Sc i 0 != e_S 1 env j 0].
Proof. exact ex_c03. Qed.
Print Assumptions C03_nonvacuous.

(* ==========================================================================================
   Extension (round 3).  Model additions: Model/PCovRC03.v; proofs: Proofs/PCovRC03P.v.      *)

(* ---- route independence WITHOUT "all k components retained" ---------------------------------
   n_components may exceed the numerical rank (rank-deficient X, mixing 0 with k > n_targets):
   the components with S_i <= tol are masked by the `s > tol` guards of both routes.  The gap is
   only required between the rest of the spectrum of K~ and the RETAINED eigenvalues.  These
   three theorems imply C03_gram_equal / _reconstruction_equal / _predictions_equal.          *)
Theorem C03_gram_equal_masked :
  forall (F : rcfType) (n m p k : nat) (env : env_mx F) (r : nat) (Uc : 'M[F]_(n, r)) (Sc : 'cV[F]_r),
    fit_oracle n m p k env true -> fit_oracle n m p k env false ->
    eval_mx env (kern_prog n m p) *m Uc = Uc *m diag_mx Sc^T ->
    e_Vs n k env *m (e_Vs n k env)^T + Uc *m Uc^T = 1%:M ->
    (forall i j, e_tol env < e_S k env j 0 -> Sc i 0 != e_S k env j 0) ->
    centred n m env ->
    let Tf := eval_mx env (transform_prog n m p k false (eX n m)) in
    let Ts := eval_mx env (transform_prog n m p k true (eX n m)) in
    Tf *m Tf^T = Ts *m Ts^T.
Proof. exact route_gram_masked. Qed.
Print Assumptions C03_gram_equal_masked.

Theorem C03_reconstruction_equal_masked :
  forall (F : rcfType) (n m p k : nat) (env : env_mx F) (r : nat) (Uc : 'M[F]_(n, r)) (Sc : 'cV[F]_r),
    fit_oracle n m p k env true -> fit_oracle n m p k env false ->
    eval_mx env (kern_prog n m p) *m Uc = Uc *m diag_mx Sc^T ->
    e_Vs n k env *m (e_Vs n k env)^T + Uc *m Uc^T = 1%:M ->
    (forall i j, e_tol env < e_S k env j 0 -> Sc i 0 != e_S k env j 0) ->
    centred n m env ->
    eval_mx env (inverse_prog n m k false (transform_prog n m p k false (eX n m)))
    = eval_mx env (inverse_prog n m k true (transform_prog n m p k true (eX n m))).
Proof. exact route_reconstruction_masked. Qed.
Print Assumptions C03_reconstruction_equal_masked.

Theorem C03_predictions_equal_masked :
  forall (F : rcfType) (n m p k : nat) (env : env_mx F) (r : nat) (Uc : 'M[F]_(n, r)) (Sc : 'cV[F]_r),
    fit_oracle n m p k env true -> fit_oracle n m p k env false ->
    eval_mx env (kern_prog n m p) *m Uc = Uc *m diag_mx Sc^T ->
    e_Vs n k env *m (e_Vs n k env)^T + Uc *m Uc^T = 1%:M ->
    (forall i j, e_tol env < e_S k env j 0 -> Sc i 0 != e_S k env j 0) ->
    centred n m env ->
    eval_mx env (predict_t_prog n m p k false (transform_prog n m p k false (eX n m)))
    = eval_mx env (predict_t_prog n m p k true (transform_prog n m p k true (eX n m))).
Proof. exact route_predictions_masked. Qed.
Print Assumptions C03_predictions_equal_masked.

(* ---- "the same latent coordinates up to the sign of each component" -------------------------
   when, in addition, every retained eigenvalue is simple among the k returned ones: the two
   routes' transform(X) differ by a diagonal matrix of signs, entry by entry.                *)
Theorem C03_latent_up_to_sign :
  forall (F : rcfType) (n m p k : nat) (env : env_mx F) (r : nat) (Uc : 'M[F]_(n, r)) (Sc : 'cV[F]_r),
    fit_oracle n m p k env true -> fit_oracle n m p k env false ->
    eval_mx env (kern_prog n m p) *m Uc = Uc *m diag_mx Sc^T ->
    e_Vs n k env *m (e_Vs n k env)^T + Uc *m Uc^T = 1%:M ->
    (forall i j, e_tol env < e_S k env j 0 -> Sc i 0 != e_S k env j 0) ->
    centred n m env ->
    (forall i j : 'I_k, e_tol env < e_S k env j 0 -> i != j -> e_S k env i 0 != e_S k env j 0) ->
    exists d : 'rV[F]_k,
      (forall i, (d 0 i == 1) || (d 0 i == -1))
      /\ eval_mx env (transform_prog n m p k false (eX n m))
         = eval_mx env (transform_prog n m p k true (eX n m)) *m diag_mx d.
Proof. exact latent_up_to_sign. Qed.
Print Assumptions C03_latent_up_to_sign.

(* the general statement behind both: two eigenvector families of a symmetric matrix for the same
   eigenvalues S - the first orthonormal, the second orthonormal on the retained components only -
   agree on every function of the retained part (the complement (Uc, Sc) stays a hypothesis, as
   in C03_topk_unique_partial) *)
Theorem C03_topk_unique_masked_partial :
  forall (F : rcfType) (n k r : nat) (K : 'M[F]_n) (tol : F) (U1 U2 : 'M[F]_(n, k)) (S : 'cV[F]_k)
         (Uc : 'M[F]_(n, r)) (Sc : 'cV[F]_r),
    K^T = K ->
    U1^T *m U1 = 1%:M -> K *m U1 = U1 *m diag_mx S^T ->
    U2^T *m U2 *m dmap (g_mk tol) S = dmap (g_mk tol) S -> K *m U2 = U2 *m diag_mx S^T ->
    K *m Uc = Uc *m diag_mx Sc^T -> U1 *m U1^T + Uc *m Uc^T = 1%:M ->
    (forall i j, tol < S j 0 -> Sc i 0 != S j 0) ->
    forall f : F -> F, (forall i, f (S i 0) = g_mk tol (S i 0) * f (S i 0)) ->
    U2 *m dmap f S *m U2^T = U1 *m dmap f S *m U1^T.
Proof. exact topk_unique_masked. Qed.
Print Assumptions C03_topk_unique_masked_partial.

(* ---- the LAPACK call the code makes: scipy.linalg.svd of the modified matrix ------------------
   _decompose_full computes a SINGULAR VALUE decomposition M = U diag(s) V^T of the d x d
   modified matrix and keeps the first k rows of Vt.  For mixing in [0, 1] the modified Gram
   matrix / covariance is symmetric positive semi-definite, hence the svd contract implies the
   eigen-equation that all theorems above take as the oracle hypothesis - also after the
   truncation [:k] (d = k + r).  Outside [0, 1] the matrix is indefinite and this fails.      *)
Theorem C03_svd_contract_sample :
  forall (F : rcfType) (k r : nat) (env : env_mx F) (m p : nat)
         (U V : 'M[F]_(k + r)) (s : 'cV[F]_(k + r)),
    0 <= e_a env -> e_a env <= 1 ->
    U^T *m U = 1%:M -> V^T *m V = 1%:M -> (forall i, 0 <= s i 0) ->
    eval_mx env (kern_prog (k + r) m p) = U *m diag_mx s^T *m V^T ->
    e_Vs (k + r) k env = lsubmx V -> e_S k env = usubmx s ->
    svd_oracle_sample (k + r) m p k env.
Proof. exact svd_contract_sample. Qed.
Print Assumptions C03_svd_contract_sample.

Theorem C03_svd_contract_feature :
  forall (F : rcfType) (k r : nat) (env : env_mx F) (n p : nat)
         (U V : 'M[F]_(k + r)) (s : 'cV[F]_(k + r)),
    0 <= e_a env -> e_a env <= 1 ->
    U^T *m U = 1%:M -> V^T *m V = 1%:M -> (forall i, 0 <= s i 0) ->
    eval_mx env (cov_prog n (k + r) p) = U *m diag_mx s^T *m V^T ->
    e_Vf (k + r) k env = lsubmx V -> e_S k env = usubmx s ->
    svd_oracle_feature n (k + r) p k env.
Proof. exact svd_contract_feature. Qed.
Print Assumptions C03_svd_contract_feature.

(* ---- svd_flip: multiplying the retained vectors by signs keeps the oracle hypotheses, turns the
   projectors into pxt_ D, D ptx_, D pty_ and leaves pxt_ ptx_ unchanged (both routes)        *)
Theorem C03_svd_flip_oracle :
  forall (F : rcfType) (d k : nat) (M : 'M[F]_d) (V : 'M[F]_(d, k)) (S : 'cV[F]_k) (sg : 'rV[F]_k),
    (forall i, sg 0 i * sg 0 i = 1) ->
    V^T *m V = 1%:M -> M *m V = V *m diag_mx S^T ->
    (V *m diag_mx sg)^T *m (V *m diag_mx sg) = 1%:M
    /\ M *m (V *m diag_mx sg) = (V *m diag_mx sg) *m diag_mx S^T.
Proof. exact flip_oracle. Qed.
Print Assumptions C03_svd_flip_oracle.

Theorem C03_svd_flip_sample :
  forall (F : rcfType) (d k : nat) (V : 'M[F]_(d, k)) (S : 'cV[F]_k) (sg : 'rV[F]_k),
    (forall i, sg 0 i * sg 0 i = 1) ->
    forall (m p : nat) (X : 'M[F]_(d, m)) (Y Yh : 'M[F]_(d, p)) (W : 'M[F]_(m, p)) (a tol : F),
    let D := diag_mx sg in
    [/\ s_pxt X Yh W a tol (V *m D) S = s_pxt X Yh W a tol V S *m D,
        s_ptx X tol (V *m D) S = D *m s_ptx X tol V S,
        s_pty Y tol (V *m D) S = D *m s_pty Y tol V S
      & s_pxt X Yh W a tol (V *m D) S *m s_ptx X tol (V *m D) S
        = s_pxt X Yh W a tol V S *m s_ptx X tol V S].
Proof. exact flip_sample. Qed.
Print Assumptions C03_svd_flip_sample.

Theorem C03_svd_flip_feature :
  forall (F : rcfType) (m k : nat) (V : 'M[F]_(m, k)) (S : 'cV[F]_k) (sg : 'rV[F]_k),
    (forall i, sg 0 i * sg 0 i = 1) ->
    forall (n p : nat) (X : 'M[F]_(n, m)) (Y : 'M[F]_(n, p)) (tol : F)
           (UC : 'M[F]_m) (vC : 'cV[F]_m) (Csq : 'M[F]_m),
    let D := diag_mx sg in
    [/\ f_pxt tol UC vC (V *m D) S = f_pxt tol UC vC V S *m D,
        f_ptx tol (V *m D) S Csq = D *m f_ptx tol V S Csq,
        f_pty X Y tol UC vC (V *m D) S = D *m f_pty X Y tol UC vC V S
      & f_pxt tol UC vC (V *m D) S *m f_ptx tol (V *m D) S Csq
        = f_pxt tol UC vC V S *m f_ptx tol V S Csq].
Proof. exact flip_feature. Qed.
Print Assumptions C03_svd_flip_feature.

(* ---- the ridge regressors inside the model: normal equations with alpha != 0 put the weights
   into the row space of X (Pi = C^-1/2 X^T X C^-1/2, C03_isqrt_spec), which is what makes the
   sample-space projectors - they contain W - act on NEW data like the feature-space ones    *)
Theorem C03_ridge_weights_in_rowspace :
  forall (F : rcfType) (n m p : nat) (env : env_mx F),
    0 <= e_tol env -> eigh_oracle n m env -> e_alpha env != 0 ->
    eval_mx env (ridge_res_prog n m p) = 0 ->
    let A := eval_mx env (cisqrt_prog m) in
    A *m ((e_X n m env)^T *m e_X n m env) *m A *m e_W m p env = e_W m p env.
Proof. exact ridge_rowspace. Qed.
Print Assumptions C03_ridge_weights_in_rowspace.

Theorem C03_ridge_formula :
  forall (F : rcfType) (n m p : nat) (env : env_mx F),
    eval_mx env (ridge_res_prog n m p)
    = ((e_X n m env)^T *m e_X n m env + e_alpha env *: 1%:M) *m e_W m p env
      - (e_X n m env)^T *m e_Y n p env.
Proof. exact ridge_res_formula. Qed.
Print Assumptions C03_ridge_formula.

(* ---- non-vacuity of the new hypotheses ----------------------------------------------------- *)
Example C03_ext_nonvacuous :
  forall (F : rcfType) (mix : F), exists (env : env_mx F) (Uc : 'M[F]_(2, 1)) (Sc : 'cV[F]_1),
    [/\ [/\ centred 2 1 env, fit_oracle 2 1 1 1 env true, fit_oracle 2 1 1 1 env false
          & e_a env = mix /\ e_X 2 1 env != 0],
        eval_mx env (kern_prog 2 1 1) *m Uc = Uc *m diag_mx Sc^T,
        e_Vs 2 1 env *m (e_Vs 2 1 env)^T + Uc *m Uc^T = 1%:M,
        forall i j, e_tol env < e_S 1 env j 0 -> Sc i 0 != e_S 1 env j 0
      & forall i j : 'I_1, e_tol env < e_S 1 env j 0 -> i != j -> e_S 1 env i 0 != e_S 1 env j 0].
Proof. exact ex_c03_ext. Qed.
Print Assumptions C03_ext_nonvacuous.

Example C03_svd_nonvacuous :
  forall (F : rcfType) (mix : F), 0 <= mix -> mix <= 1 ->
    exists (env : env_mx F) (U V : 'M[F]_(1 + 1)) (s : 'cV[F]_(1 + 1)),
      [/\ 0 <= e_a env /\ e_a env <= 1, U^T *m U = 1%:M /\ V^T *m V = 1%:M,
          forall i, 0 <= s i 0,
          eval_mx env (kern_prog (1 + 1) 1 1) = U *m diag_mx s^T *m V^T
        & e_Vs (1 + 1) 1 env = lsubmx V /\ e_S 1 env = usubmx s].
Proof. exact ex_c03_svd. Qed.
Print Assumptions C03_svd_nonvacuous.
