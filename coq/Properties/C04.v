(* C04 - PCovR interpolates optimally and monotonically between PCA and regression.
   Statements only; every proof is `exact <lemma>` from Proofs/.

   Model: Model/PCovR.v.  loss_prog n m p k Q is the mixed objective
       a |X - Q Q^T X|^2 + (1 - a) |Yh - Q Q^T Yh|^2     (squared Frobenius norms)
   of the k-dimensional subspace of sample space spanned by the orthonormal columns of Q;
   lossx_prog / lossy_prog are its two parts.  eVs is PCovR's own subspace: the top-k
   eigenvectors of the modified Gram matrix K~ = kern_prog returned by the svd oracle
   (hypotheses [fit_oracle], see Properties/C14.v).  All statements hold over an ARBITRARY
   real closed field and for ALL shapes.  [mixed_loss], [proj_loss] are the same quantities
   on plain matrices (C04_loss_formula links them to the programs).                          *)
From mathcomp Require Import all_ssreflect all_algebra.
From Verif Require Import MExp MExpMx PCovR PCovRC04 PCovRP PCovRProg KyFan C14Thm C04Thm PCovRExample
  C04ExtP C04ExtExample.
Import GRing.Theory Num.Theory.
Local Open Scope ring_scope.

Theorem C04_loss_formula :
  forall (F : rcfType) (n m p k : nat) (env : env_mx F) (Q : mexp n k),
    (eval_mx env (loss_prog n m p k Q)) ord0 ord0
    = mixed_loss (e_X n m env) (e_Yh n p env) (e_a env) (eval_mx env Q).
Proof. exact loss_formula. Qed.
Print Assumptions C04_loss_formula.

Theorem C04_mixed_loss_meaning :
  forall (F : rcfType) (n m p k : nat) (X : 'M[F]_(n, m)) (Yh : 'M[F]_(n, p)) (a : F) (Q : 'M[F]_(n, k)),
    mixed_loss X Yh a Q
    = a * \tr ((X - Q *m (Q^T *m X))^T *m (X - Q *m (Q^T *m X)))
      + (1 - a) * \tr ((Yh - Q *m (Q^T *m Yh))^T *m (Yh - Q *m (Q^T *m Yh))).
Proof. by []. Qed.
Print Assumptions C04_mixed_loss_meaning.

(* ---- trace form of the objective ----------------------------------------------------------- *)
Theorem C04_loss_trace :
  forall (F : rcfType) (n m p k : nat) (env : env_mx F) (Q : mexp n k),
    (eval_mx env Q)^T *m eval_mx env Q = 1%:M ->
    (eval_mx env (loss_prog n m p k Q)) ord0 ord0
    = \tr (eval_mx env (kern_prog n m p))
      - \tr ((eval_mx env Q)^T *m eval_mx env (kern_prog n m p) *m eval_mx env Q).
Proof. exact loss_trace. Qed.
Print Assumptions C04_loss_trace.

(* ---- scalar rearrangement lemma and Ky Fan's maximum principle ----------------------------- *)
Theorem C04_rearrange :
  forall (F : rcfType) (n k : nat) (lam p : 'I_n -> F),
    (k <= n)%N -> (forall i j : 'I_n, (i <= j)%N -> lam j <= lam i) ->
    (forall i, 0 <= p i) -> (forall i, p i <= 1) -> \sum_i p i = k%:R ->
    \sum_i lam i * p i <= \sum_(i < n | (i < k)%N) lam i.
Proof. exact rearrange. Qed.
Print Assumptions C04_rearrange.

Theorem C04_kyfan :
  forall (F : rcfType) (n k : nat) (K U : 'M[F]_n) (L : 'cV[F]_n) (Q : 'M[F]_(n, k)),
    U^T *m U = 1%:M -> K *m U = U *m diag_mx L^T ->
    (forall i j : 'I_n, (i <= j)%N -> L j 0 <= L i 0) ->
    Q^T *m Q = 1%:M ->
    \tr (Q^T *m K *m Q) <= \sum_(i < n | (i < k)%N) L i 0.
Proof. exact kyfan. Qed.
Print Assumptions C04_kyfan.

(* ---- optimality: no k-dimensional subspace of sample space - PCA's, the regression's or any
   other - has a smaller mixed loss than PCovR's.  (U, L) is the full eigen-decomposition of
   K~, decreasing, whose first k eigenvalues are the ones the oracle returned.               *)
Theorem C04_optimal :
  forall (F : rcfType) (n m p k : nat) (env : env_mx F) (U : 'M[F]_n) (L : 'cV[F]_n)
         (kn : (k <= n)%N) (Q : mexp n k),
    fit_oracle n m p k env true ->
    U^T *m U = 1%:M -> eval_mx env (kern_prog n m p) *m U = U *m diag_mx L^T ->
    (forall i j : 'I_n, (i <= j)%N -> L j 0 <= L i 0) ->
    (forall i : 'I_k, e_S k env i 0 = L (widen_ord kn i) 0) ->
    (eval_mx env Q)^T *m eval_mx env Q = 1%:M ->
    (eval_mx env (loss_prog n m p k (eVs n k))) ord0 ord0
    <= (eval_mx env (loss_prog n m p k Q)) ord0 ord0.
Proof. exact loss_optimal. Qed.
Print Assumptions C04_optimal.

(* the subspace eVs is the one the fitted estimator works with: inverse_transform(transform(X))
   and predict(T = transform(X)) are the orthogonal projections of X and Y onto it *)
Theorem C04_own_subspace :
  forall (F : rcfType) (n m p k : nat) (env : env_mx F),
    centred n m env -> fit_oracle n m p k env true -> (forall i, e_tol env < e_S k env i 0) ->
    let T := transform_prog n m p k true (eX n m) in
    eval_mx env (inverse_prog n m k true T) = e_Vs n k env *m ((e_Vs n k env)^T *m e_X n m env)
    /\ eval_mx env (predict_t_prog n m p k true T) = e_Vs n k env *m ((e_Vs n k env)^T *m e_Y n p env).
Proof. exact own_subspace. Qed.
Print Assumptions C04_own_subspace.

(* ---- mixing = 1: PCA.  components_ = pxt_^T are orthonormal eigenvectors of the covariance
   X^T X for the retained eigenvalues, and inverse_transform multiplies by components_.      *)
Theorem C04_pca_limit_sample :
  forall (F : rcfType) (n m p k : nat) (env : env_mx F),
    e_a env = 1 -> fit_oracle n m p k env true ->
    let P := eval_mx env (pxt_prog n m p k true) in
    [/\ P^T *m P = retained_mask k env,
        ((e_X n m env)^T *m e_X n m env) *m P = P *m diag_mx (e_S k env)^T
      & eval_mx env (ptx_prog n m k true) = P^T].
Proof. exact pca_limit_sample_prog. Qed.
Print Assumptions C04_pca_limit_sample.

Theorem C04_pca_limit_feature :
  forall (F : rcfType) (n m p k : nat) (env : env_mx F),
    e_a env = 1 -> fit_oracle n m p k env false ->
    let P := eval_mx env (pxt_prog n m p k false) in
    [/\ P = e_Vf m k env *m retained_mask k env,
        ((e_X n m env)^T *m e_X n m env) *m e_Vf m k env = e_Vf m k env *m diag_mx (e_S k env)^T
      & eval_mx env (ptx_prog n m k false) = P^T].
Proof. exact pca_limit_feature_prog. Qed.
Print Assumptions C04_pca_limit_feature.

(* ---- mixing = 0, exact least squares, k >= rank Yh: the predictions are the regression's -- *)
Theorem C04_regression_limit :
  forall (F : rcfType) (n m p k : nat) (env : env_mx F),
    centred n m env -> e_a env = 0 -> fit_oracle n m p k env true ->
    (* normal equations of the unregularised regression *)
    (e_X n m env)^T *m (e_Y n p env - e_Yh n p env) = 0 ->
    (* the retained eigenpairs reproduce K~ = Yh Yh^T  (k >= rank Yh) *)
    eval_mx env (kern_prog n m p)
    = e_Vs n k env *m dmap (fun x => g_mk (e_tol env) x * x) (e_S k env) *m (e_Vs n k env)^T ->
    eval_mx env (predict_x_prog n m p k true (eX n m)) = e_Yh n p env
    /\ eval_mx env (predict_t_prog n m p k true (transform_prog n m p k true (eX n m))) = e_Yh n p env.
Proof. exact regression_limit_prog. Qed.
Print Assumptions C04_regression_limit.

(* ---- monotonicity in the mixing (exchange argument from optimality) -------------------------
   abstract form: subspaces optimal for mixings a < b                                           *)
Theorem C04_monotone :
  forall (F : rcfType) (n m p k : nat) (X : 'M[F]_(n, m)) (Yh : 'M[F]_(n, p)) (a b : F)
         (Qa Qb : 'M[F]_(n, k)),
    0 <= a -> a < b -> b <= 1 ->
    Qa^T *m Qa = 1%:M -> Qb^T *m Qb = 1%:M ->
    (forall Q : 'M[F]_(n, k), Q^T *m Q = 1%:M -> mixed_loss X Yh a Qa <= mixed_loss X Yh a Q) ->
    (forall Q : 'M[F]_(n, k), Q^T *m Q = 1%:M -> mixed_loss X Yh b Qb <= mixed_loss X Yh b Q) ->
    proj_loss Qb X <= proj_loss Qa X /\ proj_loss Qa Yh <= proj_loss Qb Yh.
Proof. exact mixing_monotone. Qed.
Print Assumptions C04_monotone.

Theorem C04_full_fit_meaning :
  forall (F : rcfType) (n m p k : nat) (kn : (k <= n)%N) (e : env_mx F) (U : 'M[F]_n) (L : 'cV[F]_n),
    full_fit m p kn e U L <->
    [/\ fit_oracle n m p k e true,
        U^T *m U = 1%:M /\ eval_mx e (kern_prog n m p) *m U = U *m diag_mx L^T,
        forall i j : 'I_n, (i <= j)%N -> L j 0 <= L i 0
      & forall i : 'I_k, e_S k e i 0 = L (widen_ord kn i) 0].
Proof. by []. Qed.
Print Assumptions C04_full_fit_meaning.

(* program form: two fits (environments ea, eb) of the same X, Yh with mixings a < b *)
Theorem C04_monotone_fits :
  forall (F : rcfType) (n m p k : nat) (ea eb : env_mx F) (Ua Ub : 'M[F]_n) (La Lb : 'cV[F]_n)
         (kn : (k <= n)%N),
    e_X n m ea = e_X n m eb -> e_Yh n p ea = e_Yh n p eb ->
    0 <= e_a ea -> e_a ea < e_a eb -> e_a eb <= 1 ->
    full_fit m p kn ea Ua La -> full_fit m p kn eb Ub Lb ->
    (eval_mx eb (lossx_prog n m k (eVs n k))) ord0 ord0
      <= (eval_mx ea (lossx_prog n m k (eVs n k))) ord0 ord0
    /\ (eval_mx ea (lossy_prog n p k (eVs n k))) ord0 ord0
      <= (eval_mx eb (lossy_prog n p k (eVs n k))) ord0 ord0.
Proof. exact monotone_prog. Qed.
Print Assumptions C04_monotone_fits.

(* ---- non-vacuity --------------------------------------------------------------------------- *)
Example C04_nonvacuous :
  forall F : rcfType,
    exists (ea eb : env_mx F) (U : 'M[F]_2) (La Lb : 'cV[F]_2) (Q : 'M[F]_(2, 1)),
      [/\ [/\ e_X 2 1 ea = e_X 2 1 eb, e_Yh 2 1 ea = e_Yh 2 1 eb & centred 2 1 ea],
          [/\ 0 <= e_a ea, e_a ea < e_a eb & e_a eb <= 1],
          full_fit 1 1 (isT : (1 <= 2)%N) ea U La, full_fit 1 1 (isT : (1 <= 2)%N) eb U Lb
        & Q^T *m Q = 1%:M].
Proof. exact ex_c04. Qed.
Print Assumptions C04_nonvacuous.

Example C04_nonvacuous_limits :
  forall F : rcfType,
    exists (e1 e0 : env_mx F),
      [/\ e_a e1 = 1, fit_oracle 2 1 1 1 e1 true, fit_oracle 2 1 1 1 e1 false
        & [/\ e_a e0 = 0, fit_oracle 2 1 1 1 e0 true, centred 2 1 e0,
              (e_X 2 1 e0)^T *m (e_Y 2 1 e0 - e_Yh 2 1 e0) = 0
            & eval_mx e0 (kern_prog 2 1 1)
              = e_Vs 2 1 e0 *m dmap (fun x => g_mk (e_tol e0) x * x) (e_S 1 e0) *m (e_Vs 2 1 e0)^T]].
Proof. exact ex_c04_limits. Qed.
Print Assumptions C04_nonvacuous_limits.

(* =============================================================================================
   Extension round 3: BOTH routes of fit, the losses a user observes, masked components.

   own_Q n m k env sp is PCovR's own subspace of sample space as an n x k matrix: V (sample-space
   route, sp = true) or X C^-1/2 V (feature-space route; Model/PCovRC04.v [ownq_prog] is the same
   as a program, C04_ownq_formula).  regressor_contract is Yhat = X W (part of fit_oracle in
   sample space, a separate hypothesis in feature space).                                     *)
Theorem C04_ownq_formula :
  forall (F : rcfType) (n m k : nat) (env : env_mx F) (sp : bool),
    eval_mx env (ownq_prog n m k sp) = own_Q n m k env sp.
Proof. exact ownq_formula. Qed.
Print Assumptions C04_ownq_formula.

Theorem C04_own_Q_meaning :
  forall (F : rcfType) (n m k : nat) (env : env_mx F) (sp : bool),
    own_Q n m k env sp
    = if sp then e_Vs n k env
      else e_X n m env *m f_A (e_tol env) (e_UC m env) (e_vC m env) *m e_Vf m k env.
Proof. by []. Qed.
Print Assumptions C04_own_Q_meaning.

(* whichever route: an orthonormal family of eigenvectors of K~ for the returned eigenvalues *)
Theorem C04_own_basis :
  forall (F : rcfType) (n m p k : nat) (env : env_mx F) (sp : bool),
    fit_oracle n m p k env sp -> regressor_contract n m p env ->
    (forall i, e_tol env < e_S k env i 0) ->
    (own_Q n m k env sp)^T *m own_Q n m k env sp = 1%:M
    /\ eval_mx env (kern_prog n m p) *m own_Q n m k env sp
       = own_Q n m k env sp *m diag_mx (e_S k env)^T.
Proof. exact own_basis. Qed.
Print Assumptions C04_own_basis.

(* whichever route, masked components ALLOWED: inverse_transform(transform(X)) and
   predict(T = transform(X)) are the orthogonal projections of X and Y onto the retained
   columns of own_Q  (C04_own_subspace: sample route, every component retained) *)
Theorem C04_own_subspace_both :
  forall (F : rcfType) (n m p k : nat) (env : env_mx F) (sp : bool),
    fit_oracle n m p k env sp -> regressor_contract n m p env -> centred n m env ->
    let T := transform_prog n m p k sp (eX n m) in
    let Q := own_Q n m k env sp in
    eval_mx env (inverse_prog n m k sp T) = Q *m retained_mask k env *m Q^T *m e_X n m env
    /\ eval_mx env (predict_t_prog n m p k sp T) = Q *m retained_mask k env *m Q^T *m e_Y n p env.
Proof. exact own_subspace_both. Qed.
Print Assumptions C04_own_subspace_both.

(* optimality for the route fit actually took: in particular a FEATURE-space fit attains the
   optimum of the mixed objective over all k-dimensional subspaces of sample space *)
Theorem C04_optimal_both :
  forall (F : rcfType) (n m p k : nat) (env : env_mx F) (sp : bool),
    fit_oracle n m p k env sp -> regressor_contract n m p env ->
    forall (U : 'M[F]_n) (L : 'cV[F]_n) (kn : (k <= n)%N) (Qc : mexp n k),
    (forall i, e_tol env < e_S k env i 0) ->
    U^T *m U = 1%:M -> eval_mx env (kern_prog n m p) *m U = U *m diag_mx L^T ->
    (forall i j : 'I_n, (i <= j)%N -> L j 0 <= L i 0) ->
    (forall i : 'I_k, e_S k env i 0 = L (widen_ord kn i) 0) ->
    (eval_mx env Qc)^T *m eval_mx env Qc = 1%:M ->
    (eval_mx env (loss_prog n m p k (ownq_prog n m k sp))) ord0 ord0
    <= (eval_mx env (loss_prog n m p k Qc)) ord0 ord0.
Proof. exact optimal_both. Qed.
Print Assumptions C04_optimal_both.

(* the training losses as the user measures them,
     |X - inverse_transform(transform(X))|^2  and  |Y - predict(T = transform(X))|^2,
   are the projection losses of own_Q *)
Theorem C04_observed_losses :
  forall (F : rcfType) (n m p k : nat) (env : env_mx F) (sp : bool),
    fit_oracle n m p k env sp -> regressor_contract n m p env ->
    centred n m env -> (forall i, e_tol env < e_S k env i 0) ->
    (eval_mx env (obs_lossx_prog n m p k sp)) ord0 ord0
      = proj_loss (own_Q n m k env sp) (e_X n m env)
    /\ (eval_mx env (obs_lossy_prog n m p k sp)) ord0 ord0
      = proj_loss (own_Q n m k env sp) (e_Y n p env).
Proof. exact observed_losses. Qed.
Print Assumptions C04_observed_losses.

(* masked components allowed: the observed losses are the projection losses of the RETAINED
   columns of own_Q (program ownq_ret = ownq_prog times the 0/1 mask of the `s > tol` guards) *)
Theorem C04_observed_losses_masked :
  forall (F : rcfType) (n m p k : nat) (env : env_mx F) (sp : bool),
    fit_oracle n m p k env sp -> regressor_contract n m p env -> centred n m env ->
    (eval_mx env (obs_lossx_prog n m p k sp)) ord0 ord0
      = (eval_mx env (lossx_prog n m k (ownq_ret n m k sp))) ord0 ord0
    /\ (eval_mx env (obs_lossy_prog n m p k sp)) ord0 ord0
      = proj_loss (own_Q n m k env sp *m retained_mask k env) (e_Y n p env).
Proof. exact observed_losses_masked. Qed.
Print Assumptions C04_observed_losses_masked.

(* predict projects Y, the objective contains Yhat: for exact least squares the two losses differ
   by the constant |Y - Yhat|^2 (Pythagoras; the residual is orthogonal to the retained subspace) *)
Theorem C04_observed_regression_loss :
  forall (F : rcfType) (n m p k : nat) (env : env_mx F) (sp : bool),
    fit_oracle n m p k env sp -> regressor_contract n m p env ->
    centred n m env -> (forall i, e_tol env < e_S k env i 0) ->
    (e_X n m env)^T *m (e_Y n p env - e_Yh n p env) = 0 ->
    (eval_mx env (obs_lossy_prog n m p k sp)) ord0 ord0
    = (eval_mx env (lossy_prog n p k (ownq_prog n m k sp))) ord0 ord0
      + (eval_mx env (resid_ls_prog n p)) ord0 ord0.
Proof. exact observed_regression_loss. Qed.
Print Assumptions C04_observed_regression_loss.

(* mixing = 0 by EITHER route, masked components allowed (k > rank Yhat) *)
Theorem C04_regression_limit_both :
  forall (F : rcfType) (n m p k : nat) (env : env_mx F) (sp : bool),
    fit_oracle n m p k env sp -> regressor_contract n m p env ->
    centred n m env -> e_a env = 0 ->
    (e_X n m env)^T *m (e_Y n p env - e_Yh n p env) = 0 ->
    eval_mx env (kern_prog n m p)
    = own_Q n m k env sp *m dmap (fun x => g_mk (e_tol env) x * x) (e_S k env)
      *m (own_Q n m k env sp)^T ->
    eval_mx env (predict_x_prog n m p k sp (eX n m)) = e_Yh n p env
    /\ eval_mx env (predict_t_prog n m p k sp (transform_prog n m p k sp (eX n m))) = e_Yh n p env.
Proof. exact regression_limit_both. Qed.
Print Assumptions C04_regression_limit_both.

Theorem C04_full_fit_sp_meaning :
  forall (F : rcfType) (n m p k : nat) (kn : (k <= n)%N) (sp : bool) (e : env_mx F)
         (U : 'M[F]_n) (L : 'cV[F]_n),
    full_fit_sp m p kn sp e U L <->
    [/\ fit_oracle n m p k e sp /\ regressor_contract n m p e,
        centred n m e /\ (forall i, e_tol e < e_S k e i 0),
        U^T *m U = 1%:M /\ eval_mx e (kern_prog n m p) *m U = U *m diag_mx L^T,
        forall i j : 'I_n, (i <= j)%N -> L j 0 <= L i 0
      & forall i : 'I_k, e_S k e i 0 = L (widen_ord kn i) 0].
Proof. by []. Qed.
Print Assumptions C04_full_fit_sp_meaning.

(* "Consequently ... the training reconstruction loss of X is non-increasing and the training
   regression loss non-decreasing as mixing goes from 0 to 1" - on the OBSERVED losses, for two
   fits of the same data by ANY combination of routes *)
Theorem C04_monotone_observed_x :
  forall (F : rcfType) (n m p k : nat) (ea eb : env_mx F) (spa spb : bool)
         (Ua Ub : 'M[F]_n) (La Lb : 'cV[F]_n) (kn : (k <= n)%N),
    e_X n m ea = e_X n m eb -> e_Yh n p ea = e_Yh n p eb ->
    0 <= e_a ea -> e_a ea < e_a eb -> e_a eb <= 1 ->
    full_fit_sp m p kn spa ea Ua La -> full_fit_sp m p kn spb eb Ub Lb ->
    (eval_mx eb (obs_lossx_prog n m p k spb)) ord0 ord0
    <= (eval_mx ea (obs_lossx_prog n m p k spa)) ord0 ord0.
Proof. exact monotone_observed_x. Qed.
Print Assumptions C04_monotone_observed_x.

Theorem C04_monotone_observed_y :
  forall (F : rcfType) (n m p k : nat) (ea eb : env_mx F) (spa spb : bool)
         (Ua Ub : 'M[F]_n) (La Lb : 'cV[F]_n) (kn : (k <= n)%N),
    e_X n m ea = e_X n m eb -> e_Y n p ea = e_Y n p eb -> e_Yh n p ea = e_Yh n p eb ->
    0 <= e_a ea -> e_a ea < e_a eb -> e_a eb <= 1 ->
    full_fit_sp m p kn spa ea Ua La -> full_fit_sp m p kn spb eb Ub Lb ->
    (e_X n m ea)^T *m (e_Y n p ea - e_Yh n p ea) = 0 ->
    (eval_mx ea (obs_lossy_prog n m p k spa)) ord0 ord0
    <= (eval_mx eb (obs_lossy_prog n m p k spb)) ord0 ord0.
Proof. exact monotone_observed_y. Qed.
Print Assumptions C04_monotone_observed_y.

(* ---- non-vacuity: a sample-space fit at mixing 1/3 and a feature-space fit at 2/3 of the same
   data meet every hypothesis of the two monotonicity theorems (and hence of C04_own_basis,
   C04_optimal_both, C04_observed_losses), and the feature-space regression limit has an instance *)
Example C04_nonvacuous_both_routes :
  forall F : rcfType,
    exists (ea eb : env_mx F) (U : 'M[F]_2) (L : 'cV[F]_2),
      [/\ [/\ e_X 2 1 ea = e_X 2 1 eb, e_Y 2 1 ea = e_Y 2 1 eb & e_Yh 2 1 ea = e_Yh 2 1 eb],
          [/\ 0 <= e_a ea, e_a ea < e_a eb & e_a eb <= 1],
          full_fit_sp 1 1 (isT : (1 <= 2)%N) true ea U L,
          full_fit_sp 1 1 (isT : (1 <= 2)%N) false eb U L
        & (e_X 2 1 ea)^T *m (e_Y 2 1 ea - e_Yh 2 1 ea) = 0].
Proof. exact ex_c04_ext. Qed.
Print Assumptions C04_nonvacuous_both_routes.

Example C04_nonvacuous_regression_limit_feature :
  forall F : rcfType,
    exists e0 : env_mx F,
      [/\ e_a e0 = 0, fit_oracle 2 1 1 1 e0 false /\ regressor_contract 2 1 1 e0, centred 2 1 e0,
          (e_X 2 1 e0)^T *m (e_Y 2 1 e0 - e_Yh 2 1 e0) = 0
        & eval_mx e0 (kern_prog 2 1 1)
          = own_Q 2 1 1 e0 false *m dmap (fun x => g_mk (e_tol e0) x * x) (e_S 1 e0)
            *m (own_Q 2 1 1 e0 false)^T].
Proof. exact ex_c04_reglimit_feature. Qed.
Print Assumptions C04_nonvacuous_regression_limit_feature.

(* =============================================================================================
   Round 5: a FRACTIONAL n_components (0 < f < 1, full solver).  Model/PCovRFrac.v mirrors
   _decompose_full: explained-variance ratios of ALL eigenvalues of the modified matrix, their
   cumulative sums, np.searchsorted(..., side="right") + 1.  Exact model over Q (below) and on
   binary64 (resolve_f, run against the implementation's n_components_ on every check).
   (Coq.Lists.List and QArith names are qualified: ssreflect's seq shadows nth / length.)     *)
From Coq Require QArith.
Local Notation q_of z p := (QArith_base.Qmake (BinInt.Z.of_nat z%N) (BinPos.Pos.of_nat p%N)).
From Verif Require PCovRFrac PCovRFracP.

(* the resolved k is the SMALLEST k >= 1 whose cumulative explained-variance ratio exceeds f:
   every shorter prefix has ratio <= f, the prefix of length k has ratio > f, no smaller k does *)
Theorem C04_fraction_resolution :
  forall (f : QArith_base.Q) (sv : list QArith_base.Q) (n1 : QArith_base.Q),
    let c := PCovRFrac.ratio_cumsum_q sv n1 in
    let k := PCovRFrac.resolve_q f sv n1 in
    Peano.le 1%N k
    /\ (forall j, Peano.lt (S j) k -> QArith_base.Qle (List.nth j c (q_of 0 1)) f)
    /\ (Peano.le k (List.length c) ->
        QArith_base.Qlt f (List.nth (Nat.sub k 1%N) c (q_of 0 1)))
    /\ (forall k', Peano.le 1%N k' /\ Peano.le k' (List.length c) ->
        QArith_base.Qlt f (List.nth (Nat.sub k' 1%N) c (q_of 0 1)) -> Peano.le k k').
Proof. exact PCovRFracP.resolve_q_spec. Qed.
Print Assumptions C04_fraction_resolution.

(* as soon as some cumulative ratio exceeds f (the last one is 1), k is at most the number of
   eigenvalues: the slices U[:, :k], S[:k], Vt[:k] are full *)
Theorem C04_fraction_bound :
  forall (f : QArith_base.Q) (sv : list QArith_base.Q) (n1 : QArith_base.Q) (i : nat),
    let c := PCovRFrac.ratio_cumsum_q sv n1 in
    Peano.lt i (List.length c) -> QArith_base.Qlt f (List.nth i c (q_of 0 1)) ->
    Peano.le (PCovRFrac.resolve_q f sv n1) (List.length c)
    /\ List.length c = List.length sv.
Proof.
  move=> f sv n1 i c hi hf; split; first exact: (PCovRFracP.resolve_q_bound f sv n1 i hi hf).
  exact: PCovRFracP.ratio_cumsum_q_length.
Qed.
Print Assumptions C04_fraction_bound.

(* non-vacuity and the side="right" corner: eigenvalues 5,3,1,1, f = 9/10 -> 4 components (the
   third cumulative ratio EQUALS f and still counts as "<= f"), f = 89/100 -> 3 *)
Example C04_nonvacuous_fraction :
  PCovRFrac.resolve_q (q_of 9 10)
    (List.map (fun z => q_of z 1) (5 :: 3 :: 1 :: 1 :: nil)%N) (q_of 3 1) = 4%N
  /\ PCovRFrac.resolve_q (q_of 89 100)
    (List.map (fun z => q_of z 1) (5 :: 3 :: 1 :: 1 :: nil)%N) (q_of 3 1) = 3%N.
Proof. by vm_compute. Qed.
Print Assumptions C04_nonvacuous_fraction.
