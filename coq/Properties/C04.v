(* C04 - PCovR interpolates optimally and monotonically between PCA and regression.
   Statements only; every proof is `exact <lemma>` from Proofs/.

   Model: Model/PCovR.v.  loss_prog n m p k Q is the mixed objective
       a |X - Q Q^T X|^2 + (1 - a) |Yh - Q Q^T Yh|^2     (squared Frobenius norms)
   of the k-dimensional subspace of sample space spanned by the orthonormal columns of Q;
   lossx_prog / lossy_prog are its two parts.  eVs is PCovR's own subspace: the top-k
   eigenvectors of the modified Gram matrix K~ = kern_prog returned by the svd oracle
   (hypotheses [fit_oracle], see Properties/C14.v).  All statements hold over an ARBITRARY
   real closed field and for ALL shapes.  [mixed_loss], [proj_loss] are the same quantities
   on plain matrices (C04_loss_formula links them to the programs).                          *)
From mathcomp Require Import all_ssreflect all_algebra.
From Verif Require Import MExp MExpMx PCovR PCovRP PCovRProg KyFan C14Thm C04Thm PCovRExample.
Import GRing.Theory Num.Theory.
Local Open Scope ring_scope.

Theorem C04_loss_formula :
  forall (F : rcfType) (n m p k : nat) (env : env_mx F) (Q : mexp n k),
    (eval_mx env (loss_prog n m p k Q)) ord0 ord0
    = mixed_loss (e_X n m env) (e_Yh n p env) (e_a env) (eval_mx env Q).
Proof. exact loss_formula. Qed.
Print Assumptions C04_loss_formula.

Theorem C04_mixed_loss_meaning :
  forall (F : rcfType) (n m p k : nat) (X : 'M[F]_(n, m)) (Yh : 'M[F]_(n, p)) (a : F) (Q : 'M[F]_(n, k)),
    mixed_loss X Yh a Q
    = a * \tr ((X - Q *m (Q^T *m X))^T *m (X - Q *m (Q^T *m X)))
      + (1 - a) * \tr ((Yh - Q *m (Q^T *m Yh))^T *m (Yh - Q *m (Q^T *m Yh))).
Proof. by []. Qed.
Print Assumptions C04_mixed_loss_meaning.

(* ---- trace form of the objective ----------------------------------------------------------- *)
Theorem C04_loss_trace :
  forall (F : rcfType) (n m p k : nat) (env : env_mx F) (Q : mexp n k),
    (eval_mx env Q)^T *m eval_mx env Q = 1%:M ->
    (eval_mx env (loss_prog n m p k Q)) ord0 ord0
    = \tr (eval_mx env (kern_prog n m p))
      - \tr ((eval_mx env Q)^T *m eval_mx env (kern_prog n m p) *m eval_mx env Q).
Proof. exact loss_trace. Qed.
Print Assumptions C04_loss_trace.

(* ---- scalar rearrangement lemma and Ky Fan's maximum principle ----------------------------- *)
Theorem C04_rearrange :
  forall (F : rcfType) (n k : nat) (lam p : 'I_n -> F),
    (k <= n)%N -> (forall i j : 'I_n, (i <= j)%N -> lam j <= lam i) ->
    (forall i, 0 <= p i) -> (forall i, p i <= 1) -> \sum_i p i = k%:R ->
    \sum_i lam i * p i <= \sum_(i < n | (i < k)%N) lam i.
Proof. exact rearrange. Qed.
Print Assumptions C04_rearrange.

Theorem C04_kyfan :
  forall (F : rcfType) (n k : nat) (K U : 'M[F]_n) (L : 'cV[F]_n) (Q : 'M[F]_(n, k)),
    U^T *m U = 1%:M -> K *m U = U *m diag_mx L^T ->
    (forall i j : 'I_n, (i <= j)%N -> L j 0 <= L i 0) ->
    Q^T *m Q = 1%:M ->
    \tr (Q^T *m K *m Q) <= \sum_(i < n | (i < k)%N) L i 0.
Proof. exact kyfan. Qed.
Print Assumptions C04_kyfan.

(* ---- optimality: no k-dimensional subspace of sample space - PCA's, the regression's or any
   other - has a smaller mixed loss than PCovR's.  (U, L) is the full eigen-decomposition of
   K~, decreasing, whose first k eigenvalues are the ones the oracle returned.               *)
Theorem C04_optimal :
  forall (F : rcfType) (n m p k : nat) (env : env_mx F) (U : 'M[F]_n) (L : 'cV[F]_n)
         (kn : (k <= n)%N) (Q : mexp n k),
    fit_oracle n m p k env true ->
    U^T *m U = 1%:M -> eval_mx env (kern_prog n m p) *m U = U *m diag_mx L^T ->
    (forall i j : 'I_n, (i <= j)%N -> L j 0 <= L i 0) ->
    (forall i : 'I_k, e_S k env i 0 = L (widen_ord kn i) 0) ->
    (eval_mx env Q)^T *m eval_mx env Q = 1%:M ->
    (eval_mx env (loss_prog n m p k (eVs n k))) ord0 ord0
    <= (eval_mx env (loss_prog n m p k Q)) ord0 ord0.
Proof. exact loss_optimal. Qed.
Print Assumptions C04_optimal.

(* the subspace eVs is the one the fitted estimator works with: inverse_transform(transform(X))
   and predict(T = transform(X)) are the orthogonal projections of X and Y onto it *)
Theorem C04_own_subspace :
  forall (F : rcfType) (n m p k : nat) (env : env_mx F),
    centred n m env -> fit_oracle n m p k env true -> (forall i, e_tol env < e_S k env i 0) ->
    let T := transform_prog n m p k true (eX n m) in
    eval_mx env (inverse_prog n m k true T) = e_Vs n k env *m ((e_Vs n k env)^T *m e_X n m env)
    /\ eval_mx env (predict_t_prog n m p k true T) = e_Vs n k env *m ((e_Vs n k env)^T *m e_Y n p env).
Proof. exact own_subspace. Qed.
Print Assumptions C04_own_subspace.

(* ---- mixing = 1: PCA.  components_ = pxt_^T are orthonormal eigenvectors of the covariance
   X^T X for the retained eigenvalues, and inverse_transform multiplies by components_.      *)
Theorem C04_pca_limit_sample :
  forall (F : rcfType) (n m p k : nat) (env : env_mx F),
    e_a env = 1 -> fit_oracle n m p k env true ->
    let P := eval_mx env (pxt_prog n m p k true) in
    [/\ P^T *m P = retained_mask k env,
        ((e_X n m env)^T *m e_X n m env) *m P = P *m diag_mx (e_S k env)^T
      & eval_mx env (ptx_prog n m k true) = P^T].
Proof. exact pca_limit_sample_prog. Qed.
Print Assumptions C04_pca_limit_sample.

Theorem C04_pca_limit_feature :
  forall (F : rcfType) (n m p k : nat) (env : env_mx F),
    e_a env = 1 -> fit_oracle n m p k env false ->
    let P := eval_mx env (pxt_prog n m p k false) in
    [/\ P = e_Vf m k env *m retained_mask k env,
        ((e_X n m env)^T *m e_X n m env) *m e_Vf m k env = e_Vf m k env *m diag_mx (e_S k env)^T
      & eval_mx env (ptx_prog n m k false) = P^T].
Proof. exact pca_limit_feature_prog. Qed.
Print Assumptions C04_pca_limit_feature.

(* ---- mixing = 0, exact least squares, k >= rank Yh: the predictions are the regression's -- *)
Theorem C04_regression_limit :
  forall (F : rcfType) (n m p k : nat) (env : env_mx F),
    centred n m env -> e_a env = 0 -> fit_oracle n m p k env true ->
    (* normal equations of the unregularised regression *)
    (e_X n m env)^T *m (e_Y n p env - e_Yh n p env) = 0 ->
    (* the retained eigenpairs reproduce K~ = Yh Yh^T  (k >= rank Yh) *)
    eval_mx env (kern_prog n m p)
    = e_Vs n k env *m dmap (fun x => g_mk (e_tol env) x * x) (e_S k env) *m (e_Vs n k env)^T ->
    eval_mx env (predict_x_prog n m p k true (eX n m)) = e_Yh n p env
    /\ eval_mx env (predict_t_prog n m p k true (transform_prog n m p k true (eX n m))) = e_Yh n p env.
Proof. exact regression_limit_prog. Qed.
Print Assumptions C04_regression_limit.

(* ---- monotonicity in the mixing (exchange argument from optimality) -------------------------
   abstract form: subspaces optimal for mixings a < b                                           *)
Theorem C04_monotone :
  forall (F : rcfType) (n m p k : nat) (X : 'M[F]_(n, m)) (Yh : 'M[F]_(n, p)) (a b : F)
         (Qa Qb : 'M[F]_(n, k)),
    0 <= a -> a < b -> b <= 1 ->
    Qa^T *m Qa = 1%:M -> Qb^T *m Qb = 1%:M ->
    (forall Q : 'M[F]_(n, k), Q^T *m Q = 1%:M -> mixed_loss X Yh a Qa <= mixed_loss X Yh a Q) ->
    (forall Q : 'M[F]_(n, k), Q^T *m Q = 1%:M -> mixed_loss X Yh b Qb <= mixed_loss X Yh b Q) ->
    proj_loss Qb X <= proj_loss Qa X /\ proj_loss Qa Yh <= proj_loss Qb Yh.
Proof. exact mixing_monotone. Qed.
Print Assumptions C04_monotone.

Theorem C04_full_fit_meaning :
  forall (F : rcfType) (n m p k : nat) (kn : (k <= n)%N) (e : env_mx F) (U : 'M[F]_n) (L : 'cV[F]_n),
    full_fit m p kn e U L <->
    [/\ fit_oracle n m p k e true,
        U^T *m U = 1%:M /\ eval_mx e (kern_prog n m p) *m U = U *m diag_mx L^T,
        forall i j : 'I_n, (i <= j)%N -> L j 0 <= L i 0
      & forall i : 'I_k, e_S k e i 0 = L (widen_ord kn i) 0].
Proof. by []. Qed.
Print Assumptions C04_full_fit_meaning.

(* program form: two fits (environments ea, eb) of the same X, Yh with mixings a < b *)
Theorem C04_monotone_fits :
  forall (F : rcfType) (n m p k : nat) (ea eb : env_mx F) (Ua Ub : 'M[F]_n) (La Lb : 'cV[F]_n)
         (kn : (k <= n)%N),
    e_X n m ea = e_X n m eb -> e_Yh n p ea = e_Yh n p eb ->
    0 <= e_a ea -> e_a ea < e_a eb -> e_a eb <= 1 ->
    full_fit m p kn ea Ua La -> full_fit m p kn eb Ub Lb ->
    (eval_mx eb (lossx_prog n m k (eVs n k))) ord0 ord0
      <= (eval_mx ea (lossx_prog n m k (eVs n k))) ord0 ord0
    /\ (eval_mx ea (lossy_prog n p k (eVs n k))) ord0 ord0
      <= (eval_mx eb (lossy_prog n p k (eVs n k))) ord0 ord0.
Proof. exact monotone_prog. Qed.
Print Assumptions C04_monotone_fits.

(* ---- non-vacuity --------------------------------------------------------------------------- *)
Example C04_nonvacuous :
  forall F : rcfType,
    exists (ea eb : env_mx F) (U : 'M[F]_2) (La Lb : 'cV[F]_2) (Q : 'M[F]_(2, 1)),
      [/\ [/\ e_X 2 1 ea = e_X 2 1 eb, e_Yh 2 1 ea = e_Yh 2 1 eb & centred 2 1 ea],
          [/\ 0 <= e_a ea, e_a ea < e_a eb & e_a eb <= 1],
          full_fit 1 1 (isT : (1 <= 2)%N) ea U La, full_fit 1 1 (isT : (1 <= 2)%N) eb U Lb
        & Q^T *m Q = 1%:M].
Proof. exact ex_c04. Qed.
Print Assumptions C04_nonvacuous.

Example C04_nonvacuous_limits :
  forall F : rcfType,
    exists (e1 e0 : env_mx F),
      [/\ e_a e1 = 1, fit_oracle 2 1 1 1 e1 true, fit_oracle 2 1 1 1 e1 false
        & [/\ e_a e0 = 0, fit_oracle 2 1 1 1 e0 true, centred 2 1 e0,
              (e_X 2 1 e0)^T *m (e_Y 2 1 e0 - e_Yh 2 1 e0) = 0
            & eval_mx e0 (kern_prog 2 1 1)
              = e_Vs 2 1 e0 *m dmap (fun x => g_mk (e_tol e0) x * x) (e_S 1 e0) *m (e_Vs 2 1 e0)^T]].
Proof. exact ex_c04_limits. Qed.
Print Assumptions C04_nonvacuous_limits.
